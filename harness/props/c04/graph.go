package c04

// Replay of the TLC-exported graph of spec/PrivVal on the real FilePV: decoding of
// the exported edges, a transition tour that covers every edge (the graph is acyclic
// in the signing budget, so the tour is a set of behaviours from the initial state),
// grouping of the model's sub-steps into real calls, and the comparison of pi_prop
// with the model after every step and at every crash point.

import (
	"encoding/gob"
	"encoding/json"
	"fmt"
	"math/rand"
	"os"
	"sort"
	"strings"

	"github.com/lianxiangcloud/linkchain/types"

	"verifh/mbt"
)

type act struct {
	Op  string   `json:"op"`
	P   *payload `json:"p,omitempty"`
	Res string   `json:"res,omitempty"`
	Why string   `json:"why,omitempty"`
	T   int      `json:"t,omitempty"`
	K   int      `json:"k,omitempty"`
	At  string   `json:"at,omitempty"`
}

func (a act) String() string {
	b, _ := json.Marshal(a)
	return string(b)
}

type mstate struct {
	Up   bool    `json:"up"`
	Key  int     `json:"key"`
	Mem  []int   `json:"mem"`  // h r s b t k
	Disk []int   `json:"disk"` // key h r s b t k
	Tmp  []int   `json:"tmp"`
	Pc   string  `json:"pc"`
	Req  []int   `json:"req"`
	Rel  [][]int `json:"rel"`
	N    int     `json:"n"`
}

type cedge struct {
	F, T int
	A    act
}

type cgraph struct {
	States []mstate
	Edges  []cedge
	out    [][]int
}

func (g *cgraph) index() {
	g.out = make([][]int, len(g.States))
	for i, e := range g.Edges {
		g.out[e.F] = append(g.out[e.F], i)
	}
}

func compactGraph(m *mbt.Graph) (*cgraph, error) {
	g := &cgraph{States: make([]mstate, len(m.States)), Edges: make([]cedge, len(m.Edges))}
	for i, s := range m.States {
		if err := json.Unmarshal(s, &g.States[i]); err != nil {
			return nil, fmt.Errorf("state %d: %v", i, err)
		}
		sortTuples(g.States[i].Rel)
	}
	for i, e := range m.Edges {
		g.Edges[i].F, g.Edges[i].T = e.From, e.To
		if err := json.Unmarshal(e.Act, &g.Edges[i].A); err != nil {
			return nil, fmt.Errorf("edge %d: %v", i, err)
		}
	}
	g.index()
	return g, nil
}

func (g *cgraph) save(path string) error {
	f, err := os.Create(path)
	if err != nil {
		return err
	}
	defer f.Close()
	return gob.NewEncoder(f).Encode(g)
}

func loadGraph(path string) (*cgraph, error) {
	f, err := os.Open(path)
	if err != nil {
		return nil, err
	}
	defer f.Close()
	g := &cgraph{}
	if err := gob.NewDecoder(f).Decode(g); err != nil {
		return nil, err
	}
	g.index()
	return g, nil
}

// tour returns behaviours (edge sequences from state 0) that together contain every
// edge reachable from state 0. One breadth-first tree gives the access path to every
// state; from there the walk greedily follows edges not yet covered (all self-loops
// of a state first, i.e. every refused / replayed request in that state, then onward).
func (g *cgraph) tour(rng *rand.Rand) [][]int {
	n := len(g.States)
	parent := make([]int, n)
	for i := range parent {
		parent[i] = -2
	}
	parent[0] = -1
	order := []int{0}
	for qi := 0; qi < len(order); qi++ {
		s := order[qi]
		for _, ei := range g.out[s] {
			t := g.Edges[ei].T
			if parent[t] == -2 {
				parent[t] = ei
				order = append(order, t)
			}
		}
	}
	covered := make([]bool, len(g.Edges))
	left := make([]int, n)
	for s := range g.out {
		left[s] = len(g.out[s])
	}
	outs := make([][]int, n)
	for s := range g.out {
		o := append([]int{}, g.out[s]...)
		rng.Shuffle(len(o), func(i, j int) { o[i], o[j] = o[j], o[i] })
		// self-loops first
		sort.SliceStable(o, func(i, j int) bool {
			li, lj := g.Edges[o[i]].T == s, g.Edges[o[j]].T == s
			return li && !lj
		})
		outs[s] = o
	}
	pos := make([]int, n)
	next := func(s int) int {
		for pos[s] < len(outs[s]) {
			ei := outs[s][pos[s]]
			if !covered[ei] {
				return ei
			}
			pos[s]++
		}
		return -1
	}
	var tours [][]int
	for _, s := range order {
		for left[s] > 0 {
			var path []int
			for x := s; parent[x] >= 0; x = g.Edges[parent[x]].F {
				path = append(path, parent[x])
			}
			for i, j := 0, len(path)-1; i < j; i, j = i+1, j-1 {
				path[i], path[j] = path[j], path[i]
			}
			for _, ei := range path {
				if !covered[ei] {
					covered[ei] = true
					left[g.Edges[ei].F]--
				}
			}
			cur := s
			for {
				ei := next(cur)
				if ei < 0 {
					break
				}
				covered[ei] = true
				left[cur]--
				path = append(path, ei)
				cur = g.Edges[ei].T
			}
			tours = append(tours, path)
		}
	}
	return tours
}

// walks returns seeded random walks; self-loops are taken with reduced probability so
// that a walk makes progress through signing calls, crashes and reloads.
func (g *cgraph) walks(n, length int, rng *rand.Rand) [][]int {
	var out [][]int
	for i := 0; i < n; i++ {
		cur := 0
		var w []int
		for len(w) < length && len(g.out[cur]) > 0 {
			o := g.out[cur]
			ei := o[rng.Intn(len(o))]
			if g.Edges[ei].T == cur && rng.Intn(4) != 0 {
				ei = o[rng.Intn(len(o))]
			}
			w = append(w, ei)
			cur = g.Edges[ei].T
		}
		out = append(out, w)
	}
	return out
}

type behStats struct {
	Steps, Calls, Fresh, Refused, Replays, Crashes, Reloads, KeySwaps, Points, Unlinked int
}

func (s *behStats) add(o behStats) {
	s.Steps += o.Steps
	s.Calls += o.Calls
	s.Fresh += o.Fresh
	s.Refused += o.Refused
	s.Replays += o.Replays
	s.Crashes += o.Crashes
	s.Reloads += o.Reloads
	s.KeySwaps += o.KeySwaps
	s.Points += o.Points
	s.Unlinked += o.Unlinked
}

type behResult struct {
	behStats
	done    int // edges executed (including the failing one)
	mis     *mismatch
	drift   []string
	failing map[string]interface{} // concrete description of the failing step
}

func hrsClass(mem []int, p payload) string {
	switch {
	case p.H > mem[0]:
		return "higher-height"
	case p.H == mem[0] && p.R > mem[1]:
		return "higher-round"
	case p.H == mem[0] && p.R == mem[1] && p.S > mem[2]:
		return "higher-step"
	}
	return "other"
}

func (x *pvInst) describeCall(o *callOut) map[string]interface{} {
	d := map[string]interface{}{"abstract": o.p, "chain_id": o.chain, "outcome": o.class()}
	if o.err != nil {
		d["error"] = o.err.Error()
	}
	if o.codePanic != "" {
		d["panic"] = o.codePanic
	}
	if o.crashAt != "" {
		d["crash_at"] = o.crashAt
	}
	var pts []string
	for _, p := range o.points {
		pts = append(pts, p.name)
	}
	d["points_reached"] = pts
	if o.vote != nil {
		d["call"] = "SignVote"
		d["vote"] = map[string]interface{}{"height": fmt.Sprint(o.vote.Height), "round": o.vote.Round, "type": o.vote.Type,
			"block_id":  fmt.Sprintf("%x/%d:%x", o.vote.BlockID.Hash[:], o.vote.BlockID.PartsHeader.Total, []byte(o.vote.BlockID.PartsHeader.Hash)),
			"timestamp": types.CanonicalTime(o.vote.Timestamp), "signed": o.vote.Signature != nil}
	} else {
		d["call"] = "SignProposal"
		d["proposal"] = map[string]interface{}{"height": fmt.Sprint(o.prop.Height), "round": o.prop.Round,
			"parts": fmt.Sprintf("%d:%x", o.prop.BlockPartsHeader.Total, []byte(o.prop.BlockPartsHeader.Hash)), "pol_round": o.prop.POLRound,
			"pol_block_id": fmt.Sprintf("%x/%d:%x", o.prop.POLBlockID.Hash[:], o.prop.POLBlockID.PartsHeader.Total, []byte(o.prop.POLBlockID.PartsHeader.Hash)),
			"timestamp":    types.CanonicalTime(o.prop.Timestamp), "signed": o.prop.Signature != nil}
	}
	return d
}

// compareState compares the durable record and the released set with a model state.
func (x *pvInst) compareState(to *mstate, where string) *mismatch {
	disk, raw := x.readDisk()
	da := x.absFile(disk)
	if raw != nil {
		da = x.decodeCached(raw).abs
	}
	if !eqInts(da, to.Disk) {
		if disk.ok && da[0] != to.Disk[0] {
			return &mismatch{key: "file-key-changed", desc: fmt.Sprintf("%s: the key file now stores key #%d, the specification says the key it was loaded with (#%d) stays; file: %s", where, da[0], to.Disk[0], disk)}
		}
		return &mismatch{key: "file-record", desc: fmt.Sprintf("%s: the key file records %v %s, the specification says <<key,h,r,s,b,t,signer>> = %v", where, da, disk, to.Disk)}
	}
	if ra := x.relAbs(); !eqTuples(ra, to.Rel) {
		return &mismatch{key: "released-set", desc: fmt.Sprintf("%s: signatures handed out so far %v, the specification says %v (<<h,r,s,b,t,signer>>)", where, ra, to.Rel)}
	}
	return nil
}

func (x *pvInst) memDrift(to *mstate, where string, r *behResult) {
	if x.pv == nil || !to.Up {
		return
	}
	if ma := x.absRec(recOfPV(x.pv)); !eqInts(ma, to.Mem) {
		r.drift = append(r.drift, fmt.Sprintf("%s: object Last* = %v, specification mem = %v", where, ma, to.Mem))
	}
	if k := x.keyIndexOfPub(pubBytes(x.pv.GetPrikey())); k != to.Key {
		r.drift = append(r.drift, fmt.Sprintf("%s: object key #%d, specification key #%d", where, k, to.Key))
	}
}

// runBehaviour replays one behaviour (edge sequence from the initial state).
func (x *pvInst) runBehaviour(g *cgraph, seq []int, executed []bool) (res behResult) {
	fail := func(i int, m *mismatch, o *callOut) behResult {
		res.done = i + 1
		res.mis = m
		if o != nil {
			res.failing = x.describeCall(o)
		}
		return res
	}
	mark := func(i int) {
		if executed != nil {
			executed[seq[i]] = true
		}
	}
	for i := 0; i < len(seq); {
		e := &g.Edges[seq[i]]
		from, to := &g.States[e.F], &g.States[e.T]
		res.Steps++
		switch e.A.Op {
		case "updatekey":
			x.updateKey(e.A.K)
			res.KeySwaps++
			mark(i)
			if m := x.compareState(to, "after UpdatePrikey"); m != nil {
				return fail(i, m, nil)
			}
			x.memDrift(to, "after UpdatePrikey", &res)
			i++
		case "crash": // between calls (a crash inside a call is handled with the call)
			res.Crashes++
			mark(i)
			if m := x.crashIdle(); m != nil {
				return fail(i, m, nil)
			}
			if m := x.compareState(to, "after a crash between calls"); m != nil {
				return fail(i, m, nil)
			}
			i++
		case "reload":
			res.Reloads++
			mark(i)
			if m := x.reload(); m != nil {
				return fail(i, m, nil)
			}
			if m := x.compareState(to, "after LoadFilePV"); m != nil {
				return fail(i, m, nil)
			}
			x.memDrift(to, "after LoadFilePV", &res)
			i++
		case "sign": // refused or replayed: a single step
			res.Calls++
			mark(i)
			o, m := x.sign(*e.A.P, "")
			res.Points += len(o.points)
			if m != nil {
				return fail(i, m, o)
			}
			if m := x.compareCall(o, e.A.Res, &e.A, from, to); m != nil {
				return fail(i, m, o)
			}
			if e.A.Res == "refused" {
				res.Refused++
				if d := errorDrift(o.err, e.A.Why); d != "" {
					res.drift = append(res.drift, d)
				}
			} else {
				res.Replays++
			}
			x.memDrift(to, "after the call", &res)
			i++
		case "begin": // a fresh signing call: gather its sub-steps
			res.Calls++
			res.Fresh++
			j := i + 1
			for j < len(seq) {
				op := g.Edges[seq[j]].A.Op
				if op != "memset" && op != "tmpwrite" && op != "rename" {
					break
				}
				j++
			}
			// seq[i..j) = begin and the sub-steps that follow; then release, crash, or the end
			crashAt, expect := "", "signed"
			last := j // index after the last edge belonging to this call
			if j < len(seq) && g.Edges[seq[j]].A.Op == "release" {
				last = j + 1
			} else {
				// a crash edge, or the behaviour ends inside the call: crash at the pc reached
				crashAt = pcPoint[g.Edges[seq[j-1]].A.pcAfter()]
				expect = "crashed"
				if j < len(seq) && g.Edges[seq[j]].A.Op == "crash" {
					last = j + 1
					res.Crashes++
				}
			}
			o, m := x.sign(*e.A.P, crashAt)
			res.Points += len(o.points)
			for k := i; k < last; k++ {
				mark(k)
			}
			res.Steps += last - i - 1
			if m != nil {
				return fail(last-1, m, o)
			}
			// the states the model passes through at the points the call reached
			for pi := range o.points {
				ob := &o.points[pi]
				k := -1
				for kk := i; kk < j; kk++ {
					if pcPoint[g.States[g.Edges[seq[kk]].T].Pc] == ob.name {
						k = kk
					}
				}
				if k < 0 || k-i != pi {
					res.drift = append(res.drift, fmt.Sprintf("point %d of the call is %s; the specification's steps up to the end of the call are %d", pi, ob.name, j-i))
					if k < 0 {
						continue
					}
				}
				st := &g.States[g.Edges[seq[k]].T]
				if !eqInts(ob.diskAbs, st.Disk) {
					if ob.disk.ok && ob.diskAbs[0] != st.Disk[0] {
						return fail(k, &mismatch{key: "file-key-changed", desc: fmt.Sprintf("at %s the key file stores key #%d, the specification says the key it was loaded with (#%d) stays; file: %s", ob.name, ob.diskAbs[0], st.Disk[0], ob.disk)}, o)
					}
					return fail(k, &mismatch{key: "file-record/at-" + ob.name, desc: fmt.Sprintf("at %s the key file records %v %s, the specification says %v", ob.name, ob.diskAbs, ob.disk, st.Disk)}, o)
				}
				if ob.hasSig {
					return fail(k, &mismatch{key: "released-early", desc: fmt.Sprintf("at %s the signature is already in the caller's struct; the specification releases it after the save", ob.name), drift: true}, o)
				}
				if st.Pc == "tmp" && (ob.tmpNew != 1 || !eqInts(ob.tmpAbs, st.Tmp)) {
					res.drift = append(res.drift, fmt.Sprintf("at %s: %d new temp file(s) holding %v, specification tmp = %v", ob.name, ob.tmpNew, ob.tmpAbs, st.Tmp))
				}
				if !eqInts(ob.memAbs, st.Mem) {
					res.drift = append(res.drift, fmt.Sprintf("at %s: object Last* = %v, specification mem = %v", ob.name, ob.memAbs, st.Mem))
				}
			}
			if want := j - i; expect == "signed" && len(o.points) != want {
				res.drift = append(res.drift, fmt.Sprintf("the call passed %d crash points, the specification has %d steps before the release", len(o.points), want))
			}
			final := &g.States[g.Edges[seq[last-1]].T]
			if expect == "crashed" && last == j {
				// the behaviour ended inside the call; the crash itself has no edge: the
				// expected state is the one at the crash point with the object gone
				st := *final
				st.Up = false
				final = &st
			}
			if m := x.compareCall(o, expect, &g.Edges[seq[last-1]].A, from, final); m != nil {
				return fail(last-1, m, o)
			}
			x.memDrift(final, "after the call", &res)
			i = last
		default:
			// a sub-step without its call (cannot happen: behaviours start in the initial state)
			return fail(i, &mismatch{key: "harness", desc: "unexpected edge " + e.A.String(), drift: true}, nil)
		}
	}
	res.done = len(seq)
	return res
}

// pcAfter is the model pc after a step of a fresh signing call.
func (a act) pcAfter() string {
	switch a.Op {
	case "begin":
		return "signed"
	case "memset":
		return "memset"
	case "tmpwrite":
		return "tmp"
	case "rename":
		return "renamed"
	}
	return "idle"
}

// compareCall compares the outcome of a call with the model: result class, timestamp
// and signature stored in the caller's struct, then the durable record and the set of
// released payloads.
func (x *pvInst) compareCall(o *callOut, expect string, a *act, from, to *mstate) *mismatch {
	got := o.class()
	p := o.p
	if got == "panic" {
		return &mismatch{key: "panic/" + expect, desc: "the signing call panicked: " + o.codePanic}
	}
	if got != expect {
		switch {
		case expect == "refused" && got == "signed":
			return &mismatch{key: "unsafe-sign/" + a.Why, desc: fmt.Sprintf("the request must be refused (%s; last signed <<h,r,s,b,t,k>> = %v) but a new signature was made", a.Why, from.Mem)}
		case expect == "refused" && got == "replay":
			return &mismatch{key: "unsafe-replay/" + a.Why, desc: fmt.Sprintf("the request must be refused (%s; last signed %v) but the call succeeded with the stored signature", a.Why, from.Mem)}
		case expect == "replay" && got == "refused":
			return &mismatch{key: "wrongly-refused/repeat", desc: fmt.Sprintf("a repeated request (same height/round/step, payload equal up to the timestamp; last signed %v) was refused: %v", from.Mem, o.err), drift: true} // the property allows refusing a repeat
		case expect == "replay" && got == "signed":
			return &mismatch{key: "resigned-repeat", desc: fmt.Sprintf("a repeated request (last signed %v) was signed anew instead of returning the stored signature", from.Mem)}
		case expect == "signed" && got == "refused", expect == "crashed" && got == "refused":
			return &mismatch{key: "wrongly-refused/" + hrsClass(from.Mem, p), desc: fmt.Sprintf("a request above the last signed height/round/step (%v) was refused: %v", from.Mem, o.err), drift: true} // liveness, not in the (safety) statement
		case expect == "signed" && got == "replay", expect == "crashed" && got == "replay":
			return &mismatch{key: "stale-replay", desc: fmt.Sprintf("a request above the last signed height/round/step (%v) got the stored signature", from.Mem)}
		case expect == "crashed":
			return &mismatch{key: "crash-point-not-reached", desc: fmt.Sprintf("the call did not pass %s (points reached: %d)", o.crashAt, len(o.points)), drift: true}
		}
		return &mismatch{key: "outcome", desc: fmt.Sprintf("outcome %s, specification %s", got, expect)}
	}
	// timestamp in the caller's struct
	wantT := p.T
	if expect == "replay" {
		wantT = a.T
	}
	if g, w := types.CanonicalTime(o.ts), types.CanonicalTime(x.tab.timeOf(wantT, 0)); g != w {
		return &mismatch{key: "timestamp/" + expect, desc: fmt.Sprintf("timestamp in the caller's struct after the call: %s, specification: %s", g, w)}
	}
	switch expect {
	case "refused", "crashed":
		if o.sig != nil {
			return &mismatch{key: "signature-after-" + expect, desc: "the caller's struct carries a signature although the call was " + expect}
		}
	case "replay", "signed":
		if o.sig == nil || o.released == nil {
			return &mismatch{key: "no-signature", desc: "the call returned no error but the caller's struct carries no signature"}
		}
		wantK := from.Key
		if expect == "replay" {
			wantK = a.K
		}
		if o.released.abs[5] != wantK {
			return &mismatch{key: "signature-key", desc: fmt.Sprintf("the signature verifies under key #%d, specification: key #%d", o.released.abs[5], wantK)}
		}
	}
	return x.compareState(to, "after the call ("+expect+")")
}

// errorDrift compares the error text with the refusal reason of the model (pi_shape).
func errorDrift(err error, why string) string {
	if err == nil {
		return ""
	}
	want := map[string]string{"height": "Height regression", "round": "Round regression", "step": "Step regression", "conflict": "Conflicting data", "nosig": "No LastSignature found"}[why]
	if want != "" && !strings.Contains(err.Error(), want) {
		return fmt.Sprintf("error text %q, expected to contain %q", err.Error(), want)
	}
	return ""
}
