package c04

// The binding to the real code: one pvInst is a real types.FilePV on its own
// directory, driven through SignVote / SignProposal / UpdatePrikey / LoadFilePV, with
// crashes simulated at the named points of the verif build (cmn.VerifPointHook).
//
// A crash is simulated by copying the directory as it is at the crash point to a new
// "crash image" directory and then panicking out of the call (the deferred
// os.Remove / Close / Unlock that run while the panic unwinds operate on the old
// directory, which is discarded); the run continues on the image, including a
// left-over temp file. The caller's vote / proposal struct is kept: a valid signature
// in it counts as released.

import (
	"bytes"
	"fmt"
	"io/ioutil"
	"os"
	"path/filepath"
	"sort"
	"strings"
	"time"

	cmn "github.com/lianxiangcloud/linkchain/libs/common"
	"github.com/lianxiangcloud/linkchain/libs/crypto"
	"github.com/lianxiangcloud/linkchain/types"
)

const keyFileName = "priv_validator.json"

// the crash points of a fresh signing call, in order, and the model's pc after them
var pointOrder = []string{"pv:signed", "wfa:before-temp", "wfa:temp-written", "pv:saved"}
var pcPoint = map[string]string{"signed": "pv:signed", "memset": "wfa:before-temp", "tmp": "wfa:temp-written", "renamed": "pv:saved"}
var pointPc = map[string]string{"pv:signed": "signed", "wfa:before-temp": "memset", "wfa:temp-written": "tmp", "pv:saved": "renamed"}

type mismatch struct {
	key   string // stable violation key
	desc  string
	drift bool // implementation-shape only
}

func (m *mismatch) String() string { return m.key + ": " + m.desc }

// fileRec is a decoded key file (or the Last* fields of an object).
type fileRec struct {
	ok        bool // decodable
	err       string
	pub       []byte // public key of the stored private key
	h         uint64
	r         int
	s         int
	signBytes []byte
	sig       crypto.Signature
}

func (f fileRec) String() string {
	if !f.ok {
		return "undecodable(" + f.err + ")"
	}
	return fmt.Sprintf("{key=%x.. H=%d R=%d S=%d signbytes=%s sig=%v}", f.pub[len(f.pub)-4:], f.h, f.r, f.s, string(f.signBytes), f.sig != nil)
}

var pubOfPriv = map[crypto.PrivKeyEd25519][]byte{}

func pubBytes(k crypto.PrivKey) []byte {
	ed, ok := k.(crypto.PrivKeyEd25519)
	if !ok {
		return k.PubKey().Bytes()
	}
	if b, ok := pubOfPriv[ed]; ok {
		return b
	}
	if len(pubOfPriv) > 1024 {
		pubOfPriv = map[crypto.PrivKeyEd25519][]byte{}
	}
	b := ed.PubKey().Bytes()
	pubOfPriv[ed] = b
	return b
}

func recOfPV(pv *types.FilePV) fileRec {
	return fileRec{ok: true, pub: pubBytes(pv.PrivKey), h: pv.LastHeight, r: pv.LastRound, s: int(pv.LastStep),
		signBytes: append([]byte{}, pv.LastSignBytes...), sig: pv.LastSignature}
}

// decodeKeyFile decodes key file bytes with the code's own decoder.
func decodeKeyFile(b []byte) (rec fileRec) {
	defer func() {
		if r := recover(); r != nil {
			rec = fileRec{err: fmt.Sprint("panic: ", r)}
		}
	}()
	pv, err := types.LoadPVFromBytes(b)
	if err != nil {
		return fileRec{err: err.Error()}
	}
	if pv.PrivKey == nil {
		return fileRec{err: "no private key"}
	}
	return recOfPV(pv)
}

type relItem struct {
	h         uint64
	r         int
	s         int
	signBytes []byte
	sig       []byte
	abs       [6]int // h r s b t k of the model
	call      int
}

func hrsLess(h1 uint64, r1, s1 int, h2 uint64, r2, s2 int) bool {
	if h1 != h2 {
		return h1 < h2
	}
	if r1 != r2 {
		return r1 < r2
	}
	return s1 < s2
}

type pointObs struct {
	name    string
	disk    fileRec
	diskAbs []int
	tmpNew  int // temp files that were not there before the call
	tmp     fileRec
	tmpAbs  []int
	memAbs  []int
	hasSig  bool // a valid signature is already in the caller's struct
	nrel    int  // payloads released before this call
}

type callOut struct {
	p         payload
	variant   int
	chain     string
	vote      *types.Vote
	prop      *types.Proposal
	err       error
	crashed   bool
	crashAt   string
	points    []pointObs
	codePanic string // a panic raised by the code under test itself
	inPlace   *mismatch
	released  *relItem // the item this call released (nil if none)
	sig       crypto.Signature
	ts        time.Time
}

func (o *callOut) class() string {
	switch {
	case o.crashed:
		return "crashed"
	case o.codePanic != "":
		return "panic"
	case o.err != nil:
		return "refused"
	case len(o.points) > 0:
		return "signed"
	}
	return "replay"
}

type crashSignal struct{}

type pvInst struct {
	tab      table
	base     string
	dir      string
	nDirs    int
	pv       *types.FilePV
	keys     []crypto.PrivKey
	pubKeys  []crypto.PubKey
	rel      []relItem
	calls    int
	steps    int
	leftover map[string]bool
	events   []map[string]interface{} // trace recording (nil = off)
	nAbsB    int                      // number of abstract b / t values to try when abstracting
	nAbsT    int
	// caches (per validator): decoding a key file and verifying a signature are the
	// expensive parts of an observation and are repeated on unchanged inputs
	unlinked    int // calls for which no second name of the key file could be made (in-place detection off)
	fileCache   map[string]cachedFile
	signerCache map[string]int
}

type cachedFile struct {
	rec fileRec
	abs []int
}

func newInst(base string, tab table) *pvInst {
	return &pvInst{tab: tab, base: base, nAbsB: 3, nAbsT: 3}
}

func (x *pvInst) keyPath() string { return filepath.Join(x.dir, keyFileName) }

func (x *pvInst) newDir() (string, error) {
	x.nDirs++
	d := filepath.Join(x.base, fmt.Sprintf("d%d", x.nDirs))
	return d, os.MkdirAll(d, 0755)
}

// reset starts a new validator the way the node does: LoadOrGenFilePV on an empty directory.
func (x *pvInst) reset() error {
	if x.dir != "" {
		os.RemoveAll(x.dir)
	}
	d, err := x.newDir()
	if err != nil {
		return err
	}
	x.dir = d
	x.rel = nil
	x.calls, x.steps = 0, 0
	x.leftover = map[string]bool{}
	x.fileCache = map[string]cachedFile{}
	x.signerCache = map[string]int{}
	x.pv = types.LoadOrGenFilePV(x.keyPath())
	x.keys = []crypto.PrivKey{x.pv.GetPrikey(), crypto.GenPrivKeyEd25519()}
	x.pubKeys = nil
	return nil
}

func (x *pvInst) cleanup() {
	if x.dir != "" {
		os.RemoveAll(x.dir)
		x.dir = ""
	}
}

func (x *pvInst) readDisk() (fileRec, []byte) {
	b, err := ioutil.ReadFile(x.keyPath())
	if err != nil {
		return fileRec{err: err.Error()}, nil
	}
	return x.decodeCached(b).rec, b
}

// decodeCached decodes and abstracts key file contents (cached by content).
func (x *pvInst) decodeCached(b []byte) cachedFile {
	if c, ok := x.fileCache[string(b)]; ok {
		return c
	}
	rec := decodeKeyFile(b)
	c := cachedFile{rec: rec, abs: x.absFileOf(rec)}
	if len(x.fileCache) > 64 {
		x.fileCache = map[string]cachedFile{}
	}
	x.fileCache[string(b)] = c
	return c
}

func (x *pvInst) keyIndexOfPub(pub []byte) int {
	for i, k := range x.pubs() {
		if bytes.Equal(k.Bytes(), pub) {
			return i + 1
		}
	}
	return -1
}

func (x *pvInst) signerOf(signBytes []byte, sig crypto.Signature) int {
	if sig == nil {
		return -1
	}
	ck := string(sig.Bytes()) + string(signBytes)
	if k, ok := x.signerCache[ck]; ok {
		return k
	}
	res := -1
	for i, k := range x.pubs() {
		if k.VerifyBytes(signBytes, sig) {
			res = i + 1
			break
		}
	}
	if len(x.signerCache) > 256 {
		x.signerCache = map[string]int{}
	}
	x.signerCache[ck] = res
	return res
}

func (x *pvInst) pubs() []crypto.PubKey {
	if len(x.pubKeys) != len(x.keys) {
		x.pubKeys = nil
		for _, k := range x.keys {
			x.pubKeys = append(x.pubKeys, k.PubKey())
		}
	}
	return x.pubKeys
}

func indexU64(v []uint64, x uint64) int {
	for i, e := range v {
		if e == x {
			return i + 1
		}
	}
	return -1
}
func indexInt(v []int, x int) int {
	for i, e := range v {
		if e == x {
			return i
		}
	}
	return -1
}

// absRec abstracts a record to the model's <<h, r, s, b, t, k>>; -1 marks a component
// that corresponds to no abstract value (such a record matches no model state).
func (x *pvInst) absRec(f fileRec) []int {
	if !f.ok {
		return []int{-1, -1, -1, -1, -1, -1}
	}
	if f.s == 0 && f.h == 0 && f.r == 0 && len(f.signBytes) == 0 && f.sig == nil {
		return []int{0, 0, 0, 0, 0, 0}
	}
	h := indexU64(x.tab.heights, f.h)
	r := indexInt(x.tab.rounds, f.r)
	out := []int{h, r, f.s, -1, -1, x.signerOf(f.signBytes, f.sig)}
	if h < 1 || r < 0 || f.s < 1 || f.s > 3 {
		return out
	}
	for b := 1; b <= x.nAbsB; b++ {
		for t := 1; t <= x.nAbsT; t++ {
			if bytes.Equal(x.tab.signBytes(payload{h, r, f.s, b, t}), f.signBytes) {
				out[3], out[4] = b, t
				return out
			}
		}
	}
	return out
}

// absFile abstracts a key file to the model's <<key>> \o record.
func (x *pvInst) absFile(f fileRec) []int { return x.absFileOf(f) }

func (x *pvInst) absFileOf(f fileRec) []int {
	if !f.ok {
		return []int{-1, -1, -1, -1, -1, -1, -1}
	}
	return append([]int{x.keyIndexOfPub(f.pub)}, x.absRec(f)...)
}

func eqInts(a, b []int) bool {
	if len(a) != len(b) {
		return false
	}
	for i := range a {
		if a[i] != b[i] {
			return false
		}
	}
	return true
}

func (x *pvInst) tempFiles() (names []string) {
	ents, _ := ioutil.ReadDir(x.dir)
	for _, e := range ents {
		if strings.HasPrefix(e.Name(), "write-file-atomic-") {
			names = append(names, e.Name())
		}
	}
	return
}

// snapshot copies the directory as it is now to a new directory (the crash image).
func (x *pvInst) snapshot() (string, error) {
	d, err := x.newDir()
	if err != nil {
		return "", err
	}
	ents, err := ioutil.ReadDir(x.dir)
	if err != nil {
		return "", err
	}
	for _, e := range ents {
		if !e.Mode().IsRegular() {
			continue
		}
		b, err := ioutil.ReadFile(filepath.Join(x.dir, e.Name()))
		if err != nil {
			return "", err
		}
		if err := ioutil.WriteFile(filepath.Join(d, e.Name()), b, 0600); err != nil {
			return "", err
		}
	}
	return d, nil
}

// covered reports whether the durable record covers a released item: it records a
// higher HRS, or the same HRS with exactly these sign-bytes and this signature.
func covered(f fileRec, it *relItem) bool {
	if !f.ok {
		return false
	}
	if hrsLess(it.h, it.r, it.s, f.h, f.r, f.s) {
		return true
	}
	if it.h == f.h && it.r == f.r && it.s == f.s {
		return bytes.Equal(f.signBytes, it.signBytes) && f.sig != nil && bytes.Equal(f.sig.Bytes(), it.sig)
	}
	return false
}

// checkDurable is the direct form of DurableBeforeRelease on the real code.
func (x *pvInst) checkDurable(f fileRec, where string) *mismatch {
	for i := range x.rel {
		it := &x.rel[i]
		if !covered(f, it) {
			return &mismatch{key: "not-durable/" + where,
				desc: fmt.Sprintf("a signature for H=%d R=%d S=%d (%s) was handed out in call %d, but the key file (%s) records %s: a reload would sign a conflicting payload for that height/round/step",
					it.h, it.r, it.s, string(it.signBytes), it.call, where, f)}
		}
	}
	return nil
}

// structState extracts what the caller sees in its vote / proposal.
func (o *callOut) structState() (sig crypto.Signature, ts time.Time, signBytes []byte, h uint64, r int) {
	if o.vote != nil {
		return o.vote.Signature, o.vote.Timestamp, o.vote.SignBytes(o.chain), o.vote.Height, o.vote.Round
	}
	return o.prop.Signature, o.prop.Timestamp, o.prop.SignBytes(o.chain), o.prop.Height, o.prop.Round
}

// noteReleased looks at the caller's struct after a call (completed, refused or cut by
// a crash) and accounts a valid signature in it as released; it applies the direct
// forms of AtMostOnePayloadPerHRS and NoRegression.
func (x *pvInst) noteReleased(o *callOut) *mismatch {
	sig, _, sb, h, r := o.structState()
	if sig == nil {
		return nil
	}
	k := x.signerOf(sb, sig)
	if k < 0 {
		return &mismatch{key: "invalid-signature", desc: fmt.Sprintf("the call left a signature in the caller's struct that does not verify over its sign-bytes %s under any key of the validator", string(sb))}
	}
	abs := [6]int{o.p.H, o.p.R, o.p.S, o.p.B, -1, k}
	for t := 1; t <= x.nAbsT; t++ {
		q := o.p
		q.T = t
		if bytes.Equal(x.tab.signBytes(q), sb) {
			abs[4] = t
		}
	}
	it := relItem{h: h, r: r, s: o.p.S, signBytes: sb, sig: sig.Bytes(), abs: abs, call: x.calls}
	var maxIt *relItem
	for i := range x.rel {
		e := &x.rel[i]
		if e.h == it.h && e.r == it.r && e.s == it.s {
			if !bytes.Equal(e.signBytes, it.signBytes) {
				return &mismatch{key: "double-sign", desc: fmt.Sprintf("two different payloads were signed for H=%d R=%d S=%d: call %d signed %s, call %d signed %s (both signatures verify)",
					it.h, it.r, it.s, e.call, string(e.signBytes), it.call, string(it.signBytes))}
			}
			if !bytes.Equal(e.sig, it.sig) {
				return &mismatch{key: "replay-new-signature", desc: fmt.Sprintf("the repeated request for H=%d R=%d S=%d returned a signature different from the original one", it.h, it.r, it.s)}
			}
			o.released = e
			return nil
		}
		if maxIt == nil || hrsLess(maxIt.h, maxIt.r, maxIt.s, e.h, e.r, e.s) {
			maxIt = e
		}
	}
	if maxIt != nil && hrsLess(it.h, it.r, it.s, maxIt.h, maxIt.r, maxIt.s) {
		return &mismatch{key: "regression-signed", desc: fmt.Sprintf("H=%d R=%d S=%d was signed in call %d after H=%d R=%d S=%d had been signed in call %d",
			it.h, it.r, it.s, it.call, maxIt.h, maxIt.r, maxIt.s, maxIt.call)}
	}
	x.rel = append(x.rel, it)
	o.released = &x.rel[len(x.rel)-1]
	return nil
}

func (x *pvInst) relAbs() [][]int {
	out := [][]int{}
	for i := range x.rel {
		out = append(out, append([]int{}, x.rel[i].abs[:]...))
	}
	sortTuples(out)
	return out
}

func sortTuples(t [][]int) {
	sort.Slice(t, func(i, j int) bool {
		for k := range t[i] {
			if t[i][k] != t[j][k] {
				return t[i][k] < t[j][k]
			}
		}
		return false
	})
}

func eqTuples(a, b [][]int) bool {
	if len(a) != len(b) {
		return false
	}
	for i := range a {
		if !eqInts(a[i], b[i]) {
			return false
		}
	}
	return true
}

// sign performs one SignVote / SignProposal call for the abstract payload p, crashing
// at the named point if crashAt is set. It never compares with the model; it returns
// what was observed and applies the direct (model-free) oracles.
func (x *pvInst) sign(p payload, crashAt string) (*callOut, *mismatch) {
	x.calls++
	o := &callOut{p: p, variant: x.calls, crashAt: crashAt}
	if p.S == 1 {
		o.prop, o.chain = x.tab.proposal(p, o.variant)
	} else {
		o.vote, o.chain = x.tab.vote(p, o.variant, x.pv.GetAddress())
	}
	for _, n := range x.tempFiles() {
		x.leftover[n] = true
	}
	preRaw, _ := ioutil.ReadFile(x.keyPath())
	// a second name for the current key file: a save that replaces the file atomically
	// leaves this inode alone, a save that rewrites the file in place changes it
	link := filepath.Join(x.base, fmt.Sprintf("prev-%d", x.calls))
	os.Remove(link)
	linked := os.Link(x.keyPath(), link) == nil
	defer os.Remove(link)
	if !linked {
		x.unlinked++
	}

	oldDir := x.dir
	var image string
	var first *mismatch
	pv := x.pv
	hook := func(name string) {
		ob := pointObs{name: name, nrel: len(x.rel)}
		b, err := ioutil.ReadFile(x.keyPath())
		if err != nil {
			ob.disk = fileRec{err: err.Error()}
			ob.diskAbs = x.absFile(ob.disk)
		} else {
			cf := x.decodeCached(b)
			ob.disk, ob.diskAbs = cf.rec, cf.abs
		}
		for _, n := range x.tempFiles() {
			if !x.leftover[n] {
				ob.tmpNew++
				if tb, err := ioutil.ReadFile(filepath.Join(x.dir, n)); err == nil {
					cf := x.decodeCached(tb)
					ob.tmp, ob.tmpAbs = cf.rec, cf.abs
				}
			}
		}
		ob.memAbs = x.absRec(recOfPV(pv))
		// has the signature reached the caller already?
		if sig, _, sb, h, r := o.structState(); sig != nil && x.signerOf(sb, sig) > 0 {
			ob.hasSig = true
			it := relItem{h: h, r: r, s: p.S, signBytes: sb, sig: sig.Bytes()}
			if !covered(ob.disk, &it) && first == nil {
				first = &mismatch{key: "released-before-durable",
					desc: fmt.Sprintf("at %s the signature for H=%d R=%d S=%d is already in the caller's struct while the key file still records %s", name, h, r, p.S, ob.disk)}
			}
		}
		o.points = append(o.points, ob)
		if name == crashAt && !o.crashed {
			o.crashed = true
			d, err := x.snapshot()
			if err != nil {
				panic(fmt.Sprintf("harness: snapshot failed: %v", err))
			}
			image = d
			panic(crashSignal{})
		}
	}
	func() {
		defer func() {
			cmn.VerifPointHook = nil
			if r := recover(); r != nil {
				if _, ok := r.(crashSignal); !ok {
					o.codePanic = fmt.Sprint(r)
				}
			}
		}()
		cmn.VerifPointHook = hook
		if o.prop != nil {
			o.err = pv.SignProposal(o.chain, o.prop)
		} else {
			o.err = pv.SignVote(o.chain, o.vote)
		}
	}()
	o.sig, o.ts, _, _, _ = o.structState()

	// in-place overwrite detection (on the directory the code wrote to)
	postRaw, _ := ioutil.ReadFile(filepath.Join(oldDir, keyFileName))
	if linked && !bytes.Equal(preRaw, postRaw) {
		lb, _ := ioutil.ReadFile(link)
		li, e1 := os.Stat(link)
		ki, e2 := os.Stat(filepath.Join(oldDir, keyFileName))
		if !bytes.Equal(lb, preRaw) || (e1 == nil && e2 == nil && os.SameFile(li, ki)) {
			o.inPlace = x.tornWrite(preRaw, postRaw)
		}
	}
	if o.crashed {
		x.pv = nil
		x.dir = image
		os.RemoveAll(oldDir)
	}
	if first != nil {
		return o, first
	}
	if o.inPlace != nil {
		return o, o.inPlace
	}
	if o.codePanic != "" && strings.HasPrefix(o.codePanic, "harness:") {
		return o, &mismatch{key: "harness", desc: o.codePanic, drift: true}
	}
	if m := x.noteReleased(o); m != nil {
		return o, m
	}
	disk, _ := x.readDisk()
	where := "after-call"
	if o.crashed {
		where = "crash@" + crashAt
	}
	if m := x.checkDurable(disk, where); m != nil {
		return o, m
	}
	return o, nil
}

// tornWrite is reached when the code rewrote the key file in place (same inode, the
// previous image is gone). A crash during such a write leaves a prefix of the new
// contents; the images are built and decoded with the code's own decoder.
func (x *pvInst) tornWrite(pre, post []byte) *mismatch {
	if len(x.rel) == 0 {
		return nil // nothing handed out yet: reported at the next signature
	}
	lost := 0
	var detail []string
	for _, n := range []int{0, len(post) / 2, len(post) - 1} {
		if n < 0 || n > len(post) {
			continue
		}
		rec := decodeKeyFile(post[:n])
		bad := !rec.ok
		if rec.ok {
			for i := range x.rel {
				if !covered(rec, &x.rel[i]) {
					bad = true
				}
			}
		}
		if bad {
			lost++
			detail = append(detail, fmt.Sprintf("prefix of %d/%d bytes -> %s", n, len(post), rec))
		}
	}
	if lost == 0 {
		return &mismatch{key: "save-in-place", desc: "the key file is rewritten in place (same inode) instead of being replaced atomically", drift: true}
	}
	return &mismatch{key: "nonatomic-save",
		desc: fmt.Sprintf("the key file is rewritten in place (the previous image is destroyed before the new one is complete): a crash during the write leaves a file from which the last-signed record (%d signature(s) already handed out) cannot be restored: %s",
			len(x.rel), strings.Join(detail, "; "))}
}

// crashIdle simulates a crash between calls.
func (x *pvInst) crashIdle() *mismatch {
	d, err := x.snapshot()
	if err != nil {
		return &mismatch{key: "harness", desc: "snapshot: " + err.Error(), drift: true}
	}
	os.RemoveAll(x.dir)
	x.dir = d
	x.pv = nil
	disk, _ := x.readDisk()
	return x.checkDurable(disk, "crash@idle")
}

// reload is LoadFilePV on the current directory (after a crash: the crash image).
func (x *pvInst) reload() *mismatch {
	disk, _ := x.readDisk()
	if !disk.ok {
		// LoadFilePV would terminate the process (cmn.Exit); the validator cannot restart
		return &mismatch{key: "reload-fails", desc: "the key file left by the crash cannot be loaded: " + disk.err}
	}
	x.pv = types.LoadFilePV(x.keyPath())
	return x.checkDurable(disk, "reload")
}

func (x *pvInst) updateKey(k int) {
	x.pv.UpdatePrikey(x.keys[k-1])
}
