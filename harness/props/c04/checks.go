package c04

// Self-checks of the harness (instantiation tables, negative controls of the replay
// binding), the static scan for callers of the unsafe entry points, and the TLC
// validation of the recorded random sequences.

import (
	"bytes"
	"encoding/json"
	"fmt"
	"go/ast"
	"go/parser"
	"go/token"
	"io/ioutil"
	"os"
	"path/filepath"
	"strings"

	"verifh/core"
	"verifh/tlc"
)

// tablesSane checks that, in every instantiation table, distinct abstract payloads have
// distinct sign-bytes and the representation variants of a timestamp have equal ones.
func tablesSane(c *core.Ctx) bool {
	for i := 0; i < numTables(); i++ {
		tab := tableFor(i)
		for s := 1; s <= 3; s++ {
			seen := map[string]string{}
			for b := 1; b <= 3; b++ {
				for t := 1; t <= 3; t++ {
					p := payload{1, 0, s, b, t}
					sb := string(tab.signBytes(p))
					id := fmt.Sprintf("b=%d t=%d", b, t)
					if o, ok := seen[sb]; ok {
						c.Infra("instantiation %q: abstract payloads %s and %s (step %d) have the same sign-bytes", tab.name(), o, id, s)
						return false
					}
					seen[sb] = id
					for v := 1; v <= 2; v++ {
						var vb []byte
						if s == 1 {
							pr, ch := tab.proposal(p, v)
							vb = pr.SignBytes(ch)
						} else {
							vt, ch := tab.vote(p, v, nil)
							vb = vt.SignBytes(ch)
						}
						if string(vb) != sb {
							c.Infra("instantiation %q: timestamp representation %d changes the sign-bytes", tab.name(), v)
							return false
						}
					}
				}
			}
		}
		for k := 1; k < len(tab.heights); k++ {
			if tab.heights[k] <= tab.heights[k-1] {
				c.Infra("instantiation %q: heights not ascending", tab.name())
				return false
			}
		}
		for k := 1; k < len(tab.rounds); k++ {
			if tab.rounds[k] <= tab.rounds[k-1] {
				c.Infra("instantiation %q: rounds not ascending", tab.name())
				return false
			}
		}
	}
	return true
}

func repoRoot() string {
	if r := os.Getenv("VERIF_REPO"); r != "" {
		return r
	}
	return "/repo"
}

// scanCallers walks the Go sources of the repository for calls of the FilePV entry
// points that sign or reset without the durable record. They violate the invariant by
// design (spec: SignVoteWithoutSave behind the WithoutSave switch); the guarantee
// rests on their staying unused, which is reported as drift, not as a violation.
func scanCallers(c *core.Ctx) {
	root := repoRoot()
	var nonTest, test []string
	defs := 0
	files := 0
	fset := token.NewFileSet()
	err := filepath.Walk(root, func(path string, info os.FileInfo, err error) error {
		if err != nil {
			return nil
		}
		if info.IsDir() {
			n := info.Name()
			if n == "vendor" || n == ".git" || n == "node_modules" {
				return filepath.SkipDir
			}
			return nil
		}
		if !strings.HasSuffix(path, ".go") {
			return nil
		}
		files++
		b, err := ioutil.ReadFile(path)
		if err != nil || !bytes.Contains(b, []byte("SignVoteWithoutSave")) {
			return nil
		}
		f, err := parser.ParseFile(fset, path, b, 0)
		if err != nil {
			return nil
		}
		rel, _ := filepath.Rel(root, path)
		ast.Inspect(f, func(n ast.Node) bool {
			switch v := n.(type) {
			case *ast.FuncDecl:
				if v.Name.Name == "SignVoteWithoutSave" {
					defs++
				}
			case *ast.CallExpr:
				if sel, ok := v.Fun.(*ast.SelectorExpr); ok && sel.Sel.Name == "SignVoteWithoutSave" {
					pos := fmt.Sprintf("%s:%d", rel, fset.Position(v.Pos()).Line)
					if strings.HasSuffix(path, "_test.go") {
						test = append(test, pos)
					} else {
						nonTest = append(nonTest, pos)
					}
				}
			}
			return true
		})
		return nil
	})
	if err != nil || files == 0 {
		c.Infra("source scan of %s failed: %v (%d files)", root, err, files)
		return
	}
	c.SetExtra("sign_vote_without_save", map[string]interface{}{"go_files_scanned": files, "definitions": defs, "non_test_callers": nonTest, "test_callers": test})
	for _, p := range nonTest {
		c.Drift("FilePV.SignVoteWithoutSave (signs without recording; outside the guarantee by design) now has a non-test caller: %s", p)
	}
}

// pathTo returns the edge path of the breadth-first tree from state 0 to the source of edge ei, plus ei.
func (g *cgraph) pathTo(ei int) []int {
	prev := map[int]int{0: -1}
	q := []int{0}
	target := g.Edges[ei].F
	for len(q) > 0 {
		s := q[0]
		q = q[1:]
		if s == target {
			break
		}
		for _, e := range g.out[s] {
			t := g.Edges[e].T
			if _, ok := prev[t]; !ok {
				prev[t] = e
				q = append(q, t)
			}
		}
	}
	var p []int
	for x := target; prev[x] >= 0; x = g.Edges[prev[x]].F {
		p = append(p, prev[x])
	}
	for i, j := 0, len(p)-1; i < j; i, j = i+1, j-1 {
		p[i], p[j] = p[j], p[i]
	}
	return append(p, ei)
}

func (g *cgraph) clone() *cgraph {
	n := &cgraph{States: append([]mstate{}, g.States...), Edges: append([]cedge{}, g.Edges...)}
	n.index()
	return n
}

// negativeControls shows that the replay comparison is not vacuous: a behaviour that
// passes is replayed again with one expected value of the model corrupted (a result,
// a file record, the released set) and must be rejected each time.
func negativeControls(c *core.Ctx, g *cgraph, base string) bool {
	find := func(pred func(e *cedge) bool) int {
		for i := range g.Edges {
			if pred(&g.Edges[i]) {
				return i
			}
		}
		return -1
	}
	refused := find(func(e *cedge) bool {
		return e.A.Op == "sign" && e.A.Res == "refused" && g.States[e.F].N >= 1 && e.A.Why == "conflict"
	})
	rename := find(func(e *cedge) bool { return e.A.Op == "rename" && g.States[e.F].N == 2 })
	release := find(func(e *cedge) bool { return e.A.Op == "release" && g.States[e.F].N == 2 && len(g.States[e.F].Rel) == 1 })
	if refused < 0 || rename < 0 || release < 0 {
		c.Infra("negative controls: the graph lacks the edges needed (%d %d %d)", refused, rename, release)
		return false
	}
	type control struct {
		name    string
		edge    int
		corrupt func(g *cgraph, ei int)
		want    string
	}
	controls := []control{
		{"refused result turned into a replay", refused, func(g *cgraph, ei int) {
			g.Edges[ei].A.Res, g.Edges[ei].A.T, g.Edges[ei].A.K = "replay", 1, 1
		}, "wrongly-refused/repeat"},
		{"block of the file record after the rename changed", rename, func(g *cgraph, ei int) {
			st := g.States[g.Edges[ei].T]
			st.Disk = append([]int{}, st.Disk...)
			st.Disk[4] = 3 - st.Disk[4]
			g.States = append(g.States, st)
			g.Edges[ei].T = len(g.States) - 1
		}, "file-record/at-pv:saved"},
		{"released set after the release emptied", release, func(g *cgraph, ei int) {
			st := g.States[g.Edges[ei].T]
			st.Rel = st.Rel[:1]
			g.States = append(g.States, st)
			g.Edges[ei].T = len(g.States) - 1
		}, "released-set"},
	}
	var done []string
	for i, ct := range controls {
		seq := g.pathTo(ct.edge)
		if g.Edges[ct.edge].A.Op == "rename" {
			// complete the call so that the whole call is compared
			for _, e := range g.out[g.Edges[ct.edge].T] {
				if g.Edges[e].A.Op == "release" {
					seq = append(seq, e)
				}
			}
		}
		for pass := 0; pass < 2; pass++ {
			gg := g
			if pass == 1 {
				gg = g.clone()
				ct.corrupt(gg, ct.edge)
			}
			x := newInst(filepath.Join(base, fmt.Sprintf("control-%d-%d", i, pass)), tableFor(i))
			os.MkdirAll(x.base, 0755)
			if err := x.reset(); err != nil {
				c.Infra("negative control: %v", err)
				return false
			}
			r := x.runBehaviour(gg, seq, nil)
			x.cleanup()
			os.RemoveAll(x.base)
			if pass == 0 && (r.mis != nil || len(r.drift) > 0) {
				// the unmodified behaviour does not pass cleanly: a real mismatch or a change of
				// shape, which the replay jobs report; this control cannot be judged
				done = append(done, ct.name+" -> skipped (the unmodified behaviour does not pass cleanly)")
				break
			}
			if pass == 1 {
				if r.mis == nil || r.mis.key != ct.want {
					got := "accepted"
					if r.mis != nil {
						got = r.mis.String()
					}
					c.Infra("vacuous binding: control %q (expected mismatch %s) was %s", ct.name, ct.want, got)
					return false
				}
				done = append(done, ct.name+" -> rejected ("+r.mis.key+")")
			}
		}
	}
	c.SetExtra("negative_controls_replay", done)
	return true
}

// traceRuns holds the two TLC runs over the recorded random sequences: the trace as
// recorded, and a copy with the result of one refused call flipped (negative control).
type traceRuns struct {
	lines  [][]byte
	res    *tlc.Result
	nres   *tlc.Result
	target int
	errs   []string
}

// runTraceValidation only runs TLC (it may run beside the replay jobs); judgeTraces
// turns the results into the verdict.
func runTraceValidation(c *core.Ctx, specDir string, data []byte) *traceRuns {
	tr := &traceRuns{target: -1}
	runTrace := func(d []byte) *tlc.Result {
		var r *tlc.Result
		var err error
		for try := 0; try < 2; try++ {
			r, err = tlc.Run(tlc.Options{SpecDir: specDir, Module: "Trace_PrivVal", Config: "Trace_PrivVal.cfg", Workers: 1, Timeout: c.MinutesT(3, 20),
				Files: map[string][]byte{"trace.ndjson": d, "Trace_PrivVal.cfg": traceCfg()}})
			if err == nil && (r.Finished || r.Violated != "" || r.TimedOut || r.ErrorText != "") {
				break
			}
		}
		if err != nil {
			tr.errs = append(tr.errs, err.Error())
			return nil
		}
		return r
	}
	lines := bytes.Split(bytes.TrimSpace(data), []byte("\n"))
	tr.lines = lines
	if d := os.Getenv("VERIF_C04_DEBUG"); d != "" {
		ioutil.WriteFile(filepath.Join(d, "trace.ndjson"), data, 0644)
		ioutil.WriteFile(filepath.Join(d, "Trace_PrivVal.cfg"), traceCfg(), 0644)
	}
	for i := len(lines) / 2; i < len(lines); i++ {
		if bytes.Contains(lines[i], []byte(`"e":"ret"`)) && bytes.Contains(lines[i], []byte(`"ok":false`)) {
			tr.target = i
			break
		}
	}
	nDone := make(chan struct{})
	go func() {
		defer close(nDone)
		if tr.target < 0 {
			return
		}
		bad := make([][]byte, len(lines))
		copy(bad, lines)
		bad[tr.target] = bytes.Replace(lines[tr.target], []byte(`"ok":false`), []byte(`"ok":true`), 1)
		tr.nres = runTrace(append(bytes.Join(bad, []byte("\n")), '\n'))
	}()
	tr.res = runTrace(data)
	<-nDone
	return tr
}

// judgeTraces: the recorded sequences must be accepted by TLC, the corrupted copy rejected.
func judgeTraces(c *core.Ctx, tr *traceRuns, events int) {
	o := c.Out()
	for _, e := range tr.errs {
		c.Infra("trace validation: %s", e)
	}
	lines, res, nres, target := tr.lines, tr.res, tr.nres, tr.target
	accepted := func(r *tlc.Result) bool {
		return r.Finished && r.Violated == "" && !r.TimedOut && !r.Deadlock && r.ErrorText == "" && r.Distinct >= len(lines)
	}
	if res == nil {
		return
	}
	o.States += res.Distinct
	o.Transitions += res.Generated
	o.TLCRuns = append(o.TLCRuns, "Trace_PrivVal (recorded random sequences): "+res.Describe())
	if res.TimedOut {
		c.Infra("trace validation timed out: %s", res.Describe())
		return
	}
	if !accepted(res) {
		// the first unexplained line: with one worker every consumed line is one generated state
		at := res.Generated
		if at < 1 {
			at = 1
		}
		if at > len(lines) {
			at = len(lines)
		}
		var ev map[string]interface{}
		json.Unmarshal(lines[at-1], &ev)
		if ev == nil || (res.Violated == "" && !strings.Contains(res.ErrorText+res.Tail, "Accepted")) {
			c.Infra("trace validation failed without a verdict: %s\n%s\n%s", res.Describe(), res.ErrorText, res.Tail)
			return
		}
		lo := at - 12
		if lo < 0 {
			lo = 0
		}
		var ctx []string
		for _, l := range lines[lo:at] {
			ctx = append(ctx, string(l))
		}
		kind := fmt.Sprint(ev["e"])
		if n, ok := ev["name"]; ok {
			kind += "/" + fmt.Sprint(n)
		}
		what := "the recorded event is not a step of the specification"
		if res.Violated != "" {
			what = "the recorded behaviour violates " + res.Violated
		}
		c.Violate("trace-rejected/"+kind, fmt.Sprintf("recorded sequence rejected by TLC at event %d: %s", at, what),
			map[string]interface{}{"events_up_to_the_rejected_one": ctx, "tlc": res.Describe(), "seed": c.Seed})
		return
	}
	c.SetExtra("trace_validation", map[string]interface{}{"events": events, "tlc_states": res.Distinct, "accepted": true})

	if target < 0 {
		c.Infra("trace negative control: no refused call in the second half of the trace")
		return
	}
	if nres == nil {
		return
	}
	o.TLCRuns = append(o.TLCRuns, "Trace_PrivVal (negative control, one result flipped): "+nres.Describe())
	if accepted(nres) || nres.TimedOut {
		c.Infra("vacuous binding: the trace with the result of event %d flipped was not rejected (%s)", target+1, nres.Describe())
		return
	}
	c.SetExtra("negative_control_trace", fmt.Sprintf("result of event %d flipped -> rejected after %d events", target+1, nres.Generated))
}
