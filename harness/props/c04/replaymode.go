package c04

// --replay <file>: repeats the behaviour of a recorded violation on the real code.

import (
	"encoding/json"
	"fmt"
	"io/ioutil"
	"math/rand"
	"os"

	"verifh/core"
)

type replayFile struct {
	Key    string `json:"key"`
	Seed   int64  `json:"seed"`
	Record struct {
		Kind     string       `json:"kind"`
		Config   string       `json:"config"`
		Index    int          `json:"instantiation_index"`
		Steps    []replayStep `json:"steps"`
		Job      int          `json:"job"`
		Run      int          `json:"run"`
		Requests int          `json:"requests"`
	} `json:"record"`
}

func replayRecord(c *core.Ctx) {
	b, err := ioutil.ReadFile(c.Replay)
	if err != nil {
		c.Infra("replay: %v", err)
		return
	}
	var rf replayFile
	if err := json.Unmarshal(b, &rf); err != nil {
		c.Infra("replay: %v", err)
		return
	}
	// a reproduced violation is written back under the same key: keep the original record
	var whole struct {
		Record map[string]interface{} `json:"record"`
	}
	json.Unmarshal(b, &whole)
	keep := func(failing map[string]interface{}, desc string) map[string]interface{} {
		rec := whole.Record
		if rec == nil {
			rec = map[string]interface{}{}
		}
		rec["failing_call"], rec["mismatch"], rec["reproduced_by_replay"] = failing, desc, true
		return rec
	}
	base, err := scratchBase()
	if err != nil {
		c.Infra("scratch: %v", err)
		return
	}
	defer os.RemoveAll(base)
	o := c.Out()
	switch rf.Record.Kind {
	case "graph":
		// a linear graph: state i+1 is the model state after step i
		g := &cgraph{States: []mstate{{}}}
		var seq []int
		for i, s := range rf.Record.Steps {
			g.States = append(g.States, s.To)
			g.Edges = append(g.Edges, cedge{F: i, T: i + 1, A: s.Act})
			seq = append(seq, i)
		}
		g.index()
		// the state before a call is only used for messages; give every state its predecessor's record
		g.States[0] = mstate{Up: true, Key: 1, Mem: []int{0, 0, 0, 0, 0, 0}, Disk: []int{1, 0, 0, 0, 0, 0, 0}, Tmp: []int{0, 0, 0, 0, 0, 0, 0}, Pc: "idle"}
		tab := tableFor(rf.Record.Index)
		x := newInst(base, tab)
		if err := x.reset(); err != nil {
			c.Infra("reset: %v", err)
			return
		}
		r := x.runBehaviour(g, seq, nil)
		x.cleanup()
		o.Traces, o.Evaluations = 1, r.Steps
		fmt.Printf("replayed %d steps of %s under %s\n", r.done, rf.Record.Config, tab.name())
		if r.mis != nil && !r.mis.drift {
			c.Violate(r.mis.key, r.mis.desc, keep(r.failing, r.mis.desc))
		}
	case "random":
		rng := rand.New(rand.NewSource(rf.Seed*104729 + int64(rf.Record.Job)))
		for i := 0; i <= rf.Record.Run; i++ {
			tab := randomTable(rng)
			x := newInst(base, tab)
			if err := x.reset(); err != nil {
				c.Infra("reset: %v", err)
				return
			}
			tr := x.randomRun(rng, rf.Record.Requests)
			x.cleanup()
			o.Traces++
			o.Evaluations += len(tr.Events)
			if i == rf.Record.Run {
				fmt.Printf("replayed random sequence %d of job %d (%d requests) under %s\n", i, rf.Record.Job, tr.Requests, tab.name())
				if tr.mis != nil && !tr.mis.drift {
					c.Violate(tr.mis.key, tr.mis.desc, keep(tr.failing, tr.mis.desc))
				}
			}
		}
	default:
		c.Infra("replay: the record of %q (kind %q) holds no behaviour that can be replayed", rf.Key, rf.Record.Kind)
	}
}
