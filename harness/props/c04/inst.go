package c04

// Concrete instantiation of the abstract values of spec/PrivVal: heights, rounds,
// "rest of the payload" (block id / parts header / POL data / chain id) and timestamps.
// Every table is ascending (heights, rounds, times) so that the abstract order is the
// concrete order; the tables hold boundary values: 0, decimal-length changes (the key
// file stores numbers as strings), 2^32, 2^63, the maximum; block ids that differ in a
// single field, the nil block id; timestamps one millisecond apart, across a second
// boundary, the zero time.

import (
	"math"
	"time"

	cmn "github.com/lianxiangcloud/linkchain/libs/common"
	"github.com/lianxiangcloud/linkchain/types"
)

type payload struct {
	H int `json:"h"`
	R int `json:"r"`
	S int `json:"s"` // 1 proposal, 2 prevote, 3 precommit
	B int `json:"b"`
	T int `json:"t"`
}

func (p payload) hrs() [3]int { return [3]int{p.H, p.R, p.S} }

var heightTables = []struct {
	name string
	v    []uint64
}{
	{"1,2,3", []uint64{1, 2, 3}},
	{"0,1,2", []uint64{0, 1, 2}},
	{"9,10,100", []uint64{9, 10, 100}},
	{"2^32-1..", []uint64{math.MaxUint32, math.MaxUint32 + 1, math.MaxUint32 + 2}},
	{"2^63-1..", []uint64{math.MaxInt64, math.MaxInt64 + 1, math.MaxInt64 + 2}},
	{"max-2..max", []uint64{math.MaxUint64 - 2, math.MaxUint64 - 1, math.MaxUint64}},
}

var roundTables = []struct {
	name string
	v    []int
}{
	{"0,1,2", []int{0, 1, 2}},
	{"9,10,100", []int{9, 10, 100}},
	{"255,256,257", []int{255, 256, 257}},
	{"2^31-1..", []int{math.MaxInt32, math.MaxInt32 + 1, math.MaxInt32 + 2}},
	{"maxint-2..", []int{math.MaxInt64 - 2, math.MaxInt64 - 1, math.MaxInt64}},
}

func h32(fill byte, last byte) (h cmn.Hash) {
	for i := range h {
		h[i] = fill
	}
	h[len(h)-1] = last
	return
}

var (
	hashA  = h32(0xaa, 0xaa)
	hashA1 = h32(0xaa, 0xab) // differs from hashA in the last byte
	hashB  = h32(0x01, 0x02)
	partsA = []byte{1, 2, 3, 4, 5, 6, 7, 8, 9, 10, 11, 12, 13, 14, 15, 16, 17, 18, 19, 20}
	partsB = []byte{1, 2, 3, 4, 5, 6, 7, 8, 9, 10, 11, 12, 13, 14, 15, 16, 17, 18, 19, 21}
)

func bid(h cmn.Hash, total int, ph []byte) types.BlockID {
	return types.BlockID{Hash: h, PartsHeader: types.PartSetHeader{Total: total, Hash: ph}}
}

type voteVariant struct {
	chain string
	id    types.BlockID
}
type propVariant struct {
	chain    string
	parts    types.PartSetHeader
	polRound int
	polID    types.BlockID
}

// one entry per abstract b = 1, 2, 3
type blockTable struct {
	name  string
	votes [3]voteVariant
	props [3]propVariant
}

var blockTables = []blockTable{
	{"nil-vs-block",
		[3]voteVariant{{"chain", types.BlockID{}}, {"chain", bid(hashA, 1, partsA)}, {"chain", bid(hashB, 1, partsA)}},
		[3]propVariant{{"chain", types.PartSetHeader{Total: 1, Hash: partsA}, -1, types.BlockID{}},
			{"chain", types.PartSetHeader{Total: 1, Hash: partsB}, -1, types.BlockID{}},
			{"chain", types.PartSetHeader{Total: 2, Hash: partsA}, -1, types.BlockID{}}}},
	{"one-byte-of-hash",
		[3]voteVariant{{"chain", bid(hashA, 1, partsA)}, {"chain", bid(hashA1, 1, partsA)}, {"chain", bid(hashB, 1, partsA)}},
		[3]propVariant{{"chain", types.PartSetHeader{Total: 1, Hash: partsA}, 0, bid(hashA, 1, partsA)},
			{"chain", types.PartSetHeader{Total: 1, Hash: partsA}, 0, bid(hashA1, 1, partsA)},
			{"chain", types.PartSetHeader{Total: 1, Hash: partsA}, 0, types.BlockID{}}}},
	{"parts-only",
		[3]voteVariant{{"chain", bid(hashA, 1, partsA)}, {"chain", bid(hashA, 2, partsA)}, {"chain", bid(hashA, 1, partsB)}},
		[3]propVariant{{"chain", types.PartSetHeader{Total: 1, Hash: partsA}, -1, types.BlockID{}},
			{"chain", types.PartSetHeader{Total: 1, Hash: partsA}, 0, types.BlockID{}},
			{"chain", types.PartSetHeader{Total: 1, Hash: partsA}, 1, types.BlockID{}}}},
	{"chain-id-only",
		[3]voteVariant{{"chain", bid(hashA, 1, partsA)}, {"chain2", bid(hashA, 1, partsA)}, {"Chain", bid(hashA, 1, partsA)}},
		[3]propVariant{{"chain", types.PartSetHeader{Total: 1, Hash: partsA}, -1, types.BlockID{}},
			{"chain2", types.PartSetHeader{Total: 1, Hash: partsA}, -1, types.BlockID{}},
			{"Chain", types.PartSetHeader{Total: 1, Hash: partsA}, -1, types.BlockID{}}}},
	{"zero-fields",
		[3]voteVariant{{"chain", bid(cmn.Hash{}, 1, partsA)}, {"chain", bid(cmn.Hash{}, 1, nil)}, {"chain", types.BlockID{}}},
		[3]propVariant{{"chain", types.PartSetHeader{}, -1, types.BlockID{}},
			{"chain", types.PartSetHeader{Total: 1}, -1, types.BlockID{}},
			{"chain", types.PartSetHeader{Hash: partsA}, -1, types.BlockID{}}}},
	{"pol-block-parts",
		[3]voteVariant{{"", bid(hashA, 1, partsA)}, {"", bid(hashB, 1, partsA)}, {"", types.BlockID{}}},
		[3]propVariant{{"chain", types.PartSetHeader{Total: 3, Hash: partsB}, 1, bid(hashA, 1, partsA)},
			{"chain", types.PartSetHeader{Total: 3, Hash: partsB}, 1, bid(hashA, 2, partsA)},
			{"chain", types.PartSetHeader{Total: 3, Hash: partsB}, 1, bid(hashA, 1, partsB)}}},
}

var baseTime = time.Date(2019, 1, 2, 3, 4, 5, 678000000, time.UTC)

var timeTables = []struct {
	name string
	v    []time.Time
}{
	{"1ms-apart", []time.Time{baseTime, baseTime.Add(time.Millisecond), baseTime.Add(2 * time.Millisecond)}},
	{"second-boundary", []time.Time{time.Date(2020, 2, 29, 23, 59, 59, 999000000, time.UTC), time.Date(2020, 3, 1, 0, 0, 0, 0, time.UTC), time.Date(2020, 3, 1, 0, 0, 0, 1000000, time.UTC)}},
	{"zero-epoch", []time.Time{{}, time.Unix(0, 0).UTC(), baseTime}},
	{"hours-apart", []time.Time{baseTime, baseTime.Add(time.Hour), baseTime.Add(25 * time.Hour)}},
}

var zonePlus8 = time.FixedZone("plus8", 8*3600)

// table is one concrete instantiation: abstract height h is heights[h-1], abstract
// round r is rounds[r], abstract b is entry b-1 of the block table, abstract time t is
// times[t-1].
type table struct {
	label   string
	heights []uint64
	rounds  []int
	blocks  *blockTable
	times   []time.Time
}

func (t table) name() string { return t.label }

// tableFor spreads the static instantiations so that consecutive numbers differ in every dimension.
func tableFor(i int) table {
	if i < 0 {
		i = -i
	}
	h, r, b, tm := heightTables[i%len(heightTables)], roundTables[i%len(roundTables)], &blockTables[(i+i/60)%len(blockTables)], timeTables[i%len(timeTables)]
	return table{label: "heights=" + h.name + " rounds=" + r.name + " blocks=" + b.name + " times=" + tm.name,
		heights: h.v, rounds: r.v, blocks: b, times: tm.v}
}

func numTables() int {
	return len(heightTables) * len(roundTables) * len(blockTables) * len(timeTables)
}

func (t table) height(h int) uint64 { return t.heights[h-1] }
func (t table) round(r int) int     { return t.rounds[r] }

// timeOf returns the concrete timestamp of abstract time ts. variant changes the
// representation without changing the canonical (millisecond, UTC) value: another
// time zone and a sub-millisecond offset.
func (t table) timeOf(ts int, variant int) time.Time {
	v := t.times[ts-1]
	switch variant % 3 {
	case 1:
		return v.In(zonePlus8)
	case 2:
		return v.Add(999 * time.Microsecond)
	}
	return v
}

func voteType(s int) byte {
	if s == 2 {
		return types.VoteTypePrevote
	}
	return types.VoteTypePrecommit
}

// vote builds the concrete vote of an abstract payload (s = 2, 3).
func (t table) vote(p payload, variant int, addr []byte) (*types.Vote, string) {
	vv := t.blocks.votes[p.B-1]
	return &types.Vote{ValidatorAddress: addr, ValidatorIndex: 1, ValidatorSize: 4,
		Height: t.height(p.H), Round: t.round(p.R), Timestamp: t.timeOf(p.T, variant),
		Type: voteType(p.S), BlockID: vv.id}, vv.chain
}

// proposal builds the concrete proposal of an abstract payload (s = 1).
func (t table) proposal(p payload, variant int) (*types.Proposal, string) {
	pv := t.blocks.props[p.B-1]
	typ := types.ProposalTypeNormal
	return &types.Proposal{Type: typ, Height: t.height(p.H), Round: t.round(p.R), Timestamp: t.timeOf(p.T, variant),
		BlockPartsHeader: pv.parts, POLRound: pv.polRound, POLBlockID: pv.polID}, pv.chain
}

// signBytes is the canonical sign-bytes of an abstract payload under this table.
func (t table) signBytes(p payload) []byte {
	if p.S == 1 {
		pr, chain := t.proposal(p, 0)
		return pr.SignBytes(chain)
	}
	v, chain := t.vote(p, 0, nil)
	return v.SignBytes(chain)
}
