package c04

// C04 -- a validator key never signs conflicting votes or proposals, even across restarts.
//
// Model: spec/PrivVal/PrivVal.tla (FilePV signing split at the code's steps, crash at
// every step, reload; TLC checks AtMostOnePayloadPerHRS, DurableBeforeRelease,
// NoRegression, PersistFirst, DiskMonotone exhaustively on bounded instances and
// exports every transition).  Binding:
//   * the whole exported graph (a tour covering every edge, plus seeded random walks)
//     is replayed on the real types.FilePV for boundary-value instantiations, with
//     crashes simulated at the verif build's named points; after every step and at
//     every crash point pi_prop (error / no error, signature, timestamp, validity over
//     these sign-bytes, the decoded key file, the set of released payloads) is
//     compared with the model state, and the invariants are evaluated directly on
//     what the real code released and wrote;
//   * long seeded random sequences with crashes are recorded and validated by TLC
//     against the same specification (Trace_PrivVal.tla);
//   * the named deviations of the specification are checked to be caught by TLC, and
//     the sources of /repo are scanned for callers of FilePV.SignVoteWithoutSave.

import (
	"encoding/hex"
	"encoding/json"
	"fmt"
	"hash/fnv"
	"io/ioutil"
	"math/rand"
	"os"
	"path/filepath"
	"strings"
	"sync"
	"time"

	"verifh/core"
	"verifh/mbt"
	"verifh/tlc"
)

func init() { core.Register("C04", run) }

type job struct {
	Kind    string `json:"kind"`  // "graph" | "random"
	Graph   string `json:"graph"` // compact graph file
	Name    string `json:"name"`  // config name
	Idx     int    `json:"idx"`
	N       int    `json:"n"`
	Inst    int    `json:"inst"`  // instantiations per behaviour
	Walks   int    `json:"walks"` // random walks of this job
	WalkLen int    `json:"walk_len"`
	Runs    int    `json:"runs"` // random runs of this job
	Reqs    int    `json:"reqs"`
	Base    string `json:"base"`
	Out     string `json:"out"` // trace output file (random)
}

type jobResult struct {
	Kind       string           `json:"kind"`
	Name       string           `json:"name"`
	Behaviours int              `json:"behaviours"`
	Nontrivial int              `json:"nontrivial"`
	Stats      behStats         `json:"stats"`
	Violations []core.Violation `json:"violations"`
	Drift      []string         `json:"drift"`
	Executed   string           `json:"executed"` // hex bitset of executed edges
	Tables     map[string]int   `json:"tables"`
	Sample     interface{}      `json:"sample"`
	Events     int              `json:"events"`
	Requests   int              `json:"requests"`
	Released   int              `json:"released"`
}

// scratchBase prefers a memory file system: WriteFileAtomic opens its temp file with
// O_SYNC, which costs about 20 ms per signature on the sandbox disk.
func scratchBase() (string, error) {
	for _, d := range []string{"/dev/shm", ""} {
		if d != "" {
			if st, err := os.Stat(d); err != nil || !st.IsDir() {
				continue
			}
		}
		if b, err := ioutil.TempDir(d, "vc04"); err == nil {
			return b, nil
		}
	}
	return "", fmt.Errorf("no scratch directory")
}

func trimActs(g *cgraph, seq []int, done int) []string {
	var out []string
	for i := 0; i < done && i < len(seq); i++ {
		out = append(out, g.Edges[seq[i]].A.String())
	}
	return out
}

// replayStep is one step of a recorded behaviour: the model's action label and the
// model state after it (what --replay needs to repeat the comparison).
type replayStep struct {
	Act act    `json:"act"`
	To  mstate `json:"to"`
}

func stepsOf(g *cgraph, seq []int, done int) []replayStep {
	var out []replayStep
	for i := 0; i < done && i < len(seq); i++ {
		e := g.Edges[seq[i]]
		out = append(out, replayStep{e.A, g.States[e.T]})
	}
	return out
}

func bitsetHex(b []bool) string {
	by := make([]byte, (len(b)+7)/8)
	for i, v := range b {
		if v {
			by[i/8] |= 1 << uint(i%8)
		}
	}
	return hex.EncodeToString(by)
}

func orBitset(dst []bool, h string) {
	by, err := hex.DecodeString(h)
	if err != nil {
		return
	}
	for i := range dst {
		if i/8 < len(by) && by[i/8]&(1<<uint(i%8)) != 0 {
			dst[i] = true
		}
	}
}

// child runs one isolated job (the crash hook is process-global, so jobs are processes).
func child(c *core.Ctx) {
	var j job
	if err := json.Unmarshal([]byte(c.Child), &j); err != nil {
		fmt.Fprintln(os.Stderr, "bad job:", err)
		os.Exit(3)
	}
	res := jobResult{Kind: j.Kind, Name: j.Name, Tables: map[string]int{}}
	seenKey := map[string]bool{}
	base := filepath.Join(j.Base, fmt.Sprintf("%s-%s-%d", j.Kind, j.Name, j.Idx))
	os.MkdirAll(base, 0755)
	defer os.RemoveAll(base)
	report := func(m *mismatch, rec map[string]interface{}) {
		if m.drift {
			if len(res.Drift) < 20 {
				res.Drift = append(res.Drift, m.String())
			}
			return
		}
		if seenKey[m.key] {
			return
		}
		seenKey[m.key] = true
		res.Violations = append(res.Violations, core.Violation{Key: m.key, Desc: m.desc, Record: rec})
	}
	switch j.Kind {
	case "graph":
		g, err := loadGraph(j.Graph)
		if err != nil {
			fmt.Fprintln(os.Stderr, "graph:", err)
			os.Exit(3)
		}
		executed := make([]bool, len(g.Edges))
		distinct := map[uint64]bool{}
		tours := g.tour(rand.New(rand.NewSource(c.Seed)))
		var seqs [][]int
		for i, t := range tours {
			if i%j.N == j.Idx {
				seqs = append(seqs, t)
			}
		}
		nTour := len(seqs)
		seqs = append(seqs, g.walks(j.Walks, j.WalkLen, rand.New(rand.NewSource(c.Seed*7919+int64(j.Idx))))...)
		for si, seq := range seqs {
			for k := 0; k < j.Inst; k++ {
				ti := int(c.Seed)*131 + (si*j.N+j.Idx)*j.Inst + k
				if si >= nTour {
					ti += 17
				}
				tab := tableFor(ti)
				x := newInst(base, tab)
				if err := x.reset(); err != nil {
					fmt.Fprintln(os.Stderr, "reset:", err)
					os.Exit(3)
				}
				r := x.runBehaviour(g, seq, executed)
				r.Unlinked = x.unlinked
				x.cleanup()
				res.Behaviours++
				res.Stats.add(r.behStats)
				res.Tables[tab.name()]++
				if r.Fresh > 0 {
					h := fnv.New64a()
					fmt.Fprint(h, tab.name(), seq)
					if !distinct[h.Sum64()] {
						distinct[h.Sum64()] = true
						res.Nontrivial++
					}
				}
				for _, d := range r.drift {
					if len(res.Drift) < 20 {
						res.Drift = append(res.Drift, d)
					}
				}
				if res.Sample == nil && r.Crashes > 0 && r.Fresh > 1 && r.mis == nil {
					res.Sample = map[string]interface{}{"config": j.Name, "instantiation": tab.name(), "behaviour": trimActs(g, seq, len(seq))}
				}
				if r.mis != nil {
					report(r.mis, map[string]interface{}{"kind": "graph", "config": j.Name, "instantiation": tab.name(), "instantiation_index": ti,
						"behaviour": trimActs(g, seq, r.done), "steps": stepsOf(g, seq, len(seq)), "failing_call": r.failing, "mismatch": r.mis.desc})
				}
			}
			if len(res.Violations) >= 8 {
				break
			}
		}
		res.Executed = bitsetHex(executed)
	case "random":
		rng := rand.New(rand.NewSource(c.Seed*104729 + int64(j.Idx)))
		var runs []*traceRun
		for i := 0; i < j.Runs; i++ {
			tab := randomTable(rng)
			x := newInst(base, tab)
			if err := x.reset(); err != nil {
				fmt.Fprintln(os.Stderr, "reset:", err)
				os.Exit(3)
			}
			tr := x.randomRun(rng, j.Reqs)
			x.cleanup()
			res.Behaviours++
			res.Requests += tr.Requests
			res.Released += tr.Released
			res.Stats.add(behStats{Unlinked: x.unlinked, Steps: len(tr.Events), Calls: tr.Requests, Fresh: tr.Fresh, Refused: tr.Refused, Replays: tr.Replays, Crashes: tr.Crashes, Reloads: tr.Reloads, KeySwaps: tr.KeySwaps})
			if tr.Fresh > 0 {
				res.Nontrivial++
			}
			if tr.mis != nil {
				n := len(tr.Events)
				if n > 40 {
					n = 40
				}
				report(tr.mis, map[string]interface{}{"kind": "random", "instantiation": tr.Table, "seed": c.Seed, "job": j.Idx, "run": i, "requests": j.Reqs,
					"last_events": tr.Events[len(tr.Events)-n:], "failing_call": tr.failing, "mismatch": tr.mis.desc})
				continue // a run cut short by a violation is not a complete trace
			}
			if res.Sample == nil {
				n := len(tr.Events)
				if n > 12 {
					n = 12
				}
				res.Sample = map[string]interface{}{"kind": "random sequence", "instantiation": tr.Table, "first_events": tr.Events[:n], "requests": tr.Requests, "crashes": tr.Crashes}
			}
			runs = append(runs, tr)
		}
		data, n := ndjson(runs)
		res.Events = n
		if err := ioutil.WriteFile(j.Out, data, 0644); err != nil {
			fmt.Fprintln(os.Stderr, "trace:", err)
			os.Exit(3)
		}
	}
	b, _ := json.Marshal(res)
	fmt.Printf("RESULT %s\nDONE\n", b)
}

type graphCfg struct {
	name    string
	cfg     string
	inst    int // instantiations per behaviour
	walks   int
	res     *tlc.Result
	g       *cgraph
	file    string
	covered []bool
}

func run(c *core.Ctx) {
	if c.Child != "" {
		child(c)
		return
	}
	if c.Replay != "" {
		replayRecord(c)
		return
	}
	o := c.Out()
	o.Level = "model_checking"
	o.Rule = "behaviour = a path from the initial state of the TLC-exported graph of PrivVal (tour covering every edge + seeded walks) replayed on a real FilePV under one concrete instantiation, or one recorded random sequence validated against Trace_PrivVal; non-trivial = contains at least one fresh signing call; distinct = distinct (behaviour, instantiation) pairs with a fresh signing call"
	o.Assumptions = []string{
		"a crash is simulated at the four named points of a signing call (after signing, before the temp file, after the temp file, after the rename) and between calls; the directory is copied at that instant and reloaded, so the deferred cleanup of WriteFileAtomic does not take part",
		"rename within one directory is atomic and a completed O_SYNC write is durable; fsync of the directory is not modelled",
		"the key files live on a memory file system when /dev/shm is available (O_SYNC costs ~20 ms per signature on the sandbox disk)",
		"FilePV.SignVoteWithoutSave, FilePV.Reset and PrivValidator.SignData are outside the guarantee by design; the check reports drift if the first gains a non-test caller or the second a caller outside cmd/commands",
		"a valid signature found in the caller's vote / proposal after a simulated crash counts as released",
	}
	o.Trusted = []string{"TLC", "ed25519 of libs/crypto (signatures are verified with PubKey.VerifyBytes)", "the key file decoder types.LoadPVFromBytes (also used to decode crash images)", "Go reference of the abstraction from concrete records to model values (cross-checked: a corrupted expectation is rejected)"}

	if !tablesSane(c) {
		return
	}
	base, err := scratchBase()
	if err != nil {
		c.Infra("scratch: %v", err)
		return
	}
	defer os.RemoveAll(base)
	c.SetExtra("scratch_fs", base[:strings.LastIndex(base, "/")])

	specDir := c.SpecDir("PrivVal")
	var cfgs []*graphCfg
	if c.Thorough() {
		cfgs = []*graphCfg{
			{name: "PrivValFull", cfg: "PrivValFull.cfg", inst: 4, walks: 6000},
			{name: "PrivValKeys", cfg: "PrivValKeys.cfg", inst: 6, walks: 3000},
			{name: "PrivVal3", cfg: "PrivVal3.cfg", inst: 2, walks: 6000},
		}
	} else {
		cfgs = []*graphCfg{
			{name: "PrivVal", cfg: "PrivVal.cfg", inst: 1, walks: 200},
			{name: "PrivValTime", cfg: "PrivValTime.cfg", inst: 1, walks: 200},
			{name: "PrivValKeys", cfg: "PrivValKeys.cfg", inst: 1, walks: 200},
		}
	}
	var wg sync.WaitGroup
	for _, gc := range cfgs {
		wg.Add(1)
		go func(gc *graphCfg) {
			defer wg.Done()
			gc.res = runTLC(c, tlc.Options{SpecDir: specDir, Module: "PrivVal", Config: gc.cfg, Workers: 1, Timeout: c.MinutesT(4, 20)})
		}(gc)
	}
	// the named deviations must be caught by the invariants (the invariants are not vacuous)
	devs := []struct{ cfg, inv string }{{"Dev_WithoutSave.cfg", "AtMostOnePayloadPerHRS"}, {"Dev_InPlaceSave.cfg", "DurableBeforeRelease"}}
	devRes := make([]*tlc.Result, len(devs))
	for i, d := range devs {
		wg.Add(1)
		go func(i int, cfg string) {
			defer wg.Done()
			for try := 0; try < 2; try++ {
				r, err := tlc.Run(tlc.Options{SpecDir: specDir, Module: "PrivVal", Config: cfg, Workers: 1, Timeout: c.MinutesT(2, 5)})
				if err == nil {
					devRes[i] = r
					if r.Violated != "" || r.Finished || r.TimedOut {
						break
					}
				}
			}
		}(i, d.cfg)
	}
	// thorough: the largest instance is checked exhaustively (not exported) beside everything else
	bigCfgs := []string{"PrivValBig.cfg", "PrivValBigKeys.cfg"}
	bigRes := make([]*tlc.Result, len(bigCfgs))
	bigDone := make(chan struct{})
	go func() {
		defer close(bigDone)
		if c.Thorough() {
			for i, cfg := range bigCfgs {
				bigRes[i] = runTLC(c, tlc.Options{SpecDir: specDir, Module: "PrivVal", Config: cfg, Workers: 4, Timeout: c.MinutesT(4, 12)})
			}
		}
	}()
	defer func() { <-bigDone }()
	// meanwhile: the static scan and the random sequences (they do not need the graphs)
	scanCallers(c)
	nRandJobs := c.Pick(4, 12)
	randOut := make([]string, nRandJobs)
	randResults := make([][]string, nRandJobs)
	var rwg sync.WaitGroup
	for i := 0; i < nRandJobs; i++ {
		randOut[i] = filepath.Join(base, fmt.Sprintf("trace-%d.ndjson", i))
		rwg.Add(1)
		go func(i int) {
			defer rwg.Done()
			arg, _ := json.Marshal(job{Kind: "random", Name: "random", Idx: i, N: nRandJobs, Runs: c.Pick(10, 100), Reqs: c.Pick(120, 300), Base: base, Out: randOut[i]})
			rs, at, crash := c.RunChild(string(arg), c.MinutesT(3, 15))
			randResults[i] = rs
			if crash != "" {
				c.Infra("random-sequence job %d ended abnormally (at %s): %s", i, at, crash)
			}
		}(i)
	}
	// as soon as the random sequences are recorded TLC validates their traces (beside the replay jobs)
	var traces *traceRuns
	traceDone := make(chan struct{})
	defer func() { <-traceDone }() // on every return path (runs before the scratch directory is removed)
	go func() {
		defer close(traceDone)
		rwg.Wait()
		var traceData []byte
		for i := range randOut {
			if b, err := ioutil.ReadFile(randOut[i]); err == nil {
				traceData = append(traceData, b...)
			}
		}
		if len(traceData) > 0 {
			traces = runTraceValidation(c, specDir, traceData)
		}
	}()
	wg.Wait()
	dbg("tlc done")
	for i, d := range devs {
		r := devRes[i]
		if r == nil || !strings.Contains(r.Violated, d.inv) {
			desc := "no result"
			if r != nil {
				desc = r.Describe()
			}
			c.Infra("deviation config %s: TLC did not report %s (%s): the invariant would be vacuous", d.cfg, d.inv, desc)
			return
		}
	}
	c.SetExtra("deviations_caught_by_tlc", []string{"SignVoteWithoutSave -> AtMostOnePayloadPerHRS", "in-place save -> DurableBeforeRelease"})
	exhaustive := true
	for _, gc := range cfgs {
		if gc.res == nil {
			return
		}
		if gc.res.Violated != "" || !gc.res.Finished || gc.res.TimedOut {
			// a violated invariant of the design is a lead; without a reproduction on the code it is not a verdict
			c.Infra("%s model: %s\n%s", gc.name, gc.res.Describe(), gc.res.Tail)
			return
		}
		m, err := mbt.Load(gc.res.Lines)
		if err != nil {
			c.Infra("%s: edge load: %v", gc.name, err)
			return
		}
		gc.res.Lines = nil
		gc.g, err = compactGraph(m)
		if err != nil {
			c.Infra("%s: %v", gc.name, err)
			return
		}
		gc.file = filepath.Join(base, gc.name+".graph")
		if err := gc.g.save(gc.file); err != nil {
			c.Infra("%s: %v", gc.name, err)
			return
		}
		gc.covered = make([]bool, len(gc.g.Edges))
	}
	o.Exhaustive = exhaustive

	// negative controls of the replay binding (in this process, before the jobs start)
	if !negativeControls(c, cfgs[0].g, base) {
		return
	}

	dbg("graphs loaded, controls done")
	nJobs := c.Pick(10, 14)
	type jr struct {
		gc *graphCfg
		rs []string
	}
	var mu sync.Mutex
	var all []jr
	sem := make(chan struct{}, 14)
	for _, gc := range cfgs {
		n := len(gc.g.Edges) / 4000
		if n > nJobs {
			n = nJobs
		}
		if n < 2 {
			n = 2
		}
		for i := 0; i < n; i++ {
			wg.Add(1)
			go func(gc *graphCfg, i, n int) {
				defer wg.Done()
				sem <- struct{}{}
				defer func() { <-sem }()
				arg, _ := json.Marshal(job{Kind: "graph", Graph: gc.file, Name: gc.name, Idx: i, N: n, Inst: gc.inst, Walks: gc.walks / n, WalkLen: 40, Base: base})
				rs, at, crash := c.RunChild(string(arg), c.MinutesT(4, 25))
				if crash != "" {
					c.Infra("replay job %s/%d ended abnormally (at %s): %s", gc.name, i, at, crash)
				}
				mu.Lock()
				all = append(all, jr{gc, rs})
				mu.Unlock()
			}(gc, i, n)
		}
	}
	wg.Wait()
	dbg("replay jobs done")

	total := behStats{}
	tables := map[string]int{}
	collect := func(rs []string) *jobResult {
		for _, r := range rs {
			var res jobResult
			if json.Unmarshal([]byte(r), &res) != nil {
				continue
			}
			o.Traces += res.Behaviours
			o.Distinct += res.Nontrivial
			o.Evaluations += res.Stats.Steps
			total.add(res.Stats)
			for k, v := range res.Tables {
				tables[k] += v
			}
			for _, v := range res.Violations {
				c.Violate(v.Key, v.Desc, v.Record)
			}
			for _, d := range res.Drift {
				c.Drift("%s", d)
			}
			if res.Sample != nil && len(o.Samples) < 4 {
				c.Sample(res.Sample)
			}
			return &res
		}
		return nil
	}
	for _, a := range all {
		if res := collect(a.rs); res != nil {
			orBitset(a.gc.covered, res.Executed)
		}
	}
	cov := map[string]interface{}{}
	for _, gc := range cfgs {
		n := 0
		for _, b := range gc.covered {
			if b {
				n++
			}
		}
		cov[gc.name] = map[string]interface{}{"model_states": len(gc.g.States), "model_edges": len(gc.g.Edges), "edges_executed_on_the_code": n,
			"edges_by_action": edgeKinds(gc.g)}
		if n < len(gc.g.Edges) && len(o.Violations) == 0 {
			c.Infra("%s: only %d of %d exported edges were executed on the code", gc.name, n, len(gc.g.Edges))
		}
	}
	c.SetExtra("graphs", cov)

	<-bigDone
	if c.Thorough() {
		for i, r := range bigRes {
			if r != nil && !r.OK() {
				c.Infra("%s: %s\n%s", bigCfgs[i], r.Describe(), r.Tail)
			}
		}
	}
	// the random sequences, and TLC's judgement of their traces
	<-traceDone
	events, requests, released := 0, 0, 0
	for i := range randResults {
		res := collect(randResults[i])
		if res == nil {
			continue
		}
		events += res.Events
		requests += res.Requests
		released += res.Released
	}
	c.SetExtra("random_sequences", map[string]interface{}{"requests": requests, "events_recorded": events, "signatures_released": released})
	if traces != nil {
		judgeTraces(c, traces, events)
	}
	c.SetExtra("calls", map[string]interface{}{"total": total.Calls, "fresh_signing_calls": total.Fresh, "refused": total.Refused, "replayed": total.Replays,
		"crashes": total.Crashes, "reloads": total.Reloads, "key_swaps": total.KeySwaps, "crash_points_observed": total.Points})
	if total.Unlinked > 0 {
		c.Infra("no hard link to the key file could be made for %d calls: the in-place overwrite detection did not run", total.Unlinked)
	}
	c.SetExtra("instantiations_used", len(tables))
	c.SetExtra("instantiation_tables", map[string]interface{}{"heights": len(heightTables), "rounds": len(roundTables), "blocks": len(blockTables), "times": len(timeTables)})
}

// runTLC runs TLC and accounts the run in the outcome like core.Ctx.TLC does, with one
// retry when the JVM ended without a result (the sandbox is shared: a stray-process
// cleanup elsewhere can kill a running TLC).
var accMu sync.Mutex

func runTLC(c *core.Ctx, o tlc.Options) *tlc.Result {
	var r *tlc.Result
	var err error
	for try := 0; try < 2; try++ {
		r, err = tlc.Run(o)
		if err == nil && (r.Finished || r.Violated != "" || r.TimedOut || r.Deadlock) {
			break
		}
	}
	if err != nil {
		c.Infra("tlc %s/%s: %v", o.Module, o.Config, err)
		return nil
	}
	accMu.Lock()
	out := c.Out()
	out.States += r.Distinct
	out.Transitions += r.Generated
	out.TLCRuns = append(out.TLCRuns, fmt.Sprintf("%s %s: %s", o.Module, o.Config, r.Describe()))
	if out.CheckerCmd == "" {
		out.CheckerCmd = r.Cmd
	}
	accMu.Unlock()
	if r.ErrorText != "" && r.Violated == "" {
		c.Infra("tlc %s/%s error: %s\n%s", o.Module, o.Config, r.ErrorText, r.Tail)
		return nil
	}
	return r
}

var dbgStart = time.Now()

func dbg(s string) {
	if os.Getenv("VERIF_C04_DEBUG") != "" {
		fmt.Fprintf(os.Stderr, "[c04 %6.1fs] %s\n", time.Since(dbgStart).Seconds(), s)
	}
}

func edgeKinds(g *cgraph) map[string]int {
	m := map[string]int{}
	for _, e := range g.Edges {
		k := e.A.Op
		if e.A.Res != "" {
			k += "/" + e.A.Res
		}
		if e.A.Op == "crash" {
			k += "@" + e.A.At
		}
		m[k]++
	}
	return m
}
