package c04

// Long seeded random sequences on the real FilePV (arbitrary heights and rounds drawn
// from random ascending pools with boundary values, crashes at random points, reloads,
// key swaps). Besides the direct oracles applied by pvInst.sign, every run is recorded
// as a trace of events -- one event per crash point passed, per return, per crash,
// per reload -- carrying what pi_prop names (result, timestamp and signer of the
// signature in the caller's struct, the decoded key file, the number of payloads
// released so far); the traces are validated by TLC against spec/PrivVal through
// Trace_PrivVal.tla.

import (
	"encoding/json"
	"fmt"
	"math"
	"math/rand"
	"sort"

	"github.com/lianxiangcloud/linkchain/types"
)

const (
	traceHeights = 12
	traceRounds  = 5
)

// randomTable draws ascending pools of heights and rounds around boundary values.
func randomTable(rng *rand.Rand) table {
	bases := []uint64{0, 1, 7, 98, math.MaxUint32 - 3, math.MaxInt64 - 3, math.MaxUint64 - 3*traceHeights, uint64(rng.Int63())}
	h := bases[rng.Intn(len(bases))]
	var hs []uint64
	for i := 0; i < traceHeights; i++ {
		hs = append(hs, h)
		h += uint64(1 + rng.Intn(3))
	}
	rbases := []int{0, 8, 254, math.MaxInt32 - 2, math.MaxInt64 - 3*traceRounds, int(rng.Int31())}
	r := rbases[rng.Intn(len(rbases))]
	var rs []int
	for i := 0; i < traceRounds; i++ {
		rs = append(rs, r)
		r += 1 + rng.Intn(3)
	}
	b := &blockTables[rng.Intn(len(blockTables))]
	tm := timeTables[rng.Intn(len(timeTables))]
	return table{label: fmt.Sprintf("random pools heights=%d.. rounds=%d.. blocks=%s times=%s", hs[0], rs[0], b.name, tm.name),
		heights: hs, rounds: rs, blocks: b, times: tm.v}
}

type traceRun struct {
	Events   []map[string]interface{}
	Requests int
	Fresh    int
	Refused  int
	Replays  int
	Crashes  int
	Reloads  int
	KeySwaps int
	Released int
	Table    string
	mis      *mismatch
	failing  map[string]interface{}
}

// randomRun drives one validator through nReq random requests.
func (x *pvInst) randomRun(rng *rand.Rand, nReq int) *traceRun {
	tr := &traceRun{Table: x.tab.name()}
	ev := func(e map[string]interface{}) {
		disk, raw := x.readDisk()
		e["disk"] = x.absFile(disk)
		if raw != nil {
			e["disk"] = x.decodeCached(raw).abs
		}
		e["nrel"] = len(x.rel)
		tr.Events = append(tr.Events, e)
	}
	tr.Events = append(tr.Events, map[string]interface{}{"e": "reset"})
	cur := payload{H: 1, R: 0, S: 0}
	curB, atTop := 0, 0
	key := 1
	pick := func(cur, lo, hi int) int {
		switch rng.Intn(8) {
		case 0:
			cur--
		case 1, 2:
			cur++
		case 3:
			return lo + rng.Intn(hi-lo+1)
		}
		if cur < lo {
			cur = lo
		}
		if cur > hi {
			cur = hi
		}
		return cur
	}
	for tr.Requests < nReq {
		if x.pv != nil {
			if ma := x.absRec(recOfPV(x.pv)); ma[0] >= 1 && ma[1] >= 0 {
				cur = payload{H: ma[0], R: ma[1], S: ma[2]}
				curB = ma[3]
			}
		}
		if x.pv == nil {
			if m := x.reload(); m != nil {
				tr.mis = m
				return tr
			}
			key = 1
			tr.Reloads++
			ev(map[string]interface{}{"e": "reload", "mem": x.absRec(recOfPV(x.pv)), "key": x.keyIndexOfPub(pubBytes(x.pv.GetPrikey()))})
			continue
		}
		switch d := rng.Intn(40); {
		case d == 0:
			if m := x.crashIdle(); m != nil {
				tr.mis = m
				return tr
			}
			tr.Crashes++
			ev(map[string]interface{}{"e": "crash", "at": "idle", "sig": false})
			continue
		case d <= 2:
			key = 3 - key
			x.updateKey(key)
			tr.KeySwaps++
			ev(map[string]interface{}{"e": "updatekey", "k": key})
			continue
		}
		// a request relative to the last signed height/round/step
		nh, nr := len(x.tab.heights), len(x.tab.rounds)
		p := payload{H: cur.H, R: cur.R, S: cur.S, B: 1 + rng.Intn(3), T: 1 + rng.Intn(3)}
		if p.S == 0 {
			p.S = 1 + rng.Intn(3)
		}
		switch d := rng.Intn(20); {
		case d < 8: // advance: next step, next round, or next height
			switch a := rng.Intn(9); {
			case a < 5 && cur.S < 3:
				p.S = cur.S + 1 + rng.Intn(3-cur.S)
			case a < 8 && cur.R < nr-1:
				p.R, p.S = cur.R+1+rng.Intn(nr-1-cur.R), 1+rng.Intn(3)
			case cur.H < nh:
				p.H, p.R, p.S = cur.H+1, rng.Intn(nr), 1+rng.Intn(3)
			default:
				atTop++
			}
		case d < 12: // repeat the last height/round/step: same payload, other timestamp, other block
			if rng.Intn(3) > 0 && curB > 0 {
				p.B = curB
			}
		case d < 16: // regress in one component
			switch rng.Intn(3) {
			case 0:
				p.H = pick(cur.H-1, 1, nh)
				p.R, p.S = rng.Intn(nr), 1+rng.Intn(3)
			case 1:
				p.R = pick(cur.R-1, 0, nr-1)
				p.S = 1 + rng.Intn(3)
			default:
				p.S = pick(cur.S-1, 1, 3)
			}
		default:
			p.H, p.R, p.S = 1+rng.Intn(nh), rng.Intn(nr), 1+rng.Intn(3)
		}
		if atTop > 6 {
			break // the pools are exhausted: nothing above the last signed HRS is left
		}
		crashAt := ""
		if rng.Intn(4) == 0 {
			crashAt = pointOrder[rng.Intn(len(pointOrder))]
		}
		tr.Requests++
		o, m := x.sign(p, crashAt)
		pa := []int{p.H, p.R, p.S, p.B, p.T}
		for _, ob := range o.points {
			e := map[string]interface{}{"e": "pt", "name": ob.name, "p": pa, "disk": ob.diskAbs, "mem": ob.memAbs, "sig": ob.hasSig, "nrel": ob.nrel}
			if ob.name == "wfa:temp-written" {
				e["tmp"] = ob.tmpAbs
				e["ntmp"] = ob.tmpNew
			}
			tr.Events = append(tr.Events, e)
		}
		if m != nil {
			tr.mis = m
			tr.failing = x.describeCall(o)
			return tr
		}
		switch o.class() {
		case "crashed":
			tr.Crashes++
			ev(map[string]interface{}{"e": "crash", "at": pointPc[crashAt], "sig": o.sig != nil})
		case "panic":
			tr.mis = &mismatch{key: "panic/random", desc: "the signing call panicked: " + o.codePanic}
			tr.failing = x.describeCall(o)
			return tr
		default:
			e := map[string]interface{}{"e": "ret", "p": pa, "ok": o.err == nil, "pts": len(o.points), "t": 0, "k": 0,
				"mem": x.absRec(recOfPV(x.pv)), "ts": types.CanonicalTime(o.ts)}
			if o.released != nil {
				e["t"], e["k"] = o.released.abs[4], o.released.abs[5]
			} else if o.sig != nil {
				e["k"] = -1
			}
			// the timestamp now in the caller's struct, as an abstract time (0 = none of the pool)
			e["rt"] = 0
			for t := 1; t <= len(x.tab.times); t++ {
				if types.CanonicalTime(x.tab.timeOf(t, 0)) == types.CanonicalTime(o.ts) {
					e["rt"] = t
				}
			}
			ev(e)
			switch o.class() {
			case "signed":
				tr.Fresh++
			case "replay":
				tr.Replays++
			default:
				tr.Refused++
			}
		}
	}
	tr.Released = len(x.rel)
	return tr
}

// ndjson renders runs as one trace file; every run starts with a reset event.
func ndjson(runs []*traceRun) ([]byte, int) {
	var out []byte
	n := 0
	for _, r := range runs {
		for _, e := range r.Events {
			b, _ := json.Marshal(e)
			out = append(out, b...)
			out = append(out, '\n')
			n++
		}
	}
	return out, n
}

// traceCfg is the TLC configuration of a trace validation run: the value sets only have
// to contain what the traces use.
func traceCfg() []byte {
	return []byte(fmt.Sprintf(`SPECIFICATION TraceSpec
CONSTANTS
  Heights = {%s}
  Rounds = {%s}
  Blocks = {1, 2, 3}
  Times = {1, 2, 3}
  Keys = {1, 2}
  FileKey = 1
  MaxSigned = 1000000
  WithoutSave = FALSE
  InPlaceSave = FALSE
INVARIANTS AtMostOnePayloadPerHRS DurableBeforeRelease FileKeyUnchanged MemMatchesDisk
CONSTRAINT Consumed
POSTCONDITION Accepted
CHECK_DEADLOCK FALSE
`, intList(1, traceHeights), intList(0, traceRounds-1)))
}

func intList(lo, hi int) string {
	s := ""
	for i := lo; i <= hi; i++ {
		if s != "" {
			s += ", "
		}
		s += fmt.Sprint(i)
	}
	return s
}

func sortedKeys(m map[string]int) []string {
	var ks []string
	for k := range m {
		ks = append(ks, k)
	}
	sort.Strings(ks)
	return ks
}
