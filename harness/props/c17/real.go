package c17

// The concrete side: instantiations of the abstract addresses / powers / accums,
// execution of one abstract action on the real types.ValidatorSet (and on the real
// updateStatus through BlockExecutor.ApplyBlock), and the projection pi_prop.

import (
	"bytes"
	"encoding/hex"
	"fmt"
	"math"
	"math/big"
	"sort"
	"sync"

	cs "github.com/lianxiangcloud/linkchain/consensus"
	cmn "github.com/lianxiangcloud/linkchain/libs/common"
	"github.com/lianxiangcloud/linkchain/libs/crypto"
	dbm "github.com/lianxiangcloud/linkchain/libs/db"
	"github.com/lianxiangcloud/linkchain/libs/log"
	"github.com/lianxiangcloud/linkchain/libs/ser"
	"github.com/lianxiangcloud/linkchain/types"
)

// ---- instantiation ----------------------------------------------------------

type ident struct {
	addr crypto.Address
	pub  crypto.PubKey
}

type inst struct {
	name   string
	table  string        // name of the identity table (for replay files)
	ids    []ident       // index = abstract address - 1; ascending by address bytes
	cbs    []cmn.Address // index = abstract coinbase
	linear bool          // concrete = abstract * scale (TLC's states are directly comparable)
	scale  int64
	pmap   map[int64]int64 // non-linear: abstract power -> concrete power
	amap   map[int64]int64 // non-linear: abstract argument accum -> concrete accum
}

func (in *inst) pow(p int64) int64 {
	if in.linear {
		return p * in.scale
	}
	if v, ok := in.pmap[p]; ok {
		return v
	}
	panic(fmt.Sprintf("instantiation %s has no power for %d", in.name, p))
}

func (in *inst) acc(a int64) int64 {
	if in.linear {
		return a * in.scale
	}
	if v, ok := in.amap[a]; ok {
		return v
	}
	panic(fmt.Sprintf("instantiation %s has no accum for %d", in.name, a))
}

func (in *inst) conv(v jVal) rVal {
	return rVal{v.Addr, big.NewInt(in.pow(v.P)), big.NewInt(in.acc(v.A)), v.Cb}
}

func (in *inst) describe() map[string]interface{} {
	var addrs []string
	for _, id := range in.ids {
		addrs = append(addrs, hex.EncodeToString(id.addr))
	}
	m := map[string]interface{}{"name": in.name, "table": in.table, "n": len(in.ids), "addresses": addrs, "linear": in.linear}
	if in.linear {
		m["scale"] = in.scale
	} else {
		m["powers"] = kvList(in.pmap)
		m["accums"] = kvList(in.amap)
	}
	return m
}

func kvList(m map[int64]int64) [][2]int64 {
	var out [][2]int64
	for k, v := range m {
		out = append(out, [2]int64{k, v})
	}
	sort.Slice(out, func(i, j int) bool { return out[i][0] < out[j][0] })
	return out
}

// table returns the identity table of the given name.
func table(name string, n int) []ident {
	if name == "crafted" {
		return craftedTable(n)
	}
	return keyTable("c17/"+name, n)
}

// keyTable derives n validator identities from real ed25519 keys, sorted by address.
func keyTable(secret string, n int) []ident {
	ids := make([]ident, n)
	for i := range ids {
		pk := crypto.GenPrivKeyEd25519FromSecret([]byte(fmt.Sprintf("%s/%d", secret, i))).PubKey()
		ids[i] = ident{pk.Address(), pk}
	}
	sort.Slice(ids, func(i, j int) bool { return bytes.Compare(ids[i].addr, ids[j].addr) < 0 })
	return ids
}

// craftedTable keeps real public keys but gives the validators addresses that differ
// only at byte boundaries (shared prefixes, 0x00 / 0x7f / 0x80 / 0xff).
func craftedTable(n int) []ident {
	raw := [][]byte{
		bytes.Repeat([]byte{0x00}, 20),
		append(bytes.Repeat([]byte{0x00}, 19), 0x01),
		append([]byte{0x7f}, bytes.Repeat([]byte{0xff}, 19)...),
		append([]byte{0x80}, bytes.Repeat([]byte{0x00}, 19)...),
		append(bytes.Repeat([]byte{0xff}, 19), 0xfe),
		bytes.Repeat([]byte{0xff}, 20),
		append([]byte{0x80}, append(bytes.Repeat([]byte{0x00}, 18), 0x01)...),
	}
	sort.Slice(raw, func(i, j int) bool { return bytes.Compare(raw[i], raw[j]) < 0 })
	keys := keyTable("c17/crafted", len(raw))
	// spread the picks over the table so that both ends are used for every n
	ids := make([]ident, n)
	for i := 0; i < n; i++ {
		j := i * (len(raw) - 1) / max1(n-1)
		ids[i] = ident{crypto.Address(raw[j]), keys[j].pub}
	}
	return ids
}

func max1(x int) int {
	if x < 1 {
		return 1
	}
	return x
}

var coinbases = []cmn.Address{cmn.EmptyAddress, cmn.HexToAddress("0x00000000000000000000000000000000000000c1"), cmn.HexToAddress("0xffffffffffffffffffffffffffffffffffffff17")}

func (in *inst) mk(addr int, p, a int64, cb int) *types.Validator {
	id := in.ids[addr-1]
	return &types.Validator{Address: append(crypto.Address{}, id.addr...), PubKey: id.pub, CoinBase: in.cbs[cb], VotingPower: p, Accum: a}
}

func (in *inst) mkJ(v jVal) *types.Validator { return in.mk(v.Addr, in.pow(v.P), in.acc(v.A), v.Cb) }

func (in *inst) addrOf(a crypto.Address) int {
	for i, id := range in.ids {
		if bytes.Equal(id.addr, a) {
			return i + 1
		}
	}
	return -1
}

// ---- expected values ---------------------------------------------------------

type expVal struct {
	addr int
	p, a int64
	cb   int
}

type expSet struct {
	live bool
	vals []expVal
	prop int    // raw cached proposer (0 = nil)
	pt   string // what the cached pointer points at ("nil" | "elem" | "detached")
	gp   int
	tot  int64
	rot  bool
}

func (e expSet) identity() string {
	s := ""
	for _, v := range e.vals {
		s += fmt.Sprintf("%d:%d:%d;", v.addr, v.p, v.cb)
	}
	return s
}

func (e expSet) String() string {
	s := "["
	for _, v := range e.vals {
		s += fmt.Sprintf("{addr %d power %d accum %d cb %d} ", v.addr, v.p, v.a, v.cb)
	}
	return s + fmt.Sprintf("] proposer %d total %d", e.gp, e.tot)
}

// expFromJSON scales a TLC state (linear instantiations only).
func (in *inst) expFromJSON(j jSet) expSet {
	e := expSet{live: j.Live, prop: j.Prop, pt: j.Pt, gp: j.Gp, tot: j.Tot * in.scale, rot: j.Rot}
	for _, v := range j.Vals {
		e.vals = append(e.vals, expVal{v.Addr, v.P * in.scale, v.A * in.scale, v.Cb})
	}
	return e
}

// expFromRef converts a reference set computed on the 64-bit machine.
func expFromRef(m *machine, s *rSet) expSet {
	e := expSet{live: s.Live, prop: s.Prop, pt: s.Pt, rot: s.Rot}
	if !s.Live {
		return e
	}
	for _, v := range s.Vals {
		e.vals = append(e.vals, expVal{v.Addr, v.P.Int64(), v.A.Int64(), v.Cb})
	}
	e.gp = m.getProposer(s)
	e.tot = m.total(s).Int64()
	return e
}

// ---- the real holders --------------------------------------------------------

var (
	applyMu sync.Mutex // ApplyBlock writes process-wide metrics state without a lock
	m64     = newMachine(big.NewInt(math.MaxInt64), false)
	m64c    = newMachine(big.NewInt(math.MaxInt64), true)
)

type realSys struct {
	in                 *inst
	A, B               *types.ValidatorSet
	hashOf             map[string]string // identity -> Hash()
	identOf            map[string]string // Hash() -> identity
	exec               *cs.BlockExecutor
	params             types.ConsensusParams
	steps              int
	staleProposerAccum int // Copy() shares the Proposer pointer: GetProposer().Accum of a copy read through the original's validator
}

func newRealSys(in *inst) *realSys {
	return &realSys{in: in, hashOf: map[string]string{}, identOf: map[string]string{},
		exec:   cs.NewBlockExecutor(dbm.NewMemDB(), log.NewNopLogger(), cs.MockEvidencePool{}),
		params: *types.DefaultConsensusParams()}
}

type mismatch struct {
	class string // stable class of the failing observable
	text  string
}

func (m *mismatch) String() string {
	if m == nil {
		return ""
	}
	return m.class + ": " + m.text
}

// observe compares pi_prop of one real set with the expectation. viaCopy performs the
// calls that fill caches (GetProposer, TotalVotingPower) on a Copy() so that the real
// object's caches follow exactly the calls the behaviour made. Shape-level findings
// (lookups, cached pointer) are returned separately.
func (r *realSys) observe(vs *types.ValidatorSet, e expSet, viaCopy bool) (prop *mismatch, shape string) {
	in := r.in
	if !e.live {
		if vs != nil {
			return &mismatch{"holder", "a set exists where the specification has none"}, ""
		}
		return nil, ""
	}
	if vs == nil {
		return &mismatch{"holder", "no set where the specification has one"}, ""
	}
	if len(vs.Validators) != len(e.vals) {
		return &mismatch{"members", fmt.Sprintf("set has %d validators, the specification %d (%s)", len(vs.Validators), len(e.vals), e)}, ""
	}
	for i, v := range vs.Validators {
		w := e.vals[i]
		if got := in.addrOf(v.Address); got != w.addr {
			return &mismatch{"members", fmt.Sprintf("position %d holds address #%d (%X), the specification #%d", i, got, []byte(v.Address), w.addr)}, ""
		}
		if v.VotingPower != w.p {
			return &mismatch{"members", fmt.Sprintf("validator #%d has power %d, the specification %d", w.addr, v.VotingPower, w.p)}, ""
		}
		if v.CoinBase != in.cbs[w.cb] || !v.PubKey.Equals(in.ids[w.addr-1].pub) {
			return &mismatch{"members", fmt.Sprintf("validator #%d has coinbase %X / another key, the specification coinbase #%d", w.addr, v.CoinBase[:], w.cb)}, ""
		}
	}
	for i, v := range vs.Validators {
		if w := e.vals[i]; v.Accum != w.a {
			return &mismatch{"accum", fmt.Sprintf("validator #%d has Accum %d, the specification %d (real %s; specification %s)", w.addr, v.Accum, w.a, realString(in, vs), e)}, ""
		}
	}
	q := vs
	if viaCopy {
		q = vs.Copy()
	}
	gp := q.GetProposer()
	switch {
	case gp == nil && e.gp != 0:
		return &mismatch{"proposer", fmt.Sprintf("GetProposer() = nil, the specification #%d", e.gp)}, ""
	case gp != nil && in.addrOf(gp.Address) != e.gp:
		return &mismatch{"proposer", fmt.Sprintf("GetProposer() = #%d (%X), the specification #%d (real %s; specification %s)", in.addrOf(gp.Address), []byte(gp.Address), e.gp, realString(in, vs), e)}, ""
	}
	if gp != nil {
		if _, own := q.GetByAddress(gp.Address); own != nil && own.Accum != gp.Accum {
			r.staleProposerAccum++
		}
	}
	if tot := q.TotalVotingPower(); tot != e.tot {
		return &mismatch{"total", fmt.Sprintf("TotalVotingPower() = %d, the specification %d", tot, e.tot)}, ""
	}
	// saturation, stated without any reference: a total of non-negative powers is never
	// below one of them
	for _, v := range vs.Validators {
		if v.VotingPower >= 0 && q.TotalVotingPower() < v.VotingPower {
			return &mismatch{"total-wraps", fmt.Sprintf("TotalVotingPower() = %d is below the power %d of a member", q.TotalVotingPower(), v.VotingPower)}, ""
		}
	}
	// identity: Hash() is a function of (address, key, coinbase, power) in address order -- and of nothing else
	h := hex.EncodeToString(vs.Hash())
	id := e.identity()
	if old, ok := r.hashOf[id]; ok && old != h {
		return &mismatch{"hash-identity", fmt.Sprintf("Hash() = %s for a set whose members (address, power, coinbase) = %s hashed to %s before", h, id, old)}, ""
	}
	if oid, ok := r.identOf[h]; ok && oid != id {
		return &mismatch{"hash-collision", fmt.Sprintf("sets with different members %s and %s have the same Hash() %s", oid, id, h)}, ""
	}
	r.hashOf[id], r.identOf[h] = h, id
	// ---- shape ----
	if vs.Size() != len(e.vals) {
		shape = fmt.Sprintf("Size() = %d with %d validators", vs.Size(), len(e.vals))
	}
	present := map[int]int{}
	for i, w := range e.vals {
		present[w.addr] = i
	}
	for a := 1; a <= len(in.ids); a++ {
		ad := in.ids[a-1].addr
		idx, v := vs.GetByAddress(ad)
		i, ok := present[a]
		if ok != vs.HasAddress(ad) || ok != (v != nil) || (ok && idx != i) || (!ok && idx != -1) {
			shape = fmt.Sprintf("lookup of address #%d: HasAddress=%v GetByAddress=(%d,%v), member=%v at %d", a, vs.HasAddress(ad), idx, v != nil, ok, i)
		}
		if ok {
			if ba, bv := vs.GetByIndex(i); !bytes.Equal(ba, ad) || bv == nil || bv.Accum != e.vals[i].a {
				shape = fmt.Sprintf("GetByIndex(%d) does not return validator #%d", i, a)
			}
		}
	}
	if viaCopy && e.prop >= 0 {
		switch {
		case (vs.Proposer == nil) != (e.prop == 0):
			shape = fmt.Sprintf("cached Proposer nil=%v, the specification's cache holds #%d", vs.Proposer == nil, e.prop)
		case vs.Proposer != nil && in.addrOf(vs.Proposer.Address) != e.prop:
			shape = fmt.Sprintf("cached Proposer #%d, the specification's cache holds #%d", in.addrOf(vs.Proposer.Address), e.prop)
		case e.pt == "detached" && ownElement(vs, vs.Proposer):
			shape = "cached Proposer is an element of the set's own slice, the specification has a detached object (decoded set)"
		}
	}
	return nil, shape
}

func ownElement(vs *types.ValidatorSet, p *types.Validator) bool {
	for _, v := range vs.Validators {
		if v == p {
			return true
		}
	}
	return false
}

func realString(in *inst, vs *types.ValidatorSet) string {
	s := "["
	for _, v := range vs.Validators {
		s += fmt.Sprintf("{addr %d power %d accum %d} ", in.addrOf(v.Address), v.VotingPower, v.Accum)
	}
	p := 0
	if vs.Proposer != nil {
		p = in.addrOf(vs.Proposer.Address)
	}
	return s + fmt.Sprintf("] cached proposer %d", p)
}

// rotView is what a rotation can change: every Accum and the proposer.
type rotView struct {
	acc []int64
	gp  int
}

func (r *realSys) rotOf(vs *types.ValidatorSet) rotView {
	v := rotView{}
	for _, x := range vs.Validators {
		v.acc = append(v.acc, x.Accum)
	}
	if p := vs.Copy().GetProposer(); p != nil {
		v.gp = r.in.addrOf(p.Address)
	}
	return v
}

func (a rotView) equal(b rotView) bool {
	if a.gp != b.gp || len(a.acc) != len(b.acc) {
		return false
	}
	for i := range a.acc {
		if a.acc[i] != b.acc[i] {
			return false
		}
	}
	return true
}

func (a rotView) String() string { return fmt.Sprintf("accums %v proposer #%d", a.acc, a.gp) }

// build constructs a real set in an arbitrary state through the exported fields.
func (in *inst) build(e expSet) *types.ValidatorSet {
	vs := &types.ValidatorSet{}
	for _, v := range e.vals {
		vs.Validators = append(vs.Validators, in.mk(v.addr, v.p, v.a, v.cb))
	}
	if e.prop > 0 {
		for _, v := range vs.Validators {
			if in.addrOf(v.Address) == e.prop {
				vs.Proposer = v
			}
		}
	}
	return vs
}

// updateStatus runs the real consensus.updateStatus through BlockExecutor.ApplyBlock on
// a first block whose header matches a status that holds `cur` as its validator set.
func (r *realSys) updateStatus(cur *types.ValidatorSet, list []*types.Validator) (next, last *types.ValidatorSet, changed bool, err error) {
	status := cs.NewStatus{
		ChainID:                          "c17",
		LastBlockHeight:                  types.BlockHeightZero,
		Validators:                       cur,
		LastValidators:                   types.NewValidatorSet(nil),
		LastHeightValidatorsChanged:      types.BlockHeightOne,
		ConsensusParams:                  r.params,
		LastHeightConsensusParamsChanged: types.BlockHeightOne,
	}
	block := types.MakeBlock(types.BlockHeightOne, nil, &types.Commit{})
	block.Header.ChainID = status.ChainID
	block.Header.Time = 1
	block.ValidatorsHash = cmn.BytesToHash(cur.Hash())
	block.ConsensusHash = cmn.BytesToHash(r.params.Hash())
	block.LastCommitHash = block.LastCommit.Hash()
	block.DataHash = block.Data.Hash()
	block.EvidenceHash = block.Evidence.Hash()
	applyMu.Lock()
	ns, err := r.exec.ApplyBlock(status, types.BlockID{}, block, list)
	applyMu.Unlock()
	if err != nil {
		return nil, nil, false, err
	}
	return ns.Validators, ns.LastValidators, ns.LastHeightValidatorsChanged == types.BlockHeightOne+1, nil
}

// ---- persist-and-reload ---------------------------------------------------------------

// reloaded is what one of the node's persistence routes gives back for a set.
type reloaded struct {
	route string
	vs    *types.ValidatorSet
}

// reload persists one set the way the node does and loads it again, along every route the
// node has: the codec on ValidatorsInfo (LoadValidators) and on NewStatus (NewStatus.Bytes /
// loadStatus), and the real SaveStatus / LoadStatus / LoadStatusByHeight / LoadValidators
// on a MemDB followed by status.Copy() -- what node.NewNode hands to the consensus state,
// the block-sync reactor and the evidence pool after a restart.  The set sits in the field
// it has in the node: status.Validators (holder A) or status.LastValidators (holder B);
// the other field holds the other holder's set, or an empty set.
func (r *realSys) reload(vs, other *types.ValidatorSet, asLast bool) ([]reloaded, error) {
	if other == nil {
		other = types.NewValidatorSet(nil)
	}
	const lastHeight = uint64(7)
	status := cs.NewStatus{
		ChainID:                          "c17",
		LastBlockHeight:                  lastHeight,
		LastBlockTotalTx:                 3,
		LastBlockTime:                    1700000000,
		Validators:                       vs,
		LastValidators:                   other,
		LastHeightValidatorsChanged:      lastHeight + 1, // the set is stored under its own height as well
		ConsensusParams:                  r.params,
		LastHeightConsensusParamsChanged: types.BlockHeightOne,
	}
	if asLast {
		status.Validators, status.LastValidators = other, vs
	}
	pick := func(st cs.NewStatus) *types.ValidatorSet {
		if asLast {
			return st.LastValidators
		}
		return st.Validators
	}
	var out []reloaded
	// 1. the codec alone, on the record LoadValidators reads
	{
		buf, err := ser.EncodeToBytes(&cs.ValidatorsInfo{ValidatorSet: vs, LastHeightChanged: lastHeight + 1})
		if err != nil {
			return nil, fmt.Errorf("encoding ValidatorsInfo: %v", err)
		}
		v := new(cs.ValidatorsInfo)
		if err := ser.DecodeBytes(buf, v); err != nil {
			return nil, fmt.Errorf("decoding ValidatorsInfo: %v", err)
		}
		out = append(out, reloaded{"ser(ValidatorsInfo)", v.ValidatorSet})
	}
	// 2. the codec alone, on the status
	{
		var st cs.NewStatus
		if err := ser.DecodeBytes(status.Bytes(), &st); err != nil {
			return nil, fmt.Errorf("decoding NewStatus.Bytes(): %v", err)
		}
		out = append(out, reloaded{"ser(NewStatus)", pick(st)})
	}
	// 3. the real store
	db := dbm.NewMemDB()
	cs.SaveStatus(db, status)
	st, err := cs.LoadStatus(db)
	if err != nil {
		return nil, fmt.Errorf("LoadStatus after SaveStatus: %v", err)
	}
	out = append(out, reloaded{"SaveStatus;LoadStatus;status.Copy()", pick(st.Copy())})
	sth, err := cs.LoadStatusByHeight(db, lastHeight)
	if err != nil {
		return nil, fmt.Errorf("LoadStatusByHeight after SaveStatus: %v", err)
	}
	out = append(out, reloaded{"SaveStatus;LoadStatusByHeight;status.Copy()", pick(sth.Copy())})
	if !asLast {
		lv, _, err := cs.LoadValidators(db, lastHeight+1)
		if err != nil {
			return nil, fmt.Errorf("LoadValidators after SaveStatus: %v", err)
		}
		out = append(out, reloaded{"SaveStatus;LoadValidators", lv})
	}
	for _, o := range out {
		if o.vs == nil {
			return nil, fmt.Errorf("%s gave no set back", o.route)
		}
	}
	return out, nil
}
