package c17

// C17 -- proposer schedule and validator-set updates are deterministic and
// path-independent.
//
// Model: spec/ValSet/ValSet.tla (types.ValidatorSet as the record the Go struct is, one
// action per public call, two holders A / B for Copy(), twins and LastValidators; the
// rotation algorithm behind the switch IncAlgo = "fixed" | "coded").  TLC exhausts
//   ValSet.cfg        rotation / twin sub-model (every set over 3 addresses, whole cycles)
//   ValSetMods.cfg    Add / Update / Remove / updateStatus with changed lists
//   ValSetClip.cfg    the same operators on a 5-bit machine (totals and priorities clip)
//   ValSetReload.cfg / ValSetReloadMods.cfg  the action Reload(t): a holder's set is replaced by
//                     what decoding its encoding yields (restart: SaveStatus .. LoadStatus) --
//                     same validators and accums, the cached Proposer a detached object (tag
//                     `pt`), the cached total gone -- in any state of the rotation cycles /
//                     around structural changes, followed by any action; ReloadTransparent,
//                     TwinAgreement, EvidenceProposerAgrees, CachesCoherent
//   ValSetAsCoded.cfg IncrementAccum(k) exactly as /repo has it -- PathIndependence is
//                     violated; the counterexample is a lead
//   ValSetCopyIdentity.cfg  negative instance (Copy() keeps the proposer only if it is one of
//                     the copied elements): TLC must report ReloadTransparent violated
// and in the thorough tier also ValSetBig / ValSetModsBig / ValSetMods2 / ValSetClipBig /
// ValSetClipMods / ValSetReloadBig / ValSetReloadMods3 / ValSetClipReload.  Binding:
//   1. the lead of the as-coded instance is replayed on the real ValidatorSet;
//   2. every transition of every exported graph is replayed (tour + seeded walks, one child
//      process per graph and instantiation) on the real types.ValidatorSet and the real
//      consensus.updateStatus (through BlockExecutor.ApplyBlock) for several instantiations
//      of addresses, powers and accums; after every step GetProposer(), every Accum,
//      Hash(), TotalVotingPower() and the membership of both holders are compared with
//      TLC's state; the first time an edge / state is reached also: every order of the
//      list, Copy() aliasing in both directions, every composition of a rotation by
//      2..MaxK+1 against the single call, a whole window of `total` single steps;
//      Reload = the codec the node uses for the status (ser on ValidatorsInfo and on
//      NewStatus.Bytes()) and the real SaveStatus / LoadStatus / LoadStatusByHeight /
//      LoadValidators on a MemDB followed by status.Copy() as node.NewNode does; every
//      route's set, its Copy() and the copy of that are compared (proposer, every Accum,
//      Hash, total) and one of them replaces the holder for the rest of the behaviour;
//   3. seeded walks beyond the model's bounds (7 validators, extreme powers and accums,
//      rotations by up to 12) against the Go transcription of the specification, which is
//      cross-checked against TLC on every exported edge;
//   4. consensus level (node.go): two real ConsensusState observers, one walking through
//      the rounds, one skipping; proposer, acceptance of the proposal, fault evidence, the
//      sets carried into the next height; and (restart.go) one observer rebuilt from its own
//      status DB at height 1 or 2 against one that kept running: proposers of both heights,
//      LastValidators' proposer, proposal acceptance, validateBlock / VerifyFaultValEvidence
//      of block 2, the sets carried into height 3;
//   5. negative controls: a corrupted expectation must be rejected.
// A mismatch on IncrementAccum(k >= 2) that is exactly what the specification's as-coded
// operator predicts is reported under the one key path-dependence/increment-accum-k and
// the behaviour continues on the designed path (k single calls), so that everything else
// stays checked on a tree that still has the deviation.

import (
	"encoding/json"
	"fmt"
	"io/ioutil"
	"math"
	"math/big"
	"math/rand"
	"os"
	"path/filepath"
	"regexp"
	"sort"
	"strconv"
	"strings"
	"sync"
	"time"

	"github.com/lianxiangcloud/linkchain/types"

	"verifh/core"
	"verifh/mbt"
	"verifh/tlc"
)

func init() { core.Register("C17", run) }

const keyPathDep = "path-dependence/increment-accum-k"

// ---- a loaded graph ----------------------------------------------------------

type graph struct {
	cfg    string
	g      *mbt.Graph
	states []jState
	acts   []jAct
	maxI   *big.Int
	maxK   int
	tour   [][]int
	lines  []string
	// largest magnitudes in the graph (for the largest scale at which nothing clips)
	maxAbs int64
	powers []int64 // abstract powers, ascending
	accums []int64 // abstract argument accums, ascending
}

var reConst = regexp.MustCompile(`(?m)^\s*(\w+)\s*=\s*(-?\d+)\s*$`)

func cfgInt(specDir, cfg, name string) (int64, error) {
	b, err := ioutil.ReadFile(specDir + "/" + cfg)
	if err != nil {
		return 0, err
	}
	for _, m := range reConst.FindAllStringSubmatch(string(b), -1) {
		if m[1] == name {
			return strconv.ParseInt(m[2], 10, 64)
		}
	}
	return 0, fmt.Errorf("%s: constant %s not found", cfg, name)
}

func loadGraph(c *core.Ctx, cfg string, lines []string) (*graph, error) {
	// the initial state must come first whatever order TLC printed the edges in
	for i, l := range lines {
		if strings.HasPrefix(l, `{"from":{"A":{"live":false`) || strings.Contains(l[:min(len(l), 200)], `"op":"new"`) {
			lines[0], lines[i] = lines[i], lines[0]
			break
		}
	}
	g, err := mbt.Load(lines)
	if err != nil {
		return nil, err
	}
	gr := &graph{cfg: cfg, g: g, states: make([]jState, len(g.States)), acts: make([]jAct, len(g.Edges))}
	for i, s := range g.States {
		if err := json.Unmarshal(s, &gr.states[i]); err != nil {
			return nil, fmt.Errorf("state %d: %v", i, err)
		}
	}
	if gr.states[0].A.Live {
		return nil, fmt.Errorf("state 0 is not the initial state")
	}
	pw, ac := map[int64]bool{}, map[int64]bool{}
	note := func(v jVal) {
		pw[v.P] = true
		ac[v.A] = true
	}
	for i, e := range g.Edges {
		if err := json.Unmarshal(e.Act, &gr.acts[i]); err != nil {
			return nil, fmt.Errorf("action %d: %v", i, err)
		}
		a := gr.acts[i]
		for _, v := range a.List {
			note(v)
		}
		if a.V != nil {
			note(*a.V)
		}
	}
	for _, s := range gr.states {
		for _, set := range []jSet{s.A, s.B} {
			for _, v := range set.Vals {
				if x := abs64(v.A); x > gr.maxAbs {
					gr.maxAbs = x
				}
			}
			if set.Tot > gr.maxAbs {
				gr.maxAbs = set.Tot
			}
		}
	}
	for p := range pw {
		gr.powers = append(gr.powers, p)
	}
	for a := range ac {
		gr.accums = append(gr.accums, a)
	}
	sort.Slice(gr.powers, func(i, j int) bool { return gr.powers[i] < gr.powers[j] })
	sort.Slice(gr.accums, func(i, j int) bool { return gr.accums[i] < gr.accums[j] })
	mi, err := cfgInt(c.SpecDir("ValSet"), cfg, "MaxI")
	if err != nil {
		return nil, err
	}
	gr.maxI = big.NewInt(mi)
	mk, err := cfgInt(c.SpecDir("ValSet"), cfg, "MaxK")
	if err != nil {
		return nil, err
	}
	gr.maxK = int(mk)
	return gr, nil
}

func min(a, b int) int {
	if a < b {
		return a
	}
	return b
}

func abs64(x int64) int64 {
	if x < 0 {
		return -x
	}
	return x
}

// crossCheck recomputes every exported edge with the Go transcription of the
// specification (at the model's own integer width) and compares with TLC's result; it
// also re-checks the claim the per-set invariants' scope rests on.
func (gr *graph) crossCheck() error {
	m := newMachine(gr.maxI, false)
	mc := newMachine(gr.maxI, true)
	aVals := map[string]bool{}
	key := func(s jSet) string {
		b, _ := json.Marshal([]interface{}{s.Vals, s.Prop, s.Tvp})
		return string(b)
	}
	for _, s := range gr.states {
		if s.A.Live && !s.B.Live {
			aVals[key(s.A)] = true
		}
	}
	for _, s := range gr.states {
		if s.B.Live && !aVals[key(s.B)] {
			return fmt.Errorf("%s: the copy holds a value the primary never holds alone (%s): the scope of the per-set invariants is too narrow", gr.cfg, key(s.B))
		}
	}
	for i, e := range gr.g.Edges {
		from, to, a := gr.states[e.From], gr.states[e.To], gr.acts[i]
		st := &rState{refFromJSON(from.A), refFromJSON(from.B)}
		if a.Op == "inc" {
			src := st.A
			if a.T == "B" {
				src = st.B
			}
			cd := src.clone()
			mc.incCoded(cd, a.K)
			if a.Coded == nil || len(a.Coded.Acc) != len(cd.Vals) || mc.getProposer(cd) != a.Coded.Gp {
				return fmt.Errorf("%s edge %d %s: as-coded rotation differs from TLC's (proposer)", gr.cfg, i, a)
			}
			for j, v := range cd.Vals {
				if v.A.Cmp(big.NewInt(a.Coded.Acc[j])) != 0 {
					return fmt.Errorf("%s edge %d %s: as-coded rotation differs from TLC's (accum %d: %s vs %d)", gr.cfg, i, a, j, v.A, a.Coded.Acc[j])
				}
			}
		}
		ok, err := m.applyRef(st, a, convPlain)
		if err != nil {
			return err
		}
		switch a.Op {
		case "add", "update", "remove":
			if ok != a.Res {
				return fmt.Errorf("%s edge %d %s: result %v", gr.cfg, i, a, ok)
			}
		case "ustat":
			if ok != a.Changed {
				return fmt.Errorf("%s edge %d %s: changed %v", gr.cfg, i, a, ok)
			}
		}
		if d := m.sameAsJSON(st.A, to.A); d != "" {
			return fmt.Errorf("%s edge %d %s: A: %s", gr.cfg, i, a, d)
		}
		if d := m.sameAsJSON(st.B, to.B); d != "" {
			return fmt.Errorf("%s edge %d %s: B: %s", gr.cfg, i, a, d)
		}
	}
	return nil
}

// ---- results of a replay job ---------------------------------------------------

type finding struct {
	key, desc string
	record    map[string]interface{}
}

type jFinding struct {
	Key    string                 `json:"key"`
	Desc   string                 `json:"desc"`
	Record map[string]interface{} `json:"record"`
}

// jobResult is what one replay job (a child process) reports.
type jobResult struct {
	Behaviours int         `json:"behaviours"`
	Steps      int         `json:"steps"`
	Nontrivial int         `json:"nontrivial"`
	Covered    int         `json:"covered"` // distinct edges (graph jobs) / steps (free walks) executed
	Findings   []jFinding  `json:"findings"`
	Drift      []string    `json:"drift"`
	Sample     interface{} `json:"sample"`
	Stale      int         `json:"stale"`
	Splits     int         `json:"splits"`
	Windows    int         `json:"windows"`
	Perms      int         `json:"perms"`
	Abandoned  int         `json:"abandoned"`
	Commits    int         `json:"commits"`  // consensus level: sets carried into the next height compared
	Reloads    int         `json:"reloads"`  // sets persisted and loaded again (per route)
	Restarts   int         `json:"restarts"` // consensus level: observers rebuilt from their status DB
}

type runner struct {
	c      *core.Ctx
	gr     *graph // nil for free walks
	in     *inst
	useRef bool // expectations from the 64-bit reference instead of TLC's states
	r      *realSys
	res    *jobResult
	// known deviation reproduced in this job: inc(k) is realised as k single calls from then on
	pathDep bool
	splitK  int
	ref     *rState
	trace   []string                     // action labels of the behaviour being replayed
	corrupt func(step int, a, b *expSet) // negative control
	// the comparison of both holders happens at every step; the additional checks (list
	// orders, Copy() aliasing, rotation splits, windows) the first time a job executes an
	// edge / reaches a state of the graph
	seenEdge, seenState   map[int]bool
	firstEdge, firstState bool
	allPerms              bool
}

func opName(a jAct) string {
	switch a.Op {
	case "inc":
		if a.K == 1 {
			return "increment-accum-1"
		}
		return "increment-accum-k"
	case "new":
		return "new-validator-set"
	case "ustat":
		return "update-status"
	}
	return a.Op
}

func (rn *runner) add(f finding) {
	for _, o := range rn.res.Findings {
		if o.Key == f.key {
			return
		}
	}
	rn.res.Findings = append(rn.res.Findings, jFinding{f.key, f.desc, f.record})
}

// driftf records a shape-level (pi_shape) mismatch, once per class and job.
func (rn *runner) driftf(class, format string, a ...interface{}) {
	for _, o := range rn.res.Drift {
		if strings.HasPrefix(o, class+": ") {
			return
		}
	}
	rn.res.Drift = append(rn.res.Drift, class+": "+fmt.Sprintf(format, a...)+fmt.Sprintf(" [instantiation %s, behaviour %v]", rn.in.name, rn.trace))
}

func guard(f func()) (failure string) {
	defer func() {
		if r := recover(); r != nil {
			failure = fmt.Sprintf("%v", r)
		}
	}()
	f()
	return ""
}

// behaviour replays one sequence of action labels. exps[i] is the expected (A, B) after
// step i when the expectations come from TLC; with useRef they are computed on the fly.
// It returns the finding that ended the behaviour, if any.
func (rn *runner) behaviour(acts []jAct, seq []int, exps [][2]expSet, viaCopy bool) *finding {
	var pre0 [2]expSet
	r := rn.r
	r.A, r.B = nil, nil
	if rn.useRef {
		rn.ref = &rState{deadSet(), deadSet()}
	}
	pre := pre0
	trace := make([]string, 0, len(acts))
	for i, a := range acts {
		trace = append(trace, a.String())
		rn.trace = trace
		rn.firstEdge, rn.firstState = true, true
		if seq != nil && rn.seenEdge != nil {
			to := rn.gr.g.Edges[seq[i]].To
			rn.firstEdge, rn.firstState = !rn.seenEdge[seq[i]], !rn.seenState[to]
			rn.seenEdge[seq[i]], rn.seenState[to] = true, true
		}
		var post [2]expSet
		var coded *rotView
		if rn.useRef {
			if a.Op == "inc" {
				src := rn.ref.A
				if a.T == "B" {
					src = rn.ref.B
				}
				cd := src.clone()
				m64c.incCoded(cd, a.K)
				e := expFromRef(m64c, cd)
				coded = &rotView{gp: e.gp}
				for _, v := range e.vals {
					coded.acc = append(coded.acc, v.a)
				}
			}
			ok, err := m64.applyRef(rn.ref, a, rn.in.conv)
			if err != nil {
				return &finding{key: "harness", desc: err.Error()}
			}
			switch a.Op { // results of the calls as the specification has them on this machine
			case "add", "update", "remove":
				a.Res = ok
			case "ustat":
				a.Changed = ok
			}
			post = [2]expSet{expFromRef(m64, rn.ref.A), expFromRef(m64, rn.ref.B)}
		} else {
			post = exps[i]
			if a.Coded != nil {
				coded = &rotView{gp: a.Coded.Gp}
				for _, x := range a.Coded.Acc {
					coded.acc = append(coded.acc, x*rn.in.scale)
				}
			}
		}
		if rn.corrupt != nil {
			rn.corrupt(i, &post[0], &post[1])
		}
		rn.res.Steps++
		r.steps++
		f := rn.step(a, pre, post, coded, viaCopy)
		if f != nil {
			if f.record == nil {
				f.record = map[string]interface{}{}
			}
			f.record["instantiation"] = rn.in.describe()
			f.record["actions"] = append([]string{}, trace...)
			f.record["failed_at_step"] = i
			f.record["expected_after"] = map[string]string{"A": post[0].String(), "B": post[1].String()}
			if rn.gr != nil {
				f.record["config"] = rn.gr.cfg
			}
			f.record["oracle"] = map[bool]string{false: "TLC state scaled by the instantiation", true: "64-bit reference transcription of the specification"}[rn.useRef]
			return f
		}
		pre = post
	}
	return nil
}

// step executes one action on the real objects and compares.
func (rn *runner) step(a jAct, pre, post [2]expSet, coded *rotView, viaCopy bool) *finding {
	r, in := rn.r, rn.in
	op := opName(a)
	fail := func(class, text string) *finding {
		return &finding{key: class + "/" + op, desc: fmt.Sprintf("%s: %s", a, text)}
	}
	check := func(which string, vs *types.ValidatorSet, e expSet) *finding {
		mm, shape := r.observe(vs, e, viaCopy)
		if shape != "" {
			rn.driftf("shape/"+op, "%s: %s", which, shape)
		}
		if mm != nil {
			return fail(mm.class, which+": "+mm.text)
		}
		return nil
	}
	// target of a mutating call and its shadow copy
	var target **types.ValidatorSet
	ti := 0
	switch a.Op {
	case "inc":
		target = &r.A
		if a.T == "B" {
			target, ti = &r.B, 1
		}
	case "add", "update", "remove":
		target = &r.A
	}
	var shadow *types.ValidatorSet
	if target != nil && *target != nil && (rn.firstEdge || (a.Op == "inc" && a.K >= 2 && !rn.pathDep)) {
		shadow = (*target).Copy()
	}
	var callRes, wantRes bool
	haveRes := false
	apply := func(vs *types.ValidatorSet, singles bool) string {
		return guard(func() {
			switch a.Op {
			case "inc":
				if singles {
					for i := 0; i < a.K; i++ {
						vs.IncrementAccum(1)
					}
				} else {
					vs.IncrementAccum(a.K)
				}
			case "add":
				callRes, wantRes, haveRes = vs.Add(in.mkJ(*a.V)), a.Res, true
			case "update":
				callRes, wantRes, haveRes = vs.Update(in.mkJ(*a.V)), a.Res, true
			case "remove":
				_, callRes = vs.Remove(in.ids[a.Addr-1].addr)
				wantRes, haveRes = a.Res, true
			}
		})
	}
	switch a.Op {
	case "new":
		list := make([]*types.Validator, len(a.List))
		for i, v := range a.List {
			list[i] = in.mkJ(v)
		}
		if p := guard(func() { r.A = types.NewValidatorSet(list) }); p != "" {
			return &finding{key: "crash/" + op, desc: fmt.Sprintf("%s panicked: %s", a, p)}
		}
		if f := check("set", r.A, post[0]); f != nil {
			return f
		}
		// insertion order: every permutation of the list gives the same set
		for _, pm := range somePerms(len(list), int64(r.steps)) {
			if !rn.firstEdge {
				break
			}
			pl := make([]*types.Validator, len(list))
			for i, j := range pm {
				pl[i] = in.mkJ(a.List[j])
			}
			var alt *types.ValidatorSet
			if p := guard(func() { alt = types.NewValidatorSet(pl) }); p != "" {
				return &finding{key: "crash/" + op, desc: fmt.Sprintf("%s in order %v panicked: %s", a, pm, p)}
			}
			rn.res.Perms++
			if mm, _ := r.observe(alt, post[0], viaCopy); mm != nil {
				return &finding{key: "order-dependence/" + op, desc: fmt.Sprintf("%s with the list in order %v: %s", a, pm, mm)}
			}
		}
	case "inc", "add", "update", "remove":
		if *target == nil {
			return &finding{key: "harness", desc: "no target for " + a.String()}
		}
		singles := a.Op == "inc" && a.K >= 2 && rn.pathDep
		if p := apply(*target, singles); p != "" {
			return &finding{key: "crash/" + op, desc: fmt.Sprintf("%s panicked: %s", a, p)}
		}
		if haveRes && callRes != wantRes {
			return fail("result", fmt.Sprintf("the call returned %v, the specification %v", callRes, wantRes))
		}
		mm, shape := r.observe(*target, post[ti], viaCopy)
		if shape != "" {
			rn.driftf("shape/"+op, "%s", shape)
		}
		if mm != nil && (mm.class == "accum" || mm.class == "proposer") && a.Op == "inc" && a.K >= 2 && !singles {
			got := r.rotOf(*target)
			if coded != nil && got.equal(*coded) {
				// exactly what the as-coded operator of the specification predicts: the known deviation
				walked := shadow.Copy()
				guard(func() {
					for i := 0; i < a.K; i++ {
						walked.IncrementAccum(1)
					}
				})
				rn.add(finding{key: keyPathDep,
					desc: fmt.Sprintf("IncrementAccum(%d) in one call gives %s, %d calls of IncrementAccum(1) from the same state give %s (state before: %s)",
						a.K, got, a.K, r.rotOf(walked), pre[ti]),
					record: map[string]interface{}{"instantiation": in.describe(), "actions": append([]string{}, rn.trace...), "state_before": pre[ti].String(), "k": a.K,
						"one_call": got.String(), "single_steps": r.rotOf(walked).String(), "specification_as_coded": coded.String(), "specification_designed": post[ti].String()}})
				rn.pathDep = true
				*target = walked // continue the behaviour on the designed path
				mm, _ = r.observe(*target, post[ti], viaCopy)
				if mm != nil {
					return &finding{key: mm.class + "/increment-accum-1", desc: fmt.Sprintf("%s realised as single steps: %s", a, mm.text)}
				}
			}
		}
		if mm != nil {
			return fail(mm.class, mm.text)
		}
		if !rn.firstEdge {
			break
		}
		// Copy() taken before the call: untouched by it, and behaves like the original
		if mm, _ := r.observe(shadow, pre[ti], true); mm != nil {
			return &finding{key: "copy-aliasing/" + op, desc: fmt.Sprintf("%s on the original changed a Copy() taken before the call: %s", a, mm)}
		}
		if p := apply(shadow, a.Op == "inc" && a.K >= 2 && rn.pathDep); p != "" {
			return &finding{key: "crash/" + op, desc: fmt.Sprintf("%s on a copy panicked: %s", a, p)}
		}
		if mm, _ := r.observe(shadow, post[ti], true); mm != nil {
			return &finding{key: "copy-diverges/" + op, desc: fmt.Sprintf("%s on a Copy() gives another result than on the original: %s", a, mm)}
		}
		if mm, _ := r.observe(*target, post[ti], viaCopy); mm != nil {
			return &finding{key: "copy-aliasing/" + op, desc: fmt.Sprintf("%s on a Copy() changed the original: %s", a, mm)}
		}
	case "copy":
		if p := guard(func() { r.B = r.A.Copy() }); p != "" {
			return &finding{key: "crash/copy", desc: "Copy panicked: " + p}
		}
	case "adopt":
		r.A, r.B = r.B, nil
	case "drop":
		r.B = nil
	case "reload":
		// persist-and-reload: every route the node has must give back a set that -- itself, its
		// Copy() (what node.NewNode hands out) and the copy of that -- is the set the
		// specification decodes: proposer, every Accum, Hash, total
		tgt, oth, ri := &r.A, r.B, 0
		if a.T == "B" {
			tgt, oth, ri = &r.B, r.A, 1
		}
		if *tgt == nil {
			return &finding{key: "harness", desc: "no target for " + a.String()}
		}
		before := r.rotOf(*tgt)
		var routes []reloaded
		var err error
		if p := guard(func() { routes, err = r.reload(*tgt, oth, a.T == "B") }); p != "" {
			return &finding{key: "crash/" + op, desc: fmt.Sprintf("%s panicked: %s", a, p)}
		}
		if err != nil {
			return fail("persist", fmt.Sprintf("the set the node persists cannot be loaded again: %v (set %s)", err, realString(in, *tgt)))
		}
		if !before.equal(r.rotOf(*tgt)) {
			return fail("copy-aliasing", "persisting the set changed it")
		}
		inst := r.steps % len(routes)
		for ri2, rt := range routes {
			if !rn.firstEdge && ri2 != inst {
				continue // every route the first time a job executes the edge, then the one that is installed
			}
			rn.res.Reloads++
			var mm *mismatch
			var c1, c2 *types.ValidatorSet
			if p := guard(func() {
				if mm, _ = r.observe(rt.vs, post[ri], true); mm != nil {
					return
				}
				c1 = rt.vs.Copy()
				c2 = c1.Copy()
				if mm, _ = r.observe(c1, post[ri], false); mm != nil {
					mm.text = "its Copy(): " + mm.text
					return
				}
				if mm, _ = r.observe(c2, post[ri], false); mm != nil {
					mm.text = "the Copy() of its Copy(): " + mm.text
				}
			}); p != "" {
				return &finding{key: "crash/" + op, desc: fmt.Sprintf("%s: the set loaded by %s panicked: %s", a, rt.route, p)}
			}
			if mm != nil {
				return fail(mm.class, fmt.Sprintf("holder %s persisted and loaded again by %s (before: %s): %s", a.T, rt.route, pre[ri], mm.text))
			}
		}
		*tgt = routes[inst].vs
	case "ustat":
		list := make([]*types.Validator, len(a.List))
		for i, v := range a.List {
			list[i] = in.mkJ(v)
		}
		cur := r.A
		before := r.rotOf(cur)
		var next, last *types.ValidatorSet
		var changed bool
		var err error
		if p := guard(func() { next, last, changed, err = r.updateStatus(cur, list) }); p != "" {
			return &finding{key: "crash/" + op, desc: fmt.Sprintf("%s panicked: %s", a, p)}
		}
		if err != nil {
			return &finding{key: "harness", desc: fmt.Sprintf("ApplyBlock refused the block: %v", err)}
		}
		if changed != a.Changed {
			rn.driftf("changed-flag/update-status", "LastHeightValidatorsChanged moved=%v, the specification says changed=%v", changed, a.Changed)
		}
		if !before.equal(r.rotOf(cur)) {
			return fail("copy-aliasing", "updateStatus changed the status it was given")
		}
		r.A, r.B = next, last
		// every order of the application's list gives the same next set
		if len(list) > 1 && rn.firstEdge {
			pms := somePerms(len(list), int64(r.steps))
			for n, pm := range pms {
				pick := r.steps % len(pms)
				if isIdentity(pms[pick]) {
					pick = (pick + 1) % len(pms)
				}
				if isIdentity(pm) || (!rn.allPerms && n != pick) {
					continue // quick tier: one other order per edge, rotating through all of them
				}
				pl := make([]*types.Validator, len(list))
				for i, j := range pm {
					pl[i] = in.mkJ(a.List[j])
				}
				var alt *types.ValidatorSet
				if p := guard(func() { alt, _, _, err = r.updateStatus(cur, pl) }); p != "" || err != nil {
					return &finding{key: "crash/" + op, desc: fmt.Sprintf("%s in order %v failed: %s %v", a, pm, p, err)}
				}
				rn.res.Perms++
				if mm, _ := r.observe(alt, post[0], viaCopy); mm != nil {
					return &finding{key: "order-dependence/" + op, desc: fmt.Sprintf("%s with the list in order %v: %s", a, pm, mm)}
				}
			}
		}
	}
	if f := check("A", r.A, post[0]); f != nil {
		return f
	}
	if f := check("B", r.B, post[1]); f != nil {
		return f
	}
	// every composition of a rotation by splitK from this state agrees with the single call
	if rn.splitK > 0 && rn.firstState && r.A != nil && len(r.A.Validators) > 0 {
		if f := rn.splits(r.A, post[0]); f != nil {
			return f
		}
	}
	// a window of `total` single steps from a set that has only been rotated
	if post[0].live && post[0].rot && rn.firstState {
		if f := rn.window(r.A, post[0]); f != nil {
			return f
		}
	}
	return nil
}

// splits rotates copies of vs by every composition of k = 2..splitK and compares the
// outcomes with the single call IncrementAccum(k) -- real code against real code.
func (rn *runner) splits(vs *types.ValidatorSet, e expSet) *finding {
	r := rn.r
	for k := 2; k <= rn.splitK; k++ {
		coded, designed := rn.predictions(vs, k)
		once := vs.Copy()
		if p := guard(func() { once.IncrementAccum(k) }); p != "" {
			return &finding{key: "crash/increment-accum-k", desc: fmt.Sprintf("IncrementAccum(%d) panicked: %s", k, p)}
		}
		ov := r.rotOf(once)
		for _, c := range compositions(k) {
			if len(c) == 1 {
				continue
			}
			x := vs.Copy()
			guard(func() {
				for _, j := range c {
					x.IncrementAccum(j)
				}
			})
			rn.res.Splits++
			if xv := r.rotOf(x); !xv.equal(ov) {
				if !coded.equal(ov) || !designed.equal(xv) {
					// not the deviation the as-coded operator describes
					return &finding{key: "path-dependence/other", desc: fmt.Sprintf("from %s: IncrementAccum(%d) gives %s, the calls %v give %s (the specification: %s by single steps, %s by its as-coded operator)", e, k, ov, c, xv, designed, coded)}
				}
				rn.pathDep = true
				rn.add(finding{key: keyPathDep,
					desc: fmt.Sprintf("from %s: IncrementAccum(%d) gives %s, the calls %v give %s", e, k, ov, c, xv),
					record: map[string]interface{}{"instantiation": rn.in.describe(), "actions": append([]string{}, rn.trace...), "state_before": e.String(), "k": k, "split": c,
						"one_call": ov.String(), "composed": xv.String()}})
				return nil // recorded; the behaviour itself is still on track
			}
		}
	}
	return nil
}

// predictions: what the specification's as-coded operator and its designed rotation give
// from the real state (taken before any call is made on it).
func (rn *runner) predictions(vs *types.ValidatorSet, k int) (coded, designed rotView) {
	s := &rSet{Live: true, Tvp: big.NewInt(0)}
	for _, v := range vs.Validators {
		s.Vals = append(s.Vals, rVal{rn.in.addrOf(v.Address), big.NewInt(v.VotingPower), big.NewInt(v.Accum), 0})
	}
	if vs.Proposer != nil {
		s.Prop = rn.in.addrOf(vs.Proposer.Address)
	}
	view := func(m *machine, x *rSet) rotView {
		out := rotView{gp: m.getProposer(x)}
		for _, v := range x.Vals {
			out.acc = append(out.acc, v.A.Int64())
		}
		return out
	}
	c, f := s.clone(), s.clone()
	m64c.incCoded(c, k)
	m64.incFixed(f, k)
	return view(m64c, c), view(m64, f)
}

// window: over `total` single steps every validator proposes exactly `power` times and
// the priorities return to where they were (abstract powers: concrete / scale).
func (rn *runner) window(vs *types.ValidatorSet, e expSet) *finding {
	if !rn.in.linear {
		return nil
	}
	total := e.tot / rn.in.scale
	if total <= 0 || total > 200 {
		return nil
	}
	x := vs.Copy()
	cnt := map[int]int64{}
	start := rn.r.rotOf(x)
	if p := guard(func() {
		for i := int64(0); i < total; i++ {
			x.IncrementAccum(1)
			cnt[rn.in.addrOf(x.GetProposer().Address)]++
		}
	}); p != "" {
		return &finding{key: "crash/increment-accum-1", desc: "IncrementAccum(1) panicked: " + p}
	}
	rn.res.Windows++
	for _, v := range e.vals {
		if cnt[v.addr] != v.p/rn.in.scale {
			return &finding{key: "proportional/window", desc: fmt.Sprintf("from %s: over %d single rotations validator #%d with power %d proposed %d times (all: %v)", e, total, v.addr, v.p, cnt[v.addr], cnt)}
		}
	}
	end := rn.r.rotOf(x)
	for i := range start.acc {
		if start.acc[i] != end.acc[i] {
			return &finding{key: "proportional/window", desc: fmt.Sprintf("from %s: after %d single rotations the priorities are %v, not back at %v", e, total, end.acc, start.acc)}
		}
	}
	return nil
}

// ---- instantiations ----------------------------------------------------------------

func linearInsts(c *core.Ctx, gr *graph, n int) []*inst {
	tabA, tabB, tabC := table("ed25519-a", n), table("ed25519-b", n), table("crafted", n)
	// the largest scale at which neither algorithm clips anywhere in this graph
	bound := gr.maxAbs*int64(gr.maxK+2) + 1
	smax := math.MaxInt64 / bound
	mk := func(name string, ids []ident, s int64) *inst {
		return &inst{name: fmt.Sprintf("%s x%d", name, s), table: name, ids: ids, cbs: coinbases, linear: true, scale: s}
	}
	all := []*inst{
		mk("ed25519-a", tabA, 1), mk("ed25519-a", tabA, smax), mk("ed25519-b", tabB, 10), mk("crafted", tabC, 1<<40),
		mk("crafted", tabC, 1), mk("ed25519-b", tabB, 1000003), mk("crafted", tabC, smax),
	}
	if !c.Thorough() {
		return all[:4]
	}
	return all
}

// clipInsts map the abstract powers / accums of the small-machine graph, by rank, to
// values at the int64 boundaries.
func clipInsts(c *core.Ctx, gr *graph, n int) []*inst {
	width := uint(gr.maxI.BitLen()) // MaxI = 2^width - 1
	sh := int64(1) << (63 - width)
	tabA, tabC := table("ed25519-a", n), table("crafted", n)
	byRank := func(vals []int64, table []int64) map[int64]int64 {
		m := map[int64]int64{}
		for i, v := range vals {
			if v == 0 {
				m[0] = 0
				continue
			}
			j := i
			if j >= len(table) {
				j = len(table) - 1
			}
			m[v] = table[j]
		}
		return m
	}
	scaled := func(vals []int64) map[int64]int64 {
		m := map[int64]int64{}
		for _, v := range vals {
			m[v] = v * sh
		}
		return m
	}
	// argument accums of the graph are {low, 0}; powers ascending
	out := []*inst{
		{name: fmt.Sprintf("ed25519-a x2^%d", 63-width), table: "ed25519-a", ids: tabA, cbs: coinbases, pmap: scaled(gr.powers), amap: scaled(gr.accums)},
		{name: "crafted 2^62/MaxInt64-3", table: "crafted", ids: tabC, cbs: coinbases, pmap: byRank(gr.powers, []int64{1 << 62, math.MaxInt64 - 3, math.MaxInt64}), amap: byRank(gr.accums, []int64{math.MinInt64 + 5})},
		{name: "ed25519-a MaxInt64/2,MaxInt64", table: "ed25519-a", ids: tabA, cbs: coinbases, pmap: byRank(gr.powers, []int64{math.MaxInt64 / 2, math.MaxInt64, math.MaxInt64}), amap: byRank(gr.accums, []int64{math.MinInt64})},
		{name: "crafted 1,MaxInt64-1", table: "crafted", ids: tabC, cbs: coinbases, pmap: byRank(gr.powers, []int64{1, math.MaxInt64 - 1, math.MaxInt64}), amap: byRank(gr.accums, []int64{math.MinInt64 + 1})},
	}
	if !c.Thorough() {
		return out[:3]
	}
	return out
}

// ---- jobs ------------------------------------------------------------------------

func jsonUnmarshal(s string, v interface{}) error { return json.Unmarshal([]byte(s), v) }

// somePerms: every order of a list of up to 4 elements, 24 seeded ones of a longer list.
func somePerms(n int, seed int64) [][]int {
	if n <= 4 {
		return permutations(n)
	}
	rng := rand.New(rand.NewSource(seed))
	out := make([][]int, 24)
	for i := range out {
		out[i] = rng.Perm(n)
	}
	return out
}

func isIdentity(p []int) bool {
	for i, x := range p {
		if i != x {
			return false
		}
	}
	return true
}

func (gr *graph) exps(in *inst, seq []int) ([]jAct, [][2]expSet) {
	acts := make([]jAct, len(seq))
	exps := make([][2]expSet, len(seq))
	for i, ei := range seq {
		acts[i] = gr.acts[ei]
		if in.linear {
			st := gr.states[gr.g.Edges[ei].To]
			exps[i] = [2]expSet{in.expFromJSON(st.A), in.expFromJSON(st.B)}
		}
	}
	return acts, exps
}

// fastTour covers every edge: deepest uncovered edge first (its shortest path from the
// initial state covers shallower edges on the way), then a greedy walk over uncovered
// out-edges.  (mbt.Tour's repeated searches take tens of seconds on graphs whose
// behaviours all restart at the initial state.)
func (gr *graph) fastTour(rng *rand.Rand) [][]int {
	g := gr.g
	parent := make([]int, len(g.States))
	depth := make([]int, len(g.States))
	for i := range parent {
		parent[i], depth[i] = -2, -1
	}
	parent[0], depth[0] = -1, 0
	q := []int{0}
	for len(q) > 0 {
		s := q[0]
		q = q[1:]
		for _, ei := range g.Out[s] {
			if t := g.Edges[ei].To; parent[t] == -2 {
				parent[t], depth[t] = ei, depth[s]+1
				q = append(q, t)
			}
		}
	}
	order := rng.Perm(len(g.Edges))
	sort.SliceStable(order, func(i, j int) bool { return depth[g.Edges[order[i]].From] > depth[g.Edges[order[j]].From] })
	covered := make([]bool, len(g.Edges))
	var tours [][]int
	for _, ei := range order {
		if covered[ei] || depth[g.Edges[ei].From] < 0 {
			continue
		}
		var path []int
		for s := g.Edges[ei].From; parent[s] >= 0; s = g.Edges[parent[s]].From {
			path = append(path, parent[s])
		}
		for i, j := 0, len(path)-1; i < j; i, j = i+1, j-1 {
			path[i], path[j] = path[j], path[i]
		}
		path = append(path, ei)
		for _, x := range path {
			covered[x] = true
		}
		cur := g.Edges[ei].To
		for {
			next := -1
			outs := g.Out[cur]
			if len(outs) > 0 {
				off := rng.Intn(len(outs))
				for k := range outs {
					if x := outs[(k+off)%len(outs)]; !covered[x] {
						next = x
						break
					}
				}
			}
			if next < 0 {
				// a short search (at most 400 states) for a state that still has an uncovered out-edge
				hop := gr.nearUncovered(cur, covered, 400)
				if hop == nil {
					break
				}
				path = append(path, hop...)
				cur = g.Edges[hop[len(hop)-1]].To
				continue
			}
			covered[next] = true
			path = append(path, next)
			cur = g.Edges[next].To
		}
		tours = append(tours, path)
	}
	return tours
}

func (gr *graph) nearUncovered(from int, covered []bool, limit int) []int {
	g := gr.g
	prev := map[int]int{from: -1}
	q := []int{from}
	for len(q) > 0 && len(prev) < limit {
		s := q[0]
		q = q[1:]
		for _, ei := range g.Out[s] {
			t := g.Edges[ei].To
			if _, ok := prev[t]; ok {
				continue
			}
			prev[t] = ei
			for _, x := range g.Out[t] {
				if !covered[x] {
					var p []int
					for y := t; prev[y] != -1; y = g.Edges[prev[y]].From {
						p = append(p, prev[y])
					}
					for i, j := 0, len(p)-1; i < j; i, j = i+1, j-1 {
						p[i], p[j] = p[j], p[i]
					}
					return p
				}
			}
			q = append(q, t)
		}
	}
	return nil
}

func (gr *graph) nAddr() int {
	n := 0
	for _, s := range gr.states {
		for _, v := range append(append([]jVal{}, s.A.Vals...), s.B.Vals...) {
			if v.Addr > n {
				n = v.Addr
			}
		}
	}
	return n
}

func (gr *graph) usesRef() bool { return gr.maxI.Cmp(big.NewInt(100000)) < 0 }

func (gr *graph) insts(c *core.Ctx) []*inst {
	if gr.usesRef() {
		return clipInsts(c, gr, gr.nAddr())
	}
	return linearInsts(c, gr, gr.nAddr())
}

func replayJob(c *core.Ctx, gr *graph, in *inst, idx int, seqs [][]int) *jobResult {
	res := &jobResult{}
	rn := &runner{c: c, gr: gr, in: in, useRef: gr.usesRef(), r: newRealSys(in), res: res, splitK: gr.maxK + 1,
		seenEdge: map[int]bool{}, seenState: map[int]bool{}, allPerms: c.Thorough()}
	for si, seq := range seqs {
		acts, exps := gr.exps(in, seq)
		f := rn.behaviour(acts, seq, exps, (si+idx)%2 == 0)
		res.Behaviours++
		if len(seq) > 1 {
			res.Nontrivial++
		}
		if res.Sample == nil && len(seq) >= 4 {
			n := min(len(seq), 10)
			var tr []string
			for _, a := range acts[:n] {
				tr = append(tr, a.String())
			}
			res.Sample = map[string]interface{}{"config": gr.cfg, "instantiation": in.describe(), "behaviour_prefix": tr, "length": len(seq)}
		}
		if f != nil {
			res.Abandoned++
			rn.add(*f)
			if res.Abandoned >= 25 {
				break
			}
		}
	}
	res.Covered = len(rn.seenEdge)
	res.Stale = rn.r.staleProposerAccum
	return res
}

// childJob describes one replay job; it runs in a process of its own (ApplyBlock updates
// process-wide metrics state without a lock, so jobs cannot share a process).
type childJob struct {
	Kind  string `json:"kind"` // "graph" | "free"
	Dir   string `json:"dir"`
	Cfg   string `json:"cfg"`
	Inst  int    `json:"inst"`
	W     int    `json:"w"`
	Count int    `json:"count"`
}

func runChild(c *core.Ctx) {
	var j childJob
	if err := json.Unmarshal([]byte(c.Child), &j); err != nil {
		fmt.Fprintln(os.Stderr, "bad job:", err)
		os.Exit(3)
	}
	var res *jobResult
	switch j.Kind {
	case "node":
		res = nodeJob(c)
	case "free":
		res = freeWalks(c, j.W, j.Count)
	case "graph":
		b, err := ioutil.ReadFile(filepath.Join(j.Dir, j.Cfg+".ndjson"))
		if err != nil {
			fmt.Fprintln(os.Stderr, err)
			os.Exit(3)
		}
		gr, err := loadGraph(c, j.Cfg, strings.Split(strings.TrimSpace(string(b)), "\n"))
		if err != nil {
			fmt.Fprintln(os.Stderr, err)
			os.Exit(3)
		}
		tb, err := ioutil.ReadFile(filepath.Join(j.Dir, j.Cfg+".tour.json"))
		if err != nil || json.Unmarshal(tb, &gr.tour) != nil {
			fmt.Fprintln(os.Stderr, "tour:", err)
			os.Exit(3)
		}
		in := gr.insts(c)[j.Inst]
		wrng := rand.New(rand.NewSource(c.Seed*7919 + int64(j.Inst)*104729 + int64(len(gr.cfg))))
		seqs := append(append([][]int{}, gr.tour...), gr.g.Walks(c.Pick(150, 1500), 14, wrng)...)
		fmt.Printf("AT %s / %s\n", j.Cfg, in.name)
		res = replayJob(c, gr, in, j.Inst, seqs)
	default:
		fmt.Fprintln(os.Stderr, "unknown job kind", j.Kind)
		os.Exit(3)
	}
	out, _ := json.Marshal(res)
	fmt.Printf("RESULT %s\nDONE\n", out)
}

// ---- the check ---------------------------------------------------------------------

type tlcJob struct {
	cfg     string
	export  bool
	control bool // negative instance of the specification: TLC must report a violation
	res     *tlc.Result
}

func run(c *core.Ctx) {
	if c.Child != "" {
		runChild(c)
		return
	}
	if c.Replay != "" {
		runReplay(c)
		return
	}
	o := c.Out()
	o.Level = "model_checking"
	o.Rule = "behaviour = path through a TLC-exported graph of ValSet (a tour covering every edge + seeded walks) replayed on the real ValidatorSet under one instantiation of addresses/powers, or one seeded walk beyond the model's bounds compared with the cross-checked transcription of the specification, or one consensus-level scenario; non-trivial = at least two actions; distinct = distinct (configuration, instantiation, edge) executed + free-walk steps"
	o.Assumptions = []string{
		"validator lists handed to NewValidatorSet / updateStatus have distinct addresses and positive powers (what genesis validation and the application produce)",
		"the Merkle root over (address, key, coinbase, power) leaves is collision-free (Hash() is modelled by the leaf sequence)",
		"linear instantiations scale powers and accums by a constant below the clipping range; boundary instantiations are compared with the Go transcription of the specification, which is cross-checked against TLC on every exported edge",
	}
	o.Trusted = []string{"TLC", "the Go transcription of ValSet.tla's operators where TLC's 32-bit integers cannot go (cross-checked against TLC on every exported edge)", "ed25519 key generation and amino/merkle hashing of the repository"}

	quick := []tlcJob{{cfg: "ValSet.cfg", export: true}, {cfg: "ValSetMods.cfg", export: true}, {cfg: "ValSetClip.cfg", export: true}, {cfg: "ValSetReload.cfg", export: true},
		{cfg: "ValSetReloadMods.cfg", export: true}, {cfg: "ValSetAsCoded.cfg"}, {cfg: "ValSetCopyIdentity.cfg", control: true}}
	thorough := append(append([]tlcJob{}, quick[:5]...), tlcJob{cfg: "ValSetBig.cfg", export: true}, tlcJob{cfg: "ValSetModsBig.cfg", export: true}, tlcJob{cfg: "ValSetMods2.cfg", export: true},
		tlcJob{cfg: "ValSetClipBig.cfg", export: true}, tlcJob{cfg: "ValSetClipMods.cfg", export: true}, tlcJob{cfg: "ValSetReloadBig.cfg", export: true},
		tlcJob{cfg: "ValSetReloadMods3.cfg", export: true}, tlcJob{cfg: "ValSetClipReload.cfg", export: true},
		tlcJob{cfg: "ValSetAsCoded.cfg"}, tlcJob{cfg: "ValSetCopyIdentity.cfg", control: true})
	jobs := quick
	if c.Thorough() {
		jobs = thorough
	}
	var wg sync.WaitGroup
	for i := range jobs {
		wg.Add(1)
		go func(j *tlcJob) {
			defer wg.Done()
			j.res = c.TLC(tlc.Options{SpecDir: c.SpecDir("ValSet"), Module: "ValSet", Config: j.cfg, Workers: 1, Timeout: c.MinutesT(6, 25), HeapMB: 3000})
		}(&jobs[i])
	}
	wg.Wait()
	var graphs []*graph
	var lead *jLead
	tlcInfo := map[string]interface{}{}
	for _, j := range jobs {
		if j.res == nil {
			return
		}
		tlcInfo[j.cfg] = map[string]interface{}{"generated": j.res.Generated, "distinct": j.res.Distinct, "depth": j.res.Depth, "wall_s": j.res.Wall, "violated": j.res.Violated}
		if j.control {
			// a Copy() that drops a decoded set's proposer must violate the reload invariants
			if j.res.Violated != "ReloadTransparent" && j.res.Violated != "TwinAgreement" {
				c.Infra("vacuous specification: ValSet %s (CopyAlgo = identity) must violate ReloadTransparent / TwinAgreement: %s\n%s", j.cfg, j.res.Describe(), j.res.Tail)
				return
			}
			continue
		}
		if !j.export {
			// the as-coded instance: a violation of PathIndependence is the expected lead
			if j.res.Violated == "" {
				if !j.res.Finished {
					c.Infra("ValSet %s: %s\n%s", j.cfg, j.res.Describe(), j.res.Tail)
					return
				}
				continue
			}
			for _, l := range j.res.Lines {
				var ld jLead
				if json.Unmarshal([]byte(l), &ld) == nil && ld.Lead != "" {
					lead = &ld
					break
				}
			}
			if lead == nil {
				c.Infra("ValSet %s reports %s but printed no witness\n%s", j.cfg, j.res.Violated, j.res.Tail)
				return
			}
			continue
		}
		if j.res.Violated != "" || !j.res.Finished {
			c.Infra("ValSet %s (the designed algorithm must satisfy every invariant): %s\n%s", j.cfg, j.res.Describe(), j.res.Tail)
			return
		}
		gr, err := loadGraph(c, j.cfg, j.res.Lines)
		if err != nil {
			c.Infra("%s: %v", j.cfg, err)
			return
		}
		gr.lines = j.res.Lines
		if err := gr.crossCheck(); err != nil {
			c.Infra("transcription / scope cross-check: %v", err)
			return
		}
		graphs = append(graphs, gr)
	}
	o.Exhaustive = true
	c.SetExtra("tlc", tlcInfo)

	var mu sync.Mutex
	total := &jobResult{}
	merge := func(r *jobResult) {
		mu.Lock()
		defer mu.Unlock()
		total.Behaviours += r.Behaviours
		total.Steps += r.Steps
		total.Nontrivial += r.Nontrivial
		total.Covered += r.Covered
		total.Stale += r.Stale
		total.Splits += r.Splits
		total.Windows += r.Windows
		total.Perms += r.Perms
		total.Abandoned += r.Abandoned
		total.Commits += r.Commits
		total.Reloads += r.Reloads
		total.Restarts += r.Restarts
		for _, f := range r.Findings {
			if f.Key == "harness" {
				c.Infra("replay: %s (%v)", f.Desc, f.Record)
				continue
			}
			c.Violate(f.Key, f.Desc, f.Record)
		}
		for _, d := range r.Drift {
			c.Drift("%s", d)
		}
		if r.Sample != nil {
			c.Sample(r.Sample)
		}
	}

	// 1. the lead of the as-coded model, on the real code
	leadInfo := map[string]interface{}{"found_by_tlc": lead != nil}
	if lead != nil {
		rep, f := reproduceLead(c, lead)
		leadInfo["witness"] = lead
		leadInfo["reproduced_on_real_code"] = rep
		if f != nil {
			c.Violate(f.key, f.desc, f.record)
		}
		if !rep {
			leadInfo["note"] = "the real IncrementAccum does not behave like the as-coded operator: the implementation follows the designed algorithm"
		}
	}
	c.SetExtra("as_coded_lead", leadInfo)

	// 2. replay of the exported graphs, 3. seeded walks beyond the bounds of the model --
	//    one child process per (graph, instantiation) / walk worker
	dir, err := ioutil.TempDir("", "vc17")
	if err != nil {
		c.Infra("tempdir: %v", err)
		return
	}
	defer os.RemoveAll(dir)
	var cjobs []childJob
	graphInfo := map[string]interface{}{}
	for _, gr := range graphs {
		t0 := time.Now()
		gr.tour = gr.fastTour(rand.New(rand.NewSource(c.Seed)))
		tl := 0
		for _, t := range gr.tour {
			tl += len(t)
		}
		tb, _ := json.Marshal(gr.tour)
		if err := ioutil.WriteFile(filepath.Join(dir, gr.cfg+".tour.json"), tb, 0644); err != nil {
			c.Infra("write tour: %v", err)
			return
		}
		if err := ioutil.WriteFile(filepath.Join(dir, gr.cfg+".ndjson"), []byte(strings.Join(gr.lines, "\n")), 0644); err != nil {
			c.Infra("write edges: %v", err)
			return
		}
		insts := gr.insts(c)
		var names []string
		for ii, in := range insts {
			names = append(names, in.name)
			cjobs = append(cjobs, childJob{Kind: "graph", Dir: dir, Cfg: gr.cfg, Inst: ii})
		}
		graphInfo[gr.cfg] = map[string]interface{}{"states": len(gr.g.States), "edges": len(gr.g.Edges), "edges_by_action": gr.g.ActionKinds("op"),
			"tour_behaviours": len(gr.tour), "tour_steps": tl, "tour_s": time.Since(t0).Seconds(), "instantiations": names}
	}
	for w := 0; w < c.Pick(4, 12); w++ {
		cjobs = append(cjobs, childJob{Kind: "free", W: w, Count: c.Pick(60, 600)})
	}
	sem := make(chan struct{}, 14)
	var jwg sync.WaitGroup
	for _, j := range cjobs {
		j := j
		jwg.Add(1)
		go func() {
			defer jwg.Done()
			sem <- struct{}{}
			defer func() { <-sem }()
			arg, _ := json.Marshal(j)
			results, at, crash := c.RunChild(string(arg), c.MinutesT(4, 25))
			for _, r := range results {
				var jr jobResult
				if err := json.Unmarshal([]byte(r), &jr); err != nil {
					c.Infra("job %s: unreadable result: %v", arg, err)
					continue
				}
				merge(&jr)
			}
			switch {
			case crash == "TIMEOUT":
				c.Infra("job %s timed out (at %s)", arg, at)
			case crash != "" && (strings.Contains(crash, "/repo/") || strings.Contains(crash, "linkchain")) && !strings.Contains(crash, "verifh/props/c17.("):
				c.Violate("crash/process", fmt.Sprintf("job %s: the process died inside the code under test", at), map[string]interface{}{"job": j, "crash": crash})
			case crash != "":
				c.Infra("job %s died: %s", arg, crash)
			}
		}()
	}
	jwg.Wait()

	// 4. consensus level: nodes that walk and nodes that skip rounds; per-block updateStatus
	if ni := nodeScenarios(c, merge); ni != nil {
		c.SetExtra("consensus_level", ni)
	}

	// 5. the binding is not vacuous: a behaviour with one corrupted expectation must be rejected
	if len(graphs) > 0 {
		if err := negativeControl(c, graphs[0]); err != nil {
			c.Infra("vacuous binding: %v", err)
		}
	}

	o.Traces += total.Behaviours
	o.Evaluations += total.Steps
	o.Distinct = total.Covered
	c.SetExtra("graphs", graphInfo)
	c.SetExtra("replay_jobs", len(cjobs))
	c.SetExtra("behaviours_abandoned_after_a_mismatch", total.Abandoned)
	c.SetExtra("rotation_splits_compared", total.Splits)
	c.SetExtra("proportional_windows", total.Windows)
	c.SetExtra("list_orders_compared", total.Perms)
	c.SetExtra("copies_whose_GetProposer_Accum_is_stale", total.Stale)
	c.SetExtra("consensus_level_commits_compared", total.Commits)
	c.SetExtra("sets_persisted_and_reloaded", total.Reloads)
	c.SetExtra("consensus_level_restarts", total.Restarts)
}

// reproduceLead replays TLC's counterexample of the as-coded model on the real code.
func reproduceLead(c *core.Ctx, ld *jLead) (bool, *finding) {
	n := 0
	for _, v := range ld.Vals {
		if v.Addr > n {
			n = v.Addr
		}
	}
	reproduced := false
	var first *finding
	for _, in := range []*inst{
		{name: "ed25519-a x1", table: "ed25519-a", ids: table("ed25519-a", n), cbs: coinbases, linear: true, scale: 1},
		{name: "ed25519-b x10", table: "ed25519-b", ids: table("ed25519-b", n), cbs: coinbases, linear: true, scale: 10},
		{name: "crafted x2^40", table: "crafted", ids: table("crafted", n), cbs: coinbases, linear: true, scale: 1 << 40},
	} {
		r := newRealSys(in)
		tot := int64(0)
		for _, v := range ld.Vals {
			tot += v.P
		}
		e := in.expFromJSON(jSet{Live: true, Vals: ld.Vals, Prop: ld.Prop, Gp: ld.Prop, Tot: tot})
		once, comp := in.build(e), in.build(e)
		guard(func() { once.IncrementAccum(ld.K) })
		guard(func() {
			for _, j := range ld.Split {
				comp.IncrementAccum(j)
			}
		})
		ov, cv := r.rotOf(once), r.rotOf(comp)
		c.AddEvals(1 + len(ld.Split))
		scaleView := func(j jCoded) rotView {
			v := rotView{gp: j.Gp}
			for _, x := range j.Acc {
				v.acc = append(v.acc, x*in.scale)
			}
			return v
		}
		if !ov.equal(cv) && !(ov.equal(scaleView(ld.Once)) && cv.equal(scaleView(ld.Composed))) && first == nil {
			first = &finding{key: "path-dependence/other",
				desc:   fmt.Sprintf("from %s, IncrementAccum(%d) gives %s, the calls %v give %s -- a disagreement, but not the one the as-coded model predicts", e, ld.K, ov, ld.Split, cv),
				record: map[string]interface{}{"instantiation": in.describe(), "lead": ld, "one_call": ov.String(), "composed": cv.String()}}
		}
		if ov.equal(scaleView(ld.Once)) && cv.equal(scaleView(ld.Composed)) && !ov.equal(cv) {
			reproduced = true
			if first == nil || first.key != keyPathDep {
				first = &finding{key: keyPathDep,
					desc:   fmt.Sprintf("TLC's counterexample of the as-coded model on the real ValidatorSet: from %s, IncrementAccum(%d) gives %s, the calls %v give %s", e, ld.K, ov, ld.Split, cv),
					record: map[string]interface{}{"instantiation": in.describe(), "lead": ld, "one_call": ov.String(), "composed": cv.String()}}
			}
		}
	}
	c.AddTraces(3)
	return reproduced, first
}

// negativeControl corrupts one expected Accum and one expected proposer of a behaviour
// that the real code follows, and requires the replay to reject both.
func negativeControl(c *core.Ctx, gr *graph) error {
	var seq []int
	for _, t := range gr.tour {
		if len(t) >= 4 {
			seq = t[:4]
			break
		}
	}
	if seq == nil {
		return fmt.Errorf("no behaviour of length 4 in %s", gr.cfg)
	}
	in := linearInsts(c, gr, 4)[0]
	type ctl struct {
		name string
		f    func(step int, a, b *expSet)
		want string
	}
	for _, k := range []ctl{
		{"accum+1", func(step int, a, b *expSet) {
			if step == 2 && len(a.vals) > 0 {
				a.vals[0].a++
			}
		}, "accum/"},
		{"proposer", func(step int, a, b *expSet) {
			if step == 2 {
				for _, v := range a.vals {
					if v.addr != a.gp {
						a.gp = v.addr
						break
					}
				}
			}
		}, "proposer/"},
		{"total", func(step int, a, b *expSet) {
			if step == 1 {
				a.tot++
			}
		}, "total/"},
	} {
		res := &jobResult{}
		rn := &runner{c: c, gr: gr, in: in, r: newRealSys(in), res: res, corrupt: k.f, pathDep: true}
		acts, exps := gr.exps(in, seq)
		f := rn.behaviour(acts, nil, exps, false)
		if f == nil {
			// the proposer control needs two validators and a proposer that differs: tolerate only a set of one
			if k.name == "proposer" && len(exps[2][0].vals) < 2 {
				continue
			}
			return fmt.Errorf("control %q: a corrupted expectation was accepted (behaviour %v)", k.name, acts)
		}
		if !strings.HasPrefix(f.key, k.want) {
			return fmt.Errorf("control %q: rejected for another reason: %s %s", k.name, f.key, f.desc)
		}
	}
	c.SetExtra("negative_controls", "corrupted Accum, proposer and total each rejected at the corrupted step")
	return nil
}
