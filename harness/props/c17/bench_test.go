package c17

import (
	"encoding/json"
	"fmt"
	"testing"

	"verifh/core"
	"verifh/env"
)

func TestNode(t *testing.T) {
	env.GlobalInit()
	c := core.NewCtx("C17", "quick", 1, "/verif")
	c.Child = "x"
	res := nodeJob(c)
	b, _ := json.MarshalIndent(res, "", " ")
	fmt.Println(string(b))
}
