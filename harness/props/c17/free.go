package c17

// Seeded walks beyond the bounds of the model (up to 7 validators, arbitrary and extreme
// powers, rotations by up to 12, long behaviours), compared step by step with the
// transcription of the specification on the 64-bit machine; and re-execution of replay
// files.

import (
	"encoding/json"
	"fmt"
	"io/ioutil"
	"math"
	"math/rand"

	"verifh/core"
)

var extremePowers = []int64{math.MaxInt64, math.MaxInt64 - 1, 1 << 62, 1<<62 + 1, 1<<61 - 1, 1, 2}

func drawPower(rng *rand.Rand, cat int) int64 {
	switch cat {
	case 0:
		return 1 + rng.Int63n(10)
	case 1:
		return 1 + rng.Int63n(1000000)
	case 2:
		return 1<<55 + rng.Int63n(1<<61)
	case 3:
		return extremePowers[rng.Intn(len(extremePowers))]
	}
	return drawPower(rng, rng.Intn(4))
}

func drawAccum(rng *rand.Rand, cat int) int64 {
	if cat < 2 || rng.Intn(3) > 0 {
		return 0
	}
	switch rng.Intn(4) {
	case 0:
		return math.MinInt64
	case 1:
		return math.MinInt64 + 1 + rng.Int63n(1000)
	case 2:
		return math.MaxInt64 - rng.Int63n(1000)
	}
	return rng.Int63() - rng.Int63()
}

// freeBehaviour draws a behaviour; the state needed to keep it within the assumptions
// (distinct addresses, at least one validator, positive powers) is tracked abstractly.
func freeBehaviour(rng *rand.Rand, n, length, cat int) []jAct {
	cur := map[int]jVal{}
	curB := false
	pick := func(present bool) int {
		var c []int
		for a := 1; a <= n; a++ {
			if _, ok := cur[a]; ok == present {
				c = append(c, a)
			}
		}
		if len(c) == 0 {
			return 0
		}
		return c[rng.Intn(len(c))]
	}
	asList := func() []jVal {
		var l []jVal
		for a := 1; a <= n; a++ {
			if v, ok := cur[a]; ok {
				v.A = 0
				l = append(l, v)
			}
		}
		rng.Shuffle(len(l), func(i, j int) { l[i], l[j] = l[j], l[i] })
		return l
	}
	var acts []jAct
	size := 1 + rng.Intn(n)
	var first []jVal
	for _, a := range rng.Perm(n)[:size] {
		v := jVal{Addr: a + 1, P: drawPower(rng, cat), A: drawAccum(rng, cat), Cb: rng.Intn(2)}
		first = append(first, v)
		cur[v.Addr] = v
	}
	acts = append(acts, jAct{Op: "new", List: first})
	for len(acts) < length {
		switch x := rng.Intn(23); {
		case x < 8:
			t := "A"
			if curB && rng.Intn(2) == 0 {
				t = "B"
			}
			k := 1 + rng.Intn(3)
			if rng.Intn(4) == 0 {
				k = 1 + rng.Intn(12)
			}
			acts = append(acts, jAct{Op: "inc", T: t, K: k})
		case x < 10:
			ad := pick(false)
			res := ad != 0
			if ad == 0 || rng.Intn(8) == 0 {
				ad, res = pick(true), false // adding a member is refused
			}
			v := jVal{Addr: ad, P: drawPower(rng, cat), A: drawAccum(rng, cat), Cb: rng.Intn(2)}
			if res {
				cur[ad] = v
			}
			acts = append(acts, jAct{Op: "add", V: &v, Res: res})
		case x < 12:
			ad := pick(true)
			res := true
			if rng.Intn(8) == 0 {
				if o := pick(false); o != 0 {
					ad, res = o, false
				}
			}
			v := jVal{Addr: ad, P: drawPower(rng, cat), A: drawAccum(rng, cat), Cb: rng.Intn(2)}
			if res {
				cur[ad] = v
			}
			acts = append(acts, jAct{Op: "update", V: &v, Res: res})
		case x < 14:
			if len(cur) < 2 {
				continue
			}
			ad := pick(true)
			res := true
			if rng.Intn(8) == 0 {
				if o := pick(false); o != 0 {
					ad, res = o, false
				}
			}
			if res {
				delete(cur, ad)
			}
			acts = append(acts, jAct{Op: "remove", Addr: ad, Res: res})
		case x < 16:
			acts = append(acts, jAct{Op: "copy"})
			curB = true
		case x < 17:
			if curB {
				// adopting is only meaningful for a copy of the current membership; the
				// membership of B may be older: keep the abstract membership in step
				continue
			}
		case x < 18:
			if curB {
				acts = append(acts, jAct{Op: "drop"})
				curB = false
			}
		case x >= 20: // persist-and-reload of either holder
			t := "A"
			if curB && rng.Intn(2) == 0 {
				t = "B"
			}
			acts = append(acts, jAct{Op: "reload", T: t})
		default:
			var l []jVal
			switch rng.Intn(4) {
			case 0: // nothing from the application
			case 1:
				l = asList()
			default:
				l = asList()
				switch rng.Intn(3) {
				case 0:
					i := rng.Intn(len(l))
					l[i].P = drawPower(rng, cat)
				case 1:
					if ad := pick(false); ad != 0 {
						l = append(l, jVal{Addr: ad, P: drawPower(rng, cat), Cb: rng.Intn(2)})
					}
				default:
					if len(l) > 1 {
						l = l[1:]
					}
				}
			}
			if len(l) > 0 {
				// the membership after the step is the list if it hashes differently; either way
				// it equals the list's membership (same identity) -- accums are the reference's business
				cur = map[int]jVal{}
				for _, v := range l {
					cur[v.Addr] = v
				}
			}
			acts = append(acts, jAct{Op: "ustat", List: l})
			curB = true
		}
	}
	return acts
}

func freeInst(w, n int) *inst {
	name := fmt.Sprintf("free-%d", w)
	return &inst{name: name + " x1", table: name, ids: table(name, n), cbs: coinbases, linear: true, scale: 1}
}

func freeWalks(c *core.Ctx, w, count int) *jobResult {
	res := &jobResult{}
	const n = 7
	in := freeInst(w, n)
	rn := &runner{c: c, in: in, useRef: true, r: newRealSys(in), res: res, splitK: 4, allPerms: c.Thorough()}
	for i := 0; i < count; i++ {
		rng := rand.New(rand.NewSource(c.Seed*1000003 + int64(w)*7919 + int64(i)))
		cat := (w + i) % 5
		acts := freeBehaviour(rng, n, 20+rng.Intn(40), cat)
		f := rn.behaviour(acts, nil, nil, i%2 == 0)
		res.Behaviours++
		res.Nontrivial++
		res.Covered += len(acts)
		if res.Sample == nil && cat == 3 {
			var tr []string
			for _, a := range acts[:min(len(acts), 8)] {
				tr = append(tr, a.String())
			}
			res.Sample = map[string]interface{}{"config": "seeded walk beyond the model, extreme powers", "instantiation": in.describe(), "behaviour_prefix": tr, "length": len(acts)}
		}
		if f != nil {
			f.record["walk"] = map[string]int{"worker": w, "index": i, "category": cat}
			res.Abandoned++
			rn.add(*f)
			if res.Abandoned >= 10 {
				break
			}
		}
	}
	res.Stale = rn.r.staleProposerAccum
	return res
}

// ---- replay files ----------------------------------------------------------------

type replayFile struct {
	Property string `json:"property"`
	Key      string `json:"key"`
	Record   struct {
		Instantiation struct {
			Table  string     `json:"table"`
			N      int        `json:"n"`
			Linear bool       `json:"linear"`
			Scale  int64      `json:"scale"`
			Powers [][2]int64 `json:"powers"`
			Accums [][2]int64 `json:"accums"`
		} `json:"instantiation"`
		Actions []string `json:"actions"`
		Lead    *jLead   `json:"lead"`
		Node    string   `json:"node_scenario"`
		K       int      `json:"k"`
	} `json:"record"`
}

// runReplay re-executes the behaviour of a replay file on the real code. The expectation
// is recomputed by the transcription of the specification (no TLC run is needed).
func runReplay(c *core.Ctx) {
	b, err := ioutil.ReadFile(c.Replay)
	if err != nil {
		c.Infra("replay file: %v", err)
		return
	}
	var rf replayFile
	if err := json.Unmarshal(b, &rf); err != nil {
		c.Infra("replay file: %v", err)
		return
	}
	rec := rf.Record
	report := func(r *jobResult) {
		for _, f := range r.Findings {
			c.Violate(f.Key, f.Desc, f.Record)
		}
		o := c.Out()
		o.Traces += r.Behaviours
		o.Evaluations += r.Steps
	}
	switch {
	case rec.Node != "":
		nodeScenarios(c, report)
	case rec.Lead != nil:
		_, f := reproduceLead(c, rec.Lead)
		if f != nil {
			c.Violate(f.key, f.desc, f.record)
		}
	case len(rec.Actions) > 0:
		in := &inst{name: rec.Instantiation.Table, table: rec.Instantiation.Table, ids: table(rec.Instantiation.Table, rec.Instantiation.N), cbs: coinbases,
			linear: rec.Instantiation.Linear, scale: rec.Instantiation.Scale}
		if !in.linear {
			in.pmap, in.amap = map[int64]int64{}, map[int64]int64{}
			for _, kv := range rec.Instantiation.Powers {
				in.pmap[kv[0]] = kv[1]
			}
			for _, kv := range rec.Instantiation.Accums {
				in.amap[kv[0]] = kv[1]
			}
		}
		var acts []jAct
		for _, s := range rec.Actions {
			var a jAct
			if err := json.Unmarshal([]byte(s), &a); err != nil {
				c.Infra("replay file: action %q: %v", s, err)
				return
			}
			acts = append(acts, a)
		}
		res := &jobResult{}
		rn := &runner{c: c, in: in, useRef: true, r: newRealSys(in), res: res, splitK: 4}
		if rec.K > rn.splitK {
			rn.splitK = rec.K
		}
		if f := rn.behaviour(acts, nil, nil, false); f != nil {
			rn.add(*f)
		}
		res.Behaviours = 1
		report(res)
	default:
		c.Infra("replay file %s holds nothing to re-execute", c.Replay)
	}
}
