package c17

// Consensus level, persist-and-reload (Reload of the specification).  Two real
// ConsensusState observers follow the same chain; one of them is rebuilt from its own
// status DB between heights the way node.NewNode does after a restart (LoadStatus or
// LoadStatusByHeight, status.Copy() into a fresh ConsensusState, LastCommit reconstructed
// from the seen commit) -- at height 1 (from the saved genesis status) or at height 2 (from
// the status ApplyBlock saved) --, the other keeps running.  pi_prop, restarted node
// against running node against the specification (UpdateStatus of the rotation model):
//   - Validators.GetProposer() in (height 2, round 0) and after walking to round 1,
//   - LastValidators.GetProposer(): the round-0 proposer of height 1 (fault evidence),
//   - acceptance of the height-2 proposal signed by the proposer the specification names,
//   - validateBlock / VerifyFaultValEvidence of block 2 (LastCommit + fault-validator
//     evidence naming the proposers the specification names),
//   - the sets both carry into height 3 after committing block 2.

import (
	"fmt"

	cs "github.com/lianxiangcloud/linkchain/consensus"
	cstypes "github.com/lianxiangcloud/linkchain/consensus/types"
	cmn "github.com/lianxiangcloud/linkchain/libs/common"
	"github.com/lianxiangcloud/linkchain/libs/log"
	"github.com/lianxiangcloud/linkchain/types"
)

type restartCase struct {
	Powers      []int64 `json:"powers"`
	CommitRound int     `json:"commit_round"` // the round block 1 is committed in (0 | 1)
	RestartAt   uint64  `json:"restart_at"`   // the height the restarted node is rebuilt at (1 | 2)
	Via         string  `json:"restart_via"`  // "LoadStatus" | "LoadStatusByHeight"
	AppList     string  `json:"application_output"`
}

func setProposer(in *inst, vs *types.ValidatorSet) int {
	if vs == nil || len(vs.Validators) == 0 {
		return 0
	}
	p := vs.Copy().GetProposer()
	if p == nil {
		return 0
	}
	return in.addrOf(p.Address)
}

func runRestartCase(seed string, rc restartCase, res *jobResult) (fs []finding) {
	w := newWorld(seed, rc.Powers)
	rec := func() map[string]interface{} {
		return map[string]interface{}{"node_scenario": "restart", "case": rc, "instantiation": w.in.describe()}
	}
	infra := func(err error) []finding {
		return append(fs, finding{key: "harness", desc: fmt.Sprintf("restart scenario %+v: %v", rc, err)})
	}
	violate := func(key, format string, a ...interface{}) []finding {
		return append(fs, finding{key: key, desc: fmt.Sprintf("validators with powers %v, block 1 committed in round %d, node rebuilt from its status DB at height %d by %s: ", rc.Powers, rc.CommitRound, rc.RestartAt, rc.Via) + fmt.Sprintf(format, a...), record: rec()})
	}
	running, err := newObserver("running", w.gen)
	if err != nil {
		return infra(err)
	}
	restarted, err := newObserver("restarted", w.gen)
	if err != nil {
		return infra(err)
	}
	restart := func() error {
		n, err := restartObserver(restarted, rc.Via)
		if err != nil {
			return err
		}
		restarted = n
		res.Restarts++
		return nil
	}
	// the specification's view
	var l []rVal
	for _, v := range w.list {
		l = append(l, convPlain(v))
	}
	a0 := m64.newSet(l)
	expAt := func(s *rSet, r int) int {
		x := s.clone()
		m64.incFixed(x, r)
		return m64.getProposer(x)
	}
	if rc.RestartAt == 1 {
		if err := restart(); err != nil {
			return violate("restart/load", "%v", err)
		}
	}
	nodes := func() []*obsNode { return []*obsNode{running, restarted} }

	// ---- height 1 ----
	for _, n := range nodes() {
		if f := n.c.VerifFire(cs.VerifTimeout{Height: types.BlockHeightOne, Round: 0, Step: cstypes.RoundStepNewHeight}); f != nil {
			return infra(fmt.Errorf("node %s: start of height 1: %v", n.name, f))
		}
		n.c.VerifScheduled()
		res.Steps++
	}
	for r := 0; r <= rc.CommitRound; r++ {
		want := expAt(a0, r)
		got := map[string]int{}
		for _, n := range nodes() {
			rr, p, _ := proposerOf(w.in, n)
			if rr != r {
				return infra(fmt.Errorf("node %s is in round %d, not %d", n.name, rr, r))
			}
			got[n.name] = p
		}
		if got["running"] != want || got["restarted"] != want {
			return violate("node-disagreement/restart", "in height 1 round %d the node that kept running has proposer #%d, the restarted node #%d, the specification #%d", r, got["running"], got["restarted"], want)
		}
		if r < rc.CommitRound {
			for _, n := range nodes() {
				if err := w.votes(n, types.VoteTypePrecommit, r, types.BlockID{}); err != nil {
					return infra(err)
				}
				res.Steps++
			}
		}
	}
	params := types.DefaultConsensusParams()
	block1, parts1 := w.firstBlock(running.c.VerifStatus().Validators.Hash(), params)
	id1 := types.BlockID{Hash: block1.Hash(), PartsHeader: parts1.Header()}
	prop1 := types.NewProposal(types.BlockHeightOne, rc.CommitRound, parts1.Header(), -1, types.BlockID{})
	if err := w.pvs[expAt(a0, rc.CommitRound)-1].SignProposal(w.chain, prop1); err != nil {
		return infra(err)
	}
	var appList []jVal
	switch rc.AppList {
	case "same":
		appList = append(appList, w.list...)
	case "power-change":
		appList = append(appList, w.list...)
		appList[0].P += 2
	}
	var rl []rVal
	for _, v := range appList {
		rl = append(rl, convPlain(v))
	}
	acc := map[string]bool{}
	for _, n := range nodes() {
		n.app.ret = nil
		for _, v := range appList {
			n.app.ret = append(n.app.ret, w.in.mkJ(v))
		}
		if err := n.deliver(&cs.ProposalMessage{Proposal: prop1}); err != nil {
			return infra(err)
		}
		acc[n.name] = n.c.GetRoundState().Proposal != nil
		res.Steps++
	}
	if !acc["running"] || !acc["restarted"] {
		return violate("node-disagreement/restart", "the height-1 round-%d proposal signed by #%d (the proposer the specification names) was accepted by running=%v restarted=%v", rc.CommitRound, expAt(a0, rc.CommitRound), acc["running"], acc["restarted"])
	}
	for _, n := range nodes() {
		if err := w.votes(n, types.VoteTypePrecommit, rc.CommitRound, id1); err != nil {
			return infra(err)
		}
		for i := 0; i < parts1.Total(); i++ {
			if err := n.deliver(&cs.BlockPartMessage{Height: types.BlockHeightOne, Round: rc.CommitRound, Part: parts1.GetPart(i)}); err != nil {
				return infra(err)
			}
		}
		res.Steps++
		if rs := n.c.GetRoundState(); rs.Height != types.BlockHeightOne+1 {
			return infra(fmt.Errorf("node %s did not commit block 1 (height %d step %v)", n.name, rs.Height, rs.Step))
		}
	}
	next, lastv, _ := m64.updateStatus(a0, rl)

	// ---- the restart between the heights ----
	if rc.RestartAt == 2 {
		if err := restart(); err != nil {
			return violate("restart/load", "%v", err)
		}
	}
	r := newRealSys(w.in)
	for _, n := range nodes() {
		st := n.c.VerifStatus()
		// (recorded; the scenario goes on to what the consensus state makes of the sets)
		if mm, _ := r.observe(st.Validators, expFromRef(m64, next), true); mm != nil {
			fs = violate(mm.class+"/restart", "status.Validators of the %s node for height 2: %s", n.name, mm.text)
		} else if mm, _ := r.observe(st.LastValidators, expFromRef(m64, lastv), true); mm != nil {
			fs = violate(mm.class+"/restart", "status.LastValidators of the %s node at height 2: %s", n.name, mm.text)
		}
		res.Commits++
	}

	// ---- height 2 ----
	for _, n := range nodes() {
		if f := n.c.VerifFire(cs.VerifTimeout{Height: 2, Round: 0, Step: cstypes.RoundStepNewHeight}); f != nil {
			return infra(fmt.Errorf("node %s: start of height 2: %v", n.name, f))
		}
		n.c.VerifScheduled()
		res.Steps++
	}
	want2 := m64.getProposer(next)
	wantLast := m64.getProposer(lastv) // the round-0 proposer of height 1
	{
		got, gotLast := map[string]int{}, map[string]int{}
		for _, n := range nodes() {
			rs := n.c.GetRoundState()
			if rs.Height != 2 || rs.Round != 0 {
				return infra(fmt.Errorf("node %s is at %d/%d, not 2/0", n.name, rs.Height, rs.Round))
			}
			got[n.name], gotLast[n.name] = setProposer(w.in, rs.Validators), setProposer(w.in, rs.LastValidators)
		}
		if got["running"] != want2 || got["restarted"] != want2 {
			fs = violate("node-disagreement/restart", "in height 2 round 0 the node that kept running expects proposer #%d, the restarted node #%d, the specification #%d", got["running"], got["restarted"], want2)
		}
		if gotLast["running"] != wantLast || gotLast["restarted"] != wantLast {
			fs = violate("evidence/restart", "LastValidators.GetProposer() -- the round-0 proposer of height 1 that fault evidence names -- is #%d on the node that kept running, #%d on the restarted node, #%d in the specification", gotLast["running"], gotLast["restarted"], wantLast)
		}
		if got["running"] != want2 || got["restarted"] != want2 || gotLast["running"] != wantLast || gotLast["restarted"] != wantLast {
			return fs
		}
	}
	// block 2: LastCommit of block 1 and the fault-validator evidence of its commit round
	commit1 := running.app.commit
	if commit1 == nil {
		return infra(fmt.Errorf("no seen commit for block 1"))
	}
	fvi := &types.FaultValidatorsEvidence{BlockHeight: types.BlockHeightOne, Round: rc.CommitRound}
	if rc.CommitRound == 0 {
		fvi.Proposer = w.in.ids[wantLast-1].pub
	} else {
		fvi.FaultVal = w.in.ids[wantLast-1].pub
		fvi.Proposer = w.in.ids[expAt(lastv, rc.CommitRound)-1].pub
	}
	rst := running.c.VerifStatus()
	block2 := types.MakeBlock(2, nil, commit1)
	block2.Header.ChainID = w.chain
	block2.Header.Time = 1700000001
	block2.LastBlockID = rst.LastBlockID
	block2.TotalTxs = rst.LastBlockTotalTx
	block2.ValidatorsHash = cmn.BytesToHash(rst.Validators.Hash())
	block2.ConsensusHash = cmn.BytesToHash(rst.ConsensusParams.Hash())
	block2.AddEvidence([]types.Evidence{fvi})
	block2.LastCommitHash = block2.LastCommit.Hash()
	block2.DataHash = block2.Data.Hash()
	block2.EvidenceHash = block2.Evidence.Hash()
	parts2 := block2.MakePartSet(params.BlockGossip.BlockPartSizeBytes)
	id2 := types.BlockID{Hash: block2.Hash(), PartsHeader: parts2.Header()}
	verdict := map[string]string{}
	for _, n := range nodes() {
		be := cs.NewBlockExecutor(n.db, log.NewNopLogger(), cs.MockEvidencePool{})
		st := n.c.VerifStatus()
		var e1, e2 error
		if p := guard(func() {
			e1 = cs.VerifyFaultValEvidence(st, commit1, fvi)
			e2 = be.ValidateBlock(st, block2)
		}); p != "" {
			e2 = fmt.Errorf("panic: %s", p)
		}
		res.Steps++
		verdict[n.name] = fmt.Sprintf("VerifyFaultValEvidence: %v; ValidateBlock: %v", e1, e2)
		if n == running && (e1 != nil || e2 != nil) {
			if e1 != nil && rc.CommitRound == 0 {
				return violate("evidence/proposer", "the node that kept running rejects fault evidence that names #%d, the round-0 proposer of height 1: %v", wantLast, e1)
			}
			return infra(fmt.Errorf("the running node rejects block 2: %s", verdict[n.name]))
		}
		if n == restarted && (e1 != nil || e2 != nil) {
			return violate("evidence/restart", "block 2 (LastCommit of round %d, fault evidence naming proposer #%d) is valid for the node that kept running and rejected by the restarted node: %s", rc.CommitRound, wantLast, verdict[n.name])
		}
	}
	prop2 := types.NewProposal(2, 0, parts2.Header(), -1, types.BlockID{})
	if err := w.pvs[want2-1].SignProposal(w.chain, prop2); err != nil {
		return infra(err)
	}
	for _, n := range nodes() {
		if err := n.deliver(&cs.ProposalMessage{Proposal: prop2}); err != nil {
			return infra(err)
		}
		acc[n.name] = n.c.GetRoundState().Proposal != nil
		res.Steps++
	}
	if !acc["running"] || !acc["restarted"] {
		return violate("node-disagreement/restart", "the height-2 round-0 proposal signed by #%d (the proposer the specification names) was accepted by running=%v restarted=%v", want2, acc["running"], acc["restarted"])
	}
	next2, lastv2, _ := m64.updateStatus(next, nil)
	for _, n := range nodes() {
		n.app.ret = nil
		if err := w.votesAt(2, n, types.VoteTypePrecommit, 0, id2); err != nil {
			return infra(err)
		}
		for i := 0; i < parts2.Total(); i++ {
			if err := n.deliver(&cs.BlockPartMessage{Height: 2, Round: 0, Part: parts2.GetPart(i)}); err != nil {
				return infra(err)
			}
		}
		res.Steps++
		rs := n.c.GetRoundState()
		if rs.Height != 3 {
			if n == restarted {
				return violate("node-disagreement/restart", "the node that kept running committed block 2, the restarted node did not (height %d step %v)", rs.Height, rs.Step)
			}
			return infra(fmt.Errorf("node %s did not commit block 2 (height %d step %v)", n.name, rs.Height, rs.Step))
		}
		if mm, _ := r.observe(rs.Validators, expFromRef(m64, next2), true); mm != nil {
			return violate(mm.class+"/restart", "validators of the %s node for height 3: %s", n.name, mm.text)
		}
		if mm, _ := r.observe(rs.LastValidators, expFromRef(m64, lastv2), true); mm != nil {
			return violate(mm.class+"/restart", "LastValidators of the %s node at height 3: %s", n.name, mm.text)
		}
		res.Commits++
	}
	return
}

func restartCases(seed int64, all [][]int64, n int) []restartCase {
	var out []restartCase
	outs := []string{"none", "same", "power-change"}
	vias := []string{"LoadStatus", "LoadStatusByHeight"}
	i := 0
	pw := append([][]int64{{1, 1, 1, 1}, {1, 3, 1, 3}, {5, 3, 1}, {1, 3}}, all...)
	for _, p := range pw {
		if len(out) >= n {
			break
		}
		for _, at := range []uint64{2, 1} {
			for _, cr := range []int{0, 1} {
				out = append(out, restartCase{Powers: p, CommitRound: cr, RestartAt: at, Via: vias[(i/2)%2], AppList: outs[i%len(outs)]})
				i++
			}
		}
	}
	return out
}
