package c17

// Consensus level.  Two real ConsensusState instances (observers: they hold no key, so
// every vote and proposal they see is made by the harness with the validators' keys)
// follow the same height of the same chain:
//   the walker enters rounds 1, 2, .. one at a time (+2/3 nil precommits per round),
//   the skipper was cut off and enters the target round in one jump (+2/3 nil
//   precommits of the round before, or +2/3 prevotes of the target round).
// Both are then given the proposal of the target round signed by the proposer the
// specification names (Walk(NewValidatorSet(genesis), round)), the block and +2/3
// precommits for it; the application returns a validator list and the sets both nodes
// carry into the next height are compared with the specification's UpdateStatus.
// pi_prop: Validators.GetProposer() of both nodes in the same (height, round); whether the
// proposal is accepted; every Accum / GetProposer / Hash / TotalVotingPower of
// Validators and LastValidators after the commit.

import (
	"bytes"
	"fmt"
	"math/big"
	"math/rand"
	"sort"
	"time"

	cfg "github.com/lianxiangcloud/linkchain/config"
	cs "github.com/lianxiangcloud/linkchain/consensus"
	cstypes "github.com/lianxiangcloud/linkchain/consensus/types"
	cmn "github.com/lianxiangcloud/linkchain/libs/common"
	"github.com/lianxiangcloud/linkchain/libs/crypto"
	dbm "github.com/lianxiangcloud/linkchain/libs/db"
	"github.com/lianxiangcloud/linkchain/libs/log"
	"github.com/lianxiangcloud/linkchain/types"

	"verifh/core"
)

type nodeApp struct {
	height uint64
	ret    []*types.Validator // what CommitBlock hands to updateStatus
	block  *types.Block
	parts  *types.PartSet
	commit *types.Commit
}

func (a *nodeApp) Height() uint64 { return a.height }
func (a *nodeApp) LoadBlockMeta(h uint64) *types.BlockMeta {
	if a.block == nil || h != a.height {
		return nil
	}
	return types.NewBlockMeta(a.block, a.parts)
}
func (a *nodeApp) LoadBlock(h uint64) *types.Block                       { return a.block }
func (a *nodeApp) LoadBlockPart(h uint64, i int) *types.Part             { return a.parts.GetPart(i) }
func (a *nodeApp) LoadBlockCommit(h uint64) *types.Commit                { return a.commit }
func (a *nodeApp) LoadSeenCommit(h uint64) *types.Commit                 { return a.commit }
func (a *nodeApp) GetValidators(h uint64) []*types.Validator             { return a.ret }
func (a *nodeApp) GetRecoverValidators(h uint64) []*types.Validator      { return nil }
func (a *nodeApp) PreRunBlock(b *types.Block)                            {}
func (a *nodeApp) CheckBlock(b *types.Block) bool                        { return true }
func (a *nodeApp) SetLastChangedVals(h uint64, v []*types.Validator)     {}
func (a *nodeApp) CreateBlock(h uint64, n int, g, t uint64) *types.Block { return nil }
func (a *nodeApp) CommitBlock(b *types.Block, ps *types.PartSet, sc *types.Commit, fs bool) ([]*types.Validator, error) {
	a.block, a.parts, a.commit, a.height = b, ps, sc, b.Height
	return a.ret, nil
}

type obsNode struct {
	name string
	c    *cs.ConsensusState
	app  *nodeApp
	db   dbm.DB // the node's status DB (CreateStatusFromGenesisDoc, ApplyBlock's SaveStatus)
	peer int
}

func newObserver(name string, gen *types.GenesisDoc) (*obsNode, error) {
	db := dbm.NewMemDB()
	status, err := cs.CreateStatusFromGenesisDoc(db, gen)
	if err != nil {
		return nil, err
	}
	return buildObserver(name, db, status, &nodeApp{})
}

// restartObserver rebuilds a node from its own status DB the way node.NewNode does:
// LoadStatus (or LoadStatusByHeight, the roll-back path), then status.Copy() into a fresh
// ConsensusState (which reconstructs LastCommit from the seen commit of the application).
func restartObserver(n *obsNode, via string) (*obsNode, error) {
	var status cs.NewStatus
	var err error
	if p := guard(func() {
		if via == "LoadStatusByHeight" {
			status, err = cs.LoadStatusByHeight(n.db, n.app.height)
		} else {
			status, err = cs.LoadStatus(n.db)
		}
	}); p != "" {
		return nil, fmt.Errorf("%s panicked: %s", via, p)
	}
	if err != nil {
		return nil, fmt.Errorf("%s: %v", via, err)
	}
	var out *obsNode
	if p := guard(func() { out, err = buildObserver(n.name, n.db, status.Copy(), n.app) }); p != "" {
		return nil, fmt.Errorf("rebuilding node %s from its status DB panicked: %s", n.name, p)
	}
	return out, err
}

func buildObserver(name string, db dbm.DB, status cs.NewStatus, app *nodeApp) (*obsNode, error) {
	conf := cfg.TestConsensusConfig()
	conf.SkipTimeoutCommit = false
	conf.CreateEmptyBlocks = true
	conf.CreateEmptyBlocksInterval = 0
	be := cs.NewBlockExecutor(db, log.NewNopLogger(), cs.MockEvidencePool{})
	c := cs.NewConsensusState(conf, status, be, app, cs.MockMempool{}, cs.MockEvidencePool{})
	c.SetLogger(log.NewNopLogger())
	eb := types.NewEventBus()
	eb.SetLogger(log.NewNopLogger())
	if err := eb.Start(); err != nil {
		return nil, err
	}
	c.SetEventBus(eb)
	c.VerifInstall()
	return &obsNode{name: name, c: c, app: app, db: db}, nil
}

func (n *obsNode) deliver(m cs.ConsensusMessage) error {
	n.peer++
	if f := n.c.VerifDeliver(m, fmt.Sprintf("peer%d", n.peer)); f != nil {
		return fmt.Errorf("node %s: handling %v failed: %v", n.name, m, f)
	}
	for { // an observer signs nothing, but drain whatever it queued for itself
		m, f := n.c.VerifPopInternal()
		if f != nil {
			return fmt.Errorf("node %s: internal message failed: %v", n.name, f)
		}
		if m == nil {
			return nil
		}
	}
}

type nodeWorld struct {
	chain string
	pvs   []*types.MockPV // sorted by address = index in the validator set
	in    *inst
	list  []jVal // the genesis validators as the specification sees them
	gen   *types.GenesisDoc
}

func newWorld(seed string, powers []int64) *nodeWorld {
	w := &nodeWorld{chain: "c17-" + seed}
	for i := range powers {
		pv := types.NewMockPV()
		pv.UpdatePrikey(crypto.GenPrivKeyEd25519FromSecret([]byte(fmt.Sprintf("c17/node/%s/%d", seed, i))))
		w.pvs = append(w.pvs, pv)
	}
	sort.Slice(w.pvs, func(i, j int) bool { return bytes.Compare(w.pvs[i].GetAddress(), w.pvs[j].GetAddress()) < 0 })
	w.in = &inst{name: "node-" + seed, table: "node", cbs: coinbases, linear: true, scale: 1}
	w.gen = &types.GenesisDoc{ChainID: w.chain, ConsensusParams: types.DefaultConsensusParams()}
	for i, pv := range w.pvs {
		w.in.ids = append(w.in.ids, ident{pv.GetAddress(), pv.GetPubKey()})
		w.list = append(w.list, jVal{Addr: i + 1, P: powers[i]})
		w.gen.Validators = append(w.gen.Validators, types.GenesisValidator{PubKey: pv.GetPubKey(), Power: powers[i], Name: fmt.Sprintf("v%d", i)})
	}
	return w
}

func (w *nodeWorld) vote(i int, typ byte, round int, id types.BlockID) (*types.Vote, error) {
	return w.voteAt(types.BlockHeightOne, i, typ, round, id)
}

func (w *nodeWorld) voteAt(h uint64, i int, typ byte, round int, id types.BlockID) (*types.Vote, error) {
	v := &types.Vote{ValidatorAddress: w.pvs[i].GetAddress(), ValidatorIndex: i, ValidatorSize: len(w.pvs), Height: h, Round: round,
		Timestamp: time.Unix(1700000000, 0).UTC(), Type: typ, BlockID: id}
	return v, w.pvs[i].SignVote(w.chain, v)
}

// votes delivers one vote of the given kind from every validator.
func (w *nodeWorld) votes(n *obsNode, typ byte, round int, id types.BlockID) error {
	return w.votesAt(types.BlockHeightOne, n, typ, round, id)
}

func (w *nodeWorld) votesAt(h uint64, n *obsNode, typ byte, round int, id types.BlockID) error {
	for i := range w.pvs {
		v, err := w.voteAt(h, i, typ, round, id)
		if err != nil {
			return err
		}
		if err := n.deliver(&cs.VoteMessage{Vote: v}); err != nil {
			return err
		}
	}
	return nil
}

func (w *nodeWorld) firstBlock(valHash []byte, params *types.ConsensusParams) (*types.Block, *types.PartSet) {
	block := types.MakeBlock(types.BlockHeightOne, nil, &types.Commit{})
	block.Header.ChainID = w.chain
	block.Header.Time = 1700000000
	block.ValidatorsHash = cmn.BytesToHash(valHash)
	block.ConsensusHash = cmn.BytesToHash(params.Hash())
	block.LastCommitHash = block.LastCommit.Hash()
	block.DataHash = block.Data.Hash()
	block.EvidenceHash = block.Evidence.Hash()
	return block, block.MakePartSet(params.BlockGossip.BlockPartSizeBytes)
}

func proposerOf(in *inst, n *obsNode) (round int, addr int, step cstypes.RoundStepType) {
	rs := n.c.GetRoundState()
	p := rs.Validators.Copy().GetProposer()
	if p == nil {
		return rs.Round, 0, rs.Step
	}
	return rs.Round, in.addrOf(p.Address), rs.Step
}

type nodeCase struct {
	Powers  []int64 `json:"powers"`
	Target  int     `json:"target_round"`
	Skip    string  `json:"skip_by"` // "precommits" (of round target-1) | "prevotes" (of round target)
	AppList string  `json:"application_output"`
}

// runNodeCase returns the findings of one scenario.
func runNodeCase(seed string, nc nodeCase, res *jobResult) (fs []finding) {
	w := newWorld(seed, nc.Powers)
	rec := func() map[string]interface{} {
		return map[string]interface{}{"node_scenario": "walk-vs-skip", "case": nc, "instantiation": w.in.describe()}
	}
	infra := func(err error) []finding {
		return append(fs, finding{key: "harness", desc: fmt.Sprintf("consensus scenario %+v: %v", nc, err)})
	}
	walker, err := newObserver("walker", w.gen)
	if err != nil {
		return infra(err)
	}
	skipper, err := newObserver("skipper", w.gen)
	if err != nil {
		return infra(err)
	}
	// the specification's view
	var l []rVal
	for _, v := range w.list {
		l = append(l, convPlain(v))
	}
	a0 := m64.newSet(l)
	expAt := func(r int) int {
		x := a0.clone()
		m64.incFixed(x, r)
		return m64.getProposer(x)
	}
	for _, n := range []*obsNode{walker, skipper} {
		if f := n.c.VerifFire(cs.VerifTimeout{Height: types.BlockHeightOne, Round: 0, Step: cstypes.RoundStepNewHeight}); f != nil {
			return infra(fmt.Errorf("start of round 0: %v", f))
		}
		n.c.VerifScheduled()
		res.Steps++
		if r, p, _ := proposerOf(w.in, n); r != 0 || p != expAt(0) {
			fs = append(fs, finding{key: "proposer/genesis", desc: fmt.Sprintf("powers %v: node %s is in round %d with proposer #%d, the specification has #%d for round 0", nc.Powers, n.name, r, p, expAt(0)), record: rec()})
			return
		}
	}
	// the walker: one round at a time
	for r := 0; r < nc.Target; r++ {
		if err := w.votes(walker, types.VoteTypePrecommit, r, types.BlockID{}); err != nil {
			return infra(err)
		}
		res.Steps++
		if got, p, _ := proposerOf(w.in, walker); got != r+1 || p != expAt(r+1) {
			fs = append(fs, finding{key: "proposer/enter-new-round-1", desc: fmt.Sprintf("powers %v: after +2/3 nil precommits of round %d the walking node is in round %d with proposer #%d; the specification has proposer #%d in round %d", nc.Powers, r, got, p, expAt(r+1), r+1), record: rec()})
			return
		}
	}
	// the skipper: one jump
	if nc.Skip == "precommits" {
		err = w.votes(skipper, types.VoteTypePrecommit, nc.Target-1, types.BlockID{})
	} else {
		err = w.votes(skipper, types.VoteTypePrevote, nc.Target, types.BlockID{})
	}
	if err != nil {
		return infra(err)
	}
	res.Steps++
	wr, wp, _ := proposerOf(w.in, walker)
	sr, sp, _ := proposerOf(w.in, skipper)
	if wr != nc.Target || sr != nc.Target {
		return infra(fmt.Errorf("nodes are in rounds %d and %d, not %d", wr, sr, nc.Target))
	}
	want := expAt(nc.Target)
	// what the real library does from the genesis set: one call by `target`, and single steps
	var l0 []*types.Validator
	for _, v := range w.list {
		l0 = append(l0, w.in.mkJ(v))
	}
	libJump, libWalk := types.NewValidatorSet(l0), types.NewValidatorSet(l0)
	guard(func() { libJump.IncrementAccum(nc.Target) })
	guard(func() {
		for i := 0; i < nc.Target; i++ {
			libWalk.IncrementAccum(1)
		}
	})
	cd, fx := a0.clone(), a0.clone()
	m64c.incCoded(cd, nc.Target)
	m64.incFixed(fx, nc.Target)
	cdP := m64c.getProposer(cd)
	sameAs := func(vs *types.ValidatorSet, m *machine, x *rSet) bool {
		if len(vs.Validators) != len(x.Vals) || w.in.addrOf(vs.Copy().GetProposer().Address) != m.getProposer(x) {
			return false
		}
		for i, v := range vs.Validators {
			if x.Vals[i].A.Cmp(big.NewInt(v.Accum)) != 0 {
				return false
			}
		}
		return true
	}
	// the known deviation explains a disagreement only if the library itself deviates, in
	// exactly the way the as-coded operator of the specification predicts (priorities and
	// proposer), while its single steps follow the designed rotation
	libDeviates := sameAs(libJump, m64c, cd) && sameAs(libWalk, m64, fx) && cdP != want
	// both get the proposal of the proposer the specification names, then the block and the commit
	params := types.DefaultConsensusParams()
	block, parts := w.firstBlock(walker.c.VerifStatus().Validators.Hash(), params)
	id := types.BlockID{Hash: block.Hash(), PartsHeader: parts.Header()}
	prop := types.NewProposal(types.BlockHeightOne, nc.Target, parts.Header(), -1, types.BlockID{})
	if err := w.pvs[want-1].SignProposal(w.chain, prop); err != nil {
		return infra(err)
	}
	accepted := map[string]bool{}
	for _, n := range []*obsNode{walker, skipper} {
		if err := n.deliver(&cs.ProposalMessage{Proposal: prop}); err != nil {
			return infra(err)
		}
		accepted[n.name] = n.c.GetRoundState().Proposal != nil
		res.Steps++
	}
	if wp != sp || sp != want || !accepted["walker"] || !accepted["skipper"] {
		key := "node-disagreement/enter-new-round"
		if libDeviates && wp == want && sp == cdP {
			key = keyPathDep // the skipping node did exactly what the as-coded operator predicts
		}
		r := rec()
		r["walker_proposer"], r["skipper_proposer"], r["specification_proposer"], r["proposal_accepted"] = wp, sp, want, accepted
		fs = append(fs, finding{key: key, desc: fmt.Sprintf("validators with powers %v, height 1 round %d: the node that walked through the rounds has proposer #%d, the node that skipped from round 0 (by +2/3 %s) has proposer #%d, the specification #%d; the proposal signed by #%d was accepted by walker=%v skipper=%v",
			nc.Powers, nc.Target, wp, nc.Skip, sp, want, want, accepted["walker"], accepted["skipper"]), record: r})
		if key != keyPathDep {
			return
		}
	}
	// the fault evidence of the next block names the proposer of the round the block was
	// committed in; VerifyFaultValEvidence recomputes it from the previous height's set
	{
		pc, err := w.vote(0, types.VoteTypePrecommit, nc.Target, id)
		if err != nil {
			return infra(err)
		}
		commit := &types.Commit{BlockID: id, Precommits: []*types.Vote{pc}}
		verify := func(proposer int) error {
			st := cs.NewStatus{ChainID: w.chain, LastValidators: walker.c.VerifStatus().Validators}
			fvi := &types.FaultValidatorsEvidence{BlockHeight: types.BlockHeightOne, Round: nc.Target, FaultVal: w.in.ids[expAt(0)-1].pub, Proposer: w.in.ids[proposer-1].pub}
			var e error
			if p := guard(func() { e = cs.VerifyFaultValEvidence(st, commit, fvi) }); p != "" {
				e = fmt.Errorf("panic: %s", p)
			}
			return e
		}
		res.Steps++
		if e := verify(want); e != nil {
			key := "evidence/proposer"
			if libDeviates && verify(cdP) == nil {
				key = keyPathDep // it accepts what the as-coded operator computes instead
			}
			r := rec()
			r["specification_proposer"], r["error"] = want, e.Error()
			fs = append(fs, finding{key: key, desc: fmt.Sprintf("validators with powers %v: VerifyFaultValEvidence rejects the evidence that names #%d -- the proposer of round %d for every node that walked there -- as proposer of the block committed in round %d: %v", nc.Powers, want, nc.Target, nc.Target, e), record: r})
			if key != keyPathDep {
				return
			}
		}
	}
	// the application's output for the next height, handed to the two nodes in opposite orders
	var appList []jVal
	switch nc.AppList {
	case "same":
		appList = append(appList, w.list...)
	case "power-change":
		appList = append(appList, w.list...)
		appList[0].P += 2
	case "removal":
		appList = append(appList, w.list[1:]...)
	}
	mk := func(rev bool) []*types.Validator {
		var out []*types.Validator
		for _, v := range appList {
			out = append(out, w.in.mkJ(v))
		}
		if rev {
			for i, j := 0, len(out)-1; i < j; i, j = i+1, j-1 {
				out[i], out[j] = out[j], out[i]
			}
		}
		return out
	}
	walker.app.ret, skipper.app.ret = mk(false), mk(true)
	var rl []rVal
	for _, v := range appList {
		rl = append(rl, convPlain(v))
	}
	next, lastv, _ := m64.updateStatus(a0, rl)
	r := newRealSys(w.in)
	for _, n := range []*obsNode{walker, skipper} {
		if err := w.votes(n, types.VoteTypePrecommit, nc.Target, id); err != nil {
			return infra(err)
		}
		for i := 0; i < parts.Total(); i++ {
			if err := n.deliver(&cs.BlockPartMessage{Height: types.BlockHeightOne, Round: nc.Target, Part: parts.GetPart(i)}); err != nil {
				return infra(err)
			}
		}
		res.Steps++
		rs := n.c.GetRoundState()
		if rs.Height != types.BlockHeightOne+1 {
			if !accepted[n.name] {
				continue // never got the block it was owed a proposal for: already recorded above
			}
			return infra(fmt.Errorf("node %s did not commit (height %d step %v)", n.name, rs.Height, rs.Step))
		}
		if mm, _ := r.observe(rs.Validators, expFromRef(m64, next), true); mm != nil {
			fs = append(fs, finding{key: mm.class + "/update-status", desc: fmt.Sprintf("powers %v, application output %q: validators of node %s for height 2: %s", nc.Powers, nc.AppList, n.name, mm.text), record: rec()})
			return
		}
		if mm, _ := r.observe(rs.LastValidators, expFromRef(m64, lastv), true); mm != nil {
			fs = append(fs, finding{key: mm.class + "/update-status", desc: fmt.Sprintf("powers %v, application output %q: LastValidators of node %s: %s", nc.Powers, nc.AppList, n.name, mm.text), record: rec()})
			return
		}
		res.Commits++
	}
	return
}

// nodeScenarios runs the consensus-level scenarios (in this process when it is a child,
// else in a child: a refused block makes the node kill its process).
func nodeScenarios(c *core.Ctx, merge func(*jobResult)) map[string]interface{} {
	if c.Child == "" && c.Replay == "" {
		results, at, crash := c.RunChild(`{"kind":"node"}`, c.MinutesT(3, 15))
		n := 0
		for _, r := range results {
			var jr jobResult
			if err := jsonUnmarshal(r, &jr); err != nil {
				c.Infra("consensus scenarios: unreadable result: %v", err)
				continue
			}
			n += jr.Behaviours
			merge(&jr)
		}
		if crash != "" {
			c.Infra("consensus scenarios died (at %s): %s", at, crash)
		}
		return map[string]interface{}{"scenarios": n, "what": "two real ConsensusState observers per scenario: (a) one walks rounds 0..r, one skips 0->r; proposer, proposal acceptance and the sets carried into height 2 compared with the specification; (b) one is rebuilt from its own status DB (LoadStatus / LoadStatusByHeight, status.Copy()) at height 1 or 2, one keeps running; proposers of heights 1 and 2, LastValidators' proposer, proposal acceptance, validateBlock / VerifyFaultValEvidence of block 2, the sets carried into height 3"}
	}
	res := nodeJob(c)
	merge(res)
	return nil
}

func nodeJob(c *core.Ctx) *jobResult {
	res := &jobResult{}
	rng := rand.New(rand.NewSource(c.Seed))
	pool := []int64{1, 2, 3, 5}
	var all [][]int64
	for a := range pool {
		for b := range pool {
			for d := range pool {
				for e := range pool {
					all = append(all, []int64{pool[a], pool[b], pool[d], pool[e]})
				}
			}
		}
	}
	rng.Shuffle(len(all), func(i, j int) { all[i], all[j] = all[j], all[i] })
	// the powers of the as-coded model's counterexample, padded to a set in which three
	// validators hold +2/3, always come first
	cases := [][]int64{{1, 3, 1, 3}, {3, 1, 1, 1}, {1, 3, 3}}
	cases = append(cases, all[:c.Pick(12, len(all))]...)
	outs := []string{"none", "same", "power-change", "removal"}
	i := 0
	for _, pw := range cases {
		for _, target := range []int{2, 3} {
			for _, skip := range []string{"precommits", "prevotes"} {
				nc := nodeCase{Powers: pw, Target: target, Skip: skip, AppList: outs[i%len(outs)]}
				i++
				fmt.Printf("AT consensus scenario %+v\n", nc)
				var fs []finding
				if p := guard(func() { fs = runNodeCase(fmt.Sprintf("%d-%d", c.Seed, i), nc, res) }); p != "" {
					fs = append(fs, finding{key: "harness", desc: fmt.Sprintf("consensus scenario %+v panicked: %s", nc, p)})
				}
				res.Behaviours++
				res.Nontrivial++
				res.Covered++
				for _, f := range fs {
					dup := false
					for _, o := range res.Findings {
						dup = dup || o.Key == f.key
					}
					if !dup {
						res.Findings = append(res.Findings, jFinding{f.key, f.desc, f.record})
					}
				}
			}
		}
	}
	// persist-and-reload: one of the two observers is rebuilt from its status DB
	for _, rc := range restartCases(c.Seed, all, c.Pick(24, 240)) {
		i++
		fmt.Printf("AT restart scenario %+v\n", rc)
		var fs []finding
		if p := guard(func() { fs = runRestartCase(fmt.Sprintf("%d-r%d", c.Seed, i), rc, res) }); p != "" {
			fs = append(fs, finding{key: "harness", desc: fmt.Sprintf("restart scenario %+v panicked: %s", rc, p)})
		}
		res.Behaviours++
		res.Nontrivial++
		res.Covered++
		for _, f := range fs {
			dup := false
			for _, o := range res.Findings {
				dup = dup || o.Key == f.key
			}
			if !dup {
				res.Findings = append(res.Findings, jFinding{f.key, f.desc, f.record})
			}
		}
	}
	return res
}
