package c17

// The abstract side: JSON shapes of what spec/ValSet/ValSet.tla exports, and a Go
// transcription of the specification's operators over arbitrary-width machine
// integers (math/big).  The transcription is NOT the oracle for the bounded graphs
// (there TLC's own `to` states are compared with the real code); it is cross-checked
// against TLC on every exported edge of every configuration and then used where
// TLC's 32-bit integers cannot go: instantiations at the int64 boundaries and
// seeded walks beyond the model's bounds.

import (
	"encoding/json"
	"fmt"
	"math/big"
	"sort"
)

// ---- exported JSON ----------------------------------------------------------

type jVal struct {
	Addr int   `json:"addr"`
	P    int64 `json:"p"`
	A    int64 `json:"a"`
	Cb   int   `json:"cb"`
}

type jSet struct {
	Live bool   `json:"live"`
	Vals []jVal `json:"vals"`
	Prop int    `json:"prop"` // cached Proposer pointer (0 = nil)
	Pt   string `json:"pt"`   // what it points at: "nil" | "elem" | "detached" (a decoded set's own object)
	Tvp  int64  `json:"tvp"`  // cached totalVotingPower (0 = not computed)
	Gp   int    `json:"gp"`   // GetProposer()
	Tot  int64  `json:"tot"`  // TotalVotingPower()
	Rot  bool   `json:"rot"`  // ghost: only rotated since NewValidatorSet
}

type jState struct {
	A    jSet `json:"A"`
	B    jSet `json:"B"`
	Twin bool `json:"twin"`
	D    int  `json:"d"`
	Mods int  `json:"mods"`
}

type jCoded struct {
	Acc []int64 `json:"acc"`
	Gp  int     `json:"gp"`
}

type jAct struct {
	Op      string  `json:"op"`
	T       string  `json:"t,omitempty"`
	K       int     `json:"k,omitempty"`
	V       *jVal   `json:"v,omitempty"`
	Addr    int     `json:"addr,omitempty"`
	List    []jVal  `json:"list,omitempty"`
	Res     bool    `json:"res,omitempty"`
	Changed bool    `json:"changed,omitempty"`
	Coded   *jCoded `json:"coded,omitempty"`
}

func (a jAct) String() string {
	b, _ := json.Marshal(a)
	return string(b)
}

type jLead struct {
	Lead     string `json:"lead"`
	Vals     []jVal `json:"vals"`
	Prop     int    `json:"prop"`
	K        int    `json:"k"`
	Split    []int  `json:"split"`
	Once     jCoded `json:"once"`
	Composed jCoded `json:"composed"`
}

// ---- reference transcription of the specification ---------------------------

type rVal struct {
	Addr int
	P, A *big.Int
	Cb   int
}

type rSet struct {
	Live bool
	Vals []rVal
	Prop int      // 0 = nil
	Pt   string   // "nil" | "elem" | "detached"
	Tvp  *big.Int // 0 = not computed
	Rot  bool     // ghost: only rotated since NewValidatorSet built it from zero accums
}

// machine describes the integer range MinI..MaxI and the rotation algorithm.
type machine struct {
	maxI, minI *big.Int
	coded      bool // IncAlgo = "coded"
}

func newMachine(maxI *big.Int, coded bool) *machine {
	m := &machine{maxI: new(big.Int).Set(maxI), coded: coded}
	m.minI = new(big.Int).Neg(maxI)
	m.minI.Sub(m.minI, big.NewInt(1))
	return m
}

var (
	bigZero = big.NewInt(0)
	bigOne  = big.NewInt(1)
)

func (m *machine) clip(x *big.Int) *big.Int {
	if x.Cmp(m.maxI) > 0 {
		return new(big.Int).Set(m.maxI)
	}
	if x.Cmp(m.minI) < 0 {
		return new(big.Int).Set(m.minI)
	}
	return x
}

// AddClip / SubClip / MulClip of the specification: the exact result when it is in
// range, otherwise the bound on the side the specification names.
func (m *machine) addClip(a, b *big.Int) *big.Int {
	return m.clip(new(big.Int).Add(a, b))
}
func (m *machine) subClip(a, b *big.Int) *big.Int {
	return m.clip(new(big.Int).Sub(a, b))
}
func (m *machine) mulClip(a, b *big.Int) *big.Int {
	if a.Sign() == 0 || b.Sign() == 0 {
		return big.NewInt(0)
	}
	if a.Cmp(bigOne) == 0 {
		return new(big.Int).Set(b)
	}
	if b.Cmp(bigOne) == 0 {
		return new(big.Int).Set(a)
	}
	c := new(big.Int).Mul(a, b)
	if a.Cmp(m.minI) == 0 || b.Cmp(m.minI) == 0 || c.Cmp(m.maxI) > 0 || c.Cmp(m.minI) < 0 {
		if (a.Sign() < 0) != (b.Sign() < 0) {
			return new(big.Int).Set(m.minI)
		}
		return new(big.Int).Set(m.maxI)
	}
	return c
}

func (s *rSet) clone() *rSet {
	c := &rSet{Live: s.Live, Prop: s.Prop, Pt: s.Pt, Tvp: new(big.Int).Set(s.Tvp), Rot: s.Rot}
	c.Vals = make([]rVal, len(s.Vals))
	for i, v := range s.Vals {
		c.Vals[i] = rVal{v.Addr, new(big.Int).Set(v.P), new(big.Int).Set(v.A), v.Cb}
	}
	return c
}

func deadSet() *rSet { return &rSet{Pt: "nil", Tvp: big.NewInt(0)} }

// decode: what decoding the encoding of the set yields (Decode of the specification).
func (s *rSet) decode() {
	s.Pt = "nil"
	if s.Prop != 0 {
		s.Pt = "detached"
	}
	s.Tvp = big.NewInt(0)
}

func (m *machine) sumPow(s *rSet) *big.Int {
	t := big.NewInt(0)
	for _, v := range s.Vals {
		t = m.addClip(t, v.P)
	}
	return t
}

func (m *machine) total(s *rSet) *big.Int {
	if s.Tvp.Sign() == 0 {
		return m.sumPow(s)
	}
	return s.Tvp
}

func better(x, y rVal) bool {
	c := x.A.Cmp(y.A)
	return c > 0 || (c == 0 && x.Addr < y.Addr)
}

func maxIdx(vs []rVal) int {
	m := 0
	for i := 1; i < len(vs); i++ {
		if better(vs[i], vs[m]) {
			m = i
		}
	}
	return m
}

func (m *machine) getProposer(s *rSet) int {
	if len(s.Vals) == 0 {
		return 0
	}
	if s.Prop == 0 {
		return s.Vals[maxIdx(s.Vals)].Addr
	}
	return s.Prop
}

func (m *machine) step(s *rSet) {
	tot := m.total(s)
	for i := range s.Vals {
		s.Vals[i].A = m.addClip(s.Vals[i].A, s.Vals[i].P)
	}
	x := maxIdx(s.Vals)
	s.Vals[x].A = m.subClip(s.Vals[x].A, tot)
	s.Prop, s.Pt = s.Vals[x].Addr, "elem"
	s.Tvp = new(big.Int).Set(tot)
}

func (m *machine) incFixed(s *rSet, k int) {
	for i := 0; i < k; i++ {
		m.step(s)
	}
}

func (m *machine) incCoded(s *rSet, k int) {
	tot := m.total(s)
	bk := big.NewInt(int64(k))
	for i := range s.Vals {
		s.Vals[i].A = m.addClip(s.Vals[i].A, m.mulClip(s.Vals[i].P, bk))
	}
	for i := 0; i < k; i++ {
		x := maxIdx(s.Vals)
		s.Vals[x].A = m.subClip(s.Vals[x].A, tot)
		s.Prop, s.Pt = s.Vals[x].Addr, "elem"
	}
	s.Tvp = new(big.Int).Set(tot)
}

func (m *machine) inc(s *rSet, k int) {
	if m.coded {
		m.incCoded(s, k)
	} else {
		m.incFixed(s, k)
	}
}

func (m *machine) newSet(list []rVal) *rSet {
	s := &rSet{Live: true, Pt: "nil", Tvp: big.NewInt(0), Rot: true}
	for _, v := range list {
		s.Vals = append(s.Vals, rVal{v.Addr, new(big.Int).Set(v.P), new(big.Int).Set(v.A), v.Cb})
		if v.A.Sign() != 0 {
			s.Rot = false
		}
	}
	sort.SliceStable(s.Vals, func(i, j int) bool { return s.Vals[i].Addr < s.Vals[j].Addr })
	if len(list) > 0 {
		m.inc(s, 1)
	}
	return s
}

func searchIdx(vs []rVal, ad int) int {
	for i, v := range vs {
		if ad <= v.Addr {
			return i
		}
	}
	return len(vs)
}

func (s *rSet) invalidate() { s.Prop = 0; s.Pt = "nil"; s.Tvp = big.NewInt(0); s.Rot = false }

func (m *machine) add(s *rSet, v rVal) bool {
	i := searchIdx(s.Vals, v.Addr)
	if i < len(s.Vals) && s.Vals[i].Addr == v.Addr {
		return false
	}
	nv := rVal{v.Addr, new(big.Int).Set(v.P), new(big.Int).Set(v.A), v.Cb}
	s.Vals = append(s.Vals, rVal{})
	copy(s.Vals[i+1:], s.Vals[i:])
	s.Vals[i] = nv
	s.invalidate()
	return true
}

func (m *machine) update(s *rSet, v rVal) bool {
	i := searchIdx(s.Vals, v.Addr)
	if i >= len(s.Vals) || s.Vals[i].Addr != v.Addr {
		return false
	}
	s.Vals[i] = rVal{v.Addr, new(big.Int).Set(v.P), new(big.Int).Set(v.A), v.Cb}
	s.invalidate()
	return true
}

func (m *machine) remove(s *rSet, ad int) bool {
	i := searchIdx(s.Vals, ad)
	if i >= len(s.Vals) || s.Vals[i].Addr != ad {
		return false
	}
	s.Vals = append(s.Vals[:i], s.Vals[i+1:]...)
	s.invalidate()
	return true
}

// identity is what Hash() covers, in slice order.
func (s *rSet) identity() string {
	out := ""
	for _, v := range s.Vals {
		out += fmt.Sprintf("%d:%s:%d;", v.Addr, v.P.String(), v.Cb)
	}
	return out
}

func (m *machine) updateStatus(s *rSet, list []rVal) (next, lastv *rSet, changed bool) {
	next = s.clone()
	lastv = s.clone()
	if len(list) != 0 {
		n := m.newSet(list)
		if n.identity() != next.identity() {
			return n, lastv, true
		}
	}
	m.inc(next, 1)
	return next, lastv, false
}

// rState is the reference counterpart of the specification's variables A and B.
type rState struct{ A, B *rSet }

func (st *rState) clone() *rState { return &rState{st.A.clone(), st.B.clone()} }

// applyRef executes one action label on the reference state; ok is the call's result
// (Add/Update/Remove) or `changed` (UStat).
func (m *machine) applyRef(st *rState, a jAct, conv func(jVal) rVal) (ok bool, err error) {
	switch a.Op {
	case "new":
		l := make([]rVal, len(a.List))
		for i, v := range a.List {
			l[i] = conv(v)
		}
		st.A = m.newSet(l)
	case "inc":
		if a.T == "A" {
			m.inc(st.A, a.K)
		} else {
			m.inc(st.B, a.K)
		}
	case "add":
		return m.add(st.A, conv(*a.V)), nil
	case "update":
		return m.update(st.A, conv(*a.V)), nil
	case "remove":
		return m.remove(st.A, a.Addr), nil
	case "copy":
		st.B = st.A.clone()
	case "adopt":
		st.A = st.B
		st.B = deadSet()
	case "drop":
		st.B = deadSet()
	case "reload":
		t := st.A
		if a.T == "B" {
			t = st.B
		}
		if !t.Live || len(t.Vals) == 0 {
			return false, fmt.Errorf("reload of a holder without validators")
		}
		t.decode()
	case "ustat":
		l := make([]rVal, len(a.List))
		for i, v := range a.List {
			l[i] = conv(v)
		}
		n, lv, ch := m.updateStatus(st.A, l)
		st.A, st.B = n, lv
		return ch, nil
	default:
		return false, fmt.Errorf("unknown action %q", a.Op)
	}
	return true, nil
}

func convPlain(v jVal) rVal { return rVal{v.Addr, big.NewInt(v.P), big.NewInt(v.A), v.Cb} }

func refFromJSON(j jSet) *rSet {
	s := &rSet{Live: j.Live, Prop: j.Prop, Pt: j.Pt, Tvp: big.NewInt(j.Tvp)}
	for _, v := range j.Vals {
		s.Vals = append(s.Vals, convPlain(v))
	}
	return s
}

// sameAsJSON compares a reference set with an exported one (raw fields and observables).
func (m *machine) sameAsJSON(s *rSet, j jSet) string {
	if s.Live != j.Live {
		return fmt.Sprintf("live %v vs %v", s.Live, j.Live)
	}
	if len(s.Vals) != len(j.Vals) {
		return fmt.Sprintf("size %d vs %d", len(s.Vals), len(j.Vals))
	}
	for i, v := range s.Vals {
		w := j.Vals[i]
		if v.Addr != w.Addr || v.P.Cmp(big.NewInt(w.P)) != 0 || v.A.Cmp(big.NewInt(w.A)) != 0 || v.Cb != w.Cb {
			return fmt.Sprintf("validator %d: {%d p=%s a=%s cb=%d} vs %+v", i, v.Addr, v.P, v.A, v.Cb, w)
		}
	}
	if s.Prop != j.Prop {
		return fmt.Sprintf("cached proposer %d vs %d", s.Prop, j.Prop)
	}
	if s.Pt != j.Pt {
		return fmt.Sprintf("cached proposer points at %q vs %q", s.Pt, j.Pt)
	}
	if s.Tvp.Cmp(big.NewInt(j.Tvp)) != 0 {
		return fmt.Sprintf("cached total %s vs %d", s.Tvp, j.Tvp)
	}
	if !s.Live {
		return ""
	}
	if g := m.getProposer(s); g != j.Gp {
		return fmt.Sprintf("GetProposer %d vs %d", g, j.Gp)
	}
	if t := m.total(s); t.Cmp(big.NewInt(j.Tot)) != 0 {
		return fmt.Sprintf("TotalVotingPower %s vs %d", t, j.Tot)
	}
	return ""
}

// compositions returns every sequence of positive integers that sums to n.
func compositions(n int) [][]int {
	if n == 0 {
		return [][]int{{}}
	}
	var out [][]int
	for j := 1; j <= n; j++ {
		for _, c := range compositions(n - j) {
			out = append(out, append([]int{j}, c...))
		}
	}
	return out
}

// permutations of 0..n-1 (n <= 4 here).
func permutations(n int) [][]int {
	if n == 0 {
		return [][]int{{}}
	}
	var out [][]int
	for _, p := range permutations(n - 1) {
		for pos := 0; pos <= len(p); pos++ {
			q := append(append(append([]int{}, p[:pos]...), n-1), p[pos:]...)
			out = append(out, q)
		}
	}
	return out
}
