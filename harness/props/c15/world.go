package c15

// The concrete side of C15: real accounts, a real genesis, real confidential coins and
// one real signed transaction per entry of the model's transaction table, for a given
// instantiation (unit amount, nonce base, storage mode); pairs of real application
// stacks (the node under test with the real mempool + a cold replica) booted from
// clones of that chain; and the model-independent oracles of the property statement.

import (
	"bytes"
	"encoding/binary"
	"fmt"
	"math/big"
	"os"
	"path/filepath"
	"reflect"
	"sort"
	"sync"
	"time"
	"unsafe"

	cfg "github.com/lianxiangcloud/linkchain/config"
	"github.com/lianxiangcloud/linkchain/libs/common"
	lkt "github.com/lianxiangcloud/linkchain/libs/cryptonote/types"
	mempl "github.com/lianxiangcloud/linkchain/mempool"
	"github.com/lianxiangcloud/linkchain/types"

	"verifh/appx"
)

// txDef is one entry of the model's transaction table (MC_Mempool.tla Table).
type txDef struct {
	K     string `json:"k"` // xfer | dep | spend
	S     int    `json:"s"` // sender (0: none)
	N     int    `json:"n"` // abstract nonce
	C     int    `json:"c"` // cost in units
	Fee   bool   `json:"fee"`
	Basic bool   `json:"basic"`
	Bad   string `json:"bad"` // "" | size | gas
	Ki    int    `json:"ki"`  // coin (0: none)
	R     int    `json:"r"`   // recipient sink
}

// inst is one concrete instantiation of the abstract values.
type inst struct {
	Name      string `json:"name"`
	Amt       string `json:"amount_wei"` // the standard transfer amount; the unit U = Amt + fee(Amt)
	NonceBase uint64 `json:"nonce_base"`
	IsTrie    bool   `json:"trie_storage"`
}

func bigOf(s string) *big.Int {
	b, ok := new(big.Int).SetString(s, 10)
	if !ok {
		panic("bad integer " + s)
	}
	return b
}

// instTable: boundary values of the fee function CalNewAmountGas (minimum fee below 10 LKC,
// a step just above 10 LKC, the fee cap at 100000 LKC), the smallest confidential unit,
// fresh accounts and accounts with a large nonce, both storage modes.
var instTable = []inst{
	{"5lkc/nonce0/flat", "5000000000000000000", 0, false},
	{"min-utxo-unit/nonce0/trie", "10000000000", 0, true},
	{"just-above-fee-step/nonce2^40/flat", "10000000010000000000", 1 << 40, false},
	{"fee-cap/nonce7/trie", "100000000000000000000000", 7, true},
	{"5lkc/nonce2^63/trie", "5000000000000000000", 1 << 63, true},
	{"min-utxo-unit/nonce1/flat", "10000000000", 1, false},
}

var coinAmount = appx.LKC(3)

// restDropTime: time-based eviction of pooled transactions (mempool.GoodTxDropTime, 60 s in a
// node) is driven by the harness - set to 0 for a commit "after the drop time has elapsed" -
// and never by the clock: a starved process must not evict anything.
const restDropTime = 24 * time.Hour

func init() { mempl.GoodTxDropTime = restDropTime }

type world struct {
	in      inst
	defs    []txDef
	ns      int
	ncoins  int
	amt     *big.Int
	U       *big.Int
	senders []*appx.Account
	sinks   []*appx.Account
	funder  *appx.Account
	wallet  *appx.Wallet
	dir     string
	seq     int
	bases   map[string]*chainBase
}

// chainBase is a committed chain (genesis + the block creating the coins) and the
// concrete transactions built for it.
type chainBase struct {
	dbs     *appx.DBs
	bal     []int
	txs     []types.Tx // index id-1
	id      map[common.Hash]int
	coins   []*appx.Coin
	kimg    []lkt.Key
	setupTx map[common.Hash]bool
	height  uint64
}

func newWorld(in inst, defs []txDef, ns, ncoins int, dir string) *world {
	w := &world{in: in, defs: defs, ns: ns, ncoins: ncoins, dir: dir, bases: map[string]*chainBase{}}
	w.amt = bigOf(in.Amt)
	w.U = new(big.Int).Add(w.amt, appx.DepositFee(w.amt))
	for s := 1; s <= ns; s++ {
		w.senders = append(w.senders, appx.NewAccount(int64(1500+s)))
	}
	for r := 1; r <= 3; r++ {
		w.sinks = append(w.sinks, appx.NewAccount(int64(2500+r)))
	}
	w.funder = appx.NewAccount(3500)
	w.wallet = appx.NewWallet()
	return w
}

// solveAmount finds v with v + fee(v) = cost.
func solveAmount(cost *big.Int) (*big.Int, error) {
	lianke := big.NewInt(1e18)
	k0 := new(big.Int).Div(cost, lianke).Int64() + 2
	for k := k0; k >= 0 && k >= k0-6; k-- {
		gas := uint64(types.EverLiankeFee) * uint64(k)
		if gas < uint64(types.MinGasLimit) {
			gas = uint64(types.MinGasLimit)
		}
		if gas > uint64(types.MaxGasLimit) {
			gas = uint64(types.MaxGasLimit)
		}
		v := new(big.Int).Sub(cost, appx.Fee(gas))
		if v.Sign() > 0 && types.CalNewAmountGas(v, types.EverLiankeFee) == gas {
			return v, nil
		}
	}
	return nil, fmt.Errorf("no amount v with v+fee(v) = %s", cost)
}

func (w *world) newDir(tag string) string {
	w.seq++
	return filepath.Join(w.dir, fmt.Sprintf("%s%d", tag, w.seq))
}

func (w *world) units(n int) *big.Int { return new(big.Int).Mul(w.U, big.NewInt(int64(n))) }

// base returns (building it on first use) the chain whose senders start with bal[s] units.
func (w *world) base(bal []int) (*chainBase, error) {
	key := fmt.Sprint(bal)
	if b, ok := w.bases[key]; ok {
		return b, nil
	}
	b := &chainBase{bal: append([]int{}, bal...), id: map[common.Hash]int{}, setupTx: map[common.Hash]bool{}}
	var allocs []appx.Alloc
	for s, a := range w.senders {
		allocs = append(allocs, appx.Alloc{Addr: a.Addr, Balance: w.units(bal[s]), Nonce: w.in.NonceBase})
	}
	allocs = append(allocs, appx.Alloc{Addr: w.funder.Addr, Balance: appx.LKC(1000)})
	b.dbs = appx.NewMemDBs(w.newDir("base"))
	if err := appx.InitGenesis(b.dbs, w.in.IsTrie, allocs); err != nil {
		return nil, fmt.Errorf("genesis: %v", err)
	}
	mc := appx.MempoolConfig()
	mc.CacheSize = 0
	e, err := appx.Boot(b.dbs, w.in.IsTrie, mc)
	if err != nil {
		return nil, fmt.Errorf("boot: %v", err)
	}
	defer e.Stop()
	var dests []*appx.Wallet
	var amounts []*big.Int
	total := new(big.Int)
	for i := 0; i < w.ncoins; i++ {
		dests = append(dests, w.wallet)
		amounts = append(amounts, coinAmount)
		total.Add(total, coinAmount)
	}
	dep, coins, err := w.funder.Deposit(0, dests, amounts, appx.DepositFee(total))
	if err != nil {
		return nil, fmt.Errorf("coin deposit: %v", err)
	}
	if err := e.MP.AddTx("", dep); err != nil {
		return nil, fmt.Errorf("coin deposit refused: %v", err)
	}
	blk, err := e.ProposeCheckCommit(100)
	if err != nil {
		return nil, fmt.Errorf("coin block: %v", err)
	}
	if blk.NumTxs != 1 {
		return nil, fmt.Errorf("coin block holds %d transactions", blk.NumTxs)
	}
	b.setupTx[dep.Hash()] = true
	b.height = e.App.Height()
	for _, c := range coins {
		if !e.Locate(c) {
			return nil, fmt.Errorf("coin not found in the output store")
		}
	}
	b.coins = coins
	spendFee := appx.DepositFee(coinAmount) // confidential->account: the fee of the amount moved (an upper bound)
	// the concrete transactions
	for i, d := range w.defs {
		var tx types.Tx
		nonce := w.in.NonceBase + uint64(d.N)
		switch d.K {
		case "xfer":
			a := w.senders[d.S-1]
			amount := w.amt
			if d.C != 1 {
				if amount, err = solveAmount(w.units(d.C)); err != nil {
					return nil, err
				}
			}
			to := w.sinks[d.R-1].Addr
			switch d.Bad {
			case "":
				tx = a.Transfer(nonce, to, amount)
			case "gas":
				tx = a.TransferGasLimit(nonce, to, amount, appx.TransferGas(amount)-1, nil)
			case "size":
				tx = a.TransferGasLimit(nonce, to, amount, appx.TransferGas(amount), bytes.Repeat([]byte{0x5a}, 33*1024))
			default:
				return nil, fmt.Errorf("tx %d: unknown defect %q", i+1, d.Bad)
			}
		case "dep":
			a := w.senders[d.S-1]
			if d.C != 1 {
				return nil, fmt.Errorf("tx %d: deposits cost one unit", i+1)
			}
			var utx *types.UTXOTransaction
			if d.Fee {
				utx, _, err = a.Deposit(nonce, []*appx.Wallet{w.wallet}, []*big.Int{w.amt}, appx.DepositFee(w.amt))
			} else {
				low := appx.Fee(1)
				utx, _, err = a.Deposit(nonce, []*appx.Wallet{w.wallet}, []*big.Int{new(big.Int).Sub(w.U, low)}, low)
			}
			if err != nil {
				return nil, fmt.Errorf("tx %d: deposit: %v", i+1, err)
			}
			tx = utx
		case "spend":
			c := b.coins[d.Ki-1]
			fee := spendFee
			if !d.Fee {
				fee = appx.Fee(1)
			}
			to := w.sinks[d.R-1].Addr
			utx, _, err := appx.Spend(c, c.Amount, &to, new(big.Int).Sub(c.Amount, fee), nil, nil)
			if err != nil {
				return nil, fmt.Errorf("tx %d: spend: %v", i+1, err)
			}
			tx = utx
		default:
			return nil, fmt.Errorf("tx %d: unknown kind %q", i+1, d.K)
		}
		b.txs = append(b.txs, tx)
		if old, dup := b.id[tx.Hash()]; dup {
			return nil, fmt.Errorf("tx %d and %d have the same hash", old, i+1)
		}
		b.id[tx.Hash()] = i + 1
	}
	// key image of every coin
	b.kimg = make([]lkt.Key, w.ncoins)
	for i := range b.coins {
		found := false
		for j, d := range w.defs {
			if d.K == "spend" && d.Ki == i+1 {
				b.kimg[i] = *b.txs[j].(*types.UTXOTransaction).GetInputKeyImages()[0]
				found = true
				break
			}
		}
		if !found {
			to := w.sinks[0].Addr
			utx, _, err := appx.Spend(b.coins[i], coinAmount, &to, new(big.Int).Sub(coinAmount, spendFee), nil, nil)
			if err != nil {
				return nil, err
			}
			b.kimg[i] = *utx.GetInputKeyImages()[0]
		}
	}
	w.bases[key] = b
	return b, nil
}

// pair is the node under test (A: real application + real mempool) and a replica that
// never sees a submission (B: its mempool stays empty, its tx cache is disabled).
type pair struct {
	w        *world
	b        *chainBase
	A, B     *appx.Env
	mc       *cfg.MempoolConfig
	dirs     []string
	done     map[common.Hash]bool // committed transactions
	lastEval string
}

func (w *world) newPair(b *chainBase, size, fsize, usize int) (*pair, error) {
	p := &pair{w: w, b: b, done: map[common.Hash]bool{}}
	for h := range b.setupTx {
		p.done[h] = true
	}
	p.mc = appx.MempoolConfig()
	p.mc.Size, p.mc.FutureSize, p.mc.UTXOSize = size, fsize, usize
	dA, dB := w.newDir("a"), w.newDir("b")
	p.dirs = []string{dA, dB}
	var err error
	// The node under test runs the real dedup cache (txHeapManager).  Its constructor pre-sizes
	// four 100000-entry maps (42 MB) and starts four goroutines that never stop; with thousands
	// of boots per process that dominates the run.  The harness therefore boots the pool without
	// a cache and installs a cache object of the SAME type with small maps and no expiry
	// goroutines (committed entries then linger for the whole behaviour, as they do for 30 s in
	// a node); if that is not possible the pool is booted the ordinary way.
	light := lightCacheAvailable()
	if light {
		p.mc.CacheSize = 0
	}
	if p.A, err = appx.Boot(b.clone(dA), w.in.IsTrie, p.mc); err != nil {
		return nil, err
	}
	if light && !installLightCache(p.A.MP) {
		lightCacheBroken = true
		p.A.Stop()
		os.RemoveAll(dA)
		p.mc.CacheSize = 1000
		if p.A, err = appx.Boot(b.clone(dA), w.in.IsTrie, p.mc); err != nil {
			return nil, err
		}
	}
	mcB := appx.MempoolConfig()
	mcB.CacheSize = 0
	if p.B, err = appx.Boot(b.clone(dB), w.in.IsTrie, mcB); err != nil {
		return nil, err
	}
	return p, nil
}

// clone copies the chain.  The flat state database records its height through a
// package-global buffer (state.saveHeight) that the in-tree MemDB stores without copying,
// so the entry of every MemDB in the process shows the height saved last by ANY instance:
// the clone gets its own copy of the right value.
func (b *chainBase) clone(dir string) *appx.DBs {
	d := b.dbs.Clone(dir)
	h := make([]byte, 8)
	binary.BigEndian.PutUint64(h, b.height)
	if d.State.Get([]byte("kvh")) != nil {
		d.State.Set([]byte("kvh"), h)
	}
	return d
}

func (p *pair) close() {
	if p.A != nil {
		p.A.Stop()
		releaseTxCache(p.A.MP)
	}
	if p.B != nil {
		p.B.Stop()
	}
	for _, d := range p.dirs {
		os.RemoveAll(d)
	}
}

var (
	lightOnce        sync.Once
	lightMgrType     reflect.Type // struct txHeapManager
	lightCacheBroken bool
)

// lightCacheAvailable: learn the cache's types from one pool built by the real constructor.
func lightCacheAvailable() bool {
	lightOnce.Do(func() {
		defer func() {
			if recover() != nil {
				lightMgrType = nil
			}
		}()
		mc := appx.MempoolConfig()
		donor := mempl.NewMempool(mc, 0, nil)
		defer donor.Stop()
		v := reflect.ValueOf(donor).Elem().FieldByName("cache")
		if v.Kind() == reflect.Interface && !v.IsNil() && v.Elem().Kind() == reflect.Ptr && v.Elem().Type().Elem().Name() == "txHeapManager" {
			lightMgrType = v.Elem().Type().Elem()
		}
		releaseTxCache(donor)
	})
	return lightMgrType != nil && !lightCacheBroken
}

func setUnexported(field reflect.Value, val reflect.Value) {
	reflect.NewAt(field.Type(), unsafe.Pointer(field.UnsafeAddr())).Elem().Set(val)
}

// installLightCache gives the pool a txHeapManager with four small txHeaps.
func installLightCache(mem *mempl.Mempool) (ok bool) {
	defer func() {
		if recover() != nil {
			ok = false
		}
	}()
	mgr := reflect.New(lightMgrType)
	hField := mgr.Elem().FieldByName("h") // []*txHeap
	heapT := hField.Type().Elem().Elem()  // struct txHeap
	hs := reflect.MakeSlice(hField.Type(), 4, 4)
	for i := 0; i < 4; i++ {
		h := reflect.New(heapT)
		items := h.Elem().FieldByName("items") // *expireHashHeap
		setUnexported(items, reflect.New(items.Type().Elem()))
		txMap := h.Elem().FieldByName("txMap")
		setUnexported(txMap, reflect.MakeMap(txMap.Type()))
		expire := h.Elem().FieldByName("expire")
		setUnexported(expire, reflect.ValueOf(int64(30)))
		hs.Index(i).Set(h)
	}
	setUnexported(hField, hs)
	cache := reflect.ValueOf(mem).Elem().FieldByName("cache")
	if cache.Kind() != reflect.Interface {
		return false
	}
	setUnexported(cache, mgr)
	// it must behave: an unknown hash is absent
	return mem.GetTxFromCache(common.Hash{0x5a}) == nil
}

// releaseTxCache: harness hygiene after a behaviour is over.  Every mempool pre-sizes four
// 100000-entry cache maps that its background goroutines (which never stop) keep alive;
// thousands of boots per process would pin tens of GB.  The maps of the discarded pool are
// replaced by empty ones (under the cache's own lock).  Nothing is observed afterwards.
func releaseTxCache(mem *mempl.Mempool) {
	defer func() { recover() }() // a different layout: leave it alone
	v := reflect.ValueOf(mem).Elem().FieldByName("cache")
	if !v.IsValid() || v.Kind() != reflect.Interface || v.IsNil() {
		return
	}
	mgr := v.Elem()
	if mgr.Kind() != reflect.Ptr {
		return
	}
	hs := mgr.Elem().FieldByName("h")
	for i := 0; i < hs.Len(); i++ {
		h := hs.Index(i).Elem()
		mu := (*sync.RWMutex)(unsafe.Pointer(h.FieldByName("RWMutex").UnsafeAddr()))
		mu.Lock()
		items := h.FieldByName("items")
		ip := reflect.NewAt(items.Type(), unsafe.Pointer(items.UnsafeAddr())).Elem()
		if !ip.IsNil() {
			ip.Elem().Set(reflect.Zero(ip.Elem().Type()))
		}
		tm := h.FieldByName("txMap")
		reflect.NewAt(tm.Type(), unsafe.Pointer(tm.UnsafeAddr())).Elem().Set(reflect.MakeMap(tm.Type()))
		mu.Unlock()
	}
}

func guard(f func()) (msg string) {
	defer func() {
		if r := recover(); r != nil {
			msg = fmt.Sprint(r)
			if msg == "" {
				msg = "panic"
			}
		}
	}()
	f()
	return ""
}

func (p *pair) ids(txs types.Txs) []int {
	out := make([]int, 0, len(txs))
	for _, tx := range txs {
		out = append(out, p.b.id[tx.Hash()]) // 0: a transaction the harness never built
	}
	return out
}

const reapAll = 10000

// propose builds the next block from the pool the way a proposer does.
func (p *pair) propose(max int) (blk *types.Block, panicked string) {
	panicked = guard(func() { blk = p.A.Propose(p.A.App.Height()+1, max) })
	if panicked == "" && blk == nil {
		panicked = "CreateBlock returned nil"
	}
	return
}

// coldCheck hands the block to the replica the way a validator receives it.
func (p *pair) coldCheck(blk *types.Block) (*types.Block, string) {
	rb, _, err := appx.Redecode(blk)
	if err != nil {
		return nil, "block does not survive encode/decode: " + err.Error()
	}
	ok := false
	if msg := guard(func() { ok = p.B.App.CheckBlock(rb) }); msg != "" {
		return nil, "replica CheckBlock panicked: " + msg
	}
	if !ok {
		return nil, "replica CheckBlock refused the block"
	}
	return rb, ""
}

// offerExecutes is the end-to-end oracle: a block built from everything the pool offers
// must execute on the proposer and be accepted by the cold replica.
func (p *pair) offerExecutes() (kind, detail string, evaluated bool) {
	key := fmt.Sprint(p.A.App.Height(), p.ids(p.A.MP.Reap(reapAll)))
	if key == p.lastEval {
		return "", "", false
	}
	blk, pm := p.propose(reapAll)
	if pm != "" {
		return "propose-panic", pm, true
	}
	if _, msg := p.coldCheck(blk); msg != "" {
		return "cold-checkblock", msg, true
	}
	p.lastEval = key
	return "", "", true
}

// commit commits blk (already executed by A through CheckBlock or not yet) on both sides.
func (p *pair) commitBoth(blkA, blkB *types.Block, expire bool) string {
	okA := false
	if msg := guard(func() { okA = p.A.App.CheckBlock(blkA) }); msg != "" {
		return "node CheckBlock panicked: " + msg
	}
	if !okA {
		return "node CheckBlock refused the block"
	}
	if expire {
		mempl.GoodTxDropTime = 0
	}
	err := p.A.Commit(blkA)
	mempl.GoodTxDropTime = restDropTime
	if err != nil {
		return "node CommitBlock: " + err.Error()
	}
	if err := p.B.Commit(blkB); err != nil {
		return "replica CommitBlock: " + err.Error()
	}
	for _, tx := range blkA.Data.Txs {
		p.done[tx.Hash()] = true
	}
	p.lastEval = ""
	return ""
}

// commitOwn: the node proposes Reap(k); the replica validates; both commit.  As in a
// node, everybody (the proposer included) works on a block decoded from its parts.
func (p *pair) commitOwn(k int, expire bool) (ids []int, kind, detail string) {
	blk, pm := p.propose(k)
	if pm != "" {
		return nil, "propose-panic", pm
	}
	ids = p.ids(blk.Data.Txs)
	rb, msg := p.coldCheck(blk)
	if msg != "" {
		return ids, "cold-checkblock", msg
	}
	ra, _, err := appx.Redecode(blk)
	if err != nil {
		return ids, "commit", err.Error()
	}
	if msg := p.commitBoth(ra, rb, expire); msg != "" {
		return ids, "commit", msg
	}
	return ids, "", ""
}

// commitForeign: another proposer (the replica) builds a block from transactions the
// node's pool may never have seen; the node validates and commits it.
func (p *pair) commitForeign(txs types.Txs) string {
	var blk *types.Block
	if msg := guard(func() {
		blk = p.B.MakeBlock(p.B.App.Height()+1, txs)
		p.B.App.PreRunBlock(blk)
	}); msg != "" {
		return "foreign proposer could not execute the block: " + msg
	}
	ra, _, err := appx.Redecode(blk)
	if err != nil {
		return "block does not survive encode/decode: " + err.Error()
	}
	rb, msg := p.coldCheck(blk)
	if msg != "" {
		return "foreign proposer's block: " + msg
	}
	return p.commitBoth(ra, rb, false)
}

// ---- what is observed after every step ------------------------------------

type obs struct {
	Reap    []int `json:"reap"`
	GoodLen int   `json:"good_len"`
	UtxoLen int   `json:"utxo_len"`
	Queued  int   `json:"queued"`
	Spec    int   `json:"spec"`
	Cache   []int `json:"cache"`
	Cn      []int `json:"check_nonce"`
	Cb      []int `json:"check_balance_units"`
	Kc      []int `json:"key_image_cache"`
	Ln      []int `json:"committed_nonce"`
	Lb      []int `json:"committed_balance_units"`
	Spent   []int `json:"spent"`
	reapTxs types.Txs
}

// inUnits converts a balance into units; -1 if it is not a whole number of units.
func (w *world) inUnits(b *big.Int) int {
	q, r := new(big.Int).QuoRem(b, w.U, new(big.Int))
	if r.Sign() != 0 || !q.IsInt64() || q.Int64() > 1<<30 {
		return -1
	}
	return int(q.Int64())
}

func (p *pair) observe(ids []int) *obs {
	o := &obs{Reap: []int{}, Cache: []int{}, Kc: []int{}, Spent: []int{}}
	o.reapTxs = p.A.MP.Reap(reapAll)
	o.Reap = p.ids(o.reapTxs)
	spec, pending, queued := p.A.MP.Stats()
	o.Spec, o.Queued = spec, queued
	o.GoodLen, o.UtxoLen = p.A.MP.GoodTxsSize(), p.A.MP.UTXOTxsSize()
	if pending != o.GoodLen+o.UtxoLen {
		o.GoodLen = -pending // inconsistent counters: make the comparison fail visibly
	}
	for _, id := range ids {
		if p.A.MP.GetTxFromCache(p.b.txs[id-1].Hash()) != nil {
			o.Cache = append(o.Cache, id)
		}
	}
	st := p.A.App.GetLatestStateDB()
	for _, a := range p.w.senders {
		o.Cn = append(o.Cn, int(p.A.App.GetNonce(a.Addr)-p.w.in.NonceBase))
		o.Cb = append(o.Cb, p.w.inUnits(p.A.App.GetBalance(a.Addr)))
		o.Ln = append(o.Ln, int(st.GetNonce(a.Addr)-p.w.in.NonceBase))
		o.Lb = append(o.Lb, p.w.inUnits(st.GetBalance(a.Addr)))
	}
	for i := range p.b.kimg {
		if p.A.MP.KeyImageExists(p.b.kimg[i]) {
			o.Kc = append(o.Kc, i+1)
		}
		if p.A.US.HaveTxKeyimgAsSpent(&p.b.kimg[i]) {
			o.Spent = append(o.Spent, i+1)
		}
	}
	return o
}

// offeredInvariants evaluates the property statement directly on what the pool offers,
// against the REAL committed state: pairwise distinct, not committed, no shared or spent
// key image, per sender a gap-free nonce run from the committed nonce covered by the
// committed balance.
func (p *pair) offeredInvariants(txs types.Txs) (kind, detail string) {
	st := p.A.App.GetLatestStateDB()
	seen := map[common.Hash]bool{}
	kis := map[lkt.Key]common.Hash{}
	next := map[common.Address]uint64{}
	spentOf := map[common.Address]*big.Int{}
	account := func(from common.Address, nonce uint64, cost *big.Int, h common.Hash) (string, string) {
		if _, ok := next[from]; !ok {
			next[from] = st.GetNonce(from)
			spentOf[from] = new(big.Int)
		}
		if nonce != next[from] {
			return "nonce-gap", fmt.Sprintf("tx %s of %s has nonce %d where %d is next (committed nonce %d)", h.Hex(), from.Hex(), nonce, next[from], st.GetNonce(from))
		}
		next[from]++
		spentOf[from].Add(spentOf[from], cost)
		if spentOf[from].Cmp(st.GetBalance(from)) > 0 {
			return "over-balance", fmt.Sprintf("offered transactions of %s cost %s, committed balance %s", from.Hex(), spentOf[from], st.GetBalance(from))
		}
		return "", ""
	}
	for _, tx := range txs {
		h := tx.Hash()
		if seen[h] {
			return "duplicate", "tx " + h.Hex() + " offered twice"
		}
		seen[h] = true
		if p.done[h] {
			return "committed", "tx " + h.Hex() + " is offered although it is committed"
		}
		switch t := tx.(type) {
		case *types.Transaction:
			from, err := t.From()
			if err != nil {
				return "sender", err.Error()
			}
			if k, d := account(from, t.Nonce(), t.Cost(), h); k != "" {
				return k, d
			}
		case *types.UTXOTransaction:
			for _, in := range t.Inputs {
				switch x := in.(type) {
				case *types.AccountInput:
					from, err := t.From()
					if err != nil {
						return "sender", err.Error()
					}
					if k, d := account(from, x.Nonce, x.Amount, h); k != "" {
						return k, d
					}
				case *types.UTXOInput:
					if other, dup := kis[x.KeyImage]; dup {
						return "shared-key-image", fmt.Sprintf("txs %s and %s spend the same key image", other.Hex(), h.Hex())
					}
					kis[x.KeyImage] = h
					ki := x.KeyImage
					if p.A.US.HaveTxKeyimgAsSpent(&ki) {
						return "spent-key-image", "tx " + h.Hex() + " spends a key image that is already spent"
					}
				}
			}
		}
	}
	return "", ""
}

func classify(err error) string {
	switch err {
	case nil:
		return "ok"
	case types.ErrTxDuplicate:
		return "dup"
	case types.ErrMempoolIsFull:
		return "full"
	case types.ErrNonceTooLow:
		return "stale"
	case types.ErrNonceTooHigh:
		return "high"
	case types.ErrInsufficientFunds:
		return "funds"
	case types.ErrUtxoTxFeeTooLow:
		return "fee"
	case types.ErrUtxoTxDoubleSpend:
		return "dblspend"
	case types.ErrOversizedData, types.ErrGasLimitOrGasPrice:
		return "basic"
	}
	return "other:" + err.Error()
}

func sortedCopy(a []int) []int {
	b := append([]int{}, a...)
	sort.Ints(b)
	return b
}

func sameInts(a, b []int) bool {
	if len(a) != len(b) {
		return false
	}
	for i := range a {
		if a[i] != b[i] {
			return false
		}
	}
	return true
}
