package c15

import (
	"fmt"
	"math/big"
	"testing"

	"verifh/appx"
	"verifh/env"
)

func TestScratchUnits(t *testing.T) {
	env.GlobalInit()
	for _, amt := range []*big.Int{big.NewInt(1e10), appx.LKC(5), new(big.Int).Add(appx.LKC(10), big.NewInt(1e10)), appx.LKC(100000), appx.LKC(200000)} {
		U := new(big.Int).Add(amt, appx.DepositFee(amt))
		a1, a2 := appx.NewAccount(1), appx.NewAccount(2)
		base := appx.NewMemDBs(t.TempDir())
		if err := appx.InitGenesis(base, false, []appx.Alloc{{Addr: a1.Addr, Balance: new(big.Int).Mul(U, big.NewInt(3))}}); err != nil {
			t.Fatal(err)
		}
		e, err := appx.Boot(base, false, nil)
		if err != nil {
			t.Fatal(err)
		}
		w := appx.NewWallet()
		fmt.Println("amt", amt, "U", U, "add xfer", e.MP.AddTx("", a1.Transfer(0, a2.Addr, amt)))
		dep, _, err := a1.Deposit(1, []*appx.Wallet{w}, []*big.Int{amt}, appx.DepositFee(amt))
		fmt.Println(" dep build", err, "add", e.MP.AddTx("", dep))
		lowAmt := new(big.Int).Sub(U, appx.Fee(1))
		low, _, err := a1.Deposit(2, []*appx.Wallet{w}, []*big.Int{lowAmt}, appx.Fee(1))
		fmt.Println(" low build", err, "add", e.MP.AddTx("", low), "check nonce", e.App.GetNonce(a1.Addr), "check bal", e.App.GetBalance(a1.Addr))
		_, err = e.ProposeCheckCommit(100)
		s := e.App.GetLatestStateDB()
		fmt.Println(" commit", err, "bal", s.GetBalance(a1.Addr), "==U", s.GetBalance(a1.Addr).Cmp(U) == 0, "nonce", s.GetNonce(a1.Addr), "check nonce", e.App.GetNonce(a1.Addr))
		e.Stop()
	}
}
