package c15

// Code -> model: several client goroutines submit to the real mempool while a committer
// goroutine proposes, validates and commits blocks (its own Reap prefixes and foreign
// blocks).  Hook H3 (mempool.VerifTraceHook) records every AddTx verdict, Reap result
// and Update under proxyMtx, i.e. in linearisation order; Trace_Mempool.tla must accept
// the recorded trace.  The committer also evaluates the property statement directly on
// every block it proposes.

import (
	"bufio"
	"encoding/json"
	"fmt"
	"math/rand"
	"os"
	"runtime"
	"strings"
	"sync"
	"sync/atomic"
	"time"

	mempl "github.com/lianxiangcloud/linkchain/mempool"
	"github.com/lianxiangcloud/linkchain/types"

	"verifh/appx"
	"verifh/core"
)

// concUniverse: the transaction table of the concurrent runs (3 senders, nonces 0..5).
func concUniverse() (defs []txDef, ns, ncoins int, bal []int) {
	ns, ncoins = 3, 2
	bal = []int{4, 20, 2}
	x := func(k string, s, n int, fee bool, bad string, ki, r int) {
		defs = append(defs, txDef{K: k, S: s, N: n, C: 1, Fee: fee, Basic: bad == "", Bad: bad, Ki: ki, R: r})
	}
	for s := 1; s <= ns; s++ {
		for n := 0; n <= 5; n++ {
			x("xfer", s, n, true, "", 0, 1)
		}
		x("xfer", s, 0, true, "", 0, 2)
		x("xfer", s, 3, true, "", 0, 2)
	}
	x("dep", 1, 1, true, "", 0, 1)
	x("dep", 2, 0, true, "", 0, 1)
	x("dep", 3, 2, true, "", 0, 1)
	x("dep", 1, 2, false, "", 0, 1)
	x("dep", 2, 3, false, "", 0, 1)
	x("dep", 2, 0, false, "", 0, 2)
	x("xfer", 3, 1, true, "gas", 0, 2)
	x("spend", 0, 0, true, "", 1, 1)
	x("spend", 0, 0, true, "", 1, 2)
	x("spend", 0, 0, true, "", 2, 1)
	for i := range defs {
		if defs[i].K == "spend" {
			defs[i].C = 0
		}
	}
	return
}

type concJob struct {
	Kind    string `json:"kind"` // "conc"
	Traces  int    `json:"traces"`
	Inst    int    `json:"inst"`
	Part    int    `json:"part"`
	Dir     string `json:"dir"`
	Seconds int    `json:"seconds"` // no new trace is started after this many seconds
}

type concResult struct {
	Traces     [][]string       `json:"traces"` // per trace: ndjson event lines (boot first)
	Events     int              `json:"events"`
	Commits    int              `json:"commits"`
	Adds       int              `json:"adds"`
	Overlaps   int              `json:"overlaps"` // add events linearised between a proposal's reap and its update
	Violations []core.Violation `json:"violations"`
	Infra      []string         `json:"infra"`
	Inst       inst             `json:"inst"`
	FeeDefect  bool             `json:"fee_defect"` // direct probe: a low-fee deposit refused by AddTx moves the speculative nonce
}

// recorder collects the hook events of one mempool.
type recorder struct {
	mu      sync.Mutex
	p       *pair
	lines   []string
	reapMax int64 // argument of the Reap call in flight (Reap calls are serialised by the committer)
	lastCn  map[int]int
	mutated string // first refused add that changed the sender's speculative nonce
}

var recorders sync.Map // *mempl.Mempool -> *recorder
var hookOnce sync.Once

func installHook() {
	hookOnce.Do(func() {
		mempl.VerifTraceHook = func(mem *mempl.Mempool, ev string, args ...interface{}) {
			v, ok := recorders.Load(mem)
			if !ok {
				return
			}
			v.(*recorder).event(mem, ev, args)
		}
	})
}

// event runs under the mempool's proxyMtx.
func (rc *recorder) event(mem *mempl.Mempool, ev string, args []interface{}) {
	rc.mu.Lock()
	defer rc.mu.Unlock()
	p := rc.p
	g, u := mem.GoodTxsSize(), mem.UTXOTxsSize()
	switch ev {
	case "add":
		tx := args[0].(types.Tx)
		var err error
		if args[1] != nil {
			err, _ = args[1].(error)
		}
		id := p.b.id[tx.Hash()]
		cn := -1
		if id > 0 && p.w.defs[id-1].K != "spend" {
			s := p.w.defs[id-1].S
			cn = int(p.A.App.GetNonce(p.w.senders[s-1].Addr) - p.w.in.NonceBase)
			if err != nil && cn != rc.lastCn[s] && rc.mutated == "" && g < p.mc.Size {
				rc.mutated = classify(err)
			}
			rc.lastCn[s] = cn
		}
		rc.lines = append(rc.lines, fmt.Sprintf(`{"e":"add","t":%d,"ok":%v,"v":%q,"g":%d,"u":%d,"cn":%d}`, id, err == nil, classify(err), g, u, cn))
	case "reap":
		txs := args[0].(types.Txs)
		ids, _ := json.Marshal(p.ids(txs))
		rc.lines = append(rc.lines, fmt.Sprintf(`{"e":"reap","max":%d,"res":%s}`, atomic.LoadInt64(&rc.reapMax), ids))
	case "update":
		txs := args[1].(types.Txs)
		ids, _ := json.Marshal(p.ids(txs))
		for s, a := range p.w.senders {
			rc.lastCn[s+1] = int(p.A.App.GetNonce(a.Addr) - p.w.in.NonceBase)
		}
		rc.lines = append(rc.lines, fmt.Sprintf(`{"e":"update","blk":%s,"g":%d,"u":%d}`, ids, g, u))
	}
}

// lowFeeDepositSeen: did a state check of a low-fee account->confidential transaction
// (submitted, or queued and promoted later) happen in this trace?
func lowFeeDepositSeen(defs []txDef, lines []string) bool {
	for _, l := range lines {
		if !strings.HasPrefix(l, `{"e":"add"`) {
			continue
		}
		var e struct {
			T int `json:"t"`
		}
		if json.Unmarshal([]byte(l), &e) == nil && e.T > 0 && e.T <= len(defs) && defs[e.T-1].K == "dep" && !defs[e.T-1].Fee {
			return true
		}
	}
	return false
}

// feeDefectProbe: on a fresh pool, is the speculative nonce moved by a deposit that AddTx
// refuses for its fee?  (Only used to file consequences under their root cause.)
func feeDefectProbe(w *world, b *chainBase) bool {
	p, err := w.newPair(b, 4, 3, 9)
	if err != nil {
		return false
	}
	defer p.close()
	for i, d := range w.defs {
		if d.K == "dep" && !d.Fee && d.N == 0 {
			a := w.senders[d.S-1].Addr
			before := p.A.App.GetNonce(a)
			err := p.A.MP.AddTx("", b.txs[i])
			return err != nil && p.A.App.GetNonce(a) != before
		}
	}
	return false
}

// miniLedger: what the committer knows to be committed (to pick valid foreign transactions).
type miniLedger struct {
	nonce, bal []int
	spent      map[int]bool
}

func (l *miniLedger) valid(d txDef) bool {
	if !d.Basic || !d.Fee {
		return false
	}
	if d.K == "spend" {
		return !l.spent[d.Ki]
	}
	return d.N == l.nonce[d.S-1] && d.C <= l.bal[d.S-1]
}

func (l *miniLedger) apply(d txDef) {
	if d.K == "spend" {
		l.spent[d.Ki] = true
		return
	}
	l.nonce[d.S-1]++
	l.bal[d.S-1] -= d.C
}

func concViolation(res *concResult, key, desc string, rec map[string]interface{}) {
	for _, v := range res.Violations {
		if v.Key == key {
			return
		}
	}
	res.Violations = append(res.Violations, core.Violation{Key: key, Desc: desc, Record: rec})
}

// oneConcurrentRun produces one trace.
func oneConcurrentRun(w *world, b *chainBase, rng *rand.Rand, res *concResult) {
	sizes := [][3]int{{2, 1, 9}, {4, 3, 9}, {16, 8, 9}, {3, 2, 1}, {1, 1, 9}, {6, 2, 2}}
	sz := sizes[rng.Intn(len(sizes))]
	p, err := w.newPair(b, sz[0], sz[1], sz[2])
	if err != nil {
		res.Infra = append(res.Infra, "boot: "+err.Error())
		return
	}
	defer p.close()
	rc := &recorder{p: p, lastCn: map[int]int{}}
	balj, _ := json.Marshal(b.bal)
	rc.lines = append(rc.lines, fmt.Sprintf(`{"e":"boot","size":%d,"fsize":%d,"usize":%d,"bal":%s}`, sz[0], sz[1], sz[2], balj))
	recorders.Store(p.A.MP, rc)
	defer recorders.Delete(p.A.MP)

	// the clients' programmes
	nClients := 3 + rng.Intn(2)
	progs := make([][]int, nClients)
	bySender := map[int][]int{}
	var spends []int
	for i, d := range w.defs {
		if d.K == "spend" {
			spends = append(spends, i+1)
		} else {
			bySender[d.S] = append(bySender[d.S], i+1)
		}
	}
	for ci := range progs {
		own := bySender[ci%w.ns+1]
		for len(progs[ci]) < 30 {
			switch r := rng.Intn(10); {
			case r < 6: // mostly the own sender's transactions, roughly in nonce order
				k := len(progs[ci]) * len(own) / 30
				k += rng.Intn(5) - 2
				if k < 0 {
					k = 0
				}
				if k >= len(own) {
					k = len(own) - 1
				}
				progs[ci] = append(progs[ci], own[k])
			case r < 8:
				progs[ci] = append(progs[ci], 1+rng.Intn(len(w.defs)))
			case r < 9:
				progs[ci] = append(progs[ci], spends[rng.Intn(len(spends))])
			default:
				if n := len(progs[ci]); n > 0 {
					progs[ci] = append(progs[ci], progs[ci][rng.Intn(n)]) // resubmission
				} else {
					progs[ci] = append(progs[ci], own[0])
				}
			}
		}
	}
	yields := make([][]int, nClients)
	for ci := range yields {
		for range progs[ci] {
			yields[ci] = append(yields[ci], rng.Intn(4))
		}
	}
	var wg sync.WaitGroup
	var running int32 = int32(nClients)
	start := make(chan struct{})
	for ci := range progs {
		wg.Add(1)
		go func(ci int) {
			defer wg.Done()
			defer atomic.AddInt32(&running, -1)
			<-start
			for i, id := range progs[ci] {
				p.A.MP.AddTx("", b.txs[id-1])
				for y := 0; y < yields[ci][i]; y++ {
					runtime.Gosched()
				}
			}
		}(ci)
	}
	// the committer (this goroutine)
	led := &miniLedger{nonce: make([]int, w.ns), bal: append([]int{}, b.bal...), spent: map[int]bool{}}
	record := func() map[string]interface{} {
		rc.mu.Lock()
		defer rc.mu.Unlock()
		return map[string]interface{}{"instantiation": w.in, "unit_wei": w.U.String(), "pool": sz, "trace": append([]string{}, rc.lines...), "tx_table": w.defs}
	}
	rootKey := func(k string) string {
		rc.mu.Lock()
		defer rc.mu.Unlock()
		if rc.mutated == "fee" || (res.FeeDefect && lowFeeDepositSeen(w.defs, rc.lines)) {
			return "rejected-tx-mutates-check-state/utxo-fee"
		} else if rc.mutated != "" {
			return "rejected-tx-mutates-check-state/" + rc.mutated
		}
		return k
	}
	reap := func(max int) types.Txs {
		atomic.StoreInt64(&rc.reapMax, int64(max))
		return p.A.MP.Reap(max)
	}
	close(start)
	extra := 3
	for round := 0; round < 200; round++ {
		if atomic.LoadInt32(&running) == 0 {
			if extra == 0 {
				break
			}
			extra--
		}
		for y := rng.Intn(6); y > 0; y-- {
			runtime.Gosched()
		}
		switch r := rng.Intn(20); {
		case r < 12: // the node proposes Reap(k)
			k := []int{1, 2, 3, reapAll, reapAll}[rng.Intn(5)]
			atomic.StoreInt64(&rc.reapMax, int64(k))
			blk, pm := p.propose(k)
			if pm != "" {
				concViolation(res, rootKey("offered-not-executable/propose-panic"), "concurrent run: the node's proposal does not execute: "+pm, record())
				goto done
			}
			if kind, d := p.offeredInvariants(blk.Data.Txs); kind != "" {
				concViolation(res, rootKey("offered/"+kind), "concurrent run: what the pool offers violates the property: "+d, record())
				goto done
			}
			rb, msg := p.coldCheck(blk)
			if msg != "" {
				concViolation(res, rootKey("offered-not-executable/cold-checkblock"), "concurrent run: "+msg, record())
				goto done
			}
			ra, _, rerr := appx.Redecode(blk)
			if rerr != nil {
				res.Infra = append(res.Infra, "concurrent run: "+rerr.Error())
				goto done
			}
			if msg := p.commitBoth(ra, rb, false); msg != "" {
				res.Infra = append(res.Infra, "concurrent run: commit failed: "+msg)
				goto done
			}
			for _, id := range p.ids(blk.Data.Txs) {
				if id > 0 {
					led.apply(w.defs[id-1])
				}
			}
			res.Commits++
		case r < 17: // a foreign proposer's block
			var ids []int
			var txs types.Txs
			tmp := &miniLedger{nonce: append([]int{}, led.nonce...), bal: append([]int{}, led.bal...), spent: map[int]bool{}}
			for k := range led.spent {
				tmp.spent[k] = true
			}
			for n := 1 + rng.Intn(3); n > 0; n-- {
				var cands []int
				for i, d := range w.defs {
					if tmp.valid(d) {
						cands = append(cands, i+1)
					}
				}
				if len(cands) == 0 {
					break
				}
				id := cands[rng.Intn(len(cands))]
				tmp.apply(w.defs[id-1])
				ids = append(ids, id)
				txs = append(txs, b.txs[id-1])
			}
			if msg := p.commitForeign(txs); msg != "" {
				res.Infra = append(res.Infra, fmt.Sprintf("concurrent run: foreign block %v: %s", ids, msg))
				goto done
			}
			*led = *tmp
			res.Commits++
		default:
			reap([]int{1, 2, reapAll}[rng.Intn(3)])
		}
	}
done:
	wg.Wait()
	rc.mu.Lock()
	lines := append([]string{}, rc.lines...)
	rc.mu.Unlock()
	// how concurrent was it: add events between a reap and the next update
	inProposal := false
	for _, l := range lines {
		switch {
		case strings.HasPrefix(l, `{"e":"reap"`):
			inProposal = true
		case strings.HasPrefix(l, `{"e":"update"`):
			inProposal = false
		case strings.HasPrefix(l, `{"e":"add"`):
			res.Adds++
			if inProposal {
				res.Overlaps++
			}
		}
	}
	res.Events += len(lines)
	res.Traces = append(res.Traces, lines)
}

func concChild(c *core.Ctx, job concJob) {
	out := bufio.NewWriter(os.Stdout)
	defer out.Flush()
	res := &concResult{}
	defer func() {
		rj, _ := json.Marshal(res)
		fmt.Fprintf(out, "RESULT %s\nDONE\n", rj)
	}()
	installHook()
	if runtime.GOMAXPROCS(0) < 4 {
		runtime.GOMAXPROCS(4)
	}
	defs, ns, ncoins, bal := concUniverse()
	in := instTable[job.Inst%len(instTable)]
	res.Inst = in
	w := newWorld(in, defs, ns, ncoins, job.Dir)
	b, err := w.base(bal)
	if err != nil {
		res.Infra = append(res.Infra, "concurrent world: "+err.Error())
		return
	}
	res.FeeDefect = feeDefectProbe(w, b)
	rng := rand.New(rand.NewSource(c.Seed*15485863 + int64(job.Part)*32452843))
	deadline := time.Now().Add(time.Duration(job.Seconds) * time.Second)
	for i := 0; i < job.Traces && (i < 2 || time.Now().Before(deadline)); i++ {
		fmt.Fprintf(out, "AT concurrent trace %d\n", i)
		out.Flush()
		oneConcurrentRun(w, b, rng, res)
		if len(res.Infra) > 0 {
			return
		}
	}
}
