package c15

// Model -> code: behaviours of the TLC-exported graph of Mempool.tla are executed on the
// real mempool + application.  The graph is nondeterministic where the code is (the order
// in which promoteExecutables visits senders is a Go map iteration), so behaviours are
// chosen adaptively: an action is executed, the implementation is observed, and the
// successor state that matches the observation is the one the walk continues from.

import (
	"bufio"
	"crypto/sha1"
	"encoding/json"
	"fmt"
	"hash/fnv"
	"math/rand"
	"os"
	"runtime/pprof"
	"sort"
	"strings"
	"syscall"
	"time"

	"github.com/lianxiangcloud/linkchain/types"

	"verifh/core"
)

// ---- the exported graph --------------------------------------------------

type mCfg struct {
	Size  int   `json:"size"`
	Fsize int   `json:"fsize"`
	Usize int   `json:"usize"`
	Bal   []int `json:"bal"`
}

type mState struct {
	Cfg   mCfg    `json:"cfg"`
	Ln    []int   `json:"ln"`
	Lb    []int   `json:"lb"`
	Spent []int   `json:"spent"`
	Done  []int   `json:"done"`
	Good  []int   `json:"good"`
	Utxoq []int   `json:"utxoq"`
	Fut   [][]int `json:"fut"`
	Cn    []int   `json:"cn"`
	Cb    []int   `json:"cb"`
	Kc    []int   `json:"kc"`
	Cache []int   `json:"cache"`
	Reap  []int   `json:"reap"`
}

func (m *mState) queued() int {
	n := 0
	for _, f := range m.Fut {
		n += len(f)
	}
	return n
}

type mAct struct {
	Op  string `json:"op"`
	T   int    `json:"t"`
	V   string `json:"v"`
	Max int    `json:"max"`
	Res []int  `json:"res"`
	Src string `json:"src"`
	K   int    `json:"k"`
	Blk []int  `json:"blk"`
	Exp bool   `json:"exp"`
	Cfg mCfg   `json:"cfg"`
}

type gEdge struct {
	from, to int
	grp      int
}

type gGroup struct {
	from  int
	act   string // raw JSON of the action label
	a     mAct
	edges []int
}

type graph struct {
	meta   graphMeta
	states []string // raw JSON
	parsed []*mState
	edges  []gEdge
	groups []gGroup
	out    [][]int // state -> group indexes
}

type graphMeta struct {
	Txs    []txDef `json:"txs"`
	Ns     int     `json:"ns"`
	Ncoins int     `json:"ncoins"`
	Use    []int   `json:"use"`
}

// graphBuilder consumes the lines TLC prints (one meta line, one line per explored transition).
type graphBuilder struct {
	g      *graph
	sid    map[string]int
	gid    map[string]int
	eseen  map[[3]int]bool
	badLns int
}

func newGraphBuilder() *graphBuilder {
	return &graphBuilder{g: &graph{}, sid: map[string]int{}, gid: map[string]int{}, eseen: map[[3]int]bool{}}
}

func (b *graphBuilder) state(raw json.RawMessage) int {
	k := string(raw)
	if i, ok := b.sid[k]; ok {
		return i
	}
	i := len(b.g.states)
	b.sid[k] = i
	b.g.states = append(b.g.states, k)
	b.g.out = append(b.g.out, nil)
	return i
}

func (b *graphBuilder) line(l string) {
	var e struct {
		Meta string          `json:"meta"`
		From json.RawMessage `json:"from"`
		Act  json.RawMessage `json:"act"`
		To   json.RawMessage `json:"to"`
	}
	if err := json.Unmarshal([]byte(l), &e); err != nil {
		b.badLns++
		return
	}
	if e.Meta != "" {
		json.Unmarshal([]byte(l), &b.g.meta)
		return
	}
	if e.From == nil || e.To == nil {
		return
	}
	b.addEdge(b.state(e.From), string(e.Act), b.state(e.To))
}

func (b *graphBuilder) addEdge(f int, act string, t int) {
	gk := fmt.Sprintf("%d|%s", f, act)
	gi, ok := b.gid[gk]
	if !ok {
		gi = len(b.g.groups)
		b.gid[gk] = gi
		b.g.groups = append(b.g.groups, gGroup{from: f, act: act})
		b.g.out[f] = append(b.g.out[f], gi)
	}
	if b.eseen[[3]int{f, gi, t}] {
		return
	}
	b.eseen[[3]int{f, gi, t}] = true
	b.g.edges = append(b.g.edges, gEdge{from: f, to: t, grp: gi})
	b.g.groups[gi].edges = append(b.g.groups[gi].edges, len(b.g.edges)-1)
}

func (g *graph) finish() error {
	if len(g.edges) == 0 {
		return fmt.Errorf("no edges exported")
	}
	if len(g.meta.Txs) == 0 {
		return fmt.Errorf("no transaction table exported")
	}
	g.parsed = make([]*mState, len(g.states))
	for i, s := range g.states {
		m := &mState{}
		if err := json.Unmarshal([]byte(s), m); err != nil {
			return fmt.Errorf("state %d: %v", i, err)
		}
		g.parsed[i] = m
	}
	for i := range g.groups {
		if err := json.Unmarshal([]byte(g.groups[i].act), &g.groups[i].a); err != nil {
			return fmt.Errorf("action %s: %v", g.groups[i].act, err)
		}
	}
	if g.parsed[0].Cfg.Size != 0 {
		return fmt.Errorf("state 0 is not the initial state")
	}
	return nil
}

// save / loadGraph: the compact form handed to the child processes.
func (g *graph) save(path string) error {
	f, err := os.Create(path)
	if err != nil {
		return err
	}
	w := bufio.NewWriterSize(f, 1<<20)
	mj, _ := json.Marshal(g.meta)
	fmt.Fprintf(w, "M %s\n", mj)
	for _, s := range g.states {
		fmt.Fprintf(w, "S %s\n", s)
	}
	for _, e := range g.edges {
		fmt.Fprintf(w, "E %d %d %s\n", e.from, e.to, g.groups[e.grp].act)
	}
	if err := w.Flush(); err != nil {
		return err
	}
	return f.Close()
}

func loadGraph(path string) (*graph, error) {
	f, err := os.Open(path)
	if err != nil {
		return nil, err
	}
	defer f.Close()
	b := newGraphBuilder()
	sc := bufio.NewScanner(f)
	sc.Buffer(make([]byte, 1<<20), 16<<20)
	for sc.Scan() {
		l := sc.Text()
		switch {
		case strings.HasPrefix(l, "M "):
			if err := json.Unmarshal([]byte(l[2:]), &b.g.meta); err != nil {
				return nil, err
			}
		case strings.HasPrefix(l, "S "):
			b.g.states = append(b.g.states, l[2:])
			b.g.out = append(b.g.out, nil)
		case strings.HasPrefix(l, "E "):
			var f, t int
			rest := l[2:]
			i := strings.IndexByte(rest, ' ')
			j := i + 1 + strings.IndexByte(rest[i+1:], ' ')
			fmt.Sscan(rest[:i], &f)
			fmt.Sscan(rest[i+1:j], &t)
			b.addEdge(f, rest[j+1:], t)
		}
	}
	if err := sc.Err(); err != nil {
		return nil, err
	}
	return b.g, b.g.finish()
}

// ---- one job: a share of the groups of one graph, one instantiation -------

type replayJob struct {
	Kind     string `json:"kind"` // "replay"
	Graph    string `json:"graph"`
	Config   string `json:"config"`
	Inst     int    `json:"inst"`
	Part     int    `json:"part"`
	Parts    int    `json:"parts"`
	Walks    int    `json:"walks"`
	WalkLen  int    `json:"walk_len"`
	MaxSteps int    `json:"max_steps"` // per behaviour
	Seconds  int    `json:"seconds"`   // time budget of the job
	Dir      string `json:"dir"`
	Corrupt  bool   `json:"corrupt,omitempty"` // negative control: the expected pool content is corrupted
}

type jobResult struct {
	Behaviours    int               `json:"behaviours"`
	Steps         int               `json:"steps"`
	Nontrivial    int               `json:"nontrivial"`
	Targets       int               `json:"targets"`
	Covered       int               `json:"covered"`
	EdgesCovered  int               `json:"edges_matched"`
	Offers        int               `json:"offers"` // CreateBlock+PreRunBlock+cold CheckBlock evaluations
	Commits       int               `json:"commits"`
	Boots         int               `json:"boots"`
	Nondet        int               `json:"nondet"` // steps at which the model allowed several outcomes
	Slow          int               `json:"slow"`   // behaviours abandoned because the process was starved
	LightCache    bool              `json:"light_cache"`
	Violations    []core.Violation  `json:"violations"`
	Drift         []string          `json:"drift"`
	DriftBeh      int               `json:"drift_behaviours"`
	Infra         []string          `json:"infra"`
	Sample        interface{}       `json:"sample"`
	TimedOut      bool              `json:"timed_out"`
	ByOp          map[string]int    `json:"by_op"`
	Unconfirmed   map[string]int    `json:"unconfirmed"`
	UnconfirmedEx map[string]string `json:"unconfirmed_example"`
	CPU           float64           `json:"cpu_s"`
	Wall          float64           `json:"wall_s"`
}

type runner struct {
	g        *graph
	w        *world
	job      replayJob
	rng      *rand.Rand
	res      *jobResult
	gcov     []bool
	ecov     []bool
	target   []bool
	left     int
	distinct map[[20]byte]bool
	offerOK  map[int]bool // model states whose offer was already executed + cold-checked (same txs, same committed state)
	out      *bufio.Writer
	deadline time.Time

	// the current behaviour
	began   time.Time
	p       *pair
	cur     int
	trace   []string
	changed bool
	drifted bool
}

func (r *runner) violate(key, desc string, extra map[string]interface{}) {
	for _, v := range r.res.Violations {
		if v.Key == key {
			return
		}
	}
	rec := map[string]interface{}{"config": r.job.Config, "instantiation": r.w.in, "unit_wei": r.w.U.String(),
		"actions": append([]string{}, r.trace...), "tx_table": r.g.meta.Txs}
	for k, v := range extra {
		rec[k] = v
	}
	r.res.Violations = append(r.res.Violations, core.Violation{Key: key, Desc: fmt.Sprintf("[%s, %s] %s", r.job.Config, r.w.in.Name, desc), Record: rec})
}

func (r *runner) drift(format string, a ...interface{}) {
	if !r.drifted {
		r.drifted = true
		r.res.DriftBeh++
	}
	if len(r.res.Drift) < 8 {
		r.res.Drift = append(r.res.Drift, fmt.Sprintf("[%s, %s] ", r.job.Config, r.w.in.Name)+fmt.Sprintf(format, a...)+" after "+strings.Join(r.trace, " "))
	}
}

func (r *runner) endBehaviour() {
	if r.p != nil {
		r.p.close()
		r.p = nil
	}
	if len(r.trace) > 0 {
		r.res.Behaviours++
		if r.changed {
			h := sha1.Sum([]byte(r.w.in.Name + strings.Join(r.trace, "")))
			if !r.distinct[h] {
				r.distinct[h] = true
				r.res.Nontrivial++
			}
		}
		if r.res.Sample == nil && len(r.trace) >= 5 && r.changed {
			r.res.Sample = map[string]interface{}{"config": r.job.Config, "instantiation": r.w.in, "behaviour": append([]string{}, r.trace...)}
		}
	}
	r.cur, r.trace, r.changed, r.drifted = 0, nil, false, false
}

// diffs between the implementation's observation and a model state
type stateDiff struct {
	ledger, check, pool, cache string
}

func (d stateDiff) none() bool {
	return d.ledger == "" && d.check == "" && d.pool == "" && d.cache == ""
}

func compare(o *obs, m *mState) (d stateDiff) {
	if !sameInts(o.Ln, m.Ln) || !sameInts(o.Lb, m.Lb) || !sameInts(sortedCopy(o.Spent), sortedCopy(m.Spent)) {
		d.ledger = fmt.Sprintf("committed state: nonces %v balances %v spent %v, specification: %v %v %v", o.Ln, o.Lb, o.Spent, m.Ln, m.Lb, m.Spent)
	}
	if !sameInts(o.Cn, m.Cn) || !sameInts(o.Cb, m.Cb) || !sameInts(sortedCopy(o.Kc), sortedCopy(m.Kc)) {
		d.check = fmt.Sprintf("speculative state: nonces %v balances %v key images %v, specification: %v %v %v", o.Cn, o.Cb, o.Kc, m.Cn, m.Cb, m.Kc)
	}
	switch {
	case !sameInts(o.Reap, m.Reap):
		d.pool = fmt.Sprintf("Reap offers %v, specification: %v", o.Reap, m.Reap)
	case o.GoodLen != len(m.Good) || o.UtxoLen != len(m.Utxoq) || o.Queued != m.queued() || o.Spec != 0:
		d.pool = fmt.Sprintf("sizes good/utxo/queued/special = %d/%d/%d/%d, specification: %d/%d/%d/0", o.GoodLen, o.UtxoLen, o.Queued, o.Spec, len(m.Good), len(m.Utxoq), m.queued())
	}
	if !sameInts(sortedCopy(o.Cache), sortedCopy(m.Cache)) {
		d.cache = fmt.Sprintf("cached transactions %v, specification: %v", sortedCopy(o.Cache), sortedCopy(m.Cache))
	}
	return
}

func accepted(v string) bool { return v == "good" || v == "queued" || v == "utxo" }

// sameReason: the error class the specification predicts vs the one returned (pi_shape).
func sameReason(model, impl string) bool {
	if accepted(model) {
		return impl == "ok"
	}
	if model == "dupnonce" {
		model = "dup"
	}
	return model == impl
}

const (
	stepOK = iota
	stepEnd
)

func opName(a *mAct) string {
	if a.Op == "commit" {
		s := "commit-" + a.Src
		if a.Exp {
			s += "-expired"
		}
		return s
	}
	return a.Op
}

// lowFeeDepositChecked: did this step state-check an account->confidential transaction
// whose fee is too low (submitted now, or promoted from the future queue and dropped)?
func (r *runner) lowFeeDepositChecked(a *mAct, from, to *mState) bool {
	low := func(id int) bool { d := r.g.meta.Txs[id-1]; return d.K == "dep" && !d.Fee }
	if a.Op == "add" && low(a.T) {
		return true
	}
	for s := range from.Fut {
		for _, id := range from.Fut[s] {
			if !low(id) {
				continue
			}
			still := false
			for _, x := range to.Fut[s] {
				still = still || x == id
			}
			if !still {
				return true
			}
		}
	}
	return false
}

// probe: the speculative state has left the specification.  Submit every pending
// transaction of every sender in nonce order and look for a property-level consequence.
func (r *runner) probe() (kind, detail string) {
	type cand struct{ id, s, n int }
	var cs []cand
	for _, id := range r.g.meta.Use {
		d := r.g.meta.Txs[id-1]
		if d.Basic {
			cs = append(cs, cand{id, d.S, d.N})
		}
	}
	sort.Slice(cs, func(i, j int) bool {
		if cs[i].s != cs[j].s {
			return cs[i].s < cs[j].s
		}
		if cs[i].n != cs[j].n {
			return cs[i].n < cs[j].n
		}
		return cs[i].id < cs[j].id
	})
	for _, c := range cs {
		err := r.p.A.MP.AddTx("", r.p.b.txs[c.id-1])
		r.trace = append(r.trace, fmt.Sprintf(`{"op":"probe-add","t":%d,"got":%q}`, c.id, classify(err)))
		r.res.Steps++
		if k, d := r.p.offeredInvariants(r.p.A.MP.Reap(reapAll)); k != "" {
			return k, d
		}
		k, d, ev := r.p.offerExecutes()
		if ev {
			r.res.Offers++
		}
		if k != "" {
			return k, d
		}
	}
	return "", ""
}

// freeRun: after an admission verdict the specification does not predict the walk cannot
// follow the model any more; a few more submissions are made with the model-independent
// oracles only.
func (r *runner) freeRun(n int) {
	use := r.g.meta.Use
	for i := 0; i < n; i++ {
		id := use[r.rng.Intn(len(use))]
		err := r.p.A.MP.AddTx("", r.p.b.txs[id-1])
		r.trace = append(r.trace, fmt.Sprintf(`{"op":"free-add","t":%d,"got":%q}`, id, classify(err)))
		r.res.Steps++
		if k, d := r.p.offeredInvariants(r.p.A.MP.Reap(reapAll)); k != "" {
			r.violate("offered/"+k, "what the pool offers violates the property: "+d, map[string]interface{}{"mismatch": d})
			return
		}
		k, d, ev := r.p.offerExecutes()
		if ev {
			r.res.Offers++
		}
		if k != "" {
			r.violate("offered-not-executable/"+k, "a block built from what the pool offers does not execute: "+d, map[string]interface{}{"mismatch": d})
			return
		}
	}
}

// step executes the action of group gi on the implementation and moves to the successor
// state the observation matches.
func (r *runner) step(gi int) int {
	grp := &r.g.groups[gi]
	a := &grp.a
	from := r.g.parsed[grp.from]
	if a.Op == "boot" {
		r.began = time.Now()
	} else if time.Since(r.began) > 15*time.Second {
		// the code has wall-clock behaviour (cache entries of committed transactions expire after
		// 30 s): a behaviour that was starved that long is abandoned without a verdict
		r.res.Slow++
		return stepEnd
	}
	r.trace = append(r.trace, grp.act)
	r.res.Steps++
	r.res.ByOp[opName(a)]++
	if !r.gcov[gi] {
		r.gcov[gi] = true
		if r.target[gi] {
			r.left--
		}
	}
	if len(grp.edges) > 1 {
		r.res.Nondet++
	}
	implVerdict := ""
	var early struct{ kind, detail string }
	switch a.Op {
	case "boot":
		b, err := r.w.base(a.Cfg.Bal)
		if err == nil {
			r.p, err = r.w.newPair(b, a.Cfg.Size, a.Cfg.Fsize, a.Cfg.Usize)
		}
		if err != nil {
			r.res.Infra = append(r.res.Infra, fmt.Sprintf("[%s, %s] boot %v: %v", r.job.Config, r.w.in.Name, a.Cfg, err))
			return stepEnd
		}
		r.res.Boots++
	case "add":
		implVerdict = classify(r.p.A.MP.AddTx("", r.p.b.txs[a.T-1]))
		if implVerdict == "ok" {
			r.changed = true
		}
	case "reap":
		got := r.p.ids(r.p.A.MP.Reap(a.Max))
		if !sameInts(got, a.Res) {
			r.violate(fmt.Sprintf("reap-result/max%d", a.Max), fmt.Sprintf("Reap(%d) returned %v, the specification says %v", a.Max, got, a.Res),
				map[string]interface{}{"mismatch": fmt.Sprintf("Reap(%d) = %v, expected %v", a.Max, got, a.Res)})
			return stepEnd
		}
	case "commit":
		r.changed = true
		r.res.Commits++
		if a.Src == "own" {
			ids, k, d := r.p.commitOwn(a.K, a.Exp)
			switch {
			case k == "propose-panic" || k == "cold-checkblock":
				early.kind, early.detail = "offered-not-executable/"+k, fmt.Sprintf("the node's own proposal Reap(%d) = %v does not execute: %s", a.K, ids, d)
			case k != "":
				r.res.Infra = append(r.res.Infra, fmt.Sprintf("[%s, %s] own commit failed: %s after %v", r.job.Config, r.w.in.Name, d, r.trace))
				return stepEnd
			case !sameInts(ids, a.Blk):
				r.violate("reap-result/proposal", fmt.Sprintf("the node proposed Reap(%d) = %v, the specification says %v", a.K, ids, a.Blk),
					map[string]interface{}{"mismatch": fmt.Sprintf("proposal %v, expected %v", ids, a.Blk)})
				return stepEnd
			}
		} else {
			var txs types.Txs
			for _, id := range a.Blk {
				txs = append(txs, r.p.b.txs[id-1])
			}
			if msg := r.p.commitForeign(txs); msg != "" {
				// the specification's ledger says the block is valid: the ledger abstraction is off
				r.drift("foreign block %v: %s", a.Blk, msg)
				return stepEnd
			}
		}
	}
	if early.kind != "" {
		r.violate(early.kind, early.detail, map[string]interface{}{"mismatch": early.detail})
		return stepEnd
	}
	o := r.p.observe(r.g.meta.Use)
	// which successor of the model does the implementation agree with?
	match := -1
	for _, ei := range grp.edges {
		if compare(o, r.g.parsed[r.g.edges[ei].to]).none() {
			match = ei
			break
		}
	}
	ref := grp.edges[0]
	if match >= 0 {
		ref = match
	}
	to := r.g.parsed[r.g.edges[ref].to]
	d := compare(o, to)
	// model-independent oracles of the property statement
	pk, pd := r.p.offeredInvariants(o.reapTxs)
	if pk != "" {
		pk = "offered/" + pk
	} else if match < 0 || !r.offerOK[r.g.edges[match].to] {
		k, dd, ev := r.p.offerExecutes()
		if ev {
			r.res.Offers++
		}
		if k != "" {
			pk, pd = "offered-not-executable/"+k, dd
		} else if match >= 0 {
			r.offerOK[r.g.edges[match].to] = true
		}
	}
	extra := map[string]interface{}{"observed": o, "expected_state": json.RawMessage(r.g.states[r.g.edges[ref].to])}
	verdictMismatch := a.Op == "add" && accepted(a.V) != (implVerdict == "ok")
	if a.Op == "add" {
		extra["verdict"] = implVerdict
	}
	// root cause first: a state check that failed (or a refused submission) changed the speculative state
	if d.check != "" && d.ledger == "" && !verdictMismatch {
		key := "check-state-diverged/" + opName(a)
		what := "the speculative state left the specification"
		if r.lowFeeDepositChecked(a, from, to) {
			key = "rejected-tx-mutates-check-state/utxo-fee"
			what = "an account->confidential transaction refused for its fee left the speculative nonce/balance changed"
		} else if a.Op == "add" && implVerdict != "ok" {
			key = "rejected-tx-mutates-check-state/" + implVerdict
			what = "a refused submission left the speculative state changed"
		}
		extra["mismatch"] = d.check
		if pk == "" {
			pk, pd = r.probe()
			if pk != "" {
				if strings.HasPrefix(pk, "propose") || strings.HasPrefix(pk, "cold") {
					pk = "offered-not-executable/" + pk
				} else {
					pk = "offered/" + pk
				}
			}
		}
		if pk != "" {
			extra["consequence"] = pk + ": " + pd
			r.violate(key, fmt.Sprintf("%s (%s); consequence: %s: %s", what, d.check, pk, pd), extra)
		} else {
			r.res.Unconfirmed[key]++
			if r.res.UnconfirmedEx[key] == "" {
				r.res.UnconfirmedEx[key] = fmt.Sprintf("[%s, %s] %s (%s) without a property-level consequence after %s", r.job.Config, r.w.in.Name, what, d.check, strings.Join(r.trace, " "))
			}
		}
		return stepEnd
	}
	if pk != "" {
		extra["mismatch"] = pd
		r.violate(pk, "what the pool offers violates the property: "+pd, extra)
		return stepEnd
	}
	if match >= 0 {
		if !r.ecov[match] {
			r.ecov[match] = true
			r.res.EdgesCovered++
		}
		if a.Op == "add" && !sameReason(a.V, implVerdict) {
			r.drift("AddTx(%d) refused with %q, the specification predicts %q", a.T, implVerdict, a.V)
		}
		r.cur = r.g.edges[match].to
		return stepOK
	}
	switch {
	case d.ledger != "":
		r.drift("%s", d.ledger)
	case verdictMismatch:
		r.drift("AddTx(%d) returned %q, the specification predicts %q", a.T, implVerdict, a.V)
		r.freeRun(4)
	case d.pool != "" && strings.HasPrefix(d.pool, "Reap") && r.sameUpToInterleaving(o.Reap, to.Reap):
		// same transactions, every sender's nonces in the same order: how senders interleave is not in the property
		r.drift("%s (senders interleaved differently)", d.pool)
	case d.pool != "":
		what := "sizes"
		if strings.HasPrefix(d.pool, "Reap") {
			what = "reap"
		}
		extra["mismatch"] = d.pool
		r.violate("pool-content/"+opName(a)+"/"+what, "after "+opName(a)+" the pool does not hold what the specification says: "+d.pool, extra)
	default:
		r.drift("%s", d.cache)
		r.cur = r.g.edges[ref].to
		return stepOK
	}
	return stepEnd
}

// sameUpToInterleaving: the same transactions, and per sender (and for the spends) the same order.
func (r *runner) sameUpToInterleaving(a, b []int) bool {
	if len(a) != len(b) {
		return false
	}
	split := func(x []int) map[int][]int {
		m := map[int][]int{}
		for _, id := range x {
			if id <= 0 || id > len(r.g.meta.Txs) {
				return nil
			}
			s := r.g.meta.Txs[id-1].S
			m[s] = append(m[s], id)
		}
		return m
	}
	ma, mb := split(a), split(b)
	if ma == nil || mb == nil || len(ma) != len(mb) {
		return false
	}
	for s, x := range ma {
		if !sameInts(x, mb[s]) {
			return false
		}
	}
	return true
}

// pathTo: BFS from state s to the nearest state with an uncovered target group.
func (r *runner) pathTo(s int, maxLen int) (path []int, ok bool) {
	has := func(x int) bool {
		for _, gi := range r.g.out[x] {
			if r.target[gi] && !r.gcov[gi] {
				return true
			}
		}
		return false
	}
	if has(s) {
		return nil, true
	}
	type pv struct{ prev, grp int }
	seen := map[int]pv{s: {-1, -1}}
	q := []int{s}
	depth := map[int]int{s: 0}
	for len(q) > 0 {
		x := q[0]
		q = q[1:]
		if depth[x] >= maxLen {
			continue
		}
		for _, gi := range r.g.out[x] {
			for _, ei := range r.g.groups[gi].edges {
				t := r.g.edges[ei].to
				if _, dup := seen[t]; dup {
					continue
				}
				seen[t] = pv{x, gi}
				depth[t] = depth[x] + 1
				if has(t) {
					for y := t; seen[y].prev != -1; y = seen[y].prev {
						path = append(path, seen[y].grp)
					}
					for i, j := 0, len(path)-1; i < j; i, j = i+1, j-1 {
						path[i], path[j] = path[j], path[i]
					}
					return path, true
				}
				q = append(q, t)
			}
		}
	}
	return nil, false
}

func (r *runner) expired() bool {
	if time.Now().After(r.deadline) {
		r.res.TimedOut = true
		return true
	}
	return false
}

// tour: adaptive greedy tour over this job's share of the (state, action) groups.
func (r *runner) tour() {
	for r.left > 0 && !r.expired() {
		r.endBehaviour()
		if _, ok := r.pathTo(0, 1<<30); !ok {
			return // the rest is unreachable (cannot happen: TLC explored it from the initial state)
		}
		fmt.Fprintf(r.out, "AT tour, %d groups left\n", r.left)
		r.out.Flush()
		for len(r.trace) < r.job.MaxSteps && !r.expired() {
			// an uncovered target action of the current state?
			var cands []int
			for _, gi := range r.g.out[r.cur] {
				if r.target[gi] && !r.gcov[gi] {
					cands = append(cands, gi)
				}
			}
			next := -1
			if len(cands) > 0 {
				next = cands[r.rng.Intn(len(cands))]
			} else if path, ok := r.pathTo(r.cur, r.job.MaxSteps-len(r.trace)); ok && len(path) > 0 {
				next = path[0]
			}
			if next < 0 || r.step(next) != stepOK {
				break
			}
		}
	}
	r.endBehaviour()
}

// walks: seeded random walks (long ones: they leave the depth the tour is planned for).
func (r *runner) walks() {
	for i := 0; i < r.job.Walks && !r.expired(); i++ {
		r.endBehaviour()
		for len(r.trace) < r.job.WalkLen {
			outs := r.g.out[r.cur]
			if len(outs) == 0 {
				break
			}
			if r.step(outs[r.rng.Intn(len(outs))]) != stepOK {
				break
			}
		}
	}
	r.endBehaviour()
}

func replayChild(c *core.Ctx, job replayJob) {
	out := bufio.NewWriter(os.Stdout)
	defer out.Flush()
	res := &jobResult{ByOp: map[string]int{}, Unconfirmed: map[string]int{}, UnconfirmedEx: map[string]string{}}
	t0 := time.Now()
	finish := func() {
		var ru syscall.Rusage
		if syscall.Getrusage(syscall.RUSAGE_SELF, &ru) == nil {
			res.CPU = float64(ru.Utime.Sec+ru.Stime.Sec) + float64(ru.Utime.Usec+ru.Stime.Usec)/1e6
		}
		res.Wall = time.Since(t0).Seconds()
		res.LightCache = lightMgrType != nil && !lightCacheBroken
		rj, _ := json.Marshal(res)
		fmt.Fprintf(out, "RESULT %s\nDONE\n", rj)
	}
	g, err := loadGraph(job.Graph)
	if err != nil {
		res.Infra = append(res.Infra, "graph: "+err.Error())
		finish()
		return
	}
	if pf := os.Getenv("C15_PROF"); pf != "" { // development aid
		if f, err := os.Create(pf); err == nil {
			pprof.StartCPUProfile(f)
			defer pprof.StopCPUProfile()
		}
	}
	in := instTable[job.Inst%len(instTable)]
	if job.Corrupt {
		// negative control: every state with something in goodTxs expects one transaction less
		for _, m := range g.parsed {
			if n := len(m.Good); n > 0 && len(m.Reap) > 0 {
				m.Good = m.Good[:n-1]
				m.Reap = m.Reap[1:]
			}
		}
	}
	r := &runner{g: g, job: job, res: res, out: out, distinct: map[[20]byte]bool{}, offerOK: map[int]bool{},
		rng:      rand.New(rand.NewSource(c.Seed*7919 + int64(job.Part)*104729 + int64(len(job.Config)))),
		deadline: time.Now().Add(time.Duration(job.Seconds) * time.Second)}
	r.w = newWorld(in, g.meta.Txs, g.meta.Ns, g.meta.Ncoins, job.Dir)
	r.gcov = make([]bool, len(g.groups))
	r.ecov = make([]bool, len(g.edges))
	r.target = make([]bool, len(g.groups))
	for gi := range g.groups {
		h := fnv.New32a()
		h.Write([]byte(g.groups[gi].act))
		fmt.Fprintf(h, "%d", g.groups[gi].from)
		if int(h.Sum32()%uint32(job.Parts)) == job.Part {
			r.target[gi] = true
			r.left++
		}
	}
	res.Targets = r.left
	// first the pairs where the pool's logic runs (commits, accepted submissions), then the
	// refused submissions and explicit reaps: a tour cut by its time budget has covered the former
	all := r.target
	important := make([]bool, len(all))
	nImportant := 0
	for gi := range g.groups {
		a := &g.groups[gi].a
		if all[gi] && (a.Op == "commit" || a.Op == "boot" || (a.Op == "add" && accepted(a.V))) {
			important[gi] = true
			nImportant++
		}
	}
	r.target, r.left = important, nImportant
	r.tour()
	r.target, r.left = all, 0
	for gi := range all {
		if all[gi] && !r.gcov[gi] {
			r.left++
		}
	}
	r.tour()
	res.Covered = res.Targets - r.left
	r.walks()
	finish()
}
