package c15

// C15 — the mempool offers consensus only executable, non-conflicting, ordered transactions.
//
// Model: spec/Mempool/Mempool.tla (committed ledger, speculative check state, goodTxs,
// utxoTxs, per-sender future queues, dedup cache, key-image cache; AddTx / Reap / Commit
// of own and foreign blocks with filter - recheck - promote; TLC checks ReapExecutable,
// Distinct, NotCommitted, NoSharedKeyImage, GapFreeFromCommittedNonce, CoveredByBalance,
// NoStrandedExecutable, RejectedLeavesCheckStateUnchanged, ... on exhaustive bounded
// instances and exports every explored transition).
// Binding (A): an adaptive tour over every (state, action) of the exported graphs plus
// seeded random walks is executed on the REAL mempool wired to the REAL application, for
// several concrete instantiations; after every action the pool (Reap(all) as a sequence,
// sizes, cache membership), the speculative state and the committed state are compared
// with the model, the property statement is evaluated directly on what the pool offers
// against the real committed state, and a block built from the offer (CreateBlock +
// PreRunBlock) must execute and be accepted by a cold replica's CheckBlock.
// Binding (B): concurrent clients + committer on the real code, hook H3 events validated
// by Trace_Mempool.tla, with negative controls.

import (
	"encoding/json"
	"fmt"
	"io/ioutil"
	"os"
	"path/filepath"
	"sort"
	"strings"
	"sync"
	"time"

	"github.com/lianxiangcloud/linkchain/types"

	"verifh/core"
	"verifh/tlc"
)

func init() { core.Register("C15", runC15) }

func runC15(c *core.Ctx) {
	if c.Child != "" {
		var kind struct {
			Kind string `json:"kind"`
		}
		json.Unmarshal([]byte(c.Child), &kind)
		switch kind.Kind {
		case "replay":
			var j replayJob
			json.Unmarshal([]byte(c.Child), &j)
			replayChild(c, j)
		case "conc":
			var j concJob
			json.Unmarshal([]byte(c.Child), &j)
			concChild(c, j)
		}
		return
	}
	if c.Replay != "" {
		replayRecord(c)
		return
	}
	o := c.Out()
	o.Level = "model_checking"
	o.Rule = "behaviour = adaptive walk through the TLC-exported graph of Mempool.tla (tour covering every (state, action) pair + seeded random walks) executed on the real mempool + application for one concrete instantiation, or one concurrent run whose hook-recorded trace Trace_Mempool.tla accepted; non-trivial = at least one accepted submission or committed block; distinct = distinct (instantiation, action sequence)"
	o.Assumptions = []string{
		"2 senders (3 in the concurrent runs), nonces 0..3 (0..5), balances of 0..3 units or ample, 2 confidential coins, pool Size in {1,2,4}, FutureSize in {1,3}, UTXOSize in {1,2,9}; behaviours of at most 6 model actions (random walks and concurrent runs are longer)",
		"recipients are accounts that never send (no transaction is made executable by an incoming transfer)",
		"plain transfers, account->confidential deposits and ring-size-1 confidential spends of the native coin; token, contract and multi-signature transactions are not submitted",
		"all confidential results are relative to the Go/libsodium stand-in for libxcrypto",
		"time-based eviction: GoodTxDropTime is driven by setting the exported variable; the 10 s eviction ticker of the future queue (config Lifetime) is not exercised",
	}
	o.Trusted = []string{"TLC", "harness/appx (application stack builder)", "harness/xmodel (libxcrypto stand-in)", "Go reference of the property statement in props/c15/world.go offeredInvariants"}

	base, err := ioutil.TempDir("", "vc15")
	if err != nil {
		c.Infra("tempdir: %v", err)
		return
	}
	defer os.RemoveAll(base)

	sem := make(chan struct{}, c.Pick(12, 16))
	// violations seen by the concurrent part are filed after the replay's (whose records are
	// deterministic action sequences), so that the replay's record is the one kept per key
	var late []core.Violation
	var lateMu sync.Mutex
	violateLate := func(key, desc string, rec interface{}) {
		lateMu.Lock()
		late = append(late, core.Violation{Key: key, Desc: desc, Record: rec})
		lateMu.Unlock()
	}

	// ---- the concurrent runs (they do not need the graphs) and their trace validation
	type concOut struct {
		results []string
		crash   string
		at      string
	}
	nConc := c.Pick(2, 6)
	concOuts := make([]concOut, nConc)
	var cwg sync.WaitGroup
	for i := 0; i < nConc; i++ {
		cwg.Add(1)
		go func(i int) {
			defer cwg.Done()
			sem <- struct{}{}
			defer func() { <-sem }()
			j := concJob{Kind: "conc", Traces: c.Pick(16, 100), Inst: int(c.Seed) + i, Part: i, Dir: filepath.Join(base, fmt.Sprintf("conc%d", i)), Seconds: c.Pick(40, 420)}
			arg, _ := json.Marshal(j)
			concOuts[i].results, concOuts[i].at, concOuts[i].crash = c.RunChild(string(arg), c.MinutesT(3, 12))
		}(i)
	}
	concDone := make(chan struct{})
	var concAdd [3]int
	go func() {
		defer close(concDone)
		cwg.Wait()
		var traces [][]string
		var concInst []string
		feeDefect := false
		events, commits, adds, overlaps := 0, 0, 0, 0
		for i, co := range concOuts {
			if co.crash == "TIMEOUT" {
				c.Infra("concurrent job %d timed out at %s", i, co.at)
			} else if co.crash != "" {
				c.Infra("concurrent job %d died (%s): %s", i, co.at, co.crash)
			}
			for _, r := range co.results {
				var cr concResult
				if err := json.Unmarshal([]byte(r), &cr); err != nil {
					c.Infra("bad concurrent result: %v", err)
					continue
				}
				for _, v := range cr.Violations {
					violateLate(v.Key, v.Desc, v.Record)
				}
				for _, s := range cr.Infra {
					c.Infra("%s", s)
				}
				traces = append(traces, cr.Traces...)
				events += cr.Events
				commits += cr.Commits
				adds += cr.Adds
				overlaps += cr.Overlaps
				concInst = append(concInst, cr.Inst.Name)
				feeDefect = feeDefect || cr.FeeDefect
			}
		}
		concAdd = validateTraces(c, violateLate, feeDefect, traces, concInst, events, commits, adds, overlaps)
	}()

	// ---- per bounded instance: TLC (exports the graph), then the replay jobs of that graph
	configs := []string{"MempoolQA.cfg", "MempoolQB.cfg", "MempoolQC.cfg"}
	if c.Thorough() {
		configs = []string{"MempoolTA.cfg", "MempoolTB.cfg", "MempoolTC.cfg", "MempoolTD.cfg"}
	}
	var mu sync.Mutex
	modelOK := true
	graphInfo := map[string]interface{}{}
	totalGroups, totalEdges, nJobs, samples, lightJobs := 0, 0, 0, 0, 0
	total := jobResult{ByOp: map[string]int{}}
	instUsed := map[string]bool{}
	unconfirmed := map[string]int{}
	unconfirmedEx := map[string]string{}
	control := ""
	fail := func(format string, a ...interface{}) {
		c.Infra(format, a...)
		mu.Lock()
		modelOK = false
		mu.Unlock()
	}
	runJob := func(j replayJob) {
		sem <- struct{}{}
		defer func() { <-sem }()
		arg, _ := json.Marshal(j)
		results, at, crash := c.RunChild(string(arg), time.Duration(j.Seconds+c.Pick(60, 240))*time.Second)
		mu.Lock()
		defer mu.Unlock()
		if j.Corrupt {
			// negative control of the replay binding: the corrupted expectation must be noticed
			control = "the replay did not notice a corrupted expected pool content"
			if crash != "" {
				control = "control job failed: " + crash
			}
			for _, r := range results {
				var jr jobResult
				if json.Unmarshal([]byte(r), &jr) == nil && len(jr.Violations) > 0 {
					control = "rejected:" + jr.Violations[0].Key
				}
			}
			return
		}
		instUsed[instTable[j.Inst%len(instTable)].Name] = true
		for _, r := range results {
			var jr jobResult
			if err := json.Unmarshal([]byte(r), &jr); err != nil {
				c.Infra("bad job result: %v", err)
				continue
			}
			total.Behaviours += jr.Behaviours
			total.Steps += jr.Steps
			total.Nontrivial += jr.Nontrivial
			total.Targets += jr.Targets
			total.Covered += jr.Covered
			total.EdgesCovered += jr.EdgesCovered
			total.Offers += jr.Offers
			total.Commits += jr.Commits
			total.Boots += jr.Boots
			total.Nondet += jr.Nondet
			total.Slow += jr.Slow
			if jr.LightCache {
				lightJobs++
			}
			total.CPU += jr.CPU
			if jr.Wall > total.Wall {
				total.Wall = jr.Wall
			}
			total.DriftBeh += jr.DriftBeh
			if jr.TimedOut {
				total.TimedOut = true
			}
			for k, v := range jr.ByOp {
				total.ByOp[k] += v
			}
			for _, v := range jr.Violations {
				c.Violate(v.Key, v.Desc, v.Record)
			}
			for _, d := range jr.Drift {
				c.Drift("%s", d)
			}
			for _, s := range jr.Infra {
				c.Infra("%s", s)
			}
			for k, n := range jr.Unconfirmed {
				unconfirmed[k] += n
				if unconfirmedEx[k] == "" {
					unconfirmedEx[k] = jr.UnconfirmedEx[k]
				}
			}
			if jr.Sample != nil && samples < 3 {
				samples++
				c.Sample(jr.Sample)
			}
		}
		if crash == "TIMEOUT" {
			c.Infra("replay job %s part %d timed out at %s", j.Config, j.Part, at)
		} else if crash != "" {
			c.Infra("replay job %s part %d died (%s): %s", j.Config, j.Part, at, crash)
		}
	}
	var mwg sync.WaitGroup
	for ci, cf := range configs {
		mwg.Add(1)
		go func(ci int, cf string) {
			defer mwg.Done()
			gb := newGraphBuilder()
			res := c.TLC(tlc.Options{SpecDir: c.SpecDir("Mempool"), Module: "MC_Mempool", Config: cf, Workers: 1,
				Timeout: c.MinutesT(3, 12), OnLine: gb.line, HeapMB: c.Pick(3072, 8192)})
			if res == nil {
				mu.Lock()
				modelOK = false
				mu.Unlock()
				return
			}
			if res.Violated != "" || !res.Finished || res.TimedOut {
				fail("Mempool model %s: %s\n%s", cf, res.Describe(), res.Tail)
				return
			}
			g := gb.g
			if err := g.finish(); err != nil {
				fail("graph of %s: %v (%d unparsable lines)", cf, err, gb.badLns)
				return
			}
			file := filepath.Join(base, strings.TrimSuffix(cf, ".cfg")+".graph")
			if err := g.save(file); err != nil {
				fail("save graph: %v", err)
				return
			}
			if keep := os.Getenv("C15_KEEP"); keep != "" { // development aid
				g.save(filepath.Join(keep, filepath.Base(file)))
			}
			ng := len(g.groups)
			byOp := map[string]int{}
			nondet := 0
			for i := range g.groups {
				byOp[opName(&g.groups[i].a)]++
				if len(g.groups[i].edges) > 1 {
					nondet++
				}
			}
			// all jobs of all graphs fit into one wave of child processes
			parts := (ng + c.Pick(1400, 22000) - 1) / c.Pick(1400, 22000)
			if parts < 1 {
				parts = 1
			}
			if parts > c.Pick(5, 8) {
				parts = c.Pick(5, 8)
			}
			mu.Lock()
			totalGroups += ng
			totalEdges += len(g.edges)
			graphInfo[cf] = map[string]interface{}{"states": len(g.states), "edges": len(g.edges), "state_action_pairs": ng,
				"pairs_by_action": byOp, "pairs_with_several_outcomes": nondet, "transactions_used": g.meta.Use, "tlc_wall_s": res.Wall}
			var jobs []replayJob
			for p := 0; p < parts; p++ {
				nJobs++
				jobs = append(jobs, replayJob{Kind: "replay", Graph: file, Config: cf, Inst: int(c.Seed) + ci*parts + p, Part: p, Parts: parts,
					Walks: c.Pick(25, 400), WalkLen: c.Pick(25, 40), MaxSteps: 60, Seconds: c.Pick(60, 720),
					Dir: filepath.Join(base, fmt.Sprintf("job%d_%d", ci, p))})
			}
			if ci == len(configs)-1 {
				jobs = append(jobs, replayJob{Kind: "replay", Graph: file, Config: cf, Inst: int(c.Seed), Part: 0, Parts: 50, Walks: 3, WalkLen: 10,
					MaxSteps: 20, Seconds: 30, Dir: filepath.Join(base, "control"), Corrupt: true})
			}
			mu.Unlock()
			var jwg sync.WaitGroup
			for _, j := range jobs {
				jwg.Add(1)
				go func(j replayJob) {
					defer jwg.Done()
					runJob(j)
				}(j)
			}
			jwg.Wait()
		}(ci, cf)
	}
	mwg.Wait()
	<-concDone
	lateMu.Lock()
	for _, v := range late {
		c.Violate(v.Key, v.Desc, v.Record)
	}
	lateMu.Unlock()
	// a speculative state that left the specification without a consequence in that behaviour:
	// drift, unless the same root cause was confirmed elsewhere
	confirmed := map[string]bool{}
	for _, v := range o.Violations {
		confirmed[v.Key] = true
	}
	for k, n := range unconfirmed {
		if !confirmed[k] {
			c.Drift("%s (%d behaviours)", unconfirmedEx[k], n)
			total.DriftBeh += n
		}
	}
	o.Exhaustive = modelOK
	c.SetExtra("model_graphs", graphInfo)
	o.Traces += total.Behaviours + concAdd[0]
	o.Evaluations += total.Steps + concAdd[1]
	o.Distinct += total.Nontrivial + concAdd[2]
	var insts []string
	for k := range instUsed {
		insts = append(insts, k)
	}
	sort.Strings(insts)
	c.SetExtra("replay", map[string]interface{}{"jobs": nJobs, "behaviours": total.Behaviours, "steps": total.Steps,
		"state_action_pairs": totalGroups, "state_action_pairs_covered_by_tour": total.Covered, "edges": totalEdges, "edge_matches_summed_over_jobs": total.EdgesCovered,
		"block_proposals_executed_and_cold_checked": total.Offers, "blocks_committed": total.Commits, "application_boots": total.Boots,
		"steps_with_several_allowed_outcomes": total.Nondet, "behaviours_abandoned_starved": total.Slow, "jobs_with_harness_installed_small_dedup_cache": lightJobs, "steps_by_action": total.ByOp, "instantiations": insts,
		"behaviours_with_drift": total.DriftBeh, "replay_cpu_s": total.CPU, "longest_job_wall_s": total.Wall, "tour_cut_by_time_budget": total.TimedOut})
	switch {
	case strings.HasPrefix(control, "rejected:"):
		c.SetExtra("replay_negative_control", "corrupted expectation "+control)
	case !modelOK:
	default:
		c.Infra("vacuous binding: %s", control)
	}
	if modelOK && total.Targets > 0 && total.Covered*3 < total.Targets {
		c.Infra("the tour covered only %d of %d (state, action) pairs within its time budget", total.Covered, total.Targets)
	}
	if total.Behaviours > 0 && total.DriftBeh*5 > total.Behaviours {
		c.Infra("specification stale: %d of %d behaviours left the model on implementation-shape observables", total.DriftBeh, total.Behaviours)
	}
}

// validateTraces feeds the recorded traces to Trace_Mempool.tla (plus negative controls).
func validateTraces(c *core.Ctx, violate func(key, desc string, rec interface{}), feeDefect bool, traces [][]string, insts []string, events, commits, adds, overlaps int) (add [3]int) {
	if len(traces) == 0 {
		c.Infra("no concurrent trace was recorded")
		return
	}
	defs, ns, ncoins, _ := concUniverse()
	meta, _ := json.Marshal(map[string]interface{}{"e": "meta", "txs": defs})
	cfgText := fmt.Sprintf(`SPECIFICATION TraceSpec
CONSTANTS
  NS = %d
  NCoins = %d
  TX <- TraceTX
  Use = {}
  Boots = {}
  ReapCaps = {}
  OwnCuts = {}
  ExpireCuts = {}
  MaxForeign = 0
  MaxSteps = 100000000
  FeeBug = FALSE
INVARIANTS ReapExecutable Distinct NotCommitted NoSharedKeyImage GapFreeFromCommittedNonce CoveredByBalance WellSorted NoStrandedExecutable KeyCacheIsUtxoq CommittedRemoved
CONSTRAINT Consumed
POSTCONDITION TraceAccepted
VIEW TraceView
CHECK_DEADLOCK FALSE
`, ns, ncoins)
	bundle := func(ts [][]string) []byte {
		var b strings.Builder
		b.Write(meta)
		b.WriteByte('\n')
		for _, t := range ts {
			for _, l := range t {
				b.WriteString(l)
				b.WriteByte('\n')
			}
		}
		return []byte(b.String())
	}
	run := func(ts [][]string) (consumed, lines int, res *tlc.Result) {
		res = c.TLC(tlc.Options{SpecDir: c.SpecDir("Mempool"), Module: "Trace_Mempool", Config: "Trace_gen.cfg", Workers: 1,
			Timeout: c.MinutesT(3, 12), Files: map[string][]byte{"trace.ndjson": bundle(ts), "Trace_gen.cfg": []byte(cfgText)}})
		if res == nil {
			return -1, -1, nil
		}
		consumed, lines = -1, -1
		for _, l := range res.Lines {
			var x struct {
				Consumed *int `json:"consumed"`
				Lines    *int `json:"lines"`
			}
			if json.Unmarshal([]byte(l), &x) == nil && x.Consumed != nil && x.Lines != nil {
				consumed, lines = *x.Consumed, *x.Lines
			}
		}
		return
	}
	// negative controls on one trace, in parallel with the real validation
	type control struct {
		name   string
		trace  []string
		reject bool
		err    string
	}
	var controls []*control
	if ctl := corruptVerdict(traces); ctl != nil {
		controls = append(controls, &control{name: "flipped AddTx verdict", trace: ctl})
	}
	if ctl := dropAcceptedAdd(traces); ctl != nil {
		controls = append(controls, &control{name: "one hook event removed", trace: ctl})
	}
	if ctl := swapReap(traces); ctl != nil {
		controls = append(controls, &control{name: "two entries of a Reap result swapped", trace: ctl})
	}
	var wg sync.WaitGroup
	for _, ct := range controls {
		wg.Add(1)
		go func(ct *control) {
			defer wg.Done()
			cons, lines, res := run([][]string{ct.trace})
			switch {
			case res == nil:
				ct.err = "TLC failed"
			case res.Violated != "":
				ct.reject = true
			case cons >= 0 && cons < lines:
				ct.reject = true
			case cons < 0:
				ct.err = "no acceptance report: " + res.Describe()
			}
		}(ct)
	}
	cons, lines, res := run(traces)
	wg.Wait()
	rejected := 0
	for _, ct := range controls {
		if ct.err != "" {
			c.Infra("negative control %q: %s", ct.name, ct.err)
		} else if !ct.reject {
			c.Infra("vacuous binding: the trace specification accepted a corrupted trace (%s)", ct.name)
		} else {
			rejected++
		}
	}
	if len(controls) < 2 {
		c.Infra("could not build the negative controls of the trace validation")
	}
	notAccepted := 0
	defer func() {
		c.SetExtra("concurrent", map[string]interface{}{"traces": len(traces), "events": events, "blocks_committed": commits, "add_events": adds,
			"add_events_linearised_inside_a_proposal": overlaps, "instantiations": insts, "negative_controls_rejected": rejected, "negative_controls": len(controls),
			"traces_accepted": add[0], "traces_not_accepted": notAccepted})
	}()
	rest := traces
	for attempt := 0; ; attempt++ {
		if res == nil {
			return
		}
		if res.Violated == "" && cons == lines && lines > 0 && !res.PostFalse {
			// every remaining trace is accepted
			n := 0
			for _, t := range rest {
				n += len(t)
			}
			add[0] += len(rest)
			add[1] += n
			add[2] += len(rest)
			if len(rest) > 0 {
				t := rest[0]
				if len(t) > 14 {
					t = t[:14]
				}
				c.Sample(map[string]interface{}{"concurrent_trace_prefix": t})
			}
			return
		}
		if cons < 0 && res.Violated == "" {
			c.Infra("trace validation gave no verdict: %s\n%s", res.Describe(), res.Tail)
			return
		}
		// locate the event the specification could not follow
		var flat []string
		var owner []int
		for ti, t := range rest {
			for _, l := range t {
				flat = append(flat, l)
				owner = append(owner, ti)
			}
		}
		idx := cons - 1 // line cons+1 of the file (1 = meta) is flat[cons-1]
		if res.Violated != "" || idx < 0 || idx >= len(flat) {
			violate("trace/invariant-"+res.Violated, "a recorded concurrent trace drives the specification into a state violating "+res.Violated,
				map[string]interface{}{"tlc": res.Describe(), "tail": res.Tail})
			return
		}
		notAccepted++
		ev := flat[idx]
		bad := owner[idx]
		tr := rest[bad]
		var e struct {
			E  string `json:"e"`
			T  int    `json:"t"`
			Ok bool   `json:"ok"`
			V  string `json:"v"`
		}
		json.Unmarshal([]byte(ev), &e)
		rec := map[string]interface{}{"event_not_accepted": ev, "trace": tr, "tx_table": defs}
		upTo := 0 // events of this trace up to the one not accepted
		for i := idx; i >= 0 && owner[i] == bad; i-- {
			upTo++
		}
		switch {
		case feeDefect && lowFeeDepositSeen(defs, tr[:upTo]):
			violate("rejected-tx-mutates-check-state/utxo-fee", "concurrent run: the specification cannot follow the trace after the state check of a low-fee account->confidential transaction (a direct probe shows that such a refusal moves the speculative nonce): "+ev, rec)
		case e.E == "add":
			from := upTo - 8
			if from < 0 {
				from = 0
			}
			c.Drift("concurrent run: AddTx event not accepted by the specification: %s after %s", ev, strings.Join(tr[from:upTo-1], " "))
		default:
			violate("trace/"+e.E, "concurrent run: the recorded "+e.E+" event is not what the specification computes: "+ev, rec)
		}
		// the traces before the failing one were accepted; go on with the ones after it
		n := 0
		for _, t := range rest[:bad] {
			n += len(t)
		}
		add[0] += bad
		add[1] += n
		add[2] += bad
		rest = rest[bad+1:]
		if attempt >= 2 || len(rest) == 0 {
			return
		}
		cons, lines, res = run(rest)
	}
}

func eventOf(l string) (e struct {
	E   string `json:"e"`
	T   int    `json:"t"`
	Ok  bool   `json:"ok"`
	G   int    `json:"g"`
	Res []int  `json:"res"`
}) {
	json.Unmarshal([]byte(l), &e)
	return
}

// corruptVerdict: the prefix of a trace up to an accepted add whose verdict is flipped.
func corruptVerdict(traces [][]string) []string {
	for _, t := range traces {
		for i, l := range t {
			if e := eventOf(l); e.E == "add" && e.Ok && i > 3 {
				out := append([]string{}, t[:i]...)
				return append(out, strings.Replace(l, `"ok":true`, `"ok":false`, 1))
			}
		}
	}
	return nil
}

// dropAcceptedAdd: a trace from which one add event that grew goodTxs was removed
// (what a missing hook call would produce).
func dropAcceptedAdd(traces [][]string) []string {
	for _, t := range traces {
		prevG := 0
		for i, l := range t {
			e := eventOf(l)
			if e.E == "add" && e.Ok && e.G == prevG+1 && i > 2 && i+6 < len(t) {
				out := append([]string{}, t[:i]...)
				return append(out, t[i+1:]...)
			}
			if e.E == "add" || e.E == "update" {
				prevG = e.G
			}
		}
	}
	return nil
}

// swapReap: the prefix of a trace up to a Reap with two results, which are swapped.
func swapReap(traces [][]string) []string {
	for _, t := range traces {
		for i, l := range t {
			if e := eventOf(l); e.E == "reap" && len(e.Res) >= 2 && e.Res[0] != e.Res[1] {
				res := append([]int{}, e.Res...)
				res[0], res[1] = res[1], res[0]
				a, _ := json.Marshal(e.Res)
				b, _ := json.Marshal(res)
				out := append([]string{}, t[:i]...)
				return append(out, strings.Replace(l, `"res":`+string(a), `"res":`+string(b), 1))
			}
		}
	}
	return nil
}

// replayRecord re-executes the action sequence of a violation record on the real code
// (without the model) and prints what the oracles say after every action.
func replayRecord(c *core.Ctx) {
	b, err := ioutil.ReadFile(c.Replay)
	if err != nil {
		c.Infra("replay: %v", err)
		return
	}
	var raw struct {
		Record json.RawMessage `json:"record"`
	}
	json.Unmarshal(b, &raw)
	var rf struct {
		Key    string `json:"key"`
		Record struct {
			Inst    inst     `json:"instantiation"`
			Actions []string `json:"actions"`
			Table   []txDef  `json:"tx_table"`
			Trace   []string `json:"trace"`
		} `json:"record"`
	}
	if err := json.Unmarshal(b, &rf); err != nil {
		c.Infra("replay: %v", err)
		return
	}
	if len(rf.Record.Actions) == 0 {
		fmt.Println("the record holds a concurrent trace; it is validated by Trace_Mempool.tla and cannot be re-executed deterministically")
		return
	}
	dir, _ := ioutil.TempDir("", "vc15r")
	defer os.RemoveAll(dir)
	ns, ncoins := 0, 0
	for _, d := range rf.Record.Table {
		if d.S > ns {
			ns = d.S
		}
		if d.Ki > ncoins {
			ncoins = d.Ki
		}
	}
	w := newWorld(rf.Record.Inst, rf.Record.Table, ns, ncoins, dir)
	var p *pair
	for _, as := range rf.Record.Actions {
		var a mAct
		json.Unmarshal([]byte(as), &a)
		fmt.Println("action", as)
		switch a.Op {
		case "boot":
			cb, err := w.base(a.Cfg.Bal)
			if err == nil {
				p, err = w.newPair(cb, a.Cfg.Size, a.Cfg.Fsize, a.Cfg.Usize)
			}
			if err != nil {
				c.Infra("replay boot: %v", err)
				return
			}
			defer p.close()
		case "add", "probe-add", "free-add":
			fmt.Println("  AddTx ->", classify(p.A.MP.AddTx("", p.b.txs[a.T-1])))
		case "reap":
			fmt.Println("  Reap ->", p.ids(p.A.MP.Reap(a.Max)))
		case "commit":
			if a.Src == "own" {
				ids, k, d := p.commitOwn(a.K, a.Exp)
				fmt.Println("  own block", ids, k, d)
			} else {
				var txs types.Txs
				for _, id := range a.Blk {
					txs = append(txs, p.b.txs[id-1])
				}
				fmt.Println("  foreign block", a.Blk, p.commitForeign(txs))
			}
		}
		if p == nil {
			continue
		}
		var use []int
		for i := range rf.Record.Table {
			use = append(use, i+1)
		}
		ob := p.observe(use)
		oj, _ := json.Marshal(ob)
		fmt.Println("  observed", string(oj))
		if k, d := p.offeredInvariants(ob.reapTxs); k != "" {
			fmt.Println("  PROPERTY offered/"+k+":", d)
			c.Violate(rf.Key, "replay: offered/"+k+": "+d, raw.Record)
		}
		if k, d, _ := p.offerExecutes(); k != "" {
			fmt.Println("  PROPERTY offered-not-executable/"+k+":", d)
			c.Violate(rf.Key, "replay: offered-not-executable/"+k+": "+d, raw.Record)
		}
	}
}
