package c20

// Part (B), frontier families: directed sweeps over the two places where the failure
// of a frame meets bookkeeping that is not undone by the journal entries of the
// frame's own operations. They complement the model instances EVMFramesFee /
// EVMFramesNat (exact comparison at the class boundaries) with DENSE budgets under the
// oracles that need no program semantics.
//
// fee-*     a frame runs out of gas ON an operation whose cost contains a transfer fee
//           (CALL with value, TRANSFERTOKEN of the native coin, SELFDESTRUCT of a
//           holder): gas budgets unit by unit around "cannot pay the operation without
//           its fee" / "can pay part of the fee" / "can pay all", with the frame as top
//           frame and as callee of every call kind. Oracle: left-over gas + the fees the
//           EVM declares refundable never exceed the gas supplied (checkGeneric).
// absent-*  one call of every kind to an address that is not in the state (1..9: the
//           precompiled contracts of this or a later rule set, and a plain address),
//           gas requests around what the native code needs, with and without value and
//           input. The program writes nothing itself and returns the flag of the call:
//           flag 0 (the frame failed) => the finalised state equals that of a twin on
//           which nothing ran, and the target is as absent as before.

import (
	"fmt"
	"math/big"
	"math/rand"
	"sort"

	"verifh/core"

	"github.com/lianxiangcloud/linkchain/libs/common"
)

var frontFresh = common.HexToAddress("0xf5f5f5f5f5f5f5f5f5f5f5f5f5f5f5f5f5f5f506")

func pushU64(v uint64) []byte { return pushBig(new(big.Int).SetUint64(v)) }

var pushAll = append([]byte{0x7f}, bytesOf(0xff, 32)...) // PUSH32 2^256-1

func bytesOf(b byte, n int) []byte {
	out := make([]byte, n)
	for i := range out {
		out[i] = b
	}
	return out
}

// callSnippet: CALL-family op with the given gas operand (nil = "all"), leaving the flag on the stack.
func callSnippet(op byte, gas []byte, to common.Address, value uint64, inSize, retSize byte) []byte {
	c := cat([]byte{0x60, retSize, 0x60, 0, 0x60, inSize, 0x60, 0})
	if op == opCALL || op == opCALLCODE {
		c = cat(c, pushU64(value))
	}
	c = cat(c, pushAddrB(to))
	if gas == nil {
		gas = pushAll
	}
	return cat(c, gas, []byte{op})
}

// returnTop: MSTORE(0, top of stack); RETURN(0, 32)
var returnTop = []byte{0x60, 0, 0x52, 0x60, 32, 0x60, 0, 0xf3}

type frontProg struct {
	family string // key part
	detail string
	code   []byte // at bRoot
	peer   []byte // at bPeer (may be nil)
	twin   bool
	target common.Address
}

// feeBudgets: gas budgets for a payer whose fee-carrying op costs about `plain` without
// its fee (gas request included): unit by unit around "cannot pay the op without the
// fee" and around "can pay all of it", the first units, a coarse grid, seeded values.
func feeBudgets(r *rand.Rand, plains []uint64, thorough bool) []uint64 {
	set := map[uint64]bool{}
	w := uint64(32)
	if thorough {
		w = 200
	}
	span := func(c uint64) {
		for g := c - w; g <= c+w; g++ {
			if g > 0 && g < 1<<40 {
				set[g] = true
			}
		}
	}
	for g := uint64(1); g <= 70; g++ {
		set[g] = true
	}
	const fee = 500000
	for _, p := range plains {
		span(p + w/2)
		span(p + fee + w/2)
	}
	step := uint64(12000)
	if thorough {
		step = 1000
	}
	for g := step; g <= 640000; g += step {
		set[g] = true
	}
	for i := 0; i < 30; i++ {
		set[1+uint64(r.Int63n(640000))] = true
	}
	for _, g := range []uint64{9000, 36000, 100000, 300000, 534000, 600000, 5000000} {
		set[g] = true
	}
	out := make([]uint64, 0, len(set))
	for g := range set {
		out = append(out, g)
	}
	sort.Slice(out, func(i, j int) bool { return out[i] < out[j] })
	return out
}

// frontierPrograms enumerates the frontier programs with their invocations.
func frontierPrograms(seed int64, thorough bool) []*bprog {
	r := rand.New(rand.NewSource(seed*7919 + 17))
	var out []*bprog
	add := func(fp frontProg, gas uint64) {
		p := &bprog{Gen: "frontier/" + fp.family + "/" + fp.detail, Mode: "call", Value: "0", Gas: gas, code: fp.code, Twin: fp.twin}
		if fp.peer != nil {
			p.extra = map[common.Address][]byte{bPeer: fp.peer}
		}
		if fp.twin {
			p.Target = fmt.Sprintf("%x", fp.target[:])
		}
		p.finish()
		out = append(out, p)
	}

	// ---- fee frontier --------------------------------------------------------------
	type payer struct {
		name  string
		code  []byte
		plain []uint64 // approximate cost of the fee-carrying op(s) without the fee
	}
	var payers []payer
	for _, to := range []struct {
		n string
		a common.Address
	}{{"existing", bBene}, {"fresh", frontFresh}} {
		base := uint64(9700)
		if to.a == frontFresh {
			base += 25000
		}
		for _, q := range []struct {
			n string
			g []byte
			v uint64
		}{{"0", pushU64(0), 0}, {"ffff", pushU64(0xffff), 0xffff}, {"50000", pushU64(50000), 50000}, {"ffffffff", pushU64(0xffffffff), 0}, {"all", nil, 0}} {
			payers = append(payers, payer{"call-" + to.n + "-req" + q.n, cat(callSnippet(opCALL, q.g, to.a, 1, 0, 0), []byte{opPOP, opSTOP}), []uint64{base + q.v}})
		}
	}
	payers = append(payers,
		payer{"xfer", cat(pushAddrB(bBene), []byte{0x60, 0}, pushU64(1), []byte{opTRANSFERTOKEN, opSTOP}), []uint64{9700}},
		payer{"xfer-fresh", cat(pushAddrB(frontFresh), []byte{0x60, 0}, pushU64(1), []byte{opTRANSFERTOKEN, opSTOP}), []uint64{9700, 34700}},
		payer{"selfdestruct", cat(pushAddrB(bBene), []byte{opSELFDESTRUCT}), []uint64{3}},
		// two fee-carrying ops in a row: the first is paid, the frame dies on the second
		payer{"xfer-then-call", cat(pushAddrB(bBene), []byte{0x60, 0}, pushU64(1), []byte{opTRANSFERTOKEN}, callSnippet(opCALL, pushU64(50000), bBene, 1, 0, 0), []byte{opPOP, opSTOP}),
			[]uint64{9700, 509700 + 9700 + 50000}},
	)
	positions := []struct {
		n  string
		op byte
	}{{"top", 0}, {"in-call", opCALL}, {"in-callcode", opCALLCODE}, {"in-delegate", opDELEGATECALL}, {"in-static", opSTATICCALL}}
	for _, py := range payers {
		budgets := feeBudgets(r, py.plain, thorough)
		for pi, pos := range positions {
			if !thorough && pi >= 2 && py.name != "xfer" && py.name != "call-existing-req50000" {
				continue
			}
			for gi, g := range budgets {
				if pos.op == 0 {
					add(frontProg{family: "fee-" + py.name, detail: pos.n, code: py.code}, g)
					continue
				}
				// the payer is the callee (gas request g); the caller carries on and stores a marker
				outer := cat(callSnippet(pos.op, pushU64(g), bPeer, 0, 0, 0), []byte{0x60, 1, 0x01, 0x60, 9, 0x55, opSTOP})
				top := uint64(10000000)
				if gi%3 == 0 {
					top = g + 30000 + g/63 // little more than the caller needs
				}
				add(frontProg{family: "fee-" + py.name, detail: pos.n, code: outer, peer: py.code}, top)
			}
		}
	}

	// ---- absent-target frontier ---------------------------------------------------------
	targets := []common.Address{frontFresh, bBene}
	for i := 1; i <= 9; i++ {
		targets = append(targets, common.BytesToAddress([]byte{byte(i)}))
	}
	gases := []uint64{0, 1, 2, 14, 15, 16, 17, 18, 59, 60, 61, 71, 72, 73, 599, 600, 601, 699, 700, 701, 719, 720, 721, 2299, 2300, 2999, 3000, 3001, 100000}
	for _, k := range []struct {
		n  string
		op byte
	}{{"call", opCALL}, {"callcode", opCALLCODE}, {"delegate", opDELEGATECALL}, {"static", opSTATICCALL}} {
		for _, t := range targets {
			tn := fmt.Sprintf("addr%d", t[19])
			if t == frontFresh {
				tn = "fresh"
			} else if t == bBene {
				tn = "existing"
			}
			for _, v := range []uint64{0, 1} {
				if v == 1 && k.op != opCALL && k.op != opCALLCODE {
					continue
				}
				for _, in := range []byte{0, 32} {
					for _, g := range gases {
						code := cat(callSnippet(k.op, pushU64(g), t, v, in, 0), returnTop)
						det := fmt.Sprintf("v%d-in%d-gas%d", v, in, g)
						fam := "absent-" + k.n + "-" + tn
						add(frontProg{family: fam, detail: "top-" + det, code: code, twin: true, target: t}, 1000000)
						if thorough || (g%2 == 1 && in == 0) {
							// the same one level down: the caller forwards the callee's flag
							outer := cat(callSnippet(opCALL, nil, bPeer, 0, 0, 32), []byte{opPOP, 0x60, 0, 0x51}, returnTop)
							add(frontProg{family: fam, detail: "nested-" + det, code: outer, peer: code, twin: true, target: t}, 1000000)
						}
					}
				}
			}
		}
	}
	return out
}

// checkTwin is the oracle of the absent-target family (see above). st is the state after the run.
func (p *bprog) checkTwin(r1 bRun, exist func(common.Address) bool) *mismatch {
	if !p.Twin || r1.o.err != nil || len(r1.o.ret) != 32 {
		return nil
	}
	if wordInt(r1.o.ret) != 0 {
		return nil // the call succeeded: whatever it did stays
	}
	st0, _, err := newState(p.accounts(), false)
	if err != nil {
		return &mismatch{"binding", err.Error()}
	}
	t := common.HexToAddress(p.Target)
	if before, after := st0.Exist(t), exist(t); before != after {
		return &mismatch{"atomic-call", fmt.Sprintf("the call to %x failed (flag 0, the caller carried on) but the account exists=%v afterwards (before: %v)", t[:], after, before)}
	}
	if d0 := takeDigest(st0); d0 != r1.dg {
		return &mismatch{"atomic-call", fmt.Sprintf("the only state-touching operation of the program, a call to %x, failed (flag 0) but the finalised state differs from a twin on which nothing ran: twin %v, after the run %v", t[:], d0, r1.dg)}
	}
	return nil
}

// partF distributes the frontier families over child processes.
func partF(c *core.Ctx, pl *pool) {
	n := len(frontierPrograms(c.Seed, c.Thorough()))
	// at most 2500 programs per child process (address-space limit of the children)
	workers := (n + 2499) / 2500
	for w := 0; w < workers; w++ {
		pl.submit(job{Part: "B", Front: true, Idx: 100 + w, N: (n + workers - 1) / workers, Deep: 16, Insts: workers}, c.MinutesT(5, 25))
	}
	c.SetExtra("partB_frontier_programs", n)
}
