package c20

// Assembler: turns an abstract program tree exported by the EVMFrames model into
// real EVM bytecode, one snippet per abstract op.
//
// Memory layout of every assembled frame: word 0 = return word, [0x20, 0x20+initSz)
// = init code handed to CREATE.  The prologue (PUSH2 frame number, POP, then a store
// to the last word) makes the code of every frame unique and expands the memory once
// per frame, so that every later snippet has a context-free cost.

import (
	"encoding/binary"
	"fmt"
	"math/big"

	"github.com/lianxiangcloud/linkchain/libs/common"
	"github.com/lianxiangcloud/linkchain/libs/crypto"
)

const (
	opSTOP          = 0x00
	opADD           = 0x01
	opISZERO        = 0x15
	opADDRESS       = 0x30
	opCODECOPY      = 0x39
	opEXTCODESIZE   = 0x3b
	opPOP           = 0x50
	opMSTORE        = 0x52
	opSSTORE        = 0x55
	opJUMP          = 0x56
	opJUMPDEST      = 0x5b
	opPUSH1         = 0x60
	opLOG1          = 0xa1
	opTRANSFERTOKEN = 0xe3
	opCREATE        = 0xf0
	opCALL          = 0xf1
	opCALLCODE      = 0xf2
	opRETURN        = 0xf3
	opDELEGATECALL  = 0xf4
	opSTATICCALL    = 0xfa
	opREVERT        = 0xfd
	opINVALID       = 0xfe
	opSELFDESTRUCT  = 0xff

	initSz  = 1504 // bytes of init code copied for every CREATE (zero padded)
	initOff = 0x20
	memTop  = initOff + initSz - 32 // the prologue stores at this offset: memory = 1536 bytes
)

// aop is one abstract op of an exported behaviour.
type aop struct {
	ID    int    `json:"id"`    // global number, in execution order (1..)
	Frame int    `json:"frame"` // id of the call/create op whose child frame executes it (0 = root)
	Op    string `json:"op"`
	Kind  string `json:"kind,omitempty"`
	V     int    `json:"v"`   // value in model units
	Req   int64  `json:"req"` // gas request; -1 = more than 64 bits ("all")
	CN    int    `json:"cn"`  // create: creator's nonce when the op executes
	Tg    int    `json:"tg"`  // call: 0 = the contract childAddr(ID) running a child frame; 1..4 = precompiled contract; 5 = fresh plain address
}

type opNode struct {
	aop
	child *frameNode
	// filled by the assembler
	start, mid, end int
}

type frameNode struct {
	id     int
	kind   string // call | callcode | delegate | static | create
	static bool   // executes under write protection
	ops    []*opNode
	code   []byte
	proEnd int // end of the prologue
	parent *frameNode
}

// names of the concrete accounts
type names struct {
	origin, bene, token, root common.Address
	unit                      *big.Int       // concrete amount of one model balance unit
	tunit                     *big.Int       // concrete amount of one model token unit
	fresh                     common.Address // the plain address that is not in the pre-state (native target 5)
}

const (
	nDyn    = 5 // native call targets of the model (accounts NAcc0+1 .. NAcc0+5)
	tgFresh = 5
)

// nativeAddr is the concrete address of native call target tg (1..4: the precompiled
// contracts of this tree, 5: the fresh plain address).
func (nm names) nativeAddr(tg int) common.Address {
	if tg == tgFresh {
		return nm.fresh
	}
	return common.BytesToAddress([]byte{byte(tg)})
}

// callTarget is the address a call op names.
func (nm names) callTarget(n *opNode) common.Address {
	if n.Tg != 0 {
		return nm.nativeAddr(n.Tg)
	}
	return childAddr(n.ID)
}

func childAddr(id int) common.Address {
	var a common.Address
	a[0], a[1] = 0xc2, 0x20
	binary.BigEndian.PutUint32(a[16:], uint32(id))
	return a
}

func defaultNames(inst int) names {
	n := names{
		origin: common.HexToAddress("0xa1a1a1a1a1a1a1a1a1a1a1a1a1a1a1a1a1a1a101"),
		bene:   common.HexToAddress("0xe1e1e1e1e1e1e1e1e1e1e1e1e1e1e1e1e1e1e102"),
		token:  common.HexToAddress("0x7070707070707070707070707070707070707003"),
		root:   common.HexToAddress("0xc1c1c1c1c1c1c1c1c1c1c1c1c1c1c1c1c1c1c104"),
	}
	// the fresh address: one that a later precompile set would claim (5, 9) or an arbitrary one
	switch inst % 3 {
	case 0:
		n.unit, n.tunit = big.NewInt(1), big.NewInt(1)
		n.fresh = common.BytesToAddress([]byte{5})
	case 1:
		n.unit, n.tunit = big.NewInt(1e18), big.NewInt(1e9)
		n.fresh = common.HexToAddress("0xf5f5f5f5f5f5f5f5f5f5f5f5f5f5f5f5f5f5f506")
	default:
		n.unit, n.tunit = big.NewInt(1e9), new(big.Int).Lsh(big.NewInt(1), 62)
		n.fresh = common.BytesToAddress([]byte{9})
	}
	return n
}

// buildTree reconstructs the program tree from the flat op list of a behaviour.
func buildTree(ops []aop, topKind string) (*frameNode, error) {
	root := &frameNode{id: 0, kind: topKind}
	frames := map[int]*frameNode{0: root}
	for i := range ops {
		o := ops[i]
		f := frames[o.Frame]
		if f == nil {
			return nil, fmt.Errorf("op %d refers to unknown frame %d", o.ID, o.Frame)
		}
		n := &opNode{aop: o}
		if (o.Op == "call" && o.Tg == 0) || o.Op == "create" {
			k := o.Kind
			if o.Op == "create" {
				k = "create"
			}
			n.child = &frameNode{id: o.ID, kind: k, static: f.static || k == "static", parent: f}
			frames[o.ID] = n.child
		}
		f.ops = append(f.ops, n)
	}
	return root, nil
}

type asmBuf struct{ b []byte }

func (a *asmBuf) op(o ...byte) { a.b = append(a.b, o...) }
func (a *asmBuf) push1(v byte) { a.b = append(a.b, opPUSH1, v) }
func (a *asmBuf) push2(v int)  { a.b = append(a.b, opPUSH1+1, byte(v>>8), byte(v)) }
func (a *asmBuf) pushN(n int, v *big.Int) {
	by := v.Bytes()
	if len(by) > n {
		panic("push overflow")
	}
	a.b = append(a.b, byte(opPUSH1+n-1))
	a.b = append(a.b, make([]byte, n-len(by))...)
	a.b = append(a.b, by...)
}
func (a *asmBuf) pushAddr(ad common.Address) {
	a.b = append(a.b, opPUSH1+19)
	a.b = append(a.b, ad[:]...)
}
func (a *asmBuf) pushGas(req int64) {
	if req < 0 {
		a.b = append(a.b, opPUSH1+31)
		for i := 0; i < 32; i++ {
			a.b = append(a.b, 0xff)
		}
		return
	}
	a.pushN(8, new(big.Int).SetInt64(req))
}

func amount(unit *big.Int, v int) *big.Int { return new(big.Int).Mul(unit, big.NewInt(int64(v))) }

// assemble produces the code of frame f (and, recursively, of all frames below it).
// Children of call-family ops are separate contracts (code in their frameNode);
// children of create ops are embedded in the data section of f.
func assemble(f *frameNode, nm names) error {
	type fix struct{ at, child int }
	var a asmBuf
	var fixes []fix
	// prologue: the frame number makes the code of every frame unique (two CREATEs of
	// the same creator and nonce - possible after a reverted CREATE - must not collide
	// on one address, the model gives every created contract its own account), then
	// the memory is set up
	a.push2(f.id)
	a.op(opPOP)
	a.push1(0)
	a.push2(memTop)
	a.op(opMSTORE)
	f.proEnd = len(a.b)
	for i, n := range f.ops {
		n.start = len(a.b)
		n.mid = -1
		switch n.Op {
		case "work":
			a.push1(1)
			a.push1(2)
			a.op(opADD, opPOP)
		case "sstore":
			a.push1(1)
			a.push2(n.ID)
			a.op(opSSTORE)
		case "log":
			a.push2(n.ID)
			a.push1(0)
			a.push1(0)
			a.op(opLOG1)
		case "xfer":
			a.pushAddr(nm.bene)
			a.push1(0)
			a.pushN(8, amount(nm.unit, 1))
			a.op(opTRANSFERTOKEN)
		case "tokxfer":
			a.pushAddr(nm.bene)
			a.pushAddr(nm.token)
			a.pushN(8, amount(nm.tunit, 1))
			a.op(opTRANSFERTOKEN)
		case "selfdestruct":
			a.pushAddr(nm.bene)
			a.op(opSELFDESTRUCT)
		case "return", "revert":
			a.push2(n.ID)
			a.push1(0)
			a.op(opMSTORE)
			a.push1(32)
			a.push1(0)
			if n.Op == "return" {
				a.op(opRETURN)
			} else {
				a.op(opREVERT)
			}
		case "stop":
			a.op(opSTOP)
		case "invalid":
			a.op(opINVALID)
		case "loop":
			// an infinite loop; the body is gas-heavy (EXTCODESIZE) so that even a large
			// budget is exhausted after a few thousand iterations
			pc := len(a.b)
			a.op(opJUMPDEST, opADDRESS, opEXTCODESIZE, opPOP)
			a.push2(pc)
			a.op(opJUMP)
		case "call":
			if n.child != nil {
				if err := assemble(n.child, nm); err != nil {
					return err
				}
			}
			a.push1(0)
			a.push1(0)
			a.push1(0)
			a.push1(0)
			var code byte
			switch n.Kind {
			case "call":
				code = opCALL
			case "callcode":
				code = opCALLCODE
			case "delegate":
				code = opDELEGATECALL
			case "static":
				code = opSTATICCALL
			default:
				return fmt.Errorf("op %d: unknown call kind %q", n.ID, n.Kind)
			}
			if code == opCALL || code == opCALLCODE {
				a.pushN(8, amount(nm.unit, n.V))
			}
			a.pushAddr(nm.callTarget(n))
			a.pushGas(n.Req)
			a.op(code)
			n.mid = len(a.b)
			if f.static {
				a.op(opPOP)
			} else {
				a.push1(1)
				a.op(opADD)
				a.push2(n.ID)
				a.op(opSSTORE)
			}
		case "create":
			if err := assemble(n.child, nm); err != nil {
				return err
			}
			a.push2(initSz)
			fixes = append(fixes, fix{len(a.b) + 1, i})
			a.push2(0)
			a.push1(initOff)
			a.op(opCODECOPY)
			a.push2(initSz)
			a.push1(initOff)
			a.pushN(8, amount(nm.unit, n.V))
			a.op(opCREATE)
			n.mid = len(a.b)
			if f.static {
				a.op(opPOP)
			} else {
				a.op(opISZERO, opISZERO)
				a.push1(1)
				a.op(opADD)
				a.push2(n.ID)
				a.op(opSSTORE)
			}
		default:
			return fmt.Errorf("op %d: unknown op %q", n.ID, n.Op)
		}
		n.end = len(a.b)
	}
	a.op(opSTOP)
	for _, fx := range fixes {
		ch := f.ops[fx.child].child
		off := len(a.b)
		a.b[fx.at], a.b[fx.at+1] = byte(off>>8), byte(off)
		a.b = append(a.b, ch.code...)
	}
	if len(a.b) > initSz {
		return fmt.Errorf("frame %d: code of %d bytes exceeds the init-code window", f.id, len(a.b))
	}
	f.code = a.b
	return nil
}

// initCodeOf returns the exact bytes the CREATE op n passes as init code. running is
// the code the creating frame really executes: its assembled code for a called
// contract, the init region it was itself created from for a create frame (which
// continues into whatever followed it in its creator's data section).
func initCodeOf(running []byte, n *opNode) []byte {
	off := int(running[n.start+4])<<8 | int(running[n.start+5])
	out := make([]byte, initSz)
	if off < len(running) {
		copy(out, running[off:])
	}
	return out
}

// createdAddr is the address evm.Create gives a contract (this tree hashes the init code in).
func createdAddr(creator common.Address, nonce uint64, init []byte) common.Address {
	return crypto.CreateAddress(creator, nonce, init)
}

// walk visits every op node of the tree in pre-order.
func walk(f *frameNode, fn func(f *frameNode, n *opNode)) {
	for _, n := range f.ops {
		fn(f, n)
		if n.child != nil {
			walk(n.child, fn)
		}
	}
}
