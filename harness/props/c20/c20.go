package c20

// C20 — contract execution is metered, atomic and crash-free for arbitrary programs.
//
// (A) model checking + replay: spec/EVMFrames/EVMFrames.tla is an abstract machine of
// EVM call frames over a StateDB-shaped world, with the real gas numbers of the
// harness' code snippets (calibrated on the code under test with a step tracer).
// TLC checks GasNeverGrows, FrameAtomic, ValueStaysWithCaller, Conservation on every
// behaviour of the bounded instance and exports each behaviour (program tree + gas
// parameters + result + final world). Every exported program is assembled to real
// bytecode, deployed into a real state.StateDB and run through vm/runtime; result,
// left-over gas (exactly), return data, balances, token balances, nonces, storage
// markers, logs, suicide marks, deployed code and the refund counter are compared with
// the model; the run is repeated from an identical state (and from a state re-opened
// from its committed root) and must agree bit for bit including the state root; a
// failed top-level frame must leave the state root unchanged.
// The model carries the transfer-fee lists of the EVM (fees / refundFees): what the
// invocation hands back is left-over gas + RefundFee() / RefundAllFee() as
// app/state_transition.go adds them to tx.Gas; that sum must not exceed the gas
// supplied and both figures are compared with the model (instance EVMFramesFee: budgets
// at the boundaries of every fee-carrying op). Call targets that are not in the state
// yet (precompiled contracts 1..4, a fresh plain address; instance EVMFramesNat) are
// part of the world: Exist / Empty of each and the set of account records written by
// finalising the transaction are compared with the model, so a failed frame that
// leaves the account it created behind is seen.
//
// (B) exploration: the assembled programs under byte mutations, directed hostile
// programs and seeded random byte strings run under the oracles that need no
// program semantics (no panic / fatal error, gas bound, determinism, unchanged state
// root when the top frame fails, caller balance, processor-time cap per invocation),
// and the frontier families of frontier.go (dense gas budgets around the fee
// boundaries; one call of every kind to every absent address 1..9 / fresh, whose
// failure must leave the finalised state equal to a twin on which nothing ran).

import (
	"encoding/json"
	"fmt"
	"io/ioutil"
	"os"
	"path/filepath"
	"runtime/debug"
	"sort"
	"strings"
	"sync"
	"syscall"
	"time"

	"verifh/core"
	"verifh/tlc"
)

func init() { core.Register("C20", run) }

type job struct {
	Part  string `json:"part"` // "A" | "B"
	File  string `json:"file"` // behaviours, one JSON document per line
	Lo    int    `json:"lo"`
	Hi    int    `json:"hi"`
	Idx   int    `json:"idx"`
	Deep  int    `json:"deep"`            // every Deep-th behaviour gets the extended comparison
	Insts int    `json:"insts"`           // instantiations per behaviour
	N     int    `json:"n"`               // part B: number of programs
	Skip  int    `json:"skip"`            // part B: programs already done by an earlier child of this job
	One   *bprog `json:"one,omitempty"`   // part B: run exactly this program (replay of a record)
	Dir   string `json:"dir,omitempty"`   // part W: scratch directory
	Front bool   `json:"front,omitempty"` // part B: the programs are the frontier families (frontier.go), shard Idx-100 of Insts
}

type jobResult struct {
	Behaviours int              `json:"behaviours"`
	Evals      int              `json:"evals"`
	Nontrivial int              `json:"nontrivial"`
	Violations []core.Violation `json:"violations"`
	Sample     interface{}      `json:"sample"`
	ByClass    map[string]int   `json:"by_class"`
	Done       int              `json:"done"`
	Infra      string           `json:"infra"`
}

func run(c *core.Ctx) {
	if c.Child != "" {
		var j job
		if err := json.Unmarshal([]byte(c.Child), &j); err != nil {
			fmt.Fprintln(os.Stderr, "bad job:", err)
			os.Exit(3)
		}
		// a program that makes the EVM allocate without bound must kill this job, not the machine
		lim := uint64(3) << 30
		syscall.Setrlimit(syscall.RLIMIT_AS, &syscall.Rlimit{Cur: lim, Max: lim})
		// every program gets a fresh StateDB with its caches: keep the collector ahead of that
		// garbage even when the machine is busy, far below the address-space limit
		debug.SetGCPercent(50)
		debug.SetMemoryLimit(1 << 30)
		if j.Part == "A" {
			childA(c, j)
		} else if j.Part == "W" {
			childW(c, j)
		} else {
			childB(c, j)
		}
		return
	}
	if c.Replay != "" {
		replayRecord(c)
		return
	}
	o := c.Out()
	o.Level = "model_checking"
	o.Rule = "behaviour = one (program tree, gas parameters) pair exported by TLC from EVMFrames, assembled to bytecode and run on the real EVM under one instantiation of the balance/token units (part A), or one mutated/random program run under the semantics-free oracles (part B); non-trivial = at least one call frame fails (A) / the program executes at least one instruction (B); distinct = distinct (program, gas, value, instantiation)"
	o.Assumptions = []string{
		"part A covers programs of the snippet alphabet within the model bounds (ops per frame, total ops, depth); part B is exploration, not exhaustive",
		"snippet gas costs are measured on the code under test (only their composition across frames is the model's)",
		"the call-depth limit (1024) is exercised by directed recursive programs in part B, not by the model replay",
		"EVM only (WASM is out of scope); the precompiled contracts are called without input in part A (their native gas is calibrated), with 0 / 32 bytes of input in the frontier families of part B",
		"the transfer fee is the minimum fee (500000 gas) in every instantiation of the balance unit: the fee amount as a function of the value is not the model's, only where it is recorded, popped, handed back",
		"termination is measured with a processor-time cap per invocation with gas <= 10^7, not decided",
	}
	o.Explanation = "part A (model checking): every behaviour of the bounded EVMFrames instances is checked by TLC and replayed on the real EVM with all observables compared; part B (exploration): mutated, directed and random programs under the semantics-free invariants - sampled, not exhaustive"
	o.Trusted = []string{"TLC", "the harness assembler and its calibration tracer", "libs/db MemDB and the trie under state.StateDB"}

	base, err := ioutil.TempDir("", "vc20")
	if err != nil {
		c.Infra("tempdir: %v", err)
		return
	}
	defer os.RemoveAll(base)

	pl := newPool(c)
	okA := partA(c, base, pl)
	if okA {
		partB(c, base, pl)
		partW(c, base)
	}
	pl.wait()
	pl.report()
}

// replayRecord re-executes the failing input of a violation record (vcheck C20 --replay file).
func replayRecord(c *core.Ctx) {
	b, err := ioutil.ReadFile(c.Replay)
	if err != nil {
		c.Infra("replay: %v", err)
		return
	}
	var rec struct {
		Key    string `json:"key"`
		Record struct {
			Behaviour     json.RawMessage `json:"behaviour"`
			Instantiation int             `json:"instantiation"`
			Program       *bprog          `json:"program"`
		} `json:"record"`
	}
	if err := json.Unmarshal(b, &rec); err != nil {
		c.Infra("replay: %v", err)
		return
	}
	switch {
	case len(rec.Record.Behaviour) > 0 && strings.HasPrefix(rec.Key, "A/"):
		bh, err := parseBehaviour(string(rec.Record.Behaviour))
		if err != nil {
			c.Infra("replay: %v", err)
			return
		}
		m, evals, err := replayOne(bh, rec.Record.Instantiation, true)
		c.AddTraces(1)
		c.AddEvals(evals)
		if err != nil {
			c.Infra("replay: %v", err)
		} else if m != nil {
			c.Violate("A/"+m.obs+"/"+bh.signature(), bh.compact()+": "+m.text, map[string]interface{}{"behaviour": rec.Record.Behaviour, "instantiation": rec.Record.Instantiation, "mismatch": m.text})
		}
	case rec.Record.Program != nil:
		// run in a child: the program may kill the process or exceed the processor-time cap
		pl := newPool(c)
		pl.submit(job{Part: "B", One: rec.Record.Program, N: 1, Deep: 1, Insts: 1}, 5*time.Minute)
		pl.wait()
	default:
		c.Infra("replay: the record holds neither a behaviour nor a program")
	}
}

// ---- part A -----------------------------------------------------------------------

func partA(c *core.Ctx, base string, pl *pool) bool {
	o := c.Out()
	var tab costs
	calibrated := true
	for i := 0; i < 3 && calibrated; i++ {
		t, err := calibrate(defaultNames(i))
		if err == nil && i > 0 && t != tab {
			err = fmt.Errorf("the table differs between instantiations: %+v vs %+v", tab, t)
		}
		if err != nil {
			// the measured figures do not add up: compute with the reference table and let
			// the replay show where the code deviates
			c.Drift("calibration inconsistent (%v); the model uses the reference cost table", err)
			calibrated = false
			break
		}
		tab = t
	}
	if !calibrated {
		tab = expectedCosts()
	}
	c.SetExtra("costs_calibrated_on_code_under_test", calibrated)
	c.SetExtra("calibrated_costs", tab)
	if exp := expectedCosts(); tab != exp {
		c.Drift("snippet costs differ from the reference table: measured %+v, reference %+v", tab, exp)
	}
	costsModule := map[string][]byte{"EVMCosts.tla": []byte(tab.module())}

	// The model instances run side by side. Their behaviours are spread over chunk files;
	// a replay job is started as soon as a chunk is complete. Every k-th behaviour also
	// goes to a sample file that seeds the mutations of part B and the negative control.
	// ...Fee: the transfer-fee lists around the boundaries of the fee-carrying ops;
	// ...Nat: call targets that are not in the state yet (precompiled contracts, fresh address)
	cfgs := []string{"EVMFrames.cfg", "EVMFramesTok.cfg", "EVMFramesFee.cfg", "EVMFramesNat.cfg"}
	if c.Thorough() {
		cfgs = []string{"EVMFramesBig.cfg", "EVMFramesGas.cfg", "EVMFramesTok.cfg", "EVMFramesFeeBig.cfg", "EVMFramesNatBig.cfg"}
	}
	chunk := c.Pick(2800, 30000)
	sampleEvery := c.Pick(8, 150)
	sample, err := os.Create(filepath.Join(base, "sample.ndjson"))
	if err != nil {
		c.Infra("create: %v", err)
		return false
	}
	var mu sync.Mutex
	perCfg := map[string]int{}
	ok := true
	fail := func(format string, a ...interface{}) {
		c.Infra(format, a...)
		mu.Lock()
		ok = false
		mu.Unlock()
	}
	var wg sync.WaitGroup
	for ci, cfg := range cfgs {
		wg.Add(1)
		go func(ci int, cfg string) {
			defer wg.Done()
			var fh *os.File
			var name string
			n, nfiles := 0, 0
			insts := c.Pick(1, 2) // instantiations per behaviour (the largest instance gets one, rotating)
			if cfg == "EVMFramesBig.cfg" {
				insts = 1
			}
			var werr error
			flush := func() {
				if fh != nil {
					fh.Close()
					fh = nil
					pl.submit(job{Part: "A", File: name, Lo: ci*1000003 + (nfiles-1)*chunk, Hi: 1 << 30, Idx: ci*1000 + nfiles - 1,
						Deep: c.Pick(5, 3), Insts: insts}, c.MinutesT(6, 25))
				}
			}
			// every exported line is a complete behaviour, so the big instances may use several
			// TLC workers (lines of different workers interleave, which does not matter)
			workers := 1
			if cfg == "EVMFramesBig.cfg" || cfg == "EVMFramesGas.cfg" || cfg == "EVMFramesFeeBig.cfg" || cfg == "EVMFramesNatBig.cfg" {
				workers = 3
			}
			res := c.TLC(tlc.Options{SpecDir: c.SpecDir("EVMFrames"), Module: "EVMFrames", Config: cfg, Workers: workers,
				Timeout: c.MinutesT(4, 18), Files: costsModule,
				OnLine: func(l string) {
					if n%chunk == 0 {
						flush()
						name = filepath.Join(base, fmt.Sprintf("behaviours-%d-%04d.ndjson", ci, nfiles))
						if fh, werr = os.Create(name); werr != nil {
							fh = nil
							return
						}
						nfiles++
					}
					if fh != nil {
						fh.WriteString(l)
						fh.WriteString("\n")
					}
					if n%sampleEvery == 0 {
						mu.Lock()
						sample.WriteString(l)
						sample.WriteString("\n")
						mu.Unlock()
					}
					n++
				}})
			flush()
			switch {
			case res == nil:
				mu.Lock()
				ok = false
				mu.Unlock()
			case res.Violated != "" || !res.Finished || res.TimedOut:
				fail("EVMFrames model (%s): %s\n%s", cfg, res.Describe(), res.Tail)
			case werr != nil:
				fail("writing behaviours: %v", werr)
			case n == 0:
				fail("the model instance %s exported no behaviours", cfg)
			}
			mu.Lock()
			perCfg[cfg] = n
			mu.Unlock()
		}(ci, cfg)
	}
	// the depth-limit instance is checked on the model only (the real limit is a constant 1024)
	wg.Add(1)
	go func() {
		defer wg.Done()
		r2 := c.TLC(tlc.Options{SpecDir: c.SpecDir("EVMFrames"), Module: "EVMFrames", Config: depthCfg(c), Workers: 1,
			Timeout: c.MinutesT(3, 10), Files: costsModule, OnLine: func(string) {}})
		if r2 == nil {
			mu.Lock()
			ok = false
			mu.Unlock()
		} else if r2.Violated != "" || !r2.Finished {
			fail("EVMFrames depth-limit instance: %s\n%s", r2.Describe(), r2.Tail)
		}
	}()
	wg.Wait()
	sample.Close()
	if !ok {
		return false
	}
	o.Exhaustive = true
	c.SetExtra("model_behaviours", perCfg)
	c.SetExtra("bounds", map[string]interface{}{"configs": cfgs, "depth_limit_instance": depthCfg(c)})

	// the binding is not vacuous: a behaviour with one corrupted expected value must be rejected
	return negativeControl(c, filepath.Join(base, "sample.ndjson"))
}

// pool runs jobs as child processes (at most 12 at a time) and folds their results into the outcome.
type pool struct {
	c       *core.Ctx
	wg      sync.WaitGroup
	mu      sync.Mutex
	sem     chan struct{}
	classes map[string]int // part A: failed frames replayed, by failure class
	gens    map[string]int // part B: programs by generator
}

func newPool(c *core.Ctx) *pool {
	return &pool{c: c, sem: make(chan struct{}, 12), classes: map[string]int{}, gens: map[string]int{}}
}

func (p *pool) wait() { p.wg.Wait() }

func (p *pool) report() {
	p.c.SetExtra("failed_frame_classes_replayed", p.classes)
	p.c.SetExtra("partB_programs_by_generator", p.gens)
}

func (p *pool) submit(j job, timeout time.Duration) {
	c := p.c
	o := c.Out()
	mu := &p.mu
	p.wg.Add(1)
	go func() {
		defer p.wg.Done()
		p.sem <- struct{}{}
		defer func() { <-p.sem }()
		oomAt := map[string]int{}
		for attempt := 0; attempt < 8; attempt++ {
			arg, _ := json.Marshal(j)
			results, at, crash := c.RunChild(string(arg), timeout)
			done := 0
			mu.Lock()
			for _, r := range results {
				var jr jobResult
				if json.Unmarshal([]byte(r), &jr) != nil {
					continue
				}
				o.Traces += jr.Behaviours
				o.Evaluations += jr.Evals
				o.Distinct += jr.Nontrivial
				done += jr.Done
				if jr.Sample != nil && len(o.Samples) < 4 && (j.Idx%3 == 0 || len(o.Samples) == 0) {
					o.Samples = append(o.Samples, jr.Sample)
				}
				for k, v := range jr.ByClass {
					if j.Part == "A" {
						p.classes[k] += v
					} else {
						p.gens[k] += v
					}
				}
				if jr.Infra != "" {
					mu.Unlock()
					c.Infra("job %s/%d: %s", j.Part, j.Idx, jr.Infra)
					mu.Lock()
				}
				for _, v := range jr.Violations {
					mu.Unlock()
					c.Violate(v.Key, v.Desc, v.Record)
					mu.Lock()
				}
			}
			mu.Unlock()
			if crash == "" {
				return
			}
			if crash == "TIMEOUT" {
				c.Infra("job %s/%d timed out at %s", j.Part, j.Idx, trunc(at, 300))
				return
			}
			if !strings.Contains(crash, "/repo/") && !strings.Contains(crash, "linkchain") && !strings.Contains(crash, "fatal error") {
				c.Infra("job %s/%d died outside the code under test: %s", j.Part, j.Idx, trunc(crash, 1500))
				return
			}
			if strings.Contains(crash, "out of memory") || strings.Contains(crash, "cannot allocate") {
				// a child that has run thousands of programs may hit its address-space limit on a
				// harmless one (seen on a busy machine): only a program that exhausts the memory
				// of a fresh child running nothing else counts
				if oomAt[at]++; oomAt[at] < 2 {
					continue // once more from the start of the job
				}
				if j.One == nil {
					var bp bprog
					if j.Part != "B" || json.Unmarshal([]byte(at), &bp) != nil || bp.Gen == "" {
						c.Infra("job %s/%d ran out of memory twice at %s", j.Part, j.Idx, trunc(at, 300))
						return
					}
					p.submit(job{Part: "B", One: &bp, N: 1, Deep: 1, Insts: 1}, 5*time.Minute)
					j.Skip += done + 1
					if j.Skip >= j.N {
						return
					}
					continue
				}
			}
			// the process running the EVM died: an unrecoverable failure of the code under test
			var rec map[string]interface{}
			json.Unmarshal([]byte(at), &rec)
			cls := "crash"
			if strings.Contains(crash, "stack overflow") {
				cls = "stack-overflow"
			} else if strings.Contains(crash, "out of memory") || strings.Contains(crash, "cannot allocate") {
				cls = "out-of-memory"
			} else if strings.Contains(crash, "cpu-time cap") {
				cls = "timeout"
			}
			gen := fmt.Sprint(rec["gen"])
			c.Violate(fmt.Sprintf("%s/%s/%s", j.Part, cls, gen), "the process executing the program died: "+trunc(crash, 400),
				map[string]interface{}{"program": rec, "crash": trunc(crash, 4000)})
			if j.Part != "B" || j.One != nil {
				return
			}
			// continue after the offending program
			j.Skip += done + 1
			if j.Skip >= j.N {
				return
			}
		}
	}()
}

func depthCfg(c *core.Ctx) string {
	if c.Thorough() {
		return "EVMFramesDepthBig.cfg"
	}
	return "EVMFramesDepth.cfg"
}

func trunc(s string, n int) string {
	if len(s) > n {
		return s[:n] + "..."
	}
	return s
}

func readLines(file string, lo, hi int) ([]string, error) {
	b, err := ioutil.ReadFile(file)
	if err != nil {
		return nil, err
	}
	lines := strings.Split(strings.TrimSpace(string(b)), "\n")
	if hi > len(lines) {
		hi = len(lines)
	}
	if lo > hi {
		lo = hi
	}
	return lines[lo:hi], nil
}

// childA replays the behaviours [Lo,Hi) of the file.
func childA(c *core.Ctx, j job) {
	lines, err := readLines(j.File, 0, j.Hi)
	if err != nil {
		fmt.Fprintln(os.Stderr, err)
		os.Exit(3)
	}
	res := jobResult{ByClass: map[string]int{}}
	seen := map[string]bool{}
	out := os.Stdout
	for i, l := range lines {
		b, err := parseBehaviour(l)
		if err != nil {
			res.Infra = "bad behaviour line: " + err.Error()
			break
		}
		at, _ := json.Marshal(map[string]interface{}{"gen": "model", "behaviour": b.compact()})
		fmt.Fprintf(out, "AT %s\n", at)
		sig := b.signature()
		nontrivial := sig != "no-failure"
		for k := 0; k < j.Insts; k++ {
			inst := (int(c.Seed) + j.Lo + i + k) % 3
			deep := (int(c.Seed)+j.Lo+i)%j.Deep == 0
			m, evals, err := replayOne(b, inst, deep)
			res.Evals += evals
			if err != nil {
				res.Infra = fmt.Sprintf("%s: %v", b.compact(), err)
				break
			}
			res.Behaviours++
			if nontrivial {
				res.Nontrivial++
			}
			if m != nil {
				key := "A/" + m.obs + "/" + sig
				if m.obs == "binding" {
					res.Infra = fmt.Sprintf("%s: %s", b.compact(), m.text)
					break
				}
				if !seen[key] && len(res.Violations) < 6 {
					seen[key] = true
					res.Violations = append(res.Violations, core.Violation{Key: key, Desc: fmt.Sprintf("%s: %s", b.compact(), m.text),
						Record: map[string]interface{}{"behaviour": json.RawMessage(l), "instantiation": inst, "mismatch": m.text, "program": programDump(b, inst)}})
				}
				break
			}
		}
		if res.Infra != "" {
			break
		}
		for _, f := range b.Frames {
			if !f.Ok {
				res.ByClass[f.Cls]++
			}
		}
		if res.Sample == nil && nontrivial && len(b.Ops) >= 3 {
			res.Sample = map[string]interface{}{"part": "A", "behaviour": b.compact(), "model_result": b.Result, "frames": b.Frames}
		}
	}
	rj, _ := json.Marshal(res)
	fmt.Fprintf(out, "RESULT %s\nDONE\n", rj)
}

// programDump renders the concrete bytecode of a behaviour for the replay record.
func programDump(b *behaviour, inst int) interface{} {
	p, err := newProgram(b, defaultNames(inst))
	if err != nil {
		return err.Error()
	}
	d := map[string]interface{}{"root": fmt.Sprintf("%x", p.root.code), "root_address": fmt.Sprintf("%x", p.rootAdr)}
	walk(p.root, func(f *frameNode, n *opNode) {
		if n.Op == "call" && n.child != nil {
			d[fmt.Sprintf("callee_%d_%x", n.ID, childAddr(n.ID))] = fmt.Sprintf("%x", n.child.code)
		}
	})
	return d
}

// negativeControl corrupts one expected value of a few behaviours and requires the replay to reject them.
func negativeControl(c *core.Ctx, file string) bool {
	lines, err := readLines(file, 0, 1<<30)
	if err != nil {
		c.Infra("negative control: %v", err)
		return false
	}
	tried, rejected := 0, 0
	kinds := map[string]bool{}
	for i := 0; i < len(lines) && tried < 60; i += 1 + len(lines)/97 {
		b, err := parseBehaviour(lines[i])
		if err != nil {
			continue
		}
		var kind string
		switch tried % 6 {
		case 4:
			b.Result.Refund++
			kind = "refunded transfer fees + 1"
		case 5:
			// toggle the existence of one call target that is absent from the pre-state
			a := len(b.World.Bal) - nDyn + 1 + tried%nDyn
			kept := b.World.Ex[:0:0]
			had := false
			for _, x := range b.World.Ex {
				if x == a {
					had = true
				} else {
					kept = append(kept, x)
				}
			}
			if !had {
				kept = append(kept, a)
			}
			b.World.Ex = kept
			kind = "existence of one absent call target flipped"
		case 0:
			b.Result.Left++
			kind = "left-over gas + 1"
		case 1:
			if len(b.World.St) == 0 {
				b.World.St = append(b.World.St, []int{3, 1, 1})
			} else {
				b.World.St = b.World.St[1:]
			}
			kind = "one storage marker"
		case 2:
			b.World.Bal[0], b.World.Bal[1] = b.World.Bal[0]+1, b.World.Bal[1]-1
			kind = "one balance unit moved"
		default:
			b.Result.Ok = !b.Result.Ok
			kind = "outcome flipped"
		}
		tried++
		if m, _, err := replayOne(b, i%3, false); err == nil && m != nil {
			rejected++
			kinds[kind] = true
		}
	}
	var ks []string
	for k := range kinds {
		ks = append(ks, k)
	}
	sort.Strings(ks)
	c.SetExtra("negative_control", map[string]interface{}{"corrupted_behaviours": tried, "rejected": rejected, "kinds": ks})
	if tried == 0 || rejected != tried {
		c.Infra("vacuous binding: only %d of %d corrupted behaviours were rejected by the replay", rejected, tried)
		return false
	}
	return true
}
