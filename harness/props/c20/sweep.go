package c20

// Part (B): arbitrary code. Programs = the model's assembled programs under
// spec-derived byte mutations, directed hostile programs, and seeded random byte
// strings; oracle = the invariants that need no program semantics.

import (
	"bytes"
	"crypto/sha256"
	"encoding/hex"
	"encoding/json"
	"fmt"
	"math/big"
	"math/rand"
	"os"
	"strings"
	"sync"
	"syscall"
	"time"

	"github.com/lianxiangcloud/linkchain/libs/common"
	"github.com/lianxiangcloud/linkchain/state"
	"github.com/lianxiangcloud/linkchain/types"

	"verifh/core"
)

// bprog is one part-B program together with its invocation.
type bprog struct {
	Gen    string            `json:"gen"`
	Mode   string            `json:"mode"` // call | create | tokencall
	Code   string            `json:"code"` // hex
	Extra  map[string]string `json:"extra,omitempty"`
	Input  string            `json:"input,omitempty"`
	Gas    uint64            `json:"gas"`
	Value  string            `json:"value"`               // "0" | "1" | ">balance"
	Cap    bool              `json:"cap"`                 // the processor-time cap applies (gas <= 10^7)
	Self   bool              `json:"selfcheck,omitempty"` // the program stores 1 at slot 0xbad when a failed value call changed its balance
	Twin   bool              `json:"twin,omitempty"`      // the program's only state-touching op is one call to Target whose flag it returns (frontier.go)
	Target string            `json:"target,omitempty"`    // hex address

	code  []byte
	extra map[common.Address][]byte
	input []byte
}

var (
	bOrigin = common.HexToAddress("0xa1a1a1a1a1a1a1a1a1a1a1a1a1a1a1a1a1a1a101")
	bBene   = common.HexToAddress("0xe1e1e1e1e1e1e1e1e1e1e1e1e1e1e1e1e1e1e102")
	bToken  = common.HexToAddress("0x7070707070707070707070707070707070707003")
	bRoot   = common.HexToAddress("0xc1c1c1c1c1c1c1c1c1c1c1c1c1c1c1c1c1c1c104")
	bPeer   = common.HexToAddress("0xc1c1c1c1c1c1c1c1c1c1c1c1c1c1c1c1c1c1c105")
	// helper contracts present in every part-B pre-state
	bWriter    = common.HexToAddress("0xd0d0d0d0d0d0d0d0d0d0d0d0d0d0d0d0d0d0d001") // SSTORE(1,1); LOG0; STOP
	bReverter  = common.HexToAddress("0xd0d0d0d0d0d0d0d0d0d0d0d0d0d0d0d0d0d0d002") // SSTORE(1,1); REVERT
	bSuicider  = common.HexToAddress("0xd0d0d0d0d0d0d0d0d0d0d0d0d0d0d0d0d0d0d003") // SELFDESTRUCT(caller)
	bOriginBal = big.NewInt(1000)
)

const gasCapLimit = 10000000

func (p *bprog) accounts() []account {
	ac := []account{
		{addr: bOrigin, bal: bOriginBal, tok: map[common.Address]*big.Int{bToken: big.NewInt(1000)}},
		{addr: bBene, bal: big.NewInt(1)},
		{addr: bWriter, code: []byte{0x60, 1, 0x60, 1, 0x55, 0x60, 0, 0x60, 0, 0xa0, 0x00}},
		{addr: bReverter, code: []byte{0x60, 1, 0x60, 1, 0x55, 0x60, 0, 0x60, 0, 0xfd}},
		{addr: bSuicider, bal: big.NewInt(3), code: []byte{0x33, 0xff}},
	}
	if p.Mode != "create" {
		ac = append(ac, account{addr: bRoot, code: p.code, bal: big.NewInt(5), tok: map[common.Address]*big.Int{bToken: big.NewInt(5)},
			store: map[common.Hash][]byte{slotHash(7): {7}}})
	}
	for a, c := range p.extra {
		ac = append(ac, account{addr: a, code: c, bal: big.NewInt(2)})
	}
	return ac
}

func (p *bprog) spec() callSpec {
	cs := callSpec{mode: p.Mode, to: bRoot, gas: p.Gas, origin: bOrigin, input: p.input, token: bToken}
	switch p.Value {
	case "0":
		cs.value = new(big.Int)
	case "1":
		cs.value = big.NewInt(1)
	default:
		cs.value = new(big.Int).Add(bOriginBal, big.NewInt(1))
	}
	if p.Mode == "create" {
		cs.code = p.code
	}
	return cs
}

// decode restores the byte fields of a program read back from a violation record.
func (p *bprog) decode() error {
	var err error
	if p.code, err = hex.DecodeString(p.Code); err != nil {
		return err
	}
	if p.input, err = hex.DecodeString(p.Input); err != nil {
		return err
	}
	p.extra = map[common.Address][]byte{}
	for a, c := range p.Extra {
		ab, err := hex.DecodeString(a)
		if err != nil {
			return err
		}
		if p.extra[common.BytesToAddress(ab)], err = hex.DecodeString(c); err != nil {
			return err
		}
	}
	return nil
}

func (p *bprog) finish() {
	p.Code = fmt.Sprintf("%x", p.code)
	p.Input = fmt.Sprintf("%x", p.input)
	if len(p.extra) > 0 {
		p.Extra = map[string]string{}
		for a, c := range p.extra {
			p.Extra[fmt.Sprintf("%x", a[:])] = fmt.Sprintf("%x", c)
		}
	}
	p.Cap = p.Gas <= gasCapLimit
}

// ---- generators ---------------------------------------------------------------

var gasMenu = []uint64{1, 100, 2300, 21000, 60000, 1000000, 10000000}
var valueMenu = []string{"0", "0", "1", ">balance"}

func pickInvocation(r *rand.Rand, p *bprog) {
	p.Gas = gasMenu[r.Intn(len(gasMenu))]
	if r.Intn(4) == 0 {
		p.Gas = uint64(1 + r.Intn(700000))
	}
	p.Value = valueMenu[r.Intn(len(valueMenu))]
	switch r.Intn(8) {
	case 0:
		p.Mode = "create"
	case 1:
		p.Mode = "tokencall"
	default:
		p.Mode = "call"
	}
}

var undefinedOps = []byte{0x0c, 0x0d, 0x0e, 0x0f, 0x1e, 0x1f, 0x21, 0x2f, 0x46, 0x4f, 0x5c, 0x5f, 0xa5, 0xaf, 0xb0, 0xc0, 0xdf, 0xe5, 0xef, 0xf6, 0xf9, 0xfb, 0xfc, 0xfe}

var interesting = []*big.Int{
	big.NewInt(0), big.NewInt(1), big.NewInt(31), big.NewInt(32), big.NewInt(33), big.NewInt(1024), big.NewInt(0xffff), big.NewInt(0x10000),
	big.NewInt(1 << 20), big.NewInt(1 << 31), big.NewInt(1 << 32), big.NewInt(0xffffffffe0), big.NewInt(0xffffffffe1),
	new(big.Int).SetUint64(1 << 63), new(big.Int).SetUint64(^uint64(0)), new(big.Int).Lsh(big.NewInt(1), 64),
	new(big.Int).Lsh(big.NewInt(1), 255), new(big.Int).Sub(new(big.Int).Lsh(big.NewInt(1), 256), big.NewInt(1)),
}

func pushBig(v *big.Int) []byte {
	b := v.Bytes()
	if len(b) == 0 {
		b = []byte{0}
	}
	return append([]byte{byte(opPUSH1 + len(b) - 1)}, b...)
}

// opcode starts of a code string (skipping push data)
func opStarts(code []byte) []int {
	var s []int
	for i := 0; i < len(code); i++ {
		s = append(s, i)
		if c := code[i]; c >= 0x60 && c <= 0x7f {
			i += int(c) - 0x5f
		}
	}
	return s
}

// mutate applies one spec-derived mutation to code; self is the address the code runs at.
func mutate(r *rand.Rand, code []byte, self common.Address) (string, []byte) {
	code = append([]byte{}, code...)
	starts := opStarts(code)
	kinds := []string{"trunc", "trunc-push", "invalid-op", "jump-into-push", "huge-mem", "huge-gas", "self-call", "byte-flip", "op-swap", "stack-strip"}
	k := kinds[r.Intn(len(kinds))]
	switch k {
	case "trunc":
		return k, code[:r.Intn(len(code)+1)]
	case "trunc-push":
		// cut in the middle of the data of a PUSH
		var cand []int
		for _, s := range starts {
			if c := code[s]; c >= 0x61 && c <= 0x7f {
				cand = append(cand, s)
			}
		}
		if len(cand) == 0 {
			return k, code[:len(code)/2]
		}
		s := cand[r.Intn(len(cand))]
		return k, code[:s+1+r.Intn(int(code[s])-0x5f)]
	case "invalid-op":
		s := starts[r.Intn(len(starts))]
		code[s] = undefinedOps[r.Intn(len(undefinedOps))]
		return k, code
	case "jump-into-push":
		// PUSH2 <pc of a 0x5b inside push data>; JUMP(I) ... PUSH1 0x5b
		s := starts[r.Intn(len(starts))]
		jop := byte(opJUMP)
		pre := []byte{}
		if r.Intn(2) == 0 {
			jop = 0x57 // JUMPI
			pre = []byte{0x60, 1}
		}
		ins := append(pre, 0x61, 0, 0, jop, 0x60, 0x5b)
		out := append(append(append([]byte{}, code[:s]...), ins...), code[s:]...)
		target := s + len(ins) - 1
		out[s+len(pre)+1], out[s+len(pre)+2] = byte(target>>8), byte(target)
		return k, out
	case "huge-mem":
		// replace a PUSH1 operand-setting instruction by a huge constant (offsets, sizes)
		var cand []int
		for _, s := range starts {
			if code[s] == 0x60 || code[s] == 0x61 {
				cand = append(cand, s)
			}
		}
		if len(cand) == 0 {
			return k, code
		}
		s := cand[r.Intn(len(cand))]
		n := int(code[s]) - 0x5f
		v := interesting[8+r.Intn(len(interesting)-8)]
		out := append(append(append([]byte{}, code[:s]...), pushBig(v)...), code[s+1+n:]...)
		return k, out
	case "huge-gas":
		var cand []int
		for _, s := range starts {
			if code[s] == 0x67 || code[s] == 0x7f {
				cand = append(cand, s)
			}
		}
		if len(cand) == 0 {
			return k, code
		}
		s := cand[r.Intn(len(cand))]
		n := int(code[s]) - 0x5f
		v := []*big.Int{new(big.Int).SetUint64(^uint64(0)), new(big.Int).SetUint64(1 << 63), new(big.Int).Lsh(big.NewInt(1), 64), new(big.Int).Sub(new(big.Int).Lsh(big.NewInt(1), 256), big.NewInt(1))}[r.Intn(4)]
		return k, append(append(append([]byte{}, code[:s]...), pushBig(v)...), code[s+1+n:]...)
	case "self-call":
		// every call target becomes the running contract itself: unbounded self-recursion
		n := 0
		for _, s := range starts {
			if code[s] == 0x73 && s+21 <= len(code) && code[s+1] == 0xc2 {
				copy(code[s+1:s+21], self[:])
				n++
			}
		}
		if n == 0 {
			// no call in this program: prepend a self-call with all gas
			pre := []byte{0x60, 0, 0x60, 0, 0x60, 0, 0x60, 0, 0x60, 0, 0x30, 0x5a, 0xf1, 0x50}
			code = append(pre, code...)
		}
		return k, code
	case "byte-flip":
		for i := 0; i < 1+r.Intn(3); i++ {
			code[r.Intn(len(code))] = byte(r.Intn(256))
		}
		return k, code
	case "op-swap":
		s := starts[r.Intn(len(starts))]
		code[s] = validOps[r.Intn(len(validOps))]
		return k, code
	default: // stack-strip: drop one instruction so that the following ops find a short stack
		s := starts[r.Intn(len(starts))]
		n := 1
		if c := code[s]; c >= 0x60 && c <= 0x7f {
			n += int(c) - 0x5f
		}
		if s+n > len(code) {
			n = len(code) - s
		}
		return k, append(append([]byte{}, code[:s]...), code[s+n:]...)
	}
}

var validOps = func() []byte {
	var v []byte
	add := func(lo, hi int) {
		for i := lo; i <= hi; i++ {
			v = append(v, byte(i))
		}
	}
	add(0x00, 0x0b)
	add(0x10, 0x1d)
	add(0x20, 0x20)
	add(0x30, 0x45)
	add(0x50, 0x5b)
	add(0x60, 0xa4)
	add(0xe0, 0xe4)
	add(0xf0, 0xf5)
	v = append(v, 0xfa, 0xfd, 0xfe, 0xff)
	return v
}()

// addresses random programs may name
var knownAddrs = []common.Address{bRoot, bPeer, bWriter, bReverter, bSuicider, bBene, bOrigin, bToken,
	common.BytesToAddress([]byte{1}), common.BytesToAddress([]byte{2}), common.BytesToAddress([]byte{3}), common.BytesToAddress([]byte{4}),
	common.BytesToAddress([]byte{5}), common.BytesToAddress([]byte{6}), common.BytesToAddress([]byte{7}), common.BytesToAddress([]byte{8}),
	common.BytesToAddress([]byte{9}), {}}

func randomCode(r *rand.Rand) (string, []byte) {
	n := 1 + r.Intn(200)
	switch r.Intn(3) {
	case 0:
		b := make([]byte, n)
		r.Read(b)
		return "rand-bytes", b
	case 1:
		var b []byte
		for len(b) < n {
			op := validOps[r.Intn(len(validOps))]
			b = append(b, op)
			if op >= 0x60 && op <= 0x7f {
				d := make([]byte, int(op)-0x5f)
				r.Read(d)
				if r.Intn(2) == 0 {
					for i := range d[:len(d)-1] {
						d[i] = 0
					}
				}
				b = append(b, d...)
			}
		}
		return "rand-opcodes", b
	default:
		// structured: enough pushes of interesting constants before each op that the stack rarely underflows
		var b []byte
		for len(b) < n {
			for i := 0; i < r.Intn(8); i++ {
				switch r.Intn(5) {
				case 0:
					a := knownAddrs[r.Intn(len(knownAddrs))]
					b = append(b, 0x73)
					b = append(b, a[:]...)
				case 1:
					b = append(b, 0x5a) // GAS
				default:
					b = append(b, pushBig(interesting[r.Intn(len(interesting))])...)
				}
			}
			b = append(b, validOps[r.Intn(len(validOps))])
		}
		return "rand-structured", b
	}
}

// ---- directed hostile programs ----------------------------------------------------

type directed struct {
	name  string
	code  []byte
	peer  []byte // code at bPeer
	input []byte
	gas   []uint64
	value string
	mode  string
}

func cat(parts ...[]byte) []byte { return bytes.Join(parts, nil) }

func pushAddrB(a common.Address) []byte { return append([]byte{0x73}, a[:]...) }

func directedPrograms() []directed {
	max256 := interesting[len(interesting)-1]
	p := pushBig
	var ds []directed
	add := func(name string, code []byte, gas ...uint64) {
		if len(gas) == 0 {
			gas = []uint64{21000, 1000000, 10000000}
		}
		ds = append(ds, directed{name: name, code: code, gas: gas, value: "0", mode: "call"})
	}
	// memory bombs: every op with a memory operand, huge offsets and sizes
	for _, v := range interesting[7:] {
		tag := fmt.Sprintf("%x", v)
		if len(tag) > 10 {
			tag = fmt.Sprintf("2^%d", v.BitLen()-1)
			if v.Cmp(max256) == 0 {
				tag = "2^256-1"
			}
		}
		add("mstore@"+tag, cat(p(big.NewInt(1)), p(v), []byte{0x52, 0x00}))
		add("mstore8@"+tag, cat(p(big.NewInt(1)), p(v), []byte{0x53, 0x00}))
		add("mload@"+tag, cat(p(v), []byte{0x51, 0x00}))
		add("sha3-size-"+tag, cat(p(v), p(big.NewInt(0)), []byte{0x20, 0x00}))
		add("sha3-off-"+tag, cat(p(big.NewInt(1)), p(v), []byte{0x20, 0x00}))
		add("calldatacopy-len-"+tag, cat(p(v), p(big.NewInt(0)), p(big.NewInt(0)), []byte{0x37, 0x00}))
		add("calldatacopy-src-"+tag, cat(p(big.NewInt(32)), p(v), p(big.NewInt(0)), []byte{0x37, 0x00}))
		add("codecopy-len-"+tag, cat(p(v), p(big.NewInt(0)), p(big.NewInt(0)), []byte{0x39, 0x00}))
		add("codecopy-dst-"+tag, cat(p(big.NewInt(1)), p(big.NewInt(0)), p(v), []byte{0x39, 0x00}))
		add("extcodecopy-len-"+tag, cat(p(v), p(big.NewInt(0)), p(big.NewInt(0)), pushAddrB(bWriter), []byte{0x3c, 0x00}))
		add("returndatacopy-len-"+tag, cat(p(v), p(big.NewInt(0)), p(big.NewInt(0)), []byte{0x3e, 0x00}))
		add("log-size-"+tag, cat(p(v), p(big.NewInt(0)), []byte{0xa0, 0x00}))
		add("log-off-"+tag, cat(p(big.NewInt(1)), p(v), []byte{0xa0, 0x00}))
		add("return-size-"+tag, cat(p(v), p(big.NewInt(0)), []byte{0xf3}))
		add("revert-off-"+tag, cat(p(big.NewInt(1)), p(v), []byte{0xfd}))
		add("create-size-"+tag, cat(p(v), p(big.NewInt(0)), p(big.NewInt(0)), []byte{0xf0, 0x00}))
		add("create2-size-"+tag, cat(p(big.NewInt(0)), p(v), p(big.NewInt(0)), p(big.NewInt(0)), []byte{0xf5, 0x00}))
		add("call-insize-"+tag, cat(p(big.NewInt(0)), p(big.NewInt(0)), p(v), p(big.NewInt(0)), p(big.NewInt(0)), pushAddrB(bWriter), []byte{0x5a, 0xf1, 0x00}))
		add("call-outsize-"+tag, cat(p(v), p(big.NewInt(0)), p(big.NewInt(0)), p(big.NewInt(0)), p(big.NewInt(0)), pushAddrB(bWriter), []byte{0x5a, 0xf1, 0x00}))
		add("staticcall-outoff-"+tag, cat(p(big.NewInt(1)), p(v), p(big.NewInt(0)), p(big.NewInt(0)), pushAddrB(bWriter), []byte{0x5a, 0xfa, 0x00}))
		add("jump-"+tag, cat(p(v), []byte{0x56, 0x5b, 0x00}))
		add("jumpi-"+tag, cat(p(big.NewInt(1)), p(v), []byte{0x57, 0x5b, 0x00}))
		add("exp-"+tag, cat(p(v), p(v), []byte{0x0a, 0x00}))
		add("blockhash-"+tag, cat(p(v), []byte{0x40, 0x00}))
		add("calldataload-"+tag, cat(p(v), []byte{0x35, 0x00}))
		add("transfertoken-"+tag, cat(pushAddrB(bBene), pushAddrB(bToken), p(v), []byte{0xe3, 0x00}))
		add("transfertoken-lk-"+tag, cat(pushAddrB(bBene), p(big.NewInt(0)), p(v), []byte{0xe3, 0x00}))
		add("issue-"+tag, cat(p(v), []byte{0xe0, 0x00}))
		add("call-value-"+tag, cat(p(big.NewInt(0)), p(big.NewInt(0)), p(big.NewInt(0)), p(big.NewInt(0)), p(v), pushAddrB(bWriter), []byte{0x5a, 0xf1, 0x00}))
	}
	// offset + length arithmetic: pairs whose sum wraps 64 (or 256) bits, for every operand pair that is
	// added before it is bounds-checked. Return data is made non-empty first (identity precompile).
	u64 := new(big.Int).SetUint64(^uint64(0))
	retData := cat(p(big.NewInt(32)), p(big.NewInt(0)), p(big.NewInt(32)), p(big.NewInt(0)), p(big.NewInt(0)), p(big.NewInt(4)), []byte{0x5a, 0xf1, 0x50})
	for _, pr := range [][2]*big.Int{
		{u64, big.NewInt(1)}, {u64, big.NewInt(2)}, {new(big.Int).Sub(u64, big.NewInt(15)), big.NewInt(32)}, {new(big.Int).Sub(u64, big.NewInt(31)), big.NewInt(32)},
		{new(big.Int).SetUint64(1 << 63), new(big.Int).SetUint64(1 << 63)}, {u64, u64}, {max256, big.NewInt(1)}, {max256, big.NewInt(2)}, {max256, max256},
		{big.NewInt(1), u64}, {big.NewInt(31), big.NewInt(2)}, {big.NewInt(32), big.NewInt(1)},
	} {
		off, ln := pr[0], pr[1]
		tag := fmt.Sprintf("%d-bit+%d-bit", off.BitLen(), ln.BitLen())
		if off.BitLen() <= 8 {
			tag = fmt.Sprintf("%v+%v", off, ln)
		} else if ln.BitLen() <= 8 {
			tag = fmt.Sprintf("2^%d-%v+%v", off.BitLen(), new(big.Int).Sub(new(big.Int).Lsh(big.NewInt(1), uint(off.BitLen())), off), ln)
		}
		add("wrap/returndatacopy-src-"+tag, cat(retData, p(ln), p(off), p(big.NewInt(0)), []byte{0x3e, 0x00}))
		add("wrap/returndatacopy-dst-"+tag, cat(retData, p(ln), p(big.NewInt(0)), p(off), []byte{0x3e, 0x00}))
		add("wrap/calldatacopy-src-"+tag, cat(p(ln), p(off), p(big.NewInt(0)), []byte{0x37, 0x00}))
		add("wrap/calldatacopy-dst-"+tag, cat(p(ln), p(big.NewInt(0)), p(off), []byte{0x37, 0x00}))
		add("wrap/codecopy-src-"+tag, cat(p(ln), p(off), p(big.NewInt(0)), []byte{0x39, 0x00}))
		add("wrap/extcodecopy-src-"+tag, cat(p(ln), p(off), p(big.NewInt(0)), pushAddrB(bWriter), []byte{0x3c, 0x00}))
		add("wrap/sha3-"+tag, cat(p(ln), p(off), []byte{0x20, 0x00}))
		add("wrap/log0-"+tag, cat(p(ln), p(off), []byte{0xa0, 0x00}))
		add("wrap/return-"+tag, cat(p(ln), p(off), []byte{0xf3}))
		add("wrap/revert-"+tag, cat(p(ln), p(off), []byte{0xfd}))
		add("wrap/create-"+tag, cat(p(ln), p(off), p(big.NewInt(0)), []byte{0xf0, 0x00}))
		add("wrap/call-in-"+tag, cat(p(big.NewInt(0)), p(big.NewInt(0)), p(ln), p(off), p(big.NewInt(0)), pushAddrB(bWriter), []byte{0x5a, 0xf1, 0x00}))
		add("wrap/call-out-"+tag, cat(p(ln), p(off), p(big.NewInt(0)), p(big.NewInt(0)), p(big.NewInt(0)), pushAddrB(bWriter), []byte{0x5a, 0xf1, 0x00}))
		add("wrap/calldataload-"+tag, cat(p(off), []byte{0x35, 0x00}))
	}
	// stack limits
	add("stack-1025", append(bytes.Repeat([]byte{0x60, 1}, 1025), 0x00))
	add("stack-1024-dup", append(append(bytes.Repeat([]byte{0x60, 1}, 1024), 0x80), 0x00))
	add("stack-underflow-all", []byte{0x01, 0x00})
	// loops that only gas stops
	add("loop-jumpdest", []byte{0x5b, 0x60, 0, 0x56})
	add("loop-mem-grow", []byte{0x5b, 0x59, 0x51, 0x50, 0x60, 0, 0x56}) // JUMPDEST MSIZE MLOAD POP PUSH1 0 JUMP
	add("loop-sstore", []byte{0x5b, 0x5a, 0x5a, 0x55, 0x60, 0, 0x56})   // SSTORE(GAS, GAS)
	add("loop-log", []byte{0x5b, 0x60, 32, 0x60, 0, 0xa0, 0x60, 0, 0x56})
	add("loop-create", cat([]byte{0x5b}, p(big.NewInt(0)), p(big.NewInt(0)), p(big.NewInt(0)), []byte{0xf0, 0x50, 0x60, 0, 0x56}))
	add("loop-sha3-big", cat([]byte{0x5b}, p(big.NewInt(1<<16)), p(big.NewInt(0)), []byte{0x20, 0x50, 0x60, 0, 0x56}))
	add("loop-exp", cat([]byte{0x5b}, p(max256), p(max256), []byte{0x0a, 0x50, 0x60, 0, 0x56}))
	add("loop-balance", []byte{0x5b, 0x30, 0x31, 0x50, 0x60, 0, 0x56})
	// recursion: self-call with all gas, every flavour; the callee sees calldata size 0 as well
	for _, f := range []struct {
		n  string
		op byte
		v  bool
	}{{"call", 0xf1, true}, {"callcode", 0xf2, true}, {"delegatecall", 0xf4, false}, {"staticcall", 0xfa, false}} {
		c := cat(p(big.NewInt(0)), p(big.NewInt(0)), p(big.NewInt(0)), p(big.NewInt(0)))
		if f.v {
			c = cat(c, p(big.NewInt(0)))
		}
		c = cat(c, []byte{0x30, 0x5a, f.op, 0x00})
		add("recurse-"+f.n, c, 1000000, 10000000, 1000000000000)
		// write before recursing, fail after: every level must be undone
		c2 := cat([]byte{0x5a, 0x5a, 0x55}, c[:len(c)-1], []byte{0xfe})
		if f.n != "staticcall" {
			add("recurse-write-fail-"+f.n, c2, 1000000, 10000000, 1000000000000)
		}
	}
	// CREATE of a copy of the running code (create bomb), with value
	add("recurse-create", cat([]byte{0x38, 0x60, 0, 0x60, 0, 0x39, 0x38, 0x60, 0, 0x60, 0, 0xf0, 0x00}), 1000000, 10000000)
	add("recurse-create2", cat([]byte{0x38, 0x60, 0, 0x60, 0, 0x39, 0x60, 7, 0x38, 0x60, 0, 0x60, 0, 0xf5, 0x60, 7, 0x38, 0x60, 0, 0x60, 0, 0xf5, 0x00}), 1000000, 10000000)
	// selfdestruct corner cases
	add("selfdestruct-self", []byte{0x30, 0xff})
	add("selfdestruct-precompile", []byte{0x60, 3, 0xff})
	add("selfdestruct-then-called", cat(p(big.NewInt(0)), p(big.NewInt(0)), p(big.NewInt(0)), p(big.NewInt(0)), p(big.NewInt(1)), pushAddrB(bSuicider), []byte{0x5a, 0xf1},
		p(big.NewInt(0)), p(big.NewInt(0)), p(big.NewInt(0)), p(big.NewInt(0)), p(big.NewInt(1)), pushAddrB(bSuicider), []byte{0x5a, 0xf1, 0xfe}))
	// refund counter: clear a pre-set slot, then fail / succeed
	add("sstore-clear-then-invalid", []byte{0x60, 0, 0x60, 7, 0x55, 0xfe})
	add("sstore-clear", []byte{0x60, 0, 0x60, 7, 0x55, 0x00})
	// precompiles with junk
	for i := 1; i <= 9; i++ {
		add(fmt.Sprintf("precompile-%d-junk", i), cat([]byte{0x36, 0x60, 0, 0x60, 0, 0x37}, p(big.NewInt(64)), p(big.NewInt(0)), []byte{0x36}, p(big.NewInt(0)), p(big.NewInt(0)),
			pushAddrB(common.BytesToAddress([]byte{byte(i)})), []byte{0x5a, 0xf1, 0x00}))
	}
	// token opcodes: ISSUE makes the EVM query decimals() on the issuing contract when the frame ends
	ds = append(ds, directed{name: "issue-then-stop", code: []byte{0x60, 5, 0xe0, 0x00}, gas: []uint64{21000, 1000000}, value: "0", mode: "call"})
	ds = append(ds, directed{name: "issue-then-invalid", code: []byte{0x60, 5, 0xe0, 0xfe}, gas: []uint64{1000000}, value: "0", mode: "call"})
	// a token contract whose decimals() answers 8: issue succeeds
	ds = append(ds, directed{name: "issue-with-decimals", gas: []uint64{1000000}, value: "0", mode: "call",
		code: cat([]byte{0x36, 0x15, 0x60, 0x0f, 0x57}, []byte{0x60, 8, 0x60, 0, 0x52, 0x60, 32, 0x60, 0, 0xf3, 0x5b, 0x60, 5, 0xe0, 0x00})})
	// ... and one whose decimals() never returns: the query must be metered like any other execution
	ds = append(ds, directed{name: "issue-decimals-loop", gas: []uint64{1000000}, value: "0", mode: "call",
		code: []byte{0x36, 0x15, 0x60, 0x09, 0x57, 0x5b, 0x60, 0x05, 0x56, 0x5b, 0x60, 5, 0xe0, 0x00}})
	// factories: several CREATEs with DIFFERENT init code in one call tree; init code carries no code
	// hash, so whatever the EVM caches per code hash (JUMPDEST analysis) must not leak between them
	jumper := func(pad int) []byte { // PUSH1 dest JUMP <pad x INVALID> JUMPDEST STOP
		c := []byte{0x60, byte(3 + pad), 0x56}
		c = append(c, bytes.Repeat([]byte{0xfe}, pad)...)
		return append(c, 0x5b, 0x00)
	}
	// jumps to a byte that is PUSH data in THIS init code and an opcode position in the other one
	dataJumper := func(pad int) []byte { // PUSH1 dest JUMP <pad> PUSH1 0x5b STOP ; dest = the 0x5b data byte
		c := []byte{0x60, byte(4 + pad), 0x56}
		c = append(c, bytes.Repeat([]byte{0x5b}, pad)...)
		return append(c, 0x60, 0x5b, 0x00)
	}
	for _, f := range []struct {
		n     string
		inits [][]byte
	}{
		{"short-then-long", [][]byte{jumper(0), jumper(60)}},
		{"long-then-short", [][]byte{jumper(60), jumper(0)}},
		{"short-then-longer-then-longest", [][]byte{jumper(0), jumper(37), jumper(200)}},
		{"same-twice", [][]byte{jumper(9), jumper(9)}},
		{"code-then-data-at-same-offset", [][]byte{jumper(4), dataJumper(3)}},
		{"data-then-code-at-same-offset", [][]byte{dataJumper(3), jumper(4)}},
	} {
		add("factory-jump/"+f.n, factory(0xf0, f.inits...), 1000000, 10000000)
		add("factory2-jump/"+f.n, factory(0xf5, f.inits...), 1000000, 10000000)
	}
	// ... and the same from inside init code itself (a creation whose constructor creates)
	ds = append(ds, directed{name: "factory-jump/in-constructor", code: factory(0xf0, jumper(0), jumper(60)), gas: []uint64{10000000}, value: "0", mode: "create"})
	return ds
}

// factory builds code that CREATEs (op 0xf0) or CREATE2s (0xf5) one contract per init code, in
// order, each init code copied from the factory's own code.
func factory(op byte, inits ...[]byte) []byte {
	seg := 16
	if op == 0xf5 {
		seg = 18
	}
	off := seg*len(inits) + 1
	var c []byte
	for i, in := range inits {
		c = append(c, 0x60, byte(len(in)), 0x61, byte(off>>8), byte(off), 0x60, 0, 0x39) // CODECOPY(0, off, len)
		if op == 0xf5 {
			c = append(c, 0x60, byte(i+1)) // salt
		}
		c = append(c, 0x60, byte(len(in)), 0x60, 0, 0x60, 0, op, 0x50) // CREATE(0, 0, len); POP
		off += len(in)
	}
	c = append(c, 0x00)
	for _, in := range inits {
		c = append(c, in...)
	}
	return c
}

// pingPong builds the self-checking value recursion between bRoot and bPeer.
func pingPong(other common.Address) []byte {
	var a asmBuf
	a.op(0x30, 0x31) // b0 = BALANCE(ADDRESS)
	a.push1(0)
	a.push1(0)
	a.push1(0)
	a.push1(0)
	a.push1(1)
	a.pushAddr(other)
	a.op(0x5a, opCALL) // ok
	jEnd1 := len(a.b) + 1
	a.push2(0)
	a.op(0x57)             // JUMPI end (call succeeded)
	a.op(0x30, 0x31, 0x14) // BALANCE(ADDRESS) == b0
	jEnd2 := len(a.b) + 1
	a.push2(0)
	a.op(0x57) // JUMPI end (balance untouched)
	a.push1(1)
	a.push2(0x0bad)
	a.op(opSSTORE) // the failed value call changed the caller's balance
	a.op(opSTOP)
	end := len(a.b)
	a.op(opJUMPDEST, opSTOP)
	for _, j := range []int{jEnd1, jEnd2} {
		a.b[j], a.b[j+1] = byte(end>>8), byte(end)
	}
	return a.b
}

// ---- the oracles ----------------------------------------------------------------

// The termination oracle: one invocation with a bounded gas budget (<= 10^7) must not
// use more than cpuCap of processor time. Processor time of this process, not wall
// clock: the verdict must not depend on how busy the machine is.
const cpuCap = 10 * time.Second

var guard struct {
	mu   sync.Mutex
	on   bool
	cpu0 time.Duration
}

func cpuNow() time.Duration {
	var ru syscall.Rusage
	if syscall.Getrusage(syscall.RUSAGE_SELF, &ru) != nil {
		return 0
	}
	return time.Duration(ru.Utime.Nano() + ru.Stime.Nano())
}

func guardOn(on bool) {
	guard.mu.Lock()
	guard.on, guard.cpu0 = on, cpuNow()
	guard.mu.Unlock()
}

// guardExceeded reports whether the running invocation is over the cap.
func guardExceeded() (bool, time.Duration) {
	guard.mu.Lock()
	defer guard.mu.Unlock()
	if !guard.on {
		return false, 0
	}
	used := cpuNow() - guard.cpu0
	return used > cpuCap, used
}

type bRun struct {
	o    outcome
	dg   digest
	wall time.Duration
}

func (p *bprog) runOnce(cold bool) (bRun, *state.StateDB, error) {
	st, _, err := newState(p.accounts(), cold)
	if err != nil {
		return bRun{}, nil, err
	}
	t0 := time.Now()
	guardOn(p.Cap)
	o := invoke(st, p.spec())
	guardOn(false)
	r := bRun{o: o, wall: time.Since(t0)}
	if o.panicv == "" {
		func() {
			defer func() {
				if x := recover(); x != nil {
					r.o.panicv = fmt.Sprintf("finalising the state after the call: %v", x)
				}
			}()
			r.dg = takeDigest(st)
		}()
	}
	return r, st, nil
}

// checkGeneric runs the program and applies the semantics-free oracles.
func (p *bprog) checkGeneric(deep bool) (*mismatch, int, bool, error) {
	evals := 0
	r1, st1, err := p.runOnce(false)
	evals++
	if err != nil {
		return nil, evals, false, err
	}
	nontrivial := r1.o.left < p.Gas || r1.o.err != nil
	if r1.o.panicv != "" {
		return &mismatch{"panic", "the EVM panicked: " + r1.o.panicv}, evals, nontrivial, nil
	}
	if r1.o.left > p.Gas {
		return &mismatch{"gas-bound", fmt.Sprintf("left-over gas %d exceeds the gas limit %d", r1.o.left, p.Gas)}, evals, nontrivial, nil
	}
	// what the transaction gets back is the left-over gas plus the transfer fees the EVM
	// declares refundable (app/state_transition.go: tx.Gas += vm.RefundFee() / RefundAllFee())
	if hb := r1.o.handedBack(); hb > p.Gas || hb < r1.o.left {
		return &mismatch{"gas-bound", fmt.Sprintf("left-over gas %d + refundable transfer fees %d exceed the gas limit %d (error: %v)", r1.o.left, r1.o.refund, p.Gas, r1.o.err)}, evals, nontrivial, nil
	}
	if r1.o.err != nil {
		st0, _, err := newState(p.accounts(), false)
		if err != nil {
			return nil, evals, nontrivial, err
		}
		if d0 := takeDigest(st0); d0 != r1.dg {
			return &mismatch{"atomic-root", fmt.Sprintf("the top-level frame failed (%v) but the state changed: without the call %v, after it %v", r1.o.err, d0, r1.dg)}, evals, nontrivial, nil
		}
		if p.Value != "0" && p.Mode != "create" {
			// covered by the digest; stated separately because the property names it
			if b := st1.GetTokenBalance(bOrigin, p.spec().tokenOrLK(p.Mode)); b.Cmp(p.originBalance()) != 0 {
				return &mismatch{"caller-balance", fmt.Sprintf("the value call failed (%v) but the caller's balance went from %v to %v", r1.o.err, p.originBalance(), b)}, evals, nontrivial, nil
			}
		}
	}
	if p.Self {
		for _, a := range []common.Address{bRoot, bPeer} {
			if v := st1.GetState(a, slotHash(0x0bad)); len(v) != 0 {
				return &mismatch{"value-stays", fmt.Sprintf("contract %x observed that a value call it made failed and yet its balance changed", a[:4])}, evals, nontrivial, nil
			}
		}
	}
	if m := p.checkTwin(r1, st1.Exist); m != nil {
		if m.obs == "binding" {
			return nil, evals, nontrivial, fmt.Errorf("%s", m.text)
		}
		return m, evals, nontrivial, nil
	}
	r2, _, err := p.runOnce(false)
	evals++
	if err != nil {
		return nil, evals, nontrivial, err
	}
	if d := (runRecord{o: r1.o, dg: r1.dg}).same(runRecord{o: r2.o, dg: r2.dg}); d != "" {
		return &mismatch{"determinism", "two runs from identical states differ: " + d}, evals, nontrivial, nil
	}
	if deep {
		r3, _, err := p.runOnce(true)
		evals++
		if err != nil {
			return nil, evals, nontrivial, err
		}
		if d := (runRecord{o: r1.o, dg: r1.dg}).same(runRecord{o: r3.o, dg: r3.dg}); d != "" {
			return &mismatch{"determinism", "a run on a state re-opened from its committed root differs from a run on the live state: " + d}, evals, nontrivial, nil
		}
		if m := p.checkTraced(r1); m != nil {
			return m, evals + 1, nontrivial, nil
		}
		evals++
	}
	return nil, evals, nontrivial, nil
}

func (cs callSpec) tokenOrLK(mode string) common.Address {
	if mode == "tokencall" {
		return cs.token
	}
	return common.EmptyAddress
}

func (p *bprog) originBalance() *big.Int {
	if p.Mode == "tokencall" {
		return big.NewInt(1000)
	}
	return bOriginBal
}

// checkTraced re-runs the program with a step tracer: the traced run must give the
// same result, and every frame visible in the trace must hand back at most what it
// was given, and nothing if it ended in an error.
func (p *bprog) checkTraced(ref bRun) *mismatch {
	st, _, err := newState(p.accounts(), false)
	if err != nil {
		return nil
	}
	tr := &stepTracer{max: 300000}
	cs := p.spec()
	cs.tracer = tr
	guardOn(p.Cap)
	o := invoke(st, cs)
	guardOn(false)
	if o.panicv != "" {
		return &mismatch{"panic", "the EVM panicked (traced run): " + o.panicv}
	}
	dg := takeDigest(st)
	if d := (runRecord{o: ref.o, dg: ref.dg}).same(runRecord{o: o, dg: dg}); d != "" {
		return &mismatch{"determinism", "a traced run differs from an untraced one: " + d}
	}
	if tr.overflow {
		return nil
	}
	for _, s := range tr.steps {
		if s.op == 0xe0 {
			return nil // ISSUE triggers calls that are not ops; frame boundaries are not recoverable from the trace
		}
	}
	steps := tr.steps
	for i, s := range steps {
		isCall := s.op == opCALL || s.op == opCALLCODE || s.op == opDELEGATECALL || s.op == opSTATICCALL
		if !isCall || s.err != nil || i+1 >= len(steps) || steps[i+1].depth != s.depth+1 {
			continue
		}
		given := steps[i+1].gas
		// find the caller's next step
		j := i + 1
		for j < len(steps) && steps[j].depth > s.depth {
			j++
		}
		if j >= len(steps) || steps[j].depth != s.depth {
			continue
		}
		last := steps[j-1]
		for k := j - 1; k > i; k-- {
			if steps[k].depth == s.depth+1 {
				last = steps[k]
				break
			}
		}
		if s.gas < s.cost {
			continue
		}
		after := s.gas - s.cost
		if steps[j].gas < after {
			return &mismatch{"gas-frame", fmt.Sprintf("trace step %d (pc %d, op %#x, depth %d): caller has %d gas after the call returned, less than the %d it kept", i, s.pc, s.op, s.depth, steps[j].gas, after)}
		}
		back := steps[j].gas - after
		if back > given {
			return &mismatch{"gas-frame", fmt.Sprintf("trace step %d (pc %d, op %#x, depth %d): the callee was given %d gas and handed back %d", i, s.pc, s.op, s.depth, given, back)}
		}
		if last.err != nil && last.err != types.ExecutionReverted && back != 0 {
			return &mismatch{"gas-frame", fmt.Sprintf("trace step %d (pc %d, op %#x, depth %d): the callee failed with %q but handed back %d of %d gas", i, s.pc, s.op, s.depth, last.err, back, given)}
		}
	}
	return nil
}

// ---- jobs ---------------------------------------------------------------------------

// nthProgram derives program i of job idx deterministically from the seed.
func nthProgram(seed int64, j job, i int, lines []string, dirs []directed) (*bprog, error) {
	r := rand.New(rand.NewSource(seed*1000003 + int64(j.Idx)*100003 + int64(i)))
	p := &bprog{}
	// the directed programs come first, spread over the jobs
	if k := i*j.Insts + j.Idx; k < len(dirs)*8 {
		d := dirs[k/8]
		v := k % 8
		p.Gen = "directed/" + d.name
		p.code, p.input = d.code, d.input
		p.Gas = d.gas[v%len(d.gas)]
		p.Mode, p.Value = d.mode, d.value
		if v >= len(d.gas) {
			// further variants: as init code, with value, with calldata
			switch v % 4 {
			case 0:
				p.Mode = "create"
			case 1:
				p.Value = "1"
			case 2:
				p.input = []byte{1, 2, 3, 4}
			default:
				p.Mode, p.Value = "tokencall", "1"
			}
		}
		if d.peer != nil {
			p.extra = map[common.Address][]byte{bPeer: d.peer}
		}
		p.Self = strings.HasPrefix(d.name, "pingpong")
		p.finish()
		return p, nil
	}
	pickInvocation(r, p)
	switch c := r.Intn(10); {
	case c < 6 && len(lines) > 0:
		b, err := parseBehaviour(lines[r.Intn(len(lines))])
		if err != nil {
			return nil, err
		}
		nm := defaultNames(0)
		nm.root = bRoot
		root, err := buildTree(b.Ops, "call")
		if err != nil {
			return nil, err
		}
		if err := assemble(root, nm); err != nil {
			return nil, err
		}
		p.extra = map[common.Address][]byte{}
		var frames []*frameNode
		walk(root, func(f *frameNode, n *opNode) {
			if n.Op == "call" && n.child != nil {
				p.extra[childAddr(n.ID)] = n.child.code
				frames = append(frames, n.child)
			}
		})
		p.code = root.code
		// mutate the root or one callee
		if len(frames) > 0 && r.Intn(3) == 0 {
			f := frames[r.Intn(len(frames))]
			k, c := mutate(r, f.code, childAddr(f.id))
			p.extra[childAddr(f.id)] = c
			p.Gen = "mut/" + k + "/callee"
		} else {
			k, c := mutate(r, root.code, bRoot)
			p.code = c
			p.Gen = "mut/" + k
		}
		if r.Intn(4) == 0 {
			p.Gas = b.Top.Gas
		}
	default:
		p.Gen, p.code = randomCode(r)
		if r.Intn(2) == 0 {
			_, pc := randomCode(r)
			p.extra = map[common.Address][]byte{bPeer: pc}
		}
	}
	if len(p.code) == 0 {
		p.code = []byte{0x00}
	}
	if r.Intn(3) == 0 {
		p.input = make([]byte, r.Intn(100))
		r.Read(p.input)
	}
	p.finish()
	return p, nil
}

// childB runs programs [Skip, N) of the job under the generic oracles.
func childB(c *core.Ctx, j job) {
	var lines []string
	if j.File != "" {
		var err error
		if lines, err = readLines(j.File, 0, 1<<30); err != nil {
			fmt.Fprintln(os.Stderr, err)
			os.Exit(3)
		}
	}
	dirs := allDirected()
	var front []*bprog
	if j.Front {
		all := frontierPrograms(c.Seed, c.Thorough())
		for k := j.Idx - 100; k < len(all); k += j.Insts {
			front = append(front, all[k])
		}
		j.N = len(front)
	}
	res := jobResult{ByClass: map[string]int{}}
	seen := map[string]bool{}
	distinct := map[[32]byte]bool{}
	var mu sync.Mutex
	flush := func() {
		rj, _ := json.Marshal(res)
		fmt.Fprintf(os.Stdout, "RESULT %s\n", rj)
	}
	// watchdog: a program with a bounded gas budget that does not finish is a finding, not a hang of the check
	go func() {
		for {
			time.Sleep(250 * time.Millisecond)
			if over, used := guardExceeded(); over {
				mu.Lock()
				flush()
				fmt.Fprintf(os.Stderr, "fatal error: cpu-time cap: one invocation with at most %d gas has used %.1fs of processor time and has not finished\n", gasCapLimit, used.Seconds())
				os.Exit(4)
			}
		}
	}()
	for i := j.Skip; i < j.N; i++ {
		var p *bprog
		var err error
		if j.One != nil {
			p, err = j.One, j.One.decode()
		} else if j.Front {
			p = front[i]
		} else {
			p, err = nthProgram(c.Seed, j, i, lines, dirs)
		}
		if err != nil {
			res.Infra = err.Error()
			break
		}
		at, _ := json.Marshal(p)
		fmt.Fprintf(os.Stdout, "AT %s\n", at)
		m, evals, nontrivial, err := p.checkGeneric(i%j.Deep == 0 || strings.HasPrefix(p.Gen, "directed/"))
		mu.Lock()
		res.Done++
		res.Evals += evals
		res.Behaviours++
		if nontrivial {
			res.Nontrivial++
		}
		if h := sha256.Sum256(at); nontrivial && distinct[h] {
			res.Nontrivial-- // counted once
		} else {
			distinct[h] = true
		}
		gen := p.Gen
		if k := strings.Index(gen, "/"); k > 0 && !strings.HasPrefix(gen, "directed/") {
			gen = gen[:k] + "/" + strings.Split(gen[k+1:], "/")[0]
		}
		res.ByClass[strings.Split(p.Gen, "/")[0]]++
		if err != nil {
			res.Infra = err.Error()
		}
		if m != nil {
			key := "B/" + m.obs + "/" + gen
			if !seen[key] && len(res.Violations) < 8 {
				seen[key] = true
				res.Violations = append(res.Violations, core.Violation{Key: key, Desc: fmt.Sprintf("%s (%s, gas %d, value %s): %s", p.Gen, p.Mode, p.Gas, p.Value, m.text),
					Record: map[string]interface{}{"program": p, "mismatch": m.text}})
			}
		}
		if res.Sample == nil && nontrivial && strings.HasPrefix(p.Gen, "mut/") {
			res.Sample = map[string]interface{}{"part": "B", "gen": p.Gen, "mode": p.Mode, "gas": p.Gas, "value": p.Value, "code": p.Code}
		}
		mu.Unlock()
		if res.Infra != "" {
			break
		}
	}
	mu.Lock()
	flush()
	fmt.Fprintln(os.Stdout, "DONE")
	mu.Unlock()
}

func allDirected() []directed {
	ds := directedPrograms()
	ds = append(ds,
		directed{name: "pingpong-value", code: pingPong(bPeer), peer: pingPong(bRoot), gas: []uint64{10000000, 3000000}, value: "1", mode: "call"},
		directed{name: "pingpong-value-deep", code: pingPong(bPeer), peer: pingPong(bRoot), gas: []uint64{4000000000000000}, value: "0", mode: "call"},
	)
	return ds
}

// partB distributes the sweep over child processes.
func partB(c *core.Ctx, base string, pl *pool) {
	file := base + "/sample.ndjson"
	total := c.Pick(16000, 600000)
	workers := 12
	for w := 0; w < workers; w++ {
		pl.submit(job{Part: "B", File: file, Idx: w, N: total / workers, Deep: 4, Insts: workers}, c.MinutesT(5, 25))
	}
	partF(c, pl)
	c.SetExtra("partB_directed_programs", len(allDirected()))
	c.SetExtra("partB_cpu_time_cap_per_invocation_s", cpuCap.Seconds())
}
