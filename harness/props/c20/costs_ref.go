package c20

import (
	cfg "github.com/lianxiangcloud/linkchain/config"
	"github.com/lianxiangcloud/linkchain/types"
)

// expectedCosts is the reference cost table of the snippets, derived from the gas
// parameters of the tree (config/params.go, config/gas_table.go, types/tx_fee.go).
// A difference from the calibrated table is reported as drift only: the property
// does not fix what an instruction costs.
func expectedCosts() costs {
	const step = 3 // GasFastestStep: PUSH*, ADD, ISZERO, MSTORE
	words := uint64((initOff + initSz) / 32)
	mem := words*cfg.MemoryGas + words*words/cfg.QuadCoeffDiv
	gt := cfg.GasTableEIP158
	fee := uint64(types.MinGasLimit)
	return costs{
		CFrame:        step + 2 + 2*step + step + mem,
		CWork:         3*step + 2,
		CSStore:       2*step + cfg.SstoreSetGas,
		CLog:          3*step + cfg.LogGas + cfg.LogTopicGas,
		CXfer:         3*step + gt.Calls + cfg.CallValueTransferGas + fee,
		CTokXfer:      3*step + gt.Calls + cfg.CallValueTransferGas,
		CRet:          5 * step,
		CRevert:       5 * step,
		CSuicide:      step,
		CSuicideFee:   fee,
		SuicideRefund: cfg.SuicideRefundGas,
		CCall0:        7*step + gt.Calls,
		CCallV:        7*step + gt.Calls + cfg.CallValueTransferGas + fee,
		CCallCode0:    7*step + gt.Calls,
		CCallCodeV:    7*step + gt.Calls + cfg.CallValueTransferGas,
		CDelegate:     6*step + gt.Calls,
		CStatic:       6*step + gt.Calls,
		Stipend:       cfg.CallStipend,
		CMark:         3*step + cfg.SstoreSetGas,
		CMarkCreate:   5*step + cfg.SstoreSetGas,
		CPop:          2,
		CCreatePre:    6*step + step + cfg.CopyGas*uint64((initSz+31)/32) + cfg.CreateGas,
		CDeposit:      32 * cfg.CreateDataGas,
		CFee:          fee,
		CNewAcct:      cfg.CallNewAccountGas,
		CPc1:          cfg.EcrecoverGas,
		CPc2:          cfg.Sha256BaseGas,
		CPc3:          cfg.Ripemd160BaseGas,
		CPc4:          cfg.IdentityBaseGas,
	}
}
