package c20

// Real-code side: building a StateDB, running code through vm/runtime, observing.

import (
	"bytes"
	"crypto/sha256"
	"encoding/hex"
	"fmt"
	"math/big"
	"sort"

	"github.com/lianxiangcloud/linkchain/libs/common"
	dbm "github.com/lianxiangcloud/linkchain/libs/db"
	"github.com/lianxiangcloud/linkchain/state"
	"github.com/lianxiangcloud/linkchain/types"
	"github.com/lianxiangcloud/linkchain/vm/evm"
	"github.com/lianxiangcloud/linkchain/vm/runtime"
)

// account is one pre-state entry.
type account struct {
	addr  common.Address
	bal   *big.Int
	tok   map[common.Address]*big.Int
	code  []byte
	nonce uint64
	store map[common.Hash][]byte
}

// newState builds a StateDB holding the given accounts. cold = the accounts are
// committed and the StateDB is re-opened at the committed root, so that the code under
// test loads every object from the trie; otherwise the objects stay in the live cache.
func newState(accts []account, cold bool) (*state.StateDB, common.Hash, error) {
	db := state.NewKeyValueDBWithCache(dbm.NewMemDB(), 0, true, 0)
	st, err := state.New(common.EmptyHash, db)
	if err != nil {
		return nil, common.EmptyHash, err
	}
	for _, a := range accts {
		st.CreateAccount(a.addr)
		if a.bal != nil && a.bal.Sign() > 0 {
			st.AddBalance(a.addr, a.bal)
		}
		for t, v := range a.tok {
			st.AddTokenBalance(a.addr, t, v)
		}
		if len(a.code) > 0 {
			st.SetCode(a.addr, a.code)
		}
		if a.nonce > 0 {
			st.SetNonce(a.addr, a.nonce)
		}
		for k, v := range a.store {
			st.SetState(a.addr, k, v)
		}
	}
	if !cold {
		root := st.IntermediateRoot(false)
		return st, root, nil
	}
	root, err := st.Commit(false, 1)
	if err != nil {
		return nil, common.EmptyHash, err
	}
	st2, err := state.New(root, db)
	if err != nil {
		return nil, common.EmptyHash, err
	}
	return st2, root, nil
}

// callSpec is one top-level invocation.
type callSpec struct {
	mode   string // call | create | execute | tokencall
	to     common.Address
	code   []byte // create: init code; execute: code
	input  []byte
	gas    uint64
	value  *big.Int
	origin common.Address
	token  common.Address
	tracer evm.Tracer
}

type outcome struct {
	ret     []byte
	left    uint64
	err     error
	panicv  string
	created common.Address
	// the transfer fees the EVM declares refundable after the run, read the way
	// app/state_transition.go reads them: tx.Gas += vm.RefundFee() when the invocation
	// succeeded, tx.Gas += vm.RefundAllFee() when it failed
	refund    uint64
	refundFee uint64 // RefundFee()
	refundAll uint64 // RefundAllFee()
}

// handedBack is the gas the caller of the top frame ends up with again.
func (o outcome) handedBack() uint64 { return o.left + o.refund }

func (o outcome) errClass() string {
	switch {
	case o.panicv != "":
		return "panic"
	case o.err == nil:
		return "ok"
	case o.err == types.ExecutionReverted:
		return "revert"
	case o.err == evm.ErrInsufficientBalance:
		return "balance"
	case o.err == evm.ErrDepth:
		return "depth"
	default:
		return "fail"
	}
}

// invoke runs one top-level call on st through vm/runtime.
func invoke(st *state.StateDB, cs callSpec) (o outcome) {
	cfg := &runtime.Config{
		State: st, GasLimit: cs.gas, Value: cs.value, Origin: cs.origin,
		Time: big.NewInt(1600000000), BlockNumber: big.NewInt(100), Difficulty: big.NewInt(1),
		GasPrice: big.NewInt(1), Coinbase: common.HexToAddress("0xcb"),
	}
	if cs.tracer != nil {
		cfg.EVMConfig = evm.Config{Debug: true, Tracer: cs.tracer}
	}
	if cs.gas == 0 {
		panic("harness: gas limit 0 means unlimited in runtime.Config")
	}
	if cfg.Value == nil {
		cfg.Value = new(big.Int)
		cs.value = cfg.Value
	}
	defer func() {
		if r := recover(); r != nil {
			o.panicv = fmt.Sprint(r)
		}
	}()
	// what vm/runtime's Call / TokenCall / Create do (runtime.NewEnv + the EVM entry
	// point), spelled out because they drop the EVM, and with it the fee lists
	vmenv := runtime.NewEnv(cfg)
	switch cs.mode {
	case "call":
		sender := st.GetOrNewStateObject(cs.origin)
		o.ret, o.left, _, o.err = vmenv.Call(sender, cs.to, common.EmptyAddress, cs.input, cs.gas, cs.value)
	case "tokencall":
		vmenv.Token = cs.token
		sender := st.GetOrNewStateObject(cs.origin)
		o.ret, o.left, _, o.err = vmenv.Call(sender, cs.to, cs.token, cs.input, cs.gas, cs.value)
	case "create":
		o.ret, o.created, o.left, o.err = vmenv.Create(evm.AccountRef(cs.origin), cs.code, cs.gas, cs.value)
	default:
		panic("harness: unknown mode " + cs.mode)
	}
	o.refundFee, o.refundAll = vmenv.RefundFee(), vmenv.RefundAllFee()
	if o.err == nil {
		o.refund = o.refundFee
	} else {
		o.refund = o.refundAll
	}
	return
}

// logsDigest serialises the logs of the current transaction (consensus fields only).
func logsDigest(st *state.StateDB) string {
	var b bytes.Buffer
	logs := st.Logs()
	sort.SliceStable(logs, func(i, j int) bool { return logs[i].Index < logs[j].Index })
	for _, l := range logs {
		fmt.Fprintf(&b, "%x|", l.Address[:])
		for _, t := range l.Topics {
			fmt.Fprintf(&b, "%x,", t[:])
		}
		fmt.Fprintf(&b, "|%x;", l.Data)
	}
	return b.String()
}

// digest is what two runs from identical states must agree on, and what a failed
// top-level frame must leave as it was.
type digest struct {
	Root   string // state root after the transaction is finalised (all accounts, storage, code, token maps)
	Logs   string
	Refund uint64
}

func (d digest) String() string {
	h := sha256.Sum256([]byte(d.Logs))
	return fmt.Sprintf("root=%s logs=%s refund=%d", d.Root[:16], hex.EncodeToString(h[:6]), d.Refund)
}

// takeDigest finalises the transaction (as app.go does: IntermediateRoot(false)).
func takeDigest(st *state.StateDB) digest {
	d := digest{Logs: logsDigest(st), Refund: st.GetRefund()}
	r := st.IntermediateRoot(false)
	d.Root = hex.EncodeToString(r[:])
	return d
}

func slotHash(k int) common.Hash { return common.BigToHash(big.NewInt(int64(k))) }

func wordInt(b []byte) int {
	if len(b) == 0 {
		return 0
	}
	v := new(big.Int).SetBytes(b)
	if !v.IsInt64() || v.Int64() > 1<<30 {
		return -1
	}
	return int(v.Int64())
}
