package c20

// Part W: "any contract bytecode" reaches the node through a transaction, and the node picks the
// virtual machine by the first bytes of the code (vm.VmFactory: the WASM magic selects the WASM
// engine). The byte strings of the quantifier therefore include strings that START like a WASM
// module. They are offered as contract-creation transactions to the real application
// (harness/appx: CreateBlock path = MakeBlock + PreRunBlock, validator path = CheckBlock); the
// only oracle is the first clause of the statement: execution terminates without crashing the node.

import (
	"bytes"
	"encoding/hex"
	"encoding/json"
	"fmt"
	"math/big"
	"math/rand"
	"os"
	"path/filepath"
	"runtime/debug"
	"strings"

	"github.com/lianxiangcloud/linkchain/types"

	"verifh/appx"
	"verifh/core"
)

type wPayload struct {
	Name string `json:"name"`
	Hex  string `json:"hex"`
}

func wasmPayloads(seed int64, nRandom int) []wPayload {
	magic := []byte{0x00, 0x61, 0x73, 0x6d}
	v1 := append(append([]byte{}, magic...), 1, 0, 0, 0)
	var ps []wPayload
	add := func(n string, b []byte) { ps = append(ps, wPayload{n, hex.EncodeToString(b)}) }
	add("magic+1byte", append(append([]byte{}, magic...), 1))
	add("magic+version", v1)
	add("version-2", append(append([]byte{}, magic...), 2, 0, 0, 0))
	add("custom-section-only", append(append([]byte{}, v1...), 0x00, 0x03, 0x01, 0x76, 0x78))
	add("empty-type-section", append(append([]byte{}, v1...), 0x01, 0x01, 0x00))
	add("section-length-beyond-end", append(append([]byte{}, v1...), 0x01, 0x7f, 0x00))
	add("section-length-huge-leb", append(append([]byte{}, v1...), 0x0a, 0xff, 0xff, 0xff, 0xff, 0x0f))
	add("function-section-without-types", append(append([]byte{}, v1...), 0x03, 0x02, 0x01, 0x00))
	add("code-section-without-functions", append(append([]byte{}, v1...), 0x0a, 0x04, 0x01, 0x02, 0x00, 0x0b))
	add("export-of-missing-function", append(append([]byte{}, v1...), 0x07, 0x08, 0x01, 0x04, 't', 'h', 'u', 'n', 0x00, 0x05))
	add("memory-section-max-pages", append(append([]byte{}, v1...), 0x05, 0x04, 0x01, 0x01, 0xff, 0xff))
	add("start-section-bad-index", append(append([]byte{}, v1...), 0x08, 0x01, 0x63))
	add("unknown-section-id", append(append([]byte{}, v1...), 0x3f, 0x01, 0x00))
	add("sections-out-of-order", append(append([]byte{}, v1...), 0x0a, 0x01, 0x00, 0x01, 0x01, 0x00))
	rng := rand.New(rand.NewSource(seed))
	for i := 0; i < nRandom; i++ {
		tail := make([]byte, 1+rng.Intn(40))
		rng.Read(tail)
		if i%2 == 0 { // a plausible section header in front
			tail = append([]byte{byte(rng.Intn(12)), byte(len(tail))}, tail...)
		}
		add(fmt.Sprintf("random-%d", i), append(append([]byte{}, v1...), tail...))
	}
	return ps
}

type wResult struct {
	Done  int              `json:"done"`
	Viol  []core.Violation `json:"violations"`
	Infra string           `json:"infra"`
}

// childW runs in its own process: a failure that recover() cannot catch is attributed by the parent.
func childW(c *core.Ctx, j job) {
	var ps []wPayload
	b, err := os.ReadFile(j.File)
	if err != nil || json.Unmarshal(b, &ps) != nil {
		fmt.Fprintln(os.Stderr, "bad payload file")
		os.Exit(3)
	}
	var res wResult
	out := func() {
		rj, _ := json.Marshal(res)
		fmt.Printf("RESULT %s\nDONE\n", rj)
	}
	acct := appx.NewAccount(20200)
	for _, isTrie := range []bool{true, false} {
		d := appx.NewMemDBs(filepath.Join(j.Dir, fmt.Sprintf("w%v", isTrie)))
		if err := appx.InitGenesis(d, isTrie, []appx.Alloc{{Addr: acct.Addr, Balance: appx.LKC(1000000)}}); err != nil {
			res.Infra = "genesis: " + err.Error()
			out()
			return
		}
		e, err := appx.Boot(d, isTrie, nil)
		if err != nil {
			res.Infra = "boot: " + err.Error()
			out()
			return
		}
		nonce := uint64(0)
		for _, p := range ps {
			code, _ := hex.DecodeString(p.Hex)
			fmt.Printf("AT %s\n", mustJSON([]string{"create", p.Name, p.Hex, fmt.Sprint(isTrie)}))
			tx := acct.Create(nonce, big.NewInt(0), 10000000, code)
			blk := e.MakeBlock(e.App.Height()+1, types.Txs{tx})
			panicked, stack := "", ""
			func() {
				defer func() {
					if r := recover(); r != nil {
						panicked = fmt.Sprint(r)
						stack = topFrames(debug.Stack())
					}
				}()
				e.App.PreRunBlock(blk)
			}()
			res.Done++
			if panicked != "" && !strings.Contains(panicked, "processBlock fail") {
				// (PreRunBlock reports a block it cannot execute by panicking with that text: a verdict, not a crash)
				res.Viol = append(res.Viol, core.Violation{Key: "W/panic/create/" + p.Name,
					Desc:   fmt.Sprintf("a contract-creation transaction whose %d-byte code is %s (%s) makes block execution panic: %s", len(code), p.Hex, p.Name, panicked),
					Record: map[string]interface{}{"code_hex": p.Hex, "name": p.Name, "panic": panicked, "trie": isTrie, "stack": stack}})
				continue
			}
			if panicked != "" {
				continue // the block is refused as a whole: the nonce was not consumed
			}
			b2, _, err := appx.Redecode(blk)
			if err != nil {
				continue
			}
			ok := false
			func() {
				defer func() {
					if r := recover(); r != nil {
						res.Viol = append(res.Viol, core.Violation{Key: "W/panic/check/" + p.Name,
							Desc:   fmt.Sprintf("CheckBlock panics on a block with a contract creation of code %s: %v", p.Hex, r),
							Record: map[string]interface{}{"code_hex": p.Hex, "name": p.Name, "panic": fmt.Sprint(r), "trie": isTrie}})
					}
				}()
				ok = e.App.CheckBlock(b2)
			}()
			if ok && e.Commit(b2) == nil {
				nonce++
			}
		}
		e.Stop()
	}
	out()
}

// topFrames keeps the frames between the panic and the application entry point.
func topFrames(st []byte) string {
	var keep []string
	for _, l := range strings.Split(string(st), "\n") {
		if strings.HasPrefix(l, "\t") && !strings.Contains(l, "/runtime/") && !strings.Contains(l, "verifh/") {
			keep = append(keep, strings.TrimSpace(l))
		}
		if len(keep) >= 8 {
			break
		}
	}
	return strings.Join(keep, " <- ")
}

func mustJSON(v interface{}) string { b, _ := json.Marshal(v); return string(b) }

// partW is called by run() in the parent.
func partW(c *core.Ctx, base string) {
	ps := wasmPayloads(c.Seed, c.Pick(24, 400))
	f := filepath.Join(base, "wasm-payloads.json")
	b, _ := json.Marshal(ps)
	if err := os.WriteFile(f, b, 0644); err != nil {
		c.Infra("partW: %v", err)
		return
	}
	arg, _ := json.Marshal(job{Part: "W", File: f, Dir: filepath.Join(base, "w")})
	results, at, crash := c.RunChild(string(arg), c.MinutesT(3, 10))
	o := c.Out()
	if crash != "" {
		if crash == "TIMEOUT" {
			c.Violate("W/timeout", "block execution of a contract creation did not terminate: "+at, map[string]interface{}{"at": at})
		} else if strings.Contains(crash, "/repo/") || strings.Contains(crash, "linkchain") || strings.Contains(crash, "wasm") {
			c.Violate("W/process-death", "block execution of a contract creation killed the process: "+at, map[string]interface{}{"at": at, "crash": crash})
		} else {
			c.Infra("partW child died: %s", crash)
		}
		return
	}
	for _, r := range results {
		var wr wResult
		if json.Unmarshal([]byte(r), &wr) != nil {
			continue
		}
		if wr.Infra != "" {
			c.Infra("partW: %s", wr.Infra)
		}
		o.Traces += wr.Done
		o.Evaluations += wr.Done
		c.SetExtra("partW_wasm_prefixed_creations", wr.Done)
		seen := map[string]bool{}
		for _, v := range wr.Viol {
			k := v.Key
			if i := bytes.IndexByte([]byte(k), '-'); strings.HasPrefix(k, "W/panic/create/random") && i > 0 {
				k = "W/panic/create/random" // one key for the seeded random tails
			}
			if !seen[k] {
				seen[k] = true
				c.Violate(k, v.Desc, v.Record)
			}
		}
	}
}
