package c20

// Calibration: the gas cost of every snippet the assembler emits is measured on the
// real code with a step tracer (evm.Tracer), so that the model computes with the
// numbers of the tree under test. What the property is about - how frames hand gas
// down and back, what a failure burns - is NOT calibrated; it is the model's.

import (
	"fmt"
	"math/big"
	"strings"
	"time"

	"github.com/lianxiangcloud/linkchain/libs/common"
	"github.com/lianxiangcloud/linkchain/vm/evm"
)

type step struct {
	depth int
	pc    uint64
	op    byte
	gas   uint64
	cost  uint64
	err   error
}

type stepTracer struct {
	steps    []step
	max      int // 0 = unlimited
	overflow bool
}

func (t *stepTracer) add(s step) {
	if t.max > 0 && len(t.steps) >= t.max {
		t.overflow = true
		return
	}
	t.steps = append(t.steps, s)
}

func (t *stepTracer) CaptureStart(from common.Address, to common.Address, call bool, input []byte, gas uint64, value *big.Int) error {
	return nil
}
func (t *stepTracer) CaptureState(env *evm.EVM, pc uint64, op evm.OpCode, gas, cost uint64, memory *evm.Memory, stack *evm.Stack, contract *evm.Contract, depth int, err error) error {
	t.add(step{depth, pc, byte(op), gas, cost, err})
	return nil
}
func (t *stepTracer) CaptureFault(env *evm.EVM, pc uint64, op evm.OpCode, gas, cost uint64, memory *evm.Memory, stack *evm.Stack, contract *evm.Contract, depth int, err error) error {
	t.add(step{depth, pc, byte(op), gas, cost, err})
	return nil
}
func (t *stepTracer) CaptureEnd(output []byte, gasUsed uint64, d time.Duration, err error) error {
	return nil
}

func (t *stepTracer) sum(depth, from, to int) (s uint64, n int) {
	for _, x := range t.steps {
		if x.depth == depth && int(x.pc) >= from && int(x.pc) < to && x.err == nil {
			s += x.cost
			n++
		}
	}
	return
}

// costs is the table handed to the model (module EVMCosts).
type costs struct {
	CFrame, CWork, CSStore, CLog, CXfer, CTokXfer, CRet, CRevert uint64
	CSuicide, CSuicideFee, SuicideRefund                         uint64
	CCall0, CCallV, CCallCode0, CCallCodeV, CDelegate, CStatic   uint64
	Stipend, CMark, CMarkCreate, CPop, CCreatePre, CDeposit      uint64
	CFee, CNewAcct, CPc1, CPc2, CPc3, CPc4                       uint64
}

func (c costs) module() string {
	var b strings.Builder
	b.WriteString("------------------------------ MODULE EVMCosts ------------------------------\nEXTENDS Integers\n")
	b.WriteString("\\* Gas cost of the harness' snippets, measured on the code under test (calibration run).\n")
	w := func(n string, v uint64) { fmt.Fprintf(&b, "%s == %d\n", n, v) }
	w("CFrame", c.CFrame)
	w("CWork", c.CWork)
	w("CSStore", c.CSStore)
	w("CLog", c.CLog)
	w("CXfer", c.CXfer)
	w("CTokXfer", c.CTokXfer)
	w("CRet", c.CRet)
	w("CRevert", c.CRevert)
	w("CSuicide", c.CSuicide)
	w("CSuicideFee", c.CSuicideFee)
	w("SuicideRefund", c.SuicideRefund)
	w("CCall0", c.CCall0)
	w("CCallV", c.CCallV)
	w("CCallCode0", c.CCallCode0)
	w("CCallCodeV", c.CCallCodeV)
	w("CDelegate", c.CDelegate)
	w("CStatic", c.CStatic)
	w("Stipend", c.Stipend)
	w("CMark", c.CMark)
	w("CMarkCreate", c.CMarkCreate)
	w("CPop", c.CPop)
	w("CCreatePre", c.CCreatePre)
	w("CDeposit", c.CDeposit)
	w("CFee", c.CFee)
	w("CNewAcct", c.CNewAcct)
	w("CPc1", c.CPc1)
	w("CPc2", c.CPc2)
	w("CPc3", c.CPc3)
	w("CPc4", c.CPc4)
	b.WriteString("CPc(i) == CASE i = 1 -> CPc1 [] i = 2 -> CPc2 [] i = 3 -> CPc3 [] i = 4 -> CPc4\n")
	b.WriteString("CCallPre(kind, v) ==\n")
	b.WriteString("  CASE kind = \"call\" -> (IF v > 0 THEN CCallV ELSE CCall0)\n")
	b.WriteString("    [] kind = \"callcode\" -> (IF v > 0 THEN CCallCodeV ELSE CCallCode0)\n")
	b.WriteString("    [] kind = \"delegate\" -> CDelegate\n")
	b.WriteString("    [] kind = \"static\" -> CStatic\n")
	b.WriteString("=============================================================================\n")
	return b.String()
}

const calGas = 50000000

// calRun assembles and runs one calibration program with the tracer.
func calRun(nm names, ops []aop, topKind string, rootBal int) (*frameNode, *stepTracer, outcome, uint64, error) {
	root, err := buildTree(ops, topKind)
	if err != nil {
		return nil, nil, outcome{}, 0, err
	}
	if err := assemble(root, nm); err != nil {
		return nil, nil, outcome{}, 0, err
	}
	p := &program{root: root, topKind: topKind, nm: nm, rootBal: rootBal, rootTok: 1}
	st, _, err := p.freshState(false)
	if err != nil {
		return nil, nil, outcome{}, 0, err
	}
	tr := &stepTracer{}
	o := invoke(st, p.spec(calGas, 0, tr))
	if o.panicv != "" {
		return nil, nil, o, 0, fmt.Errorf("calibration program panicked: %s", o.panicv)
	}
	return root, tr, o, st.GetRefund(), nil
}

// calibrate measures the cost table. Every figure is cross-checked (different values,
// kinds, contexts must agree where the model assumes one number).
func calibrate(nm names) (costs, error) {
	var c costs
	one := func(op string) (uint64, error) {
		root, tr, o, _, err := calRun(nm, []aop{{ID: 1, Op: op}}, "call", 1)
		if err != nil {
			return 0, err
		}
		if op != "revert" && o.err != nil {
			return 0, fmt.Errorf("calibration of %s failed: %v", op, o.err)
		}
		n := root.ops[0]
		s, cnt := tr.sum(1, n.start, n.end)
		if cnt == 0 {
			return 0, fmt.Errorf("calibration of %s: no steps traced", op)
		}
		pro, _ := tr.sum(1, 0, root.proEnd)
		if c.CFrame == 0 {
			c.CFrame = pro
		} else if c.CFrame != pro {
			return 0, fmt.Errorf("prologue cost differs between programs: %d vs %d", c.CFrame, pro)
		}
		// the total must be the sum of the parts (for a frame that ends normally; what a
		// failing frame keeps is the property's business, not the calibration's)
		if used := calGas - o.left; op != "revert" && used != pro+s {
			return 0, fmt.Errorf("calibration of %s: used %d != prologue %d + snippet %d", op, used, pro, s)
		}
		return s, nil
	}
	var err error
	for _, x := range []struct {
		op string
		to *uint64
	}{{"work", &c.CWork}, {"sstore", &c.CSStore}, {"log", &c.CLog}, {"xfer", &c.CXfer}, {"tokxfer", &c.CTokXfer}, {"return", &c.CRet}, {"revert", &c.CRevert}} {
		if *x.to, err = one(x.op); err != nil {
			return c, err
		}
	}
	// selfdestruct with and without a balance
	{
		root, tr, o, refund, err := calRun(nm, []aop{{ID: 1, Op: "selfdestruct"}}, "call", 1)
		if err != nil || o.err != nil {
			return c, fmt.Errorf("calibration of selfdestruct: %v %v", err, o.err)
		}
		with, _ := tr.sum(1, root.ops[0].start, root.ops[0].end)
		c.SuicideRefund = refund
		root, tr, o, _, err = calRun(nm, []aop{{ID: 1, Op: "selfdestruct"}}, "call", 0)
		if err != nil || o.err != nil {
			return c, fmt.Errorf("calibration of selfdestruct: %v %v", err, o.err)
		}
		without, _ := tr.sum(1, root.ops[0].start, root.ops[0].end)
		if with < without {
			return c, fmt.Errorf("selfdestruct cost with balance %d < without %d", with, without)
		}
		c.CSuicide, c.CSuicideFee = without, with-without
	}
	// the call family, gas request 0 so that the traced cost of the CALL op is its base cost
	marks := map[uint64]bool{}
	for _, x := range []struct {
		kind string
		v    int
		to   *uint64
	}{{"call", 0, &c.CCall0}, {"call", 1, &c.CCallV}, {"call", 9, &c.CCallV}, {"callcode", 0, &c.CCallCode0}, {"callcode", 1, &c.CCallCodeV},
		{"callcode", 9, &c.CCallCodeV}, {"delegate", 0, &c.CDelegate}, {"static", 0, &c.CStatic}} {
		root, tr, o, _, err := calRun(nm, []aop{{ID: 1, Op: "call", Kind: x.kind, V: x.v, Req: 0}}, "call", 1)
		if err != nil || o.err != nil {
			return c, fmt.Errorf("calibration of %s: %v %v", x.kind, err, o.err)
		}
		n := root.ops[0]
		pre, _ := tr.sum(1, n.start, n.mid)
		post, _ := tr.sum(1, n.mid, n.end)
		if *x.to != 0 && *x.to != pre {
			return c, fmt.Errorf("cost of %s differs with the value: %d vs %d", x.kind, *x.to, pre)
		}
		*x.to = pre
		marks[post] = true
		c.CMark = post
		if x.v == 1 {
			// the callee's first step shows what it was given: the stipend
			for _, s := range tr.steps {
				if s.depth == 2 {
					if c.Stipend != 0 && c.Stipend != s.gas {
						return c, fmt.Errorf("stipend differs: %d vs %d", c.Stipend, s.gas)
					}
					c.Stipend = s.gas
					break
				}
			}
		}
	}
	if len(marks) != 1 {
		return c, fmt.Errorf("marker cost not constant: %v", marks)
	}
	if c.Stipend == 0 {
		return c, fmt.Errorf("could not observe the call stipend")
	}
	// write-protected flavour: the flag is popped
	{
		root, tr, o, _, err := calRun(nm, []aop{{ID: 1, Op: "call", Kind: "static", Req: -1}, {ID: 2, Frame: 1, Op: "call", Kind: "call", Req: 0}}, "call", 1)
		if err != nil || o.err != nil {
			return c, fmt.Errorf("calibration of pop: %v %v", err, o.err)
		}
		n := root.ops[0].child.ops[0]
		c.CPop, _ = tr.sum(2, n.mid, n.end)
		pre, _ := tr.sum(2, n.start, n.mid)
		if pre != c.CCall0 {
			return c, fmt.Errorf("call cost differs in a static frame: %d vs %d", pre, c.CCall0)
		}
		if c.CPop == 0 {
			return c, fmt.Errorf("could not measure the pop flavour")
		}
	}
	// create
	{
		root, tr, o, _, err := calRun(nm, []aop{{ID: 1, Op: "create", Kind: "create"}}, "call", 1)
		if err != nil || o.err != nil {
			return c, fmt.Errorf("calibration of create: %v %v", err, o.err)
		}
		n := root.ops[0]
		c.CCreatePre, _ = tr.sum(1, n.start, n.mid)
		c.CMarkCreate, _ = tr.sum(1, n.mid, n.end)
		used0 := calGas - o.left
		if want := c.CFrame + c.CCreatePre + c.CFrame + c.CMarkCreate; used0 != want {
			return c, fmt.Errorf("create: used %d, parts sum to %d", used0, want)
		}
		_, _, o, _, err = calRun(nm, []aop{{ID: 1, Op: "create", Kind: "create"}, {ID: 2, Frame: 1, Op: "return"}}, "call", 1)
		if err != nil || o.err != nil {
			return c, fmt.Errorf("calibration of deposit: %v %v", err, o.err)
		}
		used1 := calGas - o.left
		if used1 < used0+c.CRet {
			return c, fmt.Errorf("deposit: used %d < %d", used1, used0+c.CRet)
		}
		c.CDeposit = used1 - used0 - c.CRet
	}
	// the transfer fee inside the cost of the value-moving ops: the same figure must come
	// out of the three ops that carry it (SELFDESTRUCT with / without a balance, TRANSFERTOKEN
	// of the native coin / of a token, CALL / CALLCODE with and without value)
	{
		c.CFee = c.CSuicideFee
		if d := c.CXfer - c.CTokXfer; d != c.CFee {
			return c, fmt.Errorf("transfer fee: TRANSFERTOKEN carries %d, SELFDESTRUCT %d", d, c.CFee)
		}
		if d := (c.CCallV - c.CCall0) - (c.CCallCodeV - c.CCallCode0); d != c.CFee {
			return c, fmt.Errorf("transfer fee: CALL carries %d, SELFDESTRUCT %d", d, c.CFee)
		}
		if c.CFee == 0 {
			return c, fmt.Errorf("no transfer fee observed")
		}
	}
	// call targets that are not in the pre-state: what a value call to an empty account
	// costs on top, what the native code of each precompiled contract uses (no input)
	{
		root, tr, o, _, err := calRun(nm, []aop{{ID: 1, Op: "call", Kind: "call", V: 1, Req: 0, Tg: tgFresh}}, "call", 1)
		if err != nil || o.err != nil {
			return c, fmt.Errorf("calibration of a call to a fresh address: %v %v", err, o.err)
		}
		n := root.ops[0]
		pre, _ := tr.sum(1, n.start, n.mid)
		if pre < c.CCallV {
			return c, fmt.Errorf("value call to a fresh address costs %d < %d", pre, c.CCallV)
		}
		c.CNewAcct = pre - c.CCallV
		for tg, to := range map[int]*uint64{1: &c.CPc1, 2: &c.CPc2, 3: &c.CPc3, 4: &c.CPc4} {
			_, _, o, _, err := calRun(nm, []aop{{ID: 1, Op: "call", Kind: "call", Req: 1000000, Tg: tg}}, "call", 1)
			if err != nil || o.err != nil {
				return c, fmt.Errorf("calibration of precompiled contract %d: %v %v", tg, err, o.err)
			}
			used := calGas - o.left
			if fixed := c.CFrame + c.CCall0 + c.CMark; used < fixed {
				return c, fmt.Errorf("precompiled contract %d: used %d < %d", tg, used, fixed)
			} else {
				*to = used - fixed
			}
			// the same figure through STATICCALL (no account is created on that path)
			_, _, o, _, err = calRun(nm, []aop{{ID: 1, Op: "call", Kind: "static", Req: 1000000, Tg: tg}}, "call", 1)
			if err != nil || o.err != nil {
				return c, fmt.Errorf("calibration of precompiled contract %d (static): %v %v", tg, err, o.err)
			}
			if got := calGas - o.left - (c.CFrame + c.CStatic + c.CMark); got != *to {
				return c, fmt.Errorf("precompiled contract %d uses %d gas through CALL and %d through STATICCALL", tg, *to, got)
			}
		}
	}
	return c, nil
}
