package c20

// Part (A): replay of the behaviours exported by the EVMFrames model on the real code.

import (
	"bytes"
	"encoding/json"
	"fmt"
	"math/big"
	"sort"
	"strings"

	"github.com/lianxiangcloud/linkchain/libs/common"
	"github.com/lianxiangcloud/linkchain/state"
	"github.com/lianxiangcloud/linkchain/types"
	"github.com/lianxiangcloud/linkchain/vm/evm"
)

// ---- the exported behaviour ---------------------------------------------------

type mTop struct {
	Kind  string `json:"kind"`
	Gas   uint64 `json:"gas"`
	Value int    `json:"value"`
}
type mResult struct {
	Ok     bool   `json:"ok"`
	Cls    string `json:"cls"`
	Left   uint64 `json:"left"`
	Ret    int    `json:"ret"`
	Refund uint64 `json:"refund"` // transfer fees handed back with the result (RefundFee / RefundAllFee)
}
type mFrame struct {
	ID   int    `json:"id"`
	Ok   bool   `json:"ok"`
	Cls  string `json:"cls"`
	Sup  uint64 `json:"sup"`
	Back uint64 `json:"back"`
	Ref  uint64 `json:"ref"`
}
type mWorld struct {
	Bal    []int   `json:"bal"`
	Tok    []int   `json:"tok"`
	Ent    []int   `json:"ent"`
	Nonce  []int   `json:"nonce"`
	St     [][]int `json:"st"`
	Logs   [][]int `json:"logs"`
	Dead   []int   `json:"dead"`
	Code   []int   `json:"code"`
	Ex     []int   `json:"ex"` // native call targets (the last nDyn accounts) present in the state
	Refund uint64  `json:"refund"`
}
type behaviour struct {
	Top    mTop     `json:"top"`
	Ops    []aop    `json:"ops"`
	Result mResult  `json:"result"`
	Frames []mFrame `json:"frames"`
	World  mWorld   `json:"world"`
	Fees   []uint64 `json:"fees"`  // evm.fees at the end
	RFees  []uint64 `json:"rfees"` // evm.refundFees at the end
}

// signature: the kind and failure class of the first failed frame (stable key part).
func (b *behaviour) signature() string {
	kinds := map[int]string{0: "top-" + b.Top.Kind}
	for _, o := range b.Ops {
		if o.Op == "call" || o.Op == "create" {
			kinds[o.ID] = o.Kind
			if o.Tg == tgFresh {
				kinds[o.ID] += "-fresh"
			} else if o.Tg != 0 {
				kinds[o.ID] += "-precompile"
			}
		}
	}
	for _, f := range b.Frames {
		if !f.Ok {
			return kinds[f.ID] + ":" + f.Cls
		}
	}
	return "no-failure"
}

func (b *behaviour) compact() string {
	var s []string
	for _, o := range b.Ops {
		t := fmt.Sprintf("%d@%d:%s", o.ID, o.Frame, o.Op)
		if o.Op == "call" {
			t += fmt.Sprintf("(%s,v=%d,gas=%d", o.Kind, o.V, o.Req)
			if o.Tg != 0 {
				t += fmt.Sprintf(",native=%d", o.Tg)
			}
			t += ")"
		} else if o.Op == "create" {
			t += fmt.Sprintf("(v=%d)", o.V)
		}
		s = append(s, t)
	}
	return fmt.Sprintf("%s(gas=%d,value=%d)[%s]", b.Top.Kind, b.Top.Gas, b.Top.Value, strings.Join(s, " "))
}

// ---- the concrete program -------------------------------------------------------

type program struct {
	root    *frameNode
	topKind string
	nm      names
	rootBal int // model units held by the root contract in the pre-state (top-level call)
	rootTok int
	addrs   map[int]common.Address // model account -> concrete address (filled by bind)
	rootAdr common.Address
	nacc0   int // model accounts 1..nacc0 are the named ones and one per op; nacc0+1..nacc0+nDyn the native call targets
}

func (p *program) accounts() []account {
	ac := []account{
		{addr: p.nm.origin, bal: amount(p.nm.unit, 3)},
		{addr: p.nm.bene, bal: amount(p.nm.unit, 1)},
	}
	if p.topKind == "call" {
		ac = append(ac, account{addr: p.nm.root, code: p.root.code, bal: amount(p.nm.unit, p.rootBal),
			tok: map[common.Address]*big.Int{p.nm.token: amount(p.nm.tunit, p.rootTok)}})
	}
	walk(p.root, func(f *frameNode, n *opNode) {
		if n.Op == "call" && n.child != nil {
			ac = append(ac, account{addr: childAddr(n.ID), code: n.child.code})
		}
	})
	return ac
}

func (p *program) freshState(cold bool) (*state.StateDB, common.Hash, error) {
	return newState(p.accounts(), cold)
}

func (p *program) spec(gas uint64, valueUnits int, tr evm.Tracer) callSpec {
	cs := callSpec{mode: p.topKind, to: p.nm.root, gas: gas, value: amount(p.nm.unit, valueUnits), origin: p.nm.origin, tracer: tr}
	if p.topKind == "create" {
		cs.code = p.root.code
	}
	return cs
}

// bind computes the concrete address of every model account.
func (p *program) bind() {
	p.addrs = map[int]common.Address{1: p.nm.origin, 2: p.nm.bene}
	p.rootAdr = p.nm.root
	if p.topKind == "create" {
		p.rootAdr = createdAddr(p.nm.origin, 0, p.root.code)
	}
	p.addrs[3] = p.rootAdr
	ctx := map[*frameNode]common.Address{p.root: p.rootAdr}
	running := map[*frameNode][]byte{p.root: p.root.code}
	var rec func(f *frameNode)
	rec = func(f *frameNode) {
		for _, n := range f.ops {
			if n.child == nil {
				continue
			}
			var a common.Address
			switch n.child.kind {
			case "call", "static":
				a = childAddr(n.ID)
				ctx[n.child] = a
				running[n.child] = n.child.code
			case "callcode", "delegate":
				a = childAddr(n.ID)
				ctx[n.child] = ctx[f]
				running[n.child] = n.child.code
			case "create":
				init := initCodeOf(running[f], n)
				a = createdAddr(ctx[f], uint64(n.CN), init)
				ctx[n.child] = a
				running[n.child] = init
			}
			p.addrs[3+n.ID] = a
			rec(n.child)
		}
	}
	rec(p.root)
	// the native call targets: absent from the pre-state, bound whether the program names them or not
	if p.nacc0 > 0 {
		for t := 1; t <= nDyn; t++ {
			p.addrs[p.nacc0+t] = p.nm.nativeAddr(t)
		}
	}
}

func newProgram(b *behaviour, nm names) (*program, error) {
	root, err := buildTree(b.Ops, b.Top.Kind)
	if err != nil {
		return nil, err
	}
	if err := assemble(root, nm); err != nil {
		return nil, err
	}
	p := &program{root: root, topKind: b.Top.Kind, nm: nm, rootBal: 1, rootTok: 1}
	if n := len(b.World.Bal); n > nDyn {
		p.nacc0 = n - nDyn
	}
	p.bind()
	return p, nil
}

// ---- comparison ---------------------------------------------------------------

type mismatch struct {
	obs  string // observable class (part of the violation key)
	text string
}

func divUnits(v, unit *big.Int) (int, bool) {
	q, r := new(big.Int).QuoRem(v, unit, new(big.Int))
	if r.Sign() != 0 || !q.IsInt64() {
		return 0, false
	}
	return int(q.Int64()), true
}

// compareWorld checks the StateDB (before the transaction is finalised) against the model world.
func (p *program) compareWorld(st *state.StateDB, w *mWorld, nOps int) *mismatch {
	inSet := func(s []int, a int) bool {
		for _, x := range s {
			if x == a {
				return true
			}
		}
		return false
	}
	created := map[int]bool{}
	walk(p.root, func(f *frameNode, n *opNode) {
		if n.Op == "create" {
			created[3+n.ID] = true
		}
	})
	wantSt := map[[2]int]int{}
	for _, t := range w.St {
		wantSt[[2]int{t[0], t[1]}] = t[2]
	}
	var accts []int
	for a := range p.addrs {
		accts = append(accts, a)
	}
	sort.Ints(accts)
	for _, a := range accts {
		ad := p.addrs[a]
		if a > p.nacc0 && p.nacc0 > 0 {
			// a call target that is not in the pre-state: it exists exactly if the model says
			// a call created it and no failing frame took it back
			if got := st.Exist(ad); got != inSet(w.Ex, a) {
				return &mismatch{"world-exist", fmt.Sprintf("account %d (%x, absent from the pre-state): real Exist=%v Empty=%v, model exists=%v", a, ad[:], got, st.Empty(ad), inSet(w.Ex, a))}
			}
			if want := !inSet(w.Ex, a) || w.Bal[a-1] == 0; st.Empty(ad) != want {
				return &mismatch{"world-exist", fmt.Sprintf("account %d (%x, absent from the pre-state): real Empty=%v, model empty=%v", a, ad[:], st.Empty(ad), want)}
			}
		}
		if got, ok := divUnits(st.GetBalance(ad), p.nm.unit); !ok || got != w.Bal[a-1] {
			return &mismatch{"world-balance", fmt.Sprintf("balance of account %d (%x): real %v, model %d units of %v", a, ad[:4], st.GetBalance(ad), w.Bal[a-1], p.nm.unit)}
		}
		if got, ok := divUnits(st.GetTokenBalance(ad, p.nm.token), p.nm.tunit); !ok || got != w.Tok[a-1] {
			return &mismatch{"world-token", fmt.Sprintf("token balance of account %d (%x): real %v, model %d units of %v", a, ad[:4], st.GetTokenBalance(ad, p.nm.token), w.Tok[a-1], p.nm.tunit)}
		}
		if got := st.GetNonce(ad); got != uint64(w.Nonce[a-1]) {
			return &mismatch{"world-nonce", fmt.Sprintf("nonce of account %d (%x): real %d, model %d", a, ad[:4], got, w.Nonce[a-1])}
		}
		if got := st.HasSuicided(ad); got != inSet(w.Dead, a) {
			return &mismatch{"world-suicided", fmt.Sprintf("suicide mark of account %d (%x): real %v, model %v", a, ad[:4], got, inSet(w.Dead, a))}
		}
		if created[a] || (a == 3 && p.topKind == "create") {
			if got := len(st.GetCode(ad)) > 0; got != inSet(w.Code, a) {
				return &mismatch{"world-code", fmt.Sprintf("code of created account %d (%x): real present=%v, model present=%v", a, ad[:4], got, inSet(w.Code, a))}
			}
		}
		for k := 1; k <= nOps; k++ {
			got := wordInt(st.GetState(ad, slotHash(k)))
			if got != wantSt[[2]int{a, k}] {
				return &mismatch{"world-storage", fmt.Sprintf("storage of account %d (%x) slot %d: real %d, model %d", a, ad[:4], k, got, wantSt[[2]int{a, k}])}
			}
		}
	}
	for _, t := range w.St {
		if _, ok := p.addrs[t[0]]; !ok {
			return &mismatch{"binding", fmt.Sprintf("model storage in unbound account %d", t[0])}
		}
	}
	logs := st.Logs()
	sort.SliceStable(logs, func(i, j int) bool { return logs[i].Index < logs[j].Index })
	if len(logs) != len(w.Logs) {
		return &mismatch{"world-logs", fmt.Sprintf("%d logs, model %d", len(logs), len(w.Logs))}
	}
	for i, l := range logs {
		want := w.Logs[i]
		if l.Address != p.addrs[want[0]] || len(l.Topics) != 1 || wordInt(l.Topics[0][:]) != want[1] {
			return &mismatch{"world-logs", fmt.Sprintf("log %d: real (%x, %x), model (account %d, topic %d)", i, l.Address[:4], l.Topics, want[0], want[1])}
		}
	}
	if got := st.GetRefund(); got != w.Refund {
		return &mismatch{"refund", fmt.Sprintf("refund counter: real %d, model %d", got, w.Refund)}
	}
	return nil
}

// comparePersisted looks at the account records written by finalising the transaction
// (what enters the state hash and the database): the token map of every surviving
// account has an entry for the token exactly if the model's has one - an entry with
// amount zero is still part of the record.
func (p *program) comparePersisted(st *state.StateDB, w *mWorld) *mismatch {
	inSet := func(s []int, a int) bool {
		for _, x := range s {
			if x == a {
				return true
			}
		}
		return false
	}
	dump := st.RawDump()
	// the account records written are exactly those of the accounts the model knows to
	// exist: no frame - a failed one in particular - leaves a record of its own behind
	known := map[string]int{}
	for a, ad := range p.addrs {
		known[fmt.Sprintf("%x", ad[:])] = a
	}
	var extra []string
	for k := range dump.Accounts {
		a, ok := known[k]
		if !ok || (a > p.nacc0 && p.nacc0 > 0 && !inSet(w.Ex, a)) {
			extra = append(extra, k)
		}
	}
	if len(extra) > 0 {
		sort.Strings(extra)
		return &mismatch{"persisted-account-set", fmt.Sprintf("finalising the transaction wrote account record(s) %v which the model does not have (a failed or refused frame left an account behind)", extra)}
	}
	for a := p.nacc0 + 1; p.nacc0 > 0 && a <= p.nacc0+nDyn; a++ {
		ad := p.addrs[a]
		if _, ok := dump.Accounts[fmt.Sprintf("%x", ad[:])]; !ok && inSet(w.Ex, a) {
			return &mismatch{"persisted-account-set", fmt.Sprintf("account %d (%x) was created by a successful call but has no persisted record", a, ad[:])}
		}
	}
	for a, ad := range p.addrs {
		if inSet(w.Dead, a) {
			continue
		}
		acc, ok := dump.Accounts[fmt.Sprintf("%x", ad[:])]
		if !ok {
			if inSet(w.Ent, a) {
				return &mismatch{"persisted-token-entry", fmt.Sprintf("account %d (%x) has no persisted record but the model gives it a token entry", a, ad[:4])}
			}
			continue
		}
		amt, has := acc.Tokens[p.nm.token]
		if has != inSet(w.Ent, a) {
			return &mismatch{"persisted-token-entry", fmt.Sprintf("persisted record of account %d (%x): token map entry present=%v (amount %v), model present=%v", a, ad[:4], has, amt, inSet(w.Ent, a))}
		}
	}
	return nil
}

func clsOf(err error) string {
	switch err {
	case nil:
		return "ok"
	case types.ExecutionReverted:
		return "revert"
	case evm.ErrInsufficientBalance:
		return "balance"
	case evm.ErrDepth:
		return "depth"
	}
	return "fail"
}

type runRecord struct {
	o   outcome
	dg  digest
	pre common.Hash
}

func (r runRecord) same(q runRecord) string {
	switch {
	case r.o.panicv != q.o.panicv:
		return fmt.Sprintf("panic %q vs %q", r.o.panicv, q.o.panicv)
	case fmt.Sprint(r.o.err) != fmt.Sprint(q.o.err):
		return fmt.Sprintf("error %v vs %v", r.o.err, q.o.err)
	case r.o.left != q.o.left:
		return fmt.Sprintf("left-over gas %d vs %d", r.o.left, q.o.left)
	case r.o.refundFee != q.o.refundFee || r.o.refundAll != q.o.refundAll:
		return fmt.Sprintf("refundable fees %d/%d vs %d/%d", r.o.refundFee, r.o.refundAll, q.o.refundFee, q.o.refundAll)
	case !bytes.Equal(r.o.ret, q.o.ret):
		return fmt.Sprintf("return data %x vs %x", r.o.ret, q.o.ret)
	case r.dg != q.dg:
		return fmt.Sprintf("state %v vs %v", r.dg, q.dg)
	}
	return ""
}

// replayOne runs one behaviour under one instantiation and returns the first mismatch.
func replayOne(b *behaviour, inst int, deep bool) (*mismatch, int, error) {
	nm := defaultNames(inst)
	p, err := newProgram(b, nm)
	if err != nil {
		return nil, 0, err
	}
	evals := 0
	run := func(cold bool, check bool) (runRecord, *mismatch, error) {
		st, pre, err := p.freshState(cold)
		if err != nil {
			return runRecord{}, nil, err
		}
		o := invoke(st, p.spec(b.Top.Gas, b.Top.Value, nil))
		evals++
		rr := runRecord{o: o, pre: pre}
		if o.panicv != "" {
			return rr, &mismatch{"panic", "the interpreter panicked: " + o.panicv}, nil
		}
		if o.left > b.Top.Gas {
			return rr, &mismatch{"gas-bound", fmt.Sprintf("left-over gas %d exceeds the gas limit %d", o.left, b.Top.Gas)}, nil
		}
		// the caller of the top frame gets back the left-over gas and the transfer fees the
		// EVM declares refundable (app/state_transition.go adds RefundFee() / RefundAllFee()
		// to tx.Gas): together never more than the gas supplied
		if hb := o.handedBack(); hb > b.Top.Gas || hb < o.left {
			return rr, &mismatch{"gas-bound", fmt.Sprintf("left-over gas %d + refundable transfer fees %d exceed the gas limit %d (error: %v)", o.left, o.refund, b.Top.Gas, o.err)}, nil
		}
		if check {
			r := b.Result
			if (o.err == nil) != r.Ok {
				return rr, &mismatch{"outcome", fmt.Sprintf("top-level frame: real error %v, model ok=%v (%s)", o.err, r.Ok, r.Cls)}, nil
			}
			if got := clsOf(o.err); (r.Cls == "revert" || r.Cls == "balance" || got == "revert" || got == "balance") && got != r.Cls {
				return rr, &mismatch{"outcome", fmt.Sprintf("top-level frame: real failure class %s (%v), model %s", got, o.err, r.Cls)}, nil
			}
			if o.left != r.Left {
				return rr, &mismatch{"gas", fmt.Sprintf("left-over gas: real %d, model %d (limit %d)", o.left, r.Left, b.Top.Gas)}, nil
			}
			if o.refund != r.Refund {
				return rr, &mismatch{"fee-refund", fmt.Sprintf("transfer fees handed back with the result (error %v): real %d (RefundFee %d, RefundAllFee %d), model %d (fees %v, refundFees %v); left-over gas %d, limit %d",
					o.err, o.refund, o.refundFee, o.refundAll, r.Refund, b.Fees, b.RFees, o.left, b.Top.Gas)}, nil
			}
			if want := sumU(b.RFees); o.refundFee != want {
				return rr, &mismatch{"fee-refund", fmt.Sprintf("RefundFee(): real %d, model %d (refundFees %v)", o.refundFee, want, b.RFees)}, nil
			}
			if want := sumU(b.RFees) + sumU(b.Fees); o.refundAll != want {
				return rr, &mismatch{"fee-refund", fmt.Sprintf("RefundAllFee(): real %d, model %d (fees %v, refundFees %v)", o.refundAll, want, b.Fees, b.RFees)}, nil
			}
			if r.Ok || r.Cls == "revert" {
				if got := wordInt(o.ret); got != r.Ret {
					return rr, &mismatch{"return-data", fmt.Sprintf("return data: real %x, model word %d", o.ret, r.Ret)}, nil
				}
			}
			if p.topKind == "create" && o.err == nil && o.created != p.rootAdr {
				return rr, &mismatch{"binding", fmt.Sprintf("created address %x, expected %x", o.created, p.rootAdr)}, nil
			}
			if m := p.compareWorld(st, &b.World, len(b.Ops)); m != nil {
				return rr, m, nil
			}
		}
		rr.dg = takeDigest(st)
		if check {
			if m := p.comparePersisted(st, &b.World); m != nil {
				return rr, m, nil
			}
		}
		if o.err != nil {
			// a failed top-level frame leaves the whole state as it was: finalising the
			// transaction yields the same state hash, logs and refund as finalising an
			// identical state on which nothing ran
			st0, _, err := p.freshState(cold)
			if err != nil {
				return rr, nil, err
			}
			if d0 := takeDigest(st0); rr.dg != d0 {
				return rr, &mismatch{"atomic-root", fmt.Sprintf("top-level frame failed (%v) but the state changed: without the call %v, after it %v", o.err, d0, rr.dg)}, nil
			}
		}
		return rr, nil, nil
	}
	r1, m, err := run(false, true)
	if err != nil || m != nil {
		return m, evals, err
	}
	r2, m, err := run(false, deep)
	if err != nil || m != nil {
		return m, evals, err
	}
	if d := r1.same(r2); d != "" {
		return &mismatch{"determinism", "two runs from identical states differ: " + d}, evals, nil
	}
	if deep {
		r3, m, err := run(true, true)
		if err != nil || m != nil {
			return m, evals, err
		}
		if d := r1.same(r3); d != "" {
			return &mismatch{"determinism", "a run on a state re-opened from its committed root differs from a run on the live state: " + d}, evals, nil
		}
	}
	return nil, evals, nil
}

func sumU(x []uint64) (s uint64) {
	for _, v := range x {
		s += v
	}
	return
}

func parseBehaviour(line string) (*behaviour, error) {
	var b behaviour
	if err := json.Unmarshal([]byte(line), &b); err != nil {
		return nil, err
	}
	return &b, nil
}
