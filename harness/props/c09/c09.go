package c09

// C09 — state snapshots revert exactly and state copies are fully independent.
//
// Model: spec/StateDB/StateDB.tla, the journalled account cache of state.StateDB with up to
// three instances (the original and copies), in both storage modes.  TLC checks on it that
// the code's algorithm (undo journal + validRevisions stack, Copy() = trie + dirty objects)
// reverts exactly, copies exactly and keeps instances independent, and exports
//   - every transition of several bounded exhaustive instances, each as the complete
//     behaviour (BFS path) that leads to it, with the expected observables after every call;
//   - long weighted random histories (StateDBSim.tla, `tlc -simulate`).
// Binding: every exported behaviour is executed on the real state.StateDB through its public
// API (trie mode and flat mode, three tables of concrete values, reopened / flushed / undo-log
// variants); after EVERY call every getter of EVERY live instance is compared with the model.
// After every IntermediateRoot / Commit (and once more at the end of the behaviour, for every
// live instance) the root is compared with the root of a twin that executed the same lineage
// of calls in isolation (own store, no sibling ever touched after a copy).

import (
	"crypto/sha1"
	"encoding/json"
	"fmt"
	"io/ioutil"
	"path/filepath"
	"reflect"
	"regexp"
	"runtime"
	"runtime/debug"
	"sort"
	"strings"
	"sync"
	"sync/atomic"
	"time"

	"verifh/core"
	"verifh/tlc"
)

func init() { core.Register("C09", run) }

// ---- replaying one behaviour ------------------------------------------------------------------

type finding struct {
	violation bool // false: drift (pi_shape)
	key, desc string
	step      int
	record    map[string]interface{}
}

type replayOpt struct {
	finalRoots bool
	rootTwins  bool
}

type replayStats struct {
	steps, twinSteps, rootChecks int
}

var mutators = map[string]bool{"addbal": true, "subbal": true, "setbal": true, "settok": true, "addtok": true, "subtok": true,
	"setnonce": true, "setcred": true, "setcode": true, "setstate": true, "create": true, "suicide": true,
	"addlog": true, "addrefund": true, "subrefund": true}

func obsKey(o string) string {
	if o == "token-balance" {
		return "tokens"
	}
	return o
}

// replay executes the behaviour; it stops at the first finding.
func replay(b behaviour, cfg runCfg, opt replayOpt) (f *finding, st replayStats, infra error) {
	w, err := newWorld(cfg)
	if err != nil {
		return nil, st, err
	}
	defer w.close()
	mode := cfg.mode()
	rec := func(step int, extra map[string]interface{}) map[string]interface{} {
		r := map[string]interface{}{"mode": mode, "delete_empty_objects": cfg.delEmpty, "table": cfg.tab.name,
			"reopened": cfg.reopen, "triedb_flushed": cfg.flush, "undo_log": cfg.wal,
			"calls": b.labels(step), "behaviour": b}
		for k, v := range extra {
			r[k] = v
		}
		return r
	}
	exp := map[int]*obsT{1: &b[0].O}
	if m := observe(cfg, 1, w.insts[1].s, exp[1]); m != nil {
		return &finding{false, "genesis/" + obsKey(m.obs), "the prepared initial state is not the model's: " + m.detail, 0, rec(0, nil)}, st, nil
	}
	alive := func() []int {
		var xs []int
		for x := range w.insts {
			xs = append(xs, x)
		}
		sort.Ints(xs)
		return xs
	}
	sharedTokens := false // some copy shares a Tokens map with its original (aliasing seen through GetAccount)
	// rootCheck compares the root the instance just produced with its isolated twins.
	rootCheck := func(step int, x int, in *inst, root [32]byte, what string) (*finding, error) {
		if !opt.rootTwins {
			return nil, nil
		}
		st.rootChecks++
		st.twinSteps += len(in.ops)
		troot, tw, tww, err := twinRoot(cfg, in.ops)
		if tww != nil {
			defer tww.close()
		}
		if err != nil {
			return nil, err
		}
		if troot != root {
			d := accountDiff(cfg, in.s, tw.s)
			field := d[:strings.Index(d, ":")]
			if sharedTokens && field == "root" {
				// zero entries written through a shared Tokens map change encodings that the running hash
				// of updates remembers even after the account is gone: same mechanism, same key
				field = "tokens"
			}
			return &finding{true, "copy-leak/" + field + "@" + mode,
				fmt.Sprintf("%s mode: %s of instance %d is %x, but %x for a twin that made the same calls in isolation (no sibling instance touched after a copy): %s", mode, what, x, root[:6], troot[:6], d),
				step, rec(step, map[string]interface{}{"instance": x, "root": fmt.Sprintf("%x", root), "twin_root": fmt.Sprintf("%x", troot), "difference": d})}, nil
		}
		// pi_shape: a twin that never made the reverted calls
		if len(in.eff) != len(in.ops) {
			st.twinSteps += len(in.eff)
			eroot, etw, eww, err := twinRoot(cfg, in.eff)
			if eww != nil {
				defer eww.close()
			}
			if err != nil {
				return &finding{false, "root-after-revert/twin-failed", err.Error(), step, nil}, nil
			}
			if eroot != root {
				d := accountDiff(cfg, in.s, etw.s)
				return &finding{false, "root-after-revert/" + d[:strings.Index(d, ":")],
					fmt.Sprintf("%s of an instance that reverted calls differs from the root of a twin that never made them, every getter agrees (%s)", what, d), step, nil}, nil
			}
		}
		return nil, nil
	}
	var drift *finding
	for k := 1; k < len(b); k++ {
		l := b[k].A
		st.steps++
		var res applyRes
		var acting *inst
		switch l.Op {
		case "copy":
			src := w.insts[l.I]
			if src == nil || w.insts[l.J] != nil {
				return nil, st, fmt.Errorf("behaviour copies %d to %d, instances are %v", l.I, l.J, alive())
			}
			func() {
				defer func() {
					if r := recover(); r != nil {
						res.panicked = true
						_, res.runtimeErr = r.(runtime.Error)
						res.panicText = fmt.Sprint(r)
					}
				}()
				w.insts[l.J] = src.copyInst()
				sharedTokens = sharedTokens || sharesTokens(cfg, src.s, w.insts[l.J].s)
			}()
		case "drop":
			delete(w.insts, l.I)
			delete(exp, l.I)
		default:
			acting = w.insts[l.I]
			if acting == nil {
				return nil, st, fmt.Errorf("behaviour calls %s on instance %d, instances are %v", l.Op, l.I, alive())
			}
			h := w.height
			if l.Op == "commit" {
				w.height++
				h = w.height
			}
			res = applyOn(cfg, w.db, acting, l, h)
			acting.track(l, h, reflect.DeepEqual(exp[l.I], &b[k].O))
		}
		switch {
		case l.Op == "badrevert":
			if !res.panicked {
				return &finding{true, "revert-stale-accepted@" + mode,
					fmt.Sprintf("%s mode: RevertToSnapshot accepted revision id %d, which is not (or no longer) valid", mode, l.ID), k,
					rec(k, map[string]interface{}{"failing_call": l})}, st, nil
			}
			if res.runtimeErr {
				return &finding{true, "crash/badrevert@" + mode, "RevertToSnapshot with an invalid revision id failed with a run-time error: " + res.panicText, k,
					rec(k, map[string]interface{}{"failing_call": l, "panic": res.panicText})}, st, nil
			}
		case res.panicked:
			key := "crash/" + l.Op
			if l.Op == "revert" && !res.runtimeErr {
				key = "revert-rejected"
			}
			return &finding{true, key + "@" + mode, fmt.Sprintf("%s mode: %s panicked: %s", mode, l, res.panicText), k,
				rec(k, map[string]interface{}{"failing_call": l, "panic": res.panicText})}, st, nil
		case res.err != nil:
			return &finding{true, "commit-error@" + mode, fmt.Sprintf("%s mode: %s returned %v", mode, l, res.err), k,
				rec(k, map[string]interface{}{"failing_call": l, "error": res.err.Error()})}, st, nil
		}
		if l.Op == "snap" && res.snapID != l.ID && drift == nil {
			drift = &finding{false, "snapshot-id", fmt.Sprintf("Snapshot returned id %d, model %d", res.snapID, l.ID), k, nil}
		}
		if l.Op != "drop" {
			o := b[k].O
			exp[b[k].C] = &o
		}
		if l.Op == "commit" && !cfg.isTrie {
			// one store without versions: the other instances are stale now (the application discards them)
			for _, x := range alive() {
				if x != l.I {
					delete(w.insts, x)
					delete(exp, x)
				}
			}
		}
		for _, x := range alive() {
			want := exp[x]
			if want == nil || want.Al != 1 {
				return nil, st, fmt.Errorf("no expected observables for live instance %d at step %d", x, k)
			}
			var m *mismatch
			var pan interface{}
			func() {
				defer func() { pan = recover() }()
				m = observe(cfg, x, w.insts[x].s, want)
			}()
			if pan != nil {
				return &finding{true, "crash/getter@" + mode, fmt.Sprintf("%s mode: reading instance %d after %s panicked: %v", mode, x, l, pan), k,
					rec(k, map[string]interface{}{"failing_call": l, "panic": fmt.Sprint(pan)})}, st, nil
			}
			if m == nil {
				continue
			}
			ok := obsKey(m.obs)
			ex := map[string]interface{}{"failing_call": l, "instance": x, "observable": m.obs, "mismatch": m.detail, "expected": want}
			switch {
			case ok == "tokens" && sharedTokens && !(l.Op == "copy" && x == l.J):
				// one mechanism, one key: a write through the shared map can also surface later, e.g. when a
				// revert re-installs a journalled object whose map a sibling has written in the meantime
				return &finding{true, "copy-leak/tokens@" + mode,
					fmt.Sprintf("%s mode: a copy shares the Tokens map of its original; after %s on instance %d: %s", mode, l.Op, l.I, m.detail), k, rec(k, ex)}, st, nil
			case l.Op == "copy" && x == l.J:
				cause := ok
				if m.addr > 0 && lastCallOn(w.insts[l.I].eff, m.addr) == "create" {
					// history class: the original's last (unreverted) call on the address is a bare CreateAccount
					cause = "after-bare-create"
				}
				return &finding{true, "copy-inexact/" + cause + "@" + mode, fmt.Sprintf("%s mode: the copy differs from the original right after Copy(): %s", mode, m.detail), k, rec(k, ex)}, st, nil
			case x != l.I || l.Op == "copy":
				return &finding{true, "copy-leak/" + ok + "@" + mode,
					fmt.Sprintf("%s mode: %s on instance %d changed what instance %d observes: %s", mode, l.Op, l.I, x, m.detail), k, rec(k, ex)}, st, nil
			case l.Op == "revert":
				return &finding{true, "revert-inexact/" + ok + "@" + mode,
					fmt.Sprintf("%s mode: after RevertToSnapshot the state is not the state at Snapshot time: %s", mode, m.detail), k, rec(k, ex)}, st, nil
			case l.Op == "snap" || l.Op == "badrevert":
				return &finding{true, "snapshot-mutates/" + ok + "@" + mode, fmt.Sprintf("%s mode: %s changed the state: %s", mode, l.Op, m.detail), k, rec(k, ex)}, st, nil
			default:
				// Did a REVERT leave something behind that only this later call brings to light (a counter,
				// a cache)? Then a twin that never made the reverted calls shows what the model says.
				if acting != nil && len(acting.eff) != len(acting.ops) {
					if agrees, err := twinObserve(cfg, x, acting.eff, want); err == nil && agrees {
						return &finding{true, "revert-inexact/" + ok + "/surfaced-by-" + l.Op + "@" + mode,
							fmt.Sprintf("%s mode: after RevertToSnapshot the state is not the state at Snapshot time - the difference shows at the next %s: %s (a twin that made the same calls without the reverted ones agrees with the specification)", mode, l.Op, m.detail), k, rec(k, ex)}, st, nil
					}
				}
				// the call itself does something else than the specification says: not a statement of C09
				return &finding{false, "model/" + l.Op + "/" + ok, fmt.Sprintf("%s mode, %s: %s", mode, l, m.detail), k, rec(k, ex)}, st, nil
			}
		}
		if res.hasRoot {
			what := "IntermediateRoot"
			if l.Op == "commit" {
				what = "the Commit root"
			}
			rf, err := rootCheck(k, l.I, acting, res.root, what)
			if err != nil {
				return nil, st, err
			}
			if rf != nil {
				if rf.violation {
					return rf, st, nil
				}
				if drift == nil {
					drift = rf
				}
			}
		}
	}
	if opt.finalRoots {
		for _, x := range alive() {
			in := w.insts[x]
			l := label{Op: "iroot", I: x}
			res := applyOn(cfg, w.db, in, l, w.height)
			in.track(l, w.height, false)
			st.steps++
			if res.panicked {
				return &finding{true, "crash/iroot@" + mode, fmt.Sprintf("%s mode: final IntermediateRoot of instance %d panicked: %s", mode, x, res.panicText), len(b),
					rec(len(b), map[string]interface{}{"panic": res.panicText})}, st, nil
			}
			rf, err := rootCheck(len(b), x, in, res.root, "the final IntermediateRoot")
			if err != nil {
				return nil, st, err
			}
			if rf != nil {
				if rf.violation {
					return rf, st, nil
				}
				if drift == nil {
					drift = rf
				}
			}
		}
	}
	return drift, st, nil
}

// lastCallOn returns the last call of the lineage that names the address and changed what the
// model observes (calls like AddTokenBalance(0) on a non-empty account do nothing at all).
func lastCallOn(ops []linOp, a int) string {
	for i := len(ops) - 1; i >= 0; i-- {
		if !ops[i].copyMark && !ops[i].noop && ops[i].lbl.A == a {
			return ops[i].lbl.Op
		}
	}
	return ""
}

// corrupt returns a copy of the behaviour with one expected observable changed at step k.
func corrupt(b behaviour, k int, which int) (behaviour, bool) {
	raw, _ := json.Marshal(b)
	var c behaviour
	if json.Unmarshal(raw, &c) != nil || c[k].O.Al != 1 || len(c[k].O.W) == 0 {
		return nil, false
	}
	v := &c[k].O.W[which%len(c[k].O.W)]
	switch (which / 7) % 6 {
	case 0:
		v.Nonce++
	case 1:
		v.Credits++
	case 2:
		v.Bal++
	case 3:
		v.Tok[0]++
	case 4:
		v.Stor[0] = v.Stor[0]%2 + 1
	default:
		c[k].O.Rf++
	}
	if v.Exist == 0 && (which/7)%6 != 5 {
		v.Exist = 1
	}
	return c, true
}

// ---- the check ------------------------------------------------------------------------------------

type job struct {
	name     string // evidence name
	module   string
	cfgFile  string // base configuration in spec/StateDB
	flat     bool
	delEmpty bool
	steps    int               // override of MaxSteps (0: keep)
	noView   bool              // drop the VIEW: every call sequence is a state of its own, all paths are exported
	consts   map[string]string // further constant overrides
	sim      int               // > 0: number of simulated behaviours
	export   bool
	expect   string // expected violated property ("" = none)
}

// setConst replaces the value of a constant in the text of a configuration file.
func setConst(cfg, name, val string) string {
	re := regexp.MustCompile(`(?m)^(\s*` + name + `\s*=\s*).*$`)
	return re.ReplaceAllString(cfg, "${1}"+val)
}

func tla(b bool) string {
	if b {
		return "TRUE"
	}
	return "FALSE"
}

type counters struct {
	behaviours, steps, twinSteps, rootChecks, nontrivial, controls, controlsCaught int64
}

func run(c *core.Ctx) {
	o := c.Out()
	o.Level = "model_checking"
	o.Rule = "behaviour = one exported behaviour of StateDB.tla (the BFS path to one transition of a bounded exhaustive instance, or one simulated history) executed on the real state.StateDB in one storage mode with one table of concrete values; non-trivial = it contains a RevertToSnapshot, a rejected revert or a Copy; distinct = distinct (configuration, call sequence)"
	o.Assumptions = []string{
		"callers never subtract more than the balance (the model guards Sub* like CanTransfer does)",
		"slot values have no leading zero byte (storage trims them when persisting)",
		"IntermediateRoot and Commit of one behaviour use one deleteEmptyObjects flag",
		"flat mode: a Commit retires every other instance (one store without versions; the application discards them)",
		"the RIPEMD precompile address is not among the instantiated addresses",
	}
	o.Trusted = []string{"TLC", "the Go getters-versus-model comparison", "MemDB", "libs/trie and libs/ser as used by StateDB"}
	if c.Replay != "" {
		runReplayFile(c)
		return
	}
	specDir := c.SpecDir("StateDB")
	// the replay allocates a fresh store, trie and instances per behaviour: collect less often
	defer debug.SetGCPercent(debug.SetGCPercent(400))
	var jobs []job
	for _, flat := range []bool{false, true} {
		m := "trie"
		if flat {
			m = "flat"
		}
		// edges: every transition of the bounded instance (states identified by VIEW), each with the BFS
		// path that leads to it; paths: every call sequence of the family's alphabet up to MaxSteps.
		add := func(name, cfg string, de bool, steps int, paths bool, consts map[string]string) {
			jobs = append(jobs, job{name: name + "/" + m, module: "StateDB", cfgFile: cfg, flat: flat, delEmpty: de, steps: steps,
				noView: paths, consts: consts, export: true})
		}
		if !c.Thorough() {
			add("all-edges3", "StateDB.cfg", false, 0, false, nil)
			if !flat {
				add("one-edges4", "StateDB_one.cfg", false, 0, false, nil) // single instance: flat-mode specifics are in "life"
			}
			add("copy-paths4", "StateDB_copy.cfg", false, 0, true, nil)
			if !flat {
				add("logs-paths8", "StateDB_logs.cfg", false, 0, true, nil) // the log lists do not depend on the storage mode
				add("logrev-paths6", "StateDB_logrev.cfg", false, 0, true, nil)
			}
			add("life-edges5", "StateDB_life.cfg", false, 0, false, nil)
			if flat {
				add("life-edges5-del", "StateDB_life.cfg", true, 0, false, nil)
			}
		} else {
			wide := map[string]string{"SetV": "{0, 2}"}
			add("all-edges3", "StateDB.cfg", false, 0, false, wide)
			if flat {
				add("all-edges3-del", "StateDB.cfg", true, 0, false, wide)
				add("one-edges4", "StateDB_one.cfg", false, 0, false, nil)
			} else {
				add("one-edges4", "StateDB_one.cfg", false, 0, false, wide)
			}
			add("copy-paths4", "StateDB_copy.cfg", false, 0, true, nil)
			if !flat {
				add("logs-paths9", "StateDB_logs.cfg", false, 9, true, nil)
				add("logrev-paths7", "StateDB_logrev.cfg", false, 7, true, nil)
			}
			if flat {
				add("life-paths5", "StateDB_life.cfg", false, 0, true, nil)
				add("life-paths5-del", "StateDB_life.cfg", true, 0, true, nil)
			} else {
				add("life-edges5", "StateDB_life.cfg", false, 0, false, nil)
			}
		}
		if flat {
			add("fcopy-paths", "StateDB_fcopy.cfg", false, 0, true, nil)
		}
		for _, de := range []bool{false, true} {
			if !c.Thorough() && de != flat {
				continue // quick tier: trie/del=false and flat/del=true
			}
			jobs = append(jobs, job{name: fmt.Sprintf("sim/%s/del=%v", m, de), module: "StateDBSim", cfgFile: "StateDBSim.cfg", flat: flat, delEmpty: de,
				sim: c.Pick(40, 600), export: true})
		}
	}
	// the two deviations of the code, as coded: TLC must report what the replay finds on the code
	jobs = append(jobs, job{name: "coded-reset", module: "StateDB", cfgFile: "StateDB_coded_reset.cfg", expect: "CopyExact"})
	jobs = append(jobs, job{name: "coded-flat", module: "StateDB", cfgFile: "StateDB_coded_flat.cfg", flat: true, expect: "RevertExact"})

	type work struct {
		line string
		jb   *job
		n    int
	}
	workCh := make(chan work, 4096)
	var cnt counters
	var infraOnce sync.Once
	var seen sync.Map // distinct non-trivial behaviours
	driftCount := map[string]int{}
	var dmu sync.Mutex
	perJob := map[string]*[3]int64{} // behaviours, steps, findings
	for i := range jobs {
		perJob[jobs[i].name] = &[3]int64{}
	}
	nWorkers := runtime.NumCPU() - 3
	if nWorkers < 2 {
		nWorkers = 2
	}
	var wg sync.WaitGroup
	for wi := 0; wi < nWorkers; wi++ {
		wg.Add(1)
		go func() {
			defer wg.Done()
			for wk := range workCh {
				b, err := parseBehaviour(wk.line)
				if err != nil {
					infraOnce.Do(func() { c.Infra("%s: bad exported behaviour: %v", wk.jb.name, err) })
					continue
				}
				h := sha1.Sum([]byte(wk.line))
				pick := int(h[0]) + int(h[1])<<8 + int(c.Seed%251)
				var tabs []*table
				tabs = []*table{tables[pick%len(tables)]}
				nontrivial := false
				for _, s := range b {
					nontrivial = nontrivial || s.A.Op == "revert" || s.A.Op == "badrevert" || s.A.Op == "copy"
				}
				if nontrivial {
					var lk [20]byte = sha1.Sum([]byte(wk.jb.name + strings.Join(b.labels(len(b)), "")))
					if _, dup := seen.LoadOrStore(lk, true); !dup {
						atomic.AddInt64(&cnt.nontrivial, 1)
					}
				}
				for ti, tab := range tabs {
					cfg := runCfg{isTrie: !wk.jb.flat, delEmpty: wk.jb.delEmpty, tab: tab, genesis: true,
						reopen: (pick>>3+ti)%2 == 0, flush: (pick>>4)%2 == 0, wal: wk.jb.flat && pick%97 == 0}
					opt := replayOpt{rootTwins: true, finalRoots: wk.jb.sim > 0 || c.Thorough() || pick%4 == 0}
					f, st, ierr := replay(b, cfg, opt)
					atomic.AddInt64(&cnt.behaviours, 1)
					atomic.AddInt64(&cnt.steps, int64(st.steps))
					atomic.AddInt64(&cnt.twinSteps, int64(st.twinSteps))
					atomic.AddInt64(&cnt.rootChecks, int64(st.rootChecks))
					pj := perJob[wk.jb.name]
					atomic.AddInt64(&pj[0], 1)
					atomic.AddInt64(&pj[1], int64(st.steps))
					if ierr != nil {
						infraOnce.Do(func() { c.Infra("%s: replay of %v could not be carried out: %v", wk.jb.name, b.labels(len(b)), ierr) })
						continue
					}
					if f != nil {
						atomic.AddInt64(&pj[2], 1)
						if f.violation {
							c.Violate(f.key, f.desc, f.record)
						} else {
							dmu.Lock()
							driftCount[f.key]++
							first := driftCount[f.key] == 1
							dmu.Unlock()
							if first {
								calls := b.labels(f.step)
								if len(calls) > 10 {
									calls = append([]string{fmt.Sprintf("(%d earlier calls)", len(calls)-10)}, calls[len(calls)-10:]...)
								}
								c.Drift("%s: %s [%s, calls %v]", f.key, f.desc, wk.jb.name, calls)
							}
						}
					}
					// negative control: the same behaviour with one expected value changed must be rejected at that step
					if wk.n%40 == 0 && len(b) > 2 && f == nil && ti == 0 {
						k := 1 + pick%(len(b)-1)
						if cb, ok := corrupt(b, k, pick>>2); ok {
							atomic.AddInt64(&cnt.controls, 1)
							cf, _, _ := replay(cb, cfg, replayOpt{})
							if cf != nil && cf.step == k {
								atomic.AddInt64(&cnt.controlsCaught, 1)
							} else {
								infraOnce.Do(func() {
									c.Infra("vacuous binding: %s with the expected observables of step %d changed was not rejected there (%+v)", b.labels(len(b)), k, cf)
								})
							}
						}
					}
				}
				if (wk.jb.sim > 0 && wk.n == 3) || wk.n == 9000 {
					c.Sample(map[string]interface{}{"configuration": wk.jb.name, "calls": b.labels(len(b)), "expected_after_last_call": b[len(b)-1].O})
				}
			}
		}()
	}

	// TLC runs, several at a time; exported lines go straight to the replay workers
	sem := make(chan struct{}, c.Pick(8, 6))
	var twg sync.WaitGroup
	var emu sync.Mutex
	tlcInfo := map[string]interface{}{}
	for i := range jobs {
		jb := &jobs[i]
		twg.Add(1)
		go func() {
			defer twg.Done()
			sem <- struct{}{}
			defer func() { <-sem }()
			raw, err := ioutil.ReadFile(filepath.Join(specDir, jb.cfgFile))
			if err != nil {
				c.Infra("%v", err)
				return
			}
			cfg := setConst(setConst(string(raw), "Flat", tla(jb.flat)), "DeleteEmpty", tla(jb.delEmpty))
			if jb.steps > 0 {
				cfg = setConst(cfg, "MaxSteps", fmt.Sprint(jb.steps))
			}
			for k, v := range jb.consts {
				cfg = setConst(cfg, k, v)
			}
			if jb.noView {
				cfg = regexp.MustCompile(`(?m)^VIEW .*$`).ReplaceAllString(cfg, "")
			}
			opt := tlc.Options{SpecDir: specDir, Module: jb.module, Config: "gen.cfg", Files: map[string][]byte{"gen.cfg": []byte(cfg)},
				Workers: 1, Timeout: c.MinutesT(6, 26), HeapMB: 3072}
			var n int64
			if jb.export {
				opt.OnLine = func(line string) {
					n++
					workCh <- work{line, jb, int(n)}
				}
			}
			if jb.sim > 0 {
				opt.Simulate = fmt.Sprintf("num=%d", jb.sim)
				opt.Depth = 200
				opt.Seed = c.Seed*7919 + int64(len(jb.name))
			}
			res := c.TLC(opt)
			if res == nil {
				return
			}
			emu.Lock()
			tlcInfo[jb.name] = map[string]interface{}{"generated": res.Generated, "distinct": res.Distinct, "depth": res.Depth,
				"exported_behaviours": n, "wall_s": res.Wall, "violated": res.Violated}
			emu.Unlock()
			switch {
			case jb.expect != "":
				if !strings.Contains(res.Violated, jb.expect) {
					c.Drift("model run %s: expected TLC to report %s violated (the as-coded deviation), got %q", jb.name, jb.expect, res.Violated)
				}
			case res.Violated != "" || res.Deadlock || res.TimedOut || !res.Finished:
				c.Infra("model run %s (%s): %s\n%s", jb.name, jb.cfgFile, res.Describe(), res.Tail)
			case jb.export && n == 0:
				c.Infra("model run %s exported no behaviour", jb.name)
			case jb.sim > 0 && int(n) < jb.sim:
				c.Infra("model run %s: %d of %d simulated behaviours reached their full length", jb.name, n, jb.sim)
			}
		}()
	}
	done := make(chan struct{})
	go func() { twg.Wait(); close(workCh); wg.Wait(); close(done) }()
	select {
	case <-done:
	case <-time.After(c.MinutesT(9, 29)):
		c.Infra("timed out (%d behaviours replayed so far)", atomic.LoadInt64(&cnt.behaviours))
		return
	}

	o.Exhaustive = true
	o.Traces = int(cnt.behaviours)
	o.Evaluations = int(cnt.steps)
	o.Distinct = int(cnt.nontrivial)
	c.SetExtra("tlc", tlcInfo)
	pj := map[string]interface{}{}
	for k, v := range perJob {
		if v[0] > 0 {
			pj[k] = map[string]int64{"behaviours": v[0], "calls": v[1], "findings": v[2]}
		}
	}
	c.SetExtra("replayed", pj)
	c.SetExtra("twin_root_checks", cnt.rootChecks)
	c.SetExtra("twin_calls", cnt.twinSteps)
	c.SetExtra("negative_controls", map[string]int64{"run": cnt.controls, "rejected": cnt.controlsCaught})
	c.SetExtra("drift_counts", driftCount)
	var tn []string
	for _, t := range tables {
		tn = append(tn, t.name)
	}
	c.SetExtra("instantiation_tables", tn)
	if cnt.controls == 0 {
		c.Infra("no negative control was run")
	}
	o.Explanation = "root-after-revert drift: SetTokenBalance inserts a zero entry into the account's Tokens map before journalling and the revert writes the zero back, so the encoded account (and the root) of an instance that reverted a token write differs from a twin that never made it while every getter agrees; IntermediateRoot hashes the updates since the last Hash() call (including those of an earlier Commit), so the difference can outlive the account (class root-after-revert/root). The property names the getters, not the root, for reverts."
}

// runReplayFile re-executes the behaviour of a replay record.
func runReplayFile(c *core.Ctx) {
	raw, err := ioutil.ReadFile(c.Replay)
	if err != nil {
		c.Infra("%v", err)
		return
	}
	var r struct {
		Record struct {
			Mode      string    `json:"mode"`
			DelEmpty  bool      `json:"delete_empty_objects"`
			Table     string    `json:"table"`
			Reopened  bool      `json:"reopened"`
			Flushed   bool      `json:"triedb_flushed"`
			UndoLog   bool      `json:"undo_log"`
			Behaviour behaviour `json:"behaviour"`
		} `json:"record"`
	}
	if err := json.Unmarshal(raw, &r); err != nil || len(r.Record.Behaviour) == 0 {
		c.Infra("replay file %s: no behaviour (%v)", c.Replay, err)
		return
	}
	cfg := runCfg{isTrie: r.Record.Mode == "trie", delEmpty: r.Record.DelEmpty, genesis: true, reopen: r.Record.Reopened, flush: r.Record.Flushed, wal: r.Record.UndoLog, tab: tables[0]}
	for _, t := range tables {
		if t.name == r.Record.Table {
			cfg.tab = t
		}
	}
	f, st, ierr := replay(r.Record.Behaviour, cfg, replayOpt{rootTwins: true, finalRoots: true})
	c.Out().Traces, c.Out().Evaluations = 1, st.steps
	if ierr != nil {
		c.Infra("%v", ierr)
		return
	}
	if f != nil && f.violation {
		c.Violate(f.key, f.desc, f.record)
	} else if f != nil {
		c.Drift("%s: %s", f.key, f.desc)
	}
}
