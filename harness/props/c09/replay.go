package c09

// Replay of StateDB.tla behaviours on the real state.StateDB.
//
// A behaviour is what the specification exported: the sequence of calls, and after every
// call the observables of the instance the call defines (its own instance, the new copy).
// A world holds the real instances (all on one store, exactly like Copy() leaves them),
// executes the calls through the public API with the concrete values of one instantiation
// table, and after EVERY call reads every getter of EVERY live instance and compares it
// with what the model says (instances the call did not define must still show what they
// showed before: that is copy independence).

import (
	"bytes"
	"encoding/json"
	"fmt"
	"io/ioutil"
	"math/big"
	"os"
	"reflect"
	"runtime"
	"sort"
	"strings"

	"github.com/lianxiangcloud/linkchain/libs/common"
	"github.com/lianxiangcloud/linkchain/libs/crypto"
	dbm "github.com/lianxiangcloud/linkchain/libs/db"
	"github.com/lianxiangcloud/linkchain/state"
	"github.com/lianxiangcloud/linkchain/types"
)

// ---- exported behaviours ---------------------------------------------------------------

type label struct {
	Op  string `json:"op"`
	I   int    `json:"i,omitempty"`
	J   int    `json:"j,omitempty"`
	A   int    `json:"a,omitempty"`
	T   int    `json:"t,omitempty"`
	S   int    `json:"s,omitempty"`
	V   int    `json:"v,omitempty"`
	K   int    `json:"k,omitempty"`
	ID  int    `json:"id,omitempty"`
	Tx  int    `json:"tx,omitempty"`
	Res int    `json:"res,omitempty"`
}

func (l label) String() string {
	b, _ := json.Marshal(l)
	return string(b)
}

// acctView is <<exist, nonce, credits, balance, token balances, code, storage, suicided>>.
type acctView struct {
	Exist, Nonce, Credits, Bal int
	Tok                        []int
	Code                       int
	Stor                       []int
	Sui                        int
}

func (v *acctView) UnmarshalJSON(b []byte) error {
	var raw []json.RawMessage
	if err := json.Unmarshal(b, &raw); err != nil {
		return err
	}
	if len(raw) != 8 {
		return fmt.Errorf("account view with %d fields", len(raw))
	}
	dst := []interface{}{&v.Exist, &v.Nonce, &v.Credits, &v.Bal, &v.Tok, &v.Code, &v.Stor, &v.Sui}
	for i, r := range raw {
		if err := json.Unmarshal(r, dst[i]); err != nil {
			return err
		}
	}
	return nil
}

func (v acctView) MarshalJSON() ([]byte, error) {
	return json.Marshal([]interface{}{v.Exist, v.Nonce, v.Credits, v.Bal, v.Tok, v.Code, v.Stor, v.Sui})
}

type obsT struct {
	Al int        `json:"al"`
	W  []acctView `json:"w"`
	Lg [][][]int  `json:"lg"` // per tx: <<by, index>>
	Rf int        `json:"rf"`
	V  []int      `json:"v"` // valid revision ids
}

type stepT struct {
	A label `json:"a"`
	C int   `json:"c"`
	O obsT  `json:"o"`
}

type behaviour []stepT

func parseBehaviour(line string) (behaviour, error) {
	var b behaviour
	if err := json.Unmarshal([]byte(line), &b); err != nil {
		return nil, err
	}
	if len(b) == 0 || b[0].A.Op != "init" {
		return nil, fmt.Errorf("behaviour does not start with init")
	}
	return b, nil
}

func (b behaviour) labels(n int) []string {
	var out []string
	for i := 1; i < len(b) && i <= n; i++ {
		out = append(out, b[i].A.String())
	}
	return out
}

// ---- instantiation tables ----------------------------------------------------------------

type table struct {
	name      string
	addrs     []common.Address
	toks      []common.Address
	slots     []common.Hash
	unit      *big.Int // balance / token amount v -> v*unit
	nonceUnit uint64   // nonce v -> v*nonceUnit
	gasUnit   uint64
	codes     [][]byte // code ids 1,2
	vals      [][]byte // slot values 1,2 (no leading zero byte: storage trims them when persisting)
	txs       []common.Hash
	nilZero   bool // "no code" / "empty slot" passed as nil (true) or as []byte{} (false)
}

func rep(b byte, n int) []byte { return bytes.Repeat([]byte{b}, n) }

func bigPow2(n uint) *big.Int { return new(big.Int).Lsh(big.NewInt(1), n) }

var tables = []*table{
	{
		name:  "plain",
		addrs: []common.Address{common.BytesToAddress(rep(0x11, 20)), common.BytesToAddress(rep(0x22, 20))},
		toks:  []common.Address{common.BytesToAddress([]byte{0xaa}), common.BytesToAddress([]byte{0xbb})},
		slots: []common.Hash{common.BytesToHash([]byte{1}), common.BytesToHash([]byte{2})},
		unit:  big.NewInt(1), nonceUnit: 1, gasUnit: 1,
		codes: [][]byte{{0x60, 0x00}, {0xfe}},
		vals:  [][]byte{{0x01}, {0x02}},
		txs:   []common.Hash{common.BytesToHash(rep(0xa1, 32)), common.BytesToHash(rep(0xa2, 32))}, nilZero: true,
	},
	{
		// boundary values: the zero address and 0xff..ff as accounts, a token whose address is an
		// account's address, the zero and the all-ones slot, amounts around 2^128, nonces up to
		// 2^64-2, refunds up to 3*2^61, a one-byte 0x00 code, a 24 KiB code, the empty tx hash
		name:  "boundary",
		addrs: []common.Address{common.EmptyAddress, common.BytesToAddress(rep(0xff, 20))},
		toks:  []common.Address{common.BytesToAddress(rep(0xff, 20)), common.BytesToAddress([]byte{0x01})},
		slots: []common.Hash{common.EmptyHash, common.BytesToHash(rep(0xff, 32))},
		unit:  bigPow2(128), nonceUnit: 1<<63 - 1, gasUnit: 1 << 61,
		codes: [][]byte{{0x00}, rep(0x5b, 24576)},
		vals:  [][]byte{rep(0xff, 32), {0x80}},
		txs:   []common.Hash{common.EmptyHash, common.BytesToHash(rep(0xff, 32))}, nilZero: false,
	},
	{
		// neighbouring keys: accounts and tokens that differ in the last bit and coincide with
		// each other, slots that differ in one bit, 10^18+1 as amount unit, long slot values
		name:  "neighbours",
		addrs: []common.Address{common.BytesToAddress(append(rep(0xab, 19), 0x00)), common.BytesToAddress(append(rep(0xab, 19), 0x01))},
		toks:  []common.Address{common.BytesToAddress(append(rep(0xab, 19), 0x01)), common.BytesToAddress(append(rep(0xab, 19), 0x00))},
		slots: []common.Hash{common.BytesToHash(append(rep(0x01, 31), 0x00)), common.BytesToHash(append(rep(0x01, 31), 0x01))},
		unit:  new(big.Int).Add(new(big.Int).Exp(big.NewInt(10), big.NewInt(18), nil), big.NewInt(1)), nonceUnit: 1 << 32, gasUnit: 21000,
		codes: [][]byte{{0x00, 0x61, 0x73, 0x6d, 0x01, 0x00, 0x00, 0x00}, {0x60, 0x60, 0x60, 0x40}},
		vals:  [][]byte{append([]byte{0x01}, rep(0x00, 31)...), rep(0x7f, 33)},
		txs:   []common.Hash{common.BytesToHash([]byte{0x01}), common.BytesToHash([]byte{0x02})}, nilZero: true,
	},
}

func (t *table) addr(a int) common.Address { return t.addrs[a-1] }
func (t *table) tok(x int) common.Address {
	if x == 0 {
		return common.EmptyAddress // the native token
	}
	return t.toks[x-1]
}
func (t *table) amount(v int) *big.Int { return new(big.Int).Mul(big.NewInt(int64(v)), t.unit) }
func (t *table) nonce(v int) uint64    { return uint64(v) * t.nonceUnit }
func (t *table) gas(v int) uint64      { return uint64(v) * t.gasUnit }
func (t *table) zero() []byte {
	if t.nilZero {
		return nil
	}
	return []byte{}
}
func (t *table) code(k int) []byte {
	if k == 0 {
		return t.zero()
	}
	return t.codes[k-1]
}
func (t *table) sval(v int) []byte {
	if v == 0 {
		return t.zero()
	}
	return t.vals[v-1]
}
func (t *table) logData(by int) []byte { return []byte{0x4c, byte(by)} }

// ---- the real instances --------------------------------------------------------------------

type runCfg struct {
	isTrie   bool
	delEmpty bool
	tab      *table
	reopen   bool // open instance 1 with state.New on the committed store instead of keeping the committing instance
	flush    bool // trie mode: TrieDB().Commit(root) after every Commit, as the application does
	wal      bool // flat mode: enable the undo log (cache > 0) in a private directory
	genesis  bool
}

func (c runCfg) mode() string {
	if c.isTrie {
		return "trie"
	}
	return "flat"
}

// dirDB gives a MemDB a directory of its own: with cache > 0 the flat store opens
// <Dir()>/kvState.wal, which for a plain MemDB would land in the working directory.
type dirDB struct {
	*dbm.MemDB
	dir string
}

func (d dirDB) Dir() string { return d.dir }

type linOp struct {
	lbl      label
	height   uint64
	copyMark bool
	noop     bool // the model's observables did not change
}

type inst struct {
	s        *state.StateDB
	snap     map[int]int // model revision id -> id returned by Snapshot()
	ops      []linOp     // everything that produced this instance (own calls and its ancestors' calls before the copy)
	eff      []linOp     // the same without the calls that were reverted
	effMarks []int
}

type world struct {
	cfg    runCfg
	db     state.Database
	insts  map[int]*inst
	height uint64
	dir    string
}

func (w *world) close() {
	if w.dir != "" {
		os.RemoveAll(w.dir)
	}
}

func newWorld(cfg runCfg) (w *world, err error) {
	defer func() {
		if r := recover(); r != nil {
			err = fmt.Errorf("building the initial state panicked: %v", r)
		}
	}()
	w = &world{cfg: cfg, insts: map[int]*inst{}}
	var mem dbm.DB = dbm.NewMemDB()
	cache := 0
	if cfg.wal && !cfg.isTrie {
		dir, e := ioutil.TempDir("", "c09wal")
		if e != nil {
			return nil, e
		}
		w.dir = dir
		mem = dirDB{dbm.NewMemDB(), dir}
		cache = 128
	}
	w.db = state.NewKeyValueDBWithCache(mem, cache, cfg.isTrie, 0)
	s, err := state.New(common.EmptyHash, w.db)
	if err != nil {
		return nil, err
	}
	if cfg.genesis {
		// must produce GenesisBase of the specification
		t := cfg.tab
		s.AddBalance(t.addr(1), t.amount(1))
		s.SetTokenBalance(t.addr(1), t.tok(1), t.amount(1))
		s.SetNonce(t.addr(1), t.nonce(1))
		s.SetCode(t.addr(1), t.code(1))
		s.SetState(t.addr(1), t.slots[0], t.sval(1))
		w.height++
		root, err := s.Commit(cfg.delEmpty, w.height)
		if err != nil {
			return nil, err
		}
		if cfg.isTrie && cfg.flush {
			if err := w.db.TrieDB().Commit(root, false); err != nil {
				return nil, err
			}
		}
		if cfg.reopen {
			if s, err = state.New(root, w.db); err != nil {
				return nil, err
			}
		}
	}
	w.insts[1] = &inst{s: s, snap: map[int]int{}}
	return w, nil
}

type applyRes struct {
	panicked   bool
	runtimeErr bool
	panicText  string
	err        error
	root       common.Hash
	hasRoot    bool
	snapID     int
}

// applyOn executes one call of the specification on one real instance.
func applyOn(cfg runCfg, db state.Database, in *inst, l label, height uint64) (res applyRes) {
	defer func() {
		if r := recover(); r != nil {
			res.panicked = true
			if _, ok := r.(runtime.Error); ok {
				res.runtimeErr = true
				buf := make([]byte, 4096)
				n := runtime.Stack(buf, false)
				res.panicText = fmt.Sprintf("%v\n%s", r, buf[:n])
			} else {
				res.panicText = fmt.Sprint(r)
			}
		}
	}()
	t := cfg.tab
	s := in.s
	switch l.Op {
	case "addbal":
		s.AddBalance(t.addr(l.A), t.amount(l.V))
	case "subbal":
		s.SubBalance(t.addr(l.A), t.amount(l.V))
	case "setbal":
		s.SetBalance(t.addr(l.A), t.amount(l.V))
	case "settok":
		s.SetTokenBalance(t.addr(l.A), t.tok(l.T), t.amount(l.V))
	case "addtok":
		s.AddTokenBalance(t.addr(l.A), t.tok(l.T), t.amount(l.V))
	case "subtok":
		s.SubTokenBalance(t.addr(l.A), t.tok(l.T), t.amount(l.V))
	case "setnonce":
		s.SetNonce(t.addr(l.A), t.nonce(l.V))
	case "setcred":
		s.SetCredits(t.addr(l.A), uint64(l.V))
	case "setcode":
		s.SetCode(t.addr(l.A), t.code(l.V))
	case "setstate":
		s.SetState(t.addr(l.A), t.slots[l.S-1], t.sval(l.V))
	case "create":
		s.CreateAccount(t.addr(l.A))
	case "suicide":
		s.Suicide(t.addr(l.A))
	case "addlog":
		s.Prepare(t.txs[l.Tx-1], common.BytesToHash([]byte{0xb1}), l.Tx)
		s.AddLog(&types.Log{Address: t.addr(1), Topics: []common.Hash{common.BytesToHash([]byte{byte(l.I)})}, Data: t.logData(l.I)})
	case "addrefund":
		s.AddRefund(t.gas(l.V))
	case "subrefund":
		s.SubRefund(t.gas(l.V))
	case "snap":
		res.snapID = s.Snapshot()
		in.snap[l.ID] = res.snapID
	case "revert":
		id, ok := in.snap[l.ID]
		if !ok {
			id = l.ID
		}
		s.RevertToSnapshot(id)
	case "badrevert":
		id, ok := in.snap[l.ID]
		if !ok {
			id = l.ID
		}
		s.RevertToSnapshot(id)
	case "iroot":
		res.root = s.IntermediateRoot(cfg.delEmpty)
		res.hasRoot = true
	case "commit":
		res.root, res.err = s.Commit(cfg.delEmpty, height)
		res.hasRoot = true
		if res.err == nil && cfg.isTrie && cfg.flush {
			res.err = db.TrieDB().Commit(res.root, false)
		}
	default:
		panic("c09: unknown call " + l.Op)
	}
	return
}

// track records the call in the lineage of the instance (for the twins).
func (in *inst) track(l label, height uint64, noop bool) {
	op := linOp{lbl: l, height: height, noop: noop}
	in.ops = append(in.ops, op)
	switch l.Op {
	case "badrevert":
	case "snap":
		in.effMarks = append(in.effMarks, len(in.eff))
	case "revert":
		k := l.K
		if k >= 1 && k <= len(in.effMarks) {
			in.eff = in.eff[:in.effMarks[k-1]]
			in.effMarks = in.effMarks[:k-1]
		}
	case "iroot", "commit":
		in.effMarks = nil
		in.eff = append(in.eff, op)
	default:
		in.eff = append(in.eff, op)
	}
}

func (in *inst) copyInst() *inst {
	c := &inst{s: in.s.Copy(), snap: map[int]int{}}
	c.ops = append(append([]linOp{}, in.ops...), linOp{copyMark: true})
	c.eff = append(append([]linOp{}, in.eff...), linOp{copyMark: true})
	return c
}

// twinRoot executes a lineage in isolation (a fresh store, no sibling is ever touched after a
// copy) and returns the root its last call (IntermediateRoot or Commit) produced.
func twinRoot(cfg runCfg, ops []linOp) (root common.Hash, tw *inst, w *world, err error) {
	c := cfg
	c.wal = false
	w, err = newWorld(c)
	if err != nil {
		return
	}
	cur := w.insts[1]
	var last applyRes
	for _, op := range ops {
		if op.copyMark {
			var pan interface{}
			func() {
				defer func() { pan = recover() }()
				cur = &inst{s: cur.s.Copy(), snap: map[int]int{}}
			}()
			if pan != nil {
				return root, nil, w, fmt.Errorf("twin: Copy panicked: %v", pan)
			}
			continue
		}
		if op.lbl.Op == "badrevert" {
			continue
		}
		last = applyOn(c, w.db, cur, op.lbl, op.height)
		if last.panicked || last.err != nil {
			return root, nil, w, fmt.Errorf("twin: %s failed: %s %v", op.lbl, last.panicText, last.err)
		}
	}
	if !last.hasRoot {
		return root, cur, w, fmt.Errorf("twin: lineage does not end with a root computation")
	}
	return last.root, cur, w, nil
}

// twinObserve executes the EFFECTIVE lineage of an instance (its calls minus everything it
// reverted) in isolation and reports whether that twin shows the expected observables.
func twinObserve(cfg runCfg, x int, eff []linOp, want *obsT) (agrees bool, err error) {
	_, tw, w, e := twinRoot(cfg, eff)
	if w != nil {
		defer w.close()
	}
	if tw == nil {
		return false, e
	}
	var pan interface{}
	var m *mismatch
	func() {
		defer func() { pan = recover() }()
		m = observe(cfg, x, tw.s, want)
	}()
	if pan != nil {
		return false, fmt.Errorf("twin: getter panicked: %v", pan)
	}
	return m == nil, nil
}

// ---- observation -------------------------------------------------------------------------------

type mismatch struct {
	inst   int
	addr   int    // abstract address the observable belongs to (0: logs, refund)
	obs    string // stable name of the observable
	detail string
}

func eqBytes(a, b []byte) bool { return bytes.Equal(a, b) } // nil and empty are the same value

// observe compares every getter of instance x with the model's observables.
func observe(cfg runCfg, x int, s *state.StateDB, want *obsT) *mismatch {
	t := cfg.tab
	cur := 0
	mm := func(obs, f string, a ...interface{}) *mismatch {
		return &mismatch{inst: x, addr: cur, obs: obs, detail: fmt.Sprintf(f, a...)}
	}
	for ai, v := range want.W {
		cur = ai + 1
		addr := t.addr(ai + 1)
		pre := fmt.Sprintf("instance %d address #%d (%x): ", x, ai+1, addr[:])
		if got := s.Exist(addr); got != (v.Exist == 1) {
			return mm("exists", pre+"Exist=%v, model %v", got, v.Exist == 1)
		}
		acc := s.GetAccount(addr)
		if (acc != nil) != (v.Exist == 1) {
			return mm("exists", pre+"GetAccount nil=%v, model exist=%v", acc == nil, v.Exist == 1)
		}
		wantBal := t.amount(v.Bal)
		if got := s.GetBalance(addr); got.Cmp(wantBal) != 0 {
			return mm("balance", pre+"GetBalance=%v, model %v", got, wantBal)
		}
		if got := s.GetTokenBalance(addr, common.EmptyAddress); got.Cmp(wantBal) != 0 {
			return mm("balance", pre+"GetTokenBalance(native)=%v, model %v", got, wantBal)
		}
		if acc != nil && acc.Balance.Cmp(wantBal) != 0 {
			return mm("balance", pre+"GetAccount.Balance=%v, model %v", acc.Balance, wantBal)
		}
		wantTV := map[common.Address]*big.Int{}
		if v.Bal > 0 {
			wantTV[common.EmptyAddress] = wantBal
		}
		for ti, tv := range v.Tok {
			tok := t.tok(ti + 1)
			w := t.amount(tv)
			if got := s.GetTokenBalance(addr, tok); got.Cmp(w) != 0 {
				return mm("token-balance", pre+"GetTokenBalance(token #%d)=%v, model %v", ti+1, got, w)
			}
			if tv > 0 {
				wantTV[tok] = w
			}
			if acc != nil {
				g := acc.Tokens[tok]
				if g == nil {
					g = common.Big0
				}
				if g.Cmp(w) != 0 {
					return mm("token-balance", pre+"GetAccount.Tokens[token #%d]=%v, model %v", ti+1, g, w)
				}
			}
		}
		if acc != nil {
			for k, g := range acc.Tokens {
				known := false
				for ti := range v.Tok {
					known = known || t.tok(ti+1) == k
				}
				if !known && g.Sign() != 0 {
					return mm("token-balance", pre+"GetAccount.Tokens has %x=%v, unknown to the model", k[:], g)
				}
			}
		}
		gotTV := s.GetTokenBalances(addr)
		if len(gotTV) != len(wantTV) {
			return mm("token-balance", pre+"GetTokenBalances=%v, model %v", gotTV, wantTV)
		}
		for _, e := range gotTV {
			if w, ok := wantTV[e.TokenAddr]; !ok || w.Cmp(e.Value) != 0 {
				return mm("token-balance", pre+"GetTokenBalances=%v, model %v", gotTV, wantTV)
			}
		}
		if got, w := s.GetNonce(addr), t.nonce(v.Nonce); got != w {
			return mm("nonce", pre+"GetNonce=%d, model %d", got, w)
		}
		if acc != nil && acc.Nonce != t.nonce(v.Nonce) {
			return mm("nonce", pre+"GetAccount.Nonce=%d, model %d", acc.Nonce, t.nonce(v.Nonce))
		}
		if got := s.GetCredits(addr); got != uint64(v.Credits) {
			return mm("credits", pre+"GetCredits=%d, model %d", got, v.Credits)
		}
		if acc != nil && acc.Credits != uint64(v.Credits) {
			return mm("credits", pre+"GetAccount.Credits=%d, model %d", acc.Credits, v.Credits)
		}
		wantCode := t.code(v.Code)
		if got := s.GetCode(addr); !eqBytes(got, wantCode) {
			return mm("code", pre+"GetCode=%d bytes %.8x, model code #%d (%d bytes)", len(got), got, v.Code, len(wantCode))
		}
		if got := s.GetContractCode(addr[:]); !eqBytes(got, wantCode) {
			return mm("code", pre+"GetContractCode=%d bytes, model code #%d", len(got), v.Code)
		}
		if got := s.GetCodeSize(addr); got != len(wantCode) {
			return mm("code", pre+"GetCodeSize=%d, model %d", got, len(wantCode))
		}
		wantHash := common.EmptyHash
		if v.Exist == 1 {
			wantHash = crypto.Keccak256Hash(wantCode)
		}
		if got := s.GetCodeHash(addr); got != wantHash {
			return mm("code", pre+"GetCodeHash=%x, model %x", got[:], wantHash[:])
		}
		if got := s.IsContract(addr); got != (v.Exist == 1 && v.Code != 0) {
			return mm("code", pre+"IsContract=%v, model code #%d", got, v.Code)
		}
		for si, sv := range v.Stor {
			w := t.sval(sv)
			if got := s.GetState(addr, t.slots[si]); !eqBytes(got, w) {
				return mm("storage", pre+"GetState(slot #%d)=%x, model %x", si+1, got, w)
			}
		}
		if got := s.HasSuicided(addr); got != (v.Sui == 1) {
			return mm("suicided", pre+"HasSuicided=%v, model %v", got, v.Sui == 1)
		}
		wantEmpty := v.Exist == 0 || (v.Nonce == 0 && v.Bal == 0 && v.Code == 0)
		if got := s.Empty(addr); got != wantEmpty {
			return mm("exists", pre+"Empty=%v, model %v", got, wantEmpty)
		}
	}
	cur = 0
	total := 0
	for txi, lg := range want.Lg {
		got := s.GetLogs(t.txs[txi])
		total += len(lg)
		if len(got) != len(lg) {
			return mm("logs", "instance %d: GetLogs(tx #%d) has %d logs, model %d", x, txi+1, len(got), len(lg))
		}
		for p, e := range lg {
			g := got[p]
			if g == nil || !eqBytes(g.Data, t.logData(e[0])) || g.Index != uint(e[1]) || g.TxHash != t.txs[txi] || g.TxIndex != uint(txi+1) {
				return mm("logs", "instance %d: GetLogs(tx #%d)[%d] = %v, model: added by instance %d with index %d", x, txi+1, p, g, e[0], e[1])
			}
		}
	}
	if got := len(s.Logs()); got != total {
		return mm("logs", "instance %d: Logs() has %d logs, model %d", x, got, total)
	}
	if got, w := s.GetRefund(), t.gas(want.Rf); got != w {
		return mm("refund", "instance %d: GetRefund=%d, model %d", x, got, w)
	}
	return nil
}

// sharesTokens reports whether an account of the copy holds the very map object its original holds.
func sharesTokens(cfg runCfg, a, b *state.StateDB) bool {
	for ai := range cfg.tab.addrs {
		x, y := a.GetAccount(cfg.tab.addr(ai+1)), b.GetAccount(cfg.tab.addr(ai+1))
		if x != nil && y != nil && x.Tokens != nil && y.Tokens != nil && reflect.ValueOf(x.Tokens).Pointer() == reflect.ValueOf(y.Tokens).Pointer() {
			return true
		}
	}
	return false
}

// accountDiff names the first field in which the stored form of an account differs.
func accountDiff(cfg runCfg, a, b *state.StateDB) string {
	for ai := range cfg.tab.addrs {
		addr := cfg.tab.addr(ai + 1)
		x, y := a.GetAccount(addr), b.GetAccount(addr)
		if (x == nil) != (y == nil) {
			return fmt.Sprintf("exists: address #%d", ai+1)
		}
		if x == nil {
			continue
		}
		keys := map[common.Address]bool{}
		for k := range x.Tokens {
			keys[k] = true
		}
		for k := range y.Tokens {
			keys[k] = true
		}
		var ks []string
		for k := range keys {
			xv, xo := x.Tokens[k]
			yv, yo := y.Tokens[k]
			if xo != yo || (xo && xv.Cmp(yv) != 0) {
				ks = append(ks, fmt.Sprintf("%x: %v/%v", k[:], xv, yv))
			}
		}
		if len(ks) > 0 {
			sort.Strings(ks)
			return fmt.Sprintf("tokens: address #%d Tokens map entries differ (%s)", ai+1, strings.Join(ks, ", "))
		}
		switch {
		case x.Balance.Cmp(y.Balance) != 0:
			return fmt.Sprintf("balance: address #%d", ai+1)
		case x.Nonce != y.Nonce:
			return fmt.Sprintf("nonce: address #%d", ai+1)
		case x.Credits != y.Credits:
			return fmt.Sprintf("credits: address #%d", ai+1)
		case !bytes.Equal(x.CodeHash, y.CodeHash):
			return fmt.Sprintf("code: address #%d", ai+1)
		case x.Root != y.Root:
			return fmt.Sprintf("storage: address #%d storage root", ai+1)
		}
	}
	return "root: no account field differs"
}
