package c02

// One behaviour = one path through the graph TLC exported for BlockValidity (AsRequired)
// executed on a fresh world: the class of the path is instantiated by a concrete
// corruption, the path's round-0 choices (who receives B, whose propose timeout fires
// first) and every later step are carried out on the real nodes, and after EVERY step the
// projection of all three correct nodes is compared with the model's state.

import (
	"encoding/json"
	"fmt"
	"regexp"
	"sort"
	"strings"

	cs "github.com/lianxiangcloud/linkchain/consensus"
	"github.com/lianxiangcloud/linkchain/libs/log"
	"github.com/lianxiangcloud/linkchain/types"

	"verifh/appx"
	"verifh/mbt"
)

func nopLogger() log.Logger { return log.NewNopLogger() }

type scenario struct {
	Names      []string `json:"names"`   // corruptions applied jointly ("none": the control)
	H          uint64   `json:"h"`       // target height (with a power vector: the first candidate)
	Choices    [3]bool  `json:"choices"` // n1..n3: true = B arrives in time, false = the propose timeout fires first
	Perm       int      `json:"perm"`    // which real node plays n2 / n3
	PrevRound1 bool     `json:"prevRound1"`
	Trie       bool     `json:"trie"`
	Txs        int      `json:"txs,omitempty"`    // transfers offered for the target block (default 2; several hundred make a multi-part block)
	Tamper     string   `json:"tamper,omitempty"` // negative control: falsify one observation
	Powers     []int64  `json:"powers,omitempty"` // voting powers of the validators (default: four of power 1)
	Served     int      `json:"served,omitempty"` // more than three correct validators: B reaches n1..n<Served> in time
}

// receives says whether B reaches the k-th correct validator before its propose timeout.
func (s scenario) receives(k, nCorrect int) bool {
	if nCorrect > 3 {
		return k < s.Served
	}
	return s.Choices[k]
}

func (s scenario) String() string {
	ch := ""
	for _, c := range s.Choices {
		if c {
			ch += "r"
		} else {
			ch += "t"
		}
	}
	d := fmt.Sprintf("%s@h%d/%s/p%d/r1=%v/trie=%v", strings.Join(s.Names, "+"), s.H, ch, s.Perm, s.PrevRound1, s.Trie)
	if s.Txs > 0 {
		d += fmt.Sprintf("/txs=%d", s.Txs)
	}
	if len(s.Powers) > 0 {
		d += fmt.Sprintf("/powers=%v", s.Powers)
		if len(s.Powers) > 4 {
			d += fmt.Sprintf("/served=%d", s.Served)
		}
	}
	return d
}

type stepRec struct {
	Op   string             `json:"op"`
	N    string             `json:"n"`
	R    int                `json:"r"`
	V    string             `json:"v,omitempty"`
	Obs  map[string]nodeObs `json:"obs"`
	Note string             `json:"note,omitempty"`
}

// outcome of one behaviour.
type outcome struct {
	Scenario    scenario  `json:"scenario"`
	Desc        string    `json:"desc"`
	Class       string    `json:"class"`
	Flags       []string  `json:"flags"`
	Skipped     string    `json:"skipped,omitempty"` // the corruption does not apply to this world
	Infra       string    `json:"infra,omitempty"`
	Steps       []stepRec `json:"steps"`
	NSteps      int       `json:"nsteps"`      // model steps executed
	Deliveries  int       `json:"deliveries"`  // messages / timeouts handled by real nodes
	Conforms    bool      `json:"conforms"`    // pi_prop equal to the model's state after every step
	Divergence  string    `json:"divergence"`  // first pi_prop mismatch
	Shape       []string  `json:"shape"`       // pi_shape mismatches
	VotesForBad []string  `json:"votesForBad"` // correct votes for B
	Persisted   []string  `json:"persisted"`   // correct nodes that stored B
	Killed      []string  `json:"killed"`      // correct nodes that asked to be killed
	Failed      []string  `json:"failed"`      // correct nodes whose state machine failed (panic)
	Restart     []string  `json:"restart"`     // what a restart of a killed node does
	AllApplied  bool      `json:"allApplied"`  // every correct node ended the height with a block applied
	GoodStored  bool      `json:"goodStored"`  // ... and what they stored is not an invalid B
	ValidateErr string    `json:"validateErr"` // clause the real ValidateBlock reports for B
	ModelErr    string    `json:"modelErr"`    // clause the model says validateBlock reports
	BadHash     string    `json:"badHash"`
	PrevRound   int       `json:"prevRound"`      // round in which the previous block was decided
	HonestTxs   int       `json:"honestTxs"`      // transactions in the honestly built block
	Parts       int       `json:"parts"`          // parts the Byzantine block was split into
	EdgeIdx     []int     `json:"edgeIdx"`        // edges of the AsRequired graph this behaviour followed
	AsCoded     string    `json:"asCoded"`        // "" (not evaluated) | "conforms" | first mismatch with the AsCoded graph
	AsCodedN    int       `json:"asCodedN"`       // steps compared with the AsCoded graph
	Valid       bool      `json:"valid"`          // B is fully valid by construction (class none)
	SetupID     string    `json:"setupID"`        // the validator set as the model names it
	Total       int64     `json:"total"`          // total voting power
	Lcp         int64     `json:"lcp"`            // voting power of the precommits B's LastCommit carries
	TargetH     uint64    `json:"targetH"`        // the height the Byzantine proposer acted at
	Path        *pathInfo `json:"path,omitempty"` // behaviours of the two-block instances
	Key         string    `json:"key,omitempty"`  // ... the class their violations are reported under
}

var errClauses = []struct {
	re     *regexp.Regexp
	clause string
}{
	{regexp.MustCompile(`Wrong Block\.Header\.(NumTxs|LastCommitHash|DataHash|EvidenceHash)|Commit cannot be for nil block|No precommits in commit|Invalid commit vote|Invalid commit precommit (height|round)`), "basic"},
	{regexp.MustCompile(`Wrong Block\.Header\.ChainID`), "chain"},
	{regexp.MustCompile(`Wrong Block\.Header\.Height`), "height"},
	{regexp.MustCompile(`Wrong Block\.Header\.LastBlockID`), "lastId"},
	{regexp.MustCompile(`Wrong Block\.Header\.TotalTxs`), "totalTxs"},
	{regexp.MustCompile(`Wrong Block\.Header\.ConsensusHash`), "consHash"},
	{regexp.MustCompile(`Wrong Block\.Header\.ValidatorsHash`), "valHash"},
	{regexp.MustCompile(`should have no LastCommit precommits|Invalid block commit size|Invalid commit --`), "lastCommit"},
	{regexp.MustCompile(`Not found FaultValidatorsEvidence|Invalid evidence: <nil>\. Evidence: height`), "fve"},
	{regexp.MustCompile(`Invalid evidence`), "evFull"},
}

func classifyErr(err error) string {
	if err == nil {
		return "ok"
	}
	for _, c := range errClauses {
		if c.re.MatchString(err.Error()) {
			return c.clause
		}
	}
	return "other: " + err.Error()
}

// realValidate asks the real validateBlock (through BlockExecutor.ValidateBlock) about B
// against a correct node's status - pi_shape only: it labels the catalogue, it is not the oracle.
func (w *world) realValidate() (clause string) {
	defer func() {
		if r := recover(); r != nil {
			clause = fmt.Sprintf("panic: %v", r)
		}
	}()
	var b *types.Block
	if _, err := serDecode(w.badParts, &b, w.status); err != nil {
		return "undecodable"
	}
	be := cs.NewBlockExecutor(w.cl.Nodes[w.honest[0]].StatusDB, nopLogger(), cs.MockEvidencePool{})
	return classifyErr(be.ValidateBlock(w.status, b))
}

type graphIndex struct {
	g      *mbt.Graph
	setups map[string]int             // validator-set id -> state after Genesis
	firsts map[string]map[string]bool // validator-set id -> (class, commit power) of the first blocks the model has there
}

type modelAct struct {
	Op    string   `json:"op"`
	N     string   `json:"n"`
	R     int      `json:"r"`
	V     string   `json:"v"`
	Cls   []string `json:"cls"`
	Verr  string   `json:"verr"`
	Lcp   int64    `json:"lcp"`
	Rel   string   `json:"rel"`
	Setup string   `json:"setup"`
}
type modelState struct {
	Setup string             `json:"setup"`
	Node  map[string]nodeObs `json:"node"`
}

func (gi *graphIndex) act(ei int) *modelAct {
	var a modelAct
	if json.Unmarshal(gi.g.Edges[ei].Act, &a) != nil {
		return nil
	}
	return &a
}

func firstKey(cls string, lcp int64) string { return fmt.Sprintf("%s@%d", cls, lcp) }

// find returns the out-edge of state cur whose label satisfies want.
func (gi *graphIndex) find(cur int, want func(a *modelAct) bool) (int, *modelAct) {
	for _, ei := range gi.g.Out[cur] {
		if a := gi.act(ei); a != nil && want(a) {
			return ei, a
		}
	}
	return -1, nil
}

// next finds the out-edge of state cur labelled (op, n, r); Genesis is matched by the
// validator-set id, ByzPropose by the block's class and commit power.
func (gi *graphIndex) next(cur int, op, n string, r int, setup, cls string, lcp int64) (int, *modelAct) {
	return gi.find(cur, func(a *modelAct) bool {
		switch {
		case a.Op != op:
			return false
		case op == "genesis":
			return a.Setup == setup
		case op == "byzPropose":
			return className(a.Cls) == cls && a.Lcp == lcp
		}
		return a.N == n && a.R == r
	})
}

// walk follows the recorded steps through this graph, comparing the whole node records.
func (gi *graphIndex) walk(steps []stepRec, setup, cls string, lcp int64) (string, int) {
	cur := 0
	for k, st := range steps {
		ei, _ := gi.next(cur, st.Op, st.N, st.R, setup, cls, lcp)
		if ei < 0 {
			return fmt.Sprintf("step %d %s(%s,%d) is not allowed by the AsCoded model", k+1, st.Op, st.N, st.R), k
		}
		var ms modelState
		json.Unmarshal(gi.g.Edges[ei].ToSt, &ms)
		cur = gi.g.Edges[ei].To
		for _, nn := range sortedNames(st.Obs) {
			m, o := ms.Node[nn], st.Obs[nn]
			d := diffProp(m, o)
			if d == "" {
				d = diffShape(m, o)
			}
			if d == "" && m.Restarts != o.Restarts {
				d = fmt.Sprintf("restarts: model %d, node %d", m.Restarts, o.Restarts)
			}
			if d != "" {
				return fmt.Sprintf("step %d %s(%s,%d): node %s: %s", k+1, st.Op, st.N, st.R, nn, d), k
			}
		}
	}
	return "conforms", len(steps)
}

// modelClass maps the declared clause vector to a class the exported model has for this
// validator set and commit power: the model enumerates classes of up to three clauses; a
// larger vector is represented by its first three clauses (under the required guard
// every non-empty class behaves alike).
func (gi *graphIndex) modelClass(setup string, flags []string, lcp int64) string {
	// keep the clauses that decide the behaviour under either guard: app, ev, then validateBlock's order
	prio := map[string]int{"app": 0, "ev": 1}
	for i, c := range validateOrder {
		prio[c] = 2 + i
	}
	f := append([]string{}, flags...)
	sort.Slice(f, func(i, j int) bool { return prio[f[i]] < prio[f[j]] })
	for n := len(f); n > 0; n-- {
		if gi.firsts[setup][firstKey(className(f[:n]), lcp)] {
			return className(f[:n])
		}
	}
	return className(nil)
}

const maxRound = 1

func sortedNames(m map[string]nodeObs) []string {
	var out []string
	for k := range m {
		out = append(out, k)
	}
	sort.Strings(out)
	return out
}

// play executes one behaviour.
func play(sc scenario, gi, coded *graphIndex, kw *killWatch, dir string) (out outcome) {
	out.Scenario, out.Desc = sc, sc.String()
	defer func() {
		if r := recover(); r != nil {
			out.Infra = fmt.Sprintf("harness panic: %v", r)
		}
	}()
	flags, apply, lcpOf, ok := compose(sc.Names, sc.H)
	if !ok {
		out.Skipped = "not applicable at this height"
		return
	}
	probe := false
	for _, n := range sc.Names {
		if c := byName(n); c != nil && c.Probe {
			probe = true
		}
	}
	w, err := newWorld(dir, sc.Trie, kw, sc.Powers)
	if err != nil {
		out.Infra = err.Error()
		return
	}
	defer w.close()
	for h := uint64(1); h < sc.H; h++ {
		if err := w.runHonestHeight(h, sc.PrevRound1 && h == sc.H-1); err != nil {
			out.Infra = err.Error()
			return
		}
	}
	if n, _ := kw.collect(0); n > 0 {
		out.Infra = fmt.Sprintf("%d kill requests while the correct cluster ran to height %d", n, sc.H-1)
		return
	}
	var eligible map[string]bool
	if len(sc.Powers) > 0 && gi != nil {
		eligible = map[string]bool{}
		for id := range gi.setups {
			eligible[id] = true
		}
	}
	if err := w.takeOver(sc.H, []int{sc.Perm}, sc.Txs, maxRound, false, eligible); err != nil {
		out.Infra = err.Error()
		return
	}
	out.SetupID, out.Total, out.TargetH = w.setupID, w.total, w.H
	blk, err := w.decodeHonest()
	if err != nil {
		out.Infra = "honest block does not decode: " + err.Error()
		return
	}
	if w.H > 1 {
		out.PrevRound = blk.LastCommit.Round()
		if sc.PrevRound1 && out.PrevRound != 1 {
			out.Infra = fmt.Sprintf("the previous block was meant to be decided in round 1 but was decided in round %d", out.PrevRound)
			return
		}
	}
	out.HonestTxs = len(blk.Data.Txs)
	if err := apply(w, blk); err != nil {
		out.Skipped = err.Error()
		return
	}
	if err := w.forge(blk); err != nil {
		out.Skipped = err.Error()
		return
	}
	// the previous commit's power: the whole set unless a corruption placed it on the boundary;
	// "more than two thirds" is decided here by exact arithmetic, as in the model
	lcp := w.total
	if lcpOf != nil {
		lcp = lcpOf(w)
		if 3*lcp <= 2*w.total {
			flags = append(flags, "lastCommit")
			sort.Strings(flags)
		}
	}
	declared := flags
	if lcpOf != nil {
		declared = nil
		for _, f := range flags {
			if f != "lastCommit" {
				declared = append(declared, f)
			}
		}
	}
	out.Lcp = lcp
	out.Flags, out.Class, out.Valid = flags, className(flags), len(flags) == 0
	w.bz["B"].flags = flags
	out.BadHash = fmt.Sprintf("%x", w.badID.Hash[:6])
	out.Parts = w.badParts.Total()
	out.ValidateErr = w.realValidate()

	// ---- follow the model -------------------------------------------------------------
	cur := 0
	following := gi != nil && !probe
	out.Conforms = following
	mcls := ""
	if gi != nil {
		mcls = gi.modelClass(w.setupID, declared, lcp)
	}
	names := w.names
	step := func(op string, k int, r int, f func()) bool {
		name := "-"
		if k >= 0 {
			name = names[k]
		}
		if f != nil {
			f()
			if err := w.after(w.honest[k]); err != nil {
				out.Infra = err.Error()
				return false
			}
		}
		out.NSteps++
		rec := stepRec{Op: op, N: name, R: r, Obs: map[string]nodeObs{}}
		for j, nn := range names {
			rec.Obs[nn] = w.observe(w.honest[j], maxRound)
		}
		if sc.Tamper == "vote" && op == "recvByz" {
			// negative control: pretend the node voted for B
			o := rec.Obs[name]
			o.PV = map[string]string{"0": "B", "1": o.PV["1"]}
			rec.Obs[name] = o
		}
		if sc.Tamper == "stored" && op == "recvPrecommits" {
			o := rec.Obs[name]
			o.Stored = "none"
			rec.Obs[name] = o
		}
		if following {
			ei, act := gi.next(cur, op, name, r, w.setupID, mcls, lcp)
			if ei < 0 {
				following, out.Conforms = false, false
				out.Divergence = fmt.Sprintf("step %d: the real nodes take step %s(%s,%d) which the model does not allow here", out.NSteps, op, name, r)
				if op == "genesis" {
					out.Divergence = fmt.Sprintf("the model has no validator set %q", w.setupID)
				}
				rec.Note = out.Divergence
			} else {
				if op == "byzPropose" && className(act.Cls) == className(declared) {
					out.ModelErr = act.Verr
				}
				var ms modelState
				json.Unmarshal(gi.g.Edges[ei].ToSt, &ms)
				cur = gi.g.Edges[ei].To
				out.EdgeIdx = append(out.EdgeIdx, ei)
				for _, nn := range names {
					m, o := ms.Node[nn], rec.Obs[nn]
					if d := diffProp(m, o); d != "" {
						following, out.Conforms = false, false
						out.Divergence = fmt.Sprintf("step %d %s(%s,%d): node %s: %s", out.NSteps, op, name, r, nn, d)
						rec.Note = out.Divergence
						break
					}
					if d := diffShape(m, o); d != "" && len(out.Shape) < 5 {
						out.Shape = append(out.Shape, fmt.Sprintf("step %d %s(%s,%d): node %s: %s", out.NSteps, op, name, r, nn, d))
					}
				}
			}
		}
		out.Steps = append(out.Steps, rec)
		return true
	}
	obs := func(k int) nodeObs { return w.observe(w.honest[k], maxRound) }
	nc := len(w.honest)

	if !step("genesis", -1, 0, nil) || !step("byzPropose", -1, 0, nil) {
		return
	}
	for k := 0; k < nc; k++ {
		i := w.honest[k]
		if sc.receives(k, nc) {
			if !step("recvByz", k, 0, func() { w.recvByz(i) }) {
				return
			}
		} else if !step("timeoutPropose", k, 0, func() { w.timeoutPropose(i) }) {
			return
		}
	}
	active := func(o nodeObs) bool { return o.Step != "done" && o.Step != "failed" && !o.Killed }
	for r := 0; r <= maxRound; r++ {
		if r > 0 {
			for k := 0; k < nc; k++ {
				i := w.honest[k]
				if o := obs(k); active(o) && o.Round == r && o.Step == "propose" {
					rr := r
					op := "recvHonest"
					if i == w.props[r] {
						op = "ownProposal"
					}
					if !step(op, k, r, func() { w.recvHonest(i, rr) }) {
						return
					}
				}
			}
		}
		for k := 0; k < nc; k++ {
			i := w.honest[k]
			if o := obs(k); active(o) && o.Round == r && o.Step == "prevote" {
				rr := r
				if !step("recvPrevotes", k, r, func() { w.recvVotes(i, rr, types.VoteTypePrevote) }) {
					return
				}
			}
		}
		for k := 0; k < nc; k++ {
			i := w.honest[k]
			if o := obs(k); active(o) && o.Round == r && o.Step == "precommit" {
				rr := r
				if !step("recvPrecommits", k, r, func() { w.recvVotes(i, rr, types.VoteTypePrecommit) }) {
					return
				}
			}
		}
		for k := 0; k < nc; k++ {
			i := w.honest[k]
			if o := obs(k); active(o) && o.Step == "commit" && o.Stored == "none" && o.PB == "none" {
				if !step("fetchBlock", k, o.Round, func() { w.fetchBlock(i) }) {
					return
				}
			}
		}
		busy := false
		for k := 0; k < nc; k++ {
			if active(obs(k)) {
				busy = true
			}
		}
		if !busy {
			break
		}
	}

	// ---- a killed node is started again (twice): does the stored block apply now? -------
	restartNote := map[string][]string{}
	for k, nn := range names {
		i := w.honest[k]
		for try := 0; try < 2 && obs(k).Killed && !obs(k).Applied; try++ {
			name := nn
			if !step("restart", k, obs(k).Round, func() {
				w.restarts[i]++
				applied, err := w.restart(i)
				switch {
				case err != nil:
					restartNote[name] = append(restartNote[name], fmt.Sprintf("%s: restart fails: %v", name, firstLine(err.Error())))
				case applied:
					w.reapplied[i] = true
					restartNote[name] = append(restartNote[name], name+": restart applies the stored block")
				default:
					restartNote[name] = append(restartNote[name], name+": restart leaves the status behind")
				}
			}) {
				return
			}
		}
	}
	// ---- the tree as it was: does the behaviour follow the AsCoded graph? (pi_shape) -------
	if !out.Conforms && coded != nil && !probe {
		if _, known := coded.setups[w.setupID]; known {
			out.AsCoded, out.AsCodedN = coded.walk(out.Steps, w.setupID, coded.modelClass(w.setupID, declared, lcp), lcp)
		}
	}

	// ---- the property, read off the real nodes ----------------------------------------
	w.verdict(&out, names, restartNote)
	if len(out.Steps) > 14 {
		out.Steps = append(out.Steps[:10:10], out.Steps[len(out.Steps)-4:]...)
	}
	return
}

// verdict reads the property off the real nodes: votes of correct validators for a
// Byzantine block that is not fully valid, such a block persisted, kill requests,
// failures, and whether every correct node ended the height with a block applied.
func (w *world) verdict(out *outcome, names []string, restartNote map[string][]string) {
	out.Deliveries = w.steps
	out.AllApplied, out.GoodStored = true, true
	invalid := map[string]*byzBlock{}
	for name, bb := range w.bz {
		if len(bb.flags) > 0 {
			invalid[name] = bb
		}
	}
	for k, nn := range names {
		i := w.honest[k]
		o := w.observe(i, 0)
		for r, byType := range w.votes[i] {
			for typ, v := range byType {
				for name, bb := range invalid {
					if v.BlockID.Equals(bb.id) {
						t := "prevote"
						if typ == types.VoteTypePrecommit {
							t = "precommit"
						}
						tag := ""
						if name != "B" {
							tag = ":" + name
						}
						out.VotesForBad = append(out.VotesForBad, fmt.Sprintf("%s:%s:r%d%s", nn, t, r, tag))
					}
				}
			}
		}
		if _, bad := invalid[o.Stored]; bad {
			out.Persisted = append(out.Persisted, nn)
			out.GoodStored = false
		}
		if o.Killed {
			out.Killed = append(out.Killed, nn)
			out.Restart = append(out.Restart, restartNote[nn]...)
		}
		if f := w.cl.Nodes[i].Failure; f != nil {
			out.Failed = append(out.Failed, fmt.Sprintf("%s: %s", nn, firstLine(fmt.Sprint(f))))
		}
		if !o.Applied {
			out.AllApplied = false
		}
	}
	sort.Strings(out.VotesForBad)
}

func firstLine(s string) string {
	if i := strings.IndexByte(s, '\n'); i >= 0 {
		s = s[:i]
	}
	if len(s) > 300 {
		s = s[:300] + "..."
	}
	return s
}

// diffProp compares what the property statement names: the node's votes, what it
// persisted, whether the block was applied, whether it asked to be killed or failed.
func diffProp(m, o nodeObs) string {
	for r := 0; r < len(m.PV); r++ {
		k := fmt.Sprint(r)
		if m.PV[k] != o.PV[k] {
			return fmt.Sprintf("prevote of round %d: model %s, node %s", r, m.PV[k], o.PV[k])
		}
		if m.PC[k] != o.PC[k] {
			return fmt.Sprintf("precommit of round %d: model %s, node %s", r, m.PC[k], o.PC[k])
		}
	}
	if m.Stored != o.Stored {
		return fmt.Sprintf("persisted block: model %s, node %s", m.Stored, o.Stored)
	}
	if m.Applied != o.Applied {
		return fmt.Sprintf("block applied: model %v, node %v", m.Applied, o.Applied)
	}
	if m.Killed != o.Killed {
		return fmt.Sprintf("asked to be killed: model %v, node %v", m.Killed, o.Killed)
	}
	if (m.Step == "failed") != (o.Step == "failed") {
		return fmt.Sprintf("state machine failed: model %v, node %v", m.Step == "failed", o.Step == "failed")
	}
	return ""
}

// diffShape compares the rest of the model's node record (implementation shape).
func diffShape(m, o nodeObs) string {
	if m.Step != o.Step {
		return fmt.Sprintf("step: model %s, node %s", m.Step, o.Step)
	}
	if m.Step == "done" || m.Step == "failed" {
		return ""
	}
	if m.Round != o.Round {
		return fmt.Sprintf("round: model %d, node %d", m.Round, o.Round)
	}
	if m.PB != o.PB {
		return fmt.Sprintf("proposal block: model %s, node %s", m.PB, o.PB)
	}
	if m.LB != o.LB {
		return fmt.Sprintf("locked block: model %s, node %s", m.LB, o.LB)
	}
	if m.VB != o.VB {
		return fmt.Sprintf("valid block: model %s, node %s", m.VB, o.VB)
	}
	return ""
}

func serDecode(ps *types.PartSet, out interface{}, st cs.NewStatus) (int64, error) {
	return serDecodeReader(ps, out, int64(st.ConsensusParams.BlockSize.MaxBytes))
}

var _ = appx.ChainID
