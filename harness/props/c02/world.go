package c02

// A world is one cluster of real consensus.ConsensusState instances (four validators of
// equal power, or any power vector), each on its own real LinkApplication (appx), driven
// synchronously through hook H1. At the target height the proposer of round 0 is taken
// over by the harness ("Byzantine"): its honestly built block is intercepted, corrupted,
// re-hashed, re-split, re-signed with the proposer's real key and served to the other
// (correct) validators; in a later round in which it is the proposer again it may serve
// the same block or a second one.

import (
	"bytes"
	"fmt"
	"os"
	"os/signal"
	"path/filepath"
	"sort"
	"syscall"
	"time"

	cs "github.com/lianxiangcloud/linkchain/consensus"
	cstypes "github.com/lianxiangcloud/linkchain/consensus/types"
	"github.com/lianxiangcloud/linkchain/libs/ser"
	"github.com/lianxiangcloud/linkchain/types"

	"verifh/appx"
	"verifh/cluster"
)

// ---- "the node asked to be killed" ----------------------------------------------

// killWatch counts SIGTERM deliveries to this process (cmn.Kill() sends SIGTERM to the
// own pid; the check catches it instead of dying). After every step of a node a barrier
// closes the count without sleeping: the Go runtime hands signals to os/signal in
// ascending signal number per batch and batches in order, so once a SIGWINCH (28) sent
// after the step has arrived, every SIGTERM (15) handled before it has arrived too. A
// process-directed signal may be handled by another thread after the barrier; see collect.
type killWatch struct {
	ch chan os.Signal
}

func newKillWatch() *killWatch {
	k := &killWatch{ch: make(chan os.Signal, 256)}
	signal.Notify(k.ch, syscall.SIGTERM, syscall.SIGWINCH)
	return k
}

func (k *killWatch) stop() { signal.Stop(k.ch) }

// collect returns the number of SIGTERMs delivered since the last call. expect is the
// number of kill requests the caller has reason to wait for (the acting node sits in
// RoundStepCommit with the block stored and not applied - the state finalizeCommit
// leaves behind on the Kill path): a process-directed signal may be handled by another
// thread later than the barrier, so those are waited for (bounded) instead of being
// attributed to a later step. ok=false if the barrier did not come back.
func (k *killWatch) collect(expect int) (n int, ok bool) {
	syscall.Kill(os.Getpid(), syscall.SIGWINCH)
	deadline := time.After(20 * time.Second)
	barrier := false
	for !barrier || n < expect {
		select {
		case s := <-k.ch:
			if s == syscall.SIGTERM {
				n++
			} else {
				barrier = true
			}
		case <-deadline:
			return n, barrier
		}
	}
	return n, true
}

// ---- the cluster ---------------------------------------------------------------

type world struct {
	cl     *cluster.Cluster
	envs   []*appx.Env
	dir    string
	acct   *appx.Account
	other  *appx.Account
	nonce  uint64
	isTrie bool
	kw     *killWatch

	n       int     // validators
	powers  []int64 // voting power per node index
	total   int64
	H       uint64   // target height
	byz     int      // index of the validator the harness plays at height H
	honest  []int    // abstract n1..nk -> node index
	names   []string // "n1".."nk"
	props   []int    // node index of the proposer of round r of height H
	setupID string   // "<Byzantine power>|<power of n1>,<powers of n2.. ascending>"
	honProp *cs.ProposalMessage
	honBlk  []byte // encoded honest block of (H, 0)
	status  cs.NewStatus

	// the Byzantine block B (the first one)
	bad      *types.Block
	badParts *types.PartSet
	badID    types.BlockID
	badProp  *types.Proposal
	// every block the Byzantine validator built: "B", "B2"
	bz map[string]*byzBlock
	// part sets by header hash (to serve a node that waits for a block), names of the
	// blocks correct proposers built ("G<round>")
	known  map[string]*knownBlock
	gNames map[string]string
	// the rounds' correct proposers always build distinct blocks (one more transaction per round)
	distinctG bool

	// votes the correct nodes emitted at height H, per node index and round
	votes map[int]map[int]map[byte]*types.Vote
	// messages of the correct proposer of a later round
	laterProp map[int][]cs.ConsensusMessage
	kills     map[int]int // SIGTERMs observed during a step of node i
	restarts  map[int]int
	reapplied map[int]bool // a restart applied the stored block
	steps     int
}

// byzBlock is one block built by the Byzantine validator.
type byzBlock struct {
	name  string
	blk   *types.Block // as a receiver decodes it
	parts *types.PartSet
	id    types.BlockID
	flags []string // clauses of full validity it violates
	rel   string   // "first" | "twin" | "fresh"
	how   string   // concrete construction
}

type knownBlock struct {
	parts *types.PartSet
	from  int
}

// newWorld builds the cluster; powers == nil: four validators of power 1 each.
func newWorld(dir string, isTrie bool, kw *killWatch, powers []int64) (w *world, err error) {
	defer func() {
		if r := recover(); r != nil {
			err = fmt.Errorf("building the cluster: %v", r)
		}
	}()
	if len(powers) == 0 {
		powers = []int64{1, 1, 1, 1}
	}
	w = &world{dir: dir, isTrie: isTrie, kw: kw, acct: appx.NewAccount(1), other: appx.NewAccount(2), n: len(powers),
		bz: map[string]*byzBlock{}, known: map[string]*knownBlock{}, gNames: map[string]string{},
		votes: map[int]map[int]map[byte]*types.Vote{}, laterProp: map[int][]cs.ConsensusMessage{}, kills: map[int]int{}, restarts: map[int]int{}, reapplied: map[int]bool{}}
	w.envs = make([]*appx.Env, w.n)
	w.cl, err = cluster.New(cluster.Options{N: w.n, Powers: powers, ChainID: appx.ChainID,
		MakeApp: func(i int, c *cluster.Cluster) (cs.BlockChainApp, *cluster.MockApp, cs.Mempool) {
			d := appx.NewMemDBs(filepath.Join(dir, fmt.Sprintf("n%d", i)))
			if e := appx.InitGenesis(d, isTrie, []appx.Alloc{{Addr: w.acct.Addr, Balance: appx.LKC(1000000)}}); e != nil {
				panic(e)
			}
			env, e := appx.Boot(d, isTrie, nil)
			if e != nil {
				panic(e)
			}
			w.envs[i] = env
			return env.App, nil, env.MP
		}})
	if err != nil {
		return w, err
	}
	w.powers = make([]int64, w.n)
	for i := range w.powers {
		_, v := w.cl.ValSet.GetByAddress(w.cl.PVs[i].GetAddress())
		if v == nil {
			return w, fmt.Errorf("node %d is not a validator", i)
		}
		w.powers[i] = v.VotingPower
		w.total += v.VotingPower
	}
	return w, nil
}

func (w *world) close() {
	for _, e := range w.envs {
		if e != nil {
			e.Stop()
		}
	}
	os.RemoveAll(w.dir)
}

// addTxs puts n fresh transfers into every node's mempool.
func (w *world) addTxs(n int) error {
	for k := 0; k < n; k++ {
		tx := w.acct.Transfer(w.nonce, w.other.Addr, appx.LKC(1))
		w.nonce++
		for i, e := range w.envs {
			if err := e.MP.AddTx("", tx); err != nil {
				return fmt.Errorf("node %d mempool: %v", i, err)
			}
		}
	}
	return nil
}

func (w *world) all() []int {
	out := make([]int, w.n)
	for i := range out {
		out[i] = i
	}
	return out
}

// fireStep fires node i's pending timeout for (height, round, step), if it has one.
func (w *world) fireStep(i int, h uint64, r int, st cstypes.RoundStepType) bool {
	n := w.cl.Nodes[i]
	for k := len(n.Pend) - 1; k >= 0; k-- {
		t := n.Pend[k]
		if t.Height == h && t.Round == r && t.Step == st {
			w.cl.Fire(i, k)
			w.steps++
			return true
		}
	}
	return false
}

// prune forgets timeouts of earlier heights.
func (w *world) prune(h uint64) {
	for _, n := range w.cl.Nodes {
		var keep []cs.VerifTimeout
		for _, t := range n.Pend {
			if t.Height >= h {
				keep = append(keep, t)
			}
		}
		n.Pend = keep
	}
}

// runHonestHeight lets all (correct) nodes decide height h in lock step; withRound1
// loses the round-0 proposal on the network so that the block is decided in round 1.
func (w *world) runHonestHeight(h uint64, withRound1 bool) error {
	if _, err := w.openHeight(h, 1+int(h%2)); err != nil {
		return err
	}
	return w.decideOpened(h, withRound1)
}

// openHeight offers txs transfers and starts height h at every node (the proposer of
// round 0 builds its block and queues its proposal); it returns the proposer.
func (w *world) openHeight(h uint64, txs int) (int, error) {
	if err := w.addTxs(txs); err != nil {
		return -1, err
	}
	w.prune(h)
	for _, i := range w.all() {
		if !w.fireStep(i, h, 0, cstypes.RoundStepNewHeight) {
			return -1, fmt.Errorf("node %d has no NewHeight timeout for height %d", i, h)
		}
	}
	p := w.cl.ViewOf(w.cl.Nodes[0]).Proposer
	for _, i := range w.all() {
		if q := w.cl.ViewOf(w.cl.Nodes[i]).Proposer; q != p {
			return -1, fmt.Errorf("nodes disagree on the proposer of (%d,0): %d vs %d", h, p, q)
		}
	}
	return p, nil
}

// decideOpened lets the correct cluster decide the height openHeight started.
func (w *world) decideOpened(h uint64, withRound1 bool) error {
	if withRound1 {
		// the proposer's proposal and parts are lost; votes travel
		p := w.cl.ViewOf(w.cl.Nodes[0]).Proposer
		for {
			m, ok := w.cl.PopInternal(p)
			if !ok {
				break
			}
			if vm, isVote := m.(*cs.VoteMessage); isVote {
				for _, j := range w.all() {
					if j != p {
						w.cl.Deliver(j, vm, p)
					}
				}
			}
		}
		for _, i := range w.all() {
			if i != p {
				w.fireStep(i, h, 0, cstypes.RoundStepPropose)
			}
		}
	}
	done := func() bool {
		for _, i := range w.all() {
			if w.cl.Nodes[i].CS.VerifStatus().LastBlockHeight < h {
				return false
			}
		}
		return true
	}
	for it := 0; it < 200 && !done(); it++ {
		if w.cl.DrainAll() {
			continue
		}
		fired := false
		for _, i := range w.all() {
			n := w.cl.Nodes[i]
			// latest timeout of the height being decided only: the next height is started by the caller
			// (a stale one is ignored by handleTimeout; Fire forgets the one it fired and
			// appends what the step scheduled)
			for k := len(n.Pend) - 1; k >= 0; k-- {
				if n.Pend[k].Height == h {
					w.cl.Fire(i, k)
					fired = true
					break
				}
			}
		}
		if !fired {
			break
		}
	}
	w.cl.DrainAll()
	if !done() {
		return fmt.Errorf("the correct cluster did not decide height %d", h)
	}
	for _, i := range w.all() {
		if f := w.cl.Nodes[i].Failure; f != nil {
			return fmt.Errorf("node %d failed while deciding height %d: %v", i, h, f)
		}
	}
	return nil
}

// proposersOf computes the proposers of rounds 0..maxRound of the height the status
// belongs to, the way enterNewRound rotates the validator set.
func (w *world) proposersOf(st cs.NewStatus, maxRound int) []int {
	out := make([]int, maxRound+1)
	for r := 0; r <= maxRound; r++ {
		vs := st.Validators.Copy()
		if r > 0 {
			vs.IncrementAccum(r)
		}
		out[r] = w.cl.IndexOf(vs.GetProposer().Address)
	}
	return out
}

// idFor names the validator set as the model does, were node p the Byzantine validator
// and q the proposer of round 1: "<power of p>|<power of q>,<the other powers ascending>".
func (w *world) idFor(p, q int) (string, []int) {
	var others []int
	for _, i := range w.all() {
		if i != p && i != q {
			others = append(others, i)
		}
	}
	sort.SliceStable(others, func(a, b int) bool { return w.powers[others[a]] < w.powers[others[b]] })
	id := fmt.Sprintf("%d|%d", w.powers[p], w.powers[q])
	for _, i := range others {
		id += fmt.Sprintf(",%d", w.powers[i])
	}
	return id, others
}

// takeOver starts height H, intercepts the round-0 proposer's own proposal and makes it
// the Byzantine validator. perm swaps the second and third correct node (equal powers);
// rotation names the correct nodes by the round they propose in (n1: round 1, n2: round
// 2, ...; equal powers) instead of by power. eligible (optional) says which validator-set
// ids the model knows: heights are decided honestly until the proposer of round 0 of the
// next one is an eligible Byzantine validator (below a third of the power).
func (w *world) takeOver(H uint64, perm []int, txs int, maxRound int, rotation bool, eligible map[string]bool) error {
	if txs <= 0 {
		txs = 2
	}
	for ; ; H++ {
		p, err := w.openHeight(H, txs)
		if err != nil {
			return err
		}
		st := w.cl.Nodes[(p+1)%w.n].CS.VerifStatus()
		nr := maxRound
		if nr < w.n {
			nr = w.n
		}
		props := w.proposersOf(st, nr)
		if props[0] != p {
			return fmt.Errorf("the rotation computed for (%d,0) names %d, the nodes expect %d", H, props[0], p)
		}
		ok := 3*w.powers[p] < w.total && len(props) > 1 && props[1] != p && props[1] >= 0
		if ok && eligible != nil {
			id, _ := w.idFor(p, props[1])
			ok = eligible[id]
		}
		if ok {
			w.H, w.byz, w.props, w.status = H, p, props, st
			break
		}
		if eligible == nil || H > 12 {
			return fmt.Errorf("no eligible Byzantine proposer up to height %d (powers %v)", H, w.powers)
		}
		if err := w.decideOpened(H, false); err != nil {
			return err
		}
	}
	p := w.byz
	var parts []*types.Part
	for {
		m, ok := w.cl.PopInternal(p)
		if !ok {
			break
		}
		switch x := m.(type) {
		case *cs.ProposalMessage:
			w.honProp = x
		case *cs.BlockPartMessage:
			parts = append(parts, x.Part)
		}
	}
	if w.honProp == nil || len(parts) == 0 {
		return fmt.Errorf("proposer %d of (%d,0) produced no proposal", p, w.H)
	}
	ps := types.NewPartSetFromHeader(w.honProp.Proposal.BlockPartsHeader)
	for _, pt := range parts {
		if _, err := ps.AddPart(pt); err != nil {
			return err
		}
	}
	if !ps.IsComplete() {
		return fmt.Errorf("honest part set incomplete")
	}
	var buf bytes.Buffer
	if _, err := buf.ReadFrom(ps.GetReader()); err != nil {
		return err
	}
	w.honBlk = buf.Bytes()
	// the correct nodes: the proposer of round 1 first (the model's n1) ...
	q := w.props[1]
	id, others := w.idFor(p, q)
	w.setupID = id
	w.honest = []int{q}
	if rotation {
		// ... then the proposers of rounds 2, 3, ..; the Byzantine validator's turn comes again after everybody's
		for r := 2; r < w.n; r++ {
			if r >= len(w.props) {
				return fmt.Errorf("rotation naming needs the proposers of %d rounds", w.n)
			}
			w.honest = append(w.honest, w.props[r])
		}
		seen := map[int]bool{p: true}
		for _, i := range w.honest {
			if seen[i] {
				return fmt.Errorf("the proposers of rounds 0..%d are not distinct: %v", w.n-1, w.props)
			}
			seen[i] = true
		}
	} else {
		// ... then the others by power (and index)
		if perm != nil && perm[0] == 1 && len(others) >= 2 && w.powers[others[0]] == w.powers[others[1]] {
			others[0], others[1] = others[1], others[0]
		}
		w.honest = append(w.honest, others...)
	}
	w.names = nil
	for k := range w.honest {
		w.names = append(w.names, fmt.Sprintf("n%d", k+1))
	}
	// the block a correct proposer builds in a later round always differs from the Byzantine one
	if w.distinctG {
		if err := w.addTxs(1); err != nil {
			return err
		}
	}
	return nil
}

// decodeHonest returns a fresh decoding of the honest block (no caches populated).
func (w *world) decodeHonest() (*types.Block, error) {
	var b *types.Block
	if _, err := ser.DecodeReader(bytes.NewReader(w.honBlk), &b, int64(w.status.ConsensusParams.BlockSize.MaxBytes)); err != nil {
		return nil, err
	}
	return b, nil
}

// forge finishes the (first) Byzantine block: split with the status' part size, name it by what a
// receiver computes after decoding, sign the proposal with the proposer's real key.
func (w *world) forge(b *types.Block) (err error) {
	bb, err := w.forgeAs("B", b)
	if err != nil {
		return err
	}
	w.bad, w.badParts, w.badID = bb.blk, bb.parts, bb.id
	w.badProp = w.cl.MakeProposal(w.byz, w.H, 0, w.badParts, -1, types.BlockID{})
	return nil
}

// forgeAs registers a block the Byzantine validator built under the model's name.
func (w *world) forgeAs(name string, b *types.Block) (bb *byzBlock, err error) {
	defer func() {
		if r := recover(); r != nil {
			err = fmt.Errorf("forging the block: %v", r)
		}
	}()
	ps := b.MakePartSet(w.status.ConsensusParams.BlockGossip.BlockPartSizeBytes)
	var recv *types.Block
	if _, err := ser.DecodeReader(ps.GetReader(), &recv, int64(w.status.ConsensusParams.BlockSize.MaxBytes)); err != nil {
		return nil, fmt.Errorf("the forged block does not decode: %v", err)
	}
	bb = &byzBlock{name: name, blk: recv, parts: ps, id: types.BlockID{Hash: recv.Hash(), PartsHeader: ps.Header()}}
	w.bz[name] = bb
	w.known[string(ps.Header().Hash)] = &knownBlock{parts: ps, from: w.byz}
	return bb, nil
}

// ---- steps of the correct nodes ---------------------------------------------------

func (w *world) noteVote(i int, v *types.Vote) {
	if v.Height != w.H {
		return
	}
	if w.votes[i] == nil {
		w.votes[i] = map[int]map[byte]*types.Vote{}
	}
	if w.votes[i][v.Round] == nil {
		w.votes[i][v.Round] = map[byte]*types.Vote{}
	}
	w.votes[i][v.Round][v.Type] = v
}

// popAll lets node i handle everything it addressed to itself; its votes are recorded,
// a proposal of its own (later rounds) is kept for the other nodes.
func (w *world) popAll(i int) {
	for {
		m, ok := w.cl.PopInternal(i)
		if !ok {
			return
		}
		w.steps++
		switch x := m.(type) {
		case *cs.VoteMessage:
			w.noteVote(i, x.Vote)
		case *cs.ProposalMessage:
			if x.Proposal.Height == w.H {
				w.laterProp[x.Proposal.Round] = append(w.laterProp[x.Proposal.Round], m)
				// a block a correct proposer built in this round (unless it re-proposes a block seen before)
				k := string(x.Proposal.BlockPartsHeader.Hash)
				if w.known[k] == nil {
					w.known[k] = &knownBlock{parts: types.NewPartSetFromHeader(x.Proposal.BlockPartsHeader), from: i}
					w.gNames[k] = fmt.Sprintf("G%d", x.Proposal.Round)
				}
			}
		case *cs.BlockPartMessage:
			if x.Height == w.H {
				w.laterProp[x.Round] = append(w.laterProp[x.Round], m)
				for _, kb := range w.known {
					if kb.from == i && !kb.parts.IsComplete() {
						kb.parts.AddPart(x.Part)
					}
				}
			}
		}
	}
}

// after closes a step of node i: count kill requests raised by it.
func (w *world) after(i int) error {
	expect := 0
	nd := w.cl.Nodes[i]
	if rs := nd.CS.GetRoundState(); w.kills[i] == 0 && nd.Failure == nil && rs.Height == w.H && rs.Step == cstypes.RoundStepCommit &&
		nd.App.Height() >= w.H && nd.CS.VerifStatus().LastBlockHeight < w.H {
		expect = 1
	}
	n, ok := w.kw.collect(expect)
	if !ok {
		return fmt.Errorf("signal barrier lost")
	}
	w.kills[i] += n
	return nil
}

func (w *world) deliver(i int, m cs.ConsensusMessage, from int) {
	w.cl.Deliver(i, m, from)
	w.steps++
}

// recvByz: proposal and every part of B reach node i (round 0).
func (w *world) recvByz(i int) { w.recvByzBlock(i, "B", 0) }

// recvByzBlock: the Byzantine proposer's proposal of round r for its block `name` and
// every part of it reach node i.
func (w *world) recvByzBlock(i int, name string, r int) {
	bb := w.bz[name]
	prop := w.badProp
	if name != "B" || r != 0 {
		prop = w.cl.MakeProposal(w.byz, w.H, r, bb.parts, -1, types.BlockID{})
	}
	w.deliver(i, &cs.ProposalMessage{Proposal: prop}, w.byz)
	for k := 0; k < bb.parts.Total(); k++ {
		w.deliver(i, &cs.BlockPartMessage{Height: w.H, Round: r, Part: bb.parts.GetPart(k)}, w.byz)
	}
	if rs := w.cl.Nodes[i].CS.GetRoundState(); rs.Height == w.H && rs.Round == r && rs.Step == cstypes.RoundStepPropose && w.cl.Nodes[i].Failure == nil {
		// the block was dropped on receipt (undecodable, incomplete, foreign recover flag): the
		// node keeps waiting for a proposal until its propose timeout
		w.fireStep(i, w.H, r, cstypes.RoundStepPropose)
	}
	w.popAll(i)
}

func (w *world) timeoutPropose(i int) { w.timeoutProposeAt(i, 0) }

func (w *world) timeoutProposeAt(i int, r int) {
	w.fireStep(i, w.H, r, cstypes.RoundStepPropose)
	w.popAll(i)
}

// recvHonest: the correct proposer's proposal of round r reaches node i (the proposer
// itself handles its own copy).
func (w *world) recvHonest(i int, r int) {
	if i == w.props[r] {
		w.popAll(i)
		return
	}
	for _, m := range w.laterProp[r] {
		w.deliver(i, m, w.props[r])
	}
	w.popAll(i)
}

func (w *world) byzVote(r int, typ byte) *cs.VoteMessage {
	return w.byzVoteFor(r, typ, w.badID)
}

func (w *world) byzVoteFor(r int, typ byte, id types.BlockID) *cs.VoteMessage {
	return &cs.VoteMessage{Vote: w.cl.MakeVote(w.byz, w.status.Validators, w.H, r, typ, id)}
}

// recvVotes: every vote of (r, typ) - the other correct nodes' and the Byzantine one for B -
// reaches node i; a wait step that remains is ended by its timeout.
func (w *world) recvVotes(i int, r int, typ byte) { w.recvVotesWith(i, r, typ, w.byzVote(r, typ)) }

// recvVotesWith: ... with the given vote of the Byzantine validator (nil: it does not vote).
func (w *world) recvVotesWith(i int, r int, typ byte, byz *cs.VoteMessage) {
	for _, j := range w.honest {
		if j == i {
			continue
		}
		if v := w.votes[j][r][typ]; v != nil {
			w.deliver(i, &cs.VoteMessage{Vote: v}, j)
		}
	}
	if byz != nil {
		w.deliver(i, byz, w.byz)
	}
	rs := w.cl.Nodes[i].CS.GetRoundState()
	if rs.Height == w.H && rs.Round == r {
		if typ == types.VoteTypePrevote && rs.Step == cstypes.RoundStepPrevoteWait {
			w.fireStep(i, w.H, r, cstypes.RoundStepPrevoteWait)
		}
		if typ == types.VoteTypePrecommit && rs.Step == cstypes.RoundStepPrecommitWait {
			w.fireStep(i, w.H, r, cstypes.RoundStepPrecommitWait)
		}
	}
	if typ == types.VoteTypePrevote {
		w.popAll(i)
	}
}

// fetchBlock: node i waits in Commit for a block it lacks; the parts arrive.
func (w *world) fetchBlock(i int) {
	rs := w.cl.Nodes[i].CS.GetRoundState()
	if rs.ProposalBlockParts == nil {
		return
	}
	kb := w.known[string(rs.ProposalBlockParts.Header().Hash)]
	if kb == nil || !kb.parts.IsComplete() {
		return
	}
	for k := 0; k < kb.parts.Total(); k++ {
		w.deliver(i, &cs.BlockPartMessage{Height: w.H, Round: rs.Round, Part: kb.parts.GetPart(k)}, kb.from)
	}
}

func partsHeaderOf(ms []cs.ConsensusMessage) types.PartSetHeader {
	for _, m := range ms {
		if pm, ok := m.(*cs.ProposalMessage); ok {
			return pm.Proposal.BlockPartsHeader
		}
	}
	return types.PartSetHeader{}
}

// ---- observation (pi_prop and pi_shape) ---------------------------------------------

// nodeObs is the model's per-node record as observed on the real node.
type nodeObs struct {
	Round    int               `json:"round"`
	Step     string            `json:"step"`
	PB       string            `json:"pb"`
	LB       string            `json:"lb"`
	VB       string            `json:"vb"`
	PV       map[string]string `json:"pv"`
	PC       map[string]string `json:"pc"`
	Stored   string            `json:"stored"`
	Applied  bool              `json:"applied"`
	Killed   bool              `json:"killed"`
	Restarts int               `json:"restarts"`
}

// nameID names a BlockID as the model does: the Byzantine validator's blocks by their
// whole id (a twin shares the hash with B and differs in the part-set header), the
// blocks of correct proposers by the round they were built in.
func (w *world) nameID(id types.BlockID) string {
	if id.IsZero() {
		return "nil"
	}
	for _, name := range []string{"B", "B2"} {
		if bb := w.bz[name]; bb != nil && id.Equals(bb.id) {
			return name
		}
	}
	if g, ok := w.gNames[string(id.PartsHeader.Hash)]; ok {
		return g
	}
	return "G1"
}

// gIsB: the correct proposer of round 1 built, byte for byte, the block the round-0
// proposer had built (same second, same mempool, same previous commit) - possible only
// when B is the untouched control and the world does not force distinct blocks. The
// model calls what is voted from round 1 on "G1".
func (w *world) gIsB() bool {
	h := partsHeaderOf(w.laterProp[1])
	return !w.distinctG && !h.IsZero() && h.Equals(w.badParts.Header())
}

func (w *world) rename(name string, round int) string {
	if name == "B" && round >= 1 && w.gIsB() {
		return "G1"
	}
	return name
}

func (w *world) nameBlock(b *types.Block, ps *types.PartSet) string {
	if b == nil {
		return "none"
	}
	if ps == nil {
		return "G1"
	}
	return w.nameID(types.BlockID{Hash: b.Hash(), PartsHeader: ps.Header()})
}

func (w *world) observe(i int, maxRound int) nodeObs {
	n := w.cl.Nodes[i]
	rs := n.CS.GetRoundState()
	st := n.CS.VerifStatus()
	o := nodeObs{PV: map[string]string{}, PC: map[string]string{}, Stored: "none"}
	for r := 0; r <= maxRound; r++ {
		k := fmt.Sprint(r)
		o.PV[k], o.PC[k] = "none", "none"
		if v := w.votes[i][r][types.VoteTypePrevote]; v != nil {
			o.PV[k] = w.rename(w.nameID(v.BlockID), r)
		}
		if v := w.votes[i][r][types.VoteTypePrecommit]; v != nil {
			o.PC[k] = w.rename(w.nameID(v.BlockID), r)
		}
	}
	if n.App.Height() >= w.H {
		if meta := n.App.LoadBlockMeta(w.H); meta != nil {
			o.Stored = w.nameID(meta.BlockID)
			if sc := n.App.LoadSeenCommit(w.H); sc != nil {
				o.Stored = w.rename(o.Stored, sc.Round())
			}
		} else {
			o.Stored = "G1"
		}
	}
	o.Applied = st.LastBlockHeight >= w.H || w.reapplied[i]
	o.Killed = w.kills[i] > 0
	o.Restarts = w.restarts[i]
	switch {
	case n.Failure != nil:
		o.Step = "failed"
	case rs.Height > w.H:
		o.Step = "done"
	case rs.Step <= cstypes.RoundStepPropose:
		o.Step = "propose"
	case rs.Step <= cstypes.RoundStepPrevoteWait:
		o.Step = "prevote"
	case rs.Step <= cstypes.RoundStepPrecommitWait:
		o.Step = "precommit"
	default:
		o.Step = "commit"
	}
	o.Round = rs.Round
	o.PB, o.LB, o.VB = "none", "none", "none"
	if rs.Height == w.H {
		o.PB = w.rename(w.nameBlock(rs.ProposalBlock, rs.ProposalBlockParts), rs.Round)
		o.LB = w.rename(w.nameBlock(rs.LockedBlock, rs.LockedBlockParts), rs.Round)
		o.VB = w.rename(w.nameBlock(rs.ValidBlock, rs.ValidBlockParts), rs.Round)
	}
	return o
}

// restart does what node.NewNode does with these components after the process was
// killed: reload the consensus status, boot the application on the same databases and,
// if the application is one block ahead, re-run ApplyBlock on the stored block.
func (w *world) restart(i int) (applied bool, err error) {
	defer func() {
		if r := recover(); r != nil {
			err = fmt.Errorf("restart panicked: %v", r)
		}
	}()
	n := w.cl.Nodes[i]
	status, err := cs.LoadStatus(n.StatusDB)
	if err != nil {
		return false, err
	}
	env, err := appx.Boot(w.envs[i].DBs, w.isTrie, nil)
	if err != nil {
		return false, err
	}
	defer env.Stop()
	appHeight := env.App.Height()
	if status.LastBlockHeight+1 != appHeight {
		return status.LastBlockHeight >= w.H, nil
	}
	meta, blk := env.App.LoadBlockMeta(appHeight), env.App.LoadBlock(appHeight)
	if meta == nil || blk == nil {
		return false, types.ErrUnknownBlock
	}
	be := cs.NewBlockExecutor(appx.CloneMem(n.StatusDB, w.dir), nopLogger(), cs.MockEvidencePool{})
	if _, err := be.ApplyBlock(status, meta.BlockID, blk, env.App.GetValidators(appHeight)); err != nil {
		return false, err
	}
	return true, nil
}
