package c02

// A world is one 4-validator cluster of real consensus.ConsensusState instances, each on
// its own real LinkApplication (appx), driven synchronously through hook H1. At the
// target height the proposer of round 0 is taken over by the harness ("Byzantine"): its
// honestly built block is intercepted, corrupted, re-hashed, re-split, re-signed with the
// proposer's real key and served to the three other (correct) validators.

import (
	"bytes"
	"fmt"
	"os"
	"os/signal"
	"path/filepath"
	"syscall"
	"time"

	cs "github.com/lianxiangcloud/linkchain/consensus"
	cstypes "github.com/lianxiangcloud/linkchain/consensus/types"
	"github.com/lianxiangcloud/linkchain/libs/ser"
	"github.com/lianxiangcloud/linkchain/types"

	"verifh/appx"
	"verifh/cluster"
)

// ---- "the node asked to be killed" ----------------------------------------------

// killWatch counts SIGTERM deliveries to this process (cmn.Kill() sends SIGTERM to the
// own pid; the check catches it instead of dying). After every step of a node a barrier
// closes the count without sleeping: the Go runtime hands signals to os/signal in
// ascending signal number per batch and batches in order, so once a SIGWINCH (28) sent
// after the step has arrived, every SIGTERM (15) handled before it has arrived too. A
// process-directed signal may be handled by another thread after the barrier; see collect.
type killWatch struct {
	ch chan os.Signal
}

func newKillWatch() *killWatch {
	k := &killWatch{ch: make(chan os.Signal, 256)}
	signal.Notify(k.ch, syscall.SIGTERM, syscall.SIGWINCH)
	return k
}

func (k *killWatch) stop() { signal.Stop(k.ch) }

// collect returns the number of SIGTERMs delivered since the last call. expect is the
// number of kill requests the caller has reason to wait for (the acting node sits in
// RoundStepCommit with the block stored and not applied - the state finalizeCommit
// leaves behind on the Kill path): a process-directed signal may be handled by another
// thread later than the barrier, so those are waited for (bounded) instead of being
// attributed to a later step. ok=false if the barrier did not come back.
func (k *killWatch) collect(expect int) (n int, ok bool) {
	syscall.Kill(os.Getpid(), syscall.SIGWINCH)
	deadline := time.After(20 * time.Second)
	barrier := false
	for !barrier || n < expect {
		select {
		case s := <-k.ch:
			if s == syscall.SIGTERM {
				n++
			} else {
				barrier = true
			}
		case <-deadline:
			return n, barrier
		}
	}
	return n, true
}

// ---- the cluster ---------------------------------------------------------------

type world struct {
	cl     *cluster.Cluster
	envs   []*appx.Env
	dir    string
	acct   *appx.Account
	other  *appx.Account
	nonce  uint64
	isTrie bool
	kw     *killWatch

	H       uint64 // target height
	byz     int    // index of the validator the harness plays at height H
	honest  []int  // abstract n1..n3 -> node index
	honProp *cs.ProposalMessage
	honBlk  []byte // encoded honest block of (H, 0)
	status  cs.NewStatus

	// the Byzantine block
	bad      *types.Block
	badParts *types.PartSet
	badID    types.BlockID
	badProp  *types.Proposal

	// votes the correct nodes emitted at height H, per node index and round
	votes map[int]map[int]map[byte]*types.Vote
	// messages of the correct proposer of a later round
	laterProp map[int][]cs.ConsensusMessage
	kills     map[int]int // SIGTERMs observed during a step of node i
	restarts  map[int]int
	reapplied map[int]bool // a restart applied the stored block
	steps     int
}

func newWorld(dir string, isTrie bool, kw *killWatch) (w *world, err error) {
	defer func() {
		if r := recover(); r != nil {
			err = fmt.Errorf("building the cluster: %v", r)
		}
	}()
	w = &world{dir: dir, isTrie: isTrie, kw: kw, acct: appx.NewAccount(1), other: appx.NewAccount(2),
		votes: map[int]map[int]map[byte]*types.Vote{}, laterProp: map[int][]cs.ConsensusMessage{}, kills: map[int]int{}, restarts: map[int]int{}, reapplied: map[int]bool{}}
	w.envs = make([]*appx.Env, 4)
	w.cl, err = cluster.New(cluster.Options{N: 4, ChainID: appx.ChainID,
		MakeApp: func(i int, c *cluster.Cluster) (cs.BlockChainApp, *cluster.MockApp, cs.Mempool) {
			d := appx.NewMemDBs(filepath.Join(dir, fmt.Sprintf("n%d", i)))
			if e := appx.InitGenesis(d, isTrie, []appx.Alloc{{Addr: w.acct.Addr, Balance: appx.LKC(1000000)}}); e != nil {
				panic(e)
			}
			env, e := appx.Boot(d, isTrie, nil)
			if e != nil {
				panic(e)
			}
			w.envs[i] = env
			return env.App, nil, env.MP
		}})
	return w, err
}

func (w *world) close() {
	for _, e := range w.envs {
		if e != nil {
			e.Stop()
		}
	}
	os.RemoveAll(w.dir)
}

// addTxs puts n fresh transfers into every node's mempool.
func (w *world) addTxs(n int) error {
	for k := 0; k < n; k++ {
		tx := w.acct.Transfer(w.nonce, w.other.Addr, appx.LKC(1))
		w.nonce++
		for i, e := range w.envs {
			if err := e.MP.AddTx("", tx); err != nil {
				return fmt.Errorf("node %d mempool: %v", i, err)
			}
		}
	}
	return nil
}

func (w *world) all() []int { return []int{0, 1, 2, 3} }

// fireStep fires node i's pending timeout for (height, round, step), if it has one.
func (w *world) fireStep(i int, h uint64, r int, st cstypes.RoundStepType) bool {
	n := w.cl.Nodes[i]
	for k := len(n.Pend) - 1; k >= 0; k-- {
		t := n.Pend[k]
		if t.Height == h && t.Round == r && t.Step == st {
			w.cl.Fire(i, k)
			w.steps++
			return true
		}
	}
	return false
}

// prune forgets timeouts of earlier heights.
func (w *world) prune(h uint64) {
	for _, n := range w.cl.Nodes {
		var keep []cs.VerifTimeout
		for _, t := range n.Pend {
			if t.Height >= h {
				keep = append(keep, t)
			}
		}
		n.Pend = keep
	}
}

// runHonestHeight lets all four (correct) nodes decide height h in lock step; withRound1
// loses the round-0 proposal on the network so that the block is decided in round 1.
func (w *world) runHonestHeight(h uint64, withRound1 bool) error {
	if err := w.addTxs(1 + int(h%2)); err != nil {
		return err
	}
	w.prune(h)
	for _, i := range w.all() {
		if !w.fireStep(i, h, 0, cstypes.RoundStepNewHeight) {
			return fmt.Errorf("node %d has no NewHeight timeout for height %d", i, h)
		}
	}
	if withRound1 {
		// the proposer's proposal and parts are lost; votes travel
		p := w.cl.ViewOf(w.cl.Nodes[0]).Proposer
		for {
			m, ok := w.cl.PopInternal(p)
			if !ok {
				break
			}
			if vm, isVote := m.(*cs.VoteMessage); isVote {
				for _, j := range w.all() {
					if j != p {
						w.cl.Deliver(j, vm, p)
					}
				}
			}
		}
		for _, i := range w.all() {
			if i != p {
				w.fireStep(i, h, 0, cstypes.RoundStepPropose)
			}
		}
	}
	done := func() bool {
		for _, i := range w.all() {
			if w.cl.Nodes[i].CS.VerifStatus().LastBlockHeight < h {
				return false
			}
		}
		return true
	}
	for it := 0; it < 200 && !done(); it++ {
		if w.cl.DrainAll() {
			continue
		}
		fired := false
		for _, i := range w.all() {
			n := w.cl.Nodes[i]
			// latest timeout of the height being decided only: the next height is started by the caller
			// (a stale one is ignored by handleTimeout; Fire forgets the one it fired and
			// appends what the step scheduled)
			for k := len(n.Pend) - 1; k >= 0; k-- {
				if n.Pend[k].Height == h {
					w.cl.Fire(i, k)
					fired = true
					break
				}
			}
		}
		if !fired {
			break
		}
	}
	w.cl.DrainAll()
	if !done() {
		return fmt.Errorf("the correct cluster did not decide height %d", h)
	}
	for _, i := range w.all() {
		if f := w.cl.Nodes[i].Failure; f != nil {
			return fmt.Errorf("node %d failed while deciding height %d: %v", i, h, f)
		}
	}
	return nil
}

// takeOver starts height H, intercepts the round-0 proposer's own proposal and makes it
// the Byzantine validator. perm orders the three correct nodes after the round-1 proposer.
func (w *world) takeOver(H uint64, perm []int, txs int) error {
	w.H = H
	if txs <= 0 {
		txs = 2
	}
	if err := w.addTxs(txs); err != nil {
		return err
	}
	w.prune(H)
	for _, i := range w.all() {
		if !w.fireStep(i, H, 0, cstypes.RoundStepNewHeight) {
			return fmt.Errorf("node %d has no NewHeight timeout for height %d", i, H)
		}
	}
	p := w.cl.ViewOf(w.cl.Nodes[0]).Proposer
	for _, i := range w.all() {
		if q := w.cl.ViewOf(w.cl.Nodes[i]).Proposer; q != p {
			return fmt.Errorf("nodes disagree on the proposer of (%d,0): %d vs %d", H, p, q)
		}
	}
	w.byz = p
	var parts []*types.Part
	for {
		m, ok := w.cl.PopInternal(p)
		if !ok {
			break
		}
		switch x := m.(type) {
		case *cs.ProposalMessage:
			w.honProp = x
		case *cs.BlockPartMessage:
			parts = append(parts, x.Part)
		}
	}
	if w.honProp == nil || len(parts) == 0 {
		return fmt.Errorf("proposer %d of (%d,0) produced no proposal", p, H)
	}
	ps := types.NewPartSetFromHeader(w.honProp.Proposal.BlockPartsHeader)
	for _, pt := range parts {
		if _, err := ps.AddPart(pt); err != nil {
			return err
		}
	}
	if !ps.IsComplete() {
		return fmt.Errorf("honest part set incomplete")
	}
	var buf bytes.Buffer
	if _, err := buf.ReadFrom(ps.GetReader()); err != nil {
		return err
	}
	w.honBlk = buf.Bytes()
	// the correct nodes: the proposer of round 1 first (the model's n1), the others as permuted
	var rest []int
	for _, i := range w.all() {
		if i != p {
			rest = append(rest, i)
		}
	}
	w.status = w.cl.Nodes[rest[0]].CS.VerifStatus()
	vs := w.status.Validators.Copy()
	vs.IncrementAccum(1)
	q := w.cl.IndexOf(vs.GetProposer().Address)
	if q == p || q < 0 {
		return fmt.Errorf("round-1 proposer is %d (Byzantine %d)", q, p)
	}
	w.honest = []int{q}
	var others []int
	for _, i := range rest {
		if i != q {
			others = append(others, i)
		}
	}
	if perm != nil && perm[0] == 1 {
		others[0], others[1] = others[1], others[0]
	}
	w.honest = append(w.honest, others...)
	return nil
}

// decodeHonest returns a fresh decoding of the honest block (no caches populated).
func (w *world) decodeHonest() (*types.Block, error) {
	var b *types.Block
	if _, err := ser.DecodeReader(bytes.NewReader(w.honBlk), &b, int64(w.status.ConsensusParams.BlockSize.MaxBytes)); err != nil {
		return nil, err
	}
	return b, nil
}

// forge finishes the Byzantine block: split with the status' part size, name it by what a
// receiver computes after decoding, sign the proposal with the proposer's real key.
func (w *world) forge(b *types.Block) (err error) {
	defer func() {
		if r := recover(); r != nil {
			err = fmt.Errorf("forging the block: %v", r)
		}
	}()
	w.badParts = b.MakePartSet(w.status.ConsensusParams.BlockGossip.BlockPartSizeBytes)
	var recv *types.Block
	if _, err := ser.DecodeReader(w.badParts.GetReader(), &recv, int64(w.status.ConsensusParams.BlockSize.MaxBytes)); err != nil {
		return fmt.Errorf("the forged block does not decode: %v", err)
	}
	w.bad = recv
	w.badID = types.BlockID{Hash: recv.Hash(), PartsHeader: w.badParts.Header()}
	w.badProp = w.cl.MakeProposal(w.byz, w.H, 0, w.badParts, -1, types.BlockID{})
	return nil
}

// ---- steps of the correct nodes ---------------------------------------------------

func (w *world) noteVote(i int, v *types.Vote) {
	if v.Height != w.H {
		return
	}
	if w.votes[i] == nil {
		w.votes[i] = map[int]map[byte]*types.Vote{}
	}
	if w.votes[i][v.Round] == nil {
		w.votes[i][v.Round] = map[byte]*types.Vote{}
	}
	w.votes[i][v.Round][v.Type] = v
}

// popAll lets node i handle everything it addressed to itself; its votes are recorded,
// a proposal of its own (later rounds) is kept for the other nodes.
func (w *world) popAll(i int) {
	for {
		m, ok := w.cl.PopInternal(i)
		if !ok {
			return
		}
		w.steps++
		switch x := m.(type) {
		case *cs.VoteMessage:
			w.noteVote(i, x.Vote)
		case *cs.ProposalMessage:
			if x.Proposal.Height == w.H {
				w.laterProp[x.Proposal.Round] = append(w.laterProp[x.Proposal.Round], m)
			}
		case *cs.BlockPartMessage:
			if x.Height == w.H {
				w.laterProp[x.Round] = append(w.laterProp[x.Round], m)
			}
		}
	}
}

// after closes a step of node i: count kill requests raised by it.
func (w *world) after(i int) error {
	expect := 0
	nd := w.cl.Nodes[i]
	if rs := nd.CS.GetRoundState(); w.kills[i] == 0 && nd.Failure == nil && rs.Height == w.H && rs.Step == cstypes.RoundStepCommit &&
		nd.App.Height() >= w.H && nd.CS.VerifStatus().LastBlockHeight < w.H {
		expect = 1
	}
	n, ok := w.kw.collect(expect)
	if !ok {
		return fmt.Errorf("signal barrier lost")
	}
	w.kills[i] += n
	return nil
}

func (w *world) deliver(i int, m cs.ConsensusMessage, from int) {
	w.cl.Deliver(i, m, from)
	w.steps++
}

// recvByz: proposal and every part of B reach node i.
func (w *world) recvByz(i int) {
	w.deliver(i, &cs.ProposalMessage{Proposal: w.badProp}, w.byz)
	for k := 0; k < w.badParts.Total(); k++ {
		w.deliver(i, &cs.BlockPartMessage{Height: w.H, Round: 0, Part: w.badParts.GetPart(k)}, w.byz)
	}
	if rs := w.cl.Nodes[i].CS.GetRoundState(); rs.Height == w.H && rs.Round == 0 && rs.Step == cstypes.RoundStepPropose && w.cl.Nodes[i].Failure == nil {
		// the block was dropped on receipt (undecodable, incomplete, foreign recover flag): the
		// node keeps waiting for a proposal until its propose timeout
		w.fireStep(i, w.H, 0, cstypes.RoundStepPropose)
	}
	w.popAll(i)
}

func (w *world) timeoutPropose(i int) {
	w.fireStep(i, w.H, 0, cstypes.RoundStepPropose)
	w.popAll(i)
}

// recvHonest: the correct proposer's proposal of round r reaches node i (the proposer
// itself handles its own copy).
func (w *world) recvHonest(i int, r int) {
	if i == w.honest[0] {
		w.popAll(i)
		return
	}
	for _, m := range w.laterProp[r] {
		w.deliver(i, m, w.honest[0])
	}
	w.popAll(i)
}

func (w *world) byzVote(r int, typ byte) *cs.VoteMessage {
	return &cs.VoteMessage{Vote: w.cl.MakeVote(w.byz, w.status.Validators, w.H, r, typ, w.badID)}
}

// recvVotes: every vote of (r, typ) - the other correct nodes' and the Byzantine one for B -
// reaches node i; a wait step that remains is ended by its timeout.
func (w *world) recvVotes(i int, r int, typ byte) {
	for _, j := range w.honest {
		if j == i {
			continue
		}
		if v := w.votes[j][r][typ]; v != nil {
			w.deliver(i, &cs.VoteMessage{Vote: v}, j)
		}
	}
	w.deliver(i, w.byzVote(r, typ), w.byz)
	rs := w.cl.Nodes[i].CS.GetRoundState()
	if rs.Height == w.H && rs.Round == r {
		if typ == types.VoteTypePrevote && rs.Step == cstypes.RoundStepPrevoteWait {
			w.fireStep(i, w.H, r, cstypes.RoundStepPrevoteWait)
		}
		if typ == types.VoteTypePrecommit && rs.Step == cstypes.RoundStepPrecommitWait {
			w.fireStep(i, w.H, r, cstypes.RoundStepPrecommitWait)
		}
	}
	if typ == types.VoteTypePrevote {
		w.popAll(i)
	}
}

// fetchBlock: node i waits in Commit for a block it lacks; the parts arrive.
func (w *world) fetchBlock(i int) {
	rs := w.cl.Nodes[i].CS.GetRoundState()
	if rs.ProposalBlockParts == nil {
		return
	}
	if rs.ProposalBlockParts.HasHeader(w.badParts.Header()) {
		for k := 0; k < w.badParts.Total(); k++ {
			w.deliver(i, &cs.BlockPartMessage{Height: w.H, Round: rs.Round, Part: w.badParts.GetPart(k)}, w.byz)
		}
		return
	}
	for r, ms := range w.laterProp {
		for _, m := range ms {
			if bp, ok := m.(*cs.BlockPartMessage); ok && rs.ProposalBlockParts.HasHeader(partsHeaderOf(w.laterProp[r])) {
				w.deliver(i, bp, w.honest[0])
			}
		}
	}
}

func partsHeaderOf(ms []cs.ConsensusMessage) types.PartSetHeader {
	for _, m := range ms {
		if pm, ok := m.(*cs.ProposalMessage); ok {
			return pm.Proposal.BlockPartsHeader
		}
	}
	return types.PartSetHeader{}
}

// ---- observation (pi_prop and pi_shape) ---------------------------------------------

// nodeObs is the model's per-node record as observed on the real node.
type nodeObs struct {
	Round    int               `json:"round"`
	Step     string            `json:"step"`
	PB       string            `json:"pb"`
	LB       string            `json:"lb"`
	PV       map[string]string `json:"pv"`
	PC       map[string]string `json:"pc"`
	Stored   string            `json:"stored"`
	Applied  bool              `json:"applied"`
	Killed   bool              `json:"killed"`
	Restarts int               `json:"restarts"`
}

func (w *world) nameID(id types.BlockID) string {
	if id.IsZero() {
		return "nil"
	}
	if id.Equals(w.badID) {
		return "B"
	}
	return "G"
}

// gIsB: the correct proposer of round 1 built, byte for byte, the block the round-0
// proposer had built (same second, same mempool, same previous commit) - possible only
// when B is the untouched control. The model calls what is voted from round 1 on "G".
func (w *world) gIsB() bool {
	h := partsHeaderOf(w.laterProp[1])
	return !h.IsZero() && h.Equals(w.badParts.Header())
}

func (w *world) rename(name string, round int) string {
	if name == "B" && round >= 1 && w.gIsB() {
		return "G"
	}
	return name
}

func (w *world) nameBlock(b *types.Block, ps *types.PartSet) string {
	if b == nil {
		return "none"
	}
	if ps != nil && ps.HasHeader(w.badParts.Header()) && b.Hash() == w.badID.Hash {
		return "B"
	}
	return "G"
}

func (w *world) observe(i int, maxRound int) nodeObs {
	n := w.cl.Nodes[i]
	rs := n.CS.GetRoundState()
	st := n.CS.VerifStatus()
	o := nodeObs{PV: map[string]string{}, PC: map[string]string{}, Stored: "none"}
	for r := 0; r <= maxRound; r++ {
		k := fmt.Sprint(r)
		o.PV[k], o.PC[k] = "none", "none"
		if v := w.votes[i][r][types.VoteTypePrevote]; v != nil {
			o.PV[k] = w.rename(w.nameID(v.BlockID), r)
		}
		if v := w.votes[i][r][types.VoteTypePrecommit]; v != nil {
			o.PC[k] = w.rename(w.nameID(v.BlockID), r)
		}
	}
	if n.App.Height() >= w.H {
		if meta := n.App.LoadBlockMeta(w.H); meta != nil {
			o.Stored = w.nameID(meta.BlockID)
			if sc := n.App.LoadSeenCommit(w.H); sc != nil {
				o.Stored = w.rename(o.Stored, sc.Round())
			}
		} else {
			o.Stored = "G"
		}
	}
	o.Applied = st.LastBlockHeight >= w.H || w.reapplied[i]
	o.Killed = w.kills[i] > 0
	o.Restarts = w.restarts[i]
	switch {
	case n.Failure != nil:
		o.Step = "failed"
	case rs.Height > w.H:
		o.Step = "done"
	case rs.Step <= cstypes.RoundStepPropose:
		o.Step = "propose"
	case rs.Step <= cstypes.RoundStepPrevoteWait:
		o.Step = "prevote"
	case rs.Step <= cstypes.RoundStepPrecommitWait:
		o.Step = "precommit"
	default:
		o.Step = "commit"
	}
	o.Round = rs.Round
	o.PB, o.LB = "none", "none"
	if rs.Height == w.H {
		o.PB = w.rename(w.nameBlock(rs.ProposalBlock, rs.ProposalBlockParts), rs.Round)
		o.LB = w.rename(w.nameBlock(rs.LockedBlock, rs.LockedBlockParts), rs.Round)
	}
	return o
}

// restart does what node.NewNode does with these components after the process was
// killed: reload the consensus status, boot the application on the same databases and,
// if the application is one block ahead, re-run ApplyBlock on the stored block.
func (w *world) restart(i int) (applied bool, err error) {
	defer func() {
		if r := recover(); r != nil {
			err = fmt.Errorf("restart panicked: %v", r)
		}
	}()
	n := w.cl.Nodes[i]
	status, err := cs.LoadStatus(n.StatusDB)
	if err != nil {
		return false, err
	}
	env, err := appx.Boot(w.envs[i].DBs, w.isTrie, nil)
	if err != nil {
		return false, err
	}
	defer env.Stop()
	appHeight := env.App.Height()
	if status.LastBlockHeight+1 != appHeight {
		return status.LastBlockHeight >= w.H, nil
	}
	meta, blk := env.App.LoadBlockMeta(appHeight), env.App.LoadBlock(appHeight)
	if meta == nil || blk == nil {
		return false, types.ErrUnknownBlock
	}
	be := cs.NewBlockExecutor(appx.CloneMem(n.StatusDB, w.dir), nopLogger(), cs.MockEvidencePool{})
	if _, err := be.ApplyBlock(status, meta.BlockID, blk, env.App.GetValidators(appHeight)); err != nil {
		return false, err
	}
	return true, nil
}
