package c02

// Behaviours of the two-block instances of BlockValidity (Two*.cfg): one Byzantine
// proposer builds a first block B and a second block B2 - in the same round (it shows B
// to some correct validators and B2 to others) or in a later round in which it is the
// proposer again, with the rounds of the correct proposers in between - and votes as it
// likes. B2 is unrelated to B ("fresh") or B's twin: the same header, so the same
// Block.Hash(), with another body, so another part-set header and another BlockID.
//
// Here the exported graph DRIVES the replay: a behaviour is a maximal path of the graph;
// every edge is one action executed on a fresh cluster of real ConsensusState + real
// LinkApplication instances (the action's block classes instantiated by concrete
// constructions), and after every action the projection of all correct nodes is compared
// with the model's state.

import (
	"encoding/json"
	"fmt"
	"math/rand"
	"sort"
	"strings"
	"time"

	cs "github.com/lianxiangcloud/linkchain/consensus"
	"github.com/lianxiangcloud/linkchain/types"

	"verifh/mbt"
)

// pathStep is one edge of a behaviour as handed to the replay job.
type pathStep struct {
	Act json.RawMessage `json:"act"`
	To  json.RawMessage `json:"to"`
	Ei  int             `json:"ei"`
}

type pathSpec struct {
	Inst     string     `json:"inst"` // the instance (configuration) the behaviour comes from
	ID       int        `json:"id"`
	MaxRound int        `json:"maxRound"`
	Steps    []pathStep `json:"steps"`
	Seed     int64      `json:"seed"` // chooses the concrete constructions
	Trie     bool       `json:"trie"`
	Tamper   string     `json:"tamper,omitempty"` // negative control: falsify one observation
	// re-run of a recorded violation: the concrete constructions to use
	HowB  string `json:"howB,omitempty"`
	HowB2 string `json:"howB2,omitempty"`
}

func (p pathSpec) String() string {
	return fmt.Sprintf("%s#%d/seed=%d/trie=%v", p.Inst, p.ID, p.Seed, p.Trie)
}

// ---- choosing behaviours ----------------------------------------------------------------

// subtreeSizes: number of edges below every state (the graph is acyclic; shared
// sub-graphs are counted once per way in - a weight, not a count).
func subtreeSizes(g *mbt.Graph) []float64 {
	size := make([]float64, len(g.States))
	state := make([]int8, len(g.States)) // 0 new, 1 in progress, 2 done
	var visit func(s int)
	visit = func(s int) {
		state[s] = 1
		var sum float64
		for _, ei := range g.Out[s] {
			t := g.Edges[ei].To
			if state[t] == 0 {
				visit(t)
			}
			if state[t] == 2 {
				sum += 1 + size[t]
			}
		}
		if sum > 1e12 {
			sum = 1e12
		}
		size[s] = sum
		state[s] = 2
	}
	visit(0)
	return size
}

// walksOf returns up to n maximal behaviours. Each walk prefers edges no earlier walk has
// taken and, among those (or among all when none is left), chooses by the size of the
// sub-graph below, so that the long behaviours - the ones that reach the later rounds -
// are visited in proportion to their share of the graph. n <= 0: until every edge is covered.
func walksOf(g *mbt.Graph, n int, rng *rand.Rand) (walks [][]int, coveredEdges int) {
	size := subtreeSizes(g)
	covered := make([]bool, len(g.Edges))
	// left[s]: some edge below s is uncovered (recomputed lazily: cleared on the way back)
	left := make([]bool, len(g.States))
	for s := range left {
		left[s] = len(g.Out[s]) > 0
	}
	stale := 0
	for (n <= 0 || len(walks) < n) && stale < 50 {
		cur := 0
		var walk []int
		fresh := 0
		for len(g.Out[cur]) > 0 {
			outs := g.Out[cur]
			var cand []int
			for _, ei := range outs {
				if !covered[ei] {
					cand = append(cand, ei)
				}
			}
			if len(cand) == 0 {
				for _, ei := range outs {
					if left[g.Edges[ei].To] {
						cand = append(cand, ei)
					}
				}
			}
			if len(cand) == 0 {
				left[cur] = false
				cand = outs
			}
			var total float64
			for _, ei := range cand {
				total += 1 + size[g.Edges[ei].To]
			}
			x := rng.Float64() * total
			pick := cand[len(cand)-1]
			for _, ei := range cand {
				x -= 1 + size[g.Edges[ei].To]
				if x < 0 {
					pick = ei
					break
				}
			}
			if !covered[pick] {
				covered[pick] = true
				coveredEdges++
				fresh++
			}
			walk = append(walk, pick)
			cur = g.Edges[pick].To
		}
		if fresh == 0 {
			stale++
			if n <= 0 {
				continue
			}
		} else {
			stale = 0
		}
		walks = append(walks, walk)
		if coveredEdges == len(g.Edges) {
			break
		}
	}
	return walks, coveredEdges
}

// A situation is what a correct validator has in hand at one of the three places where the
// code decides about a Byzantine block: when it is shown one (the vote guard of
// defaultDoPrevote), when the prevotes of a round are in (lock / precommit in
// enterPrecommit) and when the precommits are in (enterCommit / finalizeCommit). It is
// read off the model state before the step: the block shown or voted, its relation to the
// other Byzantine block, the node's proposal block and lock, and what it prevoted for in
// earlier rounds.
type stateView struct {
	Blk  struct{ C []string } `json:"blk"`
	Blk2 struct {
		C   []string
		Rel string
	} `json:"blk2"`
	Node map[string]nodeObs `json:"node"`
}

func situationsOf(g *mbt.Graph) map[string][]int {
	out := map[string][]int{}
	views := map[int]*stateView{}
	view := func(s int) *stateView {
		if v, ok := views[s]; ok {
			return v
		}
		var v stateView
		if json.Unmarshal(g.States[s], &v) != nil {
			views[s] = nil
			return nil
		}
		views[s] = &v
		return &v
	}
	isByz := func(v string) bool { return v == "B" || v == "B2" }
	for ei, e := range g.Edges {
		var a modelAct
		if json.Unmarshal(e.Act, &a) != nil {
			continue
		}
		if a.Op != "recvByz" && a.Op != "recvPrevotes" && a.Op != "recvPrecommits" {
			continue
		}
		v := view(e.From)
		if v == nil {
			continue
		}
		n, ok := v.Node[a.N]
		if !ok {
			continue
		}
		second := "-"
		if v.Blk2.Rel != "-" && v.Blk2.Rel != "" {
			second = v.Blk2.Rel + ":" + className(v.Blk2.C)
		}
		blocks := "B:" + className(v.Blk.C) + "/B2:" + second
		var key string
		switch a.Op {
		case "recvByz":
			earlier := map[string]bool{}
			for r := 0; r < a.R; r++ {
				if pv := n.PV[fmt.Sprint(r)]; isByz(pv) {
					earlier[pv] = true
				}
			}
			var el []string
			for x := range earlier {
				el = append(el, x)
			}
			sort.Strings(el)
			key = fmt.Sprintf("shown %s (%s) in round %d, locked on %s, prevoted %v before", a.V, blocks, a.R, n.LB, el)
		default:
			if !isByz(n.PB) && !isByz(n.LB) && !isByz(a.V) {
				continue
			}
			what := "prevotes"
			if a.Op == "recvPrecommits" {
				what = "precommits"
			}
			later := "round 0"
			if a.R > 0 {
				later = "a later round"
			}
			key = fmt.Sprintf("%s of %s: +2/3 for %s (%s), holds %s, locked on %s", what, later, a.V, blocks, n.PB, n.LB)
		}
		out[key] = append(out[key], ei)
	}
	return out
}

// targetedWalks returns, for every situation, perKey maximal behaviours through an edge in
// which it occurs: a random way back to the initial state (every state of the exported
// graph but the initial one has a predecessor, and the graph is acyclic), then onward as
// walksOf chooses.
func targetedWalks(g *mbt.Graph, perKey int, rng *rand.Rand) (walks [][]int, keys []string) {
	sit := situationsOf(g)
	for k := range sit {
		keys = append(keys, k)
	}
	sort.Strings(keys)
	in := make([][]int, len(g.States))
	for ei, e := range g.Edges {
		in[e.To] = append(in[e.To], ei)
	}
	size := subtreeSizes(g)
	for _, k := range keys {
		for c := 0; c < perKey; c++ {
			target := sit[k][rng.Intn(len(sit[k]))]
			var back []int
			for s := g.Edges[target].From; s != 0 && len(in[s]) > 0 && len(back) < 10000; {
				ei := in[s][rng.Intn(len(in[s]))]
				back = append(back, ei)
				s = g.Edges[ei].From
			}
			var walk []int
			for i := len(back) - 1; i >= 0; i-- {
				walk = append(walk, back[i])
			}
			walk = append(walk, target)
			for cur := g.Edges[target].To; len(g.Out[cur]) > 0; {
				outs := g.Out[cur]
				var total float64
				for _, ei := range outs {
					total += 1 + size[g.Edges[ei].To]
				}
				x := rng.Float64() * total
				pick := outs[len(outs)-1]
				for _, ei := range outs {
					x -= 1 + size[g.Edges[ei].To]
					if x < 0 {
						pick = ei
						break
					}
				}
				walk = append(walk, pick)
				cur = g.Edges[pick].To
			}
			walks = append(walks, walk)
		}
	}
	return walks, keys
}

// ---- concrete constructions ----------------------------------------------------------------

// bodies a twin can carry instead of the body the header commits to: catalogue entries
// that change LastCommit, Evidence or Data (applied to a copy; then the header is put back)
var twinBodies = []string{
	"lastcommit-body/drop-without-rehash", "lastcommit/resigned-wrong-key", "lastcommit/too-little-power",
	"lastcommit/nil-signature", "lastcommit/forged-missing-vote", "lastcommit/power-at-most-two-thirds/keep-own",
	"fve/missing", "fve/wrong-proposer", "dve/forged-signature", "none/with-genuine-evidence", "data/dropped-tx",
}

func sameSet(a, b []string) bool { return className(a) == className(b) }

func union(sets ...[]string) []string {
	m := map[string]bool{}
	for _, s := range sets {
		for _, x := range s {
			m[x] = true
		}
	}
	var out []string
	for x := range m {
		out = append(out, x)
	}
	sort.Strings(out)
	return out
}

// entriesOfClass lists the catalogue entries that violate exactly cls at height H.
func entriesOfClass(cls []string, H uint64, headerOnly bool) []string {
	var out []string
	for _, e := range catalogue {
		if e.Probe || e.Lcp != nil || !e.applies(H) || !sameSet(e.Flags(H), cls) {
			continue
		}
		if headerOnly && e.Name == "lastcommit-body/drop-without-rehash" {
			continue // leaves the header (and so the hash) of the honest block
		}
		out = append(out, e.Name)
	}
	return out
}

// makeTwin returns base's header with another body: `body` (a catalogue entry) applied to
// a copy of base, the header put back.
func (w *world) makeTwin(base *types.Block, body string) (*types.Block, []string, error) {
	bz, err := encodeBlock(base)
	if err != nil {
		return nil, nil, err
	}
	cp, err := decodeBlock(bz, w.status)
	if err != nil {
		return nil, nil, err
	}
	e := byName(body)
	if e == nil || !e.applies(w.H) {
		return nil, nil, fmt.Errorf("%s does not apply", body)
	}
	if err := e.Apply(w, cp); err != nil {
		return nil, nil, err
	}
	hdr := *base.Header
	cp.Header = &hdr
	return cp, union([]string{"basic"}, e.Flags(w.H)), nil
}

// anyTwin makes a twin of base with the given body, or (fixed == "") with a body drawn from
// twinBodies - the first one in a seeded order that applies to this block.
func (w *world) anyTwin(base *types.Block, fixed string, rng *rand.Rand) (*types.Block, []string, string, error) {
	bodies := append([]string{}, twinBodies...)
	rng.Shuffle(len(bodies), func(i, j int) { bodies[i], bodies[j] = bodies[j], bodies[i] })
	if fixed != "" {
		bodies = []string{fixed}
	}
	var last error
	for _, body := range bodies {
		t, f, err := w.makeTwin(base, body)
		if err == nil {
			return t, f, body, nil
		}
		last = err
	}
	return nil, nil, "", fmt.Errorf("no twin body applies: %v", last)
}

// ---- the replay --------------------------------------------------------------------------------

type pathPlan struct {
	setup     string
	first     *modelAct // byzPropose
	second    *modelAct // byzBuild2 (nil: none)
	maxRoundR int
}

// buildBlocks constructs B (and B2) for the behaviour: the classes are the model's, the
// constructions are drawn from the catalogue.
func (w *world) buildBlocks(pp pathPlan, ps pathSpec, rng *rand.Rand) (skip string, err error) {
	honest, err := w.decodeHonest()
	if err != nil {
		return "", err
	}
	pick := func(names []string, fixed string) string {
		if fixed != "" {
			return fixed
		}
		if len(names) == 0 {
			return ""
		}
		return names[rng.Intn(len(names))]
	}
	applyNamed := func(b *types.Block, name string) ([]string, error) {
		e := byName(name)
		if e == nil || !e.applies(w.H) {
			return nil, fmt.Errorf("%s does not apply at height %d", name, w.H)
		}
		if err := e.Apply(w, b); err != nil {
			return nil, err
		}
		return e.Flags(w.H), nil
	}
	c0 := pp.first.Cls
	twin := pp.second != nil && pp.second.Rel == "twin"
	var bB, bB2 *types.Block
	var fB, fB2 []string
	var howB, howB2 string
	switch {
	case twin && len(c0) == 1 && c0[0] == "basic":
		// B: the honest header with a foreign body; B2: the honest block
		t, f, body, err := w.anyTwin(honest, strings.TrimPrefix(ps.HowB, "twin-body:"), rng)
		if err != nil {
			return err.Error(), nil
		}
		bB, fB, howB = t, f, "twin-body:"+body
		bB2, fB2, howB2 = honest, nil, "none"
	default:
		howB = "none"
		bB = honest
		if len(c0) > 0 {
			// with a second block in play the first one changes the header: the honest block is then
			// not its twin (a few entries of the catalogue leave the header, and so the hash, alone)
			cands := entriesOfClass(c0, w.H, false)
			rng.Shuffle(len(cands), func(i, j int) { cands[i], cands[j] = cands[j], cands[i] })
			if ps.HowB != "" {
				cands = []string{ps.HowB}
			}
			howB = ""
			var why string
			for _, n := range cands {
				b, err := w.decodeHonest()
				if err != nil {
					return "", err
				}
				f, err := applyNamed(b, n)
				if err != nil {
					why = err.Error()
					continue
				}
				if pp.second != nil && b.Header != nil && b.Header.Hash() == honest.Header.Hash() {
					continue
				}
				bB, fB, howB = b, f, n
				break
			}
			if howB == "" {
				return fmt.Sprintf("no construction of class %v (%s)", c0, why), nil
			}
		}
		if pp.second == nil {
			break
		}
		c2 := pp.second.Cls
		if twin {
			// B2: B's header with another body
			t, f, body, err := w.anyTwin(bB, strings.TrimPrefix(ps.HowB2, "twin-body:"), rng)
			if err != nil {
				return err.Error(), nil
			}
			bB2, howB2 = t, "twin-body:"+body
			fB2 = union(f, fB)
			break
		}
		// fresh: the honest block again (when B is not it), with the class' corruption
		fresh, err := w.decodeHonest()
		if err != nil {
			return "", err
		}
		howB2 = "none"
		if len(c0) == 0 {
			// B is the honest block itself: another valid block of the same proposer (a second later)
			fresh.Header.Time++
			howB2 = "time+1"
		}
		if len(c2) > 0 {
			n := pick(entriesOfClass(c2, w.H, true), ps.HowB2)
			if n == "" {
				return fmt.Sprintf("no construction of class %v", c2), nil
			}
			f, err := applyNamed(fresh, strings.TrimPrefix(n, "time+1+"))
			if err != nil {
				return err.Error(), nil
			}
			fB2 = f
			if howB2 == "time+1" {
				howB2 = "time+1+" + strings.TrimPrefix(n, "time+1+")
			} else {
				howB2 = n
			}
		}
		bB2 = fresh
	}
	if err := w.forge(bB); err != nil {
		return err.Error(), nil
	}
	w.bz["B"].flags, w.bz["B"].rel, w.bz["B"].how = fB, "first", howB
	if bB2 != nil {
		bb, err := w.forgeAs("B2", bB2)
		if err != nil {
			return err.Error(), nil
		}
		bb.flags, bb.rel, bb.how = fB2, pp.second.Rel, howB2
		same := bb.id.Hash == w.badID.Hash
		if twin != same || bb.id.PartsHeader.Equals(w.badID.PartsHeader) {
			return "", fmt.Errorf("B2 (%s) was meant to be a %s block of B (%s): hashes equal %v, part sets equal %v", howB2, pp.second.Rel, howB, same, bb.id.PartsHeader.Equals(w.badID.PartsHeader))
		}
	}
	return "", nil
}

func encodeBlock(b *types.Block) ([]byte, error) { return serEncode(b) }

// playPath executes one behaviour of a two-block instance.
func playPath(ps pathSpec, kw *killWatch, dir string) (out outcome) {
	out.Desc = ps.String()
	out.Path = &pathInfo{Inst: ps.Inst, ID: ps.ID, Seed: ps.Seed}
	out.Scenario = scenario{Names: []string{"path"}, H: 2, Trie: ps.Trie, Tamper: ps.Tamper}
	defer func() {
		if r := recover(); r != nil {
			out.Infra = fmt.Sprintf("harness panic: %v", r)
		}
	}()
	acts := make([]*modelAct, len(ps.Steps))
	var pp pathPlan
	for k, st := range ps.Steps {
		var a modelAct
		if err := json.Unmarshal(st.Act, &a); err != nil {
			out.Infra = "bad action label: " + err.Error()
			return
		}
		acts[k] = &a
		switch a.Op {
		case "genesis":
			pp.setup = a.Setup
		case "byzPropose":
			pp.first = &a
		case "byzBuild2":
			pp.second = &a
		}
		out.Path.Labels = append(out.Path.Labels, labelOf(&a))
	}
	if pp.setup == "" || pp.first == nil {
		out.Skipped = "the behaviour ends before the first block is built"
		return
	}
	powers, err := powersOf(pp.setup)
	if err != nil {
		out.Infra = err.Error()
		return
	}
	rng := rand.New(rand.NewSource(ps.Seed))
	t0 := time.Now()
	defer func() { out.Path.Millis[2] = int(time.Since(t0) / time.Millisecond) }()
	w, err := newWorld(dir, ps.Trie, kw, powers)
	if err != nil {
		out.Infra = err.Error()
		return
	}
	defer w.close()
	w.distinctG = true
	out.Path.Millis[0] = int(time.Since(t0) / time.Millisecond)
	if err := w.runHonestHeight(1, false); err != nil {
		out.Infra = err.Error()
		return
	}
	if n, _ := kw.collect(0); n > 0 {
		out.Infra = fmt.Sprintf("%d kill requests while the correct cluster ran to height 1", n)
		return
	}
	if err := w.takeOver(2, nil, 0, ps.MaxRound, true, map[string]bool{pp.setup: true}); err != nil {
		out.Infra = err.Error()
		return
	}
	out.SetupID, out.Total, out.TargetH, out.Lcp = w.setupID, w.total, w.H, w.total
	for r := 0; r <= ps.MaxRound; r++ {
		// the model's rotation: the Byzantine validator, n1, n2, .., the Byzantine validator again
		want := w.byz
		if k := r % w.n; k > 0 {
			want = w.honest[k-1]
		}
		if w.props[r] != want {
			out.Infra = fmt.Sprintf("the proposer of round %d is node %d, the model's rotation expects node %d", r, w.props[r], want)
			return
		}
	}
	if skip, err := w.buildBlocks(pp, ps, rng); err != nil {
		out.Infra = err.Error()
		return
	} else if skip != "" {
		out.Skipped = skip
		return
	}
	out.Path.HowB, out.Path.FlagsB = w.bz["B"].how, w.bz["B"].flags
	out.Valid = len(w.bz["B"].flags) == 0
	out.Flags = w.bz["B"].flags
	out.Class = className(pp.first.Cls)
	out.Key = clauseKey(w.bz["B"].flags)
	if b2 := w.bz["B2"]; b2 != nil {
		out.Path.HowB2, out.Path.FlagsB2, out.Path.Rel = b2.how, b2.flags, b2.rel
		out.Valid = out.Valid && len(b2.flags) == 0
		out.Class += "/" + b2.rel + ":" + className(pp.second.Cls)
		out.Key = b2.rel + "/" + clauseKey(union(b2.flags, w.bz["B"].flags))
		out.Flags = union(out.Flags, b2.flags)
	}
	out.BadHash = fmt.Sprintf("%x", w.badID.Hash[:6])
	out.Parts = w.badParts.Total()
	out.ValidateErr = w.realValidate()
	out.Path.Millis[1] = int(time.Since(t0) / time.Millisecond)
	blk, _ := w.decodeHonest()
	if blk != nil {
		out.HonestTxs = len(blk.Data.Txs)
	}

	names := w.names
	idx := func(n string) int {
		for k, nn := range names {
			if nn == n {
				return w.honest[k]
			}
		}
		return -1
	}
	byzMsg := map[string]*cs.VoteMessage{}
	byzVal := map[string]string{}
	voteOf := func(r int, typ byte) *cs.VoteMessage {
		kind := "pv"
		if typ == types.VoteTypePrecommit {
			kind = "pc"
		}
		k := fmt.Sprintf("%s%d", kind, r)
		if m, ok := byzMsg[k]; ok {
			return m
		}
		v := "nil" // rounds of correct proposers: the Byzantine validator votes nil
		if w.props[r] == w.byz {
			v = byzVal[k]
		}
		var id types.BlockID
		if bb := w.bz[v]; bb != nil {
			id = bb.id
		} else if v != "nil" {
			return nil
		}
		byzMsg[k] = w.byzVoteFor(r, typ, id)
		return byzMsg[k]
	}
	lastRecvByz := -1
	for k, a := range acts {
		if a.Op == "recvByz" {
			lastRecvByz = k
		}
	}
	txAdded := map[int]bool{}
	following := true
	out.Conforms = true
	restartNote := map[string][]string{}
	for k, a := range acts {
		i := idx(a.N)
		node := i >= 0
		run := func() {
			switch a.Op {
			case "genesis", "byzPropose", "byzBuild2":
			case "byzPrevote":
				byzVal[fmt.Sprintf("pv%d", a.R)] = a.V
			case "byzPrecommit":
				byzVal[fmt.Sprintf("pc%d", a.R)] = a.V
			case "recvByz":
				w.recvByzBlock(i, a.V, a.R)
			case "timeoutPropose", "timeoutHonest":
				w.timeoutProposeAt(i, a.R)
			case "ownProposal", "recvHonest":
				w.recvHonest(i, a.R)
			case "recvPrevotes":
				w.recvVotesWith(i, a.R, types.VoteTypePrevote, voteOf(a.R, types.VoteTypePrevote))
			case "recvPrecommits":
				if !txAdded[a.R] {
					// whoever proposes the next round builds a block no earlier round has seen
					txAdded[a.R] = true
					if err := w.addTxs(1); err != nil {
						panic(err)
					}
				}
				w.recvVotesWith(i, a.R, types.VoteTypePrecommit, voteOf(a.R, types.VoteTypePrecommit))
			case "fetchBlock":
				w.fetchBlock(i)
			case "restart":
				w.restarts[i]++
				applied, err := w.restart(i)
				switch {
				case err != nil:
					restartNote[a.N] = append(restartNote[a.N], fmt.Sprintf("%s: restart fails: %v", a.N, firstLine(err.Error())))
				case applied:
					w.reapplied[i] = true
					restartNote[a.N] = append(restartNote[a.N], a.N+": restart applies the stored block")
				default:
					restartNote[a.N] = append(restartNote[a.N], a.N+": restart leaves the status behind")
				}
			default:
				panic("unknown model action " + a.Op)
			}
		}
		if following {
			run()
		} else {
			// past the first divergence the remaining actions are carried out as far as they go, to
			// see what the deviation leads to (persisted blocks, kill requests, failures)
			func() {
				defer func() { recover() }()
				run()
			}()
		}
		if node {
			if err := w.after(i); err != nil {
				out.Infra = err.Error()
				return
			}
		}
		out.NSteps++
		rec := stepRec{Op: a.Op, N: a.N, R: a.R, V: a.V, Obs: map[string]nodeObs{}}
		for j, nn := range names {
			rec.Obs[nn] = w.observe(w.honest[j], ps.MaxRound)
		}
		if ps.Tamper == "vote" && k == lastRecvByz {
			// negative control: pretend the node prevoted the block it was shown in the later round
			o := rec.Obs[a.N]
			pv := map[string]string{}
			for r, v := range o.PV {
				pv[r] = v
			}
			if pv[fmt.Sprint(a.R)] == a.V {
				pv[fmt.Sprint(a.R)] = "nil"
			} else {
				pv[fmt.Sprint(a.R)] = a.V
			}
			o.PV = pv
			rec.Obs[a.N] = o
		}
		if following {
			var ms modelState
			if err := json.Unmarshal(ps.Steps[k].To, &ms); err != nil || len(ms.Node) != len(names) {
				out.Infra = fmt.Sprintf("model state of step %d does not decode (%v, %d nodes)", k+1, err, len(ms.Node))
				return
			}
			out.EdgeIdx = append(out.EdgeIdx, ps.Steps[k].Ei)
			for _, nn := range names {
				m, o := ms.Node[nn], rec.Obs[nn]
				if d := diffProp(m, o); d != "" {
					following, out.Conforms = false, false
					out.Divergence = fmt.Sprintf("step %d %s: node %s: %s", out.NSteps, labelOf(a), nn, d)
					rec.Note = out.Divergence
					break
				}
				if d := diffShape(m, o); d != "" && len(out.Shape) < 5 {
					out.Shape = append(out.Shape, fmt.Sprintf("step %d %s: node %s: %s", out.NSteps, labelOf(a), nn, d))
				}
			}
		}
		out.Steps = append(out.Steps, rec)
	}
	w.verdict(&out, names, restartNote)
	if len(out.Steps) > 24 {
		// keep the head and the neighbourhood of the first divergence / the tail
		keep := append([]stepRec{}, out.Steps[:6]...)
		at := len(out.Steps) - 6
		for k, st := range out.Steps {
			if st.Note != "" {
				at = k - 5
				break
			}
		}
		if at < 6 {
			at = 6
		}
		end := at + 12
		if end > len(out.Steps) {
			end = len(out.Steps)
		}
		out.Steps = append(keep, out.Steps[at:end]...)
	}
	return
}

func labelOf(a *modelAct) string {
	switch a.Op {
	case "genesis":
		return "genesis(" + a.Setup + ")"
	case "byzPropose":
		return fmt.Sprintf("byzPropose(B:%s)", className(a.Cls))
	case "byzBuild2":
		return fmt.Sprintf("byzBuild2(B2:%s:%s,r%d)", a.Rel, className(a.Cls), a.R)
	case "byzPrevote", "byzPrecommit":
		return fmt.Sprintf("%s(r%d,%s)", a.Op, a.R, a.V)
	case "recvByz", "ownProposal", "recvHonest":
		return fmt.Sprintf("%s(%s,r%d,%s)", a.Op, a.N, a.R, a.V)
	}
	return fmt.Sprintf("%s(%s,r%d)", a.Op, a.N, a.R)
}

// powersOf parses a validator-set id "<Byzantine power>|<power of n1>,<powers of n2..>".
func powersOf(id string) ([]int64, error) {
	var out []int64
	for _, f := range strings.FieldsFunc(id, func(r rune) bool { return r == '|' || r == ',' }) {
		var p int64
		if _, err := fmt.Sscanf(f, "%d", &p); err != nil || p <= 0 {
			return nil, fmt.Errorf("bad validator-set id %q", id)
		}
		out = append(out, p)
	}
	if len(out) < 4 {
		return nil, fmt.Errorf("bad validator-set id %q", id)
	}
	return out, nil
}

type pathInfo struct {
	Inst    string   `json:"inst"`
	ID      int      `json:"id"`
	Seed    int64    `json:"seed"`
	Labels  []string `json:"labels"` // the behaviour: the model's actions
	Rel     string   `json:"rel,omitempty"`
	HowB    string   `json:"howB"`
	FlagsB  []string `json:"flagsB"`
	HowB2   string   `json:"howB2,omitempty"`
	FlagsB2 []string `json:"flagsB2,omitempty"`
	Millis  [3]int   `json:"millis"` // cluster built / blocks built / behaviour executed (ms since start)
}
