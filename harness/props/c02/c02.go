// Package c02: honest validators vote only for fully valid blocks; committed blocks apply.
//
// Model: spec/BlockValidity/BlockValidity.tla - the validity layer of the consensus state
// machine (what defaultDoPrevote / enterPrecommit check before voting, finalizeCommit
// split into CommitBlock . ApplyBlock . Kill, restart), one Byzantine proposer and three
// correct validators; the guard is a constant (AsCoded / AsRequired). TLC decides
// VotesOnlyFullyValid, PersistOnlyApplicable, NoWedge and ChainContinues exhaustively for
// every block class of up to three violated clauses and exports every transition.
//
// Binding: every exported behaviour class is replayed on a 4-validator cluster of real
// consensus.ConsensusState instances on real LinkApplication instances (package world.go);
// the abstract block classes are instantiated by a catalogue of concrete corruptions of an
// honestly built block (corrupt.go); after every step the votes, the persisted block, the
// applied flag, kill requests and failures of all three correct nodes are compared with
// the model's state (scenario.go).
package c02

import (
	"encoding/json"
	"fmt"
	"io"
	"io/ioutil"
	"math/rand"
	"os"
	"path/filepath"
	"sort"
	"strings"
	"sync"

	"github.com/lianxiangcloud/linkchain/libs/ser"
	"github.com/lianxiangcloud/linkchain/types"

	"verifh/core"
	"verifh/mbt"
	"verifh/tlc"
)

func init() { core.Register("C02", run) }

func serDecodeReader(ps *types.PartSet, out interface{}, max int64) (int64, error) {
	var r io.Reader = ps.GetReader()
	return ser.DecodeReader(r, out, max)
}

type job struct {
	Edges     string     `json:"edges"`
	Coded     string     `json:"coded"` // edges of the AsCoded graph (pi_shape conformance of the tree as it is)
	Scenarios []scenario `json:"scenarios"`
	Dir       string     `json:"dir"`
}

// child replays the scenarios of one job in this process (cmn.Kill() of a node under
// test sends SIGTERM to the process: it is caught and counted, see killWatch).
func child(c *core.Ctx) {
	var j job
	if err := json.Unmarshal([]byte(c.Child), &j); err != nil {
		fmt.Fprintln(os.Stderr, "bad job:", err)
		os.Exit(3)
	}
	kw := newKillWatch()
	defer kw.stop()
	load := func(file string) *graphIndex {
		if file == "" {
			return nil
		}
		b, err := ioutil.ReadFile(file)
		if err != nil {
			fmt.Fprintln(os.Stderr, err)
			os.Exit(3)
		}
		g, err := mbt.Load(strings.Split(strings.TrimSpace(string(b)), "\n"))
		if err != nil {
			fmt.Fprintln(os.Stderr, err)
			os.Exit(3)
		}
		return newGraphIndex(g)
	}
	gi, coded := load(j.Edges), load(j.Coded)
	for k, sc := range j.Scenarios {
		fmt.Printf("AT %s\n", sc.String())
		out := play(sc, gi, coded, kw, filepath.Join(j.Dir, fmt.Sprintf("w%d", k)))
		b, _ := json.Marshal(out)
		fmt.Printf("RESULT %s\n", b)
	}
	fmt.Println("DONE")
}

func newGraphIndex(g *mbt.Graph) *graphIndex {
	gi := &graphIndex{g: g, classes: map[string]bool{}}
	for _, ei := range g.Out[0] {
		var a modelAct
		json.Unmarshal(g.Edges[ei].Act, &a)
		gi.classes[className(a.Cls)] = true
	}
	return gi
}

// clauseKey names the clause a violation is reported under: the one validateBlock would
// report (first in code order), or the application / evidence clause for the others.
var validateOrder = []string{"basic", "chain", "height", "lastId", "totalTxs", "consHash", "valHash", "lastCommit", "evFull", "fve"}

func clauseKey(flags []string) string {
	has := map[string]bool{}
	for _, f := range flags {
		has[f] = true
	}
	for _, c := range validateOrder {
		if has[c] {
			return c
		}
	}
	for _, c := range []string{"ev", "app"} {
		if has[c] {
			return c
		}
	}
	return "none"
}

type ctx struct{ *core.Ctx }

func (c ctx) pickS(q, t string) string {
	if c.Thorough() {
		return t
	}
	return q
}

func run(cc *core.Ctx) {
	c := ctx{cc}
	if c.Child != "" {
		child(cc)
		return
	}
	o := c.Out()
	o.Level = "model_checking"
	o.Rule = "behaviour = one path of the TLC-exported graph of BlockValidity (guard AsRequired; block class x who receives the Byzantine proposal in time x the synchronous rounds that follow) replayed on a fresh 4-validator cluster of real ConsensusState + real LinkApplication instances with one concrete corruption (or two joint ones) of an honestly built block instantiating the class; every model step is compared on all three correct nodes; non-trivial = the block is not the untouched control; distinct = distinct (corruption(s), height, choices, node permutation, storage mode)"
	o.Assumptions = []string{
		"one Byzantine validator (the round-0 proposer of the target height) out of four of equal power; it holds only its own key and supports its block with its prevote and precommit in every round",
		"inside a phase the driver serves the correct nodes in a fixed order and every vote is exchanged (synchronous rounds); who receives the Byzantine proposal before the propose timeout is free; TLC checks the same invariants for any order (AsRequiredFree, thorough tier)",
		"rounds 0 (Byzantine proposer) and 1 (correct proposer) of heights 1-3; validator set and parameters do not change (the harness-built chain has no candidate contracts)",
		"blocks carry plain transfers; application-level execution of the honest block stays valid",
		"restart of a killed node = LoadStatus + application boot on the same databases + ApplyBlock of the stored block, transcribed from node.NewNode",
		"the libxcrypto stand-in is linked (no confidential transactions are used here)",
	}
	o.Trusted = []string{"TLC", "hook H1 (executes the bodies of receiveRoutine's select cases)", "harness/cluster, harness/appx", "the catalogue's declared clause vectors (cross-checked against the clause the real validateBlock reports, as drift)", "os/signal delivery order (kill-request barrier)"}

	// ---- (1) the design: TLC ---------------------------------------------------------
	type tlcJob struct {
		cfg    string
		expect string // invariant that must be violated ("" = must hold)
		export string // "" | "required" | "coded"
	}
	jobs := []tlcJob{
		{c.pickS("AsRequired.cfg", "AsRequiredBig.cfg"), "", "required"},
		{c.pickS("AsRequiredLive.cfg", "AsRequiredLiveBig.cfg"), "", ""},
		{"AsCoded.cfg", "VotesOnlyFullyValid", ""},
		{"AsCodedWedge.cfg", "NoWedge", ""},
		{"AsCodedGraph.cfg", "", "coded"},
	}
	if c.Thorough() {
		jobs = append(jobs, tlcJob{"AsRequiredFree.cfg", "", ""})
	}
	results := make([]*tlc.Result, len(jobs))
	var wg sync.WaitGroup
	for i, tj := range jobs {
		wg.Add(1)
		go func(i int, tj tlcJob) {
			defer wg.Done()
			results[i] = c.TLC(tlc.Options{SpecDir: c.SpecDir("BlockValidity"), Module: "MC_BlockValidity", Config: tj.cfg, Workers: 1, Timeout: c.MinutesT(5, 15)})
		}(i, tj)
	}
	wg.Wait()
	var lines, codedLines []string
	leads := map[string]string{}
	for i, tj := range jobs {
		res := results[i]
		if res == nil {
			return
		}
		switch {
		case tj.expect == "" && (res.Violated != "" || !res.Finished):
			c.Infra("BlockValidity %s: %s\n%s", tj.cfg, res.Describe(), res.Tail)
			return
		case tj.expect != "" && res.Violated != tj.expect:
			c.Infra("vacuous model: %s was expected to violate %s but TLC reports %s", tj.cfg, tj.expect, res.Describe())
			return
		case tj.expect != "":
			leads[tj.cfg] = res.Violated
		}
		switch tj.export {
		case "required":
			lines = res.Lines
		case "coded":
			codedLines = res.Lines
		}
	}
	c.SetExtra("model_leads_as_coded", leads)
	o.Exhaustive = true
	g, err := mbt.Load(lines)
	if err != nil {
		c.Infra("edge load: %v", err)
		return
	}
	c.SetExtra("model_states", len(g.States))
	c.SetExtra("model_edges", len(g.Edges))
	c.SetExtra("edges_by_action", g.ActionKinds("op"))
	modelClasses := map[string]bool{}
	for _, ei := range g.Out[0] {
		var a modelAct
		json.Unmarshal(g.Edges[ei].Act, &a)
		modelClasses[className(a.Cls)] = true
	}
	c.SetExtra("model_classes", len(modelClasses))

	base, err := ioutil.TempDir("", "vc02")
	if err != nil {
		c.Infra("tempdir: %v", err)
		return
	}
	defer os.RemoveAll(base)
	edgeFile, codedFile := filepath.Join(base, "edges.ndjson"), filepath.Join(base, "coded.ndjson")
	if err := ioutil.WriteFile(edgeFile, []byte(strings.Join(lines, "\n")), 0644); err != nil {
		c.Infra("write edges: %v", err)
		return
	}
	if err := ioutil.WriteFile(codedFile, []byte(strings.Join(codedLines, "\n")), 0644); err != nil {
		c.Infra("write edges: %v", err)
		return
	}

	// ---- (2) the plan ------------------------------------------------------------------
	scs := plan(cc)
	if c.Replay != "" {
		// re-run the behaviour of a recorded violation (fresh validator keys; same corruption, height, choices, storage mode)
		var rf struct {
			Record struct {
				Scenario scenario `json:"scenario"`
			} `json:"record"`
		}
		b, err := ioutil.ReadFile(c.Replay)
		if err != nil || json.Unmarshal(b, &rf) != nil || len(rf.Record.Scenario.Names) == 0 {
			c.Infra("cannot read the behaviour from replay file %s", c.Replay)
			return
		}
		scs = []scenario{rf.Record.Scenario}
	}
	nJobs := c.Pick(8, 10)
	perJob := make([][]scenario, nJobs)
	for i, sc := range scs {
		perJob[i%nJobs] = append(perJob[i%nJobs], sc)
	}
	var mu sync.Mutex
	var outs []outcome
	for ji := range perJob {
		if len(perJob[ji]) == 0 {
			continue
		}
		wg.Add(1)
		go func(ji int) {
			defer wg.Done()
			arg, _ := json.Marshal(job{Edges: edgeFile, Coded: codedFile, Scenarios: perJob[ji], Dir: filepath.Join(base, fmt.Sprintf("j%d", ji))})
			res, at, crash := c.RunChild(string(arg), c.MinutesT(6, 25))
			mu.Lock()
			defer mu.Unlock()
			for _, r := range res {
				var out outcome
				if json.Unmarshal([]byte(r), &out) == nil {
					outs = append(outs, out)
				}
			}
			if crash == "TIMEOUT" {
				c.Infra("replay job %d timed out at %s", ji, at)
			} else if crash != "" {
				// the process died although SIGTERM is caught: an unrecoverable failure below the state machine
				c.Violate("crash", fmt.Sprintf("the process running the correct nodes died during behaviour %s", at),
					map[string]interface{}{"behaviour": at, "crash": crash})
			}
		}(ji)
	}
	wg.Wait()
	judge(cc, g, outs, len(scs))
}

// plan lists the behaviours to replay.
func plan(c *core.Ctx) []scenario {
	rng := rand.New(rand.NewSource(c.Seed))
	var scs []scenario
	allChoices := func() (out [][3]bool) {
		for m := 0; m < 8; m++ {
			out = append(out, [3]bool{m&4 != 0, m&2 != 0, m&1 != 0})
		}
		return
	}()
	rrr := [3]bool{true, true, true}
	heights := []uint64{2, 1}
	if c.Thorough() {
		heights = []uint64{2, 1, 3}
	}
	for _, H := range heights {
		// controls: the untouched block under every choice vector
		for _, ch := range allChoices {
			scs = append(scs, scenario{Names: []string{"none"}, H: H, Choices: ch, Perm: rng.Intn(2), Trie: rng.Intn(2) == 0})
		}
		if H >= 2 {
			scs = append(scs, scenario{Names: []string{genuineEvidence.Name}, H: H, Choices: rrr, Perm: rng.Intn(2), Trie: true})
		}
		// every concrete corruption, everyone receives the block
		seenClass := map[string]bool{}
		for _, e := range catalogue {
			if !e.applies(H) {
				continue
			}
			scs = append(scs, scenario{Names: []string{e.Name}, H: H, Choices: rrr, Perm: rng.Intn(2), Trie: rng.Intn(2) == 0})
			cls := className(e.Flags(H))
			full := c.Thorough() || (H == 2 && !seenClass[cls])
			if e.Probe {
				full = false
			}
			seenClass[cls] = true
			if full {
				// ... and the class under every other choice vector
				for _, ch := range allChoices {
					if ch != rrr {
						scs = append(scs, scenario{Names: []string{e.Name}, H: H, Choices: ch, Perm: rng.Intn(2), Trie: rng.Intn(2) == 0})
					}
				}
			} else if !e.Probe && rng.Intn(2) == 0 {
				ch := allChoices[1+rng.Intn(6)]
				scs = append(scs, scenario{Names: []string{e.Name}, H: H, Choices: ch, Perm: rng.Intn(2), Trie: rng.Intn(2) == 0})
			}
		}
		// joint corruptions of two field classes
		nPairs := c.Pick(20, 200)
		if H != 2 {
			nPairs = c.Pick(5, 80)
		}
		for _, p := range pairsFor(H, rng, nPairs) {
			ch := rrr
			if rng.Intn(3) == 0 {
				ch = allChoices[rng.Intn(8)]
			}
			scs = append(scs, scenario{Names: p, H: H, Choices: ch, Perm: rng.Intn(2), Trie: rng.Intn(2) == 0})
		}
	}
	// the previous block decided in round 1 (FaultValidatorsEvidence names a faulty proposer)
	nR1 := 0
	for _, e := range catalogue {
		if !e.applies(2) || e.Probe {
			continue
		}
		g := group(e.Name)
		if g == "evidence" || g == "lastcommit" || (c.Thorough() || nR1 < 4) {
			scs = append(scs, scenario{Names: []string{e.Name}, H: 2, Choices: rrr, Perm: rng.Intn(2), PrevRound1: true, Trie: rng.Intn(2) == 0})
			nR1++
		}
	}
	scs = append(scs, scenario{Names: []string{"none"}, H: 2, Choices: rrr, PrevRound1: true, Trie: true})
	// blocks of several parts
	big := []string{"none", "chain/other-id", "lastcommit/too-little-power", "statehash/flip"}
	if c.Thorough() {
		for k := 0; k < 12; k++ {
			big = append(big, catalogue[rng.Intn(len(catalogue))].Name)
		}
	}
	for _, n := range big {
		if e := byName(n); e != nil && e.applies(2) && !e.Probe {
			scs = append(scs, scenario{Names: []string{n}, H: 2, Choices: rrr, Perm: rng.Intn(2), Trie: rng.Intn(2) == 0, Txs: 400})
		}
	}
	// negative controls of the binding (must be rejected)
	scs = append(scs, scenario{Names: []string{"none"}, H: 2, Choices: rrr, Trie: true, Tamper: "stored"},
		scenario{Names: []string{"statehash/flip"}, H: 2, Choices: rrr, Trie: true, Tamper: "vote"})
	if only := os.Getenv("VERIF_C02_ONLY"); only != "" {
		// development aid: restrict the plan to behaviours whose description contains one of the substrings
		var keep []scenario
		for _, sc := range scs {
			if sc.Tamper != "" {
				keep = append(keep, sc)
				continue
			}
			for _, sub := range strings.Split(only, ",") {
				if strings.Contains(sc.String(), sub) {
					keep = append(keep, sc)
					break
				}
			}
		}
		return keep
	}
	return scs
}

// judge turns the outcomes into the verdict.
func judge(c *core.Ctx, g *mbt.Graph, outs []outcome, planned int) {
	o := c.Out()
	// single corruptions served to everybody first: they make the clearest records
	rank := func(x outcome) int {
		r := 2 * (len(x.Scenario.Names) - 1)
		if x.Scenario.Choices != [3]bool{true, true, true} {
			r++
		}
		return r
	}
	sort.Slice(outs, func(i, j int) bool {
		if ri, rj := rank(outs[i]), rank(outs[j]); ri != rj {
			return ri < rj
		}
		return outs[i].Desc < outs[j].Desc
	})
	skipped := map[string]int{}
	distinct := map[string]bool{}
	classes := map[string]int{}
	corruptions := map[string]int{}
	shapeLabel := 0
	tamperRejected := 0
	nInfra := 0
	controlsOK := 0
	refused := 0
	multiPart, maxTxs, prevR1 := 0, 0, 0
	covered := map[int]bool{}
	asCodedOK, asCodedSteps, asCodedBad := 0, 0, 0
	for _, out := range outs {
		if out.Infra != "" {
			if nInfra < 5 {
				c.Infra("behaviour %s: %s", out.Desc, out.Infra)
			}
			nInfra++
			continue
		}
		if out.Skipped != "" {
			skipped[strings.Join(out.Scenario.Names, "+")+": "+out.Skipped]++
			continue
		}
		if out.Scenario.Tamper != "" {
			if !out.Conforms && out.Divergence != "" {
				tamperRejected++
			}
			continue
		}
		o.Traces++
		o.Evaluations += out.NSteps * 3
		for _, ei := range out.EdgeIdx {
			covered[ei] = true
		}
		if out.Parts > 1 {
			multiPart++
		}
		if out.HonestTxs > maxTxs {
			maxTxs = out.HonestTxs
		}
		if out.PrevRound > 0 {
			prevR1++
		}
		switch out.AsCoded {
		case "":
		case "conforms":
			asCodedOK++
			asCodedSteps += out.AsCodedN
		default:
			asCodedBad++
			if asCodedBad <= 5 {
				c.Drift("%s leaves the AsRequired model (%s) and does not follow the AsCoded model either: %s", out.Desc, out.Divergence, out.AsCoded)
			}
		}
		classes[out.Class]++
		for _, n := range out.Scenario.Names {
			corruptions[n]++
		}
		if !out.Valid {
			distinct[out.Desc] = true
		}
		if len(o.Samples) < 4 && (len(o.Samples) == 0 || !out.Valid) && out.Scenario.Choices != [3]bool{true, true, true} {
			c.Sample(map[string]interface{}{"behaviour": out.Desc, "class": out.Class, "validateBlock_reports": out.ValidateErr, "model_steps": out.NSteps,
				"real_deliveries": out.Deliveries, "conforms": out.Conforms, "last_step": out.Steps[len(out.Steps)-1]})
		}
		rec := map[string]interface{}{"behaviour": out.Desc, "scenario": out.Scenario, "corruptions": out.Scenario.Names, "class": out.Flags, "height": out.Scenario.H,
			"choices_n1_n2_n3_received": out.Scenario.Choices, "bad_block": out.BadHash, "validateBlock_reports": out.ValidateErr,
			"votes_for_invalid_block": out.VotesForBad, "persisted_at": out.Persisted, "asked_to_be_killed": out.Killed, "failed": out.Failed,
			"restart": out.Restart, "all_applied_a_block": out.AllApplied, "first_divergence_from_model": out.Divergence, "steps": out.Steps}
		probe := false
		for _, n := range out.Scenario.Names {
			if e := byName(n); e != nil && e.Probe {
				probe = true
			}
		}
		key := clauseKey(out.Flags)
		if probe {
			key = strings.Join(out.Scenario.Names, "+")
		}
		// drift: the catalogue's label against the clause the real validateBlock reports
		if !probe && len(out.Scenario.Names) == 1 && out.ModelErr != "" && out.ValidateErr != out.ModelErr && shapeLabel < 8 {
			shapeLabel++
			c.Drift("%s: the model expects validateBlock to report %q, the real one reports %q", out.Desc, out.ModelErr, out.ValidateErr)
		}
		for _, s := range out.Shape {
			c.Drift("%s: %s", out.Desc, s)
		}
		if out.Valid {
			// a fully valid block must never hurt anybody; that it is voted and committed is the control
			switch {
			case len(out.Killed) > 0 || len(out.Failed) > 0:
				c.Violate("wedge/valid-block", fmt.Sprintf("%s: a fully valid block made correct nodes stop (%v %v)", out.Desc, out.Killed, out.Failed), rec)
			case !out.Conforms:
				c.Infra("control %s does not follow the model: %s", out.Desc, out.Divergence)
			case !out.AllApplied:
				c.Infra("control %s: the correct nodes did not finish the height", out.Desc)
			default:
				controlsOK++
			}
			continue
		}
		bad := false
		if len(out.VotesForBad) > 0 {
			bad = true
			c.Violate("votes-invalid/"+key, fmt.Sprintf("%s: correct validators voted for a block that violates %v: %v", out.Desc, out.Flags, out.VotesForBad), rec)
		}
		if len(out.Persisted) > 0 {
			bad = true
			c.Violate("persist-invalid/"+key, fmt.Sprintf("%s: correct nodes %v persisted a block that violates %v", out.Desc, out.Persisted, out.Flags), rec)
		}
		if len(out.Killed) > 0 {
			bad = true
			c.Violate("wedge/"+key, fmt.Sprintf("%s: correct nodes %v committed a block that violates %v, could not apply it and asked to be killed; %v", out.Desc, out.Killed, out.Flags, out.Restart), rec)
		}
		if len(out.Failed) > 0 {
			bad = true
			c.Violate("abort/"+key, fmt.Sprintf("%s: the consensus state machine of correct nodes failed on a Byzantine proposal: %v", out.Desc, out.Failed), rec)
		}
		if !bad && !out.AllApplied {
			bad = true
			c.Violate("stall/"+key, fmt.Sprintf("%s: the correct nodes did not decide the height after refusing the block", out.Desc), rec)
		}
		if !bad && !probe && !out.Conforms {
			c.Drift("%s: pi_prop differs from the model without breaking the property: %s", out.Desc, out.Divergence)
		}
		if !bad {
			refused++
		}
	}
	o.Distinct = len(distinct)
	c.SetExtra("behaviours_planned", planned)
	c.SetExtra("behaviours_by_class", classes)
	c.SetExtra("concrete_corruptions_used", corruptions)
	c.SetExtra("inapplicable", skipped)
	c.SetExtra("controls_voted_and_committed", controlsOK)
	c.SetExtra("invalid_blocks_refused_chain_continued", refused)
	c.SetExtra("negative_controls_rejected", tamperRejected)
	c.SetExtra("model_edges_followed_on_real_nodes", len(covered))
	c.SetExtra("behaviours_with_multi_part_block", multiPart)
	c.SetExtra("max_txs_in_block", maxTxs)
	c.SetExtra("behaviours_after_a_round_1_commit", prevR1)
	c.SetExtra("as_coded_conformance", map[string]int{"behaviours_leaving_AsRequired_that_follow_AsCoded_step_by_step": asCodedOK, "steps_compared": asCodedSteps, "follow_neither": asCodedBad})
	if c.Replay == "" && tamperRejected < 2 {
		c.Infra("vacuous binding: only %d of 2 falsified observations were rejected by the replay", tamperRejected)
	}
	if c.Replay == "" && controlsOK == 0 {
		c.Infra("no control behaviour (untouched block) was voted and committed")
	}
	if nInfra > 0 {
		c.SetExtra("behaviours_with_infrastructure_trouble", nInfra)
	}
	_ = g
}
