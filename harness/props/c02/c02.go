// Package c02: honest validators vote only for fully valid blocks; committed blocks apply.
//
// Model: spec/BlockValidity/BlockValidity.tla - the validity layer of the consensus state
// machine (what defaultDoPrevote / enterPrecommit check before voting, how enterPrecommit /
// enterCommit / finalizeCommit match the block they hold with the block that was voted,
// finalizeCommit split into CommitBlock . ApplyBlock . Kill, restart) for one Byzantine
// validator (< 1/3 of the power) and the correct validators of a validator set chosen by
// the first action; "more than two thirds" is the exact comparison 3p > 2T for vote sets
// and for the previous commit a block carries alike; the guard and the block comparison
// are constants (AsCoded / AsRequired, hash / id). TLC decides VotesOnlyFullyValid,
// PersistOnlyApplicable, NoWedge and ChainContinues exhaustively, and exports every
// transition, for
//   - every block class of up to three violated clauses on four equal validators and
//     previous commits exactly on the two-thirds boundary (floor(2T/3), floor(2T/3)+1) for
//     validator sets in every residue class of the total power mod 3 (AsRequired*.cfg),
//   - two blocks of the Byzantine proposer, built in one round or in rounds 0 and 4 with
//     the correct proposers' rounds in between, the second one unrelated to the first or
//     its twin - the same header with another body (Two*.cfg).
//
// Binding: (a) every exported behaviour class of the one-block instances is replayed on a
// cluster of real consensus.ConsensusState instances on real LinkApplication instances
// (world.go): the abstract block classes are instantiated by a catalogue of concrete
// corruptions of an honestly built block (corrupt.go); the driver takes the steps the real
// nodes are ready for and looks each one up in the graph (scenario.go). (b) The graphs of
// the two-block instances drive the replay themselves: maximal paths - one through every
// "situation" in which the code decides about a Byzantine block, then paths chosen by the
// share of the graph below them - are executed action by action (paths.go). After every
// step the votes, the persisted block, the applied flag, kill requests and failures of all
// correct nodes are compared with the model's state.
package c02

import (
	"bytes"
	"encoding/json"
	"fmt"
	"io"
	"io/ioutil"
	"math/rand"
	"os"
	"path/filepath"
	"sort"
	"strings"
	"sync"
	"verifh/evidx"

	cs "github.com/lianxiangcloud/linkchain/consensus"
	"github.com/lianxiangcloud/linkchain/libs/ser"
	"github.com/lianxiangcloud/linkchain/types"

	"verifh/core"
	"verifh/mbt"
	"verifh/tlc"
)

func init() { core.Register("C02", run) }

func serDecodeReader(ps *types.PartSet, out interface{}, max int64) (int64, error) {
	var r io.Reader = ps.GetReader()
	return ser.DecodeReader(r, out, max)
}

func serEncode(b *types.Block) ([]byte, error) { return ser.EncodeToBytes(b) }

func decodeBlock(bz []byte, st cs.NewStatus) (*types.Block, error) {
	var b *types.Block
	if _, err := ser.DecodeReader(bytes.NewReader(bz), &b, int64(st.ConsensusParams.BlockSize.MaxBytes)); err != nil {
		return nil, err
	}
	return b, nil
}

type job struct {
	Edges     string     `json:"edges"`
	Coded     string     `json:"coded"` // edges of the AsCoded graph (pi_shape conformance of the tree as it is)
	Scenarios []scenario `json:"scenarios"`
	Paths     string     `json:"paths"` // file with the behaviours of the two-block instances of this job ([]pathSpec)
	Dir       string     `json:"dir"`
}

// child replays the scenarios of one job in this process (cmn.Kill() of a node under
// test sends SIGTERM to the process: it is caught and counted, see killWatch).
func child(c *core.Ctx) {
	var j job
	if err := json.Unmarshal([]byte(c.Child), &j); err != nil {
		fmt.Fprintln(os.Stderr, "bad job:", err)
		os.Exit(3)
	}
	kw := newKillWatch()
	defer kw.stop()
	load := func(file string) *graphIndex {
		if file == "" {
			return nil
		}
		b, err := ioutil.ReadFile(file)
		if err != nil {
			fmt.Fprintln(os.Stderr, err)
			os.Exit(3)
		}
		g, err := mbt.Load(strings.Split(strings.TrimSpace(string(b)), "\n"))
		if err != nil {
			fmt.Fprintln(os.Stderr, err)
			os.Exit(3)
		}
		return newGraphIndex(g)
	}
	if j.Paths != "" {
		var specs []pathSpec
		b, err := ioutil.ReadFile(j.Paths)
		if err != nil || json.Unmarshal(b, &specs) != nil {
			fmt.Fprintln(os.Stderr, "bad path file:", err)
			os.Exit(3)
		}
		for k, ps := range specs {
			fmt.Printf("AT %s\n", ps.String())
			out := playPath(ps, kw, filepath.Join(j.Dir, fmt.Sprintf("w%d", k)))
			b, _ := json.Marshal(out)
			fmt.Printf("RESULT %s\n", b)
		}
		fmt.Println("DONE")
		return
	}
	gi, coded := load(j.Edges), load(j.Coded)
	for k, sc := range j.Scenarios {
		fmt.Printf("AT %s\n", sc.String())
		out := play(sc, gi, coded, kw, filepath.Join(j.Dir, fmt.Sprintf("w%d", k)))
		b, _ := json.Marshal(out)
		fmt.Printf("RESULT %s\n", b)
	}
	fmt.Println("DONE")
}

func newGraphIndex(g *mbt.Graph) *graphIndex {
	gi := &graphIndex{g: g, setups: map[string]int{}, firsts: map[string]map[string]bool{}}
	for _, ei := range g.Out[0] {
		a := gi.act(ei)
		if a == nil || a.Op != "genesis" {
			continue
		}
		st := g.Edges[ei].To
		gi.setups[a.Setup] = st
		gi.firsts[a.Setup] = map[string]bool{}
		for _, ej := range g.Out[st] {
			if b := gi.act(ej); b != nil && b.Op == "byzPropose" {
				gi.firsts[a.Setup][firstKey(className(b.Cls), b.Lcp)] = true
			}
		}
	}
	return gi
}

// clauseKey names the clause a violation is reported under: the one validateBlock would
// report (first in code order), or the application / evidence clause for the others.
var validateOrder = []string{"basic", "chain", "height", "lastId", "totalTxs", "consHash", "valHash", "lastCommit", "evFull", "fve"}

func clauseKey(flags []string) string {
	has := map[string]bool{}
	for _, f := range flags {
		has[f] = true
	}
	for _, c := range validateOrder {
		if has[c] {
			return c
		}
	}
	for _, c := range []string{"ev", "app"} {
		if has[c] {
			return c
		}
	}
	return "none"
}

type ctx struct{ *core.Ctx }

func (c ctx) pickS(q, t string) string {
	if c.Thorough() {
		return t
	}
	return q
}

func run(cc *core.Ctx) {
	c := ctx{cc}
	if c.Child != "" {
		child(cc)
		return
	}
	o := c.Out()
	// the last step of ApplyBlock on every node: the evidence pool takes the committed block's evidence
	// (spec/Evidence, bound by harness/evidx) - a valid block must never kill the node that applies it
	defer evidx.Run(cc)
	o.Level = "model_checking"
	o.Rule = "behaviour = one path of a TLC-exported graph of BlockValidity (guard AsRequired, blocks compared by BlockID) replayed on a fresh cluster of real ConsensusState + real LinkApplication instances; one-block instances: validator set x block class x commit power x who receives the Byzantine proposal in time x the synchronous rounds that follow, the class instantiated by one concrete corruption (or two joint ones) of an honestly built block; two-block instances: a maximal path of the graph (who is shown which of the two blocks in which round, the Byzantine votes, lost proposals of correct proposers), the classes and the twin body instantiated from the catalogue; every model step is compared on all correct nodes; non-trivial = some Byzantine block is not fully valid; distinct = distinct (corruption(s), height, choices, validator set, node permutation, storage mode) resp. distinct (path, constructions)"
	o.Assumptions = []string{
		"one Byzantine validator (the round-0 proposer of the target height) holding less than a third of the power: one of four equal validators, of five to eight equal validators, or of four / five validators of unequal power; it holds only its own key; one-block instances: it supports its block with its prevote and precommit in every round; two-block instances: in the rounds it proposes it prevotes nil or one of its blocks and precommits nil or what it prevoted (the same vote to everybody), in the other rounds it votes nil",
		"inside a phase the driver serves the correct nodes in a fixed order (the round's proposer first) and every vote is exchanged (synchronous rounds); who receives which Byzantine proposal before the propose timeout is free (more than three correct validators: a prefix of them); a proposal of a correct proposer reaches everybody or nobody; TLC checks the same invariants for any order (AsRequiredFree, thorough tier)",
		"one-block instances: rounds 0 (Byzantine proposer) and 1 (correct proposer) of heights 1-3 (validator sets other than four equal ones: the first height >= 2 whose round-0 proposer holds less than a third); two-block instances: rounds 0-4 of height 2 on four equal validators (the Byzantine validator proposes rounds 0 and 4); validator set and parameters do not change (the harness-built chain has no candidate contracts)",
		"the previous commit's power is placed on the boundary with the powers as they are (no scaling): the largest power a set of precommits can carry that is not more than two thirds of T and the smallest that is (floor(2T/3) and floor(2T/3)+1 where the powers allow it)",
		"blocks carry plain transfers; application-level execution of the honest block stays valid",
		"restart of a killed node = LoadStatus + application boot on the same databases + ApplyBlock of the stored block, transcribed from node.NewNode",
		"the libxcrypto stand-in is linked (no confidential transactions are used here)",
	}
	o.Trusted = []string{"TLC", "hook H1 (executes the bodies of receiveRoutine's select cases)", "harness/cluster, harness/appx", "the catalogue's declared clause vectors (cross-checked against the clause the real validateBlock reports, as drift)", "os/signal delivery order (kill-request barrier)"}

	// ---- (1) the design: TLC ---------------------------------------------------------
	type tlcJob struct {
		cfg      string
		expect   string // invariant that must be violated ("" = must hold)
		export   string // "" | "required" | "coded" | "two"
		maxRound int
		res      *tlc.Result
		done     chan struct{}
	}
	jobs := []*tlcJob{
		{cfg: c.pickS("AsRequired.cfg", "AsRequiredBig.cfg"), export: "required"},
		{cfg: c.pickS("AsCodedGraph.cfg", "AsCodedGraphBig.cfg"), export: "coded"},
		{cfg: c.pickS("AsRequiredLive.cfg", "AsRequiredLiveBig.cfg")},
		{cfg: "AsCoded.cfg", expect: "VotesOnlyFullyValid"},
		{cfg: "AsCodedWedge.cfg", expect: "NoWedge"},
		{cfg: "TwoHash.cfg", expect: "NoWedge"},
	}
	if c.Thorough() {
		jobs = append(jobs, &tlcJob{cfg: "Two.cfg", export: "two", maxRound: 4}, &tlcJob{cfg: "AsRequiredFree.cfg"}, &tlcJob{cfg: "TwoBig.cfg"})
	} else {
		jobs = append(jobs, &tlcJob{cfg: "TwoSame.cfg", export: "two", maxRound: 1}, &tlcJob{cfg: "TwoLater.cfg", export: "two", maxRound: 4})
	}
	for _, tj := range jobs {
		tj.done = make(chan struct{})
		go func(tj *tlcJob) {
			defer close(tj.done)
			tj.res = c.TLC(tlc.Options{SpecDir: c.SpecDir("BlockValidity"), Module: "MC_BlockValidity", Config: tj.cfg, Workers: 1, Timeout: c.MinutesT(5, 25)})
		}(tj)
	}
	leads := map[string]string{}
	// accept waits for a TLC job and checks its verdict against what the design expects
	accept := func(tj *tlcJob) bool {
		<-tj.done
		res := tj.res
		switch {
		case res == nil:
			return false
		case tj.expect == "" && (res.Violated != "" || !res.Finished):
			c.Infra("BlockValidity %s: %s\n%s", tj.cfg, res.Describe(), res.Tail)
			return false
		case tj.expect != "" && res.Violated != tj.expect:
			c.Infra("vacuous model: %s was expected to violate %s but TLC reports %s", tj.cfg, tj.expect, res.Describe())
			return false
		case tj.expect != "":
			leads[tj.cfg] = res.Violated
		}
		return true
	}
	defer func() {
		for _, tj := range jobs {
			<-tj.done
		}
	}()
	if !accept(jobs[0]) || !accept(jobs[1]) {
		return
	}
	lines, codedLines := jobs[0].res.Lines, jobs[1].res.Lines
	o.Exhaustive = true
	g, err := mbt.Load(lines)
	if err != nil {
		c.Infra("edge load: %v", err)
		return
	}
	c.SetExtra("model_states", len(g.States))
	c.SetExtra("model_edges", len(g.Edges))
	c.SetExtra("edges_by_action", g.ActionKinds("op"))
	gi0 := newGraphIndex(g)
	modelClasses, nFirsts := map[string]bool{}, 0
	var setupIDs []string
	for id, firsts := range gi0.firsts {
		setupIDs = append(setupIDs, id)
		for k := range firsts {
			modelClasses[k[:strings.Index(k, "@")]] = true
			nFirsts++
		}
	}
	sort.Strings(setupIDs)
	c.SetExtra("model_classes", len(modelClasses))
	c.SetExtra("model_validator_sets", setupIDs)
	c.SetExtra("model_first_blocks", nFirsts)

	base, err := ioutil.TempDir("", "vc02")
	if err != nil {
		c.Infra("tempdir: %v", err)
		return
	}
	defer os.RemoveAll(base)
	edgeFile, codedFile := filepath.Join(base, "edges.ndjson"), filepath.Join(base, "coded.ndjson")
	if err := ioutil.WriteFile(edgeFile, []byte(strings.Join(lines, "\n")), 0644); err != nil {
		c.Infra("write edges: %v", err)
		return
	}
	if err := ioutil.WriteFile(codedFile, []byte(strings.Join(codedLines, "\n")), 0644); err != nil {
		c.Infra("write edges: %v", err)
		return
	}

	// ---- (2) the plan ------------------------------------------------------------------
	scs := plan(cc)
	var replayPath *pathSpec
	if c.Replay != "" {
		// re-run the behaviour of a recorded violation (fresh validator keys; same corruption, height, choices, storage mode)
		var rf struct {
			Record struct {
				Scenario scenario  `json:"scenario"`
				PathSpec *pathSpec `json:"path_spec"`
			} `json:"record"`
		}
		b, err := ioutil.ReadFile(c.Replay)
		if err != nil || json.Unmarshal(b, &rf) != nil || (len(rf.Record.Scenario.Names) == 0 && rf.Record.PathSpec == nil) {
			c.Infra("cannot read the behaviour from replay file %s", c.Replay)
			return
		}
		scs = []scenario{rf.Record.Scenario}
		if rf.Record.PathSpec != nil {
			scs, replayPath = nil, rf.Record.PathSpec
		}
	}
	var wg sync.WaitGroup
	var mu sync.Mutex
	var outs []outcome
	// at most this many replay processes at a time; a process replays a bounded number of
	// behaviours (the clusters' event buses and timers are not torn down one by one)
	slots := make(chan struct{}, c.Pick(16, 12))
	launch := func(name string, j job) {
		wg.Add(1)
		go func() {
			defer wg.Done()
			slots <- struct{}{}
			defer func() { <-slots }()
			arg, _ := json.Marshal(j)
			res, at, crash := c.RunChild(string(arg), c.MinutesT(6, 25))
			mu.Lock()
			defer mu.Unlock()
			for _, r := range res {
				var out outcome
				if json.Unmarshal([]byte(r), &out) == nil {
					outs = append(outs, out)
				}
			}
			if crash == "TIMEOUT" {
				c.Infra("replay job %s timed out at %s", name, at)
			} else if strings.Contains(crash, "signal: killed") {
				// SIGKILL does not come from the code under test (cmn.Kill sends SIGTERM, a fatal runtime error exits): the system did it
				c.Infra("replay job %s was killed by the system at %s", name, at)
			} else if crash != "" {
				// the process died although SIGTERM is caught: an unrecoverable failure below the state machine
				c.Violate("crash", fmt.Sprintf("the process running the correct nodes died during behaviour %s", at),
					map[string]interface{}{"behaviour": at, "crash": crash})
			}
		}()
	}
	nJobs := c.Pick(8, 10)
	perJob := make([][]scenario, nJobs)
	for i, sc := range scs {
		perJob[i%nJobs] = append(perJob[i%nJobs], sc)
	}
	for ji := range perJob {
		if len(perJob[ji]) > 0 {
			launch(fmt.Sprint(ji), job{Edges: edgeFile, Coded: codedFile, Scenarios: perJob[ji], Dir: filepath.Join(base, fmt.Sprintf("j%d", ji))})
		}
	}

	// ---- (3) two blocks of one Byzantine proposer: the graph drives the replay -----------------------
	var specs []pathSpec
	twoStats := map[string]interface{}{}
	pathsByInst := map[string]map[int]pathSpec{}
	for _, tj := range jobs {
		if tj.export != "two" {
			continue
		}
		if !accept(tj) {
			wg.Wait()
			return
		}
		if replayPath != nil {
			continue
		}
		inst := strings.TrimSuffix(tj.cfg, ".cfg")
		g2, err := mbt.Load(tj.res.Lines)
		if err != nil {
			c.Infra("edge load (%s): %v", tj.cfg, err)
			wg.Wait()
			return
		}
		tj.res.Lines = nil
		rng := rand.New(rand.NewSource(c.Seed*7919 + int64(len(inst))))
		budget := map[string]int{"TwoSame": 80, "TwoLater": 125, "Two": 7000}[inst]
		// every situation at the three places where the code decides about a Byzantine block, then
		// maximal behaviours chosen by the share of the graph below them, up to the budget
		walks, sits := targetedWalks(g2, c.Pick(1, 3), rng)
		if len(walks) > budget && !c.Thorough() {
			rng.Shuffle(len(walks), func(i, j int) { walks[i], walks[j] = walks[j], walks[i] })
			walks = walks[:budget]
		}
		nTargeted := len(walks)
		if budget > len(walks) {
			more, _ := walksOf(g2, budget-len(walks), rng)
			walks = append(walks, more...)
		}
		inWalks := map[int]bool{}
		for _, wk := range walks {
			for _, ei := range wk {
				inWalks[ei] = true
			}
		}
		twoStats[inst] = map[string]interface{}{"states": len(g2.States), "edges": len(g2.Edges), "situations": len(sits), "behaviours_through_situations": nTargeted,
			"behaviours": len(walks), "edges_in_behaviours": len(inWalks)}
		if os.Getenv("VERIF_C02_DEBUG") != "" {
			for _, k := range sits {
				fmt.Fprintln(os.Stderr, "SITUATION", inst, k)
			}
		}
		pathsByInst[inst] = map[int]pathSpec{}
		for k, wk := range walks {
			ps := pathSpec{Inst: inst, ID: k, MaxRound: tj.maxRound, Seed: rng.Int63(), Trie: rng.Intn(2) == 0}
			for _, ei := range wk {
				ps.Steps = append(ps.Steps, pathStep{Act: g2.Edges[ei].Act, To: g2.Edges[ei].ToSt, Ei: ei})
			}
			specs = append(specs, ps)
			pathsByInst[inst][k] = ps
		}
		// negative control of this binding: one falsified observation of the longest behaviour
		best := -1
		for k, wk := range walks {
			if best < 0 || len(wk) > len(walks[best]) {
				best = k
			}
		}
		if best >= 0 {
			t := pathsByInst[inst][best]
			t.Tamper, t.ID = "vote", -1
			specs = append(specs, t)
		}
	}
	if replayPath != nil {
		specs = []pathSpec{*replayPath}
		pathsByInst[replayPath.Inst] = map[int]pathSpec{replayPath.ID: *replayPath}
	}
	c.SetExtra("two_block_instances", twoStats)
	nPathJobs := c.Pick(8, 10)
	if per := 250; len(specs) > nPathJobs*per {
		nPathJobs = (len(specs) + per - 1) / per
	}
	perPathJob := make([][]pathSpec, nPathJobs)
	for i, ps := range specs {
		perPathJob[i%nPathJobs] = append(perPathJob[i%nPathJobs], ps)
	}
	for ji := range perPathJob {
		if len(perPathJob[ji]) == 0 {
			continue
		}
		file := filepath.Join(base, fmt.Sprintf("paths%d.json", ji))
		b, _ := json.Marshal(perPathJob[ji])
		if err := ioutil.WriteFile(file, b, 0644); err != nil {
			c.Infra("write paths: %v", err)
			break
		}
		launch(fmt.Sprintf("p%d", ji), job{Paths: file, Dir: filepath.Join(base, fmt.Sprintf("p%d", ji))})
	}
	wg.Wait()
	for _, tj := range jobs {
		if !accept(tj) {
			return
		}
	}
	c.SetExtra("model_leads_as_coded", leads)
	judge(cc, g, outs, len(scs), len(specs), pathsByInst)
}

// plan lists the behaviours to replay.
func plan(c *core.Ctx) []scenario {
	rng := rand.New(rand.NewSource(c.Seed))
	var scs []scenario
	allChoices := func() (out [][3]bool) {
		for m := 0; m < 8; m++ {
			out = append(out, [3]bool{m&4 != 0, m&2 != 0, m&1 != 0})
		}
		return
	}()
	rrr := [3]bool{true, true, true}
	heights := []uint64{2, 1}
	if c.Thorough() {
		heights = []uint64{2, 1, 3}
	}
	for _, H := range heights {
		// controls: the untouched block under every choice vector
		for _, ch := range allChoices {
			scs = append(scs, scenario{Names: []string{"none"}, H: H, Choices: ch, Perm: rng.Intn(2), Trie: rng.Intn(2) == 0})
		}
		if H >= 2 {
			scs = append(scs, scenario{Names: []string{genuineEvidence.Name}, H: H, Choices: rrr, Perm: rng.Intn(2), Trie: true})
		}
		// every concrete corruption, everyone receives the block
		seenClass := map[string]bool{}
		for _, e := range catalogue {
			if !e.applies(H) {
				continue
			}
			scs = append(scs, scenario{Names: []string{e.Name}, H: H, Choices: rrr, Perm: rng.Intn(2), Trie: rng.Intn(2) == 0})
			cls := className(e.Flags(H))
			if e.Lcp != nil {
				cls = e.Name // the validity of a commit placed on the boundary is derived: each placement is a class of its own
			}
			full := c.Thorough() || (H == 2 && !seenClass[cls])
			if e.Probe {
				full = false
			}
			seenClass[cls] = true
			if full {
				// ... and the class under every other choice vector
				for _, ch := range allChoices {
					if ch != rrr {
						scs = append(scs, scenario{Names: []string{e.Name}, H: H, Choices: ch, Perm: rng.Intn(2), Trie: rng.Intn(2) == 0})
					}
				}
			} else if !e.Probe && rng.Intn(2) == 0 {
				ch := allChoices[1+rng.Intn(6)]
				scs = append(scs, scenario{Names: []string{e.Name}, H: H, Choices: ch, Perm: rng.Intn(2), Trie: rng.Intn(2) == 0})
			}
		}
		// joint corruptions of two field classes
		nPairs := c.Pick(20, 200)
		if H != 2 {
			nPairs = c.Pick(5, 80)
		}
		for _, p := range pairsFor(H, rng, nPairs) {
			ch := rrr
			if rng.Intn(3) == 0 {
				ch = allChoices[rng.Intn(8)]
			}
			scs = append(scs, scenario{Names: p, H: H, Choices: ch, Perm: rng.Intn(2), Trie: rng.Intn(2) == 0})
		}
	}
	// validator sets in every residue class of the total power mod 3 (five and six equal
	// validators, four of unequal power; thorough: up to eight, more vectors): the previous
	// commit trimmed to the powers next to two thirds (floor(2T/3) and floor(2T/3)+1 where the powers allow it), alone and with a
	// second clause violated, served to everybody / all but one / one / nobody
	vectors := [][]int64{{1, 1, 1, 1, 1}, {1, 1, 1, 1, 1, 1}, {1, 1, 1, 2}, {1, 1, 2, 2}, {1, 2, 2, 2}}
	if c.Thorough() {
		vectors = append(vectors, []int64{1, 1, 1, 1, 1, 1, 1}, []int64{1, 1, 1, 1, 1, 1, 1, 1}, []int64{2, 2, 2, 2}, []int64{1, 1, 3, 3},
			[]int64{2, 3, 3, 3}, []int64{1, 1, 2, 2, 2})
	}
	for _, pv := range vectors {
		nc := len(pv) - 1
		type serve struct {
			ch     [3]bool
			served int
		}
		serves := []serve{{rrr, nc}}
		if nc > 3 {
			serves = append(serves, serve{served: nc - 1}, serve{served: 1})
			if c.Thorough() {
				serves = append(serves, serve{served: 0}, serve{served: 2})
			}
		} else {
			serves = append(serves, serve{ch: [3]bool{true, true, false}}, serve{ch: [3]bool{false, true, true}})
			if c.Thorough() {
				for _, ch := range allChoices {
					if ch != rrr && ch != serves[1].ch && ch != serves[2].ch {
						serves = append(serves, serve{ch: ch})
					}
				}
			}
		}
		var sets [][]string
		sets = append(sets, []string{"none"}, []string{"chain/other-id"})
		for _, e := range catalogue {
			if e.Lcp != nil {
				sets = append(sets, []string{e.Name})
				if c.Thorough() || strings.HasSuffix(e.Name, "keep-own") {
					sets = append(sets, []string{"chain/other-id", e.Name})
				}
			}
		}
		for _, names := range sets {
			for k, sv := range serves {
				if k > 0 && !c.Thorough() && len(names) > 1 {
					continue
				}
				scs = append(scs, scenario{Names: names, H: 2, Choices: sv.ch, Served: sv.served, Trie: rng.Intn(2) == 0, Powers: pv})
			}
		}
	}
	// the previous block decided in round 1 (FaultValidatorsEvidence names a faulty proposer)
	nR1 := 0
	for _, e := range catalogue {
		if !e.applies(2) || e.Probe {
			continue
		}
		g := group(e.Name)
		if g == "evidence" || g == "lastcommit" || (c.Thorough() || nR1 < 4) {
			scs = append(scs, scenario{Names: []string{e.Name}, H: 2, Choices: rrr, Perm: rng.Intn(2), PrevRound1: true, Trie: rng.Intn(2) == 0})
			nR1++
		}
	}
	scs = append(scs, scenario{Names: []string{"none"}, H: 2, Choices: rrr, PrevRound1: true, Trie: true})
	// blocks of several parts
	big := []string{"none", "chain/other-id", "lastcommit/too-little-power", "statehash/flip"}
	if c.Thorough() {
		for k := 0; k < 12; k++ {
			big = append(big, catalogue[rng.Intn(len(catalogue))].Name)
		}
	}
	for _, n := range big {
		if e := byName(n); e != nil && e.applies(2) && !e.Probe {
			scs = append(scs, scenario{Names: []string{n}, H: 2, Choices: rrr, Perm: rng.Intn(2), Trie: rng.Intn(2) == 0, Txs: 400})
		}
	}
	// negative controls of the binding (must be rejected)
	scs = append(scs, scenario{Names: []string{"none"}, H: 2, Choices: rrr, Trie: true, Tamper: "stored"},
		scenario{Names: []string{"statehash/flip"}, H: 2, Choices: rrr, Trie: true, Tamper: "vote"})
	if only := os.Getenv("VERIF_C02_ONLY"); only != "" {
		// development aid: restrict the plan to behaviours whose description contains one of the substrings
		var keep []scenario
		for _, sc := range scs {
			if sc.Tamper != "" {
				keep = append(keep, sc)
				continue
			}
			for _, sub := range strings.Split(only, ",") {
				if strings.Contains(sc.String(), sub) {
					keep = append(keep, sc)
					break
				}
			}
		}
		return keep
	}
	return scs
}

// counting counts the behaviours behind every violation key (the framework keeps one record per key).
type counting struct {
	*core.Ctx
	perKey map[string]int
}

func (c *counting) Violate(key, desc string, record interface{}) {
	c.perKey[key]++
	c.Ctx.Violate(key, desc, record)
}

func nObs(out outcome) int {
	if len(out.Steps) == 0 {
		return 0
	}
	return len(out.Steps[0].Obs)
}

// judge turns the outcomes into the verdict.
func judge(cc *core.Ctx, g *mbt.Graph, outs []outcome, planned, plannedPaths int, pathsByInst map[string]map[int]pathSpec) {
	c := &counting{Ctx: cc, perKey: map[string]int{}}
	defer func() {
		if len(c.perKey) > 0 {
			cc.SetExtra("behaviours_per_violation_key", c.perKey)
		}
		if os.Getenv("VERIF_C02_DEBUG") != "" {
			b, _ := json.MarshalIndent(cc.Out().Extra, "", " ")
			fmt.Fprintln(os.Stderr, string(b))
			for _, d := range cc.Out().Drift {
				fmt.Fprintln(os.Stderr, "DRIFT:", d)
			}
		}
	}()
	o := c.Out()
	// single corruptions served to everybody first: they make the clearest records
	rank := func(x outcome) int {
		r := 2 * (len(x.Scenario.Names) - 1)
		if x.Scenario.Choices != [3]bool{true, true, true} {
			r++
		}
		return r
	}
	sort.Slice(outs, func(i, j int) bool {
		if ri, rj := rank(outs[i]), rank(outs[j]); ri != rj {
			return ri < rj
		}
		return outs[i].Desc < outs[j].Desc
	})
	skipped := map[string]int{}
	distinct := map[string]bool{}
	classes := map[string]int{}
	corruptions := map[string]int{}
	shapeLabel := 0
	tamperRejected := 0
	nInfra := 0
	controlsOK := 0
	refused := 0
	multiPart, maxTxs, prevR1 := 0, 0, 0
	covered := map[int]bool{}
	asCodedOK, asCodedSteps, asCodedBad := 0, 0, 0
	pathTamperPlanned, pathTamperRejected, pathControls, pathRefused, shapePaths := 0, 0, 0, 0, 0
	pathsRun, pathClasses, pathHows := map[string]int{}, map[string]int{}, map[string]int{}
	pathEdges := map[string]map[int]bool{}
	var pathSamples []interface{}
	var pathMillis [3]int
	for _, out := range outs {
		if out.Infra != "" {
			if nInfra < 5 {
				c.Infra("behaviour %s: %s", out.Desc, out.Infra)
			}
			nInfra++
			continue
		}
		if out.Skipped != "" {
			skipped[strings.Join(out.Scenario.Names, "+")+": "+out.Skipped]++
			continue
		}
		if out.Path != nil {
			// ---- behaviours of the two-block instances -----------------------------------------
			if out.Scenario.Tamper != "" {
				pathTamperPlanned++
				if !out.Conforms && out.Divergence != "" {
					pathTamperRejected++
				}
				continue
			}
			o.Traces++
			o.Evaluations += out.NSteps * nObs(out)
			pathsRun[out.Path.Inst]++
			if pathEdges[out.Path.Inst] == nil {
				pathEdges[out.Path.Inst] = map[int]bool{}
			}
			for _, ei := range out.EdgeIdx {
				pathEdges[out.Path.Inst][ei] = true
			}
			pathClasses[out.Class]++
			for k := range pathMillis {
				pathMillis[k] += out.Path.Millis[k]
			}
			pathHows[out.Path.HowB+" | "+out.Path.HowB2]++
			if !out.Valid {
				distinct[out.Path.Inst+"/"+strings.Join(out.Path.Labels, " ")+"/"+out.Path.HowB+"/"+out.Path.HowB2] = true
			}
			for _, s := range out.Shape {
				if shapePaths < 8 {
					shapePaths++
					c.Drift("%s: %s", out.Desc, s)
				}
			}
			spec := pathsByInst[out.Path.Inst][out.Path.ID]
			spec.HowB, spec.HowB2 = out.Path.HowB, out.Path.HowB2
			rec := map[string]interface{}{"behaviour": out.Desc, "model_actions": out.Path.Labels, "instance": out.Path.Inst,
				"B":                           map[string]interface{}{"construction": out.Path.HowB, "violates": out.Path.FlagsB},
				"B2":                          map[string]interface{}{"relation": out.Path.Rel, "construction": out.Path.HowB2, "violates": out.Path.FlagsB2},
				"validateBlock_reports_for_B": out.ValidateErr, "votes_for_invalid_block": out.VotesForBad, "persisted_at": out.Persisted,
				"asked_to_be_killed": out.Killed, "failed": out.Failed, "restart": out.Restart, "first_divergence_from_model": out.Divergence,
				"steps": out.Steps, "path_spec": spec}
			if len(pathSamples) < 2 && out.Path.Rel != "" && out.Conforms && len(out.Path.Labels) > 30 {
				pathSamples = append(pathSamples, map[string]interface{}{"behaviour": out.Desc, "model_actions": out.Path.Labels, "B": out.Path.HowB, "B2": out.Path.HowB2, "conforms": out.Conforms})
			}
			if out.Valid {
				switch {
				case len(out.Killed) > 0 || len(out.Failed) > 0:
					c.Violate("wedge/valid-block", fmt.Sprintf("%s: fully valid blocks made correct nodes stop (%v %v)", out.Desc, out.Killed, out.Failed), rec)
				case !out.Conforms:
					c.Drift("%s (every block fully valid): pi_prop differs from the model without breaking the property: %s", out.Desc, out.Divergence)
				default:
					pathControls++
				}
				continue
			}
			bad := false
			what := fmt.Sprintf("B = %s violating %v", out.Path.HowB, out.Path.FlagsB)
			if out.Path.Rel != "" {
				what += fmt.Sprintf(", B2 = %s of B: %s violating %v", out.Path.Rel, out.Path.HowB2, out.Path.FlagsB2)
			}
			if len(out.VotesForBad) > 0 {
				bad = true
				c.Violate("votes-invalid/"+out.Key, fmt.Sprintf("%s (%s): correct validators voted for a block that is not fully valid: %v; first divergence from the model: %s", out.Desc, what, out.VotesForBad, out.Divergence), rec)
			}
			if len(out.Persisted) > 0 {
				bad = true
				c.Violate("persist-invalid/"+out.Key, fmt.Sprintf("%s (%s): correct nodes %v persisted a block that is not fully valid", out.Desc, what, out.Persisted), rec)
			}
			if len(out.Killed) > 0 {
				bad = true
				c.Violate("wedge/"+out.Key, fmt.Sprintf("%s (%s): correct nodes %v committed a block they could not apply and asked to be killed; %v", out.Desc, what, out.Killed, out.Restart), rec)
			}
			if len(out.Failed) > 0 {
				bad = true
				c.Violate("abort/"+out.Key, fmt.Sprintf("%s (%s): the consensus state machine of correct nodes failed: %v; first divergence from the model: %s", out.Desc, what, out.Failed, out.Divergence), rec)
			}
			if !bad && !out.Conforms {
				c.Drift("%s (%s): pi_prop differs from the model without breaking the property: %s", out.Desc, what, out.Divergence)
			}
			if !bad {
				pathRefused++
			}
			continue
		}
		if out.Scenario.Tamper != "" {
			if !out.Conforms && out.Divergence != "" {
				tamperRejected++
			}
			continue
		}
		o.Traces++
		o.Evaluations += out.NSteps * nObs(out)
		for _, ei := range out.EdgeIdx {
			covered[ei] = true
		}
		if out.Parts > 1 {
			multiPart++
		}
		if out.HonestTxs > maxTxs {
			maxTxs = out.HonestTxs
		}
		if out.PrevRound > 0 {
			prevR1++
		}
		switch out.AsCoded {
		case "":
		case "conforms":
			asCodedOK++
			asCodedSteps += out.AsCodedN
		default:
			asCodedBad++
			if asCodedBad <= 5 {
				c.Drift("%s leaves the AsRequired model (%s) and does not follow the AsCoded model either: %s", out.Desc, out.Divergence, out.AsCoded)
			}
		}
		classes[out.Class]++
		for _, n := range out.Scenario.Names {
			corruptions[n]++
		}
		if !out.Valid {
			distinct[out.Desc] = true
		}
		if len(o.Samples) < 4 && (len(o.Samples) == 0 || !out.Valid) && out.Scenario.Choices != [3]bool{true, true, true} {
			c.Sample(map[string]interface{}{"behaviour": out.Desc, "class": out.Class, "validateBlock_reports": out.ValidateErr, "model_steps": out.NSteps,
				"real_deliveries": out.Deliveries, "conforms": out.Conforms, "last_step": out.Steps[len(out.Steps)-1]})
		}
		rec := map[string]interface{}{"behaviour": out.Desc, "scenario": out.Scenario, "corruptions": out.Scenario.Names, "class": out.Flags, "height": out.Scenario.H,
			"choices_n1_n2_n3_received": out.Scenario.Choices, "bad_block": out.BadHash, "validateBlock_reports": out.ValidateErr,
			"votes_for_invalid_block": out.VotesForBad, "persisted_at": out.Persisted, "asked_to_be_killed": out.Killed, "failed": out.Failed,
			"restart": out.Restart, "all_applied_a_block": out.AllApplied, "first_divergence_from_model": out.Divergence, "steps": out.Steps}
		probe := false
		for _, n := range out.Scenario.Names {
			if e := byName(n); e != nil && e.Probe {
				probe = true
			}
		}
		key := clauseKey(out.Flags)
		if probe {
			key = strings.Join(out.Scenario.Names, "+")
		}
		// drift: the catalogue's label against the clause the real validateBlock reports
		if !probe && len(out.Scenario.Names) == 1 && out.ModelErr != "" && out.ValidateErr != out.ModelErr && shapeLabel < 8 {
			shapeLabel++
			c.Drift("%s: the model expects validateBlock to report %q, the real one reports %q", out.Desc, out.ModelErr, out.ValidateErr)
		}
		for _, s := range out.Shape {
			c.Drift("%s: %s", out.Desc, s)
		}
		if out.Valid {
			// a fully valid block must never hurt anybody; that it is voted and committed is the control
			switch {
			case len(out.Killed) > 0 || len(out.Failed) > 0:
				c.Violate("wedge/valid-block", fmt.Sprintf("%s: a fully valid block made correct nodes stop (%v %v)", out.Desc, out.Killed, out.Failed), rec)
			case !out.Conforms:
				c.Infra("control %s does not follow the model: %s", out.Desc, out.Divergence)
			case !out.AllApplied:
				c.Infra("control %s: the correct nodes did not finish the height", out.Desc)
			default:
				controlsOK++
			}
			continue
		}
		bad := false
		if len(out.VotesForBad) > 0 {
			bad = true
			c.Violate("votes-invalid/"+key, fmt.Sprintf("%s: correct validators voted for a block that violates %v: %v", out.Desc, out.Flags, out.VotesForBad), rec)
		}
		if len(out.Persisted) > 0 {
			bad = true
			c.Violate("persist-invalid/"+key, fmt.Sprintf("%s: correct nodes %v persisted a block that violates %v", out.Desc, out.Persisted, out.Flags), rec)
		}
		if len(out.Killed) > 0 {
			bad = true
			c.Violate("wedge/"+key, fmt.Sprintf("%s: correct nodes %v committed a block that violates %v, could not apply it and asked to be killed; %v", out.Desc, out.Killed, out.Flags, out.Restart), rec)
		}
		if len(out.Failed) > 0 {
			bad = true
			c.Violate("abort/"+key, fmt.Sprintf("%s: the consensus state machine of correct nodes failed on a Byzantine proposal: %v", out.Desc, out.Failed), rec)
		}
		if !bad && !out.AllApplied {
			bad = true
			c.Violate("stall/"+key, fmt.Sprintf("%s: the correct nodes did not decide the height after refusing the block", out.Desc), rec)
		}
		if !bad && !probe && !out.Conforms {
			c.Drift("%s: pi_prop differs from the model without breaking the property: %s", out.Desc, out.Divergence)
		}
		if !bad {
			refused++
		}
	}
	o.Distinct = len(distinct)
	c.SetExtra("behaviours_planned", planned)
	c.SetExtra("behaviours_by_class", classes)
	c.SetExtra("concrete_corruptions_used", corruptions)
	c.SetExtra("inapplicable", skipped)
	c.SetExtra("controls_voted_and_committed", controlsOK)
	c.SetExtra("invalid_blocks_refused_chain_continued", refused)
	c.SetExtra("negative_controls_rejected", tamperRejected)
	c.SetExtra("model_edges_followed_on_real_nodes", len(covered))
	c.SetExtra("behaviours_with_multi_part_block", multiPart)
	c.SetExtra("max_txs_in_block", maxTxs)
	c.SetExtra("behaviours_after_a_round_1_commit", prevR1)
	c.SetExtra("as_coded_conformance", map[string]int{"behaviours_leaving_AsRequired_that_follow_AsCoded_step_by_step": asCodedOK, "steps_compared": asCodedSteps, "follow_neither": asCodedBad})
	edgesFollowed := map[string]int{}
	for inst, m := range pathEdges {
		edgesFollowed[inst] = len(m)
	}
	c.SetExtra("two_block_behaviours", map[string]interface{}{"planned": plannedPaths, "run_by_instance": pathsRun, "by_class": pathClasses,
		"constructions_B_B2": pathHows, "model_edges_followed_on_real_nodes": edgesFollowed, "all_blocks_valid_voted_and_committed": pathControls,
		"invalid_blocks_refused": pathRefused, "negative_controls_rejected": pathTamperRejected, "samples": pathSamples,
		"cpu_ms_total_cluster_built_blocks_built_done": pathMillis})
	if c.Replay == "" && pathTamperRejected < pathTamperPlanned {
		c.Infra("vacuous binding: only %d of %d falsified observations of two-block behaviours were rejected by the replay", pathTamperRejected, pathTamperPlanned)
	}
	if c.Replay == "" && tamperRejected < 2 {
		c.Infra("vacuous binding: only %d of 2 falsified observations were rejected by the replay", tamperRejected)
	}
	if c.Replay == "" && controlsOK == 0 {
		c.Infra("no control behaviour (untouched block) was voted and committed")
	}
	if nInfra > 0 {
		c.SetExtra("behaviours_with_infrastructure_trouble", nInfra)
	}
	_ = g
}
