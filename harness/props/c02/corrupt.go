package c02

// The Byzantine proposer's repertoire: every entry corrupts exactly one field class of an
// honestly built block and repairs every hash that depends on it, so that exactly the
// declared clauses of full validity are violated. Clause names are those of
// spec/BlockValidity/BlockValidity.tla.

import (
	"fmt"
	"math/rand"
	"sort"
	"strings"
	"time"

	"github.com/lianxiangcloud/linkchain/libs/common"
	"github.com/lianxiangcloud/linkchain/libs/crypto"
	"github.com/lianxiangcloud/linkchain/types"
)

type corruption struct {
	Name  string
	MinH  uint64                  // first height it applies to
	MaxH  uint64                  // last height it applies to (0: any)
	Flags func(H uint64) []string // clauses violated (declared by construction)
	Apply func(w *world, b *types.Block) error
	Probe bool // malformed input outside the clause vector (nil fields): expected to be refused, nothing else is predicted
	// Lcp (optional): the corruption places the voting power of the precommits the LastCommit
	// carries; whether that is "more than two thirds" - the clause lastCommit - is then
	// derived from the validator set, not declared
	Lcp func(w *world) int64
}

func fl(s ...string) func(uint64) []string { return func(uint64) []string { return s } }

func flipHash(h common.Hash) common.Hash {
	h[0] ^= 0x5a
	h[31] ^= 0xa5
	return h
}

func setCommit(b *types.Block, pcs []*types.Vote) {
	b.LastCommit = &types.Commit{BlockID: b.LastCommit.BlockID, Precommits: pcs}
	b.LastCommitHash = b.LastCommit.Hash()
}

func setEvidence(b *types.Block, evs []types.Evidence) {
	b.Evidence = types.EvidenceData{Evidence: evs}
	b.EvidenceHash = b.Evidence.Hash()
}

func copyPrecommits(b *types.Block) []*types.Vote {
	out := make([]*types.Vote, len(b.LastCommit.Precommits))
	for i, v := range b.LastCommit.Precommits {
		if v != nil {
			out[i] = v.Copy()
		}
	}
	return out
}

func nonNil(pcs []*types.Vote) (idx []int) {
	for i, v := range pcs {
		if v != nil {
			idx = append(idx, i)
		}
	}
	return
}

// byzSlot is the Byzantine validator's index in the previous validator set.
func (w *world) byzSlot() int {
	i, _ := w.status.LastValidators.GetByAddress(w.cl.PVs[w.byz].GetAddress())
	return i
}

func (w *world) byzPrecommit(height uint64, round int, id types.BlockID) *types.Vote {
	return w.cl.MakeVote(w.byz, w.status.LastValidators, height, round, types.VoteTypePrecommit, id)
}

func otherID(seed byte) types.BlockID {
	var h common.Hash
	for i := range h {
		h[i] = seed + byte(i)
	}
	return types.BlockID{Hash: h, PartsHeader: types.PartSetHeader{Total: 1, Hash: h[:20]}}
}

func findFVE(b *types.Block) (int, *types.FaultValidatorsEvidence) {
	for i, e := range b.Evidence.Evidence {
		if f, ok := e.(*types.FaultValidatorsEvidence); ok {
			return i, f
		}
	}
	return -1, nil
}

func withFVE(f func(w *world, b *types.Block, fve *types.FaultValidatorsEvidence) error) func(*world, *types.Block) error {
	return func(w *world, b *types.Block) error {
		i, fve := findFVE(b)
		if fve == nil {
			return fmt.Errorf("the honest block carries no FaultValidatorsEvidence")
		}
		cp := *fve
		if err := f(w, b, &cp); err != nil {
			return err
		}
		evs := append([]types.Evidence{}, b.Evidence.Evidence...)
		evs[i] = &cp
		setEvidence(b, evs)
		return nil
	}
}

// anotherPub is the public key of a validator that is not the one given.
func (w *world) anotherPub(not crypto.PubKey) crypto.PubKey {
	for _, v := range w.status.LastValidators.Validators {
		if not == nil || !v.PubKey.Equals(not) {
			return v.PubKey
		}
	}
	return nil
}

// equivocation builds DuplicateVoteEvidence about validator `who` at height h signed with key `signer`.
func (w *world) equivocation(who, signer int, h uint64) *types.DuplicateVoteEvidence {
	vs := w.status.LastValidators
	mk := func(id types.BlockID) *types.Vote {
		addr := w.cl.PVs[who].GetAddress()
		idx, _ := vs.GetByAddress(addr)
		v := &types.Vote{ValidatorAddress: addr, ValidatorIndex: idx, ValidatorSize: vs.Size(), Height: h, Round: 0,
			Timestamp: time.Unix(1600000000, 0).UTC(), Type: types.VoteTypePrevote, BlockID: id}
		if err := w.cl.PVs[signer].SignVote(w.cl.ChainID, v); err != nil {
			panic(err)
		}
		return v
	}
	return &types.DuplicateVoteEvidence{PubKey: w.cl.PVs[who].GetPubKey(), VoteA: mk(otherID(1)), VoteB: mk(otherID(2))}
}

var catalogue = []corruption{
	// ---- chain -------------------------------------------------------------------
	{Name: "chain/other-id", MinH: 1, Flags: fl("chain"), Apply: func(w *world, b *types.Block) error { b.ChainID = "evil-chain"; return nil }},
	{Name: "chain/empty", MinH: 1, Flags: fl("chain"), Apply: func(w *world, b *types.Block) error { b.ChainID = ""; return nil }},
	{Name: "chain/case", MinH: 1, Flags: fl("chain"), Apply: func(w *world, b *types.Block) error { b.ChainID = strings.ToUpper(b.ChainID); return nil }},

	// ---- height (the application compares the height too; at height 1 a neighbouring height also
	//      changes what ValidateBasic expects of the empty LastCommit) -------------------------------
	{Name: "height/plus1", MinH: 1, Flags: func(H uint64) []string {
		if H == 1 {
			return []string{"app", "basic", "height"}
		}
		return []string{"app", "height"}
	}, Apply: func(w *world, b *types.Block) error { b.Height++; return nil }},
	{Name: "height/minus1", MinH: 1, Flags: func(H uint64) []string {
		if H == 1 {
			return []string{"app", "basic", "height"}
		}
		return []string{"app", "height"}
	}, Apply: func(w *world, b *types.Block) error { b.Height--; return nil }},

	// ---- previous block id -------------------------------------------------------------
	{Name: "lastid/hash", MinH: 1, Flags: fl("lastId"), Apply: func(w *world, b *types.Block) error {
		b.LastBlockID.Hash = flipHash(b.LastBlockID.Hash)
		return nil
	}},
	{Name: "lastid/parts-total", MinH: 1, Flags: fl("lastId"), Apply: func(w *world, b *types.Block) error {
		b.LastBlockID.PartsHeader.Total++
		return nil
	}},
	{Name: "lastid/parts-hash", MinH: 1, Flags: fl("lastId"), Apply: func(w *world, b *types.Block) error {
		h := append([]byte{}, b.LastBlockID.PartsHeader.Hash...)
		if len(h) == 0 {
			h = make([]byte, 20)
		}
		h[0] ^= 0xff
		b.LastBlockID.PartsHeader.Hash = h
		return nil
	}},
	{Name: "lastid/zero", MinH: 2, Flags: fl("lastId"), Apply: func(w *world, b *types.Block) error {
		b.LastBlockID = types.BlockID{}
		return nil
	}},
	{Name: "lastid/grandparent", MinH: 3, Flags: fl("lastId"), Apply: func(w *world, b *types.Block) error {
		meta := w.cl.Nodes[w.honest[0]].App.LoadBlockMeta(w.H - 2)
		if meta == nil {
			return fmt.Errorf("no block meta at %d", w.H-2)
		}
		b.LastBlockID = meta.BlockID
		return nil
	}},

	// ---- transaction totals ---------------------------------------------------------------
	{Name: "totaltxs/plus1", MinH: 1, Flags: fl("totalTxs"), Apply: func(w *world, b *types.Block) error { b.TotalTxs++; return nil }},
	{Name: "totaltxs/minus1", MinH: 1, Flags: fl("totalTxs"), Apply: func(w *world, b *types.Block) error {
		if b.TotalTxs == 0 {
			return fmt.Errorf("TotalTxs is 0")
		}
		b.TotalTxs--
		return nil
	}},
	{Name: "totaltxs/not-counting-this-block", MinH: 1, Flags: fl("totalTxs"), Apply: func(w *world, b *types.Block) error {
		if len(b.Data.Txs) == 0 {
			return fmt.Errorf("the block has no transactions")
		}
		b.TotalTxs = w.status.LastBlockTotalTx
		return nil
	}},
	{Name: "totaltxs/huge", MinH: 1, Flags: fl("totalTxs"), Apply: func(w *world, b *types.Block) error { b.TotalTxs = 1 << 62; return nil }},

	// ---- internal consistency (ValidateBasic) ----------------------------------------------
	{Name: "numtxs/plus1", MinH: 1, Flags: fl("basic"), Apply: func(w *world, b *types.Block) error { b.NumTxs++; return nil }},
	{Name: "numtxs/zero", MinH: 1, Flags: fl("basic"), Apply: func(w *world, b *types.Block) error {
		if b.NumTxs == 0 {
			return fmt.Errorf("NumTxs is 0")
		}
		b.NumTxs = 0
		return nil
	}},
	{Name: "lastcommithash/flip", MinH: 1, Flags: fl("basic"), Apply: func(w *world, b *types.Block) error {
		b.LastCommitHash = flipHash(b.LastCommitHash)
		return nil
	}},
	{Name: "evidencehash/flip", MinH: 1, Flags: fl("basic"), Apply: func(w *world, b *types.Block) error {
		b.EvidenceHash = flipHash(b.EvidenceHash)
		return nil
	}},
	{Name: "datahash/flip", MinH: 1, Flags: fl("app", "basic"), Apply: func(w *world, b *types.Block) error {
		b.DataHash = flipHash(b.DataHash)
		return nil
	}},
	{Name: "lastcommit-body/drop-without-rehash", MinH: 2, Flags: fl("basic"), Apply: func(w *world, b *types.Block) error {
		// the header (and so the block hash) is the honest one; only the body differs
		pcs := copyPrecommits(b)
		nn := nonNil(pcs)
		if len(nn) < 4 {
			return fmt.Errorf("the honest commit has only %d precommits", len(nn))
		}
		pcs[nn[len(nn)-1]] = nil
		b.LastCommit = &types.Commit{BlockID: b.LastCommit.BlockID, Precommits: pcs}
		return nil
	}},
	{Name: "lastcommit/nil-blockid", MinH: 2, Flags: fl("basic"), Apply: func(w *world, b *types.Block) error {
		b.LastCommit = &types.Commit{Precommits: copyPrecommits(b)}
		b.LastCommitHash = b.LastCommit.Hash()
		return nil
	}},
	{Name: "lastcommit/other-round-vote", MinH: 2, Flags: fl("basic", "lastCommit"), Apply: func(w *world, b *types.Block) error {
		pcs := copyPrecommits(b)
		first := b.LastCommit.FirstPrecommit()
		slot := w.byzSlot()
		if nn := nonNil(pcs); len(nn) > 0 && nn[0] == slot {
			return fmt.Errorf("the Byzantine precommit is the first one")
		}
		pcs[slot] = w.byzPrecommit(first.Height, first.Round+1, first.BlockID)
		setCommit(b, pcs)
		return nil
	}},

	// ---- parameter and validator-set hashes ---------------------------------------------------
	{Name: "conshash/flip", MinH: 1, Flags: fl("consHash"), Apply: func(w *world, b *types.Block) error {
		b.ConsensusHash = flipHash(b.ConsensusHash)
		return nil
	}},
	{Name: "conshash/zero", MinH: 1, Flags: fl("consHash"), Apply: func(w *world, b *types.Block) error {
		b.ConsensusHash = common.Hash{}
		return nil
	}},
	{Name: "valhash/flip", MinH: 1, Flags: fl("valHash"), Apply: func(w *world, b *types.Block) error {
		b.ValidatorsHash = flipHash(b.ValidatorsHash)
		return nil
	}},
	{Name: "valhash/zero", MinH: 1, Flags: fl("valHash"), Apply: func(w *world, b *types.Block) error {
		b.ValidatorsHash = common.Hash{}
		return nil
	}},
	{Name: "valhash/three-of-four", MinH: 1, Flags: fl("valHash"), Apply: func(w *world, b *types.Block) error {
		vs := types.NewValidatorSet(w.status.Validators.Copy().Validators[:3])
		b.ValidatorsHash = common.BytesToHash(vs.Hash())
		return nil
	}},

	// ---- the previous commit (LastCommitHash always repaired) ---------------------------------
	{Name: "lastcommit/too-little-power", MinH: 2, Flags: fl("lastCommit"), Apply: func(w *world, b *types.Block) error {
		pcs := copyPrecommits(b)
		nn := nonNil(pcs)
		for _, i := range nn[2:] {
			pcs[i] = nil
		}
		setCommit(b, pcs)
		return nil
	}},
	{Name: "lastcommit/short", MinH: 2, Flags: fl("lastCommit"), Apply: func(w *world, b *types.Block) error {
		pcs := copyPrecommits(b)
		setCommit(b, pcs[:len(pcs)-1])
		return nil
	}},
	{Name: "lastcommit/long", MinH: 2, Flags: fl("lastCommit"), Apply: func(w *world, b *types.Block) error {
		pcs := copyPrecommits(b)
		first := b.LastCommit.FirstPrecommit()
		setCommit(b, append(pcs, w.byzPrecommit(first.Height, first.Round, first.BlockID)))
		return nil
	}},
	{Name: "lastcommit/resigned-wrong-key", MinH: 2, Flags: fl("lastCommit"), Apply: func(w *world, b *types.Block) error {
		pcs := copyPrecommits(b)
		for _, i := range nonNil(pcs) {
			if i != w.byzSlot() {
				if err := w.cl.PVs[w.byz].SignVote(w.cl.ChainID, pcs[i]); err != nil {
					return err
				}
				setCommit(b, pcs)
				return nil
			}
		}
		return fmt.Errorf("no foreign precommit")
	}},
	{Name: "lastcommit/forged-missing-vote", MinH: 2, Flags: fl("lastCommit"), Apply: func(w *world, b *types.Block) error {
		// a precommit in the name of another validator, signed with the Byzantine key, replaces a genuine one
		pcs := copyPrecommits(b)
		first := b.LastCommit.FirstPrecommit()
		for i, val := range w.status.LastValidators.Validators {
			if i == w.byzSlot() {
				continue
			}
			v := &types.Vote{ValidatorAddress: val.Address, ValidatorIndex: i, ValidatorSize: w.status.LastValidators.Size(),
				Height: first.Height, Round: first.Round, Timestamp: first.Timestamp, Type: types.VoteTypePrecommit, BlockID: first.BlockID}
			if err := w.cl.PVs[w.byz].SignVote(w.cl.ChainID, v); err != nil {
				return err
			}
			pcs[i] = v
			setCommit(b, pcs)
			return nil
		}
		return fmt.Errorf("no slot")
	}},
	{Name: "lastcommit/other-block", MinH: 2, Flags: fl("lastCommit"), Apply: func(w *world, b *types.Block) error {
		// exactly three precommits, the Byzantine one among them - and that one names another block
		pcs := copyPrecommits(b)
		first := b.LastCommit.FirstPrecommit()
		slot := w.byzSlot()
		kept := 0
		for _, i := range nonNil(pcs) {
			if i == slot {
				continue
			}
			if kept == 2 {
				pcs[i] = nil
				continue
			}
			kept++
		}
		pcs[slot] = w.byzPrecommit(first.Height, first.Round, otherID(7))
		setCommit(b, pcs)
		return nil
	}},
	{Name: "lastcommit/wrong-slot", MinH: 2, Flags: fl("lastCommit"), Apply: func(w *world, b *types.Block) error {
		pcs := copyPrecommits(b)
		nn := nonNil(pcs)
		if len(nn) < 2 {
			return fmt.Errorf("too few precommits")
		}
		i, j := nn[len(nn)-2], nn[len(nn)-1]
		pcs[i], pcs[j] = pcs[j], pcs[i]
		setCommit(b, pcs)
		return nil
	}},
	{Name: "lastcommit/nil-signature", MinH: 2, Flags: fl("lastCommit"), Apply: func(w *world, b *types.Block) error {
		pcs := copyPrecommits(b)
		pcs[nonNil(pcs)[0]].Signature = nil
		setCommit(b, pcs)
		return nil
	}},
	{Name: "lastcommit/all-nil", MinH: 2, Flags: fl("ev", "evFull", "lastCommit"), Apply: func(w *world, b *types.Block) error {
		setCommit(b, make([]*types.Vote, len(b.LastCommit.Precommits)))
		return nil
	}},
	{Name: "lastcommit/of-grandparent", MinH: 3, Flags: fl("ev", "evFull", "lastCommit"), Apply: func(w *world, b *types.Block) error {
		prev := w.cl.Nodes[w.honest[0]].App.LoadBlock(w.H - 1)
		if prev == nil || prev.LastCommit == nil {
			return fmt.Errorf("no block %d", w.H-1)
		}
		b.LastCommit = &types.Commit{BlockID: prev.LastCommit.BlockID, Precommits: prev.LastCommit.Precommits}
		b.LastCommitHash = b.LastCommit.Hash()
		return nil
	}},
	{Name: "lastcommit/present-at-height-1", MinH: 1, MaxH: 1, Flags: fl("lastCommit"), Apply: func(w *world, b *types.Block) error {
		id := otherID(3)
		v := w.cl.MakeVote(w.byz, w.status.Validators, 0, 0, types.VoteTypePrecommit, id)
		b.LastCommit = &types.Commit{BlockID: id, Precommits: []*types.Vote{v}}
		b.LastCommitHash = b.LastCommit.Hash()
		return nil
	}},

	// ---- the previous commit exactly on the two-thirds boundary: precommits are dropped until the
	//      remaining ones carry the largest power a set of precommits can carry that is NOT more than
	//      two thirds of the previous validators' power T (floor(2T/3) when the powers allow it:
	//      invalid) or the smallest power that IS more than two thirds (floor(2T/3)+1 when the powers
	//      allow it: a fully valid block); the Byzantine validator's own precommit is among the kept /
	//      the dropped ones -----------------------------------------------------------------------------
	{Name: "lastcommit/power-at-most-two-thirds/keep-own", MinH: 2, Flags: fl(), Lcp: func(w *world) int64 { return w.boundary(false) }, Apply: func(w *world, b *types.Block) error {
		return trimCommit(w, b, w.boundary(false), 1)
	}},
	{Name: "lastcommit/power-at-most-two-thirds/drop-own", MinH: 2, Flags: fl(), Lcp: func(w *world) int64 { return w.boundary(false) }, Apply: func(w *world, b *types.Block) error {
		return trimCommit(w, b, w.boundary(false), 0)
	}},
	{Name: "lastcommit/power-just-above-two-thirds/keep-own", MinH: 2, Flags: fl(), Lcp: func(w *world) int64 { return w.boundary(true) }, Apply: func(w *world, b *types.Block) error {
		return trimCommit(w, b, w.boundary(true), 1)
	}},
	{Name: "lastcommit/power-just-above-two-thirds/drop-own", MinH: 2, Flags: fl(), Lcp: func(w *world) int64 { return w.boundary(true) }, Apply: func(w *world, b *types.Block) error {
		return trimCommit(w, b, w.boundary(true), 0)
	}},

	// ---- evidence (EvidenceHash always repaired) ----------------------------------------------------
	{Name: "fve/missing", MinH: 2, Flags: fl("fve"), Apply: func(w *world, b *types.Block) error {
		i, _ := findFVE(b)
		if i < 0 {
			return fmt.Errorf("no FaultValidatorsEvidence")
		}
		evs := append([]types.Evidence{}, b.Evidence.Evidence[:i]...)
		setEvidence(b, append(evs, b.Evidence.Evidence[i+1:]...))
		return nil
	}},
	{Name: "fve/doubled", MinH: 2, Flags: fl("ev", "fve"), Apply: func(w *world, b *types.Block) error {
		_, fve := findFVE(b)
		if fve == nil {
			return fmt.Errorf("no FaultValidatorsEvidence")
		}
		cp := *fve
		setEvidence(b, append(append([]types.Evidence{}, b.Evidence.Evidence...), &cp))
		return nil
	}},
	{Name: "fve/wrong-proposer", MinH: 2, Flags: fl("ev", "evFull"), Apply: withFVE(func(w *world, b *types.Block, f *types.FaultValidatorsEvidence) error {
		f.Proposer = w.anotherPub(f.Proposer)
		return nil
	})},
	{Name: "fve/wrong-round", MinH: 2, Flags: fl("ev", "evFull"), Apply: withFVE(func(w *world, b *types.Block, f *types.FaultValidatorsEvidence) error {
		f.Round++
		f.FaultVal = w.anotherPub(nil)
		return nil
	})},
	{Name: "fve/wrong-height", MinH: 2, Flags: fl("ev", "evFull"), Apply: withFVE(func(w *world, b *types.Block, f *types.FaultValidatorsEvidence) error {
		f.BlockHeight--
		return nil
	})},
	{Name: "fve/unwarranted-fault-validator", MinH: 2, Flags: fl("ev", "evFull"), Apply: withFVE(func(w *world, b *types.Block, f *types.FaultValidatorsEvidence) error {
		if f.Round != 0 {
			// the previous block was decided in a later round: blame the wrong validator
			f.FaultVal = w.anotherPub(f.FaultVal)
			return nil
		}
		f.FaultVal = w.anotherPub(f.Proposer)
		return nil
	})},
	{Name: "dve/forged-signature", MinH: 2, Flags: fl("ev", "evFull"), Apply: func(w *world, b *types.Block) error {
		victim := w.honest[1]
		setEvidence(b, append(append([]types.Evidence{}, b.Evidence.Evidence...), w.equivocation(victim, w.byz, w.H-1)))
		return nil
	}},
	{Name: "dve/same-vote-twice", MinH: 2, Flags: fl("ev", "evFull"), Apply: func(w *world, b *types.Block) error {
		e := w.equivocation(w.byz, w.byz, w.H-1)
		e.VoteB = e.VoteA.Copy()
		setEvidence(b, append(append([]types.Evidence{}, b.Evidence.Evidence...), e))
		return nil
	}},
	{Name: "dve/future-height", MinH: 2, Flags: fl("ev", "evFull"), Apply: func(w *world, b *types.Block) error {
		setEvidence(b, append(append([]types.Evidence{}, b.Evidence.Evidence...), w.equivocation(w.byz, w.byz, w.H+5)))
		return nil
	}},
	{Name: "dve/not-a-validator", MinH: 2, Flags: fl("ev", "evFull"), Apply: func(w *world, b *types.Block) error {
		pv := types.NewMockPV()
		mk := func(id types.BlockID) *types.Vote {
			v := &types.Vote{ValidatorAddress: pv.GetAddress(), ValidatorIndex: 0, ValidatorSize: 4, Height: w.H - 1, Round: 0,
				Timestamp: time.Unix(1600000000, 0).UTC(), Type: types.VoteTypePrevote, BlockID: id}
			pv.SignVote(w.cl.ChainID, v)
			return v
		}
		e := &types.DuplicateVoteEvidence{PubKey: pv.GetPubKey(), VoteA: mk(otherID(1)), VoteB: mk(otherID(2))}
		setEvidence(b, append(append([]types.Evidence{}, b.Evidence.Evidence...), e))
		return nil
	}},
	{Name: "evidence/mock-type", MinH: 2, Flags: fl("ev", "evFull"), Apply: func(w *world, b *types.Block) error {
		e := types.NewMockGoodEvidence(w.H-1, 0, w.cl.PVs[w.byz].GetAddress())
		setEvidence(b, append(append([]types.Evidence{}, b.Evidence.Evidence...), e))
		return nil
	}},
	{Name: "dve/forged-at-height-1", MinH: 1, MaxH: 1, Flags: fl("evFull"), Apply: func(w *world, b *types.Block) error {
		// checkBlockEvidence does not look at the evidence of the first block
		e := w.equivocationAt1()
		setEvidence(b, append(append([]types.Evidence{}, b.Evidence.Evidence...), e))
		return nil
	}},

	// ---- application level -----------------------------------------------------------------
	{Name: "time/far-past", MinH: 1, Flags: fl("app"), Apply: func(w *world, b *types.Block) error { b.Header.Time = 1000; return nil }},
	{Name: "statehash/flip", MinH: 1, Flags: fl("app"), Apply: func(w *world, b *types.Block) error {
		b.StateHash = flipHash(b.StateHash)
		return nil
	}},
	{Name: "receipthash/flip", MinH: 1, Flags: fl("app"), Apply: func(w *world, b *types.Block) error {
		b.ReceiptHash = flipHash(b.ReceiptHash)
		return nil
	}},
	{Name: "gasused/plus1", MinH: 1, Flags: fl("app"), Apply: func(w *world, b *types.Block) error { b.Header.GasUsed++; return nil }},
	{Name: "parenthash/flip", MinH: 1, Flags: fl("app"), Apply: func(w *world, b *types.Block) error {
		b.ParentHash = flipHash(b.ParentHash)
		return nil
	}},
	{Name: "data/dropped-tx", MinH: 1, Flags: fl("app"), Apply: func(w *world, b *types.Block) error {
		// the last transaction is removed and every count and hash of the data repaired; the
		// execution results in the header are those of the full block
		if len(b.Data.Txs) == 0 {
			return fmt.Errorf("the block has no transactions")
		}
		b.Data = &types.Data{Txs: b.Data.Txs[:len(b.Data.Txs)-1]}
		b.NumTxs--
		b.TotalTxs--
		b.DataHash = b.Data.Hash()
		return nil
	}},

	// ---- malformed blocks (outside the clause vector: only "must be refused" is predicted) -------
	{Name: "malformed/empty-lastcommit", MinH: 2, Probe: true, Flags: fl("basic", "ev", "evFull", "lastCommit"), Apply: func(w *world, b *types.Block) error {
		b.LastCommit = &types.Commit{}
		b.LastCommitHash = b.LastCommit.Hash()
		return nil
	}},
	{Name: "malformed/fve-at-height-1", MinH: 1, MaxH: 1, Probe: true, Flags: fl("evFull"), Apply: func(w *world, b *types.Block) error {
		e := &types.FaultValidatorsEvidence{BlockHeight: 0, Round: 0, Proposer: w.status.Validators.GetProposer().PubKey}
		setEvidence(b, []types.Evidence{e})
		return nil
	}},
	{Name: "malformed/fve-nil-proposer", MinH: 2, Probe: true, Flags: fl("ev", "evFull"), Apply: withFVE(func(w *world, b *types.Block, f *types.FaultValidatorsEvidence) error {
		f.Proposer = nil
		return nil
	})},
	{Name: "malformed/nil-lastcommit", MinH: 2, Probe: true, Flags: fl("basic"), Apply: func(w *world, b *types.Block) error {
		b.LastCommit = nil
		return nil
	}},
	{Name: "recover/flag-hides-validators-hash", MinH: 1, Probe: true, Flags: fl("valHash"), Apply: func(w *world, b *types.Block) error {
		// Header.Recover is not part of the block hash and switches the ValidatorsHash comparison off;
		// the receiver drops a block whose flag differs from its own recover state
		b.Recover = 1
		b.ValidatorsHash = flipHash(b.ValidatorsHash)
		return nil
	}},
	{Name: "malformed/nil-header", MinH: 1, Probe: true, Flags: fl("basic"), Apply: func(w *world, b *types.Block) error {
		b.Header = nil
		return nil
	}},
	{Name: "malformed/nil-data", MinH: 1, Probe: true, Flags: fl("basic"), Apply: func(w *world, b *types.Block) error {
		b.Data = nil
		return nil
	}},
	{Name: "malformed/dve-nil-pubkey", MinH: 2, Probe: true, Flags: fl("ev", "evFull"), Apply: func(w *world, b *types.Block) error {
		e := w.equivocation(w.byz, w.byz, w.H-1)
		e.PubKey = nil
		setEvidence(b, append(append([]types.Evidence{}, b.Evidence.Evidence...), e))
		return nil
	}},
	{Name: "malformed/dve-nil-vote", MinH: 2, Probe: true, Flags: fl("ev", "evFull"), Apply: func(w *world, b *types.Block) error {
		e := w.equivocation(w.byz, w.byz, w.H-1)
		e.VoteB = nil
		setEvidence(b, append(append([]types.Evidence{}, b.Evidence.Evidence...), e))
		return nil
	}},
}

// equivocationAt1 forges evidence for the first block (the validator set of height 1 is on record).
func (w *world) equivocationAt1() *types.DuplicateVoteEvidence {
	vs := w.status.Validators
	victim := w.honest[1]
	mk := func(id types.BlockID) *types.Vote {
		addr := w.cl.PVs[victim].GetAddress()
		idx, _ := vs.GetByAddress(addr)
		v := &types.Vote{ValidatorAddress: addr, ValidatorIndex: idx, ValidatorSize: vs.Size(), Height: 1, Round: 0,
			Timestamp: time.Unix(1600000000, 0).UTC(), Type: types.VoteTypePrevote, BlockID: id}
		w.cl.PVs[w.byz].SignVote(w.cl.ChainID, v)
		return v
	}
	return &types.DuplicateVoteEvidence{PubKey: w.cl.PVs[victim].GetPubKey(), VoteA: mk(otherID(1)), VoteB: mk(otherID(2))}
}

// genuineEvidence is real proof that the Byzantine validator equivocated at the previous
// height: a block carrying it is fully valid (positive control with a non-trivial body).
var genuineEvidence = corruption{Name: "none/with-genuine-evidence", MinH: 2, Flags: fl(), Apply: func(w *world, b *types.Block) error {
	setEvidence(b, append(append([]types.Evidence{}, b.Evidence.Evidence...), w.equivocation(w.byz, w.byz, w.H-1)))
	return nil
}}

var untouched = corruption{Name: "none", MinH: 1, Flags: fl(), Apply: func(w *world, b *types.Block) error { return nil }}

func className(flags []string) string {
	if len(flags) == 0 {
		return "none"
	}
	s := append([]string{}, flags...)
	sort.Strings(s)
	return strings.Join(s, "+")
}

func (c corruption) applies(H uint64) bool { return H >= c.MinH && (c.MaxH == 0 || H <= c.MaxH) }

// byName finds a catalogue entry.
func byName(name string) *corruption {
	switch name {
	case "none":
		return &untouched
	case genuineEvidence.Name:
		return &genuineEvidence
	}
	for i := range catalogue {
		if catalogue[i].Name == name {
			return &catalogue[i]
		}
	}
	return nil
}

// boundary returns the voting power next to two thirds of the total that a set of
// validators can add up to: above = false: the largest sum p with 3p <= 2T, above = true:
// the smallest sum p with 3p > 2T (the model's Below / Above).
func (w *world) boundary(above bool) int64 {
	sums := map[int64]bool{0: true}
	for _, p := range w.powers {
		next := map[int64]bool{}
		for s := range sums {
			next[s], next[s+p] = true, true
		}
		sums = next
	}
	best := int64(-1)
	for s := range sums {
		if above && 3*s > 2*w.total && (best < 0 || s < best) {
			best = s
		}
		if !above && 3*s <= 2*w.total && s > best {
			best = s
		}
	}
	return best
}

// trimCommit drops precommits of the block's LastCommit until the remaining ones carry
// exactly `target` voting power of the previous validator set (LastCommitHash repaired).
// own: 1 = the Byzantine validator's precommit stays, 0 = it goes.
func trimCommit(w *world, b *types.Block, target int64, own int) error {
	pcs := copyPrecommits(b)
	vals := w.status.LastValidators.Validators
	if len(pcs) != len(vals) || len(pcs) > 20 {
		return fmt.Errorf("commit of %d slots for %d validators", len(pcs), len(vals))
	}
	slot := w.byzSlot()
	for mask := 1; mask < 1<<uint(len(pcs)); mask++ {
		sum, ok := int64(0), true
		for i := range pcs {
			if mask>>uint(i)&1 == 1 {
				if pcs[i] == nil {
					ok = false
					break
				}
				sum += vals[i].VotingPower
			}
		}
		if !ok || sum != target || (mask>>uint(slot)&1 == 1) != (own == 1) {
			continue
		}
		for i := range pcs {
			if mask>>uint(i)&1 == 0 {
				pcs[i] = nil
			}
		}
		setCommit(b, pcs)
		return nil
	}
	return fmt.Errorf("no set of precommits of the honest commit (own %d) carries exactly %d of %d", own, target, w.total)
}

// compose applies several corruptions of different field classes jointly. lcpOf is non-nil
// when one of them places the previous commit's voting power.
func compose(names []string, H uint64) (flags []string, apply func(w *world, b *types.Block) error, lcpOf func(w *world) int64, ok bool) {
	set := map[string]bool{}
	var cs []*corruption
	for _, n := range names {
		c := byName(n)
		if c == nil || !c.applies(H) {
			return nil, nil, nil, false
		}
		if c.Lcp != nil {
			lcpOf = c.Lcp
		}
		cs = append(cs, c)
		for _, f := range c.Flags(H) {
			set[f] = true
		}
	}
	for f := range set {
		flags = append(flags, f)
	}
	sort.Strings(flags)
	return flags, func(w *world, b *types.Block) error {
		for _, c := range cs {
			if err := c.Apply(w, b); err != nil {
				return fmt.Errorf("%s: %v", c.Name, err)
			}
		}
		return nil
	}, lcpOf, true
}

// group is the field class an entry belongs to (entries of one group touch the same fields
// and are not combined with each other).
func group(name string) string {
	g := name[:strings.Index(name+"/", "/")]
	switch g {
	case "lastcommit-body", "lastcommithash":
		return "lastcommit"
	case "fve", "dve", "evidence", "evidencehash":
		return "evidence"
	case "numtxs", "totaltxs", "data", "datahash":
		return "txs"
	}
	return g
}

// pairsFor returns joint corruptions (two entries of different groups) for height H, seeded.
func pairsFor(H uint64, rng *rand.Rand, n int) [][]string {
	var names []string
	for _, c := range catalogue {
		if c.applies(H) && !c.Probe && c.Lcp == nil {
			names = append(names, c.Name)
		}
	}
	var out [][]string
	seen := map[string]bool{}
	for tries := 0; len(out) < n && tries < n*20; tries++ {
		a, b := names[rng.Intn(len(names))], names[rng.Intn(len(names))]
		if group(a) == group(b) {
			continue
		}
		if a > b {
			a, b = b, a
		}
		if seen[a+"|"+b] {
			continue
		}
		seen[a+"|"+b] = true
		out = append(out, []string{a, b})
	}
	return out
}
