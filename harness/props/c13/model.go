package c13

// The graph TLC exported from spec/Commit, and what it predicts for a crash point.

import (
	"encoding/json"
	"fmt"
	"io/ioutil"
	"strings"

	"verifh/mbt"
)

type mrec struct {
	K string `json:"k"`
	P int    `json:"p"`
}

type mstate struct {
	Par struct {
		Flat   bool  `json:"flat"`
		Conf   []int `json:"conf"`
		Valchg []int `json:"valchg"`
		Keep   int   `json:"keep"`
	} `json:"par"`
	KV struct {
		H       int   `json:"h"`
		N       []int `json:"n"`
		UndoFor int   `json:"undoFor"`
		UndoLen int   `json:"undoLen"`
		Roots   []int `json:"roots"`
	} `json:"kv"`
	BS struct {
		Rcpt  []int `json:"rcpt"`
		Tres  []int `json:"tres"`
		Txix  []int `json:"txix"`
		Parts []int `json:"parts"`
		Meta  []int `json:"meta"`
		Seen  []int `json:"seen"`
		Bcom  []int `json:"bcom"`
		Desc  int   `json:"desc"`
	} `json:"bs"`
	UX struct {
		Kimg []int `json:"kimg"`
		Outs []int `json:"outs"`
		Max  int   `json:"max"`
		Bseq []int `json:"bseq"`
	} `json:"ux"`
	ST struct {
		H    int    `json:"h"`
		Chg  int    `json:"chg"`
		Val  []mrec `json:"val"`
		Parm []mrec `json:"parm"`
	} `json:"st"`
	PR struct {
		Bs int `json:"bs"`
		St int `json:"st"`
	} `json:"pr"`
	Mem struct {
		Up   bool   `json:"up"`
		Pc   string `json:"pc"`
		AppH int    `json:"appH"`
		CsH  int    `json:"csH"`
		StH  int    `json:"stH"`
	} `json:"mem"`
	Hist struct {
		Acked  int  `json:"acked"`
		Hung   bool `json:"hung"`
		Prunes int  `json:"prunes"`
	} `json:"hist"`
}

type mact struct {
	Op string `json:"op"`
	W  string `json:"w"`
	H  int    `json:"h"`
	K  int    `json:"k"`
	At string `json:"at"`
}

type model struct {
	g    *mbt.Graph
	st   []mstate
	acts []mact
}

func parseModel(lines []string) (*model, error) {
	g, err := mbt.Load(lines)
	if err != nil {
		return nil, err
	}
	m := &model{g: g, st: make([]mstate, len(g.States)), acts: make([]mact, len(g.Edges))}
	for i, s := range g.States {
		if err := json.Unmarshal(s, &m.st[i]); err != nil {
			return nil, fmt.Errorf("state %d: %v", i, err)
		}
	}
	for i, e := range g.Edges {
		if err := json.Unmarshal(e.Act, &m.acts[i]); err != nil {
			return nil, fmt.Errorf("edge %d: %v", i, err)
		}
	}
	return m, nil
}

func loadModel(path string) (*model, error) {
	b, err := ioutil.ReadFile(path)
	if err != nil {
		return nil, err
	}
	return parseModel(strings.Split(strings.TrimSpace(string(b)), "\n"))
}

func sameInts(a, b []int) bool {
	if len(a) != len(b) {
		return false
	}
	for i := range a {
		if a[i] != b[i] {
			return false
		}
	}
	return true
}

func has(s []int, x int) bool {
	for _, y := range s {
		if y == x {
			return true
		}
	}
	return false
}

// initState finds the initial state of the behaviour family (flat, conf, valchg, keep).
func (m *model) initState(flat bool, conf, valchg []int, keep int) (int, bool) {
	for i, s := range m.st {
		if s.Mem.Pc == "idle" && s.Mem.CsH == 1 && s.Mem.Up && s.BS.Desc == 0 && s.ST.H == 0 && s.Hist.Prunes == 0 && len(s.BS.Tres) == 0 &&
			s.Par.Flat == flat && sameInts(s.Par.Conf, conf) && sameInts(s.Par.Valchg, valchg) && s.Par.Keep == keep {
			// initial: nothing in the WAL yet
			var raw struct {
				Wal struct {
					Msgs []int `json:"msgs"`
				} `json:"wal"`
			}
			json.Unmarshal(m.g.States[i], &raw)
			if len(raw.Wal.Msgs) == 0 {
				return i, true
			}
		}
	}
	return 0, false
}

func (m *model) edge(s int, op, w string) (int, bool) {
	for _, ei := range m.g.Out[s] {
		a := m.acts[ei]
		if a.Op == op && (w == "" || a.W == w) {
			return m.g.Edges[ei].To, true
		}
	}
	return s, false
}

// silent steps of the specification: decisions in memory, and the interior-node batch of
// a trie commit that the code may or may not issue separately
var silentSteps = []string{"fin", "apply", "tr_nodes"}

func (m *model) stepLabel(s int, w string) (int, error) {
	for tries := 0; tries < 4; tries++ {
		if t, ok := m.edge(s, "step", w); ok {
			return t, nil
		}
		moved := false
		for _, sl := range silentSteps {
			if sl == w {
				continue
			}
			if t, ok := m.edge(s, "step", sl); ok {
				s, moved = t, true
				break
			}
		}
		if !moved {
			break
		}
	}
	return s, fmt.Errorf("the specification does not allow write %q at pc %q (height %d)", w, m.st[s].Mem.Pc, m.st[s].Mem.CsH)
}

// settle follows the deterministic part (steps, replay) until the node is idle or dead.
func (m *model) settle(s int) int {
	for i := 0; i < 200; i++ {
		pc := m.st[s].Mem.Pc
		if pc == "idle" || pc == "dead" || pc == "down" {
			return s
		}
		if t, ok := m.edge(s, "step", ""); ok {
			s = t
			continue
		}
		if t, ok := m.edge(s, "replay", ""); ok {
			s = t
			continue
		}
		return s
	}
	return s
}

type prediction struct {
	Dead   bool `json:"dead"`
	X      int  `json:"x"`
	StateH int  `json:"state_h"`
	Kimg   bool `json:"kimg"`
	Outs   bool `json:"outs"`
	Max    bool `json:"max"`
	Bseq   bool `json:"bseq"`
	Txix   bool `json:"txix"`
	StH    int  `json:"st_h"`
	CsH    int  `json:"cs_h"`
	conf   bool
}

// predict: commit block 1 undisturbed, do the given writes of block 2, crash, restart, settle.
func (m *model) predict(sc scenario, labels []string) (*prediction, error) {
	s, ok := m.initState(!sc.IsTrie, sc.conf(), map[bool][]int{true: {targetH}, false: {}}[sc.ValChg], -1)
	if !ok {
		return nil, fmt.Errorf("no initial state of the specification matches scenario %s", sc.Name)
	}
	t, ok := m.edge(s, "propose", "")
	if !ok {
		return nil, fmt.Errorf("specification: no Propose in the initial state")
	}
	s = m.settle(t)
	if m.st[s].Mem.Pc != "idle" || m.st[s].Mem.AppH != targetH-1 {
		return nil, fmt.Errorf("specification: block %d does not commit undisturbed (pc %s)", targetH-1, m.st[s].Mem.Pc)
	}
	for _, l := range labels {
		if l == "propose" {
			t, ok := m.edge(s, "propose", "")
			if !ok {
				return nil, fmt.Errorf("the specification does not allow the decision at pc %q", m.st[s].Mem.Pc)
			}
			s = t
			continue
		}
		t, err := m.stepLabel(s, l)
		if err != nil {
			return nil, err
		}
		s = t
	}
	t, ok = m.edge(s, "crash", "")
	if !ok {
		return nil, fmt.Errorf("specification: no Crash at pc %q", m.st[s].Mem.Pc)
	}
	t, ok = m.edge(t, "restart", "")
	if !ok {
		return nil, fmt.Errorf("specification: no Restart after the crash")
	}
	f := m.st[m.settle(t)]
	p := &prediction{Dead: f.Mem.Pc == "dead", X: f.Mem.AppH, StH: f.ST.H, CsH: f.Mem.CsH,
		Kimg: has(f.UX.Kimg, targetH), Outs: has(f.UX.Outs, targetH), Max: f.UX.Max >= targetH, Bseq: has(f.UX.Bseq, targetH),
		Txix: has(f.BS.Txix, targetH), conf: has(f.Par.Conf, targetH)}
	if f.Par.Flat {
		nb := 0
		for _, v := range f.KV.N {
			if v > nb {
				nb = v
			}
		}
		switch {
		case len(f.KV.N) >= targetH && f.KV.N[targetH-1] == nb && nb > 0 && f.KV.N[targetH-2] == nb:
			p.StateH = targetH
		case len(f.KV.N) >= targetH && f.KV.N[targetH-1] == 0:
			p.StateH = targetH - 1
		default:
			p.StateH = -1
		}
	} else {
		p.StateH = p.X // the application opens the root the head block names
	}
	return p, nil
}

// compare checks the restarted node against the prediction (pi_shape: a difference is
// drift — the property itself is judged without the specification).
func (p *prediction) compare(o *observation, r *refRun) string {
	if p.Dead {
		return "the specification expects the node not to come up, it did"
	}
	var d []string
	if int(o.BsHeight) != p.X {
		d = append(d, fmt.Sprintf("block store height %d, specification %d", o.BsHeight, p.X))
	}
	sh := -1
	switch {
	case sameState(o, &r.after):
		sh = targetH
	case sameState(o, &r.before):
		sh = targetH - 1
	}
	if sh != p.StateH {
		d = append(d, fmt.Sprintf("world state of height %d, specification %d", sh, p.StateH))
	}
	if p.conf {
		if len(o.KimgSpent) > 0 {
			all := true
			for _, b := range o.KimgSpent {
				all = all && b
			}
			if all != p.Kimg {
				d = append(d, fmt.Sprintf("key images of block %d spent=%v, specification %v", targetH, all, p.Kimg))
			}
		}
		if got := fmt.Sprint(o.Outs) == fmt.Sprint(r.after.Outs); got != p.Outs {
			d = append(d, fmt.Sprintf("outputs of block %d present=%v, specification %v", targetH, got, p.Outs))
		}
		if got := o.MaxSeq == r.after.MaxSeq; got != p.Max {
			d = append(d, fmt.Sprintf("max output sequence advanced=%v, specification %v", got, p.Max))
		}
		if got := o.BlockSeq == r.after.BlockSeq; got != p.Bseq {
			d = append(d, fmt.Sprintf("per-block start sequence present=%v, specification %v", got, p.Bseq))
		}
	}
	idx := len(o.TxIdx) > 0
	for _, h := range o.TxIdx {
		idx = idx && h == targetH
	}
	if idx != p.Txix {
		d = append(d, fmt.Sprintf("transactions of block %d indexed=%v, specification %v", targetH, idx, p.Txix))
	}
	if int(o.StatusH) != p.StH || int(o.CsHeight) != p.CsH {
		d = append(d, fmt.Sprintf("status height %d / consensus height %d, specification %d / %d", o.StatusH, o.CsHeight, p.StH, p.CsH))
	}
	return strings.Join(d, "; ")
}
