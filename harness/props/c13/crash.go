package c13

// Crash enumeration: one decided block is committed by the real node on journaling
// databases; for every write boundary (every prefix of the journal, every
// per-goroutine cut of the concurrent section of SaveBlock, both sides of every
// write of the flat-state undo log) a crash image is built and the node is RESTARTED
// on it; the observables the property names are read and compared with the two
// reference observations taken from the live, never crashed node (before and after
// the block) and with what the specification predicts for that crash point.

import (
	"bytes"
	"crypto/sha1"
	"encoding/json"
	"fmt"
	"io/ioutil"
	"math/big"
	"os"
	"path/filepath"
	"sort"
	"strings"

	cfgpkg "github.com/lianxiangcloud/linkchain/config"
	cs "github.com/lianxiangcloud/linkchain/consensus"
	"github.com/lianxiangcloud/linkchain/libs/common"
	lkt "github.com/lianxiangcloud/linkchain/libs/cryptonote/types"
	"github.com/lianxiangcloud/linkchain/types"

	"verifh/appx"
)

// ---- scenarios --------------------------------------------------------------------

type scenario struct {
	Name   string `json:"name"`
	IsTrie bool   `json:"is_trie"`
	Kind   string `json:"kind"`    // transfer | deposit | spend
	ValChg bool   `json:"val_chg"` // the block changes the validator set
}

func (s scenario) conf() []int {
	switch s.Kind {
	case "deposit":
		return []int{2}
	case "spend":
		return []int{1, 2}
	}
	return []int{}
}

const targetH = 2 // height of the block whose commit is interrupted

var (
	contractAddr = common.HexToAddress("0x00000000000000000000000000000000c0dec0de")
	// slot0 := slot0+1 ; slot1 := (slot1 == 0) ? 1 : 0   (so a slot is created, updated and deleted)
	contractCode = []byte{0x60, 0x00, 0x54, 0x60, 0x01, 0x01, 0x60, 0x00, 0x55, 0x60, 0x01, 0x54, 0x15, 0x60, 0x01, 0x55, 0x00}
)

// observation = pi_prop: everything the property names, read from a (re)started node.
type observation struct {
	BsHeight   uint64            `json:"bs_height"`
	HeadHash   string            `json:"head_hash"`
	HeadOK     bool              `json:"head_readable"` // LoadBlock / LoadBlockMeta / LoadSeenCommit / LoadTxsResult of the head
	StateHash  string            `json:"state_hash"`    // TxsResult.StateHash of the head
	Bal        map[string]string `json:"balances"`
	Nonce      map[string]uint64 `json:"nonces"`
	Slots      []string          `json:"contract_slots"`
	KimgSpent  []bool            `json:"key_images_spent"`
	MaxSeq     int64             `json:"max_output_seq"`
	Outs       []string          `json:"outputs"` // per sequence 0..: digest of the stored output, "" = absent
	BlockSeq   string            `json:"block_start_seq"`
	TxIdx      []int64           `json:"tx_index"` // per tracked tx: height it is indexed at, -1 = not indexed
	TxServed   []bool            `json:"tx_served"`
	StatusH    uint64            `json:"status_height"`
	StatusRecs bool              `json:"status_records"` // LoadValidators / LoadConsensusParams of status height+1
	ValPower   int64             `json:"validator_power"`
	CsHeight   uint64            `json:"consensus_height"`
	Panic      string            `json:"panic,omitempty"`
}

type tracked struct {
	addrs  []common.Address
	kimgs  []lkt.Key
	txs    []common.Hash
	nOuts  int // sequences 0..nOuts-1 are inspected
	height uint64
}

func observe(n *node, tr *tracked) (o observation) {
	defer func() {
		if r := recover(); r != nil {
			o.Panic = fmt.Sprintf("%v", r)
		}
	}()
	bs, us := n.env.BS, n.env.US
	o.BsHeight = bs.Height()
	x := o.BsHeight
	blk := bs.LoadBlock(x)
	meta := bs.LoadBlockMeta(x)
	res, rerr := bs.LoadTxsResult(x)
	o.HeadOK = blk != nil && meta != nil && rerr == nil && (x == 0 || bs.LoadSeenCommit(x) != nil)
	if blk != nil {
		o.HeadHash = blk.Hash().Hex()
	}
	if res != nil {
		o.StateHash = res.StateHash.Hex()
	}
	st := n.env.App.GetLatestStateDB()
	o.Bal, o.Nonce = map[string]string{}, map[string]uint64{}
	for _, a := range tr.addrs {
		o.Bal[a.Hex()] = st.GetBalance(a).String()
		o.Nonce[a.Hex()] = st.GetNonce(a)
	}
	for i := 0; i < 2; i++ {
		o.Slots = append(o.Slots, fmt.Sprintf("%x", st.GetState(contractAddr, common.BigToHash(big.NewInt(int64(i))))))
	}
	for i := range tr.kimgs {
		k := tr.kimgs[i]
		o.KimgSpent = append(o.KimgSpent, us.HaveTxKeyimgAsSpent(&k))
	}
	o.MaxSeq = us.GetMaxUtxoOutputSeq(common.EmptyAddress)
	for s := 0; s < tr.nOuts; s++ {
		outs, err := us.GetUtxoOutputs([]uint64{uint64(s)}, common.EmptyAddress)
		if err != nil || len(outs) == 0 || outs[0] == nil {
			o.Outs = append(o.Outs, "")
			continue
		}
		b, _ := json.Marshal(outs[0])
		o.Outs = append(o.Outs, fmt.Sprintf("%x", sha1.Sum(b))[:12])
	}
	if m := us.GetBlockTokenUtxoOutputSeq(tr.height); m != nil {
		var ks []string
		for k, v := range m {
			ks = append(ks, fmt.Sprintf("%s=%d", k, v))
		}
		sort.Strings(ks)
		o.BlockSeq = strings.Join(ks, ",")
	}
	for _, h := range tr.txs {
		tx, e := bs.GetTx(h)
		if e == nil {
			o.TxIdx = append(o.TxIdx, -1)
		} else {
			o.TxIdx = append(o.TxIdx, int64(e.BlockHeight))
		}
		o.TxServed = append(o.TxServed, tx != nil && tx.Hash() == h)
	}
	if s, err := cs.LoadStatus(n.dbs.Status); err == nil {
		o.StatusH = s.LastBlockHeight
		vs, _, e1 := cs.LoadValidators(n.dbs.Status, s.LastBlockHeight+1)
		_, e2 := cs.LoadConsensusParams(n.dbs.Status, s.LastBlockHeight+1)
		o.StatusRecs = e1 == nil && e2 == nil && vs != nil
		if vs != nil && vs.Size() > 0 {
			_, v := vs.GetByIndex(0)
			o.ValPower = v.VotingPower
		}
	}
	if n.cs != nil {
		o.CsHeight = n.cs.GetRoundState().Height
	}
	return
}

// ---- the reference run ----------------------------------------------------------------

type refRun struct {
	sc       scenario
	dir      string
	pv       types.PrivValidator
	changes  map[uint64]int64
	base     dbImage  // all stores when the journal was armed (block h-1 fully committed)
	baseUndo []byte   // kvState.wal at that moment
	walFull  []byte   // the consensus WAL head after the run (crash images take prefixes)
	entries  []jentry // the journal of block h
	endUndo  []byte
	endWal   int64
	tr       *tracked
	before   observation // live node at h-1
	after    observation // live node at h
	coin     *appx.Coin  // the coin block h spends (spend scenarios)
	a1       *appx.Account
	nonce    uint64 // next nonce of a1 after block h
}

func (s scenario) changes() map[uint64]int64 {
	if s.ValChg {
		return map[uint64]int64{targetH: 11}
	}
	return nil
}

func callGas() uint64 { return 200000 }

// buildReference runs the node undisturbed through block h-1 and, journaling, block h.
func buildReference(sc scenario, dir string) (r *refRun, err error) {
	defer func() {
		if p := recover(); p != nil {
			err = fmt.Errorf("reference run panicked: %v", p)
		}
	}()
	r = &refRun{sc: sc, dir: dir, pv: types.NewMockPV(), changes: sc.changes()}
	j := &journal{}
	dbs, jm := newJournaledDBs(dir, j)
	a1, a2, a3, a4 := appx.NewAccount(1), appx.NewAccount(2), appx.NewAccount(3), appx.NewAccount(4)
	r.a1 = a1
	allocs := []appx.Alloc{{Addr: a1.Addr, Balance: appx.LKC(1000)},
		{Addr: contractAddr, Balance: big.NewInt(1), Code: contractCode, Storage: map[common.Hash]common.Hash{common.BigToHash(big.NewInt(0)): common.BigToHash(big.NewInt(1))}}}
	if err := initNode(dbs, sc.IsTrie, r.pv, allocs); err != nil {
		return nil, fmt.Errorf("genesis: %v", err)
	}
	n, err := start(nodeOpts{dbs: dbs, isTrie: sc.IsTrie, pv: r.pv, changes: r.changes, walPath: walHead(dir), j: j})
	if err != nil {
		return nil, fmt.Errorf("first start: %v", err)
	}
	defer n.stop()
	add := func(tx types.Tx) error {
		if err := n.env.MP.AddTx("", tx); err != nil {
			return fmt.Errorf("mempool refused a scenario transaction: %v", err)
		}
		return nil
	}
	nonce := uint64(0)
	// ---- block 1 (undisturbed) ----
	w1, w3 := appx.NewWallet(), appx.NewWallet()
	if err := add(a1.Transfer(nonce, a3.Addr, appx.LKC(1))); err != nil {
		return nil, err
	}
	nonce++
	if err := add(a1.TransferGasLimit(nonce, contractAddr, big.NewInt(0), callGas(), nil)); err != nil {
		return nil, err
	}
	nonce++
	var coins []*appx.Coin
	if sc.Kind == "spend" {
		dep, cc, err := a1.Deposit(nonce, []*appx.Wallet{w1}, []*big.Int{appx.LKC(100)}, appx.DepositFee(appx.LKC(100)))
		if err != nil {
			return nil, err
		}
		if err := add(dep); err != nil {
			return nil, err
		}
		nonce++
		coins = cc
	}
	if err := n.runTo(targetH-1, 400); err != nil {
		return nil, fmt.Errorf("block %d: %v", targetH-1, err)
	}
	// ---- the transactions of block h ----
	r.tr = &tracked{addrs: []common.Address{a1.Addr, a2.Addr, a3.Addr, a4.Addr, contractAddr, cfgpkg.ContractFoundationAddr}, height: targetH}
	var txs []types.Tx
	txs = append(txs, a1.Transfer(nonce, a2.Addr, appx.LKC(5)))
	nonce++
	txs = append(txs, a1.TransferGasLimit(nonce, contractAddr, big.NewInt(0), callGas(), nil))
	nonce++
	nNewOuts := 0
	switch sc.Kind {
	case "deposit":
		dep, _, err := a1.Deposit(nonce, []*appx.Wallet{w3}, []*big.Int{appx.LKC(50)}, appx.DepositFee(appx.LKC(50)))
		if err != nil {
			return nil, err
		}
		nonce++
		txs = append(txs, dep)
		nNewOuts = 1
	case "spend":
		if len(coins) == 0 || !n.env.Locate(coins[0]) {
			return nil, fmt.Errorf("the coin deposited in block 1 cannot be located")
		}
		r.coin = coins[0]
		fee := appx.Fee(n.env.SpendFeeGas(appx.LKC(100)))
		acc := appx.LKC(30)
		rest := new(big.Int).Sub(new(big.Int).Sub(appx.LKC(100), acc), fee)
		sp, _, err := appx.Spend(r.coin, appx.LKC(100), &a4.Addr, acc, w3, rest)
		if err != nil {
			return nil, fmt.Errorf("building the spend: %v", err)
		}
		txs = append(txs, sp)
		for _, in := range sp.Inputs {
			if ui, ok := in.(*types.UTXOInput); ok {
				r.tr.kimgs = append(r.tr.kimgs, ui.KeyImage)
			}
		}
		nNewOuts = 1
	}
	for _, tx := range txs {
		if err := add(tx); err != nil {
			return nil, err
		}
		r.tr.txs = append(r.tr.txs, tx.Hash())
	}
	r.nonce = nonce
	r.tr.nOuts = int(n.env.US.GetMaxUtxoOutputSeq(common.EmptyAddress)+1) + nNewOuts + 1
	r.before = observe(n, r.tr)
	// ---- block h, journaled ----
	r.base = snapshotStores(jm)
	j.undoF = filepath.Join(dir, "kvState.wal")
	j.walF = walHead(dir)
	// everything written so far must be on disk before sizes are taken
	n.wal.Group().Flush()
	r.baseUndo, _ = j.sideFiles()
	j.armed = true
	if err := n.runTo(targetH, 400); err != nil {
		return nil, fmt.Errorf("block %d: %v", targetH, err)
	}
	j.mu.Lock()
	j.armed = false
	r.entries = append([]jentry{}, j.entries...)
	j.mu.Unlock()
	n.wal.Group().Flush()
	r.endUndo, r.endWal = j.sideFiles()
	r.walFull, _ = ioutil.ReadFile(j.walF)
	r.after = observe(n, r.tr)
	blk := n.env.BS.LoadBlock(targetH)
	if blk == nil || int(blk.NumTxs) != len(txs) {
		got := -1
		if blk != nil {
			got = int(blk.NumTxs)
		}
		return nil, fmt.Errorf("block %d holds %d of the %d scenario transactions", targetH, got, len(txs))
	}
	for i := range r.entries {
		r.entries[i].Label = classify(&r.entries[i])
		if r.entries[i].Store == "wal" {
			// what did this flush make durable?
			lo, hi := r.entries[i].WalPre, r.endWal
			if i+1 < len(r.entries) {
				hi = r.entries[i+1].WalPre
			}
			if walHasEndHeight(r.walFull, lo, hi, targetH) {
				r.entries[i].Label = "wal_end"
			}
		}
	}
	return r, nil
}

// walHasEndHeight decodes the WAL bytes [lo,hi) and looks for the end-of-height marker.
func walHasEndHeight(wal []byte, lo, hi int64, h uint64) bool {
	if lo < 0 || hi > int64(len(wal)) || lo >= hi {
		return false
	}
	dec := cs.NewWALDecoder(bytes.NewReader(wal[lo:hi]))
	for {
		m, err := dec.Decode()
		if err != nil || m == nil {
			return false
		}
		if e, ok := m.Msg.(cs.EndHeightMessage); ok && e.Height == h {
			return true
		}
	}
}

// ---- journal entries -> abstract writes of the specification ----------------------------

func hasKeyPrefix(e *jentry, p string) bool {
	for _, o := range e.Ops {
		if bytes.HasPrefix(o.K, []byte(p)) {
			return true
		}
	}
	return false
}

// classify names the write in the vocabulary of spec/Commit (pc labels); "" = a write
// the specification does not distinguish (it cannot change what a reader sees).
func classify(e *jentry) string {
	switch e.Store {
	case "wal":
		return "wal"
	case "state":
		if hasKeyPrefix(e, "kvh") && len(e.Ops) == 1 {
			return "kv_h"
		}
		if len(e.Ops) == 0 {
			return ""
		}
		return "state_batch"
	case "tx":
		if hasKeyPrefix(e, "Tx:") {
			return "txix"
		}
		return ""
	case "block":
		switch {
		case hasKeyPrefix(e, "BR:"):
			return "rcpt"
		case hasKeyPrefix(e, "BTR:"):
			return "tres"
		case hasKeyPrefix(e, "BM:"):
			return "bs_batch"
		case hasKeyPrefix(e, "blockStore"):
			return "bs_desc"
		case e.noop():
			return "bs_flush"
		}
	case "utxoKimg":
		switch {
		case hasKeyPrefix(e, "token_muos_"):
			return "ux_max"
		case hasKeyPrefix(e, "btio_"):
			return "ux_bseq"
		case strings.HasPrefix(e.Kind, "batch"):
			return "ux_kimg"
		}
	case "utxoOut":
		return "ux_outs"
	case "utxoTokenOut":
		return "ux_tok"
	case "status":
		switch {
		case hasKeyPrefix(e, "VALDK:"):
			return "sv_val"
		case hasKeyPrefix(e, "CSPK:"):
			return "sv_par"
		case hasKeyPrefix(e, "statusKey_"):
			if e.Kind == "deletesync" {
				return "sv_del"
			}
			return "sv_byh"
		case hasKeyPrefix(e, "statusKey"):
			return "sv_key"
		}
	}
	return "?" + e.Store
}

// ---- crash images ---------------------------------------------------------------------

type image struct {
	Pick    []int  // journal entries contained, in application order
	Undo    []byte // kvState.wal
	Wal     int64  // durable size of the consensus WAL
	Desc    string
	UndoVar string   // "" | "after-file-write": the undo-log write that precedes the next entry has happened
	Labels  []string // abstract writes done, in order (for the specification)
	Acked   bool     // the EndHeight marker of block h is durable
}

func sideRegion(entries []jentry) (lo, hi int) {
	lo, hi = -1, -1
	for i, e := range entries {
		if e.Label == "rcpt" || e.Label == "tres" || e.Label == "txix" || (e.Store == "tx") {
			if lo < 0 {
				lo = i
			}
			hi = i + 1
		}
	}
	return
}

// abstractLabels turns picked entries (+ the side files) into the label sequence of the model.
func (r *refRun) abstractLabels(pick []int, undo []byte) []string {
	var out []string
	prevUndo := r.baseUndo
	nState := 0
	totalState := 0
	for _, e := range r.entries {
		if e.Label == "state_batch" {
			totalState++
		}
	}
	// the last WAL flush that is not the end-of-height marker carries the node's own precommit
	lastMsg := -1
	for i, e := range r.entries {
		if e.Label == "wal" {
			lastMsg = i
		}
	}
	fileStep := func(before, after []byte) {
		if bytes.Equal(before, after) {
			return
		}
		if len(after) == 0 {
			out = append(out, "kv_trunc")
		} else {
			out = append(out, "kv_undo")
		}
	}
	for _, i := range pick {
		e := r.entries[i]
		fileStep(prevUndo, e.UndoPre)
		prevUndo = e.UndoPre
		switch {
		case e.Label == "wal":
			if i == lastMsg {
				out = append(out, "propose") // the precommit is durable: the decision is in the WAL
			}
		case e.Label == "state_batch":
			nState++
			if r.sc.IsTrie {
				if nState == totalState {
					out = append(out, "tr_root")
				} else {
					out = append(out, "tr_nodes")
				}
			} else {
				out = append(out, "kv_bat")
			}
		case e.Label == "":
		default:
			out = append(out, e.Label)
		}
	}
	fileStep(prevUndo, undo)
	return out
}

func (r *refRun) images() []image {
	n := len(r.entries)
	undoAt := func(k int) []byte { // side files right before entry k is applied
		if k < n {
			return r.entries[k].UndoPre
		}
		return r.endUndo
	}
	walAt := func(k int) int64 {
		if k < n {
			return r.entries[k].WalPre
		}
		return r.endWal
	}
	endIdx := -1
	for i, e := range r.entries {
		if e.Label == "wal_end" {
			endIdx = i
		}
	}
	var out []image
	seq := func(k int) []int {
		p := make([]int, k)
		for i := range p {
			p[i] = i
		}
		return p
	}
	addImg := func(pick []int, k int, desc string) {
		// crash right after the last picked entry ...
		var undoAfter []byte
		if len(pick) > 0 && k > 0 {
			undoAfter = r.entries[k-1].UndoPre // the file as it was when entry k-1 was applied
		} else {
			undoAfter = r.baseUndo
		}
		acked := endIdx >= 0 && k > endIdx
		im := image{Pick: pick, Undo: undoAfter, Wal: walAt(k), Desc: desc, Acked: acked}
		if k > 0 {
			// the WAL flush of entry k-1 is durable only after it: take the size seen by the next entry
			im.Wal = walAt(k)
		}
		im.Labels = r.abstractLabels(pick, im.Undo)
		out = append(out, im)
		// ... and right before the next one, when an undo-log write lies in between
		if ub := undoAt(k); !bytes.Equal(ub, undoAfter) {
			im2 := image{Pick: pick, Undo: ub, Wal: walAt(k), Desc: desc + " + undo-log write", UndoVar: "after-file-write", Acked: acked}
			im2.Labels = r.abstractLabels(pick, im2.Undo)
			out = append(out, im2)
		}
	}
	lo, hi := sideRegion(r.entries)
	for k := 0; k <= n; k++ {
		if lo >= 0 && k > lo && k < hi {
			continue // inside the concurrent section: enumerated as cuts below
		}
		addImg(seq(k), k, fmt.Sprintf("prefix %d/%d", k, n))
		if lo >= 0 && k == lo {
			// every per-goroutine downward closed subset of the section (except none/all)
			var th [3][]int
			for i := lo; i < hi; i++ {
				switch {
				case r.entries[i].Label == "rcpt":
					th[0] = append(th[0], i)
				case r.entries[i].Label == "tres":
					th[1] = append(th[1], i)
				default:
					th[2] = append(th[2], i)
				}
			}
			for a := 0; a <= len(th[0]); a++ {
				for b := 0; b <= len(th[1]); b++ {
					for c := 0; c <= len(th[2]); c++ {
						if a+b+c == 0 || a+b+c == hi-lo {
							continue
						}
						pick := seq(lo)
						pick = append(pick, th[0][:a]...)
						pick = append(pick, th[1][:b]...)
						pick = append(pick, th[2][:c]...)
						im := image{Pick: pick, Undo: undoAt(lo), Wal: walAt(lo), Desc: fmt.Sprintf("prefix %d + cut receipts=%d result=%d txindex=%d", lo, a, b, c)}
						im.Labels = r.abstractLabels(pick, im.Undo)
						out = append(out, im)
					}
				}
			}
		}
	}
	return out
}

// restartOn materialises the image and restarts the node on it (journaling again, so a
// second crash during recovery can be enumerated).
func (r *refRun) restartOn(im image, dir string, j2 *journal) (*node, map[string]*jdb, error) {
	os.MkdirAll(dir, 0755)
	dbm, _ := materialise(r.base, r.entries, im.Pick, dir)
	if j2 != nil {
		for _, d := range dbm {
			d.j = j2
		}
		j2.undoF = filepath.Join(dir, "kvState.wal")
		j2.walF = walHead(dir)
		j2.armed = true
	}
	if err := writeFileOrRemove(filepath.Join(dir, "kvState.wal"), im.Undo); err != nil {
		return nil, nil, err
	}
	w := r.walFull
	if int64(len(w)) > im.Wal {
		w = w[:im.Wal]
	}
	if err := writeFileOrRemove(walHead(dir), w); err != nil {
		return nil, nil, err
	}
	n, err := start(nodeOpts{dbs: dbsOf(dir, dbm), isTrie: r.sc.IsTrie, pv: r.pv, changes: r.changes, walPath: walHead(dir), j: j2})
	return n, dbm, err
}

// ---- the oracle ---------------------------------------------------------------------------

type finding struct {
	Key    string                 `json:"key"`
	Desc   string                 `json:"desc"`
	Record map[string]interface{} `json:"record"`
	Rank   int                    `json:"rank"` // 0 = single crash with its end-to-end consequence, 1 = single crash, 2 = crash during recovery
}

func sameState(a, b *observation) bool {
	return fmt.Sprint(a.Bal) == fmt.Sprint(b.Bal) && fmt.Sprint(a.Nonce) == fmt.Sprint(b.Nonce) && fmt.Sprint(a.Slots) == fmt.Sprint(b.Slots)
}
func sameUtxo(a, b *observation) bool {
	return fmt.Sprint(a.KimgSpent) == fmt.Sprint(b.KimgSpent) && a.MaxSeq == b.MaxSeq && fmt.Sprint(a.Outs) == fmt.Sprint(b.Outs) && a.BlockSeq == b.BlockSeq
}
func sameTx(a, b *observation) bool {
	return fmt.Sprint(a.TxIdx) == fmt.Sprint(b.TxIdx) && fmt.Sprint(a.TxServed) == fmt.Sprint(b.TxServed)
}

// between reports whether every component of o's UTXO view equals the one of lo or of hi.
func utxoBetween(o, lo, hi *observation) bool {
	ok := o.MaxSeq == lo.MaxSeq || o.MaxSeq == hi.MaxSeq
	ok = ok && (o.BlockSeq == lo.BlockSeq || o.BlockSeq == hi.BlockSeq)
	for i := range o.KimgSpent {
		ok = ok && i < len(lo.KimgSpent) && (o.KimgSpent[i] == lo.KimgSpent[i] || o.KimgSpent[i] == hi.KimgSpent[i])
	}
	for i := range o.Outs {
		ok = ok && i < len(lo.Outs) && (o.Outs[i] == lo.Outs[i] || o.Outs[i] == hi.Outs[i])
	}
	return ok
}

// judge applies the property to what a restarted node shows. It returns the findings
// (property-level) — nothing here depends on the specification.
func (r *refRun) judge(o *observation, acked bool) (fs []finding) {
	add := func(key, desc string) {
		fs = append(fs, finding{Key: key, Desc: desc, Record: map[string]interface{}{"observed": o}})
	}
	if o.Panic != "" {
		add("crash/stores-unreadable-after-restart", "reading the stores of the restarted node panicked: "+o.Panic)
		return
	}
	h := uint64(targetH)
	x := o.BsHeight
	if x != h && x != h-1 {
		add("crash/block-store-height", fmt.Sprintf("the restarted block store reports height %d (the crash happened while block %d was committed)", x, h))
		return
	}
	if acked && x < h {
		add("crash/acknowledged-block-lost", fmt.Sprintf("the end-of-height marker of block %d was durable, yet the restarted node stands at height %d", h, x))
	}
	want := &r.before
	other := &r.after
	if x == h {
		want, other = &r.after, &r.before
	}
	if !o.HeadOK || o.HeadHash != want.HeadHash || o.StateHash != want.StateHash {
		add("crash/block-store-head-unreadable", fmt.Sprintf("block store height %d: head block/meta/seen commit/result readable=%v, hash %s (decided block %s)", x, o.HeadOK, o.HeadHash, want.HeadHash))
	}
	if !sameState(o, want) {
		switch {
		case sameState(o, other) && x == h:
			add("crash/state-behind-block-store", fmt.Sprintf("block store at %d, world state is the one of height %d", x, h-1))
		case sameState(o, other):
			add("crash/state-ahead-of-block-store", fmt.Sprintf("block store at %d, world state is the one of height %d", x, h))
		default:
			add("crash/state-half-applied", fmt.Sprintf("block store at %d: the world state is neither the one of height %d nor of %d", x, h-1, h))
		}
	}
	if !sameUtxo(o, want) {
		switch {
		case x == h && utxoBetween(o, &r.before, &r.after):
			add("crash/utxo-store-behind-block-store", fmt.Sprintf("block %d is in the block store but its key images / outputs are (partly) missing from the UTXO store: spent=%v (want %v) maxSeq=%d (want %d) outputs=%v (want %v) blockSeq=%q (want %q)",
				h, o.KimgSpent, want.KimgSpent, o.MaxSeq, want.MaxSeq, o.Outs, want.Outs, o.BlockSeq, want.BlockSeq))
		case x == h-1 && utxoBetween(o, &r.before, &r.after):
			add("crash/utxo-store-ahead-of-block-store", fmt.Sprintf("block store at %d but the UTXO store holds key images / outputs of block %d: spent=%v maxSeq=%d outputs=%v", x, h, o.KimgSpent, o.MaxSeq, o.Outs))
		default:
			add("crash/utxo-store-diverged", fmt.Sprintf("block store at %d: UTXO store matches neither height: spent=%v maxSeq=%d (before %d, after %d) outputs=%v (after %v)", x, o.KimgSpent, o.MaxSeq, r.before.MaxSeq, r.after.MaxSeq, o.Outs, r.after.Outs))
		}
	}
	if !sameTx(o, want) {
		if x == h {
			add("crash/tx-index-behind-block-store", fmt.Sprintf("block %d is stored but its transactions are not all indexed/served: index=%v served=%v", h, o.TxIdx, o.TxServed))
		} else {
			add("crash/tx-index-ahead-of-block-store", fmt.Sprintf("block store at %d but transactions are indexed at %v", x, o.TxIdx))
		}
	}
	if o.StatusH != x || o.CsHeight != x+1 {
		k := "crash/status-behind-block-store"
		if o.StatusH > x {
			k = "crash/status-ahead-of-block-store"
		}
		add(k, fmt.Sprintf("block store at %d, consensus status at %d, consensus works on height %d", x, o.StatusH, o.CsHeight))
	} else if !o.StatusRecs || o.ValPower != want.ValPower {
		add("crash/status-records", fmt.Sprintf("status at %d: validator/parameter records of height %d readable=%v, voting power %d (want %d)", x, x+1, o.StatusRecs, o.ValPower, want.ValPower))
	}
	return
}

// ---- one scenario (runs in a child process) ----------------------------------------------------

type crashJob struct {
	Scenario scenario `json:"scenario"`
	Edges    string   `json:"edges"` // file with the exported model graph ("" = no model comparison)
	Dir      string   `json:"dir"`
	Second   int      `json:"second"`  // every Second-th image also gets second-level crashes during recovery (0 = none)
	Corrupt  bool     `json:"corrupt"` // negative control: damage one expected value of the reference
}

type crashResult struct {
	Scenario   string         `json:"scenario"`
	Entries    int            `json:"entries"`
	Images     int            `json:"images"`
	Distinct   int            `json:"distinct"`
	Restarts   int            `json:"restarts"`
	Second     int            `json:"second_level"`
	Evals      int            `json:"evals"`
	Findings   []finding      `json:"findings"`
	Drift      []string       `json:"drift"`
	ModelSteps int            `json:"model_steps"`
	ModelCmp   int            `json:"model_compared"`
	Journal    []string       `json:"journal"`
	Sample     interface{}    `json:"sample"`
	ByOutcome  map[string]int `json:"by_outcome"`
	Err        string         `json:"err"`
}

func imageKey(r *refRun, im image) string {
	h := sha1.New()
	eff := map[string]string{}
	for _, i := range im.Pick {
		e := r.entries[i]
		for _, o := range e.Ops {
			if len(o.K) == 0 {
				continue
			}
			if o.Del {
				eff[e.Store+"/"+string(o.K)] = "\x00del"
			} else {
				eff[e.Store+"/"+string(o.K)] = string(o.V)
			}
		}
	}
	var ks []string
	for k := range eff {
		ks = append(ks, k)
	}
	sort.Strings(ks)
	for _, k := range ks {
		fmt.Fprintf(h, "%d:%s=%d:%s;", len(k), k, len(eff[k]), eff[k])
	}
	fmt.Fprintf(h, "|undo=%x|wal=%d", sha1.Sum(im.Undo), im.Wal)
	return fmt.Sprintf("%x", h.Sum(nil))
}

func (r *refRun) journalText() (out []string) {
	for i, e := range r.entries {
		var ks []string
		for oi, o := range e.Ops {
			if oi == 3 {
				ks = append(ks, "...")
				break
			}
			k := o.K
			if len(k) > 12 {
				k = k[:12]
			}
			sign := "+"
			if o.Del {
				sign = "-"
			}
			ks = append(ks, fmt.Sprintf("%s%q", sign, k))
		}
		out = append(out, fmt.Sprintf("%d %s.%s[%d] %s -> %s", i, e.Store, e.Kind, len(e.Ops), strings.Join(ks, " "), e.Label))
	}
	return
}

// afterRecovery drives the recovered node on: it must be able to commit further blocks,
// and (spend scenarios) it must refuse a second spend of the coin block h spent.
func (r *refRun) afterRecovery(n *node, o *observation) (fs []finding) {
	a1, a3, a5 := r.a1, appx.NewAccount(3), appx.NewAccount(5)
	// first let the node finish the height it stands in (the WAL catch-up may have left it in
	// the middle of a round, holding the decided block or a proposal of its own)
	if err := n.runTo(n.app.Height()+1, 400); err != nil {
		fs = append(fs, finding{Key: "crash/node-stuck-after-restart", Desc: fmt.Sprintf("the restarted node cannot commit block %d: %v", n.app.Height()+1, err), Record: map[string]interface{}{"observed": o}})
		return
	}
	nonce := n.env.App.GetLatestStateDB().GetNonce(a1.Addr)
	if err := n.env.MP.AddTx("", a1.Transfer(nonce, a3.Addr, appx.LKC(1))); err != nil {
		fs = append(fs, finding{Key: "crash/node-stuck-after-restart", Desc: "the restarted node refuses a valid transfer: " + err.Error(), Record: map[string]interface{}{"observed": o}})
		return
	}
	var dsErr error
	triedDS := false
	// (only where the chain of the restarted node holds the block that spent the coin)
	if b := n.env.BS.LoadBlock(targetH); r.coin != nil && b != nil && b.Hash().Hex() == r.after.HeadHash {
		fee := appx.Fee(n.env.SpendFeeGas(appx.LKC(100)))
		sp, _, err := appx.Spend(r.coin, appx.LKC(100), &a5.Addr, new(big.Int).Sub(appx.LKC(100), fee), nil, nil)
		if err == nil {
			triedDS = true
			dsErr = n.env.MP.AddTx("", sp)
		}
	}
	before := n.env.App.GetLatestStateDB().GetBalance(a3.Addr)
	// the proposal for the next height may have been built before the transfer arrived
	// (during the WAL catch-up): allow a few blocks
	target := n.app.Height()
	executed := false
	for i := 0; i < 3 && !executed; i++ {
		target = n.app.Height() + 1
		if err := n.runTo(target, 400); err != nil {
			fs = append(fs, finding{Key: "crash/node-stuck-after-restart", Desc: fmt.Sprintf("the restarted node cannot commit block %d: %v", target, err), Record: map[string]interface{}{"observed": o}})
			return
		}
		got := new(big.Int).Sub(n.env.App.GetLatestStateDB().GetBalance(a3.Addr), before)
		executed = got.Cmp(appx.LKC(1)) == 0
	}
	st := n.env.App.GetLatestStateDB()
	if !executed {
		fs = append(fs, finding{Key: "crash/node-stuck-after-restart", Desc: fmt.Sprintf("blocks up to %d committed after the restart did not execute the pending transfer", target), Record: map[string]interface{}{"observed": o}})
	}
	if triedDS {
		if paid := st.GetBalance(a5.Addr); paid.Sign() > 0 {
			fs = append(fs, finding{Key: "crash/utxo-store-behind-block-store",
				Desc:   fmt.Sprintf("DOUBLE SPEND: the coin spent in block %d was spent again after the restart: mempool answer %v, block %d paid %v to the second recipient", targetH, dsErr, target, paid),
				Record: map[string]interface{}{"observed": o, "double_spend": map[string]interface{}{"mempool_error": fmt.Sprint(dsErr), "second_recipient": a5.Addr.Hex(), "paid": paid.String(), "in_block": target}}})
		}
	}
	return
}

func runCrashJob(job crashJob) (res crashResult) {
	res.Scenario = job.Scenario.Name
	res.ByOutcome = map[string]int{}
	r, err := buildReference(job.Scenario, filepath.Join(job.Dir, "ref"))
	if err != nil {
		res.Err = err.Error()
		return
	}
	if job.Corrupt {
		// negative control: the expected balance of the sender after block h is off by one
		for k, v := range r.after.Bal {
			b, _ := new(big.Int).SetString(v, 10)
			r.after.Bal[k] = b.Add(b, big.NewInt(1)).String()
			break
		}
	}
	res.Entries = len(r.entries)
	res.Journal = r.journalText()
	for _, e := range r.entries {
		if strings.HasPrefix(e.Label, "?") {
			res.Drift = append(res.Drift, fmt.Sprintf("%s: a write the specification has no name for: %s.%s", job.Scenario.Name, e.Store, e.Kind))
		}
	}
	var m *model
	if job.Edges != "" {
		m, err = loadModel(job.Edges)
		if err != nil {
			res.Err = "model graph: " + err.Error()
			return
		}
	}
	imgs := r.images()
	res.Images = len(imgs)
	seen := map[string]bool{}
	ctlDone := false
	findings := map[string]finding{}
	note := func(f finding, im image) {
		f.Record["scenario"] = job.Scenario
		f.Record["crash_image"] = im.Desc
		f.Record["writes_done"] = im.Labels
		f.Record["reference_before"] = r.before
		f.Record["reference_after"] = r.after
		f.Rank = 1
		if strings.Contains(im.Desc, "second crash") {
			f.Rank = 2
		} else if _, ok := f.Record["double_spend"]; ok {
			f.Rank = 0
		}
		if old, ok := findings[f.Key]; ok {
			// the simplest reproduction wins; the end-to-end consequence joins the observation
			if ds, ok := f.Record["double_spend"]; ok && old.Rank == 1 {
				old.Record["double_spend"] = ds
				old.Desc += " — " + f.Desc
				old.Rank = 0
				findings[f.Key] = old
				return
			}
			if f.Rank >= old.Rank {
				return
			}
		}
		findings[f.Key] = f
	}
	for idx, im := range imgs {
		fmt.Printf("AT %s image %d/%d (%s)\n", job.Scenario.Name, idx, len(imgs), im.Desc)
		k := imageKey(r, im)
		var pred *prediction
		if m != nil {
			p, err := m.predict(job.Scenario, im.Labels)
			res.ModelSteps += len(im.Labels)
			if err != nil {
				res.Drift = append(res.Drift, fmt.Sprintf("%s %s: %v", job.Scenario.Name, im.Desc, err))
			} else {
				pred = p
			}
		}
		if seen[k] {
			// an image with identical store contents was restarted already (the write that
			// separates them cannot change what a reader sees); the model was still consulted
			continue
		}
		seen[k] = true
		res.Distinct++
		dir := filepath.Join(job.Dir, fmt.Sprintf("img%d", idx))
		var j2 *journal
		second := job.Second > 0 && idx%job.Second == 0
		if second {
			j2 = &journal{}
		}
		n, dbm2, err := r.restartOn(im, dir, j2)
		res.Restarts++
		outcome := ""
		if err != nil {
			outcome = "does-not-start"
			note(finding{Key: "crash/node-does-not-restart", Desc: fmt.Sprintf("%s, %s: %v", job.Scenario.Name, im.Desc, err), Record: map[string]interface{}{"error": err.Error()}}, im)
			if pred != nil {
				res.ModelCmp++
				if !pred.Dead {
					res.Drift = append(res.Drift, fmt.Sprintf("%s %s: the node does not start, the specification expects it to", job.Scenario.Name, im.Desc))
				}
			}
		} else {
			o := observe(n, r.tr)
			res.Evals++
			fs := r.judge(&o, im.Acked)
			for _, f := range fs {
				note(f, im)
			}
			outcome = fmt.Sprintf("height-%d", o.BsHeight)
			if len(fs) > 0 {
				outcome += "-inconsistent"
			}
			if pred != nil {
				res.ModelCmp++
				if d := pred.compare(&o, r); d != "" {
					res.Drift = append(res.Drift, fmt.Sprintf("%s %s: %s", job.Scenario.Name, im.Desc, d))
				}
				if !ctlDone {
					// negative control of the model comparison: an altered prediction must be noticed
					ctlDone = true
					bad := *pred
					bad.Txix, bad.StH = !bad.Txix, bad.StH+1
					if bad.compare(&o, r) == "" {
						res.Err = "vacuous binding: an altered prediction of the specification compares equal to the restarted node"
						return
					}
				}
			}
			if res.Sample == nil && len(im.Pick) > 8 {
				res.Sample = map[string]interface{}{"scenario": job.Scenario, "crash_image": im.Desc, "writes_done": im.Labels, "observed_after_restart": o, "acknowledged": im.Acked}
			}
			// second-level crashes: every prefix of what the recovery wrote
			if second && j2 != nil {
				res.Second += r.secondLevel(im, dbm2, j2, n, filepath.Join(job.Dir, fmt.Sprintf("img%d-2", idx)), note, &res)
			}
			for _, f := range r.afterRecovery(n, &o) {
				note(f, im)
			}
			res.Evals++
		}
		res.ByOutcome[outcome]++
		if n != nil {
			n.stop()
		}
		os.RemoveAll(dir)
	}
	var keys []string
	for k := range findings {
		keys = append(keys, k)
	}
	sort.Strings(keys)
	for _, k := range keys {
		res.Findings = append(res.Findings, findings[k])
	}
	return
}

// secondLevel enumerates crashes DURING the recovery of image im: the recovery ran on
// journaling databases (journal j2); for each prefix of j2 a second image is built from
// the first image's content plus that prefix and the node is restarted once more.
func (r *refRun) secondLevel(im image, dbs1 map[string]*jdb, j2 *journal, n1 *node, dir string,
	note func(finding, image), res *crashResult) int {
	j2.mu.Lock()
	entries := append([]jentry{}, j2.entries...)
	j2.mu.Unlock()
	if len(entries) == 0 {
		return 0
	}
	// the first image's content
	base1, _ := materialise(r.base, r.entries, im.Pick, dir)
	baseImg := snapshotStores(base1)
	walNow, _ := ioutil.ReadFile(n1.walPath)
	count := 0
	for k := 1; k < len(entries); k++ {
		pick := make([]int, k)
		for i := range pick {
			pick[i] = i
		}
		d := filepath.Join(dir, fmt.Sprintf("k%d", k))
		os.MkdirAll(d, 0755)
		dbm, _ := materialise(baseImg, entries, pick, d)
		writeFileOrRemove(filepath.Join(d, "kvState.wal"), entries[k].UndoPre)
		w := walNow
		if int64(len(w)) > entries[k].WalPre && entries[k].WalPre > 0 {
			w = w[:entries[k].WalPre]
		}
		writeFileOrRemove(walHead(d), w)
		n, err := start(nodeOpts{dbs: dbsOf(d, dbm), isTrie: r.sc.IsTrie, pv: r.pv, changes: r.changes, walPath: walHead(d)})
		res.Restarts++
		count++
		im2 := im
		im2.Desc = fmt.Sprintf("%s, then a second crash after %d/%d writes of the recovery", im.Desc, k, len(entries))
		im2.Labels = append(append([]string{}, im.Labels...), "crash", "restart")
		for i := 0; i < k; i++ {
			if l := classify(&entries[i]); l != "" {
				im2.Labels = append(im2.Labels, l)
			}
		}
		if err != nil {
			note(finding{Key: "crash/node-does-not-restart", Desc: fmt.Sprintf("%s, %s: %v", r.sc.Name, im2.Desc, err), Record: map[string]interface{}{"error": err.Error()}}, im2)
		} else {
			o := observe(n, r.tr)
			res.Evals++
			acked := im.Acked
			for i := 0; i < k; i++ {
				acked = acked || entries[i].Store == "wal" // the recovery's only WAL flush is the end-of-height marker
			}
			for _, f := range r.judge(&o, acked) {
				note(f, im2)
			}
		}
		if n != nil {
			n.stop()
		}
		os.RemoveAll(d)
	}
	return count
}
