package c13

// A single-validator node made of the REAL parts: the application stack of appx.Boot
// (state, block store, UTXO store, txmgr, LinkApplication, mempool), the real
// consensus.ConsensusState (driven synchronously through hook H1), the real
// BlockExecutor/SaveStatus on the status database and the real file WAL.  start() is
// also the RESTART: it transcribes node.NewNode's sequence with the real functions
// (LoadStatus -> block store / txmgr / UTXO store / NewLinkApplication (which opens the
// flat state with the block-store height and so performs the undo-log roll-back) ->
// "rebuild status" ApplyBlock when the status lags the application by one ->
// NewConsensusState -> WAL catch-up replay of OnStart).

import (
	"fmt"
	"os"
	"path/filepath"

	"github.com/lianxiangcloud/linkchain/app"
	cfg "github.com/lianxiangcloud/linkchain/config"
	cs "github.com/lianxiangcloud/linkchain/consensus"
	cstypes "github.com/lianxiangcloud/linkchain/consensus/types"
	"github.com/lianxiangcloud/linkchain/libs/common"
	dbm "github.com/lianxiangcloud/linkchain/libs/db"
	"github.com/lianxiangcloud/linkchain/libs/log"
	"github.com/lianxiangcloud/linkchain/types"

	"verifh/appx"
)

// valApp is the application as the consensus sees it; it injects validator-set
// changes (a new voting power of the single validator) at chosen heights — without the
// candidate contracts the real application never reports a change.
type valApp struct {
	*app.LinkApplication
	pv      types.PrivValidator
	changes map[uint64]int64 // block height -> voting power from that block on
}

func (a *valApp) valsAt(h uint64) []*types.Validator {
	if p, ok := a.changes[h]; ok {
		return []*types.Validator{types.NewValidator(a.pv.GetPubKey(), common.EmptyAddress, p)}
	}
	return nil
}

func (a *valApp) CommitBlock(b *types.Block, ps *types.PartSet, sc *types.Commit, fs bool) ([]*types.Validator, error) {
	v, err := a.LinkApplication.CommitBlock(b, ps, sc, fs)
	if err != nil {
		return v, err
	}
	if w := a.valsAt(b.Height); w != nil {
		return w, nil
	}
	return v, nil
}

func (a *valApp) GetValidators(h uint64) []*types.Validator {
	if w := a.valsAt(h); w != nil {
		return w
	}
	return a.LinkApplication.GetValidators(h)
}

// jwal is the real WAL; a flush (WriteSync) is a durable write boundary of its own.
type jwal struct {
	cs.WAL
	j *journal
}

func (w *jwal) WriteSync(m cs.WALMessage) {
	if w.j == nil {
		w.WAL.WriteSync(m)
		return
	}
	w.j.log("wal", "walsync", nil, func() { w.WAL.WriteSync(m) })
}

type node struct {
	dbs      *appx.DBs
	isTrie   bool
	env      *appx.Env
	app      *valApp
	cs       *cs.ConsensusState
	wal      cs.WAL
	walPath  string
	be       *cs.BlockExecutor
	pv       types.PrivValidator
	pend     []cs.VerifTimeout
	replayE  error       // error returned by the WAL catch-up (the node logs it and goes on)
	rebuilt  bool        // the "rebuild status" branch ran
	failure  interface{} // first unrecovered failure of the state machine
	bus      *types.EventBus
	stepsRun int
}

type nodeOpts struct {
	dbs     *appx.DBs
	isTrie  bool
	pv      types.PrivValidator
	changes map[uint64]int64
	walPath string
	j       *journal // journal the WAL flushes are appended to (nil: none)
}

func genesisDoc(pv types.PrivValidator) *types.GenesisDoc {
	return &types.GenesisDoc{ChainID: appx.ChainID, ConsensusParams: types.DefaultConsensusParams(),
		Validators: []types.GenesisValidator{{PubKey: pv.GetPubKey(), Power: 10}}}
}

// initNode writes genesis (block 0, state, consensus status) as `init` does.
func initNode(dbs *appx.DBs, isTrie bool, pv types.PrivValidator, allocs []appx.Alloc) error {
	if err := appx.InitGenesis(dbs, isTrie, allocs); err != nil {
		return err
	}
	_, err := cs.CreateStatusFromGenesisDoc(dbs.Status, genesisDoc(pv))
	return err
}

// start boots (or restarts) the node on its databases. Any panic of the code under
// test is returned as an error ("the node does not come up").
func start(o nodeOpts) (n *node, err error) {
	n = &node{dbs: o.dbs, isTrie: o.isTrie, pv: o.pv, walPath: o.walPath}
	defer func() {
		if r := recover(); r != nil {
			err = fmt.Errorf("panic during start: %v", r)
		}
	}()
	// --- node.NewNode, in its order ---
	status, err := cs.LoadStatus(o.dbs.Status)
	if err != nil {
		return n, fmt.Errorf("LoadStatus: %v", err)
	}
	env, err := appx.Boot(o.dbs, o.isTrie, nil)
	if err != nil {
		return n, fmt.Errorf("application boot: %v", err)
	}
	n.env, n.bus = env, env.Bus
	n.app = &valApp{LinkApplication: env.App, pv: o.pv, changes: o.changes}
	n.be = cs.NewBlockExecutor(o.dbs.Status, log.NewNopLogger(), cs.MockEvidencePool{})
	appHeight := n.app.Height()
	if status.LastBlockHeight+1 == appHeight {
		// "rebuild status"
		blockMeta := n.app.LoadBlockMeta(appHeight)
		block := n.app.LoadBlock(appHeight)
		if blockMeta == nil || block == nil {
			return n, fmt.Errorf("rebuild status: block %v meta %v", block != nil, blockMeta != nil)
		}
		validators := n.app.GetValidators(appHeight)
		ns, err := n.be.ApplyBlock(status, blockMeta.BlockID, block, validators)
		if err != nil {
			return n, fmt.Errorf("rebuild status: %v", err)
		}
		status = ns.Copy()
		n.rebuilt = true
	}
	conf := cfg.TestConsensusConfig()
	conf.SkipTimeoutCommit = false
	st := cs.NewConsensusState(conf, status.Copy(), n.be, n.app, env.MP, cs.MockEvidencePool{})
	st.SetLogger(log.NewNopLogger())
	st.SetEventBus(env.Bus)
	st.SetPrivValidator(o.pv)
	st.VerifInstall()
	n.cs = st
	// --- ConsensusState.OnStart: open the WAL, catch up ---
	if o.walPath != "" {
		w, err := cs.NewWAL(o.walPath)
		if err != nil {
			return n, fmt.Errorf("open WAL: %v", err)
		}
		w.SetLogger(log.NewNopLogger())
		if err := w.Start(); err != nil {
			return n, fmt.Errorf("start WAL: %v", err)
		}
		n.wal = &jwal{WAL: w, j: o.j}
		st.VerifSetWAL(n.wal)
		rerr, fail := st.VerifCatchupReplay()
		n.replayE = rerr
		if fail != nil {
			return n, fmt.Errorf("panic during WAL catch-up: %v", fail)
		}
	}
	rs := st.GetRoundState()
	// OnStart ends with scheduleRound0; what the replay scheduled is newer than that
	n.pend = append([]cs.VerifTimeout{{Duration: 0, Height: rs.Height, Round: 0, Step: cstypes.RoundStepNewHeight}}, st.VerifScheduled()...)
	return n, nil
}

// stop releases goroutines and files.
func (n *node) stop() {
	defer func() { recover() }()
	if n.wal != nil {
		n.wal.Stop()
		func() { defer func() { recover() }(); n.wal.Group().Head.Close() }()
		n.wal = nil
	}
	if n.env != nil {
		n.env.Stop()
		n.env = nil
	}
}

// runTo drives the consensus until the application reached height h (or nothing moves).
func (n *node) runTo(h uint64, budget int) error {
	for it := 0; it < budget; it++ {
		if n.app.Height() >= h && n.cs.VerifStatus().LastBlockHeight >= h {
			return nil
		}
		moved := false
		for {
			m, f := n.cs.VerifPopInternal()
			if f != nil {
				n.failure = f
				return fmt.Errorf("state machine failure: %v", f)
			}
			if m == nil {
				break
			}
			moved = true
			n.stepsRun++
		}
		n.pend = append(n.pend, n.cs.VerifScheduled()...)
		if moved {
			continue
		}
		if len(n.pend) == 0 {
			return fmt.Errorf("consensus is stuck at %s (application height %d)", n.cs.VerifString(), n.app.Height())
		}
		// the newest timeout first; stale ones are ignored by the state machine
		t := n.pend[len(n.pend)-1]
		n.pend = n.pend[:len(n.pend)-1]
		if f := n.cs.VerifFire(t); f != nil {
			n.failure = f
			return fmt.Errorf("state machine failure: %v", f)
		}
		n.stepsRun++
		n.pend = append(n.pend, n.cs.VerifScheduled()...)
	}
	return fmt.Errorf("consensus did not reach height %d within the step budget (at %s)", h, n.cs.VerifString())
}

func walHead(dir string) string { return filepath.Join(dir, "cs.wal", "wal") }

func newJournaledDBs(dir string, j *journal) (*appx.DBs, map[string]*jdb) {
	os.MkdirAll(dir, 0755)
	m := map[string]*jdb{}
	for _, n := range storeNames {
		m[n] = newJDB(n, dir, j)
	}
	return dbsOf(dir, m), m
}

func dbsOf(dir string, m map[string]*jdb) *appx.DBs {
	var d dbm.DB = m["state"]
	return &appx.DBs{Dir: dir, State: d, Block: m["block"], Tx: m["tx"], Balance: m["balance"],
		UtxoKimg: m["utxoKimg"], UtxoOut: m["utxoOut"], UtxoTokenOut: m["utxoTokenOut"], Status: m["status"]}
}
