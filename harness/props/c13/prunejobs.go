package c13

// The pruning jobs a child process runs: the sweep over (chain length, window) on
// snapshots of a real chain, and the replay of the specification's pruning schedules on
// a live node.

import (
	"fmt"
	"math/rand"
	"os"
	"path/filepath"
	"sort"
)

type combo struct {
	L uint64 `json:"l"` // chain length when the pruning tick happens
	K uint64 `json:"k"` // keep_latest_blocks
}

type sweepJob struct {
	Name          string           `json:"name"`
	Dir           string           `json:"dir"`
	Changes       map[uint64]int64 `json:"changes"` // block height -> new voting power
	MaxLen        uint64           `json:"max_len"`
	Combos        []combo          `json:"combos"`
	SkipUnderflow bool             `json:"skip_underflow"` // chain shorter than the window: already found endless, skip
	SkipAll       uint64           `json:"skip_to"`        // combos before this index were done by an earlier child
}

type sweepResult struct {
	Name     string      `json:"name"`
	Done     int         `json:"done"` // index of the first combo NOT processed
	Ticks    int         `json:"ticks"`
	Checked  int         `json:"checked"` // Load* calls evaluated
	Skipped  int         `json:"skipped"`
	Hung     string      `json:"hung"`
	HungAt   *combo      `json:"hung_at"`
	Findings []finding   `json:"findings"`
	Sample   interface{} `json:"sample"`
	// implementation fingerprint for the specification switches
	SawUnderflowReturn bool   `json:"saw_underflow_return"` // a tick with chain < window returned
	SawWindowKept      bool   `json:"saw_window_kept"`      // a status prune left the window readable
	SawWindowLost      bool   `json:"saw_window_lost"`
	Err                string `json:"err"`
}

func runSweepJob(job sweepJob) (res sweepResult) {
	res.Name = job.Name
	c, err := newChain(filepath.Join(job.Dir, "chain"), job.Changes)
	if err != nil {
		res.Err = err.Error()
		return
	}
	defer c.close()
	for c.height() < job.MaxLen {
		if err := c.grow(); err != nil {
			res.Err = err.Error()
			return
		}
		c.snaps[c.height()] = c.snapshot()
	}
	findings := map[string]finding{}
	note := func(f finding) {
		if _, ok := findings[f.Key]; !ok {
			findings[f.Key] = f
		}
	}
	flush := func() {
		var ks []string
		for k := range findings {
			ks = append(ks, k)
		}
		sort.Strings(ks)
		res.Findings = nil
		for _, k := range ks {
			res.Findings = append(res.Findings, findings[k])
		}
	}
	res.Done = int(job.SkipAll)
	for i := int(job.SkipAll); i < len(job.Combos); i++ {
		cb := job.Combos[i]
		res.Done = i + 1
		if job.SkipUnderflow && cb.L < cb.K {
			res.Skipped++
			continue
		}
		fmt.Printf("AT %s length=%d keep=%d\n", job.Name, cb.L, cb.K)
		dir := filepath.Join(job.Dir, fmt.Sprintf("s%d", i))
		p, _, closeFn, err := openSnapshot(c.snaps[cb.L], dir)
		if err != nil {
			res.Err = err.Error()
			return
		}
		ctx := map[string]interface{}{"chain_length": cb.L, "keep_latest_blocks": cb.K, "validator_changes_at": job.Changes, "backend": "goleveldb"}
		hung, pan := p.tick(cb.K)
		res.Ticks++
		if pan != "" {
			note(finding{Key: "prune/panic", Desc: fmt.Sprintf("chain height %d, keep %d: %s", cb.L, cb.K, pan), Record: map[string]interface{}{"context": ctx}})
		}
		if hung != "" {
			// the call is still running: look at what it has done so far, report, and give up this process
			var views []heightView
			gone := 0
			for h := uint64(1); h <= cb.L; h++ {
				v := viewHeight(p.bs, p.statusDB, h, c.hashOf[h], c.txOf[h])
				views = append(views, v)
				if !v.Block {
					gone++
				}
			}
			key := "prune/block-store-window-underflow"
			if hung != "BlockStore.DeleteHistoricalData" {
				key = "prune/status-loop-endless"
			}
			note(finding{Key: key, Desc: fmt.Sprintf("chain height %d, keep %d: %s does not return: still running after more than %v although %d of the %d blocks (all inside the window) are already deleted", cb.L, cb.K, hung, hangAfter, gone, cb.L),
				Record: map[string]interface{}{"context": ctx, "still_running_after_s": hangAfter.Seconds(), "heights": views}})
			res.Hung, res.HungAt = hung, &cb
			flush()
			return
		}
		if cb.L < cb.K {
			res.SawUnderflowReturn = true
		}
		// a second tick right away (the ticker fires again before a new block arrives)
		if hung2, pan2 := p.tick(cb.K); hung2 != "" || pan2 != "" {
			note(finding{Key: "prune/second-tick", Desc: fmt.Sprintf("chain height %d, keep %d: second tick: hung=%q panic=%q", cb.L, cb.K, hung2, pan2), Record: map[string]interface{}{"context": ctx}})
			if hung2 != "" {
				res.Hung, res.HungAt = hung2, &cb
				flush()
				return
			}
		}
		res.Ticks++
		var views []heightView
		for h := uint64(1); h <= cb.L; h++ {
			views = append(views, viewHeight(p.bs, p.statusDB, h, c.hashOf[h], c.txOf[h]))
			res.Checked += 9
		}
		fs := windowFindings(views, cb.L, cb.K, job.Changes, ctx)
		for _, f := range fs {
			note(f)
		}
		if cb.K >= 1 && cb.L > cb.K+1 {
			lost := false
			for _, f := range fs {
				if f.Key == "prune/status-window" {
					lost = true
				}
			}
			if lost {
				res.SawWindowLost = true
			} else {
				res.SawWindowKept = true
			}
		}
		if res.Sample == nil && cb.K >= 2 && cb.L > cb.K+2 {
			res.Sample = map[string]interface{}{"context": ctx, "after_pruning": views}
		}
		closeFn()
		os.RemoveAll(dir)
	}
	flush()
	return
}

// ---- replay of the specification's pruning schedules on a live node -----------------------------------

type schedule struct {
	Init  int      `json:"init"`
	Steps []string `json:"steps"` // "commit" | "prune"
	edges []int    // model state after each step
	Hangs bool     `json:"hangs"`
}

// schedules enumerates every maximal sequence of commits and pruning ticks the bounded
// specification allows, per initial state.
func (m *model) schedules() (out []schedule) {
	var inits []int
	for i, s := range m.st {
		if s.Mem.Pc == "idle" && s.Mem.CsH == 1 && s.BS.Desc == 0 && s.Hist.Prunes == 0 && !s.Hist.Hung && s.ST.H == 0 {
			if t, ok := m.edge(i, "propose", ""); ok && t != i {
				// an initial state has an empty WAL: it is not the target of any edge into it
				inits = append(inits, i)
			}
		}
	}
	// keep only states nothing leads to
	target := map[int]bool{}
	for _, e := range m.g.Edges {
		target[e.To] = true
	}
	var roots []int
	for _, i := range inits {
		if !target[i] {
			roots = append(roots, i)
		}
	}
	sort.Ints(roots)
	var rec func(init, s int, steps []string, states []int)
	rec = func(init, s int, steps []string, states []int) {
		moved := false
		if t, ok := m.edge(s, "propose", ""); ok {
			t = m.settle(t)
			moved = true
			rec(init, t, append(append([]string{}, steps...), "commit"), append(append([]int{}, states...), t))
		}
		if t, ok := m.edge(s, "prune", ""); ok {
			moved = true
			rec(init, t, append(append([]string{}, steps...), "prune"), append(append([]int{}, states...), t))
		}
		if !moved {
			out = append(out, schedule{Init: init, Steps: steps, edges: states, Hangs: m.st[s].Hist.Hung})
		}
	}
	for _, r := range roots {
		rec(r, r, nil, nil)
	}
	return
}

type liveJob struct {
	Name  string `json:"name"`
	Dir   string `json:"dir"`
	Edges string `json:"edges"`
	Seed  int64  `json:"seed"`
	Count int    `json:"count"` // number of schedules to replay (0 = all)
	Hangs bool   `json:"hangs"` // replay ONE schedule that ends in a call that does not return
	Part  int    `json:"part"`  // this child takes schedules i with i % Parts == Part
	Parts int    `json:"parts"`
	Bad   bool   `json:"bad"` // negative control: one expected record of the specification is altered
}

type liveResult struct {
	Name     string      `json:"name"`
	Total    int         `json:"total"`
	Replayed int         `json:"replayed"`
	Steps    int         `json:"steps"`
	Compared int         `json:"compared"`
	HangSeen bool        `json:"hang_seen"`
	Findings []finding   `json:"findings"`
	Drift    []string    `json:"drift"`
	Sample   interface{} `json:"sample"`
	Err      string      `json:"err"`
}

func recString(r mrec) string {
	switch r.K {
	case "full":
		return "full"
	case "ptr":
		return fmt.Sprintf("ptr:%d", r.P)
	}
	return "none"
}

// compareLive compares the stores of the live node with the model state after a tick.
func compareLive(s *mstate, c *chain, H uint64) (diff []string, views []heightView) {
	for h := uint64(1); h <= H+1; h++ {
		v := viewHeight(c.n.env.BS, c.n.dbs.Status, h, c.hashOf[h], c.txOf[h])
		views = append(views, v)
		ih := int(h)
		if h <= H {
			if v.Part != has(s.BS.Parts, ih) {
				diff = append(diff, fmt.Sprintf("height %d block parts present=%v, specification %v", h, v.Part, has(s.BS.Parts, ih)))
			}
			if v.Meta != has(s.BS.Meta, ih) {
				diff = append(diff, fmt.Sprintf("height %d meta present=%v, specification %v", h, v.Meta, has(s.BS.Meta, ih)))
			}
			if v.Seen != has(s.BS.Seen, ih) {
				diff = append(diff, fmt.Sprintf("height %d seen commit present=%v, specification %v", h, v.Seen, has(s.BS.Seen, ih)))
			}
			if v.Commit != has(s.BS.Bcom, ih) {
				diff = append(diff, fmt.Sprintf("height %d block commit present=%v, specification %v", h, v.Commit, has(s.BS.Bcom, ih)))
			}
			if v.Tx != has(s.BS.Txix, ih) {
				diff = append(diff, fmt.Sprintf("height %d tx index present=%v, specification %v", h, v.Tx, has(s.BS.Txix, ih)))
			}
			if v.Result != has(s.BS.Tres, ih) {
				diff = append(diff, fmt.Sprintf("height %d results present=%v, specification %v", h, v.Result, has(s.BS.Tres, ih)))
			}
		}
		if ih-1 < len(s.ST.Val) {
			if want := recString(s.ST.Val[ih-1]); v.ValRec != want {
				diff = append(diff, fmt.Sprintf("VALDK:%d is %s, specification %s", h, v.ValRec, want))
			}
			if want := recString(s.ST.Parm[ih-1]); v.ParRec != want {
				diff = append(diff, fmt.Sprintf("CSPK:%d is %s, specification %s", h, v.ParRec, want))
			}
		}
	}
	if got := marker(c.n.dbs.Block, "BCSDH"); int(got) != s.PR.Bs {
		diff = append(diff, fmt.Sprintf("block store start-delete marker %d, specification %d", got, s.PR.Bs))
	}
	if got := marker(c.n.dbs.Status, "CSSDH"); int(got) != s.PR.St {
		diff = append(diff, fmt.Sprintf("status start-delete marker %d, specification %d", got, s.PR.St))
	}
	return
}

func runLiveJob(job liveJob) (res liveResult) {
	res.Name = job.Name
	m, err := loadModel(job.Edges)
	if err != nil {
		res.Err = err.Error()
		return
	}
	all := m.schedules()
	res.Total = len(all)
	var sel []schedule
	if job.Hangs {
		for _, s := range all {
			if s.Hangs {
				sel = append(sel, s)
				break
			}
		}
	} else {
		var ok []schedule
		for _, s := range all {
			if !s.Hangs {
				ok = append(ok, s)
			}
		}
		rng := rand.New(rand.NewSource(job.Seed))
		rng.Shuffle(len(ok), func(i, j int) { ok[i], ok[j] = ok[j], ok[i] })
		// every initial state (window, change pattern) first, then the rest
		seenInit := map[int]int{}
		var first, rest []schedule
		for _, s := range ok {
			if seenInit[s.Init] < 1 {
				first = append(first, s)
			} else {
				rest = append(rest, s)
			}
			seenInit[s.Init]++
		}
		ok = append(first, rest...)
		if job.Count > 0 && len(ok) > job.Count {
			ok = ok[:job.Count]
		}
		for i, s := range ok {
			if job.Parts <= 1 || i%job.Parts == job.Part {
				sel = append(sel, s)
			}
		}
	}
	findings := map[string]finding{}
	for si, sch := range sel {
		init := m.st[sch.Init]
		changes := map[uint64]int64{}
		for i, h := range init.Par.Valchg {
			changes[uint64(h)] = int64(11 + i)
		}
		K := uint64(0)
		if init.Par.Keep >= 0 {
			K = uint64(init.Par.Keep)
		}
		dir := filepath.Join(job.Dir, fmt.Sprintf("live%d", si))
		c, err := newChain(dir, changes)
		if err != nil {
			res.Err = err.Error()
			return
		}
		p := &pruner{bs: c.n.env.BS, cst: c.n.cs, statusDB: c.n.dbs.Status, blockDB: c.n.dbs.Block}
		fmt.Printf("AT %s schedule %d/%d keep=%d changes=%v steps=%v\n", job.Name, si, len(sel), K, init.Par.Valchg, sch.Steps)
		ctx := map[string]interface{}{"keep_latest_blocks": K, "validator_changes_at": init.Par.Valchg, "schedule": sch.Steps, "backend": "goleveldb", "live_node": true}
		abandoned := false
		for i, st := range sch.Steps {
			res.Steps++
			ms := &m.st[sch.edges[i]]
			if st == "commit" {
				if err := c.grow(); err != nil {
					res.Err = fmt.Sprintf("schedule %v: %v", sch.Steps, err)
					c.close()
					return
				}
				continue
			}
			hung, pan := p.tick(K)
			H := c.height()
			if pan != "" {
				findings["prune/panic"] = finding{Key: "prune/panic", Desc: fmt.Sprintf("live node at height %d, keep %d: %s", H, K, pan), Record: map[string]interface{}{"context": ctx}}
			}
			if hung != "" {
				res.HangSeen = true
				if !ms.Hist.Hung {
					res.Drift = append(res.Drift, fmt.Sprintf("schedule %v: %s does not return, the specification expects it to", sch.Steps, hung))
				}
				key := "prune/block-store-window-underflow"
				if hung != "BlockStore.DeleteHistoricalData" {
					key = "prune/status-loop-endless"
				}
				findings[key] = finding{Key: key, Desc: fmt.Sprintf("live node at height %d, keep %d: %s does not return (still running after more than %v with nothing left to delete)", H, K, hung, hangAfter),
					Record: map[string]interface{}{"context": ctx, "still_running_after_s": hangAfter.Seconds()}}
				abandoned = true
				break
			}
			if ms.Hist.Hung {
				res.Drift = append(res.Drift, fmt.Sprintf("schedule %v: the specification expects the tick at height %d not to return, it did", sch.Steps, H))
				abandoned = true
				break
			}
			want := *ms
			if job.Bad && len(want.ST.Val) > 1 {
				// negative control: pretend the specification expects another record
				want.ST.Val = append([]mrec{}, want.ST.Val...)
				want.ST.Val[1] = mrec{K: "ptr", P: 99}
			}
			diff, views := compareLive(&want, c, H)
			res.Compared++
			if len(diff) > 0 {
				res.Drift = append(res.Drift, fmt.Sprintf("schedule %v keep=%d changes=%v, tick at height %d: %v", sch.Steps, K, init.Par.Valchg, H, diff))
			}
			if K >= 1 {
				for _, f := range windowFindings(views, H, K, changes, ctx) {
					if _, ok := findings[f.Key]; !ok {
						findings[f.Key] = f
					}
				}
			}
			if res.Sample == nil && K >= 1 && H >= 3 {
				res.Sample = map[string]interface{}{"context": ctx, "tick_at_height": H, "stores_after_tick": views}
			}
		}
		res.Replayed++
		if abandoned && job.Hangs {
			// the call is still running in this process: report and leave
			break
		}
		c.close()
		os.RemoveAll(dir)
	}
	var ks []string
	for k := range findings {
		ks = append(ks, k)
	}
	sort.Strings(ks)
	for _, k := range ks {
		res.Findings = append(res.Findings, findings[k])
	}
	return
}
