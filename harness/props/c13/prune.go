package c13

// Pruning: a real node (application + consensus) grows a chain on GoLevelDB; both
// pruning loops are called the way node.ClearHistoricalData calls them
// (BlockStore.DeleteHistoricalData(K), then ConsensusState.DeleteHistoricalData(K));
// afterwards every Load* the property names is called for the last K heights.
//
// GoLevelDB, not MemDB: MemDB.Load answers (nil, nil) for a missing key where goleveldb
// answers "not found", and consensus.loadStartDeleteHeight depends on the error (a
// backend difference another property excludes).  The calls run in a child process
// under a watchdog: "still running after N seconds" is an observable.

import (
	"encoding/binary"
	"fmt"
	"os"
	"path/filepath"
	"sort"
	"time"

	bc "github.com/lianxiangcloud/linkchain/blockchain"
	cfg "github.com/lianxiangcloud/linkchain/config"
	cs "github.com/lianxiangcloud/linkchain/consensus"
	"github.com/lianxiangcloud/linkchain/libs/common"
	dbm "github.com/lianxiangcloud/linkchain/libs/db"
	"github.com/lianxiangcloud/linkchain/libs/log"
	"github.com/lianxiangcloud/linkchain/libs/ser"
	"github.com/lianxiangcloud/linkchain/libs/txmgr"
	"github.com/lianxiangcloud/linkchain/types"

	"verifh/appx"
)

const (
	hangAfter = 3 * time.Second
	hardLimit = 90 * time.Second
)

// ---- a chain on goleveldb --------------------------------------------------------------

type chain struct {
	dir     string
	n       *node
	pv      types.PrivValidator
	changes map[uint64]int64
	a1      *appx.Account
	nonce   uint64
	txOf    map[uint64]common.Hash // height -> the transfer it holds
	hashOf  map[uint64]common.Hash
	power   map[uint64]int64 // height -> voting power of the validator set that decides it
	snaps   map[uint64]dbImage
	closers []dbm.DB
}

func levelDB(name, dir string) dbm.DB { return dbm.NewDB(name, dbm.GoLevelDBBackend, dir, 0) }

func newChain(dir string, changes map[uint64]int64) (c *chain, err error) {
	defer func() {
		if r := recover(); r != nil {
			err = fmt.Errorf("chain setup panicked: %v", r)
		}
	}()
	os.MkdirAll(dir, 0755)
	c = &chain{dir: dir, pv: types.NewMockPV(), changes: changes, a1: appx.NewAccount(1), txOf: map[uint64]common.Hash{},
		hashOf: map[uint64]common.Hash{}, power: map[uint64]int64{}, snaps: map[uint64]dbImage{}}
	d := appx.NewMemDBs(filepath.Join(dir, "mem"))
	// the three pruned stores live on goleveldb
	d.Block, d.Tx, d.Status = levelDB("blockstore", dir), levelDB("txmgr", dir), levelDB("consensus_state", dir)
	c.closers = []dbm.DB{d.Block, d.Tx, d.Status}
	if err := initNode(d, true, c.pv, []appx.Alloc{{Addr: c.a1.Addr, Balance: appx.LKC(100000)}}); err != nil {
		return nil, err
	}
	c.n, err = start(nodeOpts{dbs: d, isTrie: true, pv: c.pv, changes: changes})
	return c, err
}

func (c *chain) close() {
	if c.n != nil {
		c.n.stop()
	}
	for _, d := range c.closers {
		func() { defer func() { recover() }(); d.Close() }()
	}
}

func (c *chain) height() uint64 { return c.n.app.Height() }

// grow commits one more block (holding one transfer) through the real consensus.
func (c *chain) grow() error {
	h := c.height() + 1
	tx := c.a1.Transfer(c.nonce, appx.NewAccount(int64(100+h%7)).Addr, appx.LKC(1))
	if err := c.n.env.MP.AddTx("", tx); err != nil {
		return fmt.Errorf("height %d: mempool: %v", h, err)
	}
	c.nonce++
	if err := c.n.runTo(h, 400); err != nil {
		return err
	}
	b := c.n.env.BS.LoadBlock(h)
	if b == nil || b.NumTxs != 1 {
		return fmt.Errorf("height %d: block does not hold the transfer", h)
	}
	c.txOf[h] = tx.Hash()
	c.hashOf[h] = b.Hash()
	return nil
}

// expected voting power of the validator set in force at height h
func powerAt(changes map[uint64]int64, h uint64) int64 {
	p := int64(10)
	var hs []uint64
	for x := range changes {
		hs = append(hs, x)
	}
	sort.Slice(hs, func(i, j int) bool { return hs[i] < hs[j] })
	for _, x := range hs {
		if x+1 <= h { // a change reported by block x takes effect at x+1
			p = changes[x]
		}
	}
	return p
}

func snapshotDB(db dbm.DB) map[string][]byte {
	m := map[string][]byte{}
	it := db.Iterator([]byte{}, nil)
	for ; it.Valid(); it.Next() {
		m[string(it.Key())] = append([]byte{}, it.Value()...)
	}
	it.Close()
	return m
}

func (c *chain) snapshot() dbImage {
	return dbImage{"block": snapshotDB(c.n.dbs.Block), "tx": snapshotDB(c.n.dbs.Tx), "status": snapshotDB(c.n.dbs.Status)}
}

// ---- the two calls, under a watchdog ------------------------------------------------------------

type pruner struct {
	bs       *bc.BlockStore
	cst      *cs.ConsensusState
	statusDB dbm.DB
	blockDB  dbm.DB
}

// tick is one iteration of node.ClearHistoricalData. It reports which call (if any) does
// not return. Wall-clock time alone is not the criterion (a loaded machine deletes
// slowly): a call counts as not returning when it is still running after hangAfter AND
// has provably left the chain behind (every block / every record up to the current
// height is already gone, so nothing is left for it to do), or after hardLimit.
func (p *pruner) tick(k uint64) (hung string, panicked string) {
	run := func(name string, f func(), beyond func() bool) bool {
		done := make(chan string, 1)
		go func() {
			defer func() {
				if r := recover(); r != nil {
					done <- fmt.Sprintf("%v", r)
					return
				}
				done <- ""
			}()
			f()
		}()
		finished := func(e string) bool {
			if e != "" {
				panicked = name + ": " + e
			}
			return true
		}
		t := time.NewTimer(hangAfter)
		defer t.Stop()
		limit := time.After(hardLimit)
		for {
			select {
			case e := <-done:
				return finished(e)
			case <-t.C:
				if func() (b bool) { defer func() { recover() }(); return beyond() }() {
					// grace: the call may be about to return
					select {
					case e := <-done:
						return finished(e)
					case <-time.After(time.Second):
					}
					hung = name
					return false
				}
				t.Reset(time.Second)
			case <-limit:
				hung = name
				return false
			}
		}
	}
	bsBeyond := func() bool {
		for h := uint64(1); h <= p.bs.Height(); h++ {
			if p.bs.LoadBlockPart(h, 0) != nil {
				return false
			}
		}
		return true
	}
	stBeyond := func() bool {
		top := p.cst.GetRoundState().Height
		for h := uint64(1); h <= top; h++ {
			if len(p.statusDB.Get([]byte(fmt.Sprintf("VALDK:%d", h)))) != 0 {
				return false
			}
		}
		return true
	}
	if !run("BlockStore.DeleteHistoricalData", func() { p.bs.DeleteHistoricalData(k) }, bsBeyond) || panicked != "" {
		return
	}
	run("ConsensusState.DeleteHistoricalData", func() { p.cst.DeleteHistoricalData(k) }, stBeyond)
	return
}

// bsApp lets a ConsensusState be built over a bare block store (only what
// NewConsensusState / reconstructLastCommit need).
type bsApp struct{ bs *bc.BlockStore }

func (a bsApp) Height() uint64                                       { return a.bs.Height() }
func (a bsApp) LoadBlockMeta(h uint64) *types.BlockMeta              { return a.bs.LoadBlockMeta(h) }
func (a bsApp) LoadBlock(h uint64) *types.Block                      { return a.bs.LoadBlock(h) }
func (a bsApp) LoadBlockPart(h uint64, i int) *types.Part            { return a.bs.LoadBlockPart(h, i) }
func (a bsApp) LoadBlockCommit(h uint64) *types.Commit               { return a.bs.LoadBlockCommit(h) }
func (a bsApp) LoadSeenCommit(h uint64) *types.Commit                { return a.bs.LoadSeenCommit(h) }
func (a bsApp) GetValidators(h uint64) []*types.Validator            { return nil }
func (a bsApp) GetRecoverValidators(uint64) []*types.Validator       { return nil }
func (a bsApp) CreateBlock(uint64, int, uint64, uint64) *types.Block { return nil }
func (a bsApp) PreRunBlock(*types.Block)                             {}
func (a bsApp) CheckBlock(*types.Block) bool                         { return false }
func (a bsApp) CommitBlock(*types.Block, *types.PartSet, *types.Commit, bool) ([]*types.Validator, error) {
	return nil, fmt.Errorf("not an application")
}
func (a bsApp) SetLastChangedVals(uint64, []*types.Validator) {}

// openSnapshot writes a snapshot to fresh goleveldb directories and builds the objects a
// freshly started node would prune with.
func openSnapshot(img dbImage, dir string) (p *pruner, cross *txmgr.Service, closeFn func(), err error) {
	defer func() {
		if r := recover(); r != nil {
			err = fmt.Errorf("opening the snapshot panicked: %v", r)
		}
	}()
	os.MkdirAll(dir, 0755)
	open := func(name string) dbm.DB {
		d := levelDB(name, dir)
		b := d.NewBatch()
		for k, v := range img[name] {
			b.Set([]byte(k), v)
		}
		b.Write()
		return d
	}
	blockDB, txDB, statusDB := open("block"), open("tx"), open("status")
	closeFn = func() { blockDB.Close(); txDB.Close(); statusDB.Close() }
	bs := bc.NewBlockStore(blockDB)
	cross = txmgr.NewCrossState(txDB, bs)
	bs.SetCrossState(cross)
	status, err := cs.LoadStatus(statusDB)
	if err != nil {
		return nil, nil, closeFn, err
	}
	be := cs.NewBlockExecutor(statusDB, log.NewNopLogger(), cs.MockEvidencePool{})
	conf := cfg.TestConsensusConfig()
	st := cs.NewConsensusState(conf, status, be, bsApp{bs}, cs.MockMempool{}, cs.MockEvidencePool{})
	st.SetLogger(log.NewNopLogger())
	return &pruner{bs: bs, cst: st, statusDB: statusDB, blockDB: blockDB}, cross, closeFn, nil
}

// ---- what is left after pruning ---------------------------------------------------------------------

// heightView is what the stores answer about one height.
type heightView struct {
	H      uint64 `json:"h"`
	Block  bool   `json:"block"`  // LoadBlock returns the decided block
	Meta   bool   `json:"meta"`   // LoadBlockMeta
	Part   bool   `json:"part"`   // LoadBlockPart(h, 0)
	Seen   bool   `json:"seen"`   // LoadSeenCommit
	Commit bool   `json:"commit"` // LoadBlockCommit (stored with block h+1)
	Result bool   `json:"result"` // LoadTxsResult
	Tx     bool   `json:"tx"`     // GetTx(hash of the block's transfer) serves the transaction
	Vals   string `json:"vals"`   // "ok" | error | panic of LoadValidators
	Power  int64  `json:"power"`
	Params string `json:"params"`  // "ok" | error | panic of LoadConsensusParams
	ValRec string `json:"val_rec"` // raw record: none | full | ptr:<h>
	ParRec string `json:"par_rec"`
}

func guardStr(f func() error) (s string) {
	defer func() {
		if r := recover(); r != nil {
			s = fmt.Sprintf("panic: %v", r)
			if len(s) > 160 {
				s = s[:160]
			}
		}
	}()
	if err := f(); err != nil {
		return "error: " + err.Error()
	}
	return "ok"
}

func rawRec(db dbm.DB, key string, isVal bool) string {
	buf := db.Get([]byte(key))
	if len(buf) == 0 {
		return "none"
	}
	if isVal {
		v := new(cs.ValidatorsInfo)
		if err := ser.DecodeBytes(buf, v); err != nil {
			return "undecodable"
		}
		if v.ValidatorSet != nil {
			return "full"
		}
		return fmt.Sprintf("ptr:%d", v.LastHeightChanged)
	}
	v := new(cs.ConsensusParamsInfo)
	if err := ser.DecodeBytes(buf, v); err != nil {
		return "undecodable"
	}
	if v.ConsensusParams != (types.ConsensusParams{}) {
		return "full"
	}
	return fmt.Sprintf("ptr:%d", v.LastHeightChanged)
}

func viewHeight(bs *bc.BlockStore, statusDB dbm.DB, h uint64, hash common.Hash, tx common.Hash) (v heightView) {
	v.H = h
	func() {
		defer func() { recover() }()
		b := bs.LoadBlock(h)
		v.Block = b != nil && (hash == common.Hash{} || b.Hash() == hash)
	}()
	func() { defer func() { recover() }(); v.Meta = bs.LoadBlockMeta(h) != nil }()
	func() { defer func() { recover() }(); v.Part = bs.LoadBlockPart(h, 0) != nil }()
	func() { defer func() { recover() }(); v.Seen = bs.LoadSeenCommit(h) != nil }()
	func() { defer func() { recover() }(); v.Commit = bs.LoadBlockCommit(h) != nil }()
	func() { defer func() { recover() }(); _, err := bs.LoadTxsResult(h); v.Result = err == nil }()
	if tx != (common.Hash{}) {
		func() {
			defer func() { recover() }()
			t, e := bs.GetTx(tx)
			v.Tx = t != nil && e != nil && e.BlockHeight == h && t.Hash() == tx
		}()
	}
	v.Vals = guardStr(func() error {
		vs, _, err := cs.LoadValidators(statusDB, h)
		if err == nil && vs != nil && vs.Size() > 0 {
			_, val := vs.GetByIndex(0)
			v.Power = val.VotingPower
		}
		return err
	})
	v.Params = guardStr(func() error { _, err := cs.LoadConsensusParams(statusDB, h); return err })
	v.ValRec = rawRec(statusDB, fmt.Sprintf("VALDK:%d", h), true)
	v.ParRec = rawRec(statusDB, fmt.Sprintf("CSPK:%d", h), false)
	return
}

func marker(db dbm.DB, key string) uint64 {
	b := db.Get([]byte(key))
	if len(b) < 8 {
		return 0
	}
	return binary.BigEndian.Uint64(b)
}

// windowFindings applies "pruning with window K leaves the last K heights servable and
// verifiable" to the views of heights 1..H.
func windowFindings(views []heightView, H, K uint64, changes map[uint64]int64, ctx map[string]interface{}) (fs []finding) {
	for _, v := range views {
		if v.H < 1 || v.H > H || v.H+K <= H {
			continue // not in the window (H-K, H]
		}
		var miss []string
		if !v.Block || !v.Part {
			miss = append(miss, "block")
		}
		if !v.Meta {
			miss = append(miss, "block meta")
		}
		if !v.Seen {
			miss = append(miss, "seen commit")
		}
		if v.H < H && !v.Commit {
			miss = append(miss, "block commit")
		}
		if !v.Result {
			miss = append(miss, "transaction results")
		}
		if !v.Tx {
			miss = append(miss, "transaction index entry")
		}
		if len(miss) > 0 {
			fs = append(fs, finding{Key: "prune/block-store-window", Desc: fmt.Sprintf("chain height %d, keep %d: height %d is inside the retention window but lost: %v", H, K, v.H, miss),
				Record: map[string]interface{}{"context": ctx, "height": v}})
		}
		if v.Vals != "ok" || v.Params != "ok" {
			fs = append(fs, finding{Key: "prune/status-window", Desc: fmt.Sprintf("chain height %d, keep %d: height %d is inside the retention window but LoadValidators says %q and LoadConsensusParams says %q", H, K, v.H, v.Vals, v.Params),
				Record: map[string]interface{}{"context": ctx, "height": v}})
		} else if want := powerAt(changes, v.H); v.Power != want {
			fs = append(fs, finding{Key: "prune/status-window-wrong-set", Desc: fmt.Sprintf("chain height %d, keep %d: LoadValidators(%d) returns a set with voting power %d, the set in force had %d", H, K, v.H, v.Power, want),
				Record: map[string]interface{}{"context": ctx, "height": v}})
		}
	}
	return
}
