package c13

import (
	"fmt"
	"testing"

	"verifh/appx"
	"verifh/env"
)

func TestScratchStuck(t *testing.T) {
	env.GlobalInit()
	sc := scenario{Name: "transfer/trie", IsTrie: true, Kind: "transfer"}
	r, err := buildReference(sc, t.TempDir())
	if err != nil {
		t.Fatal(err)
	}
	imgs := r.images()
	for idx, im := range imgs[:6] {
		n, _, err := r.restartOn(im, t.TempDir(), nil)
		if err != nil {
			t.Fatal(err)
		}
		o := observe(n, r.tr)
		fmt.Println(idx, im.Desc, "labels", im.Labels, "bs", o.BsHeight, "cs", n.cs.VerifString(), "replayErr", n.replayE, "pend", n.pend, "internal", n.cs.VerifInternalLen())
		a1, a3 := r.a1, appx.NewAccount(3)
		nonce := n.env.App.GetLatestStateDB().GetNonce(a1.Addr)
		fmt.Println("  add:", n.env.MP.AddTx("", a1.Transfer(nonce, a3.Addr, appx.LKC(1))), "nonce", nonce)
		for i := 0; i < 3; i++ {
			tgt := n.app.Height() + 1
			err := n.runTo(tgt, 400)
			b := n.env.BS.LoadBlock(n.app.Height())
			fmt.Println("   ran to", tgt, err, "height", n.app.Height(), "numtxs", b.NumTxs, "a3", n.env.App.GetLatestStateDB().GetBalance(a3.Addr), "mp", n.env.MP.GoodTxsSize(), n.cs.VerifString())
		}
		n.stop()
	}
}
