package c13

// `check C13 --replay <file>`: re-executes the case a violation record describes.
// Blocks are not byte-identical between runs (fresh wallet keys, block times), so the
// case is identified the way the record identifies it: the scenario (block kind, storage
// mode, validator change) and the crash class, or the chain length / window / change
// pattern / schedule of a pruning case.

import (
	"encoding/json"
	"fmt"
	"io/ioutil"
	"path/filepath"
	"strings"

	"verifh/core"
)

type replayFile struct {
	Key    string `json:"key"`
	Record struct {
		Scenario   *scenario `json:"scenario"`
		CrashImage string    `json:"crash_image"`
		Context    *struct {
			ChainLength uint64          `json:"chain_length"`
			Keep        uint64          `json:"keep_latest_blocks"`
			Changes     json.RawMessage `json:"validator_changes_at"`
			Schedule    []string        `json:"schedule"`
		} `json:"context"`
	} `json:"record"`
}

func replayMode(c *core.Ctx, r *runner) {
	b, err := ioutil.ReadFile(c.Replay)
	if err != nil {
		c.Infra("replay file: %v", err)
		return
	}
	var rf replayFile
	if err := json.Unmarshal(b, &rf); err != nil {
		c.Infra("replay file %s: %v", c.Replay, err)
		return
	}
	o := c.Out()
	switch {
	case strings.HasPrefix(rf.Key, "crash/") && rf.Record.Scenario != nil:
		second := 0
		if strings.Contains(rf.Record.CrashImage, "second crash") {
			second = 1
		}
		job := crashJob{Scenario: *rf.Record.Scenario, Dir: filepath.Join(r.base, "replay"), Second: second}
		var cr crashResult
		at, crash, ok := r.childRun(childJob{Job: "crash", Crash: &job}, c.MinutesT(5, 20), &cr)
		if !ok || crash != "" || cr.Err != "" {
			c.Infra("replay of %s ended abnormally at %q: %s %s", rf.Key, at, crash, cr.Err)
			return
		}
		o.Traces, o.Evaluations, o.Distinct = cr.Restarts, cr.Evals, cr.Distinct
		for _, f := range cr.Findings {
			if f.Key == rf.Key {
				c.Violate(f.Key, f.Desc, f.Record)
			}
		}
	case strings.HasPrefix(rf.Key, "prune/") && rf.Record.Context != nil:
		ctx := rf.Record.Context
		changes := map[uint64]int64{}
		// the sweep records a map height->power, the live replay a list of heights
		if json.Unmarshal(ctx.Changes, &changes) != nil {
			var hs []uint64
			if json.Unmarshal(ctx.Changes, &hs) == nil {
				for i, h := range hs {
					changes[h] = int64(11 + i)
				}
			}
		}
		var srs []sweepResult
		if len(ctx.Schedule) > 0 {
			var sr sweepResult
			job := scheduleJob{Dir: filepath.Join(r.base, "replay"), Changes: changes, Keep: ctx.Keep, Steps: ctx.Schedule}
			at, crash, ok := r.childRun(childJob{Job: "schedule", Sched: &job}, c.MinutesT(3, 5), &sr)
			if !ok || crash != "" || sr.Err != "" {
				c.Infra("replay of %s ended abnormally at %q: %s %s", rf.Key, at, crash, sr.Err)
				return
			}
			srs = []sweepResult{sr}
		} else {
			job := sweepJob{Name: "replay", Dir: filepath.Join(r.base, "replay"), Changes: changes, MaxLen: ctx.ChainLength, Combos: []combo{{L: ctx.ChainLength, K: ctx.Keep}}}
			var sr sweepResult
			at, crash, ok := r.childRun(childJob{Job: "sweep", Sweep: &job}, c.MinutesT(3, 5), &sr)
			if !ok || crash != "" || sr.Err != "" {
				c.Infra("replay of %s ended abnormally at %q: %s %s", rf.Key, at, crash, sr.Err)
				return
			}
			srs = []sweepResult{sr}
		}
		for _, sr := range srs {
			o.Traces += sr.Ticks
			o.Evaluations += sr.Checked
			o.Distinct += sr.Ticks
			for _, f := range sr.Findings {
				if f.Key == rf.Key {
					c.Violate(f.Key, f.Desc, f.Record)
				}
			}
		}
	default:
		c.Infra("replay file %s: nothing to re-execute for key %q", c.Replay, rf.Key)
		return
	}
	o.Rule = fmt.Sprintf("replay of %s", rf.Key)
}

// scheduleJob: a fixed sequence of commits and pruning ticks on a live node.
type scheduleJob struct {
	Dir     string           `json:"dir"`
	Changes map[uint64]int64 `json:"changes"`
	Keep    uint64           `json:"keep"`
	Steps   []string         `json:"steps"`
}

func runScheduleJob(job scheduleJob) (res sweepResult) {
	res.Name = "schedule"
	c, err := newChain(filepath.Join(job.Dir, "chain"), job.Changes)
	if err != nil {
		res.Err = err.Error()
		return
	}
	p := &pruner{bs: c.n.env.BS, cst: c.n.cs, statusDB: c.n.dbs.Status, blockDB: c.n.dbs.Block}
	ctx := map[string]interface{}{"keep_latest_blocks": job.Keep, "validator_changes_at": job.Changes, "schedule": job.Steps, "backend": "goleveldb", "live_node": true}
	seen := map[string]bool{}
	for _, st := range job.Steps {
		if st == "commit" {
			if err := c.grow(); err != nil {
				res.Err = err.Error()
				return
			}
			continue
		}
		fmt.Printf("AT tick at height %d keep %d\n", c.height(), job.Keep)
		hung, pan := p.tick(job.Keep)
		res.Ticks++
		H := c.height()
		if pan != "" {
			res.Findings = append(res.Findings, finding{Key: "prune/panic", Desc: pan, Record: map[string]interface{}{"context": ctx}})
		}
		if hung != "" {
			key := "prune/block-store-window-underflow"
			if hung != "BlockStore.DeleteHistoricalData" {
				key = "prune/status-loop-endless"
			}
			res.Findings = append(res.Findings, finding{Key: key, Desc: fmt.Sprintf("live node at height %d, keep %d: %s does not return (still running after more than %v with nothing left to delete)", H, job.Keep, hung, hangAfter), Record: map[string]interface{}{"context": ctx}})
			res.Hung = hung
			return
		}
		var views []heightView
		for h := uint64(1); h <= H; h++ {
			views = append(views, viewHeight(c.n.env.BS, c.n.dbs.Status, h, c.hashOf[h], c.txOf[h]))
			res.Checked += 9
		}
		if job.Keep >= 1 {
			for _, f := range windowFindings(views, H, job.Keep, job.Changes, ctx) {
				if !seen[f.Key] {
					seen[f.Key] = true
					res.Findings = append(res.Findings, f)
				}
			}
		}
	}
	c.close()
	return
}
