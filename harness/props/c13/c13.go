package c13

// C13 — committed history survives crashes and pruning.
//
// Model: spec/Commit/Commit.tla. The commit of a decided block is a sequence of
// writes to independent stores (flat state + undo log or trie nodes, block store side
// writes / batch / height descriptor, UTXO store, WAL end-of-height marker, consensus
// status records); Crash at every pc, Restart = node.NewNode's reconciliation + the WAL
// catch-up as coded, Prune = one tick of node.ClearHistoricalData with both loops as
// coded or as repaired. TLC checks ConsistentAfterRecovery / NodeComesUp /
// NothingAckedLost / PruneKeepsWindow and exports the reachable graphs.
//
// Binding (crash part): the REAL node (application stack + ConsensusState + file WAL,
// one validator) commits a decided block on journaling databases (journal.go); for every
// write boundary a crash image is rebuilt and the node is restarted on it with the real
// functions in node.NewNode's order, the WAL catch-up re-running finalizeCommit; the
// observables the property names are compared with the live node's views before and
// after the block (pi_prop) and with the model's prediction for that crash point
// (pi_shape). Binding (pruning part): the model's schedules of commits and pruning ticks
// are replayed on a live node on GoLevelDB and every record the model says is deleted /
// kept is compared; a sweep over chain lengths 1..30 and windows {0,1,2,5,10,100} with
// validator changes applies the property to every Load* of the window.

import (
	"encoding/json"
	"fmt"
	"io/ioutil"
	"os"
	"path/filepath"
	"sort"
	"strings"
	"sync"
	"time"

	"verifh/core"
	"verifh/tlc"
)

func init() { core.Register("C13", run) }

type childJob struct {
	Job   string       `json:"job"`
	Crash *crashJob    `json:"crash,omitempty"`
	Sweep *sweepJob    `json:"sweep,omitempty"`
	Live  *liveJob     `json:"live,omitempty"`
	Sched *scheduleJob `json:"sched,omitempty"`
}

func child(c *core.Ctx) {
	var j childJob
	if err := json.Unmarshal([]byte(c.Child), &j); err != nil {
		fmt.Fprintln(os.Stderr, "bad job:", err)
		os.Exit(3)
	}
	var out interface{}
	switch j.Job {
	case "crash":
		out = runCrashJob(*j.Crash)
	case "sweep":
		out = runSweepJob(*j.Sweep)
	case "live":
		out = runLiveJob(*j.Live)
	case "schedule":
		out = runScheduleJob(*j.Sched)
	default:
		fmt.Fprintln(os.Stderr, "unknown job", j.Job)
		os.Exit(3)
	}
	b, _ := json.Marshal(out)
	fmt.Printf("RESULT %s\nDONE\n", b)
}

func cfgText(flats, confs, valchgs, keeps string, maxH, maxCrash, crashFrom, maxPrunes int, recon, guard, window bool, invs string, export bool) []byte {
	b := func(x bool) string {
		if x {
			return "TRUE"
		}
		return "FALSE"
	}
	s := fmt.Sprintf("SPECIFICATION Spec\nCONSTANTS\n  MaxH = %d\n  NBatch = 2\n  Flats <- %s\n  Confs <- %s\n  ValChgs <- %s\n  Keeps <- %s\n  MaxCrash = %d\n  CrashFrom = %d\n  MaxPrunes = %d\n  ReconcileUtxo = %s\n  GuardBsPrune = %s\n  WindowStPrune = %s\nINVARIANTS %s\n",
		maxH, flats, confs, valchgs, keeps, maxCrash, crashFrom, maxPrunes, b(recon), b(guard), b(window), invs)
	if export {
		s += "ACTION_CONSTRAINT Edge\n"
	}
	s += "VIEW View\nCHECK_DEADLOCK FALSE\n"
	return []byte(s)
}

func quickScenarios() []scenario {
	return []scenario{
		{Name: "transfer/trie", IsTrie: true, Kind: "transfer"},
		{Name: "transfer/flat/valchg", IsTrie: false, Kind: "transfer", ValChg: true},
		{Name: "deposit/trie/valchg", IsTrie: true, Kind: "deposit", ValChg: true},
		{Name: "deposit/flat", IsTrie: false, Kind: "deposit"},
		{Name: "spend/trie", IsTrie: true, Kind: "spend"},
		{Name: "spend/flat", IsTrie: false, Kind: "spend"},
	}
}

func allScenarios() (out []scenario) {
	for _, k := range []string{"transfer", "deposit", "spend"} {
		for _, trie := range []bool{true, false} {
			for _, vc := range []bool{false, true} {
				n := k + map[bool]string{true: "/trie", false: "/flat"}[trie] + map[bool]string{true: "/valchg", false: ""}[vc]
				out = append(out, scenario{Name: n, IsTrie: trie, Kind: k, ValChg: vc})
			}
		}
	}
	return
}

type runner struct {
	c     *core.Ctx
	base  string
	mu    sync.Mutex
	drift int
	cmp   int
}

func (r *runner) childRun(j childJob, timeout time.Duration, into interface{}) (at, crash string, ok bool) {
	arg, _ := json.Marshal(j)
	results, at, crash := r.c.RunChild(string(arg), timeout)
	if len(results) > 0 {
		if err := json.Unmarshal([]byte(results[len(results)-1]), into); err == nil {
			ok = true
		}
	}
	return at, crash, ok
}

func (r *runner) violate(fs []finding) {
	for _, f := range fs {
		r.c.Violate(f.Key, f.Desc, f.Record)
	}
}

func (r *runner) addDrift(ds []string) {
	r.mu.Lock()
	r.drift += len(ds)
	r.mu.Unlock()
	for _, d := range ds {
		r.c.Drift("%s", d)
	}
}

func writeLines(path string, lines []string) error {
	return ioutil.WriteFile(path, []byte(strings.Join(lines, "\n")), 0644)
}

func run(c *core.Ctx) {
	if c.Child != "" {
		child(c)
		return
	}
	o := c.Out()
	o.Level = "model_checking"
	o.Rule = "crash part: behaviour = (block kind, storage mode, validator change) x crash image (journal prefix, cut of the concurrent SaveBlock section, side of an undo-log write, optionally a second crash during recovery) restarted on the real node; distinct = images with distinct store contents; pruning part: behaviour = a schedule of commits and pruning ticks of the bounded specification replayed on a live GoLevelDB node, or one (chain length, window, change pattern) of the sweep"
	o.Assumptions = []string{
		"process-crash model: a write that returned is durable, writes of one store and of different stores become durable in program order (power loss reordering unsynced writes is not modelled)",
		"one validator, ring size 1, native coin only (the UTXO token-output database sees empty batches only)",
		"every database answers like a MemDB except Load/Exist of a missing key, which answer like goleveldb; pruning runs on real GoLevelDB",
		"restart = the harness's transcription of node.NewNode (LoadStatus, block store, txmgr, UTXO store, NewLinkApplication, rebuild-status ApplyBlock, NewConsensusState, WAL catch-up) with the real functions; node.NewNode itself (p2p listener) is not executed",
		"balance-record store disabled (the default), evidence pool mocked",
	}
	o.Trusted = []string{"TLC", "libxcrypto stand-in (xmodel)", "journaldb (harness)", "goleveldb"}
	base, err := ioutil.TempDir("", "vc13")
	if err != nil {
		c.Infra("tempdir: %v", err)
		return
	}
	defer os.RemoveAll(base)
	r := &runner{c: c, base: base}
	if c.Replay != "" {
		replayMode(c, r)
		return
	}
	spec := c.SpecDir("Commit")
	thorough := c.Thorough()

	var wg sync.WaitGroup
	sem := make(chan struct{}, 10)
	goRun := func(f func()) {
		wg.Add(1)
		go func() {
			defer wg.Done()
			f()
		}()
	}
	tlcRun := func(cfg string, files map[string][]byte, minutes int) *tlc.Result {
		workers := 1
		if thorough && files == nil && cfg != "CrashExport.cfg" {
			workers = 4 // the large instances only check invariants (no edge export, which needs one worker)
		}
		return c.TLC(tlc.Options{SpecDir: spec, Module: "MCCommit", Config: cfg, Workers: workers, Timeout: time.Duration(minutes) * time.Minute, Files: files, HeapMB: 8192})
	}

	// ---- model checks that do not feed the replay ----------------------------------------------
	var leadCrash, leadPrune string
	var designOK = map[string]string{}
	var dmu sync.Mutex
	goRun(func() {
		cfg := "CrashCoded.cfg"
		if thorough {
			cfg = "CrashCodedBig.cfg"
		}
		if res := tlcRun(cfg, nil, c.Pick(8, 28)); res != nil {
			dmu.Lock()
			leadCrash = res.Violated
			dmu.Unlock()
			if res.Violated == "" && !res.Finished {
				c.Infra("Commit/%s did not finish: %s", cfg, res.Describe())
			}
		}
	})
	holdCheck := func(cfg string) {
		if thorough {
			cfg = strings.Replace(cfg, ".cfg", "Big.cfg", 1)
		}
		goRun(func() {
			res := tlcRun(cfg, nil, c.Pick(8, 28))
			if res == nil {
				return
			}
			dmu.Lock()
			designOK[cfg] = res.Describe()
			dmu.Unlock()
			if res.Violated != "" || !res.Finished {
				// these instances state what the design (or the code, for the safe subset of the
				// invariants) guarantees: a counterexample means the specification is wrong
				c.Infra("Commit/%s: expected to hold, TLC says: %s\n%s", cfg, res.Describe(), res.Tail)
			}
		})
	}
	holdCheck("CrashDesigned.cfg")
	if thorough {
		// (quick tier: the exported instance CrashExport carries these invariants for one crash)
		holdCheck("CrashCodedSafe.cfg")
	}

	// ---- crash part --------------------------------------------------------------------------------
	var crashResults []crashResult
	var cmu sync.Mutex
	goRun(func() {
		res := tlcRun("CrashExport.cfg", nil, c.Pick(8, 25))
		if res == nil {
			return
		}
		if res.Violated != "" || !res.Finished {
			c.Infra("Commit/CrashExport: %s\n%s", res.Describe(), res.Tail)
			return
		}
		edges := filepath.Join(base, "crash_edges.ndjson")
		if err := writeLines(edges, res.Lines); err != nil {
			c.Infra("write edges: %v", err)
			return
		}
		m, err := parseModel(res.Lines)
		if err != nil {
			c.Infra("crash graph: %v", err)
			return
		}
		c.SetExtra("crash_model_states", len(m.g.States))
		c.SetExtra("crash_model_edges", len(m.g.Edges))
		scs := quickScenarios()
		second := 6
		if thorough {
			scs = allScenarios()
			second = 1
		}
		var w2 sync.WaitGroup
		for i, sc := range scs {
			w2.Add(1)
			go func(i int, sc scenario) {
				defer w2.Done()
				sem <- struct{}{}
				defer func() { <-sem }()
				job := crashJob{Scenario: sc, Edges: edges, Dir: filepath.Join(base, fmt.Sprintf("crash%d", i)), Second: second}
				var cr crashResult
				at, crash, ok := r.childRun(childJob{Job: "crash", Crash: &job}, c.MinutesT(3, 20), &cr)
				if crash != "" || !ok {
					// the process died outside the guarded restart: a failure of the harness or of the reference run
					c.Infra("crash job %s ended abnormally at %q: %s", sc.Name, at, crash)
					return
				}
				if cr.Err != "" {
					c.Infra("crash job %s: %s", sc.Name, cr.Err)
					return
				}
				cmu.Lock()
				crashResults = append(crashResults, cr)
				cmu.Unlock()
			}(i, sc)
		}
		// negative control of the binding: a reference whose expected balance is off by one must be refused
		w2.Add(1)
		go func() {
			defer w2.Done()
			sem <- struct{}{}
			defer func() { <-sem }()
			job := crashJob{Scenario: scenario{Name: "control/transfer/trie", IsTrie: true, Kind: "transfer"}, Dir: filepath.Join(base, "crashctl"), Corrupt: true}
			var cr crashResult
			_, crash, ok := r.childRun(childJob{Job: "crash", Crash: &job}, c.MinutesT(3, 10), &cr)
			if crash != "" || !ok || cr.Err != "" {
				c.Infra("negative control (crash part) did not run: %s %s", crash, cr.Err)
				return
			}
			rejected := false
			for _, f := range cr.Findings {
				if strings.HasPrefix(f.Key, "crash/state-") {
					rejected = true
				}
			}
			if !rejected {
				c.Infra("vacuous binding: a reference with a corrupted expected balance was accepted by the crash oracle")
			}
			c.SetExtra("negative_control_crash", fmt.Sprintf("corrupted expected balance -> %d findings (rejected=%v)", len(cr.Findings), rejected))
		}()
		w2.Wait()
	})

	// ---- pruning part ---------------------------------------------------------------------------------
	var sweepResults []sweepResult
	var liveResults []liveResult
	var pmu sync.Mutex
	guardFixed, windowFixed := false, false
	runSweep := func(job sweepJob) (out []sweepResult) {
		// a child that meets a call that does not return reports and dies; the rest of its
		// combinations go to a new child that skips that class
		for round := 0; round < 4; round++ {
			var sr sweepResult
			at, crash, ok := r.childRun(childJob{Job: "sweep", Sweep: &job}, c.MinutesT(4, 20), &sr)
			if !ok || crash != "" {
				c.Infra("pruning sweep %s ended abnormally at %q: %s", job.Name, at, crash)
				return
			}
			if sr.Err != "" {
				c.Infra("pruning sweep %s: %s", job.Name, sr.Err)
				return
			}
			out = append(out, sr)
			if sr.Hung == "" || sr.Done >= len(job.Combos) {
				return
			}
			job.SkipAll = uint64(sr.Done)
			if sr.HungAt != nil && sr.HungAt.L < sr.HungAt.K {
				job.SkipUnderflow = true
			} else {
				c.Infra("pruning sweep %s: a pruning call did not return for chain length %d, keep %d (not the underflow class): stopping the sweep", job.Name, sr.HungAt.L, sr.HungAt.K)
				return
			}
			job.Dir = job.Dir + "r"
		}
		return
	}
	goRun(func() {
		// 1. fingerprint of the implementation (which of the two loops is repaired), itself a check
		probe := sweepJob{Name: "probe", Dir: filepath.Join(base, "probe"), Changes: map[uint64]int64{2: 11}, MaxLen: 6,
			Combos: []combo{{L: 6, K: 2}, {L: 5, K: 3}, {L: 3, K: 5}}}
		prs := runSweep(probe)
		if len(prs) == 0 {
			return
		}
		pmu.Lock()
		sweepResults = append(sweepResults, prs...)
		pmu.Unlock()
		for _, p := range prs {
			if p.SawUnderflowReturn {
				guardFixed = true
			}
			if p.SawWindowKept && !p.SawWindowLost {
				windowFixed = true
			}
		}
		c.SetExtra("implementation_fingerprint", map[string]bool{"block_store_prune_guards_underflow": guardFixed, "status_prune_respects_window": windowFixed})
		if !(guardFixed && windowFixed) || thorough {
			// the repaired loops satisfy the property in the model (on a repaired tree the
			// fingerprinted instance below is this very instance)
			holdCheck("PruneFixed.cfg")
		}
		// 2. the model with the matching switches: check + export
		maxH, keeps, vch, maxPr := 5, "KeepsSmall", "ValChgsPrune", 2
		if thorough {
			maxH, keeps, vch, maxPr = 6, "KeepsBig", "ValChgsPruneBig", 2
		}
		var w3 sync.WaitGroup
		w3.Add(1)
		go func() {
			defer w3.Done()
			files := map[string][]byte{"PruneCheckGen.cfg": cfgText("TrieOnly", "NoConf", vch, keeps, maxH, 0, 1, maxPr, false, guardFixed, windowFixed, "TypeOK PruneKeepsWindow", false)}
			if res := tlcRun("PruneCheckGen.cfg", files, c.Pick(8, 25)); res != nil {
				dmu.Lock()
				leadPrune = res.Violated
				dmu.Unlock()
				if res.Violated == "" && !res.Finished {
					c.Infra("Commit/PruneCheckGen did not finish: %s", res.Describe())
				}
				if guardFixed && windowFixed && res.Violated != "" {
					c.Infra("Commit/PruneCheckGen: the repaired loops violate %s in the model\n%s", res.Violated, res.Tail)
				}
			}
		}()
		files := map[string][]byte{"PruneExportGen.cfg": cfgText("TrieOnly", "NoConf", vch, keeps, maxH, 0, 1, maxPr, false, guardFixed, windowFixed, "TypeOK", true)}
		res := tlcRun("PruneExportGen.cfg", files, c.Pick(8, 25))
		if res == nil {
			w3.Wait()
			return
		}
		if res.Violated != "" || !res.Finished {
			c.Infra("Commit/PruneExportGen: %s\n%s", res.Describe(), res.Tail)
			w3.Wait()
			return
		}
		edges := filepath.Join(base, "prune_edges.ndjson")
		if err := writeLines(edges, res.Lines); err != nil {
			c.Infra("write edges: %v", err)
			return
		}
		m, err := parseModel(res.Lines)
		if err != nil {
			c.Infra("prune graph: %v", err)
			return
		}
		all := m.schedules()
		nh := 0
		for _, s := range all {
			if s.Hangs {
				nh++
			}
		}
		c.SetExtra("prune_model_states", len(m.g.States))
		c.SetExtra("prune_model_schedules", map[string]int{"total": len(all), "ending_in_a_call_that_does_not_return": nh})
		// 3. replay
		parts := 6
		count := c.Pick(48, 0)
		for pi := 0; pi < parts; pi++ {
			w3.Add(1)
			go func(pi int) {
				defer w3.Done()
				sem <- struct{}{}
				defer func() { <-sem }()
				job := liveJob{Name: fmt.Sprintf("live%d", pi), Dir: filepath.Join(base, fmt.Sprintf("live%d", pi)), Edges: edges, Seed: c.Seed, Count: count, Part: pi, Parts: parts}
				var lr liveResult
				at, crash, ok := r.childRun(childJob{Job: "live", Live: &job}, c.MinutesT(3, 25), &lr)
				if !ok || crash != "" || lr.Err != "" {
					c.Infra("pruning replay %d ended abnormally at %q: %s %s", pi, at, crash, lr.Err)
					return
				}
				pmu.Lock()
				liveResults = append(liveResults, lr)
				pmu.Unlock()
			}(pi)
		}
		if nh > 0 {
			// one schedule whose tick does not return, in a process of its own
			w3.Add(1)
			go func() {
				defer w3.Done()
				job := liveJob{Name: "live-hang", Dir: filepath.Join(base, "livehang"), Edges: edges, Seed: c.Seed, Hangs: true}
				var lr liveResult
				at, crash, ok := r.childRun(childJob{Job: "live", Live: &job}, c.MinutesT(2, 5), &lr)
				if !ok || crash != "" || lr.Err != "" {
					c.Infra("pruning replay (non-returning tick) ended abnormally at %q: %s %s", at, crash, lr.Err)
					return
				}
				pmu.Lock()
				liveResults = append(liveResults, lr)
				pmu.Unlock()
			}()
		}
		// negative control: an altered expected record must show up as a difference
		w3.Add(1)
		go func() {
			defer w3.Done()
			job := liveJob{Name: "live-control", Dir: filepath.Join(base, "livectl"), Edges: edges, Seed: c.Seed, Count: 3, Bad: true}
			var lr liveResult
			_, crash, ok := r.childRun(childJob{Job: "live", Live: &job}, c.MinutesT(2, 5), &lr)
			if !ok || crash != "" || lr.Err != "" {
				c.Infra("negative control (pruning replay) did not run: %s %s", crash, lr.Err)
				return
			}
			if lr.Compared > 0 && len(lr.Drift) == 0 {
				c.Infra("vacuous binding: an altered expected validator record was not noticed by the pruning replay")
			}
			c.SetExtra("negative_control_prune", fmt.Sprintf("altered expected VALDK record -> %d differences in %d comparisons", len(lr.Drift), lr.Compared))
		}()
		w3.Wait()
	})
	// the sweep: chain lengths 1..30 x windows x validator-change patterns
	patterns := []map[uint64]int64{{}, {3: 11}, {2: 11, 9: 12, 10: 13}}
	if thorough {
		patterns = append(patterns, map[uint64]int64{1: 11}, map[uint64]int64{5: 11, 6: 12, 20: 13, 29: 14}, map[uint64]int64{12: 11})
	}
	ks := []uint64{0, 1, 2, 5, 10, 100}
	for pi, pat := range patterns {
		pi, pat := pi, pat
		goRun(func() {
			sem <- struct{}{}
			defer func() { <-sem }()
			var combos []combo
			maxLen := uint64(30)
			for L := uint64(1); L <= maxLen; L++ {
				if !thorough && pi > 0 && L%3 != int64ToU(c.Seed)%3 && L > 12 {
					continue // quick tier: the longer chains of the extra patterns are sampled
				}
				for _, k := range ks {
					combos = append(combos, combo{L: L, K: k})
				}
			}
			// combinations that may not return (chain shorter than the window) last
			sort.SliceStable(combos, func(i, j int) bool { return (combos[i].L < combos[i].K) == false && (combos[j].L < combos[j].K) })
			job := sweepJob{Name: fmt.Sprintf("sweep%d", pi), Dir: filepath.Join(base, fmt.Sprintf("sweep%d", pi)), Changes: pat, MaxLen: maxLen, Combos: combos}
			srs := runSweep(job)
			pmu.Lock()
			sweepResults = append(sweepResults, srs...)
			pmu.Unlock()
		})
	}
	wg.Wait()

	// ---- verdict and evidence ----------------------------------------------------------------------------
	sort.Slice(crashResults, func(i, j int) bool { return crashResults[i].Scenario < crashResults[j].Scenario })
	perScenario := map[string]interface{}{}
	outcomes := map[string]int{}
	images, distinct, restarts, second, modelCmp := 0, 0, 0, 0, 0
	var foundKeys = map[string]bool{}
	var crashFindings []finding
	for _, cr := range crashResults {
		crashFindings = append(crashFindings, cr.Findings...)
	}
	// the simplest reproduction of each class becomes the record
	sort.SliceStable(crashFindings, func(i, j int) bool { return crashFindings[i].Rank < crashFindings[j].Rank })
	r.violate(crashFindings)
	for _, cr := range crashResults {
		for _, f := range cr.Findings {
			foundKeys[f.Key] = true
		}
		r.addDrift(cr.Drift)
		images += cr.Images
		distinct += cr.Distinct
		restarts += cr.Restarts
		second += cr.Second
		modelCmp += cr.ModelCmp
		o.Evaluations += cr.Evals
		for k, v := range cr.ByOutcome {
			outcomes[k] += v
		}
		perScenario[cr.Scenario] = map[string]int{"journal_entries": cr.Entries, "crash_images": cr.Images, "distinct_images_restarted": cr.Distinct, "second_level_restarts": cr.Second, "compared_with_model": cr.ModelCmp}
		if cr.Sample != nil && len(o.Samples) < 2 {
			c.Sample(cr.Sample)
		}
		if len(o.Samples) < 3 && len(cr.Journal) > 0 && strings.HasPrefix(cr.Scenario, "spend/flat") {
			c.Sample(map[string]interface{}{"scenario": cr.Scenario, "journal_of_the_commit": cr.Journal})
		}
	}
	o.Traces += restarts
	o.Distinct += distinct
	c.SetExtra("crash_scenarios", perScenario)
	c.SetExtra("crash_images", map[string]int{"enumerated": images, "distinct_restarted": distinct, "restarts_including_second_level": restarts, "second_level": second, "compared_with_model": modelCmp})
	c.SetExtra("restart_outcomes", outcomes)
	c.SetExtra("restart_path", "every restart goes through the harness transcription of node.NewNode; node.NewNode itself is not executed")

	ticks, checked, skipped := 0, 0, 0
	for _, sr := range sweepResults {
		r.violate(sr.Findings)
		for _, f := range sr.Findings {
			foundKeys[f.Key] = true
		}
		ticks += sr.Ticks
		checked += sr.Checked
		skipped += sr.Skipped
		if sr.Sample != nil && len(o.Samples) < 5 {
			c.Sample(sr.Sample)
		}
	}
	replayed, lsteps, lcmp, total := 0, 0, 0, 0
	for _, lr := range liveResults {
		r.violate(lr.Findings)
		for _, f := range lr.Findings {
			foundKeys[f.Key] = true
		}
		r.addDrift(lr.Drift)
		replayed += lr.Replayed
		lsteps += lr.Steps
		lcmp += lr.Compared
		if lr.Total > total {
			total = lr.Total
		}
		if lr.Sample != nil && len(o.Samples) < 6 {
			c.Sample(lr.Sample)
		}
	}
	o.Traces += replayed + ticks/2
	o.Evaluations += lsteps + checked
	o.Distinct += replayed + ticks/2
	c.SetExtra("pruning", map[string]int{"sweep_ticks": ticks, "sweep_load_calls_checked": checked, "sweep_combinations_skipped_after_a_non_returning_call": skipped,
		"schedules_in_model": total, "schedules_replayed_live": replayed, "live_steps": lsteps, "live_ticks_compared_with_model": lcmp})
	c.SetExtra("model_leads", map[string]string{"crash_as_coded": leadCrash, "prune_as_fingerprinted": leadPrune})
	c.SetExtra("model_instances_that_hold", designOK)
	o.Exhaustive = true

	// leads of the model must be reproduced on the code (or the specification is stale)
	if leadCrash != "" && !foundKeys["crash/utxo-store-behind-block-store"] && len(crashResults) > 0 {
		c.Infra("specification stale: TLC violates %s on the as-coded crash model, no crash image of the real node shows an inconsistency", leadCrash)
	}
	if leadCrash == "" && len(o.Infra) == 0 {
		c.Infra("specification stale: the as-coded crash model is expected to violate ConsistentAfterRecovery (missing UTXO reconciliation)")
	}
	if leadPrune != "" && !(foundKeys["prune/block-store-window-underflow"] || foundKeys["prune/status-window"] || foundKeys["prune/block-store-window"]) && len(sweepResults) > 0 {
		c.Infra("specification stale: TLC violates %s on the pruning model matching the implementation fingerprint, the real loops keep the window", leadPrune)
	}
	// drift budget (DESIGN 2.3): more than 20 % of the compared behaviours off the model's path
	if n := modelCmp + lcmp; n > 0 && r.drift*5 > n {
		c.Infra("specification stale: %d of %d comparisons with the model differ", r.drift, n)
	}
	if len(crashResults) == 0 {
		c.Infra("no crash scenario was executed")
	}
}

func int64ToU(x int64) uint64 {
	if x < 0 {
		x = -x
	}
	return uint64(x)
}
