package c13

// journaldb — crash enumeration without touching the code under test.
//
// Every database the node is handed is a jdb: a dbm.DB that forwards to a MemDB and
// appends every mutating call (Set/SetSync/Put/Delete/DeleteSync/Del and every
// Batch.Write/WriteSync/Commit, a batch being ONE atomic entry) of EVERY store to one
// global, ordered journal.  At each entry the journal also notes the state of the
// two side files of the commit sequence: the flat-state undo log (kvState.wal in the
// state database's Dir()) and the durable size of the consensus WAL.
//
// A "crash image" is a set of fresh MemDBs holding the base content plus the first k
// journal entries (or, inside the concurrent section of BlockStore.SaveBlock, any
// per-goroutine downward closed subset of it), together with the side files as they
// were at that write boundary.

import (
	"fmt"
	"io/ioutil"
	"os"
	"path/filepath"
	"sync"

	dbm "github.com/lianxiangcloud/linkchain/libs/db"
)

// store names (index = position in appx.DBs order used throughout)
var storeNames = []string{"state", "block", "tx", "balance", "utxoKimg", "utxoOut", "utxoTokenOut", "status"}

type jop struct {
	Del bool
	K   []byte
	V   []byte
}

// jentry is one atomic durable write.
type jentry struct {
	Store string // one of storeNames, or "wal" for a consensus-WAL flush
	Kind  string // set | setsync | put | delete | deletesync | del | batch | batchsync | walsync
	Ops   []jop
	// side files as they were immediately BEFORE this entry was applied
	UndoPre []byte // kvState.wal content (nil: file absent)
	WalPre  int64  // durable size of the consensus WAL head
	Label   string // abstract write label (classify)
}

type journal struct {
	mu      sync.Mutex
	armed   bool
	entries []jentry
	undoF   string // path of kvState.wal ("" = not tracked)
	walF    string // path of the consensus WAL head ("" = not tracked)
}

func (j *journal) sideFiles() (undo []byte, wal int64) {
	if j.undoF != "" {
		if b, err := ioutil.ReadFile(j.undoF); err == nil {
			undo = b
			if undo == nil {
				undo = []byte{}
			}
		}
	}
	if j.walF != "" {
		if fi, err := os.Stat(j.walF); err == nil {
			wal = fi.Size()
		}
	}
	return
}

// log applies the write to the inner database and appends it to the journal, atomically
// with respect to the other stores.
func (j *journal) log(store, kind string, ops []jop, apply func()) {
	j.mu.Lock()
	defer j.mu.Unlock()
	if j.armed {
		e := jentry{Store: store, Kind: kind}
		for _, o := range ops {
			e.Ops = append(e.Ops, jop{Del: o.Del, K: append([]byte{}, o.K...), V: append([]byte{}, o.V...)})
		}
		e.UndoPre, e.WalPre = j.sideFiles()
		j.entries = append(j.entries, e)
	}
	if apply != nil {
		apply()
	}
}

// jdb is the journaling database.
type jdb struct {
	name  string
	inner *dbm.MemDB
	dir   string
	j     *journal
}

var errNotFound = fmt.Errorf("leveldb: not found")

func newJDB(name, dir string, j *journal) *jdb {
	return &jdb{name: name, inner: dbm.NewMemDB(), dir: dir, j: j}
}

func nn(b []byte) []byte {
	if b == nil {
		return []byte{}
	}
	return b
}

func (d *jdb) Get(k []byte) []byte { return d.inner.Get(k) }

// Load answers like goleveldb (the production backend) for a missing key.
func (d *jdb) Load(k []byte) ([]byte, error) {
	if !d.inner.Has(k) {
		return nil, errNotFound
	}
	return d.inner.Get(k), nil
}
func (d *jdb) Has(k []byte) bool { return d.inner.Has(k) }
func (d *jdb) Exist(k []byte) (bool, error) {
	if !d.inner.Has(k) {
		return false, errNotFound
	}
	return true, nil
}
func (d *jdb) Set(k, v []byte) {
	d.j.log(d.name, "set", []jop{{K: nn(k), V: nn(v)}}, func() { d.inner.Set(nn(k), nn(v)) })
}
func (d *jdb) SetSync(k, v []byte) {
	d.j.log(d.name, "setsync", []jop{{K: nn(k), V: nn(v)}}, func() { d.inner.SetSync(nn(k), nn(v)) })
}
func (d *jdb) Put(k, v []byte) error {
	d.j.log(d.name, "put", []jop{{K: nn(k), V: nn(v)}}, func() { d.inner.Set(nn(k), nn(v)) })
	return nil
}
func (d *jdb) Delete(k []byte) {
	d.j.log(d.name, "delete", []jop{{Del: true, K: nn(k)}}, func() { d.inner.Delete(nn(k)) })
}
func (d *jdb) DeleteSync(k []byte) {
	d.j.log(d.name, "deletesync", []jop{{Del: true, K: nn(k)}}, func() { d.inner.DeleteSync(nn(k)) })
}
func (d *jdb) Del(k []byte) error {
	d.j.log(d.name, "del", []jop{{Del: true, K: nn(k)}}, func() { d.inner.Delete(nn(k)) })
	return nil
}
func (d *jdb) Iterator(s, e []byte) dbm.Iterator        { return d.inner.Iterator(s, e) }
func (d *jdb) ReverseIterator(s, e []byte) dbm.Iterator { return d.inner.ReverseIterator(s, e) }
func (d *jdb) NewIteratorWithPrefix(p []byte) dbm.Iterator {
	return d.inner.NewIteratorWithPrefix(p)
}
func (d *jdb) Dir() string              { return d.dir }
func (d *jdb) Close()                   {}
func (d *jdb) Print()                   {}
func (d *jdb) Stats() map[string]string { return map[string]string{} }
func (d *jdb) NewBatch() dbm.Batch      { return &jbatch{d: d} }

type jbatch struct {
	d    *jdb
	ops  []jop
	size int
}

func (b *jbatch) Set(k, v []byte) {
	b.ops = append(b.ops, jop{K: append([]byte{}, nn(k)...), V: append([]byte{}, nn(v)...)})
	b.size += len(v)
}
func (b *jbatch) Delete(k []byte) {
	b.ops = append(b.ops, jop{Del: true, K: append([]byte{}, nn(k)...)})
	b.size++
}
func (b *jbatch) write(kind string) {
	ops := b.ops
	b.d.j.log(b.d.name, kind, ops, func() { applyOps(b.d.inner, ops) })
}
func (b *jbatch) Write()         { b.write("batch") }
func (b *jbatch) WriteSync()     { b.write("batchsync") }
func (b *jbatch) Commit() error  { b.write("batch"); return nil }
func (b *jbatch) ValueSize() int { return b.size }
func (b *jbatch) Reset()         { b.ops, b.size = nil, 0 }

func applyOps(db *dbm.MemDB, ops []jop) {
	for _, o := range ops {
		if o.Del {
			db.Delete(o.K)
		} else {
			db.Set(append([]byte{}, o.K...), append([]byte{}, o.V...))
		}
	}
}

// noop reports whether the entry cannot change what any reader sees (an empty batch,
// the "flush" idiom SetSync(nil,nil), a WAL flush that wrote nothing new is NOT a noop).
func (e *jentry) noop() bool {
	if e.Store == "wal" {
		return false
	}
	for _, o := range e.Ops {
		if len(o.K) != 0 {
			return false
		}
	}
	return true
}

// snapshot of all stores (key -> value) used as the base of crash images.
type dbImage map[string]map[string][]byte

func snapshotStores(dbs map[string]*jdb) dbImage {
	img := dbImage{}
	for n, d := range dbs {
		m := map[string][]byte{}
		it := d.inner.Iterator([]byte{}, nil)
		for ; it.Valid(); it.Next() {
			m[string(it.Key())] = append([]byte{}, it.Value()...)
		}
		it.Close()
		img[n] = m
	}
	return img
}

// materialise builds fresh journaling databases (with their own, disarmed journal)
// holding base + the selected entries.
func materialise(base dbImage, entries []jentry, pick []int, dir string) (map[string]*jdb, *journal) {
	j := &journal{}
	out := map[string]*jdb{}
	for _, n := range storeNames {
		d := newJDB(n, dir, j)
		for k, v := range base[n] {
			d.inner.Set([]byte(k), append([]byte{}, v...))
		}
		out[n] = d
	}
	for _, i := range pick {
		e := entries[i]
		if e.Store == "wal" {
			continue
		}
		applyOps(out[e.Store].inner, e.Ops)
	}
	return out, j
}

func writeFileOrRemove(path string, content []byte) error {
	if content == nil {
		os.Remove(path)
		return nil
	}
	os.MkdirAll(filepath.Dir(path), 0755)
	return ioutil.WriteFile(path, content, 0600)
}
