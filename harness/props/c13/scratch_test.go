package c13

import (
	"encoding/json"
	"fmt"
	"os"
	"testing"
	"time"

	"verifh/env"
)

func TestScratchCrash(t *testing.T) {
	env.GlobalInit()
	kind := os.Getenv("KIND")
	if kind == "" {
		kind = "spend"
	}
	for _, isTrie := range []bool{true, false} {
		sc := scenario{Name: fmt.Sprintf("%s/trie=%v", kind, isTrie), IsTrie: isTrie, Kind: kind, ValChg: os.Getenv("VALCHG") != ""}
		t0 := time.Now()
		res := runCrashJob(crashJob{Scenario: sc, Dir: t.TempDir(), Edges: os.Getenv("EDGES")})
		for _, l := range res.Journal {
			fmt.Println("   ", l)
		}
		res.Journal = nil
		b, _ := json.MarshalIndent(res, "", " ")
		s := string(b)
		if len(s) > 6000 {
			s = s[:6000]
		}
		fmt.Println(s)
		for _, f := range res.Findings {
			fmt.Println("FINDING", f.Key, "::", f.Desc)
		}
		fmt.Println("elapsed", time.Since(t0))
	}
}
