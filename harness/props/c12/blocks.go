package c12

// Realistic blocks: a header with every field set, signed account transactions of every
// registered kind, both kinds of evidence, a last commit with real signed precommits
// (and an absent one).  Everything is derived from the seed.

import (
	"bytes"
	"crypto/ecdsa"
	"fmt"
	"math/big"
	"math/rand"
	"time"

	"github.com/lianxiangcloud/linkchain/libs/common"
	"github.com/lianxiangcloud/linkchain/libs/crypto"
	lkt "github.com/lianxiangcloud/linkchain/libs/cryptonote/types"
	"github.com/lianxiangcloud/linkchain/libs/ser"
	"github.com/lianxiangcloud/linkchain/types"
)

type shape struct{ NTx, NEv, NPc int }

func (s shape) String() string { return fmt.Sprintf("%dtx/%dev/%dpc", s.NTx, s.NEv, s.NPc) }

type blockKit struct {
	rng     *rand.Rand
	chain   string
	vals    *types.ValidatorSet
	valKeys []crypto.PrivKeyEd25519 // valKeys[i] signs for vals.Validators[i]
	accts   []*ecdsa.PrivateKey
	height  uint64
	lastID  types.BlockID
	serial  int
}

func randBytes(rng *rand.Rand, n int) []byte {
	b := make([]byte, n)
	rng.Read(b)
	return b
}

func newKit(seed int64, nVals int) *blockKit {
	rng := rand.New(rand.NewSource(seed))
	k := &blockKit{rng: rng, chain: fmt.Sprintf("c12-chain-%d", seed)}
	if nVals < 2 {
		nVals = 2
	}
	var keys []crypto.PrivKeyEd25519
	var vals []*types.Validator
	for i := 0; i < nVals; i++ {
		key := crypto.GenPrivKeyEd25519FromSecret(randBytes(rng, 16))
		keys = append(keys, key)
		vals = append(vals, types.NewValidator(key.PubKey(), common.BytesToAddress(randBytes(rng, 20)), int64(1+rng.Intn(100))))
	}
	k.vals = types.NewValidatorSet(vals)
	for _, v := range k.vals.Validators {
		for _, key := range keys {
			if bytes.Equal(key.PubKey().Address(), v.Address) {
				k.valKeys = append(k.valKeys, key)
			}
		}
	}
	for i := 0; i < 3; i++ {
		ek, err := crypto.ToECDSA(crypto.Keccak256(randBytes(rng, 8)))
		if err != nil {
			panic(err)
		}
		k.accts = append(k.accts, ek)
	}
	k.height = uint64(2 + rng.Intn(1<<20))
	k.lastID = types.BlockID{Hash: common.BytesToHash(randBytes(rng, 32)),
		PartsHeader: types.PartSetHeader{Total: 1 + rng.Intn(9), Hash: randBytes(rng, 32)}}
	return k
}

func (k *blockKit) nVals() int { return len(k.valKeys) }

func (k *blockKit) vote(vi int, height uint64, round int, typ byte, id types.BlockID) *types.Vote {
	vi = vi % k.nVals()
	v := &types.Vote{
		ValidatorAddress: k.vals.Validators[vi].Address,
		ValidatorIndex:   vi,
		ValidatorSize:    k.nVals(),
		Height:           height,
		Round:            round,
		Timestamp:        time.Unix(1500000000+int64(k.rng.Intn(1<<28)), int64(k.rng.Intn(1000000000))).UTC(),
		Type:             typ,
		BlockID:          id,
	}
	sig, err := k.valKeys[vi].Sign(v.SignBytes(k.chain))
	if err != nil {
		panic(err)
	}
	v.Signature = sig
	return v
}

// payload lengths around the boundaries of the length-prefixed encoding
var payloadLens = []int{0, 1, 2, 31, 32, 55, 56, 57, 200, 300}

func (k *blockKit) payload() []byte {
	n := payloadLens[k.rng.Intn(len(payloadLens))]
	b := randBytes(k.rng, n)
	if n == 1 && k.rng.Intn(2) == 0 {
		b[0] &= 0x7f // a single byte below 0x80 is its own encoding
	}
	return b
}

func (k *blockKit) amount() *big.Int {
	switch k.rng.Intn(4) {
	case 0:
		return big.NewInt(0)
	case 1:
		return big.NewInt(int64(k.rng.Intn(128)))
	case 2:
		return new(big.Int).SetUint64(k.rng.Uint64())
	}
	return new(big.Int).Lsh(big.NewInt(int64(1+k.rng.Intn(1000))), uint(64+k.rng.Intn(60)))
}

// tx builds a signed transaction; kind selects the registered concrete type.
func (k *blockKit) tx(kind int) types.Tx {
	k.serial++
	rng := k.rng
	acct := k.accts[rng.Intn(len(k.accts))]
	to := common.BytesToAddress(randBytes(rng, 20))
	nonce := uint64(rng.Intn(1 << 16))
	gas := uint64(21000 + rng.Intn(1<<22))
	price := big.NewInt(int64(1 + rng.Intn(1<<30)))
	switch kind % 6 {
	case 0:
		tx := types.NewTransaction(nonce, to, k.amount(), gas, price, k.payload())
		if err := tx.Sign(types.GlobalSTDSigner, acct); err != nil {
			panic(err)
		}
		return tx
	case 1:
		tx := types.NewContractCreation(nonce, k.amount(), gas, price, append([]byte{0x60, 0x60, 0x60, 0x40}, k.payload()...))
		if err := tx.Sign(types.GlobalSTDSigner, acct); err != nil {
			panic(err)
		}
		return tx
	case 2:
		tx := types.NewTokenTransaction(common.BytesToAddress(randBytes(rng, 20)), nonce, to, k.amount(), gas, price, k.payload())
		if err := tx.Sign(types.GlobalSTDSigner, acct); err != nil {
			panic(err)
		}
		return tx
	case 3:
		var k1, k2, k3, k4 lkt.Key
		rng.Read(k1[:])
		rng.Read(k2[:])
		rng.Read(k3[:])
		rng.Read(k4[:])
		var rk, ak lkt.PublicKey
		rng.Read(rk[:])
		rng.Read(ak[:])
		var remark [32]byte
		rng.Read(remark[:])
		return &types.UTXOTransaction{
			Inputs: []types.Input{
				&types.AccountInput{Nonce: nonce, Amount: k.amount(), CF: k1, Commit: k2},
				&types.UTXOInput{KeyOffset: []uint64{uint64(rng.Intn(100)), uint64(rng.Intn(100))}, KeyImage: k4},
			},
			Outputs: []types.Output{
				&types.AccountOutput{To: to, Amount: k.amount(), Data: k.payload(), Commit: k3},
				&types.UTXOOutput{OTAddr: k4, Amount: k.amount(), Remark: remark},
			},
			TokenID: common.EmptyAddress, RKey: rk, AddKeys: []lkt.PublicKey{ak}, Fee: big.NewInt(int64(1 + rng.Intn(1000))), Extra: k.payload(),
		}
	case 4:
		mi := &types.MultiSignMainInfo{AccountNonce: nonce, SupportTxType: types.SupportType(rng.Intn(2)),
			SignersInfo: types.SignersInfo{MinSignerPower: int32(1 + rng.Intn(10)), Signers: []*types.SignerEntry{
				{Power: int32(1 + rng.Intn(10)), Addr: to},
				{Power: int32(1 + rng.Intn(10)), Addr: common.BytesToAddress(randBytes(rng, 20))}}}}
		bz, err := types.GenMultiSignBytes(*mi)
		if err != nil {
			panic(err)
		}
		var sigs []types.ValidatorSign
		for i := 0; i < 2 && i < k.nVals(); i++ {
			sig, err := k.valKeys[i].Sign(bz)
			if err != nil {
				panic(err)
			}
			sigs = append(sigs, types.ValidatorSign{Addr: k.vals.Validators[i].Address, Signature: sig.Bytes()})
		}
		return types.NewMultiSignAccountTx(mi, sigs)
	default:
		mi := &types.ContractUpgradeMainInfo{FromAddr: crypto.PubkeyToAddress(acct.PublicKey), Recipient: to, AccountNonce: nonce, Payload: append([]byte{1}, k.payload()...)}
		sig, err := types.SignContractUpgradeTx(acct, mi)
		if err != nil {
			panic(err)
		}
		tx := types.UpgradeContractTx(mi, [][]byte{sig})
		if tx == nil {
			panic("UpgradeContractTx returned nil")
		}
		return tx
	}
}

func (k *blockKit) evidence(kind int) types.Evidence {
	k.serial++
	if kind%2 == 0 {
		vi := k.rng.Intn(k.nVals())
		h := k.height - 1
		a := k.vote(vi, h, k.rng.Intn(3), types.VoteTypePrevote, k.lastID)
		other := types.BlockID{Hash: common.BytesToHash(randBytes(k.rng, 32)), PartsHeader: types.PartSetHeader{Total: 2, Hash: randBytes(k.rng, 32)}}
		b := k.vote(vi, h, a.Round, types.VoteTypePrevote, other)
		return &types.DuplicateVoteEvidence{PubKey: k.valKeys[vi].PubKey(), VoteA: a, VoteB: b}
	}
	return &types.FaultValidatorsEvidence{BlockHeight: k.height - 1, Round: 1 + k.rng.Intn(3),
		Proposer: k.valKeys[k.rng.Intn(k.nVals())].PubKey(), FaultVal: k.valKeys[k.rng.Intn(k.nVals())].PubKey()}
}

func (k *blockKit) precommit(i int) *types.Vote {
	return k.vote(i, k.height-1, 1, types.VoteTypePrecommit, k.lastID)
}

// block builds a sealed block of the given shape. nilAt lists the (0-based) precommit
// positions left empty.
func (k *blockKit) block(sh shape, recoverFlag uint32) *types.Block {
	rng := k.rng
	height := k.height
	commit := &types.Commit{}
	if sh.NPc == 0 {
		height = types.BlockHeightOne // the first block carries an empty commit
	} else {
		commit.BlockID = k.lastID
		for i := 0; i < sh.NPc; i++ {
			if sh.NPc >= 3 && i == 1 {
				commit.Precommits = append(commit.Precommits, nil)
				continue
			}
			commit.Precommits = append(commit.Precommits, k.precommit(i))
		}
	}
	var txs types.Txs
	off := rng.Intn(6)
	for i := 0; i < sh.NTx; i++ {
		txs = append(txs, k.tx(off+i))
	}
	var evl types.EvidenceList
	for i := 0; i < sh.NEv; i++ {
		evl = append(evl, k.evidence(i))
	}
	b := &types.Block{
		Header: &types.Header{
			ChainID: k.chain, Height: height, Coinbase: common.BytesToAddress(randBytes(rng, 20)),
			Time: uint64(1500000000 + rng.Intn(1<<28)), NumTxs: uint64(len(txs)), TotalTxs: uint64(len(txs) + rng.Intn(1<<30)),
			Recover:    recoverFlag,
			ParentHash: k.lastID.Hash, LastBlockID: k.lastID,
			ValidatorsHash: common.BytesToHash(k.vals.Hash()), ConsensusHash: common.BytesToHash(randBytes(rng, 32)),
			StateHash: common.BytesToHash(randBytes(rng, 32)), ReceiptHash: common.BytesToHash(randBytes(rng, 32)),
			GasLimit: uint64(1<<22 + rng.Intn(1<<30)), GasUsed: uint64(1 + rng.Intn(1<<22)),
		},
		Data:       &types.Data{Txs: txs},
		Evidence:   types.EvidenceData{Evidence: evl},
		LastCommit: commit,
	}
	b.LastCommitHash = b.LastCommit.Hash()
	b.DataHash = b.Data.Hash()
	b.EvidenceHash = b.Evidence.Hash()
	return b
}

// ---- the wire ------------------------------------------------------------------

func encodeBlock(b *types.Block) (bz []byte, err error) {
	defer func() {
		if r := recover(); r != nil {
			err = fmt.Errorf("encode: %v", r)
		}
	}()
	return ser.EncodeToBytes(b)
}

// freshBlock decodes a block into a new object: no hash is cached anywhere in it.
func freshBlock(bz []byte) (*types.Block, error) {
	var b *types.Block
	if err := ser.DecodeBytes(bz, &b); err != nil {
		return nil, err
	}
	return b, nil
}

func freshTx(tx types.Tx) types.Tx {
	bz, err := ser.EncodeToBytes(&tx)
	if err != nil {
		panic(err)
	}
	var out types.Tx
	if err := ser.DecodeBytes(bz, &out); err != nil {
		panic(err)
	}
	return out
}

func freshEvidence(ev types.Evidence) types.Evidence {
	bz, err := ser.EncodeToBytes(&ev)
	if err != nil {
		panic(err)
	}
	var out types.Evidence
	if err := ser.DecodeBytes(bz, &out); err != nil {
		panic(err)
	}
	return out
}

func freshVote(v *types.Vote) *types.Vote {
	if v == nil {
		return nil
	}
	bz, err := ser.EncodeToBytes(v)
	if err != nil {
		panic(err)
	}
	out := new(types.Vote)
	if err := ser.DecodeBytes(bz, out); err != nil {
		panic(err)
	}
	return out
}
