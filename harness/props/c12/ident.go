package c12

// Replay of the BlockId model on real blocks: every abstract perturbation the model
// explores is instantiated with every concrete leaf perturbation of the component it
// names, applied to a FRESHLY DECODED block (no cached hash anywhere), and the block id
// and its ingredients are compared with the model after every step.

import (
	"encoding/json"
	"fmt"
	"math/rand"
	"reflect"
	"sort"
	"strings"
	"sync"

	"github.com/lianxiangcloud/linkchain/libs/common"
	"github.com/lianxiangcloud/linkchain/libs/ser"
	"github.com/lianxiangcloud/linkchain/types"

	"verifh/core"
	"verifh/mbt"
)

type idAct struct {
	Op     string `json:"op"`
	Comp   string `json:"comp"`
	Kind   string `json:"kind"`
	F      string `json:"f"`
	K      int    `json:"k"`
	Reseal bool   `json:"reseal"`
}

type idState struct {
	Phase           string          `json:"phase"`
	Npert           int             `json:"npert"`
	Shape           []int           `json:"shape"`
	Txs             []int           `json:"txs"`
	Ev              []int           `json:"ev"`
	Pc              []int           `json:"pc"`
	Cbid            int             `json:"cbid"`
	Hdr             json.RawMessage `json:"hdr"`
	Same            bool            `json:"same"`
	IdChanged       bool            `json:"idChanged"`
	HashChanged     bool            `json:"hashChanged"`
	PartsChanged    bool            `json:"partsChanged"`
	Valid           bool            `json:"valid"`
	DataRootChanged bool            `json:"dataRootChanged"`
	EvRootChanged   bool            `json:"evRootChanged"`
	PcRootChanged   bool            `json:"pcRootChanged"`
}

// blockObs is what the property names, observed on one block object.
type blockObs struct {
	Hash   common.Hash
	Parts  types.PartSetHeader
	Data   common.Hash
	Ev     common.Hash
	Pc     common.Hash
	Valid  bool
	VErr   string
	NParts int
}

func observeBlock(b *types.Block, partSize int) (o blockObs, err error) {
	defer func() {
		if r := recover(); r != nil {
			err = fmt.Errorf("%v", r)
		}
	}()
	o.Hash = b.Hash()
	ps := b.MakePartSet(partSize)
	o.Parts = ps.Header()
	o.NParts = ps.Total()
	o.Data = b.Data.Hash()
	o.Ev = b.Evidence.Hash()
	o.Pc = b.LastCommit.Hash()
	if e := b.ValidateBasic(); e != nil {
		o.VErr = e.Error()
	} else {
		o.Valid = true
	}
	return
}

func reseal(b *types.Block) {
	b.NumTxs = uint64(len(b.Data.Txs))
	b.DataHash = b.Data.Hash()
	b.EvidenceHash = b.Evidence.Hash()
	b.LastCommitHash = b.LastCommit.Hash()
}

// component returns the addressable value the abstract component (comp, f, k) denotes
// in block b.
func component(b *types.Block, a idAct) (reflect.Value, string, error) {
	switch a.Comp {
	case "hdr":
		fv := reflect.ValueOf(b.Header).Elem().FieldByName(a.F)
		if !fv.IsValid() {
			return reflect.Value{}, "", fmt.Errorf("types.Header has no field %q", a.F)
		}
		return fv, "Header." + a.F, nil
	case "cbid":
		return reflect.ValueOf(&b.LastCommit.BlockID).Elem(), "LastCommit.BlockID", nil
	case "txs":
		if a.K < 1 || a.K > len(b.Data.Txs) {
			return reflect.Value{}, "", fmt.Errorf("no tx %d", a.K)
		}
		return reflect.ValueOf(&b.Data.Txs).Elem().Index(a.K - 1), fmt.Sprintf("Data.Txs[%d]", a.K-1), nil
	case "ev":
		if a.K < 1 || a.K > len(b.Evidence.Evidence) {
			return reflect.Value{}, "", fmt.Errorf("no evidence %d", a.K)
		}
		return reflect.ValueOf(&b.Evidence.Evidence).Elem().Index(a.K - 1), fmt.Sprintf("Evidence[%d]", a.K-1), nil
	case "pc":
		if a.K < 1 || a.K > len(b.LastCommit.Precommits) {
			return reflect.Value{}, "", fmt.Errorf("no precommit %d", a.K)
		}
		return reflect.ValueOf(&b.LastCommit.Precommits).Elem().Index(a.K - 1), fmt.Sprintf("LastCommit.Precommits[%d]", a.K-1), nil
	}
	return reflect.Value{}, "", fmt.Errorf("unknown component %q", a.Comp)
}

// typePath strips indexes so that violation keys are stable across seeds.
func typePath(b *types.Block, a idAct, leafPath string) string {
	if a.Kind != "content" {
		return "-" // structural perturbation of a list: the element types do not matter
	}
	base := ""
	switch a.Comp {
	case "txs":
		if a.K >= 1 && a.K <= len(b.Data.Txs) {
			base = strings.TrimPrefix(fmt.Sprintf("%T", b.Data.Txs[a.K-1]), "*types.")
		}
	case "ev":
		if a.K >= 1 && a.K <= len(b.Evidence.Evidence) {
			base = strings.TrimPrefix(fmt.Sprintf("%T", b.Evidence.Evidence[a.K-1]), "*types.")
		}
	case "pc":
		base = "Vote"
	case "hdr":
		base = "Header"
	case "cbid":
		base = "Commit.BlockID"
	}
	p := leafPath
	if i := strings.Index(p, "]"); i >= 0 && (a.Comp == "txs" || a.Comp == "ev" || a.Comp == "pc") {
		p = p[i+1:]
	} else if a.Comp == "hdr" {
		p = strings.TrimPrefix(p, "Header")
	} else if a.Comp == "cbid" {
		p = strings.TrimPrefix(p, "LastCommit.BlockID")
	}
	// drop inner indexes
	var sb strings.Builder
	depth := 0
	for _, r := range p {
		if r == '[' {
			depth++
			sb.WriteString("[")
			continue
		}
		if r == ']' {
			depth--
			sb.WriteString("]")
			continue
		}
		if depth == 0 {
			sb.WriteRune(r)
		}
	}
	return base + sb.String()
}

// instantiation of one abstract perturbation
type idInst struct {
	leaf    int // index of the leaf inside the component (-1: structural)
	variant int
	desc    string
	path    string
}

type idReplay struct {
	c        *core.Ctx
	kit      *blockKit
	sh       shape
	partSize int
	base     []byte
	obs0     blockObs
	cur      []byte
	rng      *rand.Rand
	drifted  map[string]bool
	skipped  map[string]int
	evals    int
	distinct map[string]bool
	crossN   int // parts of perturbed blocks offered to the proposer's part set
	bi       *baseInfo
	lost     bool // no instantiation realised the abstract state: wait for the next restore
	visited  map[int]bool
	kitSeed  int64 // the proposer's block is newKit(kitSeed, ..).block(sh, recover)
	recover  uint32
}

// apply performs the abstract perturbation a on block b using concrete instantiation in;
// newTx/newEv/newVote supply fresh items for insertions.
func (r *idReplay) apply(b *types.Block, a idAct, in idInst) (string, error) {
	switch a.Kind {
	case "content":
		if a.Comp == "pc" && b.LastCommit.Precommits[a.K-1] == nil {
			// an absent precommit becomes a vote
			b.LastCommit.Precommits[a.K-1] = freshVote(r.kit.precommit(a.K - 1))
			return "nil->vote", nil
		}
		root, path, err := component(b, a)
		if err != nil {
			return "", err
		}
		var ls []leaf
		collectLeaves(root, path, nil, &ls)
		if in.leaf >= len(ls) {
			return "", fmt.Errorf("leaf %d out of %d", in.leaf, len(ls))
		}
		d, ok := ls[in.leaf].perturb(in.variant)
		if !ok {
			return "", fmt.Errorf("no variant %d at %s", in.variant, ls[in.leaf].path)
		}
		return ls[in.leaf].path + " " + d, nil
	case "nil":
		b.LastCommit.Precommits[a.K-1] = nil
		return "precommit->nil", nil
	}
	// structural perturbations of the three lists
	switch a.Comp {
	case "txs":
		s := b.Data.Txs
		switch a.Kind {
		case "swap":
			s[a.K-1], s[a.K] = s[a.K], s[a.K-1]
		case "insert":
			s = append(s[:a.K:a.K], append(types.Txs{freshTx(r.kit.tx(in.variant))}, s[a.K:]...)...)
		case "dupinsert":
			s = append(s[:a.K:a.K], append(types.Txs{freshTx(s[a.K-1])}, s[a.K:]...)...)
		case "remove":
			s = append(s[:a.K-1:a.K-1], s[a.K:]...)
		}
		b.Data.Txs = s
	case "ev":
		s := b.Evidence.Evidence
		switch a.Kind {
		case "swap":
			s[a.K-1], s[a.K] = s[a.K], s[a.K-1]
		case "insert":
			s = append(s[:a.K:a.K], append(types.EvidenceList{freshEvidence(r.kit.evidence(in.variant))}, s[a.K:]...)...)
		case "dupinsert":
			s = append(s[:a.K:a.K], append(types.EvidenceList{freshEvidence(s[a.K-1])}, s[a.K:]...)...)
		case "remove":
			s = append(s[:a.K-1:a.K-1], s[a.K:]...)
		}
		b.Evidence.Evidence = s
	case "pc":
		s := b.LastCommit.Precommits
		switch a.Kind {
		case "swap":
			s[a.K-1], s[a.K] = s[a.K], s[a.K-1]
		case "insert":
			s = append(s[:a.K:a.K], append([]*types.Vote{freshVote(r.kit.precommit(a.K + in.variant))}, s[a.K:]...)...)
		case "dupinsert":
			s = append(s[:a.K:a.K], append([]*types.Vote{freshVote(s[a.K-1])}, s[a.K:]...)...)
		case "remove":
			s = append(s[:a.K-1:a.K-1], s[a.K:]...)
		}
		b.LastCommit.Precommits = s
	}
	return a.Kind, nil
}

// instantiations enumerates the concrete instantiations of a on the current block.
func (r *idReplay) instantiations(a idAct) ([]idInst, error) {
	b, err := freshBlock(r.cur)
	if err != nil {
		return nil, err
	}
	switch a.Kind {
	case "content":
		if a.Comp == "pc" && (a.K < 1 || a.K > len(b.LastCommit.Precommits)) {
			return nil, fmt.Errorf("no precommit %d", a.K)
		}
		if a.Comp == "pc" && b.LastCommit.Precommits[a.K-1] == nil {
			return []idInst{{leaf: -1, desc: "nil->vote", path: "LastCommit.Precommits[]"}}, nil
		}
		root, path, err := component(b, a)
		if err != nil {
			return nil, err
		}
		var ls []leaf
		collectLeaves(root, path, nil, &ls)
		var out []idInst
		for li := range ls {
			for v := 0; v < maxVariants; v++ {
				// probe on the scratch block and put the old value back
				l := &ls[li]
				saved := reflect.New(l.v.Type()).Elem()
				saved.Set(l.v)
				d, ok := l.perturb(v)
				l.v.Set(saved)
				l.commit()
				if ok {
					out = append(out, idInst{leaf: li, variant: v, desc: d, path: l.path})
				}
			}
		}
		if len(out) == 0 {
			return nil, fmt.Errorf("component %s/%s/%d has no content leaf", a.Comp, a.F, a.K)
		}
		return out, nil
	case "insert":
		// several kinds of new items
		n := 2
		if a.Comp == "txs" {
			n = 6
		}
		var out []idInst
		for v := 0; v < n; v++ {
			out = append(out, idInst{leaf: -1, variant: v, desc: fmt.Sprintf("new item kind %d", v)})
		}
		return out, nil
	}
	return []idInst{{leaf: -1, desc: a.Kind}}, nil
}

// baseInfo holds the encodings of the proposer's components, for the abstraction check
// of stacked perturbations.
type baseInfo struct {
	txs, ev, pc [][]byte
	hdr         map[string][]byte
	cbid        []byte
}

func encOf(x interface{}) []byte {
	bz, err := ser.EncodeToBytes(x)
	if err != nil {
		return []byte("unencodable:" + err.Error())
	}
	return bz
}

func listEncodings(b *types.Block) (txs, ev, pc [][]byte) {
	for i := range b.Data.Txs {
		txs = append(txs, encOf(&b.Data.Txs[i]))
	}
	for i := range b.Evidence.Evidence {
		ev = append(ev, encOf(&b.Evidence.Evidence[i]))
	}
	for _, v := range b.LastCommit.Precommits {
		if v == nil {
			pc = append(pc, nil)
		} else {
			pc = append(pc, encOf(v))
		}
	}
	return
}

func headerEncodings(b *types.Block) map[string][]byte {
	m := map[string][]byte{}
	hv := reflect.ValueOf(b.Header).Elem()
	for i := 0; i < hv.NumField(); i++ {
		if f := hv.Type().Field(i); f.PkgPath == "" {
			m[f.Name] = encOf(hv.Field(i).Interface())
		}
	}
	return m
}

func newBaseInfo(b *types.Block) *baseInfo {
	bi := &baseInfo{hdr: headerEncodings(b), cbid: encOf(b.LastCommit.BlockID)}
	bi.txs, bi.ev, bi.pc = listEncodings(b)
	return bi
}

var rootFields = map[string]bool{"DataHash": true, "EvidenceHash": true, "LastCommitHash": true}

// realises reports whether the concrete block b is an instance of the abstract state st:
// an item is the proposer's item j exactly where the model holds id j, a header field
// differs from the proposer's exactly where the model says so. (Two stacked value
// perturbations of the same leaf can cancel out concretely; the model never returns.)
// Values derived by the code under test (re-sealed roots) are not part of the check.
func (r *idReplay) realises(b *types.Block, a idAct, st idState) bool {
	txs, ev, pc := listEncodings(b)
	okList := func(model []int, conc, base [][]byte, nilID bool) bool {
		if len(model) != len(conc) {
			return false
		}
		for p, id := range model {
			isBase := id >= 1 && id <= len(base) && !(nilID && base[id-1] == nil)
			switch {
			case nilID && id == 0:
				if conc[p] != nil {
					return false
				}
			case isBase:
				if conc[p] == nil || string(conc[p]) != string(base[id-1]) {
					return false
				}
			default:
				if conc[p] == nil {
					return false
				}
				for _, bb := range base {
					if bb != nil && string(bb) == string(conc[p]) {
						return false
					}
				}
			}
		}
		return true
	}
	if !okList(st.Txs, txs, r.bi.txs, false) || !okList(st.Ev, ev, r.bi.ev, false) || !okList(st.Pc, pc, r.bi.pc, true) {
		return false
	}
	if (st.Cbid != 1) != (string(encOf(b.LastCommit.BlockID)) != string(r.bi.cbid)) {
		return false
	}
	changed := map[string]json.RawMessage{}
	json.Unmarshal(st.Hdr, &changed) // "[]" when empty: stays empty
	for f, enc := range headerEncodings(b) {
		_, want := changed[f]
		got := string(enc) != string(r.bi.hdr[f])
		if rootFields[f] || f == "NumTxs" {
			if a.Comp == "hdr" && a.F == f && want && !got {
				return false
			}
			continue
		}
		if want != got {
			return false
		}
	}
	return true
}

func (r *idReplay) drift(key, format string, a ...interface{}) {
	if r.drifted[key] {
		return
	}
	r.drifted[key] = true
	if _, dup := driftSeen.LoadOrStore("identity/"+key, true); !dup {
		r.c.Drift("identity: "+format, a...)
	}
}

// check compares the observation of a perturbed block with the model's state.
func (r *idReplay) check(b *types.Block, a idAct, st idState, in idInst, what string, trace []string) {
	obs, err := observeBlock(b, r.partSize)
	if err != nil {
		r.skipped["unobservable: "+firstLine(err.Error())]++
		return
	}
	r.evals++
	tp := typePath(b, a, in.path)
	r.distinct[a.Comp+"/"+a.Kind+"/"+tp+"/"+in.desc+fmt.Sprint(a.Reseal)] = true
	hashChanged := obs.Hash != r.obs0.Hash
	partsChanged := !obs.Parts.Equals(r.obs0.Parts)
	idChanged := hashChanged || partsChanged
	rec := func(mismatch string) map[string]interface{} {
		pert := ""
		if nb, err := encodeBlock(b); err == nil {
			pert = fmt.Sprintf("%x", nb)
		}
		return map[string]interface{}{
			"kind": "identity", "kit_seed": r.kitSeed, "shape_tuple": []int{r.sh.NTx, r.sh.NEv, r.sh.NPc}, "recover": r.recover, "action": a, "inst": map[string]interface{}{"leaf": in.leaf, "variant": in.variant, "path": in.path, "desc": in.desc},
			"perturbed_block_hex": pert,
			"behaviour":           trace, "shape": r.sh.String(), "part_size": r.partSize, "instantiation": what,
			"base_block_hex": fmt.Sprintf("%x", r.base), "from_block_hex": fmt.Sprintf("%x", r.cur),
			"model": st, "observed": map[string]interface{}{"hash": obs.Hash.String(), "parts": obs.Parts.String(),
				"base_hash": r.obs0.Hash.String(), "base_parts": r.obs0.Parts.String(), "validate_basic": obs.VErr,
				"data_root_changed": obs.Data != r.obs0.Data, "ev_root_changed": obs.Ev != r.obs0.Ev, "pc_root_changed": obs.Pc != r.obs0.Pc},
			"mismatch": mismatch,
		}
	}
	suffix := a.Comp + "/" + a.Kind + "/" + tp
	if st.Same {
		if idChanged {
			r.c.Violate("identity/unstable/"+suffix, fmt.Sprintf("a block with the proposer's content has another block id (%s)", what), rec("idChanged"))
		}
		return
	}
	// pi_prop 1: the block id changes
	if st.IdChanged && !idChanged {
		r.c.Violate("identity/unchanged/"+suffix,
			fmt.Sprintf("%s changes neither Block.Hash() nor MakePartSet(%d).Header()", what, r.partSize), rec("idChanged"))
		return
	}
	// pi_prop 2: the ordered lists are bound to the hash through their roots / ValidateBasic
	if st.DataRootChanged && obs.Data == r.obs0.Data {
		r.c.Violate("root/unchanged/"+suffix, fmt.Sprintf("%s leaves Data.Hash() unchanged", what), rec("dataRootChanged"))
		return
	}
	if st.EvRootChanged && obs.Ev == r.obs0.Ev {
		r.c.Violate("root/unchanged/"+suffix, fmt.Sprintf("%s leaves EvidenceData.Hash() unchanged", what), rec("evRootChanged"))
		return
	}
	if st.PcRootChanged && obs.Pc == r.obs0.Pc {
		r.c.Violate("root/unchanged/"+suffix, fmt.Sprintf("%s leaves Commit.Hash() unchanged", what), rec("pcRootChanged"))
		return
	}
	if !st.Valid && obs.Valid {
		r.c.Violate("hashbind/"+suffix,
			fmt.Sprintf("%s: header and content disagree but ValidateBasic accepts the block (hash changed: %v)", what, hashChanged), rec("valid"))
		return
	}
	// pi_shape: which of the two hashes moves
	if st.HashChanged != hashChanged {
		r.drift("hash/"+suffix, "%s: Block.Hash() changed=%v, the specification says %v", what, hashChanged, st.HashChanged)
	}
	if st.PartsChanged != partsChanged {
		r.drift("parts/"+suffix, "%s: part-set header changed=%v, the specification says %v", what, partsChanged, st.PartsChanged)
	}
	// tie-in with the part sets: no part of the other block enters the proposer's part set
	if partsChanged && r.crossN < 4000 {
		r.crossOffer(b, a, what, rec)
	}
}

// crossOffer offers every part of block b (another block) to a receiver that waits for
// the proposer's block.
func (r *idReplay) crossOffer(b *types.Block, a idAct, what string, rec func(string) map[string]interface{}) {
	other := b.MakePartSet(r.partSize)
	recv := types.NewPartSetFromHeader(wireHeader(r.obs0.Parts))
	for i := 0; i < other.Total(); i++ {
		p, err := wirePart(other.GetPart(i), 1, 0)
		if err != nil {
			return
		}
		added, _, pan := safeAdd(recv, p)
		r.crossN++
		if added || pan != "" {
			key, how := "parts/otherblock/accepted", "was accepted by"
			if pan != "" {
				key, how = "parts/otherblock/panic", "crashed"
			}
			r.c.Violate(key, fmt.Sprintf("part %d (of %d) of the block obtained by %s %s the part set that waits for the proposer's block (%d parts; added=%v panic=%q)", i, other.Total(), what, how, recv.Total(), added, pan), rec("crossOffer"))
			return
		}
	}
}

func firstLine(s string) string {
	if i := strings.IndexByte(s, '\n'); i >= 0 {
		s = s[:i]
	}
	if len(s) > 120 {
		s = s[:120]
	}
	return s
}

// runIdentity replays the exported BlockId graph: one transition tour per seeded set of
// proposer blocks (the sets run in parallel, each with its own generator).
func runIdentity(c *core.Ctx, g *mbt.Graph, seed int64, blockSets int, maxInstDeep int) (behaviours, evals, distinct int, skipped map[string]int, cross int) {
	skipped = map[string]int{}
	distinctAll := map[string]bool{}
	type result struct {
		beh, evals int
		cross      int
		skipped    map[string]int
		distinct   map[string]bool
	}
	results := make([]result, blockSets)
	var wg sync.WaitGroup
	for bi := 0; bi < blockSets; bi++ {
		wg.Add(1)
		go func(bi int) {
			defer wg.Done()
			res := &results[bi]
			res.skipped, res.distinct = map[string]int{}, map[string]bool{}
			defer func() {
				if x := recover(); x != nil {
					c.Infra("identity: harness panic: %v", x)
				}
			}()
			rng := rand.New(rand.NewSource(seed*7919 + 12 + int64(bi)*104729))
			for _, seq := range g.Tour(0, rng) {
				r := &idReplay{c: c, rng: rng, drifted: map[string]bool{}, skipped: res.skipped, distinct: res.distinct, visited: map[int]bool{}}
				if !r.replay(g, seq, seed, bi, maxInstDeep, &res.beh) {
					return
				}
				res.evals += r.evals
				res.cross += r.crossN
			}
		}(bi)
	}
	wg.Wait()
	for _, res := range results {
		behaviours += res.beh
		evals += res.evals
		cross += res.cross
		for k, v := range res.skipped {
			skipped[k] += v
		}
		for k := range res.distinct {
			distinctAll[k] = true
		}
	}
	return behaviours, evals, len(distinctAll), skipped, cross
}

// replay executes one behaviour of the BlockId graph; false = stop (infrastructure failure).
func (r *idReplay) replay(g *mbt.Graph, seq []int, seed int64, bi int, maxInstDeep int, behaviours *int) bool {
	c := r.c
	rng := r.rng
	var trace []string
	for _, ei := range seq {
		e := g.Edges[ei]
		var a idAct
		var st idState
		if json.Unmarshal(e.Act, &a) != nil || json.Unmarshal(e.ToSt, &st) != nil {
			c.Infra("identity: cannot decode edge %s", mbt.Compact(e.Act))
			return false
		}
		trace = append(trace, mbt.Compact(e.Act))
		if len(trace) > 6 {
			trace = trace[len(trace)-6:]
		}
		switch a.Op {
		case "start":
			r.lost = false
			r.sh = shape{st.Shape[0], st.Shape[1], st.Shape[2]}
			r.kitSeed, r.recover = seed*1000+int64(bi)*37+int64(r.sh.NTx*100+r.sh.NEv*10+r.sh.NPc), uint32(bi%2)
			r.kit = newKit(r.kitSeed, maxInt(r.sh.NPc, 2))
			blk := r.kit.block(r.sh, r.recover)
			bz, err := encodeBlock(blk)
			if err != nil {
				c.Infra("identity: cannot encode the proposer's block: %v", err)
				return false
			}
			r.base, r.cur = bz, bz
			r.partSize = maxInt(1, (len(bz)+3)/4) // four parts
			fb, err := freshBlock(bz)
			if err != nil {
				c.Infra("identity: the proposer's block does not decode: %v", err)
				return false
			}
			r.bi = newBaseInfo(fb)
			r.obs0, err = observeBlock(fb, r.partSize)
			if err != nil || !r.obs0.Valid {
				c.Infra("identity: the proposer's block (shape %s) is not valid: %v %s", r.sh, err, r.obs0.VErr)
				return false
			}
			// the object the proposer built and its wire copy agree (what fast sync relies on:
			// it recomputes the id from the decoded block), for the gossip part size as well
			for _, psz := range []int{r.partSize, types.DefaultConsensusParams().BlockGossip.BlockPartSizeBytes} {
				o1, e1 := observeBlock(blk, psz)
				f2, _ := freshBlock(bz)
				o2, e2 := observeBlock(f2, psz)
				r.evals++
				if e1 != nil || e2 != nil || o1.Hash != o2.Hash || !o1.Parts.Equals(o2.Parts) {
					c.Violate("identity/unstable/decode", "the decoded copy of a block has another block id than the block it was encoded from",
						map[string]interface{}{"block_hex": fmt.Sprintf("%x", bz), "part_size": psz, "built": o1, "decoded": o2})
				}
			}
			*behaviours++
			if bi == 0 && r.sh.NTx >= 4 {
				c.Sample(map[string]interface{}{"identity_block": map[string]interface{}{"shape": r.sh.String(), "bytes": len(bz), "parts": r.obs0.NParts,
					"hash": r.obs0.Hash.String(), "parts_header": r.obs0.Parts.String(), "tx_types": txTypes(fb)}})
			}
		case "restart":
			r.base, r.cur, r.lost = nil, nil, false
		case "restore":
			r.lost = false
			r.cur = r.base
			fb, err := freshBlock(r.cur)
			if err == nil {
				r.check(fb, a, st, idInst{}, "a fresh decode of the proposer's bytes", trace)
			}
		case "perturb":
			if r.lost {
				r.skipped["edges after a state no instantiation realised"]++
				continue
			}
			if r.cur == nil {
				c.Infra("identity: perturbation before start")
				return false
			}
			insts, err := r.instantiations(a)
			if err != nil {
				c.Infra("identity: %v (%s)", err, mbt.Compact(e.Act))
				return false
			}
			deep := st.Npert >= 2
			order := rng.Perm(len(insts))
			limit := len(order)
			if deep && maxInstDeep > 0 {
				limit = maxInstDeep
			}
			if r.visited[ei] {
				limit = 1 // every instantiation was compared on the first visit; now only pass through
			}
			r.visited[ei] = true
			var next []byte
			done := 0
			for _, ii := range order {
				if done >= limit && next != nil {
					break
				}
				in := insts[ii]
				b, err := freshBlock(r.cur)
				if err != nil {
					c.Infra("identity: current block does not decode: %v", err)
					return false
				}
				d, err := r.apply(b, a, in)
				if err != nil {
					c.Infra("identity: %v (%s)", err, mbt.Compact(e.Act))
					return false
				}
				if deep && !r.realises(b, a, st) {
					r.skipped["stacked perturbations cancel out concretely (not an instance of the abstract state)"]++
					continue
				}
				if a.Reseal {
					reseal(b)
				}
				what := fmt.Sprintf("%s %s[%s] (%s)", a.Kind, a.Comp, strings.TrimSpace(a.F+" "+fmt.Sprint(a.K)), d)
				if a.Reseal {
					what += " + re-sealed header"
				}
				if done < limit {
					r.check(b, a, st, in, what, trace)
					done++
				}
				if next == nil {
					if nb, encErr := encodeBlock(b); encErr == nil {
						if _, derr := freshBlock(nb); derr == nil {
							next = nb
						}
					}
				}
			}
			if next == nil {
				r.skipped["states no encodable instantiation realised: "+a.Comp+"/"+a.Kind]++
				r.lost = true
				continue
			}
			r.cur = next
		}
	}
	return true
}

func txTypes(b *types.Block) []string {
	var out []string
	for _, tx := range b.Data.Txs {
		out = append(out, tx.TypeName())
	}
	return out
}

func maxInt(a, b int) int {
	if a > b {
		return a
	}
	return b
}

// headerFieldSurvey perturbs EVERY field of types.Header found by reflection (exported or
// not, known to the specification or not) on a freshly decoded block.
func headerFieldSurvey(c *core.Ctx, seed int64, modelFields map[string]bool) (evals int, report map[string]string) {
	report = map[string]string{}
	kit := newKit(seed*31+5, 4)
	blk := kit.block(shape{3, 2, 4}, 0)
	bz, err := encodeBlock(blk)
	if err != nil {
		c.Infra("survey: %v", err)
		return
	}
	partSize := maxInt(1, (len(bz)+2)/3)
	fb, _ := freshBlock(bz)
	obs0, err := observeBlock(fb, partSize)
	if err != nil {
		c.Infra("survey: %v", err)
		return
	}
	ht := reflect.TypeOf(types.Header{})
	var names []string
	for i := 0; i < ht.NumField(); i++ {
		names = append(names, ht.Field(i).Name)
	}
	sort.Strings(names)
	for f := range modelFields {
		if _, ok := ht.FieldByName(f); !ok {
			c.Drift("specification names header field %s which types.Header does not have", f)
		}
	}
	for _, name := range names {
		sf, _ := ht.FieldByName(name)
		exported := sf.PkgPath == ""
		if exported && !modelFields[name] {
			c.Drift("types.Header has field %s which the specification (MC_BlockId.AllFields) does not list", name)
		}
		// count leaves
		probe, _ := freshBlock(bz)
		var ls []leaf
		collectLeaves(settable(reflect.ValueOf(probe.Header).Elem().FieldByName(name)), "Header."+name, nil, &ls)
		changedAny, unchangedAny := false, false
		for li := range ls {
			for v := 0; v < maxVariants; v++ {
				b, _ := freshBlock(bz)
				var bl []leaf
				collectLeaves(settable(reflect.ValueOf(b.Header).Elem().FieldByName(name)), "Header."+name, nil, &bl)
				d, ok := bl[li].perturb(v)
				if !ok {
					continue
				}
				obs, err := observeBlock(b, partSize)
				if err != nil {
					continue
				}
				evals++
				hc, pc := obs.Hash != obs0.Hash, !obs.Parts.Equals(obs0.Parts)
				if hc || pc {
					changedAny = true
					continue
				}
				unchangedAny = true
				if exported {
					c.Violate("identity/unchanged/hdr/content/Header."+name,
						fmt.Sprintf("changing Header.%s (%s %s) changes neither Block.Hash() nor the part-set header", name, bl[li].path, d),
						map[string]interface{}{"kind": "survey", "leaf_index": li, "variant": v,
							"field": name, "leaf": bl[li].path, "perturbation": d, "block_hex": fmt.Sprintf("%x", bz), "part_size": partSize,
							"hash": obs.Hash.String(), "parts": obs.Parts.String()})
				}
			}
		}
		switch {
		case len(ls) == 0:
			report[name] = "no perturbable leaf"
		case unchangedAny && !exported:
			report[name] = "unexported, neither hashed nor serialised (local to the node)"
			if name != "bloom" {
				c.Drift("types.Header has the unexported field %s which is neither hashed nor serialised; assumed local to the node", name)
			}
		case changedAny && !unchangedAny:
			report[name] = "covered"
		default:
			report[name] = "NOT covered"
		}
	}
	return
}
