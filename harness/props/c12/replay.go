package c12

// bin/check C12 --replay <file>: re-executes exactly the failing step of a recorded
// violation (the receiver's state before the step is rebuilt from the record).

import (
	"encoding/hex"
	"encoding/json"
	"fmt"
	"io/ioutil"
	"math/rand"
	"reflect"

	"verifh/core"
	"verifh/mbt"
)

type replayFile struct {
	Key    string          `json:"key"`
	Seed   int64           `json:"seed"`
	Record json.RawMessage `json:"record"`
}

func runReplayFile(c *core.Ctx) {
	raw, err := ioutil.ReadFile(c.Replay)
	if err != nil {
		c.Infra("replay file: %v", err)
		return
	}
	var rf replayFile
	if err := json.Unmarshal(raw, &rf); err != nil {
		c.Infra("replay file %s: %v", c.Replay, err)
		return
	}
	// "instantiation" is an object in part-set records and a text in identity records
	var probe struct {
		Kind string `json:"kind"`
	}
	json.Unmarshal(rf.Record, &probe)
	c.Seed = rf.Seed
	switch probe.Kind {
	case "parts":
		replayPartsRecord(c, rf)
	case "identity":
		replayIdentityRecord(c, rf)
	case "survey":
		replaySurveyRecord(c, rf)
	case "slot":
		replaySlotRecord(c, rf)
	default:
		c.Infra("replay file %s: unknown record kind %q", c.Replay, probe.Kind)
	}
}

func replayPartsRecord(c *core.Ctx, rf replayFile) {
	var rec struct {
		Instantiation pInst `json:"instantiation"`
		Pattern       []int `json:"pattern"`
		HeldBefore    []int `json:"held_before"`
		BlockIndex    int   `json:"block_index"`
		Action        pAct  `json:"action"`
	}
	if err := json.Unmarshal(rf.Record, &rec); err != nil || len(rec.Pattern) == 0 {
		c.Infra("replay file: bad part-set record (%v)", err)
		return
	}
	blocks, blockBz, kits, ok := partBlocks(c)
	if !ok {
		return
	}
	r := &pReplay{c: c, inst: rec.Instantiation, seed: rf.Seed, rng: rand.New(rand.NewSource(1)), drifted: map[string]bool{}, classes: map[string]int{},
		blocks: blocks, blockBz: blockBz, kits: kits, forceBlock: rec.BlockIndex}
	if rec.Instantiation.Cons {
		r.blocks, r.blockBz, r.kits = blocks[firstCons:], blockBz[firstCons:], kits[firstCons:]
	}
	// start; the proposer's parts that were held; the recorded action
	T := len(rec.Pattern)
	held := make([]int, T)
	count := 0
	var edges []mbt.Edge
	add := func(a pAct, st pState) {
		aj, _ := json.Marshal(a)
		sj, _ := json.Marshal(st)
		edges = append(edges, mbt.Edge{Act: aj, ToSt: sj})
	}
	state := func() pState {
		return pState{Phase: "open", Orig: rec.Pattern, Held: append([]int{}, held...), Count: count, Complete: count == T}
	}
	add(pAct{Op: "start"}, state())
	for _, i := range rec.HeldBefore {
		held[i] = rec.Pattern[i]
		count++
		add(pAct{Op: "offer", Cls: "good", I: i, Idx: i, Sym: rec.Pattern[i], Naunts: -1, Res: "added"}, state())
	}
	a := rec.Action
	if a.Res == "added" && a.Idx >= 0 && a.Idx < T && held[a.Idx] == 0 {
		held[a.Idx] = rec.Pattern[a.Idx]
		count++
	}
	add(a, state())
	g := &mbt.Graph{Edges: edges}
	seq := make([]int, len(edges))
	for i := range seq {
		seq[i] = i
	}
	r.run(g, seq)
	c.Out().Traces++
	c.Out().Evaluations += r.steps
	for _, v := range r.viol {
		c.Violate(v.Key, v.Desc, v.Record)
	}
	for _, s := range r.infra {
		c.Infra("%s", s)
	}
}

func replayIdentityRecord(c *core.Ctx, rf replayFile) {
	var rec struct {
		Action idAct `json:"action"`
		Inst   struct {
			Leaf    int    `json:"leaf"`
			Variant int    `json:"variant"`
			Path    string `json:"path"`
			Desc    string `json:"desc"`
		} `json:"inst"`
		Base      string  `json:"base_block_hex"`
		From      string  `json:"from_block_hex"`
		Perturbed string  `json:"perturbed_block_hex"`
		PartSize  int     `json:"part_size"`
		Model     idState `json:"model"`
		What      string  `json:"instantiation"`
		KitSeed   int64   `json:"kit_seed"`
		Shape     []int   `json:"shape_tuple"`
		Recover   uint32  `json:"recover"`
	}
	if err := json.Unmarshal(rf.Record, &rec); err != nil {
		c.Infra("replay file: bad identity record (%v)", err)
		return
	}
	base, e1 := hex.DecodeString(rec.Base)
	from, e2 := hex.DecodeString(rec.From)
	if e1 != nil || e2 != nil || len(base) == 0 {
		c.Infra("replay file: bad block bytes")
		return
	}
	if len(rec.Shape) == 3 && rec.Base == rec.From {
		// a perturbation of the proposer's block itself: rebuild that block from its seed, so
		// that the replay does not depend on the encoding of the tree that recorded it
		sh := shape{rec.Shape[0], rec.Shape[1], rec.Shape[2]}
		if bz, err := encodeBlock(newKit(rec.KitSeed, maxInt(sh.NPc, 2)).block(sh, rec.Recover)); err == nil {
			base, from = bz, bz
		}
	}
	fb, err := freshBlock(base)
	if err != nil {
		c.Infra("replay file: base block does not decode: %v", err)
		return
	}
	r := &idReplay{c: c, kit: newKit(rf.Seed, 4), partSize: rec.PartSize, base: base, cur: from, rng: rand.New(rand.NewSource(1)),
		drifted: map[string]bool{}, skipped: map[string]int{}, distinct: map[string]bool{}, visited: map[int]bool{}}
	r.bi = newBaseInfo(fb)
	r.obs0, err = observeBlock(fb, r.partSize)
	if err != nil {
		c.Infra("replay file: %v", err)
		return
	}
	a := rec.Action
	in := idInst{leaf: rec.Inst.Leaf, variant: rec.Inst.Variant, path: rec.Inst.Path, desc: rec.Inst.Desc}
	b, err := freshBlock(from)
	if err != nil {
		c.Infra("replay file: %v", err)
		return
	}
	switch {
	case a.Op == "restore":
	case a.Kind == "insert" || (a.Kind == "content" && in.leaf < 0):
		// the new item was generated: take the perturbed block as recorded on the wire
		pb, err := hex.DecodeString(rec.Perturbed)
		if err != nil || len(pb) == 0 {
			c.Infra("replay file: the perturbed block was not recorded")
			return
		}
		if b, err = freshBlock(pb); err != nil {
			c.Infra("replay file: %v", err)
			return
		}
	default:
		if _, err := r.apply(b, a, in); err != nil {
			c.Infra("replay file: %v", err)
			return
		}
		if a.Reseal {
			reseal(b)
		}
	}
	r.check(b, a, rec.Model, in, rec.What, nil)
	c.Out().Traces++
	c.Out().Evaluations += r.evals
}

func replaySurveyRecord(c *core.Ctx, rf replayFile) {
	var rec struct {
		Field     string `json:"field"`
		LeafIndex int    `json:"leaf_index"`
		Variant   int    `json:"variant"`
		Block     string `json:"block_hex"`
		PartSize  int    `json:"part_size"`
	}
	if err := json.Unmarshal(rf.Record, &rec); err != nil {
		c.Infra("replay file: bad survey record (%v)", err)
		return
	}
	bz, err := hex.DecodeString(rec.Block)
	if err != nil {
		c.Infra("replay file: %v", err)
		return
	}
	fb, err := freshBlock(bz)
	if err != nil {
		c.Infra("replay file: %v", err)
		return
	}
	obs0, _ := observeBlock(fb, rec.PartSize)
	b, _ := freshBlock(bz)
	fv := reflect.ValueOf(b.Header).Elem().FieldByName(rec.Field)
	if !fv.IsValid() {
		c.Infra("replay file: types.Header has no field %s", rec.Field)
		return
	}
	var ls []leaf
	collectLeaves(settable(fv), "Header."+rec.Field, nil, &ls)
	if rec.LeafIndex >= len(ls) {
		c.Infra("replay file: leaf %d not found", rec.LeafIndex)
		return
	}
	d, ok := ls[rec.LeafIndex].perturb(rec.Variant)
	if !ok {
		c.Infra("replay file: perturbation %d not applicable", rec.Variant)
		return
	}
	obs, err := observeBlock(b, rec.PartSize)
	c.Out().Traces++
	c.Out().Evaluations++
	if err == nil && obs.Hash == obs0.Hash && obs.Parts.Equals(obs0.Parts) {
		c.Violate(rf.Key, fmt.Sprintf("changing Header.%s (%s %s) changes neither Block.Hash() nor the part-set header", rec.Field, ls[rec.LeafIndex].path, d), rf.Record)
	}
}

func replaySlotRecord(c *core.Ctx, rf replayFile) {
	var rec struct {
		KitSeed int64      `json:"kit_seed"`
		Ntx     [2]int     `json:"ntx"`
		Steps   []slotStep `json:"steps"`
	}
	if err := json.Unmarshal(rf.Record, &rec); err != nil || len(rec.Steps) == 0 {
		c.Infra("replay file: bad slot record (%v)", err)
		return
	}
	r := &slotReplay{seed: rf.Seed, retargets: map[string]int{}, drifts: map[string]string{}, replaced: map[string]int{}}
	r.runSteps(rec.Steps, rec.KitSeed, rec.Ntx)
	c.Out().Traces++
	c.Out().Evaluations += r.steps
	for _, v := range r.viol {
		c.Violate(v.Key, v.Desc, v.Record)
	}
	for _, s := range r.infra {
		c.Infra("%s", s)
	}
}
