package c12

// C12 - block identity commits to its content; part sets reassemble only the original.
//
// Models (spec/BlockParts): BlockParts.tla - proposer/receiver part sets with the simple
// Merkle tree and AddPart as coded, every kind of forged part; BlockId.tla - the block id
// as a function of the block's components, every single perturbation (optionally
// re-sealed).  TLC checks the invariants exhaustively on bounded instances and exports
// every explored transition.
//
// Binding: the exported graphs are replayed on the real code.
//   * parts: a transition tour plus seeded walks, for several concrete instantiations of
//     the abstract data (synthetic data with part sizes 1 B ... 64 KiB realising every
//     equality pattern of parts, and real serialized blocks), on types.PartSet /
//     NewPartSetFromHeader / AddPart with parts that went through the consensus wire
//     format; after every step Count/BitArray/IsComplete/GetPart and - when complete -
//     the reader's bytes, the decoded block, its id, and BlockStore.SaveBlock/LoadBlock
//     are compared.
//   * identity: every abstract perturbation is instantiated with every leaf perturbation
//     of the component (reflection over the decoded block), applied to a freshly decoded
//     block; Block.Hash(), MakePartSet().Header(), Data/Evidence/Commit roots and
//     ValidateBasic are compared with the model; the parts of every perturbed block are
//     offered to the proposer's part set.

import (
	"encoding/json"
	"fmt"
	"math/rand"
	"sort"
	"strings"
	"sync"
	"time"

	"github.com/lianxiangcloud/linkchain/types"

	"verifh/core"
	"verifh/mbt"
	"verifh/tlc"
)

func init() { core.Register("C12", runC12) }

func runC12(c *core.Ctx) {
	o := c.Out()
	o.Level = "model_checking"
	o.Rule = "behaviour = path through a TLC-exported graph (tour covering every edge + seeded walks) replayed on real objects for one concrete instantiation; " +
		"non-trivial = at least one part was accepted / at least one perturbation was applied; distinct (identity) = distinct (component, kind, leaf type path, value perturbation, re-sealed)"
	o.Assumptions = []string{
		"Keccak-256 is collision free (hashes are free constructors in the specification)",
		"forged parts and perturbed blocks are produced the way the wire produces them: built field by field, encoded with ser and DECODED into fresh objects (Part, Block, Data, Commit cache their hashes in unexported fields)",
		"parts with a negative index are offered to a throw-away set only (robustness against them is property C16's): a panic is recorded as drift, acceptance would be a violation",
		"Header.bloom is local to the node (never serialised, never hashed) and not a component of the block identity",
		"Header.Hash() omits Recover and Commit.Hash() omits Commit.BlockID; both are covered by the part-set hash, which is enough for the property as stated",
	}
	o.Trusted = []string{"TLC", "libs/ser decoding into fresh objects", "golang.org/x/crypto/sha3", "the reflective leaf walker of the harness (explicit content rules, independent of struct tags)"}

	if c.Replay != "" {
		runReplayFile(c)
		return
	}
	exh1 := runParts(c)
	exh2 := runIdent(c)
	exh3 := runSlot(c)
	o.Exhaustive = exh1 && exh2 && exh3
	if c.Thorough() {
		runModelControls(c)
	}
}

// ---------------------------------------------------------------------------------------
// part sets

func partInstances(c *core.Ctx, wide bool) []pInst {
	if wide {
		return []pInst{
			{Name: "synthetic-64B", Unit: 64},
			{Name: "synthetic-7B-short-last", Unit: 7, ShortLast: 2},
			{Name: "block", Block: true},
			{Name: "block-through-consensus", Block: true, Cons: true},
		}
	}
	return []pInst{
		{Name: "synthetic-1B", Unit: 1},
		{Name: "synthetic-7B", Unit: 7},
		{Name: "synthetic-7B-short-last", Unit: 7, ShortLast: 3},
		{Name: "synthetic-64B", Unit: 64},
		{Name: "synthetic-64B-short-last", Unit: 64, ShortLast: 1},
		{Name: "synthetic-4KiB", Unit: 4096, Budget: c.Pick(6000, 0)},
		{Name: "synthetic-64KiB", Unit: 65536, Budget: c.Pick(1500, 80000)},
		{Name: "synthetic-64KiB-short-last", Unit: 65536, ShortLast: 65535, Budget: c.Pick(1500, 40000)},
		{Name: "block", Block: true},
		{Name: "block-through-consensus", Block: true, Cons: true},
	}
}

func runParts(c *core.Ctx) bool {
	type job struct {
		cfg  string
		wide bool
	}
	jobs := []job{{"BlockParts.cfg", false}}
	if c.Thorough() {
		jobs = []job{{"BlockPartsBig.cfg", false}, {"BlockPartsWide.cfg", true}}
	}
	ok := true
	for _, j := range jobs {
		res := c.TLC(tlc.Options{SpecDir: c.SpecDir("BlockParts"), Module: "BlockParts", Config: j.cfg, Workers: 1, Timeout: c.MinutesT(4, 20)})
		if res == nil {
			return false
		}
		if res.Violated != "" || !res.Finished {
			c.Infra("BlockParts model (%s): %s\n%s", j.cfg, res.Describe(), res.Tail)
			return false
		}
		g, err := mbt.Load(res.Lines)
		if err != nil {
			c.Infra("BlockParts edge load: %v", err)
			return false
		}
		kinds := g.ActionKinds("cls")
		for _, cl := range partClasses {
			if kinds[cl] == 0 {
				c.Infra("BlockParts model (%s): no transition of class %q was explored (specification stale?)", j.cfg, cl)
				return false
			}
		}
		if r := g.ActionKinds("res"); r["added"] == 0 || r["dup"] == 0 || r["badindex"] == 0 || r["badproof"] == 0 {
			c.Infra("BlockParts model (%s): not every AddPart outcome was explored: %v", j.cfg, r)
			return false
		}
		c.SetExtra("parts_model_"+strings.TrimSuffix(j.cfg, ".cfg"), map[string]interface{}{"states": len(g.States), "edges": len(g.Edges), "edges_by_class": g.ActionKinds("cls"), "edges_by_result": g.ActionKinds("res")})
		t0 := time.Now()
		if !replayParts(c, g, partInstances(c, j.wide), j.cfg) {
			ok = false
		}
		c.SetExtra("parts_replay_seconds_"+strings.TrimSuffix(j.cfg, ".cfg"), time.Since(t0).Seconds())
	}
	return ok
}

const firstCons = 4

// partBlocks builds the real blocks of the "block" instantiations from the seed.
func partBlocks(c *core.Ctx) (blocks []*types.Block, blockBz [][]byte, kits []*blockKit, ok bool) {
	// the last three are first-height blocks (empty last commit, Recover = 0): the ones a
	// ConsensusState fresh from genesis can be offered
	shapes := []shape{{4, 2, 4}, {6, 1, 5}, {1, 0, 2}, {12, 2, 7}, {0, 0, 0}, {5, 2, 0}, {9, 1, 0}}
	for i, sh := range shapes {
		kit := newKit(c.Seed*101+int64(i), maxInt(sh.NPc, 4))
		rec := uint32(i % 2)
		if i >= firstCons {
			rec = 0
		}
		b := kit.block(sh, rec)
		bz, err := encodeBlock(b)
		if err != nil {
			c.Infra("cannot encode block %s: %v", sh, err)
			return nil, nil, nil, false
		}
		if err := b.ValidateBasic(); err != nil {
			c.Infra("built block %s is not valid: %v", sh, err)
			return nil, nil, nil, false
		}
		blocks, blockBz, kits = append(blocks, b), append(blockBz, bz), append(kits, kit)
	}
	return blocks, blockBz, kits, true
}

func replayParts(c *core.Ctx, g *mbt.Graph, insts []pInst, cfg string) bool {
	blocks, blockBz, kits, ok := partBlocks(c)
	if !ok {
		return false
	}
	reps := make([]*pReplay, len(insts))
	var wg sync.WaitGroup
	sem := make(chan struct{}, 8)
	for ii := range insts {
		wg.Add(1)
		go func(ii int) {
			defer wg.Done()
			sem <- struct{}{}
			defer func() { <-sem }()
			in := insts[ii]
			rng := rand.New(rand.NewSource(c.Seed*1000003 + int64(ii)*7 + 1))
			r := &pReplay{c: c, inst: in, seed: c.Seed, rng: rng, drifted: map[string]bool{}, classes: map[string]int{}, blocks: blocks, blockBz: blockBz, kits: kits, forceBlock: -1}
			if in.Cons {
				r.blocks, r.blockBz, r.kits = blocks[firstCons:], blockBz[firstCons:], kits[firstCons:]
			}
			reps[ii] = r
			defer func() {
				if x := recover(); x != nil {
					r.infra = append(r.infra, fmt.Sprintf("parts[%s]: harness panic: %v", in.Name, x))
				}
			}()
			var seqs [][]int
			tours := g.Tour(in.Budget, rng)
			if in.Budget > 0 {
				// a budgeted prefix: the first tours cover the most
				n := 0
				for _, t := range tours {
					if n > in.Budget {
						break
					}
					seqs = append(seqs, t)
					n += len(t)
				}
			} else {
				seqs = tours
			}
			nw := c.Pick(60, 600)
			if in.Unit >= 4096 {
				nw = c.Pick(10, 100)
			}
			seqs = append(seqs, g.Walks(nw, 40, rng)...)
			for _, s := range seqs {
				r.run(g, s)
				if len(r.viol) > 0 || len(r.infra) > 0 {
					break
				}
			}
		}(ii)
	}
	wg.Wait()
	o := c.Out()
	perInst := map[string]interface{}{}
	neg := map[string]string{}
	for _, r := range reps {
		if r == nil {
			continue
		}
		o.Traces += r.behav
		o.Evaluations += r.steps
		o.Distinct += r.nontriv
		for _, v := range r.viol {
			c.Violate(v.Key, v.Desc, v.Record)
		}
		for _, d := range r.drifts {
			driftOnce(c, d)
		}
		for _, s := range r.infra {
			c.Infra("%s", s)
		}
		if r.sample != nil && (r.inst.Block || r.inst.Name == "synthetic-7B-short-last") {
			c.Sample(r.sample)
		}
		perInst[r.inst.Name] = map[string]interface{}{"behaviours": r.behav, "steps": r.steps, "blocks_decoded": r.decodes, "blockstore_round_trips": r.stores, "consensus_deliveries": r.consSteps, "consensus_blocks_decoded": r.consBlocks, "offers": sortedClassCounts(r.classes)}
		switch r.negPanic {
		case 1:
			neg[r.inst.Name] = "panic"
		case 2:
			neg[r.inst.Name] = "no panic"
		}
	}
	c.SetExtra("parts_replay_"+strings.TrimSuffix(cfg, ".cfg"), perInst)
	if len(neg) > 0 {
		np := 0
		for _, v := range neg {
			if v == "panic" {
				np++
			}
		}
		c.SetExtra("negative_index_observation", fmt.Sprintf("AddPart(part with Index -1) on a throw-away set: panic in %d of %d instantiations (specification: rejected with the index error)", np, len(neg)))
		if np > 0 {
			driftOnce(c, "AddPart panics on a part with a negative index (robustness is property C16's)")
		}
	}
	// negative control: a corrupted expectation must be noticed
	if !partsControl(c, g, blocks, blockBz) {
		c.Infra("vacuous binding: the part-set replay accepted a corrupted expectation")
		return false
	}
	return true
}

var driftSeen sync.Map

// driftOnce records a pi_shape mismatch once per run.
func driftOnce(c *core.Ctx, msg string) {
	if _, dup := driftSeen.LoadOrStore(msg, true); !dup {
		c.Drift("%s", msg)
	}
}

// every class of offer of the specification must occur in the exported graph
var partClasses = []string{"good", "flip", "trunc", "extend", "empty", "bytesof", "proofof", "shift", "aunt", "auntswap", "auntdrop", "auntadd", "othertotal", "otherblock", "innerleaf", "extrapart"}

// partsControl replays a short behaviour whose expected result was corrupted
// ("badproof" -> "added") and reports whether the replay noticed.
func partsControl(c *core.Ctx, g *mbt.Graph, blocks []*types.Block, blockBz [][]byte) bool {
	// find start(orig of 3 distinct) followed by a flip offer
	for si, e := range g.Edges {
		var st pState
		var a pAct
		json.Unmarshal(e.Act, &a)
		json.Unmarshal(e.ToSt, &st)
		if a.Op != "start" || len(st.Orig) < 2 || st.Orig[len(st.Orig)-1] != len(st.Orig) {
			continue
		}
		for _, ei := range g.Out[e.To] {
			var b pAct
			json.Unmarshal(g.Edges[ei].Act, &b)
			if b.Cls != "flip" || b.Res != "badproof" {
				continue
			}
			// a private copy of the graph edge with the corrupted label
			b.Res = "added"
			lab, _ := json.Marshal(b)
			g2 := &mbt.Graph{States: g.States, Edges: append([]mbt.Edge{}, g.Edges...), Out: g.Out}
			g2.Edges[ei].Act = lab
			r := &pReplay{forceBlock: -1, c: c, inst: pInst{Name: "control", Unit: 64}, seed: c.Seed, rng: rand.New(rand.NewSource(1)), drifted: map[string]bool{}, classes: map[string]int{}, blocks: blocks, blockBz: blockBz}
			r.run(g2, []int{si, ei})
			c.SetExtra("negative_control_parts", fmt.Sprintf("corrupted expectation noticed: %v", len(r.viol) > 0))
			return len(r.viol) > 0
		}
	}
	return false
}

// ---------------------------------------------------------------------------------------
// the proposal slot of a ConsensusState (re-targeting by a polka / a commit)

func runSlot(c *core.Ctx) bool {
	cfg := "ProposalSlot.cfg"
	if c.Thorough() {
		cfg = "ProposalSlotBig.cfg"
	}
	res := c.TLC(tlc.Options{SpecDir: c.SpecDir("BlockParts"), Module: "ProposalSlot", Config: cfg, Workers: 1, Timeout: c.MinutesT(3, 10)})
	if res == nil {
		return false
	}
	if res.Violated != "" || !res.Finished {
		c.Infra("ProposalSlot model (%s): %s\n%s", cfg, res.Describe(), res.Tail)
		return false
	}
	g, err := mbt.Load(res.Lines)
	if err != nil {
		c.Infra("ProposalSlot edge load: %v", err)
		return false
	}
	kinds := g.ActionKinds("op")
	for _, op := range []string{"propose", "part", "otherpart", "polka", "commit"} {
		if kinds[op] == 0 {
			c.Infra("ProposalSlot model: no %q transition explored", op)
			return false
		}
	}
	t0 := time.Now()
	r := replaySlot(c, g, c.Pick(40, 400))
	o := c.Out()
	o.Traces += r.behaviours
	o.Evaluations += r.steps
	o.Distinct += r.behaviours
	for _, v := range r.viol {
		c.Violate(v.Key, v.Desc, v.Record)
	}
	for _, d := range r.drifts {
		driftOnce(c, d)
	}
	for _, s := range r.infra {
		c.Infra("%s", s)
	}
	if r.sample != nil {
		c.Sample(r.sample)
	}
	c.SetExtra("slot_model", map[string]interface{}{"states": len(g.States), "edges": len(g.Edges), "edges_by_action": kinds})
	c.SetExtra("slot_replay", map[string]interface{}{"behaviours": r.behaviours, "steps": r.steps, "consensus_nodes": r.nodes,
		"blocks_held_by_the_node_compared": r.blocksSeen, "commits": r.commits, "vote_deliveries": r.retargets,
		"blocks_that_replaced_a_complete_other_block_compared": r.replaced, "seconds": time.Since(t0).Seconds()})
	if len(r.viol) == 0 && len(r.infra) == 0 {
		for _, k := range []string{"proposal block after polka", "committed after +2/3 "} {
			if r.replaced[k] == 0 {
				c.Infra("proposal-slot replay: the scenario %q (a complete block replaced after a re-targeting) was not exercised: %v", k, r.replaced)
				return false
			}
		}
	}
	// negative control: the same behaviour with a corrupted expectation (the node is said to
	// hold block A after B's parts completed) must be noticed
	if len(r.viol) == 0 && len(r.infra) == 0 && !slotControl(c, g) {
		c.Infra("vacuous binding: the proposal-slot replay accepted a corrupted expectation")
		return false
	}
	return len(r.infra) == 0
}

// slotControl: propose A, polka for B, B's parts; the expectation of the last step is
// corrupted to "the node holds A".
func slotControl(c *core.Ctx, g *mbt.Graph) bool {
	mk := func(op, x string, i int, st slotState) slotStep {
		return slotStep{Act: slotAct{Op: op, X: x, I: i}, To: st}
	}
	open := slotState{Phase: "open", Tot: []int{1, 2}, Target: "A", Have: []int{}, Blk: "none", Blkhash: "none", Step: "propose", Locked: "none", Polka: "none", Commit: "none", Committed: "none", Committedhash: "none", Dropped: "none"}
	s1 := open
	s1.Have, s1.Blk, s1.Blkhash, s1.Step = []int{1}, "A", "A", "prevote"
	s2 := open
	s2.Target, s2.Step, s2.Polka = "B", "precommit", "B"
	s3 := s2
	s3.Have = []int{1}
	s4 := s2
	s4.Have, s4.Blk, s4.Blkhash = []int{1, 2}, "A", "A" // corrupted: the truth is B
	r := &slotReplay{seed: c.Seed, retargets: map[string]int{}, drifts: map[string]string{}, replaced: map[string]int{}}
	r.runSteps([]slotStep{mk("propose", "A", 0, open), mk("part", "A", 1, s1), mk("polka", "B", 0, s2), mk("part", "B", 1, s3), mk("part", "B", 2, s4)}, c.Seed+4242, [2]int{3, 5})
	noticed := len(r.viol) > 0 && len(r.infra) == 0
	c.SetExtra("negative_control_slot", fmt.Sprintf("corrupted expectation noticed: %v", noticed))
	return noticed
}

// ---------------------------------------------------------------------------------------
// identity

func runIdent(c *core.Ctx) bool {
	cfg := "BlockId.cfg"
	if c.Thorough() {
		cfg = "BlockIdBig.cfg"
	}
	res := c.TLC(tlc.Options{SpecDir: c.SpecDir("BlockParts"), Module: "MC_BlockId", Config: cfg, Workers: 1, Timeout: c.MinutesT(4, 20)})
	if res == nil {
		return false
	}
	if res.Violated != "" || !res.Finished {
		c.Infra("BlockId model (%s): %s\n%s", cfg, res.Describe(), res.Tail)
		return false
	}
	g, err := mbt.Load(res.Lines)
	if err != nil {
		c.Infra("BlockId edge load: %v", err)
		return false
	}
	// the header fields the specification knows
	modelFields := map[string]bool{}
	for _, e := range g.Edges {
		var a idAct
		if json.Unmarshal(e.Act, &a) == nil && a.Comp == "hdr" {
			modelFields[a.F] = true
		}
	}
	c.SetExtra("identity_model", map[string]interface{}{"states": len(g.States), "edges": len(g.Edges), "edges_by_component": g.ActionKinds("comp"), "edges_by_kind": g.ActionKinds("kind"), "header_fields": len(modelFields)})
	t0 := time.Now()
	beh, evals, distinct, skipped, cross := runIdentity(c, g, c.Seed, c.Pick(3, 3), c.Pick(0, 2))
	o := c.Out()
	o.Traces += beh
	o.Evaluations += evals
	o.Distinct += distinct
	c.SetExtra("identity_replay_seconds", time.Since(t0).Seconds())
	sevals, report := headerFieldSurvey(c, c.Seed, modelFields)
	o.Evaluations += sevals
	var names []string
	for k := range report {
		names = append(names, k)
	}
	sort.Strings(names)
	var rep []string
	for _, k := range names {
		rep = append(rep, k+": "+report[k])
	}
	c.SetExtra("header_field_survey", rep)
	c.SetExtra("identity_replay", map[string]interface{}{"blocks": beh, "perturbed_blocks_compared": evals, "distinct_perturbations": distinct, "skipped": skipped, "survey_evaluations": sevals,
		"parts_of_perturbed_blocks_offered_to_the_proposers_set": cross})
	o.Evaluations += cross
	if !identControl(c) {
		c.Infra("vacuous binding: the identity replay accepted a block that was not perturbed")
		return false
	}
	return true
}

// identControl: a "perturbation" that changes nothing must be reported as an unchanged id.
func identControl(c *core.Ctx) bool {
	ctl := core.NewCtx("C12", c.Tier, c.Seed, c.Root)
	kit := newKit(c.Seed+99, 4)
	sh := shape{2, 1, 3}
	blk := kit.block(sh, 0)
	bz, err := encodeBlock(blk)
	if err != nil {
		return false
	}
	fb, _ := freshBlock(bz)
	r := &idReplay{visited: map[int]bool{}, c: ctl, kit: kit, sh: sh, partSize: len(bz)/3 + 1, base: bz, cur: bz, rng: rand.New(rand.NewSource(1)), drifted: map[string]bool{}, skipped: map[string]int{}, distinct: map[string]bool{}}
	r.obs0, err = observeBlock(fb, r.partSize)
	if err != nil {
		return false
	}
	nb, _ := freshBlock(bz) // not perturbed at all
	r.check(nb, idAct{Op: "perturb", Comp: "hdr", Kind: "content", F: "Height"}, idState{Phase: "open", Npert: 1, IdChanged: true, HashChanged: true, PartsChanged: true}, idInst{path: "Header.Height"}, "control (no change)", nil)
	noticed := len(ctl.Out().Violations) > 0
	c.SetExtra("negative_control_identity", fmt.Sprintf("unperturbed block noticed: %v", noticed))
	return noticed
}

// ---------------------------------------------------------------------------------------
// the invariants are not vacuous: seeded defects of the DESIGN must violate them

func runModelControls(c *core.Ctx) {
	type ctl struct{ module, cfg, want string }
	ctls := []ctl{
		{"BlockParts", "BlockParts_noproof.cfg", "PartsAreOriginal"},
		{"BlockParts", "BlockParts_noindex.cfg", "PartsAreOriginal"},
		{"MC_BlockId", "BlockId_lostfield.cfg", "IdInjective"},
		{"MC_BlockId", "BlockId_unordered.cfg", "HashBinds"},
		{"ProposalSlot", "ProposalSlot_nopolkaclear.cfg", "SlotHoldsTarget"},
		{"ProposalSlot", "ProposalSlot_nocommitclear.cfg", "SlotHoldsTarget"},
	}
	out := map[string]string{}
	for _, k := range ctls {
		res, err := tlc.Run(tlc.Options{SpecDir: c.SpecDir("BlockParts"), Module: k.module, Config: k.cfg, Workers: 1, Timeout: c.MinutesT(3, 10)})
		if err != nil {
			c.Infra("model control %s: %v", k.cfg, err)
			continue
		}
		out[k.cfg] = fmt.Sprintf("violated=%q (expected %s) distinct=%d wall=%.1fs", res.Violated, k.want, res.Distinct, res.Wall)
		if !strings.Contains(res.Violated, k.want) {
			c.Infra("model control %s: the seeded design defect does not violate %s (%s)", k.cfg, k.want, res.Describe())
		}
	}
	c.SetExtra("model_controls", out)
}
