package c12

// Replay of the ProposalSlot model on a real ConsensusState: one node (not a validator)
// of a real four-validator chain receives a signed proposal and the parts of block A,
// +2/3 prevotes / precommits of the other validators (real keys) for A or for another
// block B, and B's parts - every message through the wire format and handleMsg (hook
// H1).  After every step the proposal slot is compared with the model; whenever the
// node holds a block (ProposalBlock, or the block it handed to CommitBlock) that block
// must BE the block of the slot's header: re-encode byte for byte, Hash(), part-set
// header, content roots and ValidateBasic as a freshly decoded copy has them.

import (
	"bytes"
	"encoding/json"
	"fmt"
	"math/rand"
	"os"
	"os/signal"
	"syscall"
	"time"

	"github.com/lianxiangcloud/linkchain/consensus"
	"github.com/lianxiangcloud/linkchain/libs/common"
	"github.com/lianxiangcloud/linkchain/types"

	"verifh/core"
	"verifh/mbt"
)

type slotAct struct {
	Op string `json:"op"`
	X  string `json:"x"`
	I  int    `json:"i"`
}

type slotState struct {
	Phase         string `json:"phase"`
	Tot           []int  `json:"tot"`
	Target        string `json:"target"`
	Have          []int  `json:"have"`
	Blk           string `json:"blk"`
	Blkhash       string `json:"blkhash"`
	Step          string `json:"step"`
	Locked        string `json:"locked"`
	Polka         string `json:"polka"`
	Commit        string `json:"commit"`
	Committed     string `json:"committed"`
	Committedhash string `json:"committedhash"`
	Dropped       string `json:"dropped"` // history: the block that was in the slot when it was re-targeted
}

// firstBlock builds a block the chain status accepts as the next block (what
// createProposalBlock fills in), with ntx signed transactions.
func (k *blockKit) firstBlock(status consensus.NewStatus, ntx int) *types.Block {
	rng := k.rng
	var txs types.Txs
	off := rng.Intn(6)
	for i := 0; i < ntx; i++ {
		txs = append(txs, k.tx(off+i))
	}
	b := &types.Block{
		Header: &types.Header{
			ChainID: status.ChainID, Height: status.LastBlockHeight + 1, Coinbase: common.BytesToAddress(randBytes(rng, 20)),
			Time: uint64(1500000000 + rng.Intn(1<<28)), NumTxs: uint64(len(txs)), TotalTxs: status.LastBlockTotalTx + uint64(len(txs)),
			ParentHash: status.LastBlockID.Hash, LastBlockID: status.LastBlockID,
			ValidatorsHash: common.BytesToHash(status.Validators.Hash()), ConsensusHash: common.BytesToHash(status.ConsensusParams.Hash()),
			StateHash: common.BytesToHash(randBytes(rng, 32)), ReceiptHash: common.BytesToHash(randBytes(rng, 32)),
			GasLimit: uint64(1<<22 + rng.Intn(1<<30)), GasUsed: uint64(1 + rng.Intn(1<<22)),
		},
		Data:       &types.Data{Txs: txs},
		LastCommit: &types.Commit{},
	}
	b.LastCommitHash = b.LastCommit.Hash()
	b.DataHash = b.Data.Hash()
	b.EvidenceHash = b.Evidence.Hash()
	return b
}

type slotBlock struct {
	bz       []byte
	partSize int
	ps       *types.PartSet
	id       types.BlockID
	ref      blockObs // a freshly decoded copy
}

type slotStep struct {
	Act slotAct   `json:"act"`
	To  slotState `json:"to"`
}

type slotRun struct {
	node       *consRecv
	blk        map[string]*slotBlock
	kitSeed    int64
	ntx        [2]int
	steps      []slotStep
	lastRetarg string
}

type slotReplay struct {
	seed       int64
	behaviours int
	steps      int
	nodes      int
	blocksSeen int            // blocks held by the node that were compared with the proposer's
	replaced   map[string]int // ... of these, blocks that took the place of a COMPLETE other block, per re-targeting kind
	commits    int
	selfKills  int // finalizeCommit ended in cmn.Kill (SIGTERM to the own process, intercepted)
	retargets  map[string]int
	viol       []core.Violation
	drifts     map[string]string
	infra      []string
	sample     interface{}
}

func (r *slotReplay) violate(key, desc string, rec interface{}) {
	for _, v := range r.viol {
		if v.Key == key {
			return
		}
	}
	r.viol = append(r.viol, core.Violation{Key: key, Desc: desc, Record: rec})
}

func makeSlotBlock(b *types.Block, total int) (*slotBlock, error) {
	bz, err := encodeBlock(b)
	if err != nil {
		return nil, err
	}
	sb := &slotBlock{bz: bz, partSize: (len(bz) + total - 1) / total}
	if total == 1 {
		sb.partSize = len(bz) + 7
	}
	sb.ps = b.MakePartSet(sb.partSize)
	if sb.ps.Total() != total {
		return nil, fmt.Errorf("block of %d bytes gives %d parts of %d bytes, wanted %d", len(bz), sb.ps.Total(), sb.partSize, total)
	}
	fb, err := freshBlock(bz)
	if err != nil {
		return nil, err
	}
	if sb.ref, err = observeBlock(fb, sb.partSize); err != nil {
		return nil, err
	}
	if !sb.ref.Valid {
		return nil, fmt.Errorf("built block is not valid: %s", sb.ref.VErr)
	}
	sb.id = types.BlockID{Hash: sb.ref.Hash, PartsHeader: wireHeader(sb.ps.Header())}
	return sb, nil
}

// start builds the node and the two blocks.
func (r *slotReplay) start(kitSeed int64, tot []int, ntx [2]int) (*slotRun, error) {
	kit := newKit(kitSeed, 4)
	node, err := newConsNode(kit.chain, kit.valKeys)
	if err != nil {
		return nil, err
	}
	r.nodes++
	status := node.cs.VerifStatus()
	run := &slotRun{node: node, blk: map[string]*slotBlock{}, kitSeed: kitSeed, ntx: ntx}
	for i, name := range []string{"A", "B"} {
		sb, err := makeSlotBlock(kit.firstBlock(status, ntx[i]), tot[i])
		if err != nil {
			node.close()
			return nil, err
		}
		run.blk[name] = sb
	}
	if run.blk["A"].id.Equals(run.blk["B"].id) {
		node.close()
		return nil, fmt.Errorf("blocks A and B coincide")
	}
	if err := node.propose(run.blk["A"].ps.Header()); err != nil {
		node.close()
		return nil, err
	}
	return run, nil
}

// compareBlock checks that the block object the node holds IS block want (hashAs names the
// block whose hash the model expects it to report - always the same on a correct design).
func (run *slotRun) compareBlock(b *types.Block, want, hashAs string) (field, bad string) {
	w := run.blk[want]
	re, err := encodeBlock(b)
	if err != nil {
		return "bytes", fmt.Sprintf("the block does not encode: %v", err)
	}
	if !bytes.Equal(re, w.bz) {
		return "bytes", fmt.Sprintf("the block re-encodes to %d bytes that differ from block %s's %d bytes", len(re), want, len(w.bz))
	}
	obs, err := observeBlock(b, w.partSize)
	if err != nil {
		return "observe", err.Error()
	}
	h := run.blk[hashAs].ref
	if obs.Hash != h.Hash {
		return "hash", fmt.Sprintf("the node holds the bytes of block %s (hash %s) but its Hash() says %s", want, w.ref.Hash.String(), obs.Hash.String())
	}
	if !obs.Parts.Equals(w.ref.Parts) {
		return "partsheader", fmt.Sprintf("MakePartSet(%d).Header() = %v, block %s has %v", w.partSize, obs.Parts, want, w.ref.Parts)
	}
	if obs.Data != w.ref.Data || obs.Ev != w.ref.Ev || obs.Pc != w.ref.Pc {
		return "roots", fmt.Sprintf("Data/Evidence/LastCommit hashes %s %s %s, a fresh copy of block %s has %s %s %s", obs.Data.String(), obs.Ev.String(), obs.Pc.String(), want, w.ref.Data.String(), w.ref.Ev.String(), w.ref.Pc.String())
	}
	if !obs.Valid {
		return "validatebasic", fmt.Sprintf("ValidateBasic rejects the block the node holds (%s); a fresh copy of block %s is valid", obs.VErr, want)
	}
	return "", ""
}

var slotSteps = map[string]string{"propose": "RoundStepPropose", "prevote": "RoundStepPrevote", "precommit": "RoundStepPrecommit", "commit": "RoundStepCommit", "done": "RoundStepNewHeight"}

// observe compares the node with the model state; key "" = fine.
func (r *slotReplay) observe(run *slotRun, st slotState) (key, bad string) {
	rs := run.node.cs.GetRoundState()
	app := run.node.app
	if st.Step == "done" {
		if app.committed == nil {
			if rs.ProposalBlock != nil {
				if f, b := run.compareBlock(rs.ProposalBlock, st.Committed, st.Committedhash); b != "" {
					return "block/" + f, fmt.Sprintf("the node holds every part of block %s, which has +2/3 precommits, and cannot commit it; ProposalBlock: %s", st.Committed, b)
				}
			}
			return "commit/missing", fmt.Sprintf("the node holds every part of block %s, which has +2/3 precommits, and does not commit it", st.Committed)
		}
		r.commits++
		r.blocksSeen++
		if st.Dropped != "none" && st.Dropped != "" && st.Dropped != st.Committed && len(run.lastRetarg) >= 5 {
			r.replaced["committed after "+run.lastRetarg[:5]]++
		}
		if f, b := run.compareBlock(app.committed, st.Committed, st.Committedhash); b != "" {
			return "committed/" + f, "the block handed to CommitBlock: " + b
		}
		if app.committedParts == nil || !app.committedParts.HasHeader(run.blk[st.Committed].ps.Header()) {
			return "committed/parts", "the part set handed to CommitBlock is not the committed block's"
		}
		if rs.Height != run.node.height+1 {
			// finalizeCommit: ApplyBlock refused the block it had just handed to CommitBlock and the
			// node asked for its own termination (cmn.Kill)
			r.selfKills++
			return "commit/stopped", fmt.Sprintf("the node committed block %s and then stopped itself: ApplyBlock rejected the block it decoded from the parts", st.Committed)
		}
		return "", ""
	}
	if app.committed != nil {
		return "commit/unexpected", "the node committed a block although the specification does not"
	}
	if s := fmt.Sprint(rs.Step); s != slotSteps[st.Step] {
		r.drifts["step/"+st.Step] = fmt.Sprintf("slot: node step %s, the specification says %s", s, st.Step)
	}
	tb := run.blk[st.Target]
	if tb == nil {
		return "model", "no target in an open state"
	}
	if rs.ProposalBlockParts == nil || !rs.ProposalBlockParts.HasHeader(tb.ps.Header()) {
		return "parts/header", fmt.Sprintf("ProposalBlockParts is not for the header of block %s", st.Target)
	}
	if rs.ProposalBlockParts.Count() != len(st.Have) {
		return "parts/count", fmt.Sprintf("ProposalBlockParts holds %d parts, the specification says %d", rs.ProposalBlockParts.Count(), len(st.Have))
	}
	for _, i := range st.Have {
		p := rs.ProposalBlockParts.GetPart(i - 1)
		if p == nil || !bytes.Equal(p.Bytes, tb.ps.GetPart(i-1).Bytes) {
			return "parts/bytes", fmt.Sprintf("part %d of block %s is missing or differs", i-1, st.Target)
		}
	}
	if st.Blk == "none" {
		if rs.ProposalBlock != nil {
			r.drifts["stale/"+run.lastRetarg] = fmt.Sprintf("slot: ProposalBlock is still set after the part set was re-targeted (%s); the specification clears it", run.lastRetarg)
		}
		return "", ""
	}
	if rs.ProposalBlock == nil {
		return "block/missing", fmt.Sprintf("the part set of block %s is complete but the node has no ProposalBlock", st.Blk)
	}
	r.blocksSeen++
	if st.Dropped != "none" && st.Dropped != "" && st.Dropped != st.Blk && len(run.lastRetarg) >= 5 {
		r.replaced["proposal block after "+run.lastRetarg[:5]]++
	}
	if f, b := run.compareBlock(rs.ProposalBlock, st.Blk, st.Blkhash); b != "" {
		return "block/" + f, "ProposalBlock: " + b
	}
	return "", ""
}

// apply executes one model action on the node; failure = recovered panic of handleMsg.
func (r *slotReplay) apply(run *slotRun, a slotAct, pos int) (failure interface{}, err error) {
	node := run.node
	switch a.Op {
	case "part", "otherpart":
		p, err := wirePart(run.blk[a.X].ps.GetPart(a.I-1), node.height, node.round)
		if err != nil {
			return nil, err
		}
		return node.deliver(p, node.round), nil
	case "polka":
		run.lastRetarg = "polka for " + a.X
		r.retargets["polka"]++
		return node.votes(types.VoteTypePrevote, run.blk[a.X].id, int64(pos))
	case "commit":
		run.lastRetarg = "+2/3 precommits for " + a.X
		r.retargets["commit"]++
		return node.votes(types.VoteTypePrecommit, run.blk[a.X].id, int64(pos))
	}
	return nil, fmt.Errorf("unknown action %q", a.Op)
}

func (r *slotReplay) record(run *slotRun, tot []int, mismatch string) map[string]interface{} {
	return map[string]interface{}{"kind": "slot", "kit_seed": run.kitSeed, "ntx": run.ntx, "tot": tot, "steps": run.steps, "mismatch": mismatch,
		"block_A_hex": fmt.Sprintf("%x", run.blk["A"].bz), "block_B_hex": fmt.Sprintf("%x", run.blk["B"].bz),
		"part_sizes": []int{run.blk["A"].partSize, run.blk["B"].partSize}}
}

// scenario names the situation of a step for the violation key.
func scenario(run *slotRun, st slotState) string {
	switch {
	case st.Polka != "none" && st.Commit != "none":
		return "after-polka-" + st.Polka + "-and-commit-" + st.Commit
	case st.Polka != "none":
		return "after-polka-" + st.Polka
	case st.Commit != "none":
		return "after-commit-" + st.Commit
	}
	return "proposal"
}

// runSteps executes a behaviour given as (action, expected state) pairs; the first must
// be the proposal.
func (r *slotReplay) runSteps(steps []slotStep, kitSeed int64, ntx [2]int) {
	var run *slotRun
	defer func() {
		if run != nil {
			run.node.close()
		}
	}()
	for pos, s := range steps {
		a, st := s.Act, s.To
		switch a.Op {
		case "propose":
			if run != nil {
				run.node.close()
			}
			var err error
			run, err = r.start(kitSeed+int64(pos), st.Tot, ntx)
			if err != nil {
				r.infra = append(r.infra, "slot: "+err.Error())
				run = nil
				return
			}
			run.steps = append(run.steps, s)
			r.steps++
			if r.sample == nil && st.Tot[0] > 1 {
				r.sample = map[string]interface{}{"slot_blocks": map[string]interface{}{"A_bytes": len(run.blk["A"].bz), "A_parts": st.Tot[0], "A_part_size": run.blk["A"].partSize,
					"B_bytes": len(run.blk["B"].bz), "B_parts": st.Tot[1], "B_part_size": run.blk["B"].partSize, "validators": 4}}
			}
			if k, bad := r.observe(run, st); bad != "" {
				r.violate("slot/proposal/"+k, bad, r.record(run, st.Tot, bad))
				return
			}
			continue
		case "restart":
			if run != nil {
				run.node.close()
				run = nil
			}
			continue
		}
		if run == nil {
			continue
		}
		run.steps = append(run.steps, s)
		r.steps++
		f, err := r.apply(run, a, pos)
		if err != nil {
			r.infra = append(r.infra, fmt.Sprintf("slot: %s: %v", a.Op, err))
			return
		}
		tot := steps[0].To.Tot
		if len(run.steps) > 0 {
			tot = run.steps[0].To.Tot
		}
		if f != nil {
			desc := fmt.Sprintf("handleMsg panicked on %s %s %d: %v", a.Op, a.X, a.I, f)
			r.violate("slot/"+scenario(run, st)+"/panic", desc, r.record(run, tot, desc))
			return
		}
		if k, bad := r.observe(run, st); bad != "" {
			if k == "model" {
				r.infra = append(r.infra, "slot: "+bad)
				return
			}
			desc := fmt.Sprintf("[A: %d parts of %d bytes, B: %d parts of %d bytes] after %s(%s,%d) (%s): %s", tot[0], run.blk["A"].partSize, tot[1], run.blk["B"].partSize, a.Op, a.X, a.I, scenario(run, st), bad)
			r.violate("slot/"+scenario(run, st)+"/"+k, desc, r.record(run, tot, bad))
			return
		}
	}
}

// replaySlot replays a tour and seeded walks of the exported ProposalSlot graph.
func replaySlot(c *core.Ctx, g *mbt.Graph, nWalks int) *slotReplay {
	// a node that cannot apply the block it committed sends SIGTERM to its own process
	// (cmn.Kill): keep the check alive and attribute the signal; a SIGTERM that no node
	// asked for is honoured when the replay is over
	sig := make(chan os.Signal, 64)
	signal.Notify(sig, syscall.SIGTERM)
	r := slotReplayGraph(c, g, nWalks)
	time.Sleep(20 * time.Millisecond)
	signal.Stop(sig)
	if n := len(sig); n > r.selfKills {
		fmt.Fprintln(os.Stderr, "C12: terminated by SIGTERM")
		os.Exit(143)
	}
	return r
}

func slotReplayGraph(c *core.Ctx, g *mbt.Graph, nWalks int) *slotReplay {
	r := &slotReplay{seed: c.Seed, retargets: map[string]int{}, drifts: map[string]string{}, replaced: map[string]int{}}
	rng := rand.New(rand.NewSource(c.Seed*7727 + 3))
	seqs := g.Tour(0, rng)
	seqs = append(seqs, g.Walks(nWalks, 14, rng)...)
	sizes := []int{0, 1, 3, 8, 14}
	for si, seq := range seqs {
		// cut the behaviour at its restarts: every piece starts with a proposal
		var piece []slotStep
		flush := func() {
			if len(piece) > 0 && piece[0].Act.Op == "propose" {
				r.behaviours++
				ntx := [2]int{sizes[rng.Intn(len(sizes))], sizes[rng.Intn(len(sizes))]}
				r.runSteps(piece, c.Seed*100003+int64(si)*977+int64(r.behaviours), ntx)
			}
			piece = nil
		}
		for _, ei := range seq {
			var s slotStep
			if json.Unmarshal(g.Edges[ei].Act, &s.Act) != nil || json.Unmarshal(g.Edges[ei].ToSt, &s.To) != nil {
				r.infra = append(r.infra, "slot: cannot decode edge "+mbt.Compact(g.Edges[ei].Act))
				return r
			}
			if s.Act.Op == "restart" {
				flush()
				continue
			}
			if s.Act.Op == "propose" {
				flush()
			}
			piece = append(piece, s)
			if len(r.viol) >= 8 || len(r.infra) > 0 {
				return r
			}
		}
		flush()
		if len(r.viol) >= 8 || len(r.infra) > 0 {
			return r
		}
	}
	return r
}
