package c12

// The consensus path of a block part: a real ConsensusState (hook H1, synchronous
// operation) that is not the proposer receives a signed Proposal carrying the part-set
// header and then BlockPartMessages through handleMsg -> addProposalBlockPart, which
// decodes the block when the set completes.

import (
	"fmt"
	"time"

	cfg "github.com/lianxiangcloud/linkchain/config"
	"github.com/lianxiangcloud/linkchain/consensus"
	cstypes "github.com/lianxiangcloud/linkchain/consensus/types"
	"github.com/lianxiangcloud/linkchain/libs/crypto"
	dbm "github.com/lianxiangcloud/linkchain/libs/db"
	"github.com/lianxiangcloud/linkchain/libs/log"
	"github.com/lianxiangcloud/linkchain/libs/ser"
	"github.com/lianxiangcloud/linkchain/types"
)

// consApp is the application behind the consensus state: it never has to produce or
// commit anything in these runs.
type consApp struct {
	checked        int
	committed      *types.Block
	committedParts *types.PartSet
}

func (a *consApp) Height() uint64                                   { return types.BlockHeightZero }
func (a *consApp) LoadBlockMeta(h uint64) *types.BlockMeta          { return nil }
func (a *consApp) LoadBlock(h uint64) *types.Block                  { return nil }
func (a *consApp) LoadBlockPart(h uint64, i int) *types.Part        { return nil }
func (a *consApp) LoadBlockCommit(h uint64) *types.Commit           { return nil }
func (a *consApp) LoadSeenCommit(h uint64) *types.Commit            { return nil }
func (a *consApp) GetValidators(h uint64) []*types.Validator        { return nil }
func (a *consApp) GetRecoverValidators(h uint64) []*types.Validator { return nil }
func (a *consApp) CreateBlock(h uint64, maxTxs int, gasLimit uint64, t uint64) *types.Block {
	return &types.Block{Header: &types.Header{Height: h, Time: t, GasLimit: gasLimit}, Data: &types.Data{}, LastCommit: &types.Commit{}}
}
func (a *consApp) PreRunBlock(b *types.Block)     {}
func (a *consApp) CheckBlock(b *types.Block) bool { a.checked++; return true }
func (a *consApp) CommitBlock(b *types.Block, ps *types.PartSet, sc *types.Commit, fs bool) ([]*types.Validator, error) {
	a.committed, a.committedParts = b, ps
	return nil, nil
}
func (a *consApp) SetLastChangedVals(h uint64, v []*types.Validator) {}

type consRecv struct {
	cs     *consensus.ConsensusState
	bus    *types.EventBus
	height uint64
	round  int
	app    *consApp
	chain  string
	keys   []crypto.PrivKeyEd25519
}

// newConsNode builds a node (not a validator) at the first height of a chain whose
// validators are keys and lets it enter round 0 (it waits for a proposal).
func newConsNode(chain string, keys []crypto.PrivKeyEd25519) (cr *consRecv, err error) {
	defer func() {
		if r := recover(); r != nil {
			err = fmt.Errorf("consensus set-up: %v", r)
		}
	}()
	gen := &types.GenesisDoc{ChainID: chain, ConsensusParams: types.DefaultConsensusParams()}
	for _, k := range keys {
		gen.Validators = append(gen.Validators, types.GenesisValidator{PubKey: k.PubKey(), Power: 10})
	}
	db := dbm.NewMemDB()
	status, err := consensus.CreateStatusFromGenesisDoc(db, gen)
	if err != nil {
		return nil, err
	}
	app := &consApp{}
	conf := cfg.TestConsensusConfig()
	be := consensus.NewBlockExecutor(db, log.NewNopLogger(), consensus.MockEvidencePool{})
	cs := consensus.NewConsensusState(conf, status, be, app, consensus.MockMempool{}, consensus.MockEvidencePool{})
	cs.SetLogger(log.NewNopLogger())
	bus := types.NewEventBus()
	bus.SetLogger(log.NewNopLogger())
	if err := bus.Start(); err != nil {
		return nil, err
	}
	cs.SetEventBus(bus)
	cs.VerifInstall()
	cr = &consRecv{cs: cs, bus: bus, app: app, chain: chain, keys: keys}
	rs := cs.GetRoundState()
	cr.height = rs.Height
	// NewHeight -> NewRound(0) -> Propose (this node is not the proposer: it waits)
	if f := cs.VerifFire(consensus.VerifTimeout{Duration: 0, Height: rs.Height, Round: 0, Step: cstypes.RoundStepNewHeight}); f != nil {
		bus.Stop()
		return nil, fmt.Errorf("entering round 0: %v", f)
	}
	cr.round = cs.GetRoundState().Round
	return cr, nil
}

// propose delivers the round's proposal for the part-set header, signed by the proposer.
func (cr *consRecv) propose(header types.PartSetHeader) (err error) {
	defer func() {
		if r := recover(); r != nil {
			err = fmt.Errorf("proposal: %v", r)
		}
	}()
	cs := cr.cs
	rs := cs.GetRoundState()
	proposer := rs.Validators.GetProposer()
	var pkey *crypto.PrivKeyEd25519
	for i := range cr.keys {
		if string(cr.keys[i].PubKey().Address()) == string(proposer.Address) {
			pkey = &cr.keys[i]
		}
	}
	if pkey == nil {
		return fmt.Errorf("proposer key not found")
	}
	prop := types.NewProposal(cr.height, cr.round, header, -1, types.BlockID{})
	sig, err := pkey.Sign(prop.SignBytes(cr.chain))
	if err != nil {
		return err
	}
	prop.Signature = sig
	// through the wire
	bz, err := ser.EncodeToBytesWithType(&consensus.ProposalMessage{Proposal: prop})
	if err != nil {
		return err
	}
	var msg consensus.ConsensusMessage
	if err := ser.DecodeBytesWithType(bz, &msg); err != nil {
		return err
	}
	if f := cs.VerifDeliver(msg, "proposer"); f != nil {
		return fmt.Errorf("delivering the proposal: %v", f)
	}
	rs = cs.GetRoundState()
	if rs.ProposalBlockParts == nil || !rs.ProposalBlockParts.HasHeader(header) {
		return fmt.Errorf("the proposal was not accepted (step %v)", rs.Step)
	}
	return nil
}

// newConsRecv = a node that has received the proposal for header.
func newConsRecv(chain string, keys []crypto.PrivKeyEd25519, header types.PartSetHeader) (*consRecv, error) {
	cr, err := newConsNode(chain, keys)
	if err != nil {
		return nil, err
	}
	if err := cr.propose(header); err != nil {
		cr.close()
		return nil, err
	}
	return cr, nil
}

// votes delivers +2/3 votes (three of the four validators, real keys) of the given type
// for the block id, one VoteMessage at a time through the wire and handleMsg.
func (cr *consRecv) votes(typ byte, id types.BlockID, stamp int64) (failure interface{}, err error) {
	rs := cr.cs.GetRoundState()
	vals := rs.Validators
	need := vals.TotalVotingPower()*2/3 + 1
	var got int64
	for i := range cr.keys {
		if got >= need {
			break
		}
		addr := cr.keys[i].PubKey().Address()
		idx, val := vals.GetByAddress(addr)
		if val == nil {
			continue
		}
		v := &types.Vote{ValidatorAddress: addr, ValidatorIndex: idx, ValidatorSize: vals.Size(), Height: cr.height, Round: cr.round,
			Timestamp: time.Unix(1600000000+stamp, int64(i)).UTC(), Type: typ, BlockID: id}
		sig, err := cr.keys[i].Sign(v.SignBytes(cr.chain))
		if err != nil {
			return nil, err
		}
		v.Signature = sig
		bz, err := ser.EncodeToBytesWithType(&consensus.VoteMessage{Vote: v})
		if err != nil {
			return nil, err
		}
		var msg consensus.ConsensusMessage
		if err := ser.DecodeBytesWithType(bz, &msg); err != nil {
			return nil, err
		}
		if f := cr.cs.VerifDeliver(msg, fmt.Sprintf("val%d", i)); f != nil {
			return f, nil
		}
		got += val.VotingPower
	}
	if got < need {
		return nil, fmt.Errorf("only %d of %d voting power available", got, need)
	}
	return nil, nil
}

func (cr *consRecv) close() {
	if cr != nil && cr.bus != nil {
		cr.bus.Stop()
	}
}

// deliver hands one part to the state machine exactly as the receive routine does.
func (cr *consRecv) deliver(p *types.Part, round int) (failure interface{}) {
	return cr.cs.VerifDeliver(&consensus.BlockPartMessage{Height: cr.height, Round: round, Part: p}, "peer")
}
