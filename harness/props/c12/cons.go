package c12

// The consensus path of a block part: a real ConsensusState (hook H1, synchronous
// operation) that is not the proposer receives a signed Proposal carrying the part-set
// header and then BlockPartMessages through handleMsg -> addProposalBlockPart, which
// decodes the block when the set completes.

import (
	"fmt"

	cfg "github.com/lianxiangcloud/linkchain/config"
	"github.com/lianxiangcloud/linkchain/consensus"
	cstypes "github.com/lianxiangcloud/linkchain/consensus/types"
	"github.com/lianxiangcloud/linkchain/libs/crypto"
	dbm "github.com/lianxiangcloud/linkchain/libs/db"
	"github.com/lianxiangcloud/linkchain/libs/log"
	"github.com/lianxiangcloud/linkchain/libs/ser"
	"github.com/lianxiangcloud/linkchain/types"
)

// consApp is the application behind the consensus state: it never has to produce or
// commit anything in these runs.
type consApp struct{ checked int }

func (a *consApp) Height() uint64                                   { return types.BlockHeightZero }
func (a *consApp) LoadBlockMeta(h uint64) *types.BlockMeta          { return nil }
func (a *consApp) LoadBlock(h uint64) *types.Block                  { return nil }
func (a *consApp) LoadBlockPart(h uint64, i int) *types.Part        { return nil }
func (a *consApp) LoadBlockCommit(h uint64) *types.Commit           { return nil }
func (a *consApp) LoadSeenCommit(h uint64) *types.Commit            { return nil }
func (a *consApp) GetValidators(h uint64) []*types.Validator        { return nil }
func (a *consApp) GetRecoverValidators(h uint64) []*types.Validator { return nil }
func (a *consApp) CreateBlock(h uint64, maxTxs int, gasLimit uint64, t uint64) *types.Block {
	return &types.Block{Header: &types.Header{Height: h, Time: t, GasLimit: gasLimit}, Data: &types.Data{}, LastCommit: &types.Commit{}}
}
func (a *consApp) PreRunBlock(b *types.Block)     {}
func (a *consApp) CheckBlock(b *types.Block) bool { a.checked++; return true }
func (a *consApp) CommitBlock(b *types.Block, ps *types.PartSet, sc *types.Commit, fs bool) ([]*types.Validator, error) {
	return nil, nil
}
func (a *consApp) SetLastChangedVals(h uint64, v []*types.Validator) {}

type consRecv struct {
	cs     *consensus.ConsensusState
	bus    *types.EventBus
	height uint64
	round  int
	app    *consApp
}

// newConsRecv builds a node (not a validator) at the first height of a chain whose
// validators are keys; the round-0 proposer signs a proposal for header.
func newConsRecv(chain string, keys []crypto.PrivKeyEd25519, header types.PartSetHeader) (cr *consRecv, err error) {
	defer func() {
		if r := recover(); r != nil {
			err = fmt.Errorf("consensus set-up: %v", r)
		}
	}()
	gen := &types.GenesisDoc{ChainID: chain, ConsensusParams: types.DefaultConsensusParams()}
	for _, k := range keys {
		gen.Validators = append(gen.Validators, types.GenesisValidator{PubKey: k.PubKey(), Power: 10})
	}
	db := dbm.NewMemDB()
	status, err := consensus.CreateStatusFromGenesisDoc(db, gen)
	if err != nil {
		return nil, err
	}
	app := &consApp{}
	conf := cfg.TestConsensusConfig()
	be := consensus.NewBlockExecutor(db, log.NewNopLogger(), consensus.MockEvidencePool{})
	cs := consensus.NewConsensusState(conf, status, be, app, consensus.MockMempool{}, consensus.MockEvidencePool{})
	cs.SetLogger(log.NewNopLogger())
	bus := types.NewEventBus()
	bus.SetLogger(log.NewNopLogger())
	if err := bus.Start(); err != nil {
		return nil, err
	}
	cs.SetEventBus(bus)
	cs.VerifInstall()
	cr = &consRecv{cs: cs, bus: bus, app: app}
	rs := cs.GetRoundState()
	cr.height = rs.Height
	// NewHeight -> NewRound(0) -> Propose (this node is not the proposer: it waits)
	if f := cs.VerifFire(consensus.VerifTimeout{Duration: 0, Height: rs.Height, Round: 0, Step: cstypes.RoundStepNewHeight}); f != nil {
		return nil, fmt.Errorf("entering round 0: %v", f)
	}
	rs = cs.GetRoundState()
	cr.round = rs.Round
	proposer := rs.Validators.GetProposer()
	var pkey *crypto.PrivKeyEd25519
	for i := range keys {
		if string(keys[i].PubKey().Address()) == string(proposer.Address) {
			pkey = &keys[i]
		}
	}
	if pkey == nil {
		return nil, fmt.Errorf("proposer key not found")
	}
	prop := types.NewProposal(cr.height, cr.round, header, -1, types.BlockID{})
	sig, err := pkey.Sign(prop.SignBytes(chain))
	if err != nil {
		return nil, err
	}
	prop.Signature = sig
	// through the wire
	bz, err := ser.EncodeToBytesWithType(&consensus.ProposalMessage{Proposal: prop})
	if err != nil {
		return nil, err
	}
	var msg consensus.ConsensusMessage
	if err := ser.DecodeBytesWithType(bz, &msg); err != nil {
		return nil, err
	}
	if f := cs.VerifDeliver(msg, "proposer"); f != nil {
		return nil, fmt.Errorf("delivering the proposal: %v", f)
	}
	rs = cs.GetRoundState()
	if rs.ProposalBlockParts == nil || !rs.ProposalBlockParts.HasHeader(header) {
		return nil, fmt.Errorf("the proposal was not accepted (step %v)", rs.Step)
	}
	return cr, nil
}

func (cr *consRecv) close() {
	if cr != nil && cr.bus != nil {
		cr.bus.Stop()
	}
}

// deliver hands one part to the state machine exactly as the receive routine does.
func (cr *consRecv) deliver(p *types.Part, round int) (failure interface{}) {
	return cr.cs.VerifDeliver(&consensus.BlockPartMessage{Height: cr.height, Round: round, Part: p}, "peer")
}
