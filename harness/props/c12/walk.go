package c12

// Reflective enumeration of every content leaf of a (freshly decoded) block component and
// of value perturbations of one leaf.  The walker deliberately does NOT consult the
// serialiser's own rules (struct tags, custom encoders): which fields are content is
// stated here explicitly, so that a field the encoder silently stops carrying is still
// perturbed and shows up as "changes neither hash".

import (
	"fmt"
	"math/big"
	"reflect"
	"sync"
	"sync/atomic"
	"time"
	"unsafe"
)

var (
	timeType    = reflect.TypeOf(time.Time{})
	bigIntPtr   = reflect.TypeOf((*big.Int)(nil))
	atomicValue = reflect.TypeOf(atomic.Value{})
	mutexType   = reflect.TypeOf(sync.Mutex{})
	rwMutexType = reflect.TypeOf(sync.RWMutex{})
)

// unexported fields that are the serialised payload of a type with a custom encoder
// (Transaction.EncodeSER / TokenTransaction.EncodeSER encode &tx.data)
var payloadFields = map[string]bool{
	"Transaction.data":      true,
	"TokenTransaction.data": true,
}

// exported fields that are by design not part of the wire format (JSON-only or derived
// while verifying); everything else that is exported is content
var exemptFields = map[string]string{
	"txdata.Hash":        "JSON only",
	"tokenData.Hash":     "JSON only",
	"RctSigBase.Message": "derived by the verifier",
	"RctSigBase.MixRing": "derived by the verifier",
	"MgSig.II":           "derived by the verifier",
	"Bulletproof.V":      "derived by the verifier",
}

type leaf struct {
	path    string
	v       reflect.Value // settable
	commits []func()      // write-backs for values that live inside interfaces
	structK bool          // structural perturbation of a slice (v is the slice)
}

func (l *leaf) commit() {
	for i := len(l.commits) - 1; i >= 0; i-- {
		l.commits[i]()
	}
}

func isByteArray(t reflect.Type) bool {
	return t.Kind() == reflect.Array && t.Elem().Kind() == reflect.Uint8
}
func isByteSlice(t reflect.Type) bool {
	return t.Kind() == reflect.Slice && t.Elem().Kind() == reflect.Uint8
}

// settable returns a settable alias of an addressable value reached through an
// unexported field.
func settable(v reflect.Value) reflect.Value {
	if v.CanSet() {
		return v
	}
	return reflect.NewAt(v.Type(), unsafe.Pointer(v.UnsafeAddr())).Elem()
}

func collectLeaves(v reflect.Value, path string, commits []func(), out *[]leaf) {
	t := v.Type()
	if t == timeType || t == bigIntPtr {
		*out = append(*out, leaf{path: path, v: v, commits: commits})
		return
	}
	switch v.Kind() {
	case reflect.Bool, reflect.Int, reflect.Int8, reflect.Int16, reflect.Int32, reflect.Int64,
		reflect.Uint, reflect.Uint8, reflect.Uint16, reflect.Uint32, reflect.Uint64, reflect.String:
		*out = append(*out, leaf{path: path, v: v, commits: commits})
	case reflect.Array:
		if isByteArray(t) {
			*out = append(*out, leaf{path: path, v: v, commits: commits})
			return
		}
		for i := 0; i < v.Len(); i++ {
			collectLeaves(v.Index(i), fmt.Sprintf("%s[%d]", path, i), commits, out)
		}
	case reflect.Slice:
		if isByteSlice(t) {
			*out = append(*out, leaf{path: path, v: v, commits: commits})
			return
		}
		*out = append(*out, leaf{path: path + "[]", v: v, commits: commits, structK: true})
		for i := 0; i < v.Len(); i++ {
			collectLeaves(v.Index(i), fmt.Sprintf("%s[%d]", path, i), commits, out)
		}
	case reflect.Ptr:
		if isByteArray(t.Elem()) {
			// *common.Address and the like: nil <-> non-nil is content of its own
			*out = append(*out, leaf{path: path + "(ptr)", v: v, commits: commits})
		}
		if !v.IsNil() {
			collectLeaves(v.Elem(), path, commits, out)
		}
	case reflect.Interface:
		if v.IsNil() {
			return
		}
		e := v.Elem()
		if e.Kind() == reflect.Ptr {
			if !e.IsNil() {
				collectLeaves(e.Elem(), path, commits, out)
			}
			return
		}
		nv := reflect.New(e.Type()).Elem()
		nv.Set(e)
		collectLeaves(nv, path, append(append([]func(){}, commits...), func() { v.Set(nv) }), out)
	case reflect.Struct:
		if t == atomicValue || t == mutexType || t == rwMutexType {
			return
		}
		for i := 0; i < t.NumField(); i++ {
			f := t.Field(i)
			name := t.Name() + "." + f.Name
			if _, ex := exemptFields[name]; ex {
				continue
			}
			fv := v.Field(i)
			if f.PkgPath != "" { // unexported
				if !payloadFields[name] {
					continue
				}
				fv = settable(fv)
			}
			collectLeaves(fv, path+"."+f.Name, commits, out)
		}
	}
}

// perturb applies value perturbation number n to the leaf; ok=false when the leaf has
// fewer perturbations. Every perturbation really changes the value.
func (l *leaf) perturb(n int) (desc string, ok bool) {
	v := l.v
	t := v.Type()
	defer func() {
		if ok {
			l.commit()
		}
	}()
	if l.structK {
		ln := v.Len()
		switch n {
		case 0: // append a zero element
			v.Set(reflect.Append(v, reflect.Zero(t.Elem())))
			return "append-zero-element", true
		case 1:
			if ln == 0 {
				return "", false
			}
			v.Set(v.Slice(0, ln-1))
			return "drop-last-element", true
		case 2:
			if ln == 0 {
				return "", false
			}
			nv := reflect.MakeSlice(t, 0, ln+1)
			nv = reflect.Append(nv, v.Index(0))
			nv = reflect.AppendSlice(nv, v)
			v.Set(nv)
			return "duplicate-first-element", true
		case 3:
			if ln < 2 || reflect.DeepEqual(v.Index(0).Interface(), v.Index(1).Interface()) {
				return "", false
			}
			nv := reflect.MakeSlice(t, ln, ln)
			reflect.Copy(nv, v)
			a, b := v.Index(0).Interface(), v.Index(1).Interface()
			nv.Index(0).Set(reflect.ValueOf(b))
			nv.Index(1).Set(reflect.ValueOf(a))
			v.Set(nv)
			return "swap-first-two-elements", true
		}
		return "", false
	}
	switch {
	case t == timeType:
		tm := v.Interface().(time.Time)
		switch n {
		case 0:
			v.Set(reflect.ValueOf(tm.Add(time.Nanosecond)))
			return "+1ns", true
		case 1:
			v.Set(reflect.ValueOf(tm.Add(time.Second)))
			return "+1s", true
		}
		return "", false
	case t == bigIntPtr:
		var cur *big.Int
		if !v.IsNil() {
			cur = v.Interface().(*big.Int)
		}
		switch n {
		case 0:
			if cur == nil {
				v.Set(reflect.ValueOf(big.NewInt(1)))
				return "nil->1", true
			}
			v.Set(reflect.ValueOf(new(big.Int).Add(cur, big.NewInt(1))))
			return "+1", true
		case 1:
			if cur == nil {
				return "", false
			}
			v.Set(reflect.ValueOf(new(big.Int).Add(cur, new(big.Int).Lsh(big.NewInt(1), 64))))
			return "+2^64", true
		case 2:
			if cur == nil || cur.Sign() == 0 {
				return "", false
			}
			v.Set(reflect.ValueOf(new(big.Int)))
			return "->0", true
		}
		return "", false
	}
	switch v.Kind() {
	case reflect.Bool:
		if n > 0 {
			return "", false
		}
		v.SetBool(!v.Bool())
		return "toggle", true
	case reflect.Int, reflect.Int8, reflect.Int16, reflect.Int32, reflect.Int64:
		x := v.Int()
		switch n {
		case 0:
			if v.OverflowInt(x + 1) {
				v.SetInt(x - 1)
				return "-1", true
			}
			v.SetInt(x + 1)
			return "+1", true
		case 1:
			if v.OverflowInt(x+256) || t.Bits() <= 8 {
				return "", false
			}
			v.SetInt(x + 256)
			return "+256", true
		case 2:
			if x == 0 {
				return "", false
			}
			v.SetInt(0)
			return "->0", true
		}
		return "", false
	case reflect.Uint, reflect.Uint8, reflect.Uint16, reflect.Uint32, reflect.Uint64:
		x := v.Uint()
		switch n {
		case 0:
			if v.OverflowUint(x+1) || x+1 == 0 {
				v.SetUint(x - 1)
				return "-1", true
			}
			v.SetUint(x + 1)
			return "+1", true
		case 1:
			hi := uint64(1) << uint(t.Bits()-1)
			v.SetUint(x ^ hi)
			return "flip-top-bit", true
		case 2:
			if x == 0 {
				return "", false
			}
			v.SetUint(0)
			return "->0", true
		}
		return "", false
	case reflect.String:
		s := v.String()
		switch n {
		case 0:
			v.SetString(s + "x")
			return "append-char", true
		case 1:
			if s == "" {
				return "", false
			}
			b := []byte(s)
			b[0] ^= 1
			v.SetString(string(b))
			return "change-first-char", true
		case 2:
			if s == "" {
				return "", false
			}
			v.SetString("")
			return "->empty", true
		}
		return "", false
	case reflect.Array: // byte array
		ln := v.Len()
		if ln == 0 {
			return "", false
		}
		switch n {
		case 0:
			e := v.Index(0)
			e.SetUint(e.Uint() ^ 0x80)
			return "flip-first-bit", true
		case 1:
			e := v.Index(ln - 1)
			e.SetUint(e.Uint() ^ 0x01)
			return "flip-last-bit", true
		}
		return "", false
	case reflect.Slice: // byte slice
		b := append([]byte{}, v.Bytes()...)
		switch n {
		case 0:
			v.Set(reflect.ValueOf(append(b, 0)).Convert(t))
			return "append-zero-byte", true
		case 1:
			if len(b) == 0 {
				return "", false
			}
			b[0] ^= 0x80
			v.Set(reflect.ValueOf(b).Convert(t))
			return "flip-first-bit", true
		case 2:
			if len(b) == 0 {
				return "", false
			}
			b[len(b)-1] ^= 0x01
			v.Set(reflect.ValueOf(b).Convert(t))
			return "flip-last-bit", true
		case 3:
			if len(b) == 0 {
				return "", false
			}
			v.Set(reflect.ValueOf(b[:len(b)-1]).Convert(t))
			return "drop-last-byte", true
		}
		return "", false
	case reflect.Ptr: // pointer to a byte array
		switch n {
		case 0:
			if v.IsNil() {
				v.Set(reflect.New(t.Elem()))
				return "nil->zero-value", true
			}
			v.Set(reflect.Zero(t))
			return "->nil", true
		}
		return "", false
	}
	return "", false
}

// maxVariants bounds the perturbation index space of one leaf.
const maxVariants = 4
