package c12

// Replay of the BlockParts model on real types.PartSet objects.
//
// Every part handed to AddPart is produced the way the wire produces it: a new
// types.Part is built field by field, encoded inside a consensus BlockPartMessage and
// DECODED into a fresh object. (types.Part caches its hash in an unexported field that
// survives a struct copy; a forged part made by copying a Part in memory would carry the
// stale hash of the original.)

import (
	"bytes"
	"encoding/binary"
	"encoding/json"
	"fmt"
	"io"
	"math/rand"
	"sort"

	"github.com/lianxiangcloud/linkchain/consensus"
	dbm "github.com/lianxiangcloud/linkchain/libs/db"

	"github.com/lianxiangcloud/linkchain/blockchain"
	"github.com/lianxiangcloud/linkchain/libs/crypto"
	"github.com/lianxiangcloud/linkchain/libs/crypto/merkle"
	"github.com/lianxiangcloud/linkchain/libs/ser"
	"github.com/lianxiangcloud/linkchain/types"

	"verifh/core"
	"verifh/mbt"
)

type pAct struct {
	Op     string `json:"op"`
	Cls    string `json:"cls"`
	I      int    `json:"i"`
	P      int    `json:"p"`
	Idx    int    `json:"idx"`
	Sym    int    `json:"sym"`
	Naunts int    `json:"naunts"`
	Res    string `json:"res"`
}

type pState struct {
	Phase    string `json:"phase"`
	Orig     []int  `json:"orig"`
	Held     []int  `json:"held"`
	Count    int    `json:"count"`
	Complete bool   `json:"complete"`
}

const (
	symFlipped  = 90
	symTrunc    = 91
	symExtended = 92
	symEmpty    = 93
	symForeign  = 94
)

// wirePart sends a part through the consensus wire format and returns the receiver's object.
func wirePart(p *types.Part, height uint64, round int) (out *types.Part, err error) {
	defer func() {
		if r := recover(); r != nil {
			err = fmt.Errorf("wire: %v", r)
		}
	}()
	aunts := make([][]byte, len(p.Proof.Aunts))
	for i, a := range p.Proof.Aunts {
		aunts[i] = append([]byte{}, a...)
	}
	np := &types.Part{Index: p.Index, Bytes: append([]byte{}, p.Bytes...), Proof: merkle.SimpleProof{Aunts: aunts}}
	bz, err := ser.EncodeToBytesWithType(&consensus.BlockPartMessage{Height: height, Round: round, Part: np})
	if err != nil {
		return nil, err
	}
	var msg consensus.ConsensusMessage
	if err := ser.DecodeBytesWithType(bz, &msg); err != nil {
		return nil, err
	}
	m, ok := msg.(*consensus.BlockPartMessage)
	if !ok || m.Part == nil {
		return nil, fmt.Errorf("wire: decoded %T", msg)
	}
	return m.Part, nil
}

// wireHeader sends the signed part-set header through the serialiser.
func wireHeader(h types.PartSetHeader) types.PartSetHeader {
	bz, err := ser.EncodeToBytes(types.BlockID{PartsHeader: h})
	if err != nil {
		panic(err)
	}
	var id types.BlockID
	if err := ser.DecodeBytes(bz, &id); err != nil {
		panic(err)
	}
	return id.PartsHeader
}

// safeAdd calls AddPart under recover.
func safeAdd(ps *types.PartSet, p *types.Part) (added bool, err error, panicked string) {
	defer func() {
		if r := recover(); r != nil {
			panicked = firstLine(fmt.Sprint(r))
			if panicked == "" {
				panicked = "panic"
			}
		}
	}()
	added, err = ps.AddPart(p)
	return
}

// ---- concrete instantiations of the abstract data ----------------------------------

type pInst struct {
	Name      string
	Unit      int  // part size of synthetic data
	ShortLast int  // >0: the last part has this many bytes (patterns whose last symbol is unique)
	Block     bool // the data is a real serialized block (pattern "all parts differ")
	Cons      bool // additionally deliver every part to a real ConsensusState (handleMsg -> addProposalBlockPart)
	Budget    int  // >0: replay a budgeted tour instead of the full one
}

func symBytes(sym, unit int, seed int64) []byte {
	if unit == 1 {
		// single bytes whose one-bit neighbours are not symbols either
		return []byte{byte(0x10*(sym%15) + 0x08)}
	}
	out := make([]byte, 0, unit+32)
	var ctr [24]byte
	binary.BigEndian.PutUint64(ctr[0:], uint64(seed))
	binary.BigEndian.PutUint64(ctr[8:], uint64(sym))
	for n := uint64(0); len(out) < unit; n++ {
		binary.BigEndian.PutUint64(ctr[16:], n)
		out = append(out, crypto.Keccak256(ctr[:])...)
	}
	return out[:unit]
}

// session is one proposer/receiver pair (between a Start and the next Restart).
type pSession struct {
	inst        pInst
	orig        []int
	data        []byte
	partSize    int
	chunks      [][]byte
	prop        *types.PartSet // the proposer's set
	header      types.PartSetHeader
	recv        *types.PartSet
	stored      []*types.Part // what the harness saw accepted, per index
	block       *types.Block
	blockID     blockObs
	alt         map[string]*types.PartSet // part sets of other data
	height      uint64
	savedBS     bool
	cons        *consRecv
	consChecked bool
	lastOffer   *types.Part
	heldBefore  []bool // the parts held before the current action
	blkIdx      int
}

func (s *pSession) total() int { return len(s.orig) }

func newSession(inst pInst, orig []int, seed int64, blk *types.Block, blkBytes []byte) (*pSession, string) {
	s := &pSession{inst: inst, orig: orig, alt: map[string]*types.PartSet{}, height: 7}
	T := len(orig)
	if inst.Block {
		s.data = blkBytes
		s.partSize = (len(blkBytes) + T - 1) / T
		if T == 1 {
			s.partSize = len(blkBytes) + 13 // one short part
		}
		s.block = blk
		s.prop = blk.MakePartSet(s.partSize)
		s.height = blk.Height
	} else {
		s.partSize = inst.Unit
		for k, sym := range orig {
			b := symBytes(sym, inst.Unit, seed)
			if inst.ShortLast > 0 && k == T-1 {
				b = b[:inst.ShortLast]
			}
			s.data = append(s.data, b...)
		}
		s.prop = types.NewPartSetFromData(s.data, s.partSize)
	}
	if s.prop.Total() != T {
		return nil, fmt.Sprintf("instantiation %s of %v has %d parts", inst.Name, orig, s.prop.Total())
	}
	for i := 0; i < T; i++ {
		s.chunks = append(s.chunks, s.data[i*s.partSize:minInt(len(s.data), (i+1)*s.partSize)])
	}
	// the concrete equality pattern must be the abstract one
	for i := 0; i < T; i++ {
		for j := 0; j < i; j++ {
			if bytes.Equal(s.chunks[i], s.chunks[j]) != (orig[i] == orig[j]) {
				return nil, fmt.Sprintf("instantiation %s does not realise pattern %v (parts %d,%d)", inst.Name, orig, j, i)
			}
		}
	}
	s.header = wireHeader(s.prop.Header())
	s.recv = types.NewPartSetFromHeader(s.header)
	s.stored = make([]*types.Part, T)
	return s, ""
}

func minInt(a, b int) int {
	if a < b {
		return a
	}
	return b
}

func (s *pSession) foreignChunk(n int, seed int64) []byte {
	b := symBytes(symForeign, maxInt(n, 2), seed)
	if s.inst.Unit == 1 && !s.inst.Block {
		return []byte{0xF7}
	}
	return b[:n]
}

// altSet returns the part set of "another block": the data cut by its last part ("cut"),
// extended by one part ("ext"), or with part k replaced ("other<k>").
func (s *pSession) altSet(kind string, k int, seed int64) *types.PartSet {
	key := fmt.Sprintf("%s%d", kind, k)
	if ps, ok := s.alt[key]; ok {
		return ps
	}
	var d []byte
	T := s.total()
	switch kind {
	case "cut":
		d = append([]byte{}, s.data[:(T-1)*s.partSize]...)
	case "ext":
		d = append(append([]byte{}, s.data...), s.foreignChunk(s.partSize, seed)...)
	case "other":
		d = append([]byte{}, s.data...)
		copy(d[k*s.partSize:], s.foreignChunk(len(s.chunks[k]), seed))
	}
	ps := types.NewPartSetFromData(d, s.partSize)
	s.alt[key] = ps
	return ps
}

// leafIsLeft reports whether leaf i of a tree over n leaves is the left child of its
// parent, and whether its sibling is a leaf as well.
func leafSide(i, n int) (left bool) {
	for n > 1 {
		k := (n + 1) / 2
		if i < k {
			if k == 1 {
				return true
			}
			n = k
		} else {
			if n-k == 1 {
				return false
			}
			i, n = i-k, n-k
		}
	}
	return true
}

// build constructs the concrete part for an abstract offer. skipAlpha is set when the
// instantiation cannot keep the abstract byte symbol (documented cases).
func (s *pSession) build(a pAct, seed int64) (p *types.Part, skipAlpha bool, err error) {
	T := s.total()
	src := func(ps *types.PartSet, i int) *types.Part {
		q := ps.GetPart(i)
		aunts := make([][]byte, len(q.Proof.Aunts))
		for k, x := range q.Proof.Aunts {
			aunts[k] = append([]byte{}, x...)
		}
		return &types.Part{Index: q.Index, Bytes: append([]byte{}, q.Bytes...), Proof: merkle.SimpleProof{Aunts: aunts}}
	}
	junk := crypto.Keccak256([]byte("c12 junk aunt"))
	if a.Cls == "extrapart" {
		return src(s.altSet("ext", 0, seed), T), false, nil
	}
	p = src(s.prop, a.I)
	switch a.Cls {
	case "good":
	case "flip":
		p.Bytes[len(p.Bytes)/2] ^= 0x01
	case "trunc":
		p.Bytes = p.Bytes[:len(p.Bytes)-1]
	case "extend":
		p.Bytes = append(p.Bytes, 0x00)
	case "empty":
		p.Bytes = []byte{}
	case "bytesof":
		p.Bytes = src(s.prop, a.P).Bytes
	case "proofof":
		p.Proof = src(s.prop, a.P).Proof
	case "shift":
		p.Index = a.P
	case "aunt":
		x := append([]byte{}, p.Proof.Aunts[a.P-1]...)
		if a.I%2 == 0 {
			x[len(x)-1] ^= 0x01 // one bit of the aunt
		} else {
			x = junk
		}
		p.Proof.Aunts[a.P-1] = x
	case "auntswap":
		p.Proof.Aunts[a.P-1], p.Proof.Aunts[a.P] = p.Proof.Aunts[a.P], p.Proof.Aunts[a.P-1]
	case "auntdrop":
		p.Proof.Aunts = append(p.Proof.Aunts[:a.P-1:a.P-1], p.Proof.Aunts[a.P:]...)
	case "auntadd":
		p.Proof.Aunts = append(p.Proof.Aunts[:a.P:a.P], append([][]byte{junk}, p.Proof.Aunts[a.P:]...)...)
	case "othertotal":
		if a.P == T+1 {
			p = src(s.altSet("ext", 0, seed), a.I)
			skipAlpha = a.I == T-1 && len(s.chunks[T-1]) != s.partSize // a short last part grows
		} else {
			p = src(s.altSet("cut", 0, seed), a.I)
		}
	case "otherblock":
		p = src(s.altSet("other", a.P, seed), a.I)
	case "innerleaf":
		if len(p.Proof.Aunts) == 0 {
			return nil, false, fmt.Errorf("innerleaf on a single part")
		}
		self, sib := crypto.Keccak256(p.Bytes), p.Proof.Aunts[0]
		l, r := self, sib
		if !leafSide(a.I, T) {
			l, r = sib, self
		}
		var buf bytes.Buffer
		ser.EncodeByteSlice(&buf, l)
		ser.EncodeByteSlice(&buf, r)
		p.Bytes = buf.Bytes()
		p.Proof.Aunts = p.Proof.Aunts[1:]
	default:
		return nil, false, fmt.Errorf("unknown class %q", a.Cls)
	}
	return p, skipAlpha, nil
}

// symOf is the abstraction of concrete part bytes.
func (s *pSession) symOf(b []byte) int {
	for i, ch := range s.chunks {
		if bytes.Equal(b, ch) {
			return s.orig[i]
		}
	}
	return -100 // not a part of the original
}

// readAll drains the part-set reader with the given buffer size (0: ioutil-like growth).
func readAll(r io.Reader, bufSize int, limit int) ([]byte, error) {
	var out []byte
	if bufSize <= 0 {
		bufSize = 512
	}
	buf := make([]byte, bufSize)
	for {
		n, err := r.Read(buf)
		out = append(out, buf[:n]...)
		if err == io.EOF {
			return out, nil
		}
		if err != nil {
			return out, err
		}
		if len(out) > limit {
			return out, fmt.Errorf("reader produced more than %d bytes", limit)
		}
		if n == 0 {
			return out, fmt.Errorf("reader returned 0 bytes without EOF")
		}
	}
}

type pReplay struct {
	c          *core.Ctx
	inst       pInst
	seed       int64
	rng        *rand.Rand
	steps      int
	behav      int
	nontriv    int
	drifted    map[string]bool
	classes    map[string]int
	viol       []core.Violation
	drifts     []string
	infra      []string
	negPanic   int
	decodes    int
	stores     int
	consBlocks int
	consSteps  int
	forceBlock int // >= 0: the block to use (replay of a recorded violation)
	kits       []*blockKit
	sample     interface{}
	blocks     []*types.Block
	blockBz    [][]byte
}

func (r *pReplay) violate(key, desc string, rec interface{}) {
	for _, v := range r.viol {
		if v.Key == key {
			return
		}
	}
	r.viol = append(r.viol, core.Violation{Key: key, Desc: desc, Record: rec})
}

func (r *pReplay) drift(key, format string, a ...interface{}) {
	if r.drifted[key] {
		return
	}
	r.drifted[key] = true
	r.drifts = append(r.drifts, fmt.Sprintf("parts[%s]: ", r.inst.Name)+fmt.Sprintf(format, a...))
}

// observeSet compares a receiver's part set with the model state.
func observeSet(ps *types.PartSet, s *pSession, st pState) (key, bad string) {
	T := s.total()
	if ps.Count() != st.Count {
		return "count", fmt.Sprintf("Count()=%d, the specification says %d", ps.Count(), st.Count)
	}
	if ps.IsComplete() != st.Complete {
		return "complete", fmt.Sprintf("IsComplete()=%v, the specification says %v", ps.IsComplete(), st.Complete)
	}
	ba := ps.BitArray()
	for i := 0; i < T; i++ {
		held := st.Held[i] != 0
		if ba.GetIndex(i) != held {
			return "bitarray", fmt.Sprintf("BitArray bit %d = %v, the specification says %v", i, ba.GetIndex(i), held)
		}
		got := ps.GetPart(i)
		if (got != nil) != held {
			return "getpart", fmt.Sprintf("GetPart(%d) present=%v, the specification says %v", i, got != nil, held)
		}
		if got != nil {
			if !bytes.Equal(got.Bytes, s.chunks[i]) {
				return "forged-stored", fmt.Sprintf("the part stored at index %d does not carry the proposer's bytes (%d bytes, want %d)", i, len(got.Bytes), len(s.chunks[i]))
			}
			if got.Index != i {
				return "forged-stored", fmt.Sprintf("the part stored at index %d says Index=%d", i, got.Index)
			}
			if st.Held[i] != s.orig[i] {
				return "model", fmt.Sprintf("specification holds symbol %d at index %d of %v", st.Held[i], i, s.orig)
			}
		}
	}
	return "", ""
}

// observeCons compares the consensus state's view (ProposalBlockParts, ProposalBlock).
func (r *pReplay) observeCons(s *pSession, st pState) (key, bad string) {
	rs := s.cons.cs.GetRoundState()
	if rs.ProposalBlockParts == nil {
		return "consensus", "ConsensusState dropped its ProposalBlockParts"
	}
	if k, b := observeSet(rs.ProposalBlockParts, s, st); b != "" {
		return k, "ConsensusState.ProposalBlockParts: " + b
	}
	if !st.Complete {
		if rs.ProposalBlock != nil {
			return "consensus", "ConsensusState has a ProposalBlock although the part set is incomplete"
		}
		return "", ""
	}
	if rs.ProposalBlock == nil {
		return "consensus", "the part set is complete but ConsensusState has no ProposalBlock"
	}
	if rs.ProposalBlock.Hash() != s.blockID.Hash {
		return "consensus", fmt.Sprintf("ConsensusState.ProposalBlock has hash %v, the proposer's block %v", rs.ProposalBlock.Hash(), s.blockID.Hash)
	}
	if !s.consChecked {
		s.consChecked = true
		re, err := encodeBlock(rs.ProposalBlock)
		if err != nil || !bytes.Equal(re, s.data) {
			return "consensus", fmt.Sprintf("ConsensusState.ProposalBlock re-encodes to different bytes (%v)", err)
		}
		r.consBlocks++
	}
	return "", ""
}

// observe compares everything the property names with the model state.
func (r *pReplay) observe(s *pSession, st pState, justCompleted bool, step int) (key, bad string) {
	ps := s.recv
	if k, b := observeSet(ps, s, st); b != "" {
		return k, b
	}
	if !st.Complete {
		return "", ""
	}
	// the bytes a complete set hands to the decoder
	if justCompleted || step%7 == 0 {
		sizes := []int{0, 1, 3, s.partSize, s.partSize + 1, len(s.data) + 5}
		bs := sizes[step%len(sizes)]
		if justCompleted {
			bs = sizes[(step/3)%len(sizes)]
		}
		if len(s.data) > 1<<16 && bs > 0 && bs < 64 {
			bs = 4096
		}
		got, err := readAll(ps.GetReader(), bs, len(s.data)+1024)
		if err != nil {
			return "reassembly", fmt.Sprintf("reading the complete part set (buffer %d): %v", bs, err)
		}
		if !bytes.Equal(got, s.data) {
			return "reassembly", fmt.Sprintf("the complete part set reads back %d bytes that differ from the proposer's %d bytes (buffer %d)", len(got), len(s.data), bs)
		}
	}
	if s.inst.Block && justCompleted {
		var blk *types.Block
		n, err := ser.DecodeReader(ps.GetReader(), &blk, int64(len(s.data)+1024))
		if err != nil {
			return "decode", fmt.Sprintf("the complete part set does not decode into a block: %v", err)
		}
		if int(n) != len(s.data) {
			r.drift("decode-n", "DecodeReader consumed %d of %d bytes", n, len(s.data))
		}
		r.decodes++
		re, err := encodeBlock(blk)
		if err != nil || !bytes.Equal(re, s.data) {
			return "decode", fmt.Sprintf("the decoded block re-encodes to different bytes (%v)", err)
		}
		obs, err := observeBlock(blk, s.partSize)
		if err != nil {
			return "decode", fmt.Sprintf("decoded block: %v", err)
		}
		if obs.Hash != s.blockID.Hash || !obs.Parts.Equals(s.header) || !obs.Valid {
			return "decode", fmt.Sprintf("decoded block has id %v/%v valid=%v(%s), the proposer's is %v/%v", obs.Hash, obs.Parts, obs.Valid, obs.VErr, s.blockID.Hash, s.header)
		}
		if !s.savedBS {
			s.savedBS = true
			if k, b := r.storeRoundTrip(s, blk); b != "" {
				return k, b
			}
		}
	}
	return "", ""
}

// storeRoundTrip saves the received block with the received part set and loads it back
// through BlockStore.LoadBlock (reassembly from the stored parts).
func (r *pReplay) storeRoundTrip(s *pSession, blk *types.Block) (key, bad string) {
	defer func() {
		if x := recover(); x != nil {
			key, bad = "", ""
			r.drift("blockstore", "BlockStore round trip not executed: %v", firstLine(fmt.Sprint(x)))
		}
	}()
	db := dbm.NewMemDB()
	blockchain.BlockStoreStateJSON{Height: blk.Height - 1}.Save(db)
	bs := blockchain.NewBlockStore(db)
	bs.SaveBlock(blk, s.recv, blk.LastCommit, nil, &types.TxsResult{})
	r.stores++
	lb := bs.LoadBlock(blk.Height)
	if lb == nil {
		return "blockstore", "LoadBlock returns nil for the block just saved"
	}
	re, err := encodeBlock(lb)
	if err != nil || !bytes.Equal(re, s.data) {
		return "blockstore", fmt.Sprintf("the block loaded from the store re-encodes to different bytes (%v)", err)
	}
	if lb.Hash() != s.blockID.Hash {
		return "blockstore", "the block loaded from the store has another hash"
	}
	for i := 0; i < s.total(); i++ {
		p := bs.LoadBlockPart(blk.Height, i)
		if p == nil || !bytes.Equal(p.Bytes, s.chunks[i]) {
			return "blockstore", fmt.Sprintf("stored part %d differs from the proposer's", i)
		}
	}
	return "", ""
}

func patternKey(o []int) string { return fmt.Sprint(o) }

// applicable reports whether the instantiation can realise the abstract data.
func (in pInst) applicable(orig []int) bool {
	T := len(orig)
	distinct := true
	lastUnique := true
	for i := range orig {
		for j := 0; j < i; j++ {
			if orig[i] == orig[j] {
				distinct = false
				if i == T-1 {
					lastUnique = false
				}
			}
		}
	}
	if in.Block {
		return distinct
	}
	if in.ShortLast > 0 {
		return lastUnique && in.ShortLast < in.Unit
	}
	return true
}

// run replays one behaviour (edge sequence from the initial state).
func (r *pReplay) run(g *mbt.Graph, seq []int) {
	var s *pSession
	skipping := false // between a Start this instantiation cannot realise and the next Restart
	var trace []string
	changed := false
	r.behav++
	for pos, ei := range seq {
		e := g.Edges[ei]
		var a pAct
		var st pState
		if json.Unmarshal(e.Act, &a) != nil || json.Unmarshal(e.ToSt, &st) != nil {
			r.infra = append(r.infra, "parts: cannot decode edge "+mbt.Compact(e.Act))
			return
		}
		switch a.Op {
		case "start":
			trace = trace[:0]
			if !r.inst.applicable(st.Orig) {
				skipping, s = true, nil
				continue
			}
			skipping = false
			var blk *types.Block
			var bz []byte
			blkIdx := 0
			if r.inst.Block {
				blkIdx = r.rng.Intn(len(r.blocks))
				if r.forceBlock >= 0 && r.forceBlock < len(r.blocks) {
					blkIdx = r.forceBlock
				}
				blk, bz = r.blocks[blkIdx], r.blockBz[blkIdx]
			}
			ns, why := newSession(r.inst, st.Orig, r.seed, blk, bz)
			if ns == nil {
				r.drift("inst/"+patternKey(st.Orig), "%s", why)
				skipping, s = true, nil
				continue
			}
			if s != nil {
				s.cons.close()
			}
			s = ns
			s.blkIdx = blkIdx
			if r.inst.Cons {
				cr, err := newConsRecv(r.kits[blkIdx].chain, r.kits[blkIdx].valKeys, s.header)
				if err != nil {
					r.infra = append(r.infra, "parts: "+err.Error())
					return
				}
				s.cons = cr
			}
			if r.inst.Block {
				fb, err := freshBlock(bz)
				if err != nil {
					r.infra = append(r.infra, "parts: block does not decode: "+err.Error())
					return
				}
				s.blockID, _ = observeBlock(fb, s.partSize)
			}
			if k, bad := r.observe(s, st, false, pos); bad != "" {
				r.violate("parts/state/"+k, fmt.Sprintf("[%s, data %v] after NewPartSetFromHeader: %s", r.inst.Name, st.Orig, bad), r.record(s, trace, a, bad))
				return
			}
			r.steps++
			if r.sample == nil && len(st.Orig) >= 3 {
				r.sample = map[string]interface{}{"instantiation": r.inst.Name, "pattern": st.Orig, "part_size": s.partSize, "data_bytes": len(s.data), "header": s.header.String()}
			}
			continue
		case "restart":
			if s != nil {
				s.cons.close()
			}
			s, skipping = nil, false
			trace = trace[:0]
			r.steps++
			continue
		}
		if skipping || s == nil {
			continue
		}
		trace = append(trace, mbt.Compact(e.Act))
		if len(trace) > 40 {
			trace = trace[len(trace)-40:]
		}
		r.steps++
		r.classes[a.Cls+"->"+a.Res]++
		part, skipAlpha, err := s.build(a, r.seed)
		if err != nil {
			r.infra = append(r.infra, fmt.Sprintf("parts[%s]: cannot build %s: %v", r.inst.Name, mbt.Compact(e.Act), err))
			return
		}
		s.lastOffer = part
		s.heldBefore = make([]bool, s.total())
		for i := range s.heldBefore {
			s.heldBefore[i] = s.stored[i] != nil
		}
		if part.Index != a.Idx {
			r.infra = append(r.infra, fmt.Sprintf("parts[%s]: built index %d for %s", r.inst.Name, part.Index, mbt.Compact(e.Act)))
			return
		}
		if a.Idx < 0 {
			// negative index: robustness against it is property C16's. The class is executed on a
			// throw-away set; a difference from the specification (rejected with the index error)
			// is recorded as drift, not as a C12 violation.
			if wp, werr := wirePart(part, s.height, 0); werr == nil {
				added, _, pan := safeAdd(types.NewPartSetFromHeader(s.header), wp)
				switch {
				case pan != "":
					r.negPanic = 1
				case added:
					r.violate("parts/addpart/shift/negative-index-added", fmt.Sprintf("[%s] a part with index %d was accepted", r.inst.Name, a.Idx), r.record(s, trace, a, "added"))
					return
				default:
					if r.negPanic == 0 {
						r.negPanic = 2
					}
				}
			}
			continue
		}
		wp, err := wirePart(part, s.height, pos%3)
		if err != nil {
			// the wire refuses the part: it never reaches AddPart
			if a.Res == "added" {
				r.violate("parts/wire/"+a.Cls, fmt.Sprintf("[%s] an original part does not survive the wire: %v", r.inst.Name, err), r.record(s, trace, a, err.Error()))
				return
			}
			continue
		}
		// abstraction check: the concrete bytes stand for the abstract symbol
		if !skipAlpha && a.Sym >= 1 && a.Sym < symFlipped {
			if got := s.symOf(wp.Bytes); got != a.Sym {
				r.infra = append(r.infra, fmt.Sprintf("parts[%s]: instantiation of %s carries symbol %d", r.inst.Name, mbt.Compact(e.Act), got))
				return
			}
		} else if !skipAlpha && a.Sym >= symFlipped {
			if got := s.symOf(wp.Bytes); got != -100 {
				r.infra = append(r.infra, fmt.Sprintf("parts[%s]: instantiation of %s is the original part with symbol %d", r.inst.Name, mbt.Compact(e.Act), got))
				return
			}
		}
		if a.Naunts >= 0 && len(wp.Proof.Aunts) != a.Naunts {
			r.drift("naunts/"+a.Cls, "%s has %d aunts, the specification says %d", a.Cls, len(wp.Proof.Aunts), a.Naunts)
		}
		added, aerr, pan := safeAdd(s.recv, wp)
		obsRes := "rejected"
		switch {
		case pan != "":
			obsRes = "panic"
		case added:
			obsRes = "added"
		}
		want := a.Res
		if want == "dup" || want == "badindex" || want == "badproof" {
			want = "rejected"
		}
		if obsRes != want {
			desc := fmt.Sprintf("[%s, data %v, %d parts of %d bytes] AddPart(%s: index %d) -> added=%v err=%v panic=%q; as specified: %s",
				r.inst.Name, s.orig, s.total(), s.partSize, describeOffer(a), a.Idx, added, aerr, pan, a.Res)
			r.violate(fmt.Sprintf("parts/addpart/%s/%s->%s", a.Cls, a.Res, obsRes), desc, r.record(s, trace, a, desc))
			return
		}
		// pi_shape: which error
		switch a.Res {
		case "dup":
			if aerr != nil {
				r.drift("err/dup", "a duplicate part returns error %v (specification: nil)", aerr)
			}
		case "badindex":
			if aerr != types.ErrPartSetUnexpectedIndex {
				r.drift("err/badindex", "index >= total returns %v (specification: ErrPartSetUnexpectedIndex)", aerr)
			}
		case "badproof":
			if aerr != types.ErrPartSetInvalidProof {
				r.drift("err/badproof", "an invalid proof returns %v (specification: ErrPartSetInvalidProof)", aerr)
			}
		case "added":
			if aerr != nil {
				r.drift("err/added", "an accepted part returns error %v", aerr)
			}
			s.stored[a.Idx] = wp
			changed = true
		}
		if k, bad := r.observe(s, st, a.Res == "added" && st.Complete, pos); bad != "" {
			desc := fmt.Sprintf("[%s, data %v, %d parts of %d bytes] after AddPart(%s): %s", r.inst.Name, s.orig, s.total(), s.partSize, describeOffer(a), bad)
			if k == "model" {
				r.infra = append(r.infra, desc)
				return
			}
			r.violate("parts/state/"+k, desc, r.record(s, trace, a, bad))
			return
		}
		if s.cons != nil {
			wp2, err := wirePart(part, s.cons.height, s.cons.round)
			if err != nil {
				continue
			}
			r.consSteps++
			if f := s.cons.deliver(wp2, s.cons.round+pos%2); f != nil {
				desc := fmt.Sprintf("[%s, %d parts of %d bytes] ConsensusState.handleMsg(BlockPartMessage: %s) panicked: %v; as specified: %s", r.inst.Name, s.total(), s.partSize, describeOffer(a), f, a.Res)
				r.violate("parts/consensus/panic/"+a.Cls, desc, r.record(s, trace, a, desc))
				return
			}
			if k, bad := r.observeCons(s, st); bad != "" {
				desc := fmt.Sprintf("[%s, %d parts of %d bytes] after handleMsg(BlockPartMessage: %s): %s", r.inst.Name, s.total(), s.partSize, describeOffer(a), bad)
				if k == "model" {
					r.infra = append(r.infra, desc)
					return
				}
				r.violate("parts/consensus/"+k, desc, r.record(s, trace, a, bad))
				return
			}
		}
	}
	if s != nil {
		s.cons.close()
	}
	if changed {
		r.nontriv++
	}
}

func describeOffer(a pAct) string {
	switch a.Cls {
	case "good":
		return fmt.Sprintf("the proposer's part %d", a.I)
	case "flip":
		return fmt.Sprintf("part %d with one bit of its bytes changed", a.I)
	case "trunc":
		return fmt.Sprintf("part %d with its last byte cut", a.I)
	case "extend":
		return fmt.Sprintf("part %d with a byte appended", a.I)
	case "empty":
		return fmt.Sprintf("part %d without bytes", a.I)
	case "bytesof":
		return fmt.Sprintf("part %d carrying the bytes of part %d", a.I, a.P)
	case "proofof":
		return fmt.Sprintf("part %d carrying the proof of part %d", a.I, a.P)
	case "shift":
		return fmt.Sprintf("part %d relabelled with index %d", a.I, a.P)
	case "aunt":
		return fmt.Sprintf("part %d with aunt %d of its proof changed", a.I, a.P)
	case "auntswap":
		return fmt.Sprintf("part %d with aunts %d and %d exchanged", a.I, a.P, a.P+1)
	case "auntdrop":
		return fmt.Sprintf("part %d with aunt %d removed", a.I, a.P)
	case "auntadd":
		return fmt.Sprintf("part %d with an extra aunt after position %d", a.I, a.P)
	case "othertotal":
		return fmt.Sprintf("part %d of the same data split into %d parts", a.I, a.P)
	case "otherblock":
		return fmt.Sprintf("part %d of a block that differs in part %d", a.I, a.P)
	case "innerleaf":
		return fmt.Sprintf("a part at index %d whose bytes are the encoding of the two children of part %d's parent node", a.I, a.I)
	case "extrapart":
		return "the extra part of the data extended by one part"
	}
	return a.Cls
}

func partRecord(p *types.Part) map[string]interface{} {
	if p == nil {
		return nil
	}
	bz := fmt.Sprintf("%x", p.Bytes)
	if len(p.Bytes) > 128 {
		bz = fmt.Sprintf("%x...(%d bytes, keccak %x)", p.Bytes[:64], len(p.Bytes), crypto.Keccak256(p.Bytes))
	}
	var aunts []string
	for _, a := range p.Proof.Aunts {
		aunts = append(aunts, fmt.Sprintf("%x", a))
	}
	return map[string]interface{}{"index": p.Index, "bytes": bz, "aunts": aunts}
}

func heldBefore(s *pSession) []int {
	held := []int{}
	for i, p := range s.heldBefore {
		if p {
			held = append(held, i)
		}
	}
	return held
}

func (r *pReplay) record(s *pSession, trace []string, a pAct, mismatch string) map[string]interface{} {
	rec := map[string]interface{}{
		"kind": "parts", "held_before": heldBefore(s), "block_index": s.blkIdx,
		"offered_part":  partRecord(s.lastOffer),
		"instantiation": r.inst, "pattern": s.orig, "part_size": s.partSize, "header": s.header.String(),
		"behaviour_since_start": append([]string{}, trace...), "action": a, "mismatch": mismatch, "seed": r.seed,
	}
	if len(s.data) <= 8192 {
		rec["data_hex"] = fmt.Sprintf("%x", s.data)
	} else {
		rec["data_keccak"] = fmt.Sprintf("%x", crypto.Keccak256(s.data))
		rec["data_generator"] = "symBytes(symbol, unit, seed) per part / serialized block from newKit(seed)"
	}
	return rec
}

func sortedClassCounts(m map[string]int) []string {
	var ks []string
	for k := range m {
		ks = append(ks, k)
	}
	sort.Strings(ks)
	var out []string
	for _, k := range ks {
		out = append(out, fmt.Sprintf("%s:%d", k, m[k]))
	}
	return out
}
