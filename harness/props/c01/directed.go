package c01

import (
	"encoding/json"
	"fmt"
	"math/rand"

	cs "github.com/lianxiangcloud/linkchain/consensus"
	cstypes "github.com/lianxiangcloud/linkchain/consensus/types"
	"github.com/lianxiangcloud/linkchain/types"

	"verifh/cluster"
)

// lockChallengeTrace is a DIRECTED schedule (no Byzantine validator, only delays) for the
// situation the unlock rule exists for:
//   round 0 ends with a nil polka at the target T, but one prevote of that round (from L) is late;
//   round 1: T sees a polka for X, locks X and precommits it, no commit (precommits are thinned out);
//   the round-2 proposer never saw the polka, so it proposes a fresh block Y;
//   L's late round-0 prevote reaches T; then Y's proposal reaches T.
// A correct T is still locked on X (the old polka is from a round BEFORE its lock) and prevotes X;
// the events are validated like every other trace (conformance + monitor).
func lockChallengeTrace(seed int64) ([][]byte, string, bool, error) {
	rng := rand.New(rand.NewSource(seed))
	const N = 7
	cl, err := cluster.New(cluster.Options{N: N, Powers: []int64{1, 1, 1, 1, 1, 1, 1}})
	if err != nil {
		return nil, "", false, err
	}
	// proposers of rounds 0..2 (unit powers: rotation is path-independent)
	prop := make([]int, 3)
	vs := cl.ValSet.Copy()
	for r := 0; r < 3; r++ {
		prop[r] = cl.IndexOf(vs.GetProposer().Address)
		vs.IncrementAccum(1)
	}
	var free []int
	for i := 0; i < N; i++ {
		if i != prop[0] && i != prop[1] && i != prop[2] {
			free = append(free, i)
		}
	}
	rng.Shuffle(len(free), func(a, b int) { free[a], free[b] = free[b], free[a] })
	T, L := free[0], free[1]
	all := cl.Correct()
	fire := func(i int, step cstypes.RoundStepType, round int) bool {
		n := cl.Nodes[i]
		for k, t := range n.Pend {
			if t.Step == step && t.Round == round {
				cl.Fire(i, k)
				return true
			}
		}
		return false
	}
	popAll := func(i int) (out []cs.ConsensusMessage) {
		for {
			m, ok := cl.PopInternal(i)
			if !ok {
				return
			}
			out = append(out, m)
		}
	}
	isVote := func(m cs.ConsensusMessage, typ byte, round int) bool {
		v, ok := m.(*cs.VoteMessage)
		return ok && v.Vote.Type == typ && v.Vote.Round == round
	}
	// ---- round 0: the proposal reaches nobody; nil polka; L's prevote is withheld from T
	for _, i := range all {
		fire(i, cstypes.RoundStepNewHeight, 0)
	}
	popAll(prop[0]) // its own proposal, part and prevote stay with it
	var lateVote cs.ConsensusMessage
	pv0 := map[int]cs.ConsensusMessage{}
	for _, i := range all {
		if i == prop[0] {
			continue
		}
		fire(i, cstypes.RoundStepPropose, 0)
		for _, m := range popAll(i) {
			if isVote(m, types.VoteTypePrevote, 0) {
				pv0[i] = m
			}
		}
	}
	for from, m := range pv0 {
		for _, to := range all {
			if to == from {
				continue
			}
			if from == L && to == T {
				lateVote = m
				continue
			}
			cl.Deliver(to, m, from)
		}
	}
	// nil precommits all-to-all: everybody moves to round 1
	pc0 := map[int]cs.ConsensusMessage{}
	for _, i := range all {
		if i == prop[0] {
			fire(i, cstypes.RoundStepPrevoteWait, 0) // it prevoted its own block; the others' nil polka arrives by delivery
		}
		for _, m := range popAll(i) {
			if isVote(m, types.VoteTypePrecommit, 0) {
				pc0[i] = m
			}
		}
	}
	for from, m := range pc0 {
		for _, to := range all {
			if to != from {
				cl.Deliver(to, m, from)
			}
		}
	}
	// ---- round 1: X is proposed, everybody but the round-2 proposer sees the polka and locks
	var propMsgs []cs.ConsensusMessage
	for _, m := range popAll(prop[1]) {
		switch m.(type) {
		case *cs.ProposalMessage, *cs.BlockPartMessage:
			propMsgs = append(propMsgs, m)
		}
	}
	if len(propMsgs) < 2 {
		return nil, "", false, fmt.Errorf("directed schedule: the round-1 proposer did not propose (it is at %s)", cl.Nodes[prop[1]].CS.VerifString())
	}
	P2 := prop[2]
	for _, to := range all {
		if to != prop[1] && to != P2 { // the round-2 proposer misses the proposal: it will prevote nil
			for _, m := range propMsgs {
				cl.Deliver(to, m, prop[1])
			}
		}
	}
	fire(P2, cstypes.RoundStepPropose, 1)
	pv1 := map[int]cs.ConsensusMessage{}
	for _, i := range all {
		for _, m := range popAll(i) {
			if isVote(m, types.VoteTypePrevote, 1) {
				pv1[i] = m
			}
		}
	}
	toP2 := 0
	for _, from := range all {
		m, ok := pv1[from]
		if !ok || from == P2 {
			continue
		}
		for _, to := range all {
			if to == from {
				continue
			}
			if to == P2 {
				if toP2 >= 4 {
					continue // +2/3 of any prevotes at the round-2 proposer, but no polka
				}
				toP2++
			}
			cl.Deliver(to, m, from)
		}
	}
	fire(P2, cstypes.RoundStepPrevoteWait, 1) // it precommits nil
	pc1 := map[int]cs.ConsensusMessage{}
	for _, i := range all {
		for _, m := range popAll(i) {
			if isVote(m, types.VoteTypePrecommit, 1) {
				pc1[i] = m
			}
		}
	}
	// precommits are thinned out: +2/3 of ANY at every node (so the round can end), never +2/3 for X
	nilPC := pc1[P2]
	for _, to := range all {
		given := 1 // its own
		for _, from := range all {
			m, ok := pc1[from]
			if !ok || from == to || from == P2 || given >= 5 || (to != P2 && given >= 4) {
				continue
			}
			cl.Deliver(to, m, from)
			given++
		}
		if nilPC != nil && to != P2 {
			cl.Deliver(to, nilPC, P2)
		}
	}
	for _, i := range all {
		fire(i, cstypes.RoundStepPrecommitWait, 1)
	}
	// ---- round 2: the late round-0 prevote reaches T, then the fresh proposal Y
	tv1 := cl.ViewOf(cl.Nodes[T])
	reached := lateVote != nil && tv1.R == 2 && tv1.LR == 1 && tv1.LB != "none"
	if lateVote != nil {
		cl.Deliver(T, lateVote, L)
	}
	var prop2 []cs.ConsensusMessage
	for _, m := range popAll(prop[2]) {
		switch m.(type) {
		case *cs.ProposalMessage, *cs.BlockPartMessage:
			prop2 = append(prop2, m)
		}
	}
	for _, m := range prop2 {
		cl.Deliver(T, m, prop[2])
	}
	voted := false
	for _, m := range popAll(T) { // T's round-2 prevote becomes an event
		if isVote(m, types.VoteTypePrevote, 2) {
			voted = true
		}
	}
	reached = reached && voted && len(prop2) >= 2
	// let the others finish normally so the trace also ends in agreement
	for _, to := range all {
		if to != prop[2] && to != T {
			for _, m := range prop2 {
				cl.Deliver(to, m, prop[2])
			}
		}
	}
	cl.RunSync(func() bool {
		for _, i := range all {
			if cl.Nodes[i].App.Height() < 1 {
				return false
			}
		}
		return true
	}, 400)
	var lines [][]byte
	b, _ := json.Marshal(cl.InitEvent())
	lines = append(lines, b)
	for _, e := range cl.Events {
		b, _ := json.Marshal(e)
		lines = append(lines, b)
	}
	tv := cl.ViewOf(cl.Nodes[T])
	desc := fmt.Sprintf("directed lock-challenge seed=%d proposers=%v target=%d late=%d events=%d (target now at %d/%d/%d locked=%s@%d)", seed, prop, T, L, len(cl.Events), tv.H, tv.R, tv.S, tv.LB, tv.LR)
	return lines, desc, reached, nil
}

// relockChallengeTrace is the second DIRECTED schedule (delays only, no Byzantine validator):
//   round 0: the target T alone sees the polka for X and locks it (lock round 0); no commit;
//   round 1: a nil polka forms, but two of its prevotes reach T late; T leaves the round through
//            +2/3 nil precommits, still locked;
//   round 2: T is the proposer, re-proposes X, sees the polka for X again and RE-LOCKS (lock round 2);
//   round 3: the two late round-1 prevotes arrive (a polka of a round OLDER than the re-lock), then a
//            fresh proposal Y. A correct T keeps its lock and prevotes X.
func relockChallengeTrace(seed int64) ([][]byte, string, bool, error) {
	rng := rand.New(rand.NewSource(seed))
	const N = 7
	cl, err := cluster.New(cluster.Options{N: N, Powers: []int64{1, 1, 1, 1, 1, 1, 1}})
	if err != nil {
		return nil, "", false, err
	}
	prop := make([]int, 4)
	vs := cl.ValSet.Copy()
	for r := 0; r < 4; r++ {
		prop[r] = cl.IndexOf(vs.GetProposer().Address)
		vs.IncrementAccum(1)
	}
	T, P0, P1, P3 := prop[2], prop[0], prop[1], prop[3]
	var free []int
	for i := 0; i < N; i++ {
		if i != T && i != P0 && i != P1 && i != P3 {
			free = append(free, i)
		}
	}
	if len(free) != 3 {
		return nil, "", false, fmt.Errorf("directed relock schedule: proposers of rounds 0..3 are not distinct: %v", prop)
	}
	rng.Shuffle(len(free), func(a, b int) { free[a], free[b] = free[b], free[a] })
	A, B, C := free[0], free[1], free[2]
	all := cl.Correct()
	fire := func(i int, step cstypes.RoundStepType, round int) bool {
		n := cl.Nodes[i]
		for k, t := range n.Pend {
			if t.Step == step && t.Round == round {
				cl.Fire(i, k)
				return true
			}
		}
		return false
	}
	popAll := func(i int) (out []cs.ConsensusMessage) {
		for {
			m, ok := cl.PopInternal(i)
			if !ok {
				return
			}
			out = append(out, m)
		}
	}
	vote := func(ms []cs.ConsensusMessage, typ byte, round int) cs.ConsensusMessage {
		for _, m := range ms {
			if v, ok := m.(*cs.VoteMessage); ok && v.Vote.Type == typ && v.Vote.Round == round {
				return m
			}
		}
		return nil
	}
	proposal := func(ms []cs.ConsensusMessage) (out []cs.ConsensusMessage) {
		for _, m := range ms {
			switch m.(type) {
			case *cs.ProposalMessage, *cs.BlockPartMessage:
				out = append(out, m)
			}
		}
		return
	}
	in := func(x int, set ...int) bool {
		for _, y := range set {
			if x == y {
				return true
			}
		}
		return false
	}
	// collect the votes of one type and round every node has queued for itself
	collect := func(typ byte, round int) map[int]cs.ConsensusMessage {
		out := map[int]cs.ConsensusMessage{}
		for _, i := range all {
			if m := vote(popAll(i), typ, round); m != nil {
				out[i] = m
			}
		}
		return out
	}
	allToAll := func(ms map[int]cs.ConsensusMessage) {
		for _, from := range all {
			if m, ok := ms[from]; ok {
				for _, to := range all {
					if to != from {
						cl.Deliver(to, m, from)
					}
				}
			}
		}
	}
	// thinned: node `to` gets every prevote for nil and at most `maxBlock` prevotes for a block (its own included)
	thinned := func(ms map[int]cs.ConsensusMessage, full []int, maxBlock int) {
		for _, to := range all {
			if in(to, full...) {
				for _, from := range all {
					if m, ok := ms[from]; ok && from != to {
						cl.Deliver(to, m, from)
					}
				}
				continue
			}
			blocks := 0
			if m, ok := ms[to]; ok && len(m.(*cs.VoteMessage).Vote.BlockID.Hash.Bytes()) > 0 && !m.(*cs.VoteMessage).Vote.BlockID.IsZero() {
				blocks = 1
			}
			for _, from := range all {
				m, ok := ms[from]
				if !ok || from == to {
					continue
				}
				if !m.(*cs.VoteMessage).Vote.BlockID.IsZero() {
					if blocks >= maxBlock {
						continue
					}
					blocks++
				}
				cl.Deliver(to, m, from)
			}
		}
	}
	for _, i := range all {
		fire(i, cstypes.RoundStepNewHeight, 0)
	}
	// ---- round 0: X reaches everybody but A and B; only T sees the polka
	pm := proposal(popAll(P0))
	if len(pm) < 2 {
		return nil, "", false, fmt.Errorf("directed relock schedule: no round-0 proposal")
	}
	// (P0's own prevote was popped with the proposal: put it back into the collection below)
	pv0 := map[int]cs.ConsensusMessage{}
	for _, to := range all {
		if !in(to, P0, A, B) {
			for _, m := range pm {
				cl.Deliver(to, m, P0)
			}
		}
	}
	fire(A, cstypes.RoundStepPropose, 0)
	fire(B, cstypes.RoundStepPropose, 0)
	for i, m := range collect(types.VoteTypePrevote, 0) {
		pv0[i] = m
	}
	for _, w := range cl.Wire { // P0's prevote is already on the wire
		if v, ok := w.Msg.(*cs.VoteMessage); ok && w.From == P0 && v.Vote.Type == types.VoteTypePrevote && v.Vote.Round == 0 {
			pv0[P0] = w.Msg
		}
	}
	thinned(pv0, []int{T}, 4)
	for _, i := range all {
		if i != T {
			fire(i, cstypes.RoundStepPrevoteWait, 0)
		}
	}
	allToAll(collect(types.VoteTypePrecommit, 0)) // 6 nil + T's X: everybody enters round 1
	lock0 := cl.ViewOf(cl.Nodes[T])
	// ---- round 1: P1's proposal reaches nobody; nil polka; two of its prevotes reach T late
	popAll(P1)
	for _, i := range all {
		if i != P1 {
			fire(i, cstypes.RoundStepPropose, 1)
		}
	}
	pv1 := collect(types.VoteTypePrevote, 1)
	for _, w := range cl.Wire {
		if v, ok := w.Msg.(*cs.VoteMessage); ok && w.From == P1 && v.Vote.Type == types.VoteTypePrevote && v.Vote.Round == 1 {
			pv1[P1] = w.Msg
		}
	}
	late := map[int]cs.ConsensusMessage{}
	for _, from := range all {
		m, ok := pv1[from]
		if !ok {
			continue
		}
		for _, to := range all {
			if to == from {
				continue
			}
			if to == T && in(from, B, C, P1) {
				if from != P1 {
					late[from] = m
				}
				continue
			}
			cl.Deliver(to, m, from)
		}
	}
	pc1 := collect(types.VoteTypePrecommit, 1)
	allToAll(pc1) // +2/3 nil precommits: everybody, T included, enters round 2
	// ---- round 2: T re-proposes X; only T sees the polka and re-locks
	tm := popAll(T)
	pm2 := proposal(tm)
	if len(pm2) < 2 {
		tv := cl.ViewOf(cl.Nodes[T])
		return nil, "", false, fmt.Errorf("directed relock schedule: the target did not propose in round 2 (it is at %d/%d/%d locked=%s@%d)", tv.H, tv.R, tv.S, tv.LB, tv.LR)
	}
	for _, to := range []int{P0, P1, C, A} {
		for _, m := range pm2 {
			cl.Deliver(to, m, T)
		}
	}
	for _, i := range all {
		if i != T {
			fire(i, cstypes.RoundStepPropose, 2) // POLRound 0 is a polka these nodes never saw: they prevote at the timeout
		}
	}
	pv2 := collect(types.VoteTypePrevote, 2)
	if m := vote(tm, types.VoteTypePrevote, 2); m != nil {
		pv2[T] = m
	}
	thinned(pv2, []int{T}, 4)
	for _, i := range all {
		if i != T {
			fire(i, cstypes.RoundStepPrevoteWait, 2)
		}
	}
	relock := cl.ViewOf(cl.Nodes[T])
	allToAll(collect(types.VoteTypePrecommit, 2)) // 6 nil + T's X: round 3
	// ---- round 3: the stragglers of round 1, then the fresh proposal Y
	for from, m := range late {
		cl.Deliver(T, m, from)
	}
	pm3 := proposal(popAll(P3))
	for _, m := range pm3 {
		cl.Deliver(T, m, P3)
	}
	voted := vote(popAll(T), types.VoteTypePrevote, 3) != nil
	reached := lock0.LB != "none" && lock0.LR == 0 && relock.LB == lock0.LB && len(late) == 2 && len(pm3) >= 2 && voted
	for _, to := range all {
		if to != P3 && to != T {
			for _, m := range pm3 {
				cl.Deliver(to, m, P3)
			}
		}
	}
	cl.RunSync(func() bool {
		for _, i := range all {
			if cl.Nodes[i].App.Height() < 1 {
				return false
			}
		}
		return true
	}, 400)
	var lines [][]byte
	b, _ := json.Marshal(cl.InitEvent())
	lines = append(lines, b)
	for _, e := range cl.Events {
		b, _ := json.Marshal(e)
		lines = append(lines, b)
	}
	desc := fmt.Sprintf("directed relock-challenge seed=%d proposers=%v target=%d late=%v events=%d (lock %s@%d, after round 2 %s@%d)", seed, prop, T, []int{B, C}, len(cl.Events), lock0.LB, lock0.LR, relock.LB, relock.LR)
	return lines, desc, reached, nil
}
