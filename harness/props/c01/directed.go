package c01

import (
	"encoding/json"
	"fmt"
	"math/rand"

	cs "github.com/lianxiangcloud/linkchain/consensus"
	cstypes "github.com/lianxiangcloud/linkchain/consensus/types"
	"github.com/lianxiangcloud/linkchain/types"

	"verifh/cluster"
)

// lockChallengeTrace is a DIRECTED schedule (no Byzantine validator, only delays) for the
// situation the unlock rule exists for:
//   round 0 ends with a nil polka at the target T, but one prevote of that round (from L) is late;
//   round 1: T sees a polka for X, locks X and precommits it, no commit (precommits are thinned out);
//   the round-2 proposer never saw the polka, so it proposes a fresh block Y;
//   L's late round-0 prevote reaches T; then Y's proposal reaches T.
// A correct T is still locked on X (the old polka is from a round BEFORE its lock) and prevotes X;
// the events are validated like every other trace (conformance + monitor).
func lockChallengeTrace(seed int64) ([][]byte, string, bool, error) {
	rng := rand.New(rand.NewSource(seed))
	const N = 7
	cl, err := cluster.New(cluster.Options{N: N, Powers: []int64{1, 1, 1, 1, 1, 1, 1}})
	if err != nil {
		return nil, "", false, err
	}
	// proposers of rounds 0..2 (unit powers: rotation is path-independent)
	prop := make([]int, 3)
	vs := cl.ValSet.Copy()
	for r := 0; r < 3; r++ {
		prop[r] = cl.IndexOf(vs.GetProposer().Address)
		vs.IncrementAccum(1)
	}
	var free []int
	for i := 0; i < N; i++ {
		if i != prop[0] && i != prop[1] && i != prop[2] {
			free = append(free, i)
		}
	}
	rng.Shuffle(len(free), func(a, b int) { free[a], free[b] = free[b], free[a] })
	T, L := free[0], free[1]
	all := cl.Correct()
	fire := func(i int, step cstypes.RoundStepType, round int) bool {
		n := cl.Nodes[i]
		for k, t := range n.Pend {
			if t.Step == step && t.Round == round {
				cl.Fire(i, k)
				return true
			}
		}
		return false
	}
	popAll := func(i int) (out []cs.ConsensusMessage) {
		for {
			m, ok := cl.PopInternal(i)
			if !ok {
				return
			}
			out = append(out, m)
		}
	}
	isVote := func(m cs.ConsensusMessage, typ byte, round int) bool {
		v, ok := m.(*cs.VoteMessage)
		return ok && v.Vote.Type == typ && v.Vote.Round == round
	}
	// ---- round 0: the proposal reaches nobody; nil polka; L's prevote is withheld from T
	for _, i := range all {
		fire(i, cstypes.RoundStepNewHeight, 0)
	}
	popAll(prop[0]) // its own proposal, part and prevote stay with it
	var lateVote cs.ConsensusMessage
	pv0 := map[int]cs.ConsensusMessage{}
	for _, i := range all {
		if i == prop[0] {
			continue
		}
		fire(i, cstypes.RoundStepPropose, 0)
		for _, m := range popAll(i) {
			if isVote(m, types.VoteTypePrevote, 0) {
				pv0[i] = m
			}
		}
	}
	for from, m := range pv0 {
		for _, to := range all {
			if to == from {
				continue
			}
			if from == L && to == T {
				lateVote = m
				continue
			}
			cl.Deliver(to, m, from)
		}
	}
	// nil precommits all-to-all: everybody moves to round 1
	pc0 := map[int]cs.ConsensusMessage{}
	for _, i := range all {
		if i == prop[0] {
			fire(i, cstypes.RoundStepPrevoteWait, 0) // it prevoted its own block; the others' nil polka arrives by delivery
		}
		for _, m := range popAll(i) {
			if isVote(m, types.VoteTypePrecommit, 0) {
				pc0[i] = m
			}
		}
	}
	for from, m := range pc0 {
		for _, to := range all {
			if to != from {
				cl.Deliver(to, m, from)
			}
		}
	}
	// ---- round 1: X is proposed, everybody but the round-2 proposer sees the polka and locks
	var propMsgs []cs.ConsensusMessage
	for _, m := range popAll(prop[1]) {
		switch m.(type) {
		case *cs.ProposalMessage, *cs.BlockPartMessage:
			propMsgs = append(propMsgs, m)
		}
	}
	if len(propMsgs) < 2 {
		return nil, "", false, fmt.Errorf("directed schedule: the round-1 proposer did not propose (it is at %s)", cl.Nodes[prop[1]].CS.VerifString())
	}
	P2 := prop[2]
	for _, to := range all {
		if to != prop[1] && to != P2 { // the round-2 proposer misses the proposal: it will prevote nil
			for _, m := range propMsgs {
				cl.Deliver(to, m, prop[1])
			}
		}
	}
	fire(P2, cstypes.RoundStepPropose, 1)
	pv1 := map[int]cs.ConsensusMessage{}
	for _, i := range all {
		for _, m := range popAll(i) {
			if isVote(m, types.VoteTypePrevote, 1) {
				pv1[i] = m
			}
		}
	}
	toP2 := 0
	for _, from := range all {
		m, ok := pv1[from]
		if !ok || from == P2 {
			continue
		}
		for _, to := range all {
			if to == from {
				continue
			}
			if to == P2 {
				if toP2 >= 4 {
					continue // +2/3 of any prevotes at the round-2 proposer, but no polka
				}
				toP2++
			}
			cl.Deliver(to, m, from)
		}
	}
	fire(P2, cstypes.RoundStepPrevoteWait, 1) // it precommits nil
	pc1 := map[int]cs.ConsensusMessage{}
	for _, i := range all {
		for _, m := range popAll(i) {
			if isVote(m, types.VoteTypePrecommit, 1) {
				pc1[i] = m
			}
		}
	}
	// precommits are thinned out: +2/3 of ANY at every node (so the round can end), never +2/3 for X
	nilPC := pc1[P2]
	for _, to := range all {
		given := 1 // its own
		for _, from := range all {
			m, ok := pc1[from]
			if !ok || from == to || from == P2 || given >= 5 || (to != P2 && given >= 4) {
				continue
			}
			cl.Deliver(to, m, from)
			given++
		}
		if nilPC != nil && to != P2 {
			cl.Deliver(to, nilPC, P2)
		}
	}
	for _, i := range all {
		fire(i, cstypes.RoundStepPrecommitWait, 1)
	}
	// ---- round 2: the late round-0 prevote reaches T, then the fresh proposal Y
	tv1 := cl.ViewOf(cl.Nodes[T])
	reached := lateVote != nil && tv1.R == 2 && tv1.LR == 1 && tv1.LB != "none"
	if lateVote != nil {
		cl.Deliver(T, lateVote, L)
	}
	var prop2 []cs.ConsensusMessage
	for _, m := range popAll(prop[2]) {
		switch m.(type) {
		case *cs.ProposalMessage, *cs.BlockPartMessage:
			prop2 = append(prop2, m)
		}
	}
	for _, m := range prop2 {
		cl.Deliver(T, m, prop[2])
	}
	voted := false
	for _, m := range popAll(T) { // T's round-2 prevote becomes an event
		if isVote(m, types.VoteTypePrevote, 2) {
			voted = true
		}
	}
	reached = reached && voted && len(prop2) >= 2
	// let the others finish normally so the trace also ends in agreement
	for _, to := range all {
		if to != prop[2] && to != T {
			for _, m := range prop2 {
				cl.Deliver(to, m, prop[2])
			}
		}
	}
	cl.RunSync(func() bool {
		for _, i := range all {
			if cl.Nodes[i].App.Height() < 1 {
				return false
			}
		}
		return true
	}, 400)
	var lines [][]byte
	b, _ := json.Marshal(cl.InitEvent())
	lines = append(lines, b)
	for _, e := range cl.Events {
		b, _ := json.Marshal(e)
		lines = append(lines, b)
	}
	tv := cl.ViewOf(cl.Nodes[T])
	desc := fmt.Sprintf("directed lock-challenge seed=%d proposers=%v target=%d late=%d events=%d (target now at %d/%d/%d locked=%s@%d)", seed, prop, T, L, len(cl.Events), tv.H, tv.R, tv.S, tv.LB, tv.LR)
	return lines, desc, reached, nil
}
