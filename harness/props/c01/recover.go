package c01

import (
	"fmt"

	cstypes "github.com/lianxiangcloud/linkchain/consensus/types"
	"github.com/lianxiangcloud/linkchain/libs/common"
	"github.com/lianxiangcloud/linkchain/types"

	"verifh/cluster"
	"verifh/core"
	"verifh/tlc"
)

// recoverScenario reproduces, on real ConsensusState instances and with NO Byzantine
// validator, what RecoverQuorums.tla shows on the model: a quorum of the normal
// validator set and a quorum of the recover set (white list + all candidates) need not
// intersect, so two groups of correct nodes commit different blocks at one height.
func recoverScenario(c *core.Ctx) {
	res := c.TLC(tlc.Options{SpecDir: c.SpecDir("Consensus"), Module: "RecoverQuorums", Config: "RecoverQuorums.cfg", Workers: 1, Timeout: c.MinutesT(3, 5)})
	if res == nil {
		return
	}
	c.SetExtra("recover_quorums_model", fmt.Sprintf("QuorumsIntersect violated on the model: %v", res.Violated != ""))
	if res.Violated == "" {
		return // the design no longer admits disjoint quorums: nothing to reproduce
	}
	const NV, NC = 4, 8
	cl, err := cluster.New(cluster.Options{N: NV, ExtraPVs: NC})
	if err != nil {
		c.Infra("recover cluster: %v", err)
		return
	}
	var rec []*types.Validator
	for _, pv := range cl.PVs {
		rec = append(rec, types.NewValidator(pv.GetPubKey(), common.EmptyAddress, 10))
	}
	for _, n := range cl.Nodes {
		n.Mock.Recover = rec
	}
	prop0 := cl.Nodes[0].CS.GetRoundState().Validators.GetProposer().Address
	var g1, g2 []int
	late := -1
	for _, n := range cl.Nodes {
		_, v := cl.ValSet.GetByAddress(n.PV.GetAddress())
		if v == nil {
			g2 = append(g2, n.Idx)
			continue
		}
		if late < 0 && string(n.PV.GetAddress()) != string(prop0) {
			late = n.Idx
			g2 = append(g2, n.Idx)
			continue
		}
		g1 = append(g1, n.Idx)
	}
	runGroup := func(group []int, done func() bool) {
		for it := 0; it < 4000 && !done(); it++ {
			progressed := false
			for _, i := range group {
				for {
					m, ok := cl.PopInternal(i)
					if !ok {
						break
					}
					progressed = true
					for _, j := range group {
						if j != i {
							cl.Deliver(j, m, i)
						}
					}
				}
			}
			if progressed {
				continue
			}
			fired := false
			for _, i := range group {
				n := cl.Nodes[i]
				if len(n.Pend) == 0 {
					continue
				}
				cl.Fire(i, len(n.Pend)-1)
				fired = true
			}
			if !fired {
				return
			}
		}
	}
	all := func(group []int) func() bool {
		return func() bool {
			for _, i := range group {
				if cl.Nodes[i].Mock.H < 1 {
					return false
				}
			}
			return true
		}
	}
	// the three connected normal validators commit height 1
	runGroup(g1, all(g1))
	// the partitioned validator and the candidates see nothing; their recover timers fire
	for _, i := range g2 {
		n := cl.Nodes[i]
		for k, t := range n.Pend {
			if t.Step == cstypes.RoundStepNewHeight {
				cl.Fire(i, k)
				break
			}
		}
		cl.FireRecover(i)
	}
	runGroup(g2, all(g2))
	if len(cl.Nodes[g1[0]].Mock.Committed) == 0 || len(cl.Nodes[g2[0]].Mock.Committed) == 0 {
		c.Drift("recover scenario: one group did not commit (g1 %v, g2 %v)", cl.Nodes[g1[0]].Mock.Committed, cl.Nodes[g2[0]].Mock.Committed)
		return
	}
	x, y := cl.Nodes[g1[0]].Mock.Committed[0], cl.Nodes[g2[0]].Mock.Committed[0]
	c.AddTraces(1)
	if x != y {
		c.Violate("agreement/recover-mode-disjoint-quorums",
			fmt.Sprintf("with no Byzantine validator, %d connected validators commit %s while the partitioned validator and %d candidates, after their recover timers fired, commit %s at the same height", len(g1), x, NC, y),
			map[string]interface{}{"group1": g1, "group2": g2, "group1_committed": x, "group2_committed": y,
				"schedule": "group 1 runs loss-free to height 1; every group-2 node: NewHeight timeout, recover timer (VerifFireRecover), then group 2 runs loss-free"})
	}
}
