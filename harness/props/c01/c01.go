// Package c01: consensus agreement and voting discipline.
package c01

import (
	"bytes"
	"encoding/json"
	"fmt"
	"math/rand"
	"os"
	"os/signal"
	"strings"
	"syscall"
	"time"

	"verifh/cluster"
	"verifh/core"
	"verifh/tlc"
)

func init() { core.Register("C01", run) }

type traceInfo struct {
	seed    int64
	first   int // first line (1-based) of the trace in the bundle
	last    int
	desc    string
	heights []uint64
}

// genTrace runs one adversarial cluster execution and returns its events as ndjson lines.
func genTrace(seed int64, kind int) ([][]byte, string, *cluster.Cluster, error) {
	rng := rand.New(rand.NewSource(seed))
	// totals in every residue class mod 3 (the 2/3 threshold rounds differently in each)
	powersets := [][]int64{{10, 10, 10, 10}, {1, 1, 1, 1}, {3, 2, 2, 2}, {2, 1, 1, 1, 1}, {10, 10, 10, 10, 10, 10, 10},
		{1, 1, 1, 1, 1}, {3, 3, 3, 2}, {1, 1, 1, 1, 1, 1, 1, 1}}
	ps := powersets[rng.Intn(len(powersets))]
	var byz []int
	total := int64(0)
	for _, p := range ps {
		total += p
	}
	if kind%3 != 0 { // two thirds of the traces have a Byzantine validator (power < 1/3)
		i := rng.Intn(len(ps))
		if 3*ps[i] < total {
			byz = []int{i}
		}
		if len(ps) >= 7 && len(byz) == 1 && rng.Intn(2) == 0 {
			j := (byz[0] + 1 + rng.Intn(len(ps)-1)) % len(ps)
			if 3*(ps[byz[0]]+ps[j]) < total {
				byz = append(byz, j)
			}
		}
	}
	cl, err := cluster.New(cluster.Options{N: len(ps), Powers: ps, Byz: byz})
	if err != nil {
		return nil, "", nil, err
	}
	// the powers follow address order, not the order given: read them back
	o := cluster.AdvOptions{Steps: 900, TargetHeight: 3, PLoss: 0.05, PDup: 0.1, PTimeout: 0.25, PByz: 1.0, Slow: -1}
	switch kind % 6 {
	case 4, 5: // lock stress
		o.WithholdR0, o.PrecommitLoss, o.ByzOldRounds, o.PTimeout, o.PDup = 0.9, 0.65, true, 0.6, 0.25
	case 1:
		o.PTimeout = 1.5 // timeout-happy: many round changes
	case 2:
		o.Slow = cl.Correct()[rng.Intn(len(cl.Correct()))]
	case 3:
		o.PLoss, o.PDup = 0.25, 0.3
	}
	cl.RunAdversarial(rng, o)
	var lines [][]byte
	b, _ := json.Marshal(cl.InitEvent())
	lines = append(lines, b)
	for _, e := range cl.Events {
		b, _ := json.Marshal(e)
		lines = append(lines, b)
	}
	desc := fmt.Sprintf("seed=%d kind=%d powers=%v byz=%v events=%d", seed, kind, ps, byz, len(cl.Events))
	return lines, desc, cl, nil
}

func run(c *core.Ctx) {
	o := c.Out()
	o.Level = "model_checking"
	sig := make(chan os.Signal, 64)
	signal.Notify(sig, syscall.SIGTERM) // cmn.Kill() of a node must not end the check
	defer signal.Stop(sig)
	o.Rule = "trace = one seeded adversarial execution of 4-7 real ConsensusState instances (0-2 Byzantine validators with < 1/3 of the power; random delivery order, loss, duplication, stale timeouts, equivocation, conflicting proposals) to height 3, validated line by line against Trace_Consensus (conformance with the transcribed algorithm + monitor of the voting discipline and Agreement); non-trivial = the trace contains a round above 0 or a Byzantine message; distinct = distinct seeds"
	o.Assumptions = []string{"signatures are unforgeable (Byzantine validators sign with their own real keys only)", "gossip is abstracted to 'any message on the wire may be delivered to anyone at any time'", "blocks have one part; the application is a mock that accepts every block (C02/C05 own the application)", "recover mode is exercised separately (known finding)"}
	o.Trusted = []string{"TLC", "the transcription ConsensusNode.tla (checked against the code by conformance on every trace)", "hook H1 (executes the bodies of receiveRoutine's select cases)"}

	// ---- (2) the code: trace validation --------------------------------------------
	nTraces := c.Pick(90, 1500)
	var bundle bytes.Buffer
	var infos []traceInfo
	line := 0
	nontrivial := 0
	kills := 0
	deadline := time.Now().Add(c.MinutesT(1, 15))
	// directed schedules first: a locked node is challenged by a late polka of an OLDER round
	// and a fresh proposal (the situation the unlock rule is about; random schedules hit it rarely)
	nDirected, reachedN := c.Pick(6, 40), 0
	reachedKind := map[int]int{}
	for d := 0; d < nDirected; d++ {
		seed := c.Seed*100000 + 90000 + int64(d)
		gen := lockChallengeTrace
		if d%2 == 1 {
			gen = relockChallengeTrace
		}
		lines, desc, reached, err := gen(seed)
		if err != nil {
			c.Drift("%v", err)
			continue
		}
		if reached {
			reachedN++
			reachedKind[d%2]++
		}
		first := line + 1
		for _, l := range lines {
			bundle.Write(l)
			bundle.WriteByte('\n')
			line++
		}
		infos = append(infos, traceInfo{seed: seed, first: first, last: line, desc: desc})
		o.Evaluations += len(lines)
		nontrivial++
		if d == 0 {
			c.Sample(map[string]interface{}{"trace": desc, "challenge_reached": reached})
		}
	}
	c.SetExtra("directed_lock_challenges_reached", reachedN)
	c.SetExtra("directed_relock_challenges_reached", reachedKind[1])
	if reachedKind[0] == 0 || reachedKind[1] == 0 {
		c.Infra("directed schedules did not reach their challenge: lock-challenge %d, relock-challenge %d of %d", reachedKind[0], reachedKind[1], nDirected)
	}
	for t := 0; t < nTraces && time.Now().Before(deadline); t++ {
		seed := c.Seed*100000 + int64(t)
		lines, desc, cl, err := genTrace(seed, t)
		if err != nil {
			c.Infra("cluster: %v", err)
			return
		}
		first := line + 1
		for _, l := range lines {
			bundle.Write(l)
			bundle.WriteByte('\n')
			line++
		}
		infos = append(infos, traceInfo{seed: seed, first: first, last: line, desc: desc})
		o.Evaluations += len(lines)
		maxR, byzMsgs := 0, 0
		for _, e := range cl.Events {
			if e.Post.R > maxR {
				maxR = e.Post.R
			}
			if e.Msg != nil && e.Kind == "deliver" && e.Msg.From >= 0 && e.Msg.From < len(cl.Nodes) && cl.Nodes[e.Msg.From].Byz {
				byzMsgs++
			}
			if e.Fail != "" {
				c.Violate("state-machine-failure", fmt.Sprintf("the consensus state machine failed with %q (%s)", e.Fail, desc), map[string]interface{}{"trace": desc, "event": e})
			}
		}
		if maxR > 0 || byzMsgs > 0 {
			nontrivial++
		}
		if t < 2 {
			c.Sample(map[string]interface{}{"trace": desc, "max_round": maxR, "byzantine_messages": byzMsgs, "first_events": firstN(lines, 3)})
		}
		for {
			select {
			case <-sig:
				kills++
				continue
			default:
			}
			break
		}
	}
	if kills > 0 {
		c.Infra("a node asked to be killed (%d SIGTERM) during C01 traces: ApplyBlock failed on a block the driver meant to be valid", kills)
	}
	o.Distinct = nontrivial
	c.SetExtra("traces_generated", len(infos))
	verdict := validate(c, bundle.Bytes(), infos, "Trace_Consensus.cfg")
	if verdict == "drift" {
		validate(c, bundle.Bytes(), infos, "Trace_Monitor.cfg")
	}
	o.Traces += len(infos)

	// ---- (3) the binding is not vacuous: corrupted traces must be rejected -------
	if len(infos) > 0 {
		negativeControls(c, bundle.Bytes(), infos)
	}

	// ---- (4) the named deviation: recover mode ---------------------------------------
	recoverScenario(c)

	// ---- (1) the design: exhaustive layers L and A ---------------------------------
	designLayers(c)
}

// designLayers model-checks the two exhaustive halves of the argument: the transcribed
// algorithm keeps the voting discipline against any environment (layer L), and the
// discipline implies Agreement for Byzantine power < 1/3 (layer A).
func designLayers(c *core.Ctx) {
	o := c.Out()
	locals := []string{"Local_PropNever.cfg", "Local_PropR0.cfg"}
	if c.Thorough() {
		locals = append(locals, "Local_PropR1.cfg")
	}
	for _, cfg := range locals {
		res := c.TLC(tlc.Options{SpecDir: c.SpecDir("Consensus"), Module: "MC_Local", Config: cfg, Workers: 8, Timeout: c.MinutesT(6, 30), HeapMB: 8192})
		if res == nil {
			return
		}
		if res.Violated != "" {
			c.Infra("layer L (%s): the transcribed algorithm violates %s on the model - lead to reproduce on the code:\n%s", cfg, res.Violated, res.Tail)
			return
		}
		if !res.Finished {
			c.Infra("layer L (%s) did not finish: %s", cfg, res.Describe())
			return
		}
	}
	agCfgs := []string{"Ag31.cfg", "Ag22_control.cfg"}
	if c.Thorough() {
		agCfgs = append(agCfgs, "Ag211_1.cfg", "Ag41.cfg")
	}
	for _, cfg := range agCfgs {
		res := c.TLC(tlc.Options{SpecDir: c.SpecDir("Consensus"), Module: "MC_Ag", Config: cfg, Workers: 8, Timeout: c.MinutesT(6, 30), HeapMB: 8192})
		if res == nil {
			return
		}
		control := strings.Contains(cfg, "control")
		if control {
			if res.Violated == "" {
				c.Infra("vacuity control %s: Agreement was NOT violated with Byzantine power >= 1/3", cfg)
				return
			}
			continue
		}
		if res.Violated != "" || !res.Finished {
			c.Infra("layer A (%s): %s\n%s", cfg, res.Describe(), res.Tail)
			return
		}
	}

	o.Exhaustive = true
}

func firstN(lines [][]byte, n int) []json.RawMessage {
	var out []json.RawMessage
	for i := 0; i < len(lines) && i < n; i++ {
		out = append(out, json.RawMessage(lines[i]))
	}
	return out
}

func whichTrace(infos []traceInfo, line int) *traceInfo {
	for i := range infos {
		if line >= infos[i].first && line <= infos[i].last {
			return &infos[i]
		}
	}
	return nil
}

// validate runs the trace specification over the bundle. Returns "ok", "violation",
// "drift" (conformance rejected a trace) or "infra".
func validate(c *core.Ctx, data []byte, infos []traceInfo, cfg string) string {
	res := c.TLC(tlc.Options{SpecDir: c.SpecDir("Consensus"), Module: "Trace_Consensus", Config: cfg, Workers: 1,
		Timeout: c.MinutesT(5, 30), Files: map[string][]byte{"trace.ndjson": data}})
	if res == nil {
		return "infra"
	}
	lineOf := func() int {
		// with one worker and a deterministic trace spec, the number of generated states is the
		// index of the line being explained when TLC stopped
		return res.Generated - 1
	}
	if res.Violated != "" {
		ti := whichTrace(infos, lineOf())
		key := "discipline/" + res.Violated
		if res.Violated == "Agreement" {
			key = "agreement"
		}
		desc := "?"
		var ev json.RawMessage
		if ti != nil {
			desc = ti.desc
			ls := bytes.Split(data, []byte("\n"))
			if l := lineOf(); l-1 < len(ls) && l >= 1 {
				ev = json.RawMessage(ls[l-1])
			}
		}
		c.Violate(key, fmt.Sprintf("real nodes violate %s (trace %s, bundle line %d)", res.Violated, desc, lineOf()),
			map[string]interface{}{"invariant": res.Violated, "trace": desc, "line": lineOf(), "event": ev, "regenerate": "genTrace(seed, kind) of package c01"})
		return "violation"
	}
	for _, l := range res.Lines {
		if strings.Contains(l, `"nonconformance"`) {
			var nc struct{ Line int }
			json.Unmarshal([]byte(l), &nc)
			where := "?"
			if ti := whichTrace(infos, nc.Line); ti != nil {
				where = fmt.Sprintf("%s, line %d of the trace", ti.desc, nc.Line-ti.first+1)
			}
			c.Drift("conformance: the real state machine left the transcribed algorithm (%s): %s", where, l)
			if d := os.Getenv("VERIF_DEBUG_DIR"); d != "" {
				os.WriteFile(d+"/trace.ndjson", data, 0644)
			}
			return "drift"
		}
	}
	if res.PostFalse || !res.Finished {
		c.Infra("trace validation (%s) ended without a verdict: %s\n%s", cfg, res.Describe(), res.Tail)
		return "infra"
	}
	return "ok"
}

// negativeControls corrupts the first trace in two ways and expects rejection.
func negativeControls(c *core.Ctx, data []byte, infos []traceInfo) {
	ls := bytes.Split(bytes.TrimSpace(data), []byte("\n"))
	ls = ls[infos[0].first-1 : infos[0].last]
	rejected := 0
	// (a) a node's own prevote is replayed with another value in the same round: OneVotePerRound
	for i, l := range ls {
		var e cluster.Event
		if json.Unmarshal(l, &e) != nil || e.Kind != "internal" || e.Msg == nil || e.Msg.T != "pv" {
			continue
		}
		e2 := e
		m := *e.Msg
		m.B = "deadbeef"
		e2.Msg = &m
		b, _ := json.Marshal(e2)
		mut := append(append([][]byte{}, ls[:i+1]...), b)
		res := c.TLC(tlc.Options{SpecDir: c.SpecDir("Consensus"), Module: "Trace_Consensus", Config: "Trace_Monitor.cfg", Workers: 1,
			Timeout: 3 * time.Minute, Files: map[string][]byte{"trace.ndjson": append(bytes.Join(mut, []byte("\n")), '\n')}})
		if res != nil && res.Violated == "OneVotePerRound" {
			rejected++
		}
		break
	}
	// (b) a recorded post-state is altered: conformance must notice
	for i, l := range ls {
		var e cluster.Event
		if json.Unmarshal(l, &e) != nil || e.Kind == "init" {
			continue
		}
		if i < 5 {
			continue
		}
		e.Post.LR += 1
		b, _ := json.Marshal(e)
		mut := append(append([][]byte{}, ls[:i]...), b)
		res := c.TLC(tlc.Options{SpecDir: c.SpecDir("Consensus"), Module: "Trace_Consensus", Config: "Trace_Consensus.cfg", Workers: 1,
			Timeout: 3 * time.Minute, Files: map[string][]byte{"trace.ndjson": append(bytes.Join(mut, []byte("\n")), '\n')}})
		if res != nil && strings.Contains(strings.Join(res.Lines, " "), `"nonconformance"`) {
			rejected++
		}
		break
	}
	c.SetExtra("negative_controls_rejected", rejected)
	if rejected < 2 {
		c.Infra("vacuous binding: only %d of 2 corrupted traces were rejected", rejected)
	}
}
