// Package c05: see harness/ledger (shared Ledger binding).
package c05

import (
	"verifh/core"
	"verifh/ledger"
)

func init() { core.Register("C05", func(c *core.Ctx) { ledger.Run(c, "C05") }) }
