package c18

import (
	"math/rand"

	"verifh/mbt"
)

// dagTours covers every edge of an acyclic exported graph with root-to-leaf behaviours:
// for every edge not yet covered, the shortest path from the initial state to its source,
// the edge itself, then a greedy continuation over uncovered edges (random among them)
// until a state without uncovered successors.  Linear in the total length of the paths
// (mbt.Graph.Tour searches the graph again after every restart, which is too slow for
// graphs that need tens of thousands of restarts).
func dagTours(g *mbt.Graph, rng *rand.Rand) [][]int {
	n := len(g.States)
	parent := make([]int, n) // edge by which BFS reached the state
	for i := range parent {
		parent[i] = -1
	}
	seen := make([]bool, n)
	order := []int{0}
	seen[0] = true
	for qi := 0; qi < len(order); qi++ {
		s := order[qi]
		for _, ei := range g.Out[s] {
			t := g.Edges[ei].To
			if !seen[t] {
				seen[t] = true
				parent[t] = ei
				order = append(order, t)
			}
		}
	}
	covered := make([]bool, len(g.Edges))
	pathTo := func(s int) []int {
		var p []int
		for s != 0 {
			ei := parent[s]
			p = append(p, ei)
			s = g.Edges[ei].From
		}
		for i, j := 0, len(p)-1; i < j; i, j = i+1, j-1 {
			p[i], p[j] = p[j], p[i]
		}
		return p
	}
	var tours [][]int
	for _, s := range order {
		for _, first := range g.Out[s] {
			if covered[first] {
				continue
			}
			walk := pathTo(s)
			for _, ei := range walk {
				covered[ei] = true
			}
			cur := first
			for steps := 0; steps < 10000; steps++ {
				covered[cur] = true
				walk = append(walk, cur)
				outs := g.Out[g.Edges[cur].To]
				var cand []int
				for _, ei := range outs {
					if !covered[ei] {
						cand = append(cand, ei)
					}
				}
				if len(cand) == 0 {
					break
				}
				cur = cand[rng.Intn(len(cand))]
			}
			tours = append(tours, walk)
		}
	}
	return tours
}
