package c18

// Stream binding: every behaviour of spec/MConn/Stream (Write / Read calls with sizes
// around the frame boundary) is replayed through a pair of REAL SecretConnections
// (conn.MakeSecretConnection on both ends).  After every step the bytes returned by
// Read are compared with the bytes the model says must come next (byte-exact), and at
// the end of the behaviour the connection is drained and everything written must have
// arrived, once, in order.

import (
	"bytes"
	"encoding/json"
	"fmt"
	"io"
	"math/rand"
	"net"
	"runtime"
	"strings"
	"sync"
	"time"

	"github.com/lianxiangcloud/linkchain/libs/crypto"
	"github.com/lianxiangcloud/linkchain/libs/p2p/conn"

	"verifh/mbt"
)

type stAct struct {
	Op  string `json:"op"`
	N   int    `json:"n"`
	K   int    `json:"k"`
	Res int    `json:"res"`
	Lo  int    `json:"lo"`
	Hi  int    `json:"hi"`
	Src string `json:"src"`
}

type stState struct {
	S struct {
		Sent     int `json:"sent"`
		Rcvd     int `json:"rcvd"`
		Inflight int `json:"inflight"`
		Rbuf     int `json:"rbuf"`
	} `json:"s"`
}

var (
	stWires    = []string{"mem-message", "mem-stream", "mem-trickle1", "mem-random", "net.Pipe", "tcp"}
	stContents = []string{"random", "runs", "text", "sparse"}
)

// stContent returns n bytes of the stream whose byte i depends on i (so that loss,
// duplication and reordering all show), in four flavours of compressibility.
func stContent(kind string, n int, seed int64) []byte {
	b := make([]byte, n)
	switch kind {
	case "random": // incompressible
		rand.New(rand.NewSource(seed)).Read(b)
	case "runs": // long runs: highly compressible
		for i := range b {
			b[i] = byte(i/251 + int(seed))
		}
	case "text": // 16-byte records carrying their own offset
		for i := 0; i+16 <= n; i += 16 {
			copy(b[i:], fmt.Sprintf("%014d;\n", i))
		}
	default: // "sparse": zeros with a marker every 997 bytes
		for i := 0; i < n; i += 997 {
			b[i] = byte(i/997) | 1
		}
	}
	return b
}

// securePair runs the real handshake on both ends (see ephBoundary for the wrapper).
func securePair(na, nb net.Conn) (a, b *conn.SecretConnection, err error) {
	var ca, cb io.ReadWriteCloser = newEphBoundary(na), newEphBoundary(nb)
	ka, kb := crypto.GenPrivKeyEd25519(), crypto.GenPrivKeyEd25519()
	type r struct {
		sc  *conn.SecretConnection
		err error
	}
	ra, rb := make(chan r, 1), make(chan r, 1)
	run := func(c io.ReadWriteCloser, k crypto.PrivKey, out chan r) {
		var res r
		defer func() {
			if p := recover(); p != nil {
				res = r{nil, fmt.Errorf("panic: %v", p)}
			}
			out <- res
		}()
		sc, err := conn.MakeSecretConnection(c, k)
		res = r{sc, err}
	}
	go run(ca, ka, ra)
	go run(cb, kb, rb)
	var xa, xb r
	for i := 0; i < 2; i++ {
		select {
		case xa = <-ra:
			ra = nil
			if xa.err != nil { // let the other side fail too
				ca.Close()
				cb.Close()
			}
		case xb = <-rb:
			rb = nil
			if xb.err != nil {
				ca.Close()
				cb.Close()
			}
		case <-time.After(60 * time.Second):
			buf := make([]byte, 1<<20)
			buf = buf[:runtime.Stack(buf, true)]
			ca.Close()
			cb.Close()
			return nil, nil, errHandshakeTimeout{stacksOf(string(buf), "MakeSecretConnection")}
		}
	}
	if xa.err != nil || xb.err != nil || xa.sc == nil || xb.sc == nil {
		return nil, nil, fmt.Errorf("honest handshake failed: %v / %v", xa.err, xb.err)
	}
	if !xa.sc.RemotePubKey().Equals(kb.PubKey()) || !xb.sc.RemotePubKey().Equals(ka.PubKey()) {
		return nil, nil, fmt.Errorf("honest handshake reports the wrong remote key")
	}
	return xa.sc, xb.sc, nil
}

// errHandshakeTimeout: no verdict (the README's rule: timeouts are infrastructure failures).
type errHandshakeTimeout struct{ stacks string }

func (e errHandshakeTimeout) Error() string {
	return "honest handshake did not complete within 60 s; goroutines inside it:\n" + e.stacks
}

// stacksOf keeps the goroutine dumps that mention the given function.
func stacksOf(dump, fn string) string {
	var out []string
	for _, g := range strings.Split(dump, "\n\n") {
		if strings.Contains(g, fn) {
			if len(g) > 1500 {
				g = g[:1500] + "..."
			}
			out = append(out, g)
		}
		if len(out) >= 4 {
			break
		}
	}
	return strings.Join(out, "\n\n")
}

// honestFailure classifies an error of securePair.
func honestFailure(err error) *mismatch {
	if _, ok := err.(errHandshakeTimeout); ok {
		return &mismatch{kind: "infra", desc: err.Error()}
	}
	return &mismatch{kind: "honest", key: "handshake/honest-rejected", desc: err.Error()}
}

type mismatch struct {
	kind string // "prop" | "infra" | "honest" (the honest handshake itself failed)
	key  string
	desc string
	step int
}

type stStats struct {
	steps int
	bytes int64
	drift string // first pi_shape difference (number of bytes a Read returned)
}

func firstDiff(a, b []byte) int {
	n := len(a)
	if len(b) < n {
		n = len(b)
	}
	for i := 0; i < n; i++ {
		if a[i] != b[i] {
			return i
		}
	}
	return n
}

// stReplay replays one behaviour over the given kind of wire with the given content.
func stReplay(g *mbt.Graph, seq []int, wire, content string, dir int, seed int64, sabotage bool) (st stStats, mm *mismatch) {
	// the content of the whole stream
	total := 0
	for _, ei := range seq {
		var a stAct
		json.Unmarshal(g.Edges[ei].Act, &a)
		if a.Op == "write" {
			total += a.N
		}
	}
	wdata := stContent(content, total, seed) // what is written
	data := wdata                            // what must be read
	if sabotage && total > 0 {
		// negative control: expect one byte to be different from what is written
		data = append([]byte(nil), wdata...)
		data[total/2] ^= 0x5a
	}
	rng := rand.New(rand.NewSource(seed))

	var ca, cb net.Conn
	var ma, mb *memConn
	switch wire {
	case "net.Pipe":
		ca, cb = net.Pipe()
	case "tcp":
		var err error
		if ca, cb, err = tcpPair(); err != nil {
			return st, &mismatch{kind: "infra", desc: "tcp loopback: " + err.Error()}
		}
	default:
		ma, mb = newMemPair()
		ca, cb = ma, mb
	}
	defer ca.Close()
	defer cb.Close()
	sa, sb, err := securePair(ca, cb)
	if err != nil {
		return st, honestFailure(err)
	}
	w, r := sa, sb
	wc, rc := ca, cb
	if dir == 1 {
		w, r = sb, sa
		wc, rc = cb, ca
	}
	concurrent := ma == nil
	if !concurrent {
		rin := rc.(*memConn).in
		rin.set(func(h *halfPipe) {
			h.nonblock = true
			switch wire {
			case "mem-stream":
				h.stream = true
			case "mem-trickle1":
				h.stream, h.maxRead = true, 1
			case "mem-random":
				h.stream = true
				lr := rand.New(rand.NewSource(seed ^ 0x5eed))
				h.readFn = func(n int) int { return 1 + lr.Intn(n) }
			}
		})
	}

	sent, rcvd := 0, 0
	// the writer's part (inline in sequential mode, a goroutine in concurrent mode)
	doWrite := func(n int) *mismatch {
		wn, err := w.Write(wdata[sent : sent+n])
		if err != nil || wn != n {
			return &mismatch{kind: "prop", key: "stream/write-failed", desc: fmt.Sprintf("Write of %d bytes at offset %d returned (%d, %v)", n, sent, wn, err)}
		}
		sent += n
		st.bytes += int64(n)
		return nil
	}
	closeWrite := func() {
		switch c := wc.(type) {
		case *memConn:
			c.CloseWrite()
		case *net.TCPConn:
			c.CloseWrite()
		default:
			c.Close()
		}
	}
	doRead := func(k int, a *stAct) *mismatch {
		buf := make([]byte, k)
		n, err := r.Read(buf)
		if err == errWouldBlock {
			return &mismatch{kind: "prop", key: "stream/bytes-lost", desc: fmt.Sprintf("Read(%d) at offset %d found no data although %d bytes were written: bytes in flight were lost", k, rcvd, sent)}
		}
		if err != nil {
			return &mismatch{kind: "prop", key: "stream/read-failed", desc: fmt.Sprintf("Read(%d) at offset %d returned (%d, %v)", k, rcvd, n, err)}
		}
		if n < 0 || n > k || rcvd+n > len(data) {
			return &mismatch{kind: "prop", key: "stream/corrupt", desc: fmt.Sprintf("Read(%d) at offset %d returned %d bytes (stream has %d)", k, rcvd, n, len(data))}
		}
		if !bytes.Equal(buf[:n], data[rcvd:rcvd+n]) {
			d := firstDiff(buf[:n], data[rcvd:rcvd+n])
			return &mismatch{kind: "prop", key: "stream/corrupt", desc: fmt.Sprintf("Read(%d) at offset %d returned %d bytes that differ from the bytes written at stream offset %d (got %#x want %#x)", k, rcvd, n, rcvd+d, buf[d], data[rcvd+d])}
		}
		if a != nil && st.drift == "" && (n != a.Res || rcvd != a.Lo) {
			st.drift = fmt.Sprintf("Read(%d) at offset %d returned %d bytes, the model says %d (from the %s)", k, rcvd, n, a.Res, a.Src)
		}
		rcvd += n
		return nil
	}
	drain := func() *mismatch {
		sizes := []int{1, 7, 1024, 4096, 32767, 32768, 32769, 70000}
		for {
			k := sizes[rng.Intn(len(sizes))]
			if k == 1 && len(data)-rcvd > 4096 {
				k = 4096 // single-byte reads only near the end
			}
			buf := make([]byte, k)
			n, err := r.Read(buf)
			if n > 0 {
				if rcvd+n > len(data) || !bytes.Equal(buf[:n], data[rcvd:rcvd+n]) {
					return &mismatch{kind: "prop", key: "stream/corrupt", desc: fmt.Sprintf("draining: Read(%d) at offset %d returned %d bytes that are not the bytes written there", k, rcvd, n)}
				}
				rcvd += n
			}
			if err != nil {
				break
			}
		}
		if rcvd != len(data) {
			return &mismatch{kind: "prop", key: "stream/bytes-lost", desc: fmt.Sprintf("%d bytes were written, only %d arrived before the end of the stream", len(data), rcvd)}
		}
		return nil
	}

	if !concurrent {
		for i, ei := range seq {
			var a stAct
			var to stState
			json.Unmarshal(g.Edges[ei].Act, &a)
			json.Unmarshal(g.Edges[ei].ToSt, &to)
			st.steps++
			var m *mismatch
			if a.Op == "write" {
				m = doWrite(a.N)
			} else {
				m = doRead(a.K, &a)
			}
			if m != nil {
				m.step = i
				return st, m
			}
			if st.drift != "" {
				break // Read sizes diverged from the model: the remaining steps are not comparable one by one
			}
			if sent != to.S.Sent || rcvd != to.S.Rcvd {
				return st, &mismatch{kind: "infra", desc: fmt.Sprintf("replay bookkeeping (%d,%d) differs from the model (%d,%d)", sent, rcvd, to.S.Sent, to.S.Rcvd), step: i}
			}
		}
		// the rest of the stream (writes the behaviour did not reach are not part of it)
		data = data[:sent]
		closeWrite()
		if m := drain(); m != nil {
			m.step = len(seq)
			return st, m
		}
		return st, nil
	}

	// concurrent mode: the writer runs in its own goroutine, the reader executes the
	// behaviour's reads in order (a blocking transport decides the interleaving)
	var wg sync.WaitGroup
	var wmm *mismatch
	wg.Add(1)
	go func() {
		defer wg.Done()
		for _, ei := range seq {
			var a stAct
			json.Unmarshal(g.Edges[ei].Act, &a)
			if a.Op == "write" {
				if m := doWrite(a.N); m != nil {
					wmm = m
					break
				}
			}
		}
		closeWrite()
	}()
	done := make(chan *mismatch, 1)
	go func() {
		for i, ei := range seq {
			var a stAct
			json.Unmarshal(g.Edges[ei].Act, &a)
			if a.Op != "read" {
				continue
			}
			st.steps++
			buf := make([]byte, a.K)
			n, err := r.Read(buf)
			if err != nil && n == 0 {
				break // end of stream reached early: the drain decides
			}
			if rcvd+n > len(data) || !bytes.Equal(buf[:n], data[rcvd:rcvd+n]) {
				done <- &mismatch{kind: "prop", key: "stream/corrupt", desc: fmt.Sprintf("Read(%d) at offset %d returned %d bytes that are not the bytes written there", a.K, rcvd, n), step: i}
				return
			}
			if st.drift == "" && (n != a.Res || rcvd != a.Lo) {
				st.drift = fmt.Sprintf("Read(%d) at offset %d returned %d bytes, the model says %d", a.K, rcvd, n, a.Res)
			}
			rcvd += n
		}
		done <- drain()
	}()
	select {
	case m := <-done:
		if m != nil {
			ca.Close()
			cb.Close()
		}
		wg.Wait()
		for _, ei := range seq {
			var a stAct
			json.Unmarshal(g.Edges[ei].Act, &a)
			if a.Op == "write" {
				st.steps++
			}
		}
		if wmm != nil && m == nil {
			m = wmm
		}
		if m != nil && m.step == 0 {
			m.step = len(seq)
		}
		return st, m
	case <-time.After(60 * time.Second):
		ca.Close()
		cb.Close()
		return st, &mismatch{kind: "infra", desc: "concurrent stream replay stalled for 60 s over " + wire}
	}
}
