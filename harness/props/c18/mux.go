package c18

// Multiplexer binding, part 1 (replay): every behaviour of spec/MConn/MConn (channels,
// messages, packets cut at any of the allowed sizes, ANY interleaving of the channels on
// the stream) is replayed against a REAL receiving conn.MConnection running over a REAL
// SecretConnection.  The sending side is the scripted peer: it writes exactly the
// packets of the behaviour (real ser encoding of conn.PacketMsg, through its own real
// SecretConnection); the packets stay in the harness' copy of the model's stream until the
// behaviour's RecvPacket step writes them.  A Cut step writes only a proper beginning of
// the packet in flight (the cut point is part of the instantiation) and ends the stream;
// the receiver must stop without handing anything over.  After every RecvPacket step a
// PacketPing / PacketPong round trip (the receiver handles packets strictly in order)
// guarantees that the packet has been processed, and the messages handed to onReceive
// so far are compared with the model: which channel, how many, byte-exact content.

import (
	"bufio"
	"bytes"
	"crypto/sha256"
	"encoding/binary"
	"encoding/hex"
	"encoding/json"
	"fmt"
	"math/rand"
	"sync"
	"time"

	"github.com/lianxiangcloud/linkchain/libs/p2p/conn"
	"github.com/lianxiangcloud/linkchain/libs/ser"

	"verifh/mbt"
)

type mxPacket struct {
	Ch  int  `json:"ch"`
	Eof bool `json:"eof"`
	ID  int  `json:"id"`
	Lo  int  `json:"lo"`
	Hi  int  `json:"hi"`
}

type mxAct struct {
	Partial mxPacket `json:"partial"`
	Op      string   `json:"op"`
	Ch      int      `json:"ch"`
	ID      int      `json:"id"`
	N       int      `json:"n"`
	Eof     bool     `json:"eof"`
	Lo      int      `json:"lo"`
	Hi      int      `json:"hi"`
	Deliver bool     `json:"deliver"`
}

type mxMsg struct {
	ID  int `json:"id"`
	Len int `json:"len"`
}

type mxState struct {
	E [][]mxMsg `json:"e"`
	D []int     `json:"d"`
}

// muxContent is the payload of message id of channel ch: it names itself (channel, id,
// length) when it is long enough and is padded with bytes that depend on all three.
func muxContent(ch byte, id, n int) []byte {
	b := make([]byte, n)
	r := rand.New(rand.NewSource(int64(ch)<<40 ^ int64(id)<<20 ^ int64(n)))
	r.Read(b)
	if n >= 9 {
		b[0] = ch
		binary.BigEndian.PutUint32(b[1:], uint32(id))
		binary.BigEndian.PutUint32(b[5:], uint32(n))
	} else {
		b[0] = byte(id*7) ^ ch
	}
	return b
}

func hashOf(b []byte) string {
	h := sha256.Sum256(b)
	return hex.EncodeToString(h[:8])
}

type delivered struct {
	ch      byte
	payload []byte
}

// rxLog collects what onReceive is given (the payload is copied inside the callback: the
// connection reuses the buffer by design).
type rxLog struct {
	mu   sync.Mutex
	msgs []delivered
	errs []string
	sig  chan struct{}
}

func newRxLog() *rxLog { return &rxLog{sig: make(chan struct{}, 1)} }

func (l *rxLog) onReceive(ch byte, b []byte) {
	l.mu.Lock()
	l.msgs = append(l.msgs, delivered{ch, append([]byte(nil), b...)})
	l.mu.Unlock()
	select {
	case l.sig <- struct{}{}:
	default:
	}
}

func (l *rxLog) onError(r interface{}) {
	l.mu.Lock()
	l.errs = append(l.errs, fmt.Sprint(r))
	l.mu.Unlock()
	select {
	case l.sig <- struct{}{}:
	default:
	}
}

func (l *rxLog) snapshot() ([]delivered, []string) {
	l.mu.Lock()
	defer l.mu.Unlock()
	return append([]delivered(nil), l.msgs...), append([]string(nil), l.errs...)
}

type mxVariant struct {
	CutAt   int    // where a Cut step cuts the packet in flight (index into mxCutPoints)
	Scale   int    // every size of the behaviour is multiplied by Scale
	Wire    string // mem-message | mem-stream | mem-trickle
	RecvBuf int    // ChannelDescriptor.RecvBufferCapacity (initial capacity of the assembly buffer)
	IDs     []byte // concrete channel ids
	Prios   []int
}

var (
	mxScales = []int{1, 5, 300, 11000, 22000}
	mxWires  = []string{"mem-message", "mem-stream", "mem-trickle"}
	mxBufs   = []int{0, 1, 4096}
	mxIDSets = [][]byte{{0x20, 0x21, 0x22, 0x23}, {0x00, 0xff, 0x7f, 0x80}, {0x40, 0x30, 0x38, 0x01}}
)

// cut points inside an encoded packet of n bytes (n >= 10: 7 prefix bytes, list header,
// channel id, eof flag, string header, payload)
var mxCutPoints = []func(n int) int{
	func(n int) int { return n - 1 }, // everything but the last byte
	func(n int) int { return 1 },     // one byte
	func(n int) int { return 7 },     // the type prefix only
	func(n int) int { return n / 2 }, // half
	func(n int) int { return 10 },    // just behind the eof flag
	func(n int) int { return 9 },
	func(n int) int { return 11 },
	func(n int) int { return n - 2 },
}

func mxVariantFor(i int) mxVariant {
	return mxVariant{
		CutAt:   (i / 7) % len(mxCutPoints),
		Scale:   mxScales[i%len(mxScales)],
		Wire:    mxWires[(i/2)%len(mxWires)],
		RecvBuf: mxBufs[(i/3)%len(mxBufs)],
		IDs:     mxIDSets[(i/5)%len(mxIDSets)],
		Prios:   []int{1 + i%3, 10, 5, 1},
	}
}

func mconnConfig(p int) conn.MConnConfig {
	cfg := conn.DefaultMConnConfig()
	cfg.SendRate, cfg.RecvRate = 0, 0 // no rate limiting: nothing in the check depends on time
	cfg.MaxPacketMsgPayloadSize = p
	cfg.FlushThrottle = time.Millisecond
	// no keep-alive traffic during a check (the scripted peer does not answer pings, and a
	// stalled machine must not turn into a "pong timeout")
	cfg.PingInterval = 2 * time.Hour
	cfg.PongTimeout = time.Hour
	return cfg
}

// packetReader decodes the packets the real connection writes back (pongs).
func packetReader(sc *conn.SecretConnection, max int, pong chan<- struct{}) {
	br := bufio.NewReaderSize(sc, 65536)
	for {
		var p conn.Packet
		if _, err := ser.DecodeReaderWithType(br, &p, int64(max)); err != nil {
			close(pong)
			return
		}
		if _, ok := p.(conn.PacketPong); ok {
			pong <- struct{}{}
		}
	}
}

func mxReplay(g *mbt.Graph, seq []int, pModel int, v mxVariant, sabotage bool) (steps int, mm *mismatch) {
	ma, mb := newMemPair()
	defer ma.Close()
	defer mb.Close()
	sa, sb, err := securePair(ma, mb)
	if err != nil {
		return 0, honestFailure(err)
	}
	wire := mb.in
	wire.set(func(h *halfPipe) {
		switch v.Wire {
		case "mem-stream":
			h.stream = true
		case "mem-trickle":
			h.stream, h.maxRead = true, 3
		}
	})
	nch := len(v.IDs)
	var descs []*conn.ChannelDescriptor
	for i := 0; i < nch; i++ {
		descs = append(descs, &conn.ChannelDescriptor{ID: v.IDs[i], Priority: v.Prios[i], SendQueueCapacity: 4, RecvBufferCapacity: v.RecvBuf})
	}
	rx := newRxLog()
	cfg := mconnConfig(pModel * v.Scale)
	mc := conn.NewMConnectionWithConfig(sb, descs, rx.onReceive, rx.onError, cfg)
	if err := mc.Start(); err != nil {
		return 0, &mismatch{kind: "infra", desc: "MConnection.Start: " + err.Error()}
	}
	defer mc.Stop()
	pong := make(chan struct{}, 4)
	go packetReader(sa, 1<<20, pong)
	ping := ser.MustEncodeToBytesWithType(conn.PacketPing{})

	barrier := func() error {
		if _, err := sa.Write(ping); err != nil {
			return err
		}
		select {
		case _, ok := <-pong:
			if !ok {
				return fmt.Errorf("the connection was closed")
			}
			return nil
		case <-time.After(20 * time.Second):
			return fmt.Errorf("no pong within 20 s")
		}
	}
	// compare what onReceive got with the model's state
	got := 0 // deliveries compared so far
	content := map[[2]int][]byte{}
	compare := func(i int, a mxAct, to mxState, what string) *mismatch {
		msgs, _ := rx.snapshot()
		want := 0
		for _, d := range to.D {
			want += d
		}
		if len(msgs) > want {
			x := msgs[len(msgs)-1]
			key, why := "mconn/spurious-delivery", ""
			if a.Op == "cut" {
				key = "mconn/truncated-delivery-on-cut"
				full := content[[2]int{a.Partial.Ch, a.Partial.ID}]
				why = fmt.Sprintf("; the stream ended inside packet [ch %d, eof %v, bytes %d..%d of message %d (%d bytes)]: onReceive was handed %d bytes (hash %s), the complete message has hash %s", a.Partial.Ch, a.Partial.Eof, a.Partial.Lo*v.Scale, a.Partial.Hi*v.Scale, a.Partial.ID, len(full), len(x.payload), hashOf(x.payload), hashOf(full))
			}
			return &mismatch{kind: "prop", key: key, desc: fmt.Sprintf("onReceive got %d messages, the model has delivered %d; last one: channel %#x, %d bytes (%s)%s", len(msgs), want, x.ch, len(x.payload), what, why), step: i}
		}
		if len(msgs) < want {
			return &mismatch{kind: "prop", key: "mconn/missing-delivery", desc: fmt.Sprintf("the eof packet of message %d of channel %d was processed but onReceive was not called (%d deliveries, the model has %d)", a.ID, a.Ch, len(msgs), want), step: i}
		}
		for ; got < len(msgs); got++ {
			// the only delivery of this step is the message the model completes
			exp := content[[2]int{a.Ch, a.ID}]
			if sabotage && len(exp) > 0 {
				// negative control: expect one byte to be different from what was sent
				exp = append([]byte(nil), exp...)
				exp[len(exp)-1] ^= 0x5a
			}
			x := msgs[got]
			if !a.Deliver || x.ch != v.IDs[a.Ch-1] || !bytes.Equal(x.payload, exp) {
				return &mismatch{kind: "prop", key: "mconn/corrupt-delivery", desc: fmt.Sprintf("onReceive(%#x, %d bytes, hash %s) differs from message %d of channel %#x as sent (%d bytes, hash %s); first difference at byte %d", x.ch, len(x.payload), hashOf(x.payload), a.ID, v.IDs[a.Ch-1], len(exp), hashOf(exp), firstDiff(x.payload, exp)), step: i}
			}
		}
		// per channel: the number of deliveries equals the model's
		cnt := make([]int, nch)
		for _, m := range msgs {
			for c := 0; c < nch; c++ {
				if v.IDs[c] == m.ch {
					cnt[c]++
				}
			}
		}
		for c := range to.D {
			if cnt[c] != to.D[c] {
				return &mismatch{kind: "prop", key: "mconn/corrupt-delivery", desc: fmt.Sprintf("channel %#x has %d deliveries, the model %d", v.IDs[c], cnt[c], to.D[c]), step: i}
			}
		}
		return nil
	}

	var stage [][]byte // encoded packets in flight (the model's wire)
	for i, ei := range seq {
		e := g.Edges[ei]
		var a mxAct
		var to mxState
		if json.Unmarshal(e.Act, &a) != nil || json.Unmarshal(e.ToSt, &to) != nil {
			return steps, &mismatch{kind: "infra", desc: "bad edge", step: i}
		}
		steps++
		switch a.Op {
		case "send":
			content[[2]int{a.Ch, a.ID}] = muxContent(v.IDs[a.Ch-1], a.ID, a.N*v.Scale)
		case "trysend":
			// the queue is full: nothing is queued, nothing may ever arrive
		case "packet":
			body := content[[2]int{a.Ch, a.ID}][a.Lo*v.Scale : a.Hi*v.Scale]
			pk := conn.PacketMsg{ChannelID: v.IDs[a.Ch-1], Bytes: body}
			if a.Eof {
				pk.EOF = 1
			}
			bz, err := ser.EncodeToBytesWithType(pk)
			if err != nil {
				return steps, &mismatch{kind: "infra", desc: "encoding a packet: " + err.Error(), step: i}
			}
			stage = append(stage, bz)
		case "recv":
			if len(stage) == 0 {
				return steps, &mismatch{kind: "infra", desc: "the model receives a packet the replay never sent", step: i}
			}
			_, werr := sa.Write(stage[0])
			stage = stage[1:]
			var berr error
			if werr == nil {
				berr = barrier()
			}
			if _, errs := rx.snapshot(); len(errs) > 0 {
				return steps, &mismatch{kind: "prop", key: "mconn/connection-failed", desc: fmt.Sprintf("the receiving MConnection stopped with an error after packet [ch %d, eof %v, bytes %d..%d of message %d]: %s", a.Ch, a.Eof, a.Lo*v.Scale, a.Hi*v.Scale, a.ID, errs[0]), step: i}
			}
			if werr != nil || berr != nil {
				return steps, &mismatch{kind: "infra", desc: fmt.Sprintf("scripted sender / ping-pong barrier: %v %v", werr, berr), step: i}
			}
			if m := compare(i, a, to, fmt.Sprintf("after packet [ch %d, eof %v] of message %d", a.Ch, a.Eof, a.ID)); m != nil {
				return steps, m
			}
		case "cut":
			where := "between two packets"
			if a.Partial.Ch != 0 {
				if len(stage) == 0 {
					return steps, &mismatch{kind: "infra", desc: "the model cuts a packet the replay never sent", step: i}
				}
				bz := stage[0]
				k := mxCutPoints[v.CutAt](len(bz))
				if k < 1 {
					k = 1
				}
				if k > len(bz)-1 {
					k = len(bz) - 1
				}
				where = fmt.Sprintf("after %d of the %d bytes of the packet", k, len(bz))
				if _, err := sa.Write(bz[:k]); err != nil {
					return steps, &mismatch{kind: "infra", desc: "scripted sender: " + err.Error(), step: i}
				}
			}
			stage = nil
			ma.CloseWrite()
			// the receiver notices the end of the stream and stops
			deadline := time.After(20 * time.Second)
			for stopped := false; !stopped; {
				if _, errs := rx.snapshot(); len(errs) > 0 {
					break
				}
				select {
				case <-rx.sig:
				case <-time.After(50 * time.Millisecond):
				case <-deadline:
					return steps, &mismatch{kind: "infra", desc: "the receiving MConnection does not notice the end of the stream", step: i}
				}
			}
			if m := compare(i, a, to, "stream cut "+where); m != nil {
				return steps, m
			}
		}
	}
	return steps, nil
}
