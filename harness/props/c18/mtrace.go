package c18

// Multiplexer binding, part 2 (trace validation): two REAL conn.MConnections joined by
// a REAL SecretConnection pair; in both directions one goroutine per channel sends
// messages of 1 byte up to more than five packets (Send and TrySend, small send queues,
// mixed priorities).  Events are appended to one log under one mutex: "send" where the
// call starts (completed with the call's result), "recv" inside onReceive (payload
// copied there).  spec/MConn/Trace_MConn.tla validates every direction of every
// connection; a corrupted copy of a trace must be rejected (negative control).

import (
	"bytes"
	"encoding/binary"
	"encoding/json"
	"fmt"
	"math/rand"
	"net"
	"sync"
	"time"

	"github.com/lianxiangcloud/linkchain/libs/p2p/conn"
)

type trEvent struct {
	E  string `json:"e"`
	Ch int    `json:"ch"`
	ID int    `json:"id"`
	N  int    `json:"n"`
	H  string `json:"h"`
	OK bool   `json:"ok"`
	// not part of the trace
	dir  int
	done bool
}

type trLog struct {
	mu     sync.Mutex
	events []*trEvent
	recvd  [2]int // per direction
	errs   []string
	sig    chan struct{}
}

func (l *trLog) add(e *trEvent) {
	l.mu.Lock()
	l.events = append(l.events, e)
	if e.E == "recv" {
		l.recvd[e.dir]++
	}
	l.mu.Unlock()
	select {
	case l.sig <- struct{}{}:
	default:
	}
}

type trVariant struct {
	P     int    // MaxPacketMsgPayloadSize
	Wire  string // net.Pipe | tcp | mem-stream
	QCap  int    // SendQueueCapacity
	Msgs  int    // messages per channel and direction
	IDs   []byte
	Prios []int
}

type trResult struct {
	v        trVariant
	lines    [2][]string // ndjson lines per direction (without reset/end)
	complete [2]bool
	sent     [2]int
	recvd    [2]int
	refused  int
	mm       *mismatch
}

// trLens: message lengths around the packet boundaries.
func trLen(p int, r *rand.Rand) int {
	switch r.Intn(16) {
	case 0:
		return 1
	case 1:
		return 2
	case 2:
		return 8
	case 3:
		return 9
	case 4:
		return p - 1
	case 5:
		return p
	case 6:
		return p + 1
	case 7:
		return 2*p - 1
	case 8:
		return 2 * p
	case 9:
		return 2*p + 1
	case 10:
		return 5 * p
	case 11:
		return 5*p + 3
	case 12:
		return 6*p + 1 + r.Intn(p)
	default:
		return 1 + r.Intn(3*p)
	}
}

func trRun(v trVariant, seed int64) *trResult {
	res := &trResult{v: v}
	var ca, cb net.Conn
	switch v.Wire {
	case "net.Pipe":
		ca, cb = net.Pipe()
	case "tcp":
		var err error
		if ca, cb, err = tcpPair(); err != nil {
			res.mm = &mismatch{kind: "infra", desc: "tcp loopback: " + err.Error()}
			return res
		}
	default:
		ma, mb := newMemPair()
		ma.in.set(func(h *halfPipe) { h.stream = true })
		mb.in.set(func(h *halfPipe) { h.stream = true })
		ca, cb = ma, mb
	}
	defer ca.Close()
	defer cb.Close()
	sa, sb, err := securePair(ca, cb)
	if err != nil {
		res.mm = honestFailure(err)
		return res
	}
	nch := len(v.IDs)
	idx := map[byte]int{}
	var descs []*conn.ChannelDescriptor
	for i := 0; i < nch; i++ {
		idx[v.IDs[i]] = i + 1
		descs = append(descs, &conn.ChannelDescriptor{ID: v.IDs[i], Priority: v.Prios[i], SendQueueCapacity: v.QCap})
	}
	log := &trLog{sig: make(chan struct{}, 1)}
	mkRecv := func(dir int) func(byte, []byte) {
		return func(ch byte, b []byte) {
			p := append([]byte(nil), b...) // copied inside the callback
			id := 0
			if len(p) >= 9 {
				id = int(binary.BigEndian.Uint32(p[1:]))
			}
			log.add(&trEvent{E: "recv", Ch: idx[ch], ID: id, N: len(p), H: hashOf(p), OK: true, dir: dir})
		}
	}
	mkErr := func(dir int) func(interface{}) {
		return func(r interface{}) {
			log.mu.Lock()
			log.errs = append(log.errs, fmt.Sprintf("direction %d receiver side: %v", dir, r))
			log.mu.Unlock()
			select {
			case log.sig <- struct{}{}:
			default:
			}
		}
	}
	cfg := mconnConfig(v.P)
	// direction 0: A sends, B receives; direction 1: B sends, A receives
	mcA := conn.NewMConnectionWithConfig(sa, descs, mkRecv(1), mkErr(1), cfg)
	mcB := conn.NewMConnectionWithConfig(sb, descs, mkRecv(0), mkErr(0), cfg)
	if err := mcA.Start(); err != nil {
		res.mm = &mismatch{kind: "infra", desc: err.Error()}
		return res
	}
	defer mcA.Stop()
	if err := mcB.Start(); err != nil {
		res.mm = &mismatch{kind: "infra", desc: err.Error()}
		return res
	}
	defer mcB.Stop()

	var wg sync.WaitGroup
	var sentMu sync.Mutex
	sender := func(dir int, mc *conn.MConnection, c int, from, count int, r *rand.Rand) {
		defer wg.Done()
		for id := from; id < from+count; id++ {
			n := trLen(v.P, r)
			payload := muxContent(v.IDs[c], id, n)
			ev := &trEvent{E: "send", Ch: c + 1, ID: id, N: n, H: hashOf(payload), dir: dir}
			log.add(ev)
			var ok bool
			if r.Intn(5) == 0 {
				ok = mc.TrySend(v.IDs[c], payload)
			} else {
				ok = mc.Send(v.IDs[c], payload)
			}
			log.mu.Lock()
			ev.OK, ev.done = ok, true
			log.mu.Unlock()
			sentMu.Lock()
			if ok {
				res.sent[dir]++
			} else {
				res.refused++
			}
			sentMu.Unlock()
		}
	}
	phase := func(from, count int) {
		for dir, mc := range []*conn.MConnection{mcA, mcB} {
			for c := 0; c < nch; c++ {
				wg.Add(1)
				go sender(dir, mc, c, from, count, rand.New(rand.NewSource(seed*1000+int64(dir*100+c)+int64(from))))
			}
		}
		wg.Wait()
	}
	// waitAll waits until everything accepted has been delivered.  "Stalled" is decided by
	// counting polls that saw no progress (at least 100 of them, spread over at least 10 s of
	// this process actually running), not by wall-clock alone: a machine that freezes for a
	// while must not look like a connection that lost messages.
	waitAll := func() (stalled bool, failed string) {
		idlePolls := 0
		idleSince := time.Now()
		last := -1
		for {
			log.mu.Lock()
			r0, r1 := log.recvd[0], log.recvd[1]
			var e string
			if len(log.errs) > 0 {
				e = log.errs[0]
			}
			log.mu.Unlock()
			sentMu.Lock()
			s0, s1 := res.sent[0], res.sent[1]
			sentMu.Unlock()
			if e != "" {
				return false, e
			}
			if r0 >= s0 && r1 >= s1 {
				return false, ""
			}
			if r0+r1 != last {
				last, idlePolls, idleSince = r0+r1, 0, time.Now()
			} else {
				idlePolls++
			}
			if idlePolls >= 100 && time.Since(idleSince) > 10*time.Second {
				return true, ""
			}
			select {
			case <-log.sig:
			case <-time.After(100 * time.Millisecond):
			}
		}
	}
	phase(1, v.Msgs)
	stalled, failed := waitAll()
	if !stalled && failed == "" {
		// one closing message per channel: whatever the connection still holds (a duplicate,
		// a left-over piece) comes out before it
		phase(v.Msgs+1, 1)
		stalled, failed = waitAll()
	}
	log.mu.Lock()
	events := append([]*trEvent(nil), log.events...)
	res.recvd = log.recvd
	log.mu.Unlock()
	for _, e := range events {
		b, _ := json.Marshal(e)
		res.lines[e.dir] = append(res.lines[e.dir], string(b))
	}
	for d := 0; d < 2; d++ {
		res.complete[d] = res.recvd[d] == res.sent[d]
	}
	switch {
	case failed != "":
		res.mm = &mismatch{kind: "prop", key: "mconn/connection-failed", desc: fmt.Sprintf("a healthy connection (%s, no fault injected) stopped with an error while %d+%d messages were accepted and %d+%d delivered: %s", v.Wire, res.sent[0], res.sent[1], res.recvd[0], res.recvd[1], failed)}
	case stalled:
		res.mm = &mismatch{kind: "prop", key: "mconn/messages-lost", desc: fmt.Sprintf("Send accepted %d+%d messages, only %d+%d were delivered and nothing has arrived for 10 s on a healthy connection (%s)", res.sent[0], res.sent[1], res.recvd[0], res.recvd[1], v.Wire)}
	}
	return res
}

// trBundle concatenates traces: reset, the lines of one direction, end (only when complete).
func trBundle(parts [][]string, complete []bool) []byte {
	var b bytes.Buffer
	for i, p := range parts {
		b.WriteString(`{"e":"reset","ch":0,"id":0,"n":0,"h":"","ok":true}` + "\n")
		for _, l := range p {
			b.WriteString(l)
			b.WriteByte('\n')
		}
		if complete[i] {
			b.WriteString(`{"e":"end","ch":0,"id":0,"n":0,"h":"","ok":true}` + "\n")
		}
	}
	return b.Bytes()
}

func trCfg(p, nch int) []byte {
	chans := ""
	for i := 1; i <= nch; i++ {
		if i > 1 {
			chans += ", "
		}
		chans += fmt.Sprint(i)
	}
	return []byte(fmt.Sprintf(`SPECIFICATION TraceSpec
CONSTANTS
  Chans = {%s}
  P = %d
  MsgLens = {}
  MaxMsgs = 1000000
  MaxTotal = 1000000
  QCap = 1000000
  WireCap = 1
  CutBetween = FALSE
  Cuts = {}
INVARIANTS InOrderWhole Assembly
CONSTRAINT Consumed
POSTCONDITION Accepted
VIEW TraceView
CHECK_DEADLOCK FALSE
`, chans, p))
}

// corruptions for the negative control: swap two recv lines of one channel / change one hash
func trSwapRecv(lines []string) []string {
	out := append([]string(nil), lines...)
	first := map[int]int{}
	for i, l := range out {
		var e trEvent
		json.Unmarshal([]byte(l), &e)
		if e.E != "recv" {
			continue
		}
		if j, ok := first[e.Ch]; ok {
			var f trEvent
			json.Unmarshal([]byte(out[j]), &f)
			if f.H != e.H {
				out[i], out[j] = out[j], out[i]
				return out
			}
		} else {
			first[e.Ch] = i
		}
	}
	return nil
}

func trFlipHash(lines []string) []string {
	out := append([]string(nil), lines...)
	for i := len(out) - 1; i >= 0; i-- {
		var e trEvent
		json.Unmarshal([]byte(out[i]), &e)
		if e.E == "recv" && len(e.H) > 0 {
			c := e.H[0]
			if c == '0' {
				c = '1'
			} else {
				c = '0'
			}
			e.H = string(c) + e.H[1:]
			b, _ := json.Marshal(&e)
			out[i] = string(b)
			return out
		}
	}
	return nil
}
