package c18

// Handshake binding: every behaviour of spec/Handshake (honest parties + active
// attacker) is replayed with the honest parties played by the REAL
// conn.MakeSecretConnection (one goroutine per party, each over its own in-memory
// connection) and the network/attacker played by the scripted peer.  After every
// step the outcome of every party is compared with the model:
//   pi_prop = (MakeSecretConnection returned success | error | has not returned,
//              RemotePubKey() of the connection returned).

import (
	crand "crypto/rand"
	"encoding/json"
	"fmt"
	"math/rand"
	"net"
	"sort"
	"strings"
	"time"

	"golang.org/x/crypto/nacl/box"

	"github.com/lianxiangcloud/linkchain/libs/crypto"
	"github.com/lianxiangcloud/linkchain/libs/p2p/conn"
	"github.com/lianxiangcloud/linkchain/libs/ser"

	"verifh/mbt"
)

type hsAct struct {
	Op  string   `json:"op"`
	X   string   `json:"x"`
	R   string   `json:"r"`
	Key string   `json:"key"`
	SK  string   `json:"sk"`
	SC  []string `json:"sc"`
	At  string   `json:"at"`
	Res string   `json:"res"`
}

type hsState struct {
	PC  map[string]string `json:"pc"`
	Rem map[string]string `json:"rem"`
	Est map[string]string `json:"est"`
}

type hsResult struct {
	ok     bool
	remote crypto.PubKey
	err    string
}

// hsVariant is one concrete instantiation of the abstract values of the model.
type hsVariant struct {
	AttKey   string // key type of the attacker: "ed25519" | "secp256k1"
	HonKey   string // key type of the honest parties other than T
	Garbage  string // what "garbage" is: random | bitflip | otherkey | zero | wrongtype | rawpair
	Cut      int    // frame size the attacker cuts its authSigMessage into (0 = one frame)
	BreakEph string // malformed ephemeral key: short | long | list | close | authframe
	BreakAut string // malformed authSigMessage: close | leading | snappy | oversize | junk | truncated
}

var (
	hsAttKeys  = []string{"ed25519", "secp256k1"}
	hsGarbage  = []string{"random", "bitflip", "otherkey", "zero", "wrongtype", "rawpair"}
	hsCuts     = []int{0, 1, 7, 64}
	hsBreakEph = []string{"short", "long", "list", "close", "authframe"}
	hsBreakAut = []string{"close", "leading", "snappy", "oversize", "junk", "truncated"}
)

func hsVariantFor(i int) hsVariant {
	return hsVariant{
		AttKey:   hsAttKeys[i%len(hsAttKeys)],
		HonKey:   hsAttKeys[(i/2)%len(hsAttKeys)],
		Garbage:  hsGarbage[i%len(hsGarbage)],
		Cut:      hsCuts[(i/3)%len(hsCuts)],
		BreakEph: hsBreakEph[i%len(hsBreakEph)],
		BreakAut: hsBreakAut[(i/5)%len(hsBreakAut)],
	}
}

func genKey(kind string) crypto.PrivKey {
	if kind == "secp256k1" {
		return crypto.GenPrivKeySecp256k1()
	}
	return crypto.GenPrivKeyEd25519()
}

// hsWorld holds the long-term keys and the recorded old sessions for one variant.
type hsWorld struct {
	v      hsVariant
	hon    []string
	keys   map[string]crypto.PrivKey // long-term keys by name (honest parties and "M")
	oldEph map[string]*[32]byte      // "oTH" -> ephemeral key T used in its recorded session with H
	oldSig map[string]authSig        // "T|oHT,oTH" -> recorded authSigMessage
	rng    *rand.Rand
}

func chalKey(names []string) string {
	s := append([]string{}, names...)
	sort.Strings(s)
	return strings.Join(s, ",")
}

// tap relays between two honest parties and records what they write.
func recordOldSession(w *hsWorld, x, y string) error {
	xa, xb := newMemPair()
	ya, yb := newMemPair()
	type r struct {
		sc  *conn.SecretConnection
		err error
	}
	cx, cy := make(chan r, 1), make(chan r, 1)
	go func() { sc, err := conn.MakeSecretConnection(xa, w.keys[x]); cx <- r{sc, err} }()
	go func() { sc, err := conn.MakeSecretConnection(ya, w.keys[y]); cy <- r{sc, err} }()
	ex, err := readEph(xb)
	if err != nil {
		return err
	}
	ey, err := readEph(yb)
	if err != nil {
		return err
	}
	if err := writeEph(xb, &ey); err != nil {
		return err
	}
	if err := writeEph(yb, &ex); err != nil {
		return err
	}
	ax, rawx, err := readAuth(xb)
	if err != nil {
		return err
	}
	ay, rawy, err := readAuth(yb)
	if err != nil {
		return err
	}
	xb.Write(frame(rawy))
	yb.Write(frame(rawx))
	for _, c := range []chan r{cx, cy} {
		select {
		case res := <-c:
			if res.err != nil {
				return fmt.Errorf("recorded honest session failed: %v", res.err)
			}
		case <-time.After(20 * time.Second):
			return fmt.Errorf("recorded honest session timed out")
		}
	}
	nx, ny := "o"+x+y, "o"+y+x
	w.oldEph[nx], w.oldEph[ny] = &ex, &ey
	ck := chalKey([]string{nx, ny})
	w.oldSig[x+"|"+ck] = ax
	w.oldSig[y+"|"+ck] = ay
	return nil
}

func newHsWorld(v hsVariant, hon []string, old [][2]string, rng *rand.Rand) (*hsWorld, error) {
	w := &hsWorld{v: v, hon: hon, keys: map[string]crypto.PrivKey{}, oldEph: map[string]*[32]byte{}, oldSig: map[string]authSig{}, rng: rng}
	for _, h := range hon {
		if h == "T" {
			w.keys[h] = genKey("ed25519") // node keys are ed25519
		} else {
			w.keys[h] = genKey(v.HonKey)
		}
	}
	w.keys["M"] = genKey(v.AttKey)
	for _, p := range old {
		if err := recordOldSession(w, p[0], p[1]); err != nil {
			return nil, err
		}
	}
	return w, nil
}

type hsParty struct {
	name    string
	att     net.Conn // the attacker's end of the party's connection
	done    chan hsResult
	eph     [32]byte
	auth    authSig // what the party wrote in this session
	hasAuth bool
	res     *hsResult
}

type hsSession struct {
	w       *hsWorld
	parties map[string]*hsParty
	attEph  map[string]*[32]byte
	hsBook
}

func (w *hsWorld) newSession() (*hsSession, error) {
	s := &hsSession{w: w, parties: map[string]*hsParty{}, attEph: map[string]*[32]byte{}}
	for _, h := range w.hon {
		a, b := newMemPair()
		p := &hsParty{name: h, att: b, done: make(chan hsResult, 1)}
		s.parties[h] = p
		key := w.keys[h]
		go func() {
			var r hsResult
			defer func() {
				if rec := recover(); rec != nil {
					r = hsResult{err: fmt.Sprintf("panic: %v", rec)}
				}
				p.done <- r
			}()
			sc, err := conn.MakeSecretConnection(a, key)
			if err != nil || sc == nil {
				r = hsResult{err: fmt.Sprint(err)}
				return
			}
			r = hsResult{ok: true, remote: sc.RemotePubKey()}
		}()
	}
	// every party writes its ephemeral key unconditionally
	for _, h := range w.hon {
		e, err := readEph(s.parties[h].att)
		if err != nil {
			return nil, fmt.Errorf("reading the ephemeral key of %s: %v", h, err)
		}
		s.parties[h].eph = e
	}
	return s, nil
}

func (s *hsSession) close() {
	for _, p := range s.parties {
		p.att.Close()
	}
}

// eph maps an ephemeral key name of the model to the concrete key.
func (s *hsSession) eph(name string) *[32]byte {
	if strings.HasPrefix(name, "o") {
		return s.w.oldEph[name]
	}
	if p, ok := s.parties[strings.TrimPrefix(name, "e")]; ok && strings.HasPrefix(name, "e") {
		return &p.eph
	}
	if e, ok := s.attEph[name]; ok {
		return e
	}
	pub, _, err := box.GenerateKey(crand.Reader)
	if err != nil {
		panic(err)
	}
	s.attEph[name] = pub
	return pub
}

// challenge maps a challenge of the model (a set of one or two ephemeral key names) to bytes.
func (s *hsSession) challenge(names []string) []byte {
	if len(names) == 1 {
		return sortedChallenge(s.eph(names[0]), s.eph(names[0]))
	}
	return sortedChallenge(s.eph(names[0]), s.eph(names[1]))
}

func (s *hsSession) pub(name string) crypto.PubKey {
	if name == "nil" {
		return nil
	}
	return s.w.keys[name].PubKey()
}

// signature maps a signature of the model to concrete bytes.
func (s *hsSession) signature(x *hsParty, sk string, sc []string) (crypto.Signature, error) {
	w := s.w
	switch {
	case sk == "M":
		return w.keys["M"].Sign(s.challenge(sc))
	case sk == "garbage":
		right := sortedChallenge(&x.eph, &x.eph)
		if r := s.remOf[x.name]; r != nil {
			right = sortedChallenge(&x.eph, r)
		}
		switch w.v.Garbage {
		case "random":
			var b [64]byte
			w.rng.Read(b[:])
			return crypto.SignatureEd25519(b), nil
		case "bitflip": // the attacker's valid signature over the right challenge with one bit flipped
			sig, err := w.keys["M"].Sign(right)
			if err != nil {
				return nil, err
			}
			switch t := sig.(type) {
			case crypto.SignatureEd25519:
				t[w.rng.Intn(len(t))] ^= 1 << uint(w.rng.Intn(8))
				return t, nil
			case crypto.SignatureSecp256k1:
				c := append(crypto.SignatureSecp256k1{}, t...)
				c[len(c)-1-w.rng.Intn(8)] ^= 1 << uint(w.rng.Intn(8))
				return c, nil
			}
			return sig, nil
		case "otherkey": // a fresh key nobody presents signs the right challenge
			return genKey(w.v.AttKey).Sign(right)
		case "zero":
			return crypto.SignatureEd25519{}, nil
		case "wrongtype": // right challenge, signed by the attacker's key of the OTHER algorithm
			other := "secp256k1"
			if w.v.AttKey == "secp256k1" {
				other = "ed25519"
			}
			return genKey(other).Sign(right)
		default: // "rawpair": the attacker signs the UNSORTED / one-sided hash of the keys
			if r := s.remOf[x.name]; r != nil && *r != x.eph {
				lo, hi := &x.eph, r
				if string(sortedChallenge(lo, hi)) == string(rawChallenge(lo, hi)) {
					lo, hi = hi, lo
				}
				return w.keys["M"].Sign(rawChallenge(lo, hi))
			}
			return w.keys["M"].Sign(rawChallenge(&x.eph)) // one key only
		}
	default:
		// a signature an honest party wrote: in its current session or in a recorded one
		if p, ok := s.parties[sk]; ok && p.hasAuth && chalKey(sc) == chalKey(s.chalOf[sk]) {
			return p.auth.Sig, nil
		}
		if a, ok := w.oldSig[sk+"|"+chalKey(sc)]; ok {
			return a.Sig, nil
		}
		return nil, fmt.Errorf("the model uses a signature of %s over %v that the replay never saw", sk, sc)
	}
}

// hsBook: what the behaviour delivered so far (to recompute challenges)
type hsBook struct {
	remOf  map[string]*[32]byte
	chalOf map[string][]string
}

func (s *hsSession) poll(p *hsParty, wait time.Duration) *hsResult {
	if p.res != nil {
		return p.res
	}
	if wait == 0 {
		select {
		case r := <-p.done:
			p.res = &r
		default:
		}
		return p.res
	}
	select {
	case r := <-p.done:
		p.res = &r
	case <-time.After(wait):
	}
	return p.res
}

func (s *hsSession) malformedEph(p *hsParty) {
	switch s.w.v.BreakEph {
	case "short":
		var b [31]byte
		ser.EncodeWriterWithType(p.att, b)
	case "long":
		var b [33]byte
		ser.EncodeWriterWithType(p.att, b)
	case "list":
		ser.EncodeWriterWithType(p.att, []uint{1, 2, 3})
	case "authframe": // an authSigMessage where the ephemeral key is expected (reordering)
		sig, _ := s.w.keys["M"].Sign([]byte("x"))
		bz, _ := encodeAuth(s.w.keys["M"].PubKey(), sig)
		p.att.Write(frame(bz))
	default: // close
	}
	p.att.Close()
}

func (s *hsSession) malformedAuth(p *hsParty) {
	sig, _ := s.w.keys["M"].Sign(s.challenge(s.chalOf[p.name]))
	bz, _ := encodeAuth(s.w.keys["M"].PubKey(), sig) // a VALID message, then damaged
	switch s.w.v.BreakAut {
	case "leading":
		f := frame(bz)
		f[0] = 0x1F // unknown version
		p.att.Write(f)
	case "snappy":
		f := frame(bz)
		for i := frameHdr; i < len(f); i++ {
			f[i] ^= 0xA5
		}
		p.att.Write(f)
	case "oversize":
		f := frame(bz)
		f[1], f[2], f[3], f[4] = 0x7f, 0xff, 0xff, 0xff
		p.att.Write(f)
	case "junk":
		j := make([]byte, 40)
		s.w.rng.Read(j)
		j[0] = 0xc0 | 0x30
		p.att.Write(frame(j))
	case "truncated":
		p.att.Write(frame(bz[:len(bz)/2]))
	default: // close
	}
	p.att.Close()
}

func hsReplay(w *hsWorld, g *mbt.Graph, seq []int, sabotage bool) (steps int, mm *mismatch) {
	s, err := w.newSession()
	if err != nil {
		return 0, &mismatch{kind: "infra", desc: err.Error()}
	}
	s.remOf = map[string]*[32]byte{}
	s.chalOf = map[string][]string{}
	defer s.close()
	const wait = 20 * time.Second
	check := func(step int, st hsState, acted string) *mismatch {
		for _, h := range w.hon {
			p := s.parties[h]
			pc := st.PC[h]
			switch pc {
			case "eph", "auth":
				if r := s.poll(p, 0); r != nil {
					if r.ok {
						return &mismatch{"prop", "handshake/established-early", fmt.Sprintf("party %s: MakeSecretConnection returned success (RemotePubKey %v) while the model is still waiting for the %s message", h, r.remote, pc), step}
					}
					return &mismatch{"prop", "handshake/honest-rejected", fmt.Sprintf("party %s: MakeSecretConnection failed (%s) while the model is still waiting for the %s message", h, r.err, pc), step}
				}
			case "ok", "peer", "refused":
				r := s.poll(p, wait)
				if r == nil {
					return &mismatch{"infra", "", fmt.Sprintf("party %s: no result within %v (model: established)", h, wait), step}
				}
				want := s.pub(st.Est[h])
				if !r.ok {
					return &mismatch{"prop", "handshake/honest-rejected", fmt.Sprintf("party %s: MakeSecretConnection failed (%s); the model establishes the connection with key %s", h, r.err, st.Est[h]), step}
				}
				if r.remote == nil || !r.remote.Equals(want) {
					return &mismatch{"prop", "handshake/wrong-remote-key", fmt.Sprintf("party %s: RemotePubKey() = %v, the model says %s = %v", h, r.remote, st.Est[h], want), step}
				}
			case "fail":
				r := s.poll(p, wait)
				if r == nil {
					return &mismatch{"infra", "", fmt.Sprintf("party %s: no result within %v (model: failed)", h, wait), step}
				}
				if r.ok {
					return &mismatch{"prop", "handshake/accepted-unauthenticated", fmt.Sprintf("party %s: MakeSecretConnection succeeded with RemotePubKey %v; the model rejects the handshake", h, r.remote), step}
				}
			}
		}
		return nil
	}
	for i, ei := range seq {
		e := g.Edges[ei]
		var a hsAct
		var st hsState
		if json.Unmarshal(e.Act, &a) != nil || json.Unmarshal(e.ToSt, &st) != nil {
			return steps, &mismatch{kind: "infra", desc: "bad edge"}
		}
		p := s.parties[a.X]
		steps++
		if sabotage && a.Op == "auth" {
			// negative control: expect the opposite outcome of the first authSigMessage
			sabotage = false
			if st.PC[a.X] == "ok" {
				st.PC[a.X] = "fail"
			} else {
				st.PC[a.X], st.Est[a.X] = "ok", a.Key
			}
		}
		switch a.Op {
		case "eph":
			r := s.eph(a.R)
			if err := writeEph(p.att, r); err != nil {
				return steps, &mismatch{kind: "infra", desc: err.Error(), step: i}
			}
			s.remOf[a.X] = r
			s.chalOf[a.X] = []string{"e" + a.X, a.R}
			if a.R == "e"+a.X {
				s.chalOf[a.X] = []string{a.R} // the set {E[x], r} has one element
			}
			// the party answers with its authSigMessage
			m, _, err := readAuth(p.att)
			if err != nil {
				if res := s.poll(p, time.Second); res != nil && !res.ok {
					return steps, &mismatch{"prop", "handshake/honest-rejected", fmt.Sprintf("party %s gave up after reading a well-formed ephemeral key: %s", a.X, res.err), i}
				}
				return steps, &mismatch{kind: "infra", desc: fmt.Sprintf("reading the authSigMessage of %s: %v", a.X, err), step: i}
			}
			p.auth, p.hasAuth = m, true
			// the model adds Sig(x, {E[x], r}) to what exists: the party proves possession of ITS key over THIS challenge
			if m.Key == nil || !m.Key.Equals(s.pub(a.X)) || !m.Key.VerifyBytes(sortedChallenge(&p.eph, r), m.Sig) {
				return steps, &mismatch{"prop", "handshake/own-proof-invalid", fmt.Sprintf("party %s wrote an authSigMessage that is not its key's signature over the challenge of the two ephemeral keys of this session", a.X), i}
			}
		case "auth":
			sig, err := s.signature(p, a.SK, a.SC)
			if err != nil {
				return steps, &mismatch{kind: "infra", desc: err.Error(), step: i}
			}
			bz, err := encodeAuth(s.pub(a.Key), sig)
			if err != nil {
				return steps, &mismatch{kind: "infra", desc: "encoding the authSigMessage: " + err.Error(), step: i}
			}
			if err := writeFramed(p.att, bz, w.v.Cut); err != nil {
				return steps, &mismatch{kind: "infra", desc: err.Error(), step: i}
			}
		case "break":
			if a.At == "eph" {
				s.malformedEph(p)
			} else {
				s.malformedAuth(p)
			}
		case "nodeinfo":
			// the NodeInfo exchange belongs to the Switch: replayed by peerReplay
			return steps - 1, nil
		}
		if mm := check(i, st, a.X); mm != nil {
			return steps, mm
		}
	}
	// parties the behaviour leaves waiting: cutting the connection must not establish anything
	for _, h := range w.hon {
		p := s.parties[h]
		if p.res == nil {
			p.att.Close()
			r := s.poll(p, wait)
			if r == nil {
				return steps, &mismatch{"infra", "", fmt.Sprintf("party %s does not return after its connection was closed", h), len(seq)}
			}
			if r.ok {
				return steps, &mismatch{"prop", "handshake/accepted-unauthenticated", fmt.Sprintf("party %s: MakeSecretConnection succeeded (RemotePubKey %v) on a connection that was cut before the handshake completed", h, r.remote), len(seq)}
			}
		}
	}
	return steps, nil
}
